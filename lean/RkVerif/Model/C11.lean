/-
Model of the rkcommon array wrappers (rkcommon/utility/AbstractArray.h, ArrayView.h, OwnedArray.h,
FixedArray.h, FixedArrayView.h, DataView.h).  Hand-written, executable, core Lean only.  Tied to the
source by the correspondence check (harness/c11.cpp vs Driver/C11.lean).

Memory is a `Heap` of allocations (id = index, ids are never reused): `live`, a ghost `tag` saying who
made the allocation (caller buffer / std::vector storage / `new T[n]` held by a shared_ptr), and the
element values.  A wrapper holds exactly the C++ members:

  AbstractArray      ptr, numItems                    `Base` (`ptr = none` is nullptr)
  ArrayView          (nothing else)
  OwnedArray         std::vector<T> dataBuf           allocation id of the vector's storage
  FixedArray         std::shared_ptr<T> array         `Option` allocation id (shared)
  FixedArrayView     FixedArray<T> data (by value)    the `array` of that copy (shares the allocation)

`setPtr(p, n)` stores `n > 0 ? p : nullptr`.

std::vector: every structural operation on the vector (construction, assignment, clear+shrink,
resize, move) is modelled as "new allocation, old one freed".  The standard allows reallocation on
growth and invalidates iterators/pointers in the other cases only partially; treating every case as
reallocating is the worst case for everything that keeps a pointer into the vector (a forgotten
`setPtr` always dangles in the model).  shared_ptr: the allocation is freed when the last wrapper
holding it lets go (`release`), which is the specification of shared_ptr.

`Cfg` selects the special member functions: `Cfg.fixed` is the code as it is now (user-provided
OwnedArray copy/move re-pointing to the own buffer; FixedArrayView holding a FixedArray by value);
`Cfg.legacy` is what the compiler generated for the code before the two repairs (memberwise
OwnedArray copy with `ptr` copied verbatim and no move; FixedArrayView keeping only the FixedArray
*object* alive, not the allocation it pointed into).  Only used for the witnesses in Props.
-/
namespace RkVerif.C11

inductive Tag where
  | buf | vec | shared
deriving DecidableEq, Repr

structure Cell where
  live : Bool
  tag : Tag
  data : List Nat
deriving Repr, DecidableEq

abbrev Heap := List Cell

structure Ptr where
  a : Nat
  off : Nat
deriving DecidableEq, Repr

/-- AbstractArray<T>::ptr / numItems -/
structure Base where
  ptr : Option Ptr
  n : Nat
deriving DecidableEq, Repr

/-- AbstractArray<T>::setPtr -/
def setPtr (p : Option Ptr) (n : Nat) : Base := ⟨if n > 0 then p else none, n⟩

inductive W where
  | av (b : Base)
  | oa (b : Base) (buf : Nat)
  | fa (b : Base) (arr : Option Nat)
  | fav (b : Base) (keep : Option Nat)
deriving DecidableEq, Repr

def W.base : W → Base
  | .av b => b
  | .oa b _ => b
  | .fa b _ => b
  | .fav b _ => b

/-- does the wrapper own a share of the shared allocation `a` -/
def W.holds (w : W) (a : Nat) : Bool :=
  match w with
  | .fa _ (some x) => x == a
  | .fav _ (some x) => x == a
  | _ => false

def W.owning : W → Bool
  | .av _ => false
  | _ => true

structure State where
  heap : Heap := []
  bufs : List (Option Nat) := []
  ws : List (Option W) := []
deriving Repr

def State.init (nb nw : Nat) : State := { heap := [], bufs := List.replicate nb none, ws := List.replicate nw none }

structure Cfg where
  oaRepoint : Bool
  favHoldsAlloc : Bool
deriving Repr, DecidableEq

def Cfg.fixed : Cfg := ⟨true, true⟩
def Cfg.legacy : Cfg := ⟨false, false⟩

/-! ### heap primitives -/

def deadCell : Cell := ⟨false, .buf, []⟩
def cellAt (h : Heap) (a : Nat) : Cell := h.getD a deadCell
def liveAt (h : Heap) (a : Nat) : Bool := (cellAt h a).live
def lenAt (h : Heap) (a : Nat) : Nat := (cellAt h a).data.length

def alloc (h : Heap) (t : Tag) (xs : List Nat) : Heap × Nat := (h ++ [⟨true, t, xs⟩], h.length)
def free (h : Heap) (a : Nat) : Heap := h.set a { cellAt h a with live := false }
def write (h : Heap) (a k v : Nat) : Heap := h.set a { cellAt h a with data := (cellAt h a).data.set k v }

/-- `[ptr, ptr+n)` designates live storage -/
def Base.valid (h : Heap) (b : Base) : Bool :=
  match b.ptr with
  | none => b.n == 0
  | some p => liveAt h p.a && decide (p.off + b.n ≤ lenAt h p.a)

/-- the elements `*ptr … *(ptr+n-1)` -/
def Base.read (h : Heap) (b : Base) : List Nat :=
  match b.ptr with
  | none => []
  | some p => ((cellAt h p.a).data.drop p.off).take b.n

def getW (s : State) (i : Nat) : Option W := s.ws.getD i none
def getBuf (s : State) (b : Nat) : Option Nat := s.bufs.getD b none

/-! ### shared_ptr / vector lifetime -/

def holdsAny (ws : List (Option W)) (a : Nat) : Bool :=
  ws.any fun o => match o with
    | some w => w.holds a
    | none => false

/-- drop one share of `a`: freed iff no wrapper holds it any more -/
def release (h : Heap) (ws : List (Option W)) (a : Nat) : Heap :=
  if holdsAny ws a then h else free h a

/-- run the destructor of the members of a wrapper that was just replaced / destroyed;
    `ws` is the pool *after* the replacement -/
def dispose (h : Heap) (ws : List (Option W)) : Option W → Heap
  | some (.oa _ buf) => free h buf
  | some (.fa _ (some a)) => release h ws a
  | some (.fav _ (some a)) => release h ws a
  | _ => h

/-- slot `i` := `w` (constructed beforehand, possibly from the old occupant), then the old occupant dies -/
def install (s : State) (i : Nat) (w : Option W) : State :=
  let old := getW s i
  let ws' := s.ws.set i w
  { s with ws := ws', heap := dispose s.heap ws' old }

/-! ### sources handed to constructors / assignments -/

inductive Src where
  | null
  | buf (b off cnt : Nat)   -- caller buffer b: (data()+off, cnt)
  | wr (j off cnt : Nat)    -- (wrapper j).data()+off, cnt
deriving Repr, DecidableEq

structure Res where
  ptr : Option Ptr
  cnt : Nat
  vals : List Nat
deriving Repr

/-- `none`: the caller-side precondition (source range is live storage) does not hold -/
def resolve (s : State) : Src → Option Res
  | .null => some ⟨none, 0, []⟩
  | .buf b off cnt =>
    match getBuf s b with
    | none => none
    | some a =>
      if off + cnt ≤ lenAt s.heap a then
        some ⟨some ⟨a, off⟩, cnt, ((cellAt s.heap a).data.drop off).take cnt⟩
      else none
  | .wr j off cnt =>
    match getW s j with
    | none => none
    | some w =>
      let b := w.base
      if b.valid s.heap && decide (off + cnt ≤ b.n) then
        match b.ptr with
        | none => some ⟨none, cnt, []⟩
        | some p => some ⟨some ⟨p.a, p.off + off⟩, cnt, ((cellAt s.heap p.a).data.drop (p.off + off)).take cnt⟩
      else none

/-! ### constructors of the four wrappers -/

/-- ArrayView(T*, size) / ArrayView(vector&) / reset(T*, size) / operator=(vector&) -/
def mkAV (r : Res) : W := .av (setPtr r.ptr r.cnt)

/-- OwnedArray: `dataBuf(first, last)` then `setPtr(dataBuf.data(), dataBuf.size())` -/
def mkOA (h : Heap) (vals : List Nat) : Heap × W :=
  let (h', a) := alloc h .vec vals
  (h', .oa (setPtr (some ⟨a, 0⟩) vals.length) a)

/-- FixedArray(size) + memcpy: `array(new T[n])`, `setPtr(array.get(), n)` -/
def mkFA (h : Heap) (vals : List Nat) : Heap × W :=
  let (h', a) := alloc h .shared vals
  (h', .fa (setPtr (some ⟨a, 0⟩) vals.length) (some a))

/-- FixedArrayView(fa, offset, size): `data(*fa)`, `setPtr(data.begin() + offset, size)` -/
def mkFAV (cfg : Cfg) (b : Base) (arr : Option Nat) (off cnt : Nat) : W :=
  .fav (setPtr (b.ptr.map fun p => ⟨p.a, p.off + off⟩) cnt) (if cfg.favHoldsAlloc then arr else none)

inductive Op where
  | bufNew (b : Nat) (xs : List Nat)
  | bufFree (b : Nat)
  | bufSet (b k v : Nat)
  | avDefault (i : Nat)
  | avSet (i : Nat) (src : Src) (fresh : Bool)
  | avReset (i : Nat)
  | oaDefault (i : Nat)
  | oaSet (i : Nat) (src : Src) (fresh : Bool)
  | oaReset (i : Nat)
  | oaResize (i n v : Nat)
  | faDefault (i : Nat)
  | faSize (i : Nat) (xs : List Nat)
  | faSet (i : Nat) (src : Src) (fresh : Bool)
  | favDefault (i : Nat)
  | favNew (i j off cnt : Nat)
  | copy (i j : Nat) (mv : Bool)
  | assign (i j : Nat) (mv : Bool)
  | destroy (i : Nat)
  | wset (i k v : Nat)
deriving Repr, DecidableEq

def isAV : Option W → Bool | some (.av _) => true | _ => false
def isOA : Option W → Bool | some (.oa _ _) => true | _ => false
def isFA : Option W → Bool | some (.fa _ _) => true | _ => false

/-- copy / move construction of a new object from `w`; the flag says that it was a real move, after
    which the source runs `other.reset()` -/
def copyOf (cfg : Cfg) (h : Heap) (w : W) (mv : Bool) : Heap × W × Bool :=
  match w with
  | .oa b buf =>
    if cfg.oaRepoint then
      let (h1, n) := mkOA h (cellAt h buf).data
      (h1, n, mv)
    else
      -- implicitly generated copy constructor (no move exists): dataBuf deep-copied, ptr verbatim
      let (h1, a) := alloc h .vec (cellAt h buf).data
      (h1, .oa b a, false)
  | w => (h, w, false)                  -- memberwise copy is what the code has (shared_ptr shares)

/-- `other.reset()` of a moved-from OwnedArray in slot `j`: empty vector, `setPtr(nullptr, 0)` -/
def resetSrc (s : State) (j : Nat) : State :=
  let (h1, e) := mkOA s.heap []
  install { s with heap := h1 } j (some e)

/-- one operation; `none` = a caller-side precondition does not hold (nothing happens) -/
def step (cfg : Cfg) (s : State) : Op → Option State
  | .bufNew b xs =>
    if b < s.bufs.length then
      let (h1, a) := alloc s.heap .buf xs
      let h2 := match getBuf s b with
        | some old => free h1 old
        | none => h1
      some { s with heap := h2, bufs := s.bufs.set b (some a) }
    else none
  | .bufFree b =>
    match getBuf s b with
    | some a => some { s with heap := free s.heap a, bufs := s.bufs.set b none }
    | none => none
  | .bufSet b k v =>
    match getBuf s b with
    | some a => if k < lenAt s.heap a then some { s with heap := write s.heap a k v } else none
    | none => none
  | .avDefault i => some (install s i (some (.av ⟨none, 0⟩)))
  | .avSet i src fresh =>
    if fresh || isAV (getW s i) then
      match resolve s src with
      | some r => some (install s i (some (mkAV r)))
      | none => none
    else none
  | .avReset i => if isAV (getW s i) then some (install s i (some (.av (setPtr none 0)))) else none
  | .oaDefault i =>
    let (h1, w) := mkOA s.heap []
    some (install { s with heap := h1 } i (some w))
  | .oaSet i src fresh =>
    if fresh || isOA (getW s i) then
      match resolve s src with
      | some r =>
        let (h1, w) := mkOA s.heap r.vals
        some (install { s with heap := h1 } i (some w))
      | none => none
    else none
  | .oaReset i =>
    if isOA (getW s i) then
      let (h1, w) := mkOA s.heap []
      some (install { s with heap := h1 } i (some w))
    else none
  | .oaResize i n v =>
    match getW s i with
    | some (.oa _ buf) =>
      let old := (cellAt s.heap buf).data
      let (h1, w) := mkOA s.heap (old.take n ++ List.replicate (n - old.length) v)
      some (install { s with heap := h1 } i (some w))
    | _ => none
  | .faDefault i => some (install s i (some (.fa ⟨none, 0⟩ none)))
  | .faSize i xs =>
    let (h1, w) := mkFA s.heap xs
    some (install { s with heap := h1 } i (some w))
  | .faSet i src fresh =>
    if fresh || isFA (getW s i) then
      match resolve s src with
      | some r =>
        let (h1, w) := mkFA s.heap r.vals
        some (install { s with heap := h1 } i (some w))
      | none => none
    else none
  | .favDefault i => some (install s i (some (.fav ⟨none, 0⟩ none)))
  | .favNew i j off cnt =>
    match getW s j with
    | some (.fa b arr) =>
      if off + cnt ≤ b.n then some (install s i (some (mkFAV cfg b arr off cnt))) else none
    | _ => none
  | .copy i j mv =>
    match getW s j with
    | some w =>
      let (h1, n, moved) := copyOf cfg s.heap w mv
      let s1 := install { s with heap := h1 } i (some n)
      if moved && i != j then some (resetSrc s1 j) else some s1
    | none => none
  | .assign i j mv =>
    match getW s i, getW s j with
    | some (.av _), some (.av b) => some (install s i (some (.av b)))
    | some (.fa _ _), some (.fa b arr) => some (install s i (some (.fa b arr)))
    | some (.fav _ _), some (.fav b k) => some (install s i (some (.fav b k)))
    | some (.oa _ _), some (.oa b buf) =>
      if i = j then some s                 -- self assignment changes nothing
      else if cfg.oaRepoint then
        let (h1, n, moved) := copyOf cfg s.heap (.oa b buf) mv
        let s1 := install { s with heap := h1 } i (some n)
        if moved then some (resetSrc s1 j) else some s1
      else
        -- implicitly generated copy assignment: base members verbatim, dataBuf = other.dataBuf
        let (h1, a) := alloc s.heap .vec (cellAt s.heap buf).data
        some (install { s with heap := h1 } i (some (.oa b a)))
    | _, _ => none
  | .destroy i =>
    match getW s i with
    | some _ => some (install s i none)
    | none => none
  | .wset i k v =>
    match getW s i with
    | some w =>
      let b := w.base
      if b.valid s.heap && decide (k < b.n) then
        match b.ptr with
        | some p => some { s with heap := write s.heap p.a (p.off + k) v }
        | none => none
      else none
    | none => none

def stepT (cfg : Cfg) (s : State) (op : Op) : State := (step cfg s op).getD s

/-- History given most-recent-first, from a pool of `nb` buffer slots and `nw` wrapper slots. -/
def runR (cfg : Cfg) (nb nw : Nat) : List Op → State
  | [] => State.init nb nw
  | op :: earlier => stepT cfg (runR cfg nb nw earlier) op

/-! ### read-only interface of AbstractArray -/

def size (b : Base) : Nat := b.n
def toBool (b : Base) : Bool := b.n != 0

/-- `at(offset)`: the element location, `none` = std::runtime_error thrown -/
def at? (b : Base) (k : Nat) : Option Ptr :=
  if k ≥ b.n then none else b.ptr.map fun p => ⟨p.a, p.off + k⟩

/-- `for (p = begin(); p != end(); ++p)` with fuel: the offsets (relative to `ptr`) visited;
    `none` = the loop did not terminate within the fuel -/
def walk (cur stop : Nat) : Nat → Option (List Nat)
  | 0 => if cur = stop then some [] else none
  | fuel + 1 => if cur = stop then some [] else (walk (cur + 1) stop fuel).map (cur :: ·)

/-- begin() = ptr (offset 0), end() = ptr + size() -/
def iterate (b : Base) (fuel : Nat) : Option (List Nat) := walk 0 b.n fuel

/-! ### DataView<T> over a byte buffer: `*reinterpret_cast<const T*>(ptr + index*stride)` -/

structure DV where
  base : Nat      -- ptr, as a byte offset into the buffer it was made from
  stride : Nat

/-- the `tsize` bytes of the T read by `operator[](index)`; `none` = outside the buffer -/
def DV.read (bytes : List Nat) (d : DV) (tsize index : Nat) : Option (List Nat) :=
  let o := d.base + index * d.stride
  if o + tsize ≤ bytes.length then some ((bytes.drop o).take tsize) else none

end RkVerif.C11
