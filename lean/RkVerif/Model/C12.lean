/-
Model of rkcommon::containers::TransactionalBuffer (rkcommon/containers/TransactionalBuffer.h) and
rkcommon::utility::TransactionalValue (rkcommon/utility/TransactionalValue.h).

Hand-written, executable, core Lean only.  Tied to the source by
  * the access table regenerated from the clang AST (RkVerif/Gen/C12Table.lean): `locksetOk`,
    `singleSection`, `tvalShapeOk` below are decided over it in Props/C12.lean and justify the step
    granularity used here (a method whose accesses all lie in one scoped-lock section of the class's
    only mutex is ONE atomic step; an access outside a lock is a step of its own);
  * the correspondence check (harness/c12.cpp vs Driver/C12.lean).

TransactionalBuffer<T>:  std::vector<T> buffer + mutex
  push_back(v) = lock; buffer.push_back(v)
  consume()    = lock; return std::move(buffer)       (buffer is left empty)
  size()/empty() = lock; buffer.size()/buffer.empty()

TransactionalValue<T>:  flag newValue, T queuedValue, T currentValue + mutex
  operator=(v) = lock; queuedValue = v; newValue = true
  update()     = if (newValue)            -- read of the flag, OUTSIDE the lock (own step)
                   { lock; currentValue = std::move(queuedValue); newValue = false; return true }
                 return false
  get()/ref()  = currentValue             -- only the consumer touches currentValue
-/
namespace RkVerif.C12

/-! ## Access table vocabulary (tie T) -/

/-- Role of a method in the documented usage. -/
inductive Role where
  | producer   -- TransactionalBuffer::push_back, TransactionalValue::operator=
  | consumer   -- consume / update, get, ref
  | anyThread  -- size, empty: callable from every thread
  | init       -- constructors / destructor: happen-before / after the sharing
  | other      -- not part of the documented usage
deriving DecidableEq, Repr

/-- One access of a method to a data member of `*this`. -/
structure Access where
  meth : Nat
  role : Role
  loc : Nat
  write : Bool
  sect : Option Nat     -- scoped-lock section of the method the access lies in
  atomic : Bool         -- the member is a std::atomic
deriving DecidableEq, Repr

/-- May executions of methods with these roles overlap in time?  `multi` = several producers. -/
def concurrent (multi : Bool) : Role → Role → Bool
  | .producer, .producer => multi
  | .producer, .consumer => true
  | .consumer, .producer => true
  | .consumer, .consumer => false
  | .anyThread, .producer => true
  | .anyThread, .consumer => true
  | .anyThread, .anyThread => true
  | .producer, .anyThread => true
  | .consumer, .anyThread => true
  | _, _ => false

/-- Two accesses that form a C++ data race unless ordered: same location, overlapping roles, one a
    write, and not (both under the mutex or both atomic). -/
def racePair (multi : Bool) (a b : Access) : Bool :=
  a.loc == b.loc && concurrent multi a.role b.role && (a.write || b.write) &&
    !((a.sect.isSome && b.sect.isSome) || (a.atomic && b.atomic))

def locksetOk (multi : Bool) (t : List Access) : Bool :=
  t.all fun a => t.all fun b => !racePair multi a b

def usageRole : Role → Bool
  | .producer | .consumer | .anyThread => true
  | _ => false

/-- Every access of every method of the documented usage lies in the method's first (hence only,
    see the extractor: no nesting, sections are numbered in order) lock section. -/
def singleSection (t : List Access) : Bool :=
  t.all fun a => !usageRole a.role || a.sect == some 0

/-- Location is touched by a producer-role method. -/
def producerTouches (t : List Access) (l : Nat) : Bool :=
  t.any fun a => a.role == .producer && a.loc == l

/-- In the rows of one method (in evaluation order): once a locked access has been seen, no
    unlocked access to a shared location follows. -/
def noUnlockedAfterLocked (shared : Nat → Bool) : List Access → Bool → Bool
  | [], _ => true
  | a :: rest, seenLocked =>
    (a.sect.isSome || !shared a.loc || !seenLocked) &&
      noUnlockedAfterLocked shared rest (seenLocked || a.sect.isSome)

/-- Shape of TransactionalValue the model `VSys` below is written for:
    producer methods are single sections; a consumer method touches the locations it shares with
    the producer either inside its single lock section or, before that section, by individual
    reads (each modelled as a step of its own); all its writes to shared locations are inside the
    section. -/
def tvalShapeOk (t : List Access) : Bool :=
  (t.all fun a => a.role != .producer || a.sect == some 0) &&
  (t.all fun a => a.role != .consumer || !producerTouches t a.loc ||
      a.sect == some 0 || (a.sect == none && !a.write)) &&
  ((List.range (t.foldl (fun m a => max m (a.meth + 1)) 0)).all fun m =>
      noUnlockedAfterLocked (producerTouches t) (t.filter fun a => a.meth == m && a.role == .consumer) false)

/-! ## TransactionalBuffer -/

structure TBuf (α : Type) where
  buffer : List α := []
deriving Repr

namespace TBuf
variable {α : Type}

def pushBack (b : TBuf α) (x : α) : TBuf α := ⟨b.buffer ++ [x]⟩
/-- `consume()` returns the contents and leaves the moved-from vector empty. -/
def consume (b : TBuf α) : List α × TBuf α := (b.buffer, ⟨[]⟩)
def size (b : TBuf α) : Nat := b.buffer.length
def empty (b : TBuf α) : Bool := b.buffer.isEmpty

end TBuf

/-- One (atomic) method execution; `p` is the calling producer thread. -/
inductive BEv (P α : Type) where
  | push (p : P) (x : α)
  | consume
  | size
  | empty
deriving Repr

def BEv.isConsume {P α : Type} : BEv P α → Bool
  | .consume => true
  | _ => false

/-- What the caller observes. -/
inductive BOut (P α : Type) where
  | unit
  | batch (l : List (P × α))
  | nat (n : Nat)
  | bool (b : Bool)
deriving Repr

/-- Shared object + the consumer's history.  Elements carry the pushing thread's id
    (in the harness the id is part of the payload). -/
structure BSys (P α : Type) where
  buf : TBuf (P × α) := {}
  batches : List (List (P × α)) := []     -- oldest first
deriving Repr

namespace BSys
variable {P α : Type}

def exec (s : BSys P α) : BEv P α → BSys P α × BOut P α
  | .push p x => ({ s with buf := s.buf.pushBack (p, x) }, .unit)
  | .consume => let (l, b) := s.buf.consume; ({ buf := b, batches := s.batches ++ [l] }, .batch l)
  | .size => (s, .nat s.buf.size)
  | .empty => (s, .bool s.buf.empty)

def step (s : BSys P α) (e : BEv P α) : BSys P α := (s.exec e).1

/-- An interleaving of any number of threads = a list of atomic method executions, given
    most-recent-first. -/
def runR : List (BEv P α) → BSys P α
  | [] => {}
  | e :: earlier => (runR earlier).step e

/-- Everything the consumer holds plus what is still pending, in hand-off order. -/
def delivered (s : BSys P α) : List (P × α) := s.batches.flatten ++ s.buf.buffer

end BSys

/-- All pushes of an interleaving in the order they took effect (oldest first). -/
def pushedAll {P α : Type} : List (BEv P α) → List (P × α)
  | [] => []
  | .push p x :: earlier => pushedAll earlier ++ [(p, x)]
  | _ :: earlier => pushedAll earlier

/-- The pushes of producer `p` in its program order (oldest first). -/
def pushesOf {P α : Type} [DecidableEq P] (p : P) : List (BEv P α) → List α
  | [] => []
  | .push q x :: earlier => if q = p then pushesOf p earlier ++ [x] else pushesOf p earlier
  | _ :: earlier => pushesOf p earlier

/-! ## TransactionalValue -/

/-- `none` in `queued`/`current` = a default-constructed or moved-from object (content unspecified). -/
structure TVal (V : Type) where
  newValue : Bool := false
  queued : Option V := none
  current : Option V := none
deriving Repr

namespace TVal
variable {V : Type}

/-- `TransactionalValue(const OtherType&)` -/
def ofValue (v : V) : TVal V := { current := some v }
/-- `operator=(v)` (one lock section). -/
def assign (t : TVal V) (v : V) : TVal V := { t with queued := some v, newValue := true }
/-- the flag read of `update()` -/
def readFlag (t : TVal V) : Bool := t.newValue
/-- the lock section of `update()` -/
def install (t : TVal V) : TVal V := { newValue := false, queued := none, current := t.queued }
/-- `update()` when nothing interleaves. -/
def update (t : TVal V) : TVal V × Bool := if t.readFlag then (t.install, true) else (t, false)
def get (t : TVal V) : Option V := t.current

end TVal

inductive VEv (V : Type) where
  | assign (v : V)    -- producer: operator=
  | updRead           -- consumer: update(), the flag read
  | updInstall        -- consumer: update(), the lock section (only after a flag read that saw `true`)
  | get               -- consumer: get()
deriving Repr

inductive Pc where
  | idle
  | install   -- inside update(): flag seen true, lock section not yet executed
deriving DecidableEq, Repr

/-- Consumer-side observation, annotated with ghost indices: `k` = how many of the producer's
    assignments are covered by the consumer's current value (0 = still the initial value). -/
inductive Obs (V : Type) where
  | got (k : Nat) (v : Option V)
  /-- `update()` returned `ret`; `kBefore/kAfter` = coverage before/after; `n` = number of
      assignments made up to the call's decisive step (flag read for false, lock section for true) -/
  | upd (ret : Bool) (kBefore kAfter n : Nat)
deriving Repr, DecidableEq

def Obs.k {V : Type} : Obs V → Nat
  | .got k _ => k
  | .upd _ _ k _ => k

structure VSys (V : Type) where
  tv : TVal V
  pc : Pc := .idle
  assigned : List V := []     -- ghost: the producer's assignments, oldest first
  upTo : Nat := 0             -- ghost: number of assignments covered by `current`
  log : List (Obs V) := []    -- ghost: consumer's observations, oldest first
deriving Repr

namespace VSys
variable {V : Type}

/-- A freshly constructed object: `c0 = some v` for `TransactionalValue(v)`, `none` for the default
    constructor (content of `currentValue` unspecified for trivially-constructible `T`). -/
def init (c0 : Option V) : VSys V := { tv := { current := c0 } }

/-- Events that are not enabled (an `updInstall` without a pending update, a new consumer call while
    one is pending) leave the state unchanged, so every list of events is an execution and the real
    interleavings are among them. -/
def step (s : VSys V) : VEv V → VSys V
  | .assign v => { s with tv := s.tv.assign v, assigned := s.assigned ++ [v] }
  | .updRead =>
    match s.pc with
    | .idle =>
      if s.tv.readFlag then { s with pc := .install }
      else { s with log := s.log ++ [.upd false s.upTo s.upTo s.assigned.length] }
    | .install => s
  | .updInstall =>
    match s.pc with
    | .install =>
      { s with tv := s.tv.install, pc := .idle, upTo := s.assigned.length,
               log := s.log ++ [.upd true s.upTo s.assigned.length s.assigned.length] }
    | .idle => s
  | .get =>
    match s.pc with
    | .idle => { s with log := s.log ++ [.got s.upTo s.tv.get] }
    | .install => s

/-- Interleaving given most-recent-first, from a freshly constructed object. -/
def runR (c0 : Option V) : List (VEv V) → VSys V
  | [] => init c0
  | e :: earlier => (runR c0 earlier).step e

/-- The value the consumer should hold when it covers `k` assignments. -/
def valAt (c0 : Option V) (assigned : List V) (k : Nat) : Option V :=
  if k = 0 then c0 else assigned[k - 1]?

end VSys

/-- The consumer finishing a pending `update()` (if any) and calling `update()` once more. -/
def finishUpdate {V : Type} (s : VSys V) : VSys V := ((s.step .updInstall).step .updRead).step .updInstall

/-- More consumer-only steps from a state, most recent first. -/
def runFrom {V : Type} (s : VSys V) : List (VEv V) → VSys V
  | [] => s
  | e :: earlier => (runFrom s earlier).step e

def VEv.isAssign {V : Type} : VEv V → Bool
  | .assign _ => true
  | _ => false

end RkVerif.C12
