/-
Model for C14 — aligned allocation (rkcommon/memory/malloc.{h,cpp},
rkcommon/containers/aligned_allocator.h, rkcommon/containers/AlignedVector.h).

Hand-written, executable, core Lean only.  Tied to the source by the correspondence check
(harness/c14.cpp vs Driver/C14.lean).

Part 1 (the code rkcommon itself contains, as 64-bit `size_t` arithmetic on `Nat`):
  * `maxSize sz`          = aligned_allocator<T,A>::max_size()   `(size_t(0) - size_t(1)) / sizeof(T)`
  * `allocGuard A sz n`   = the guard chain of aligned_allocator<T,A>::allocate(n):
                              n == 0            -> nullptr (no request)
                              n > max_size()    -> std::length_error
                              otherwise         -> alignedMalloc(n * sizeof(T), A)   (product in size_t)
                                                   nullptr -> std::bad_alloc
  * `rebindAlign A`       = alignment of `rebind<U>::other`
  * `isAligned p a`       = memory::isAligned(ptr, alignment)     `size_t(ptr) % alignment == 0`
  * `alignPtr p a`        = ALIGN_PTR(ptr, alignment)  `((size_t)ptr + a - 1) & ((size_t) -(ssize_t)a)`

Part 2: the *system allocator* (scalable_aligned_malloc / _mm_malloc and their free functions) is
NOT modelled; it is a contract `SysOK` over an arbitrary oracle `Sys` (returns null or a fresh,
non-null block whose address is a multiple of the requested alignment).  Over that contract,
`AlignedVector<T>` = std::vector<T, aligned_allocator<T>> is modelled as sequences of
allocate / construct-copy / deallocate (`step`), with the set of live blocks (`live`) kept by the
allocator side and a `fault` flag raised by any use the contract does not licence
(constructing past the block, freeing an address that is not live).
-/
namespace RkVerif.C14

/-! ## Part 1: size_t arithmetic -/

/-- 2^64: `size_t` is 64 bit on every supported target. -/
def W : Nat := 18446744073709551616

/-- `aligned_allocator<T,A>::max_size()` with `sz = sizeof(T)`. -/
def maxSize (sz : Nat) : Nat := (W - 1) / sz

inductive AllocRes where
  | null                                  -- returns nullptr without calling alignedMalloc
  | lengthError                           -- throws std::length_error
  | request (bytes align : Nat)           -- calls alignedMalloc(bytes, align); nullptr -> bad_alloc
deriving Repr, DecidableEq

/-- Guard chain of `aligned_allocator<T,A>::allocate(n)`; `n*sz` is computed in `size_t`. -/
def allocGuard (A sz n : Nat) : AllocRes :=
  if n = 0 then .null
  else if n > maxSize sz then .lengthError
  else .request ((n * sz) % W) A

/-- `aligned_allocator<T,A>::rebind<U>::other` is `aligned_allocator<U,A>` (alignment kept). -/
def rebindAlign (A : Nat) : Nat := A

/-- `memory::isAligned(ptr, alignment)` for `alignment ≥ 1`. -/
def isAligned (p a : Nat) : Bool := p % a == 0

/-- `ALIGN_PTR(ptr, alignment)`: all operations in `size_t` (mod 2^64); `-(ssize_t)a` as a
    `size_t` is `2^64 - a` (0 for a = 0). -/
def alignPtr (p a : Nat) : Nat :=
  ((p + a + (W - 1)) % W) &&& ((W - a % W) % W)

/-! ## Part 2: AlignedVector over an allocator contract -/

/-- A live block of the system allocator: address and size in bytes. -/
structure Ext where
  addr : Nat
  bytes : Nat
deriving Repr, DecidableEq

/-- The system allocator as an oracle: live blocks → size → alignment → null (`none`) or address. -/
abbrev Sys := List Ext → Nat → Nat → Option Nat

/-- Two live blocks are distinct allocations that do not overlap. -/
def Apart (x y : Ext) : Prop :=
  x.addr ≠ y.addr ∧ (x.addr + x.bytes ≤ y.addr ∨ y.addr + y.bytes ≤ x.addr)

/-- The contract of alignedMalloc's back end (observed on the real allocators, not proved):
    a non-null result is non-zero, a multiple of the requested alignment, lies inside the
    address space and is apart from every live block. -/
def SysOK (sys : Sys) : Prop :=
  ∀ live bytes align p, 0 < align → sys live bytes align = some p →
    p ≠ 0 ∧ p % align = 0 ∧ p + bytes ≤ W ∧ ∀ e ∈ live, Apart ⟨p, bytes⟩ e

/-- Configuration: alignment `A`, `sz = sizeof(T)`, the allocator oracle, and the growth policy
    of the standard library (`grow size extra` = new capacity; only `size + extra ≤ grow size extra`
    is assumed).  -/
structure Cfg where
  A : Nat
  sz : Nat
  sys : Sys
  grow : Nat → Nat → Nat

def GrowOK (c : Cfg) : Prop := ∀ s e, s + e ≤ c.grow s e

/-- `std::vector::max_size()` of libstdc++: `min(PTRDIFF_MAX / sizeof(T), alloc.max_size())`. -/
def vmax (c : Cfg) : Nat := min ((W / 2 - 1) / c.sz) (maxSize c.sz)

/-- A vector that owns storage: `data() = addr`, `capacity() = cap`, `cells` = the constructed
    elements (`size() = cells.length`).  A vector without storage is `none` (`data() = nullptr`). -/
structure Blk (V : Type) where
  addr : Nat
  cap : Nat
  cells : List V
deriving Repr

abbrev Vec (V : Type) := Option (Blk V)

def Vec.data {V} : Vec V → Nat
  | none => 0
  | some b => b.addr
def Vec.size {V} : Vec V → Nat
  | none => 0
  | some b => b.cells.length
def Vec.cap {V} : Vec V → Nat
  | none => 0
  | some b => b.cap
def Vec.contents {V} : Vec V → List V
  | none => []
  | some b => b.cells

inductive Outcome where
  | ok | lengthError | badAlloc
deriving Repr, DecidableEq

/-- One vector, the allocator's live set and the fault flag. -/
structure VS (V : Type) where
  live : List Ext
  v : Vec V
  fault : Bool
deriving Repr

variable {V : Type}

/-- `aligned_allocator::deallocate(p, n)` → `alignedFree(p)`; libstdc++ calls it only for `p ≠ nullptr`.
    Freeing an address that is not live is a fault. -/
def free (live : List Ext) (p : Nat) : List Ext × Bool :=
  if p = 0 then (live, false)
  else if live.any (·.addr == p) then (live.filter (fun e => !(e.addr == p)), false)
  else (live, true)

/-- `_M_allocate(n)` + construction of `cells` into the new storage: allocate a block for `n`
    elements (n = 0 → no storage), construct `cells` in it.  Constructing more than `n` elements
    is a fault.  The elements are produced only after the allocation succeeded (`cells` is a thunk),
    as in the real code. -/
def fresh (c : Cfg) (live : List Ext) (n : Nat) (cells : Unit → List V) :
    Except Outcome (List Ext × Vec V × Bool) :=
  match allocGuard c.A c.sz n with
  | .null => .ok (live, none, decide ((cells ()).length > 0))
  | .lengthError => .error .lengthError
  | .request bytes align =>
    match c.sys live bytes align with
    | none => .error .badAlloc
    | some p => .ok (⟨p, bytes⟩ :: live, some ⟨p, n, cells ()⟩, decide ((cells ()).length > n))

/-- Reallocate to capacity `n` holding `cells`, then release the old storage.  On failure nothing
    changes (strong guarantee) and the outcome is reported. -/
def regrow (c : Cfg) (s : VS V) (n : Nat) (cells : Unit → List V) : VS V × Outcome :=
  match fresh c s.live n cells with
  | .error o => (s, o)
  | .ok (live1, v1, f1) =>
    let (live2, f2) := free live1 s.v.data
    (⟨live2, v1, s.fault || f1 || f2⟩, .ok)

/-- Copy loop of a reallocation: element `i` of the new storage is read from element `i` of the old. -/
def copyCells (src : List V) (n : Nat) : List V :=
  (List.range n).filterMap (fun i => src[i]?)

/-- In-place update of the constructed elements (no allocation); more elements than capacity is a fault. -/
def inPlace (s : VS V) (cells : List V) : VS V :=
  match s.v with
  | none => { s with fault := s.fault || decide (cells.length > 0) }
  | some b => { s with v := some { b with cells := cells }, fault := s.fault || decide (cells.length > b.cap) }

/-- Operations of one vector (`other` = contents of the second vector, for copy assignment). -/
inductive VOp (V : Type) where
  | push (x : V)
  | pop
  | resize (n : Nat) (x : V)
  | reserve (n : Nat)
  | shrink
  | assign (n : Nat) (x : V)
  | copyFrom (other : List V)
  | clear
  | insert (i : Nat) (x : V)
  | erase (i : Nat)
  | set (i : Nat) (x : V)
  | release
deriving Repr

/-- Grow by `extra` elements and continue with `cells` (libstdc++ `_M_check_len` + reallocation). -/
def growTo (c : Cfg) (s : VS V) (extra : Nat) (cells : Unit → List V) : VS V × Outcome :=
  if vmax c - s.v.size < extra then (s, .lengthError)
  else regrow c s (min (c.grow s.v.size extra) (vmax c)) cells

def vstep (c : Cfg) (s : VS V) : VOp V → VS V × Outcome
  | .push x =>
    if s.v.size < s.v.cap then (inPlace s (s.v.contents ++ [x]), .ok)
    else growTo c s 1 (fun _ => copyCells s.v.contents s.v.size ++ [x])
  | .pop => (inPlace s s.v.contents.dropLast, .ok)
  | .resize n x =>
    if n ≤ s.v.size then (inPlace s (s.v.contents.take n), .ok)
    else if n ≤ s.v.cap then (inPlace s (s.v.contents ++ List.replicate (n - s.v.size) x), .ok)
    else growTo c s (n - s.v.size) (fun _ => copyCells s.v.contents s.v.size ++ List.replicate (n - s.v.size) x)
  | .reserve n =>
    if n > vmax c then (s, .lengthError)
    else if n ≤ s.v.cap then (s, .ok)
    else regrow c s n (fun _ => copyCells s.v.contents s.v.size)
  | .shrink =>
    if s.v.cap = s.v.size then (s, .ok)
    else ((regrow c s s.v.size (fun _ => copyCells s.v.contents s.v.size)).1, .ok)   -- failure is swallowed
  | .assign n x =>
    if n ≤ s.v.cap then (inPlace s (List.replicate n x), .ok)
    else if n > vmax c then (s, .lengthError)
    else regrow c s n (fun _ => List.replicate n x)
  | .copyFrom other =>
    if other.length ≤ s.v.cap then (inPlace s other, .ok)
    else regrow c s other.length (fun _ => copyCells other other.length)
  | .clear => (inPlace s [], .ok)
  | .insert i x =>
    if i > s.v.size then (s, .ok)
    else if s.v.size < s.v.cap then (inPlace s (s.v.contents.take i ++ x :: s.v.contents.drop i), .ok)
    else growTo c s 1 (fun _ => copyCells s.v.contents i ++ x :: (copyCells s.v.contents s.v.size).drop i)
  | .erase i => (inPlace s (s.v.contents.eraseIdx i), .ok)
  | .set i x => (inPlace s (s.v.contents.set i x), .ok)
  | .release =>
    let (live2, f2) := free s.live s.v.data
    (⟨live2, none, s.fault || f2⟩, .ok)

/-- What each operation does to the element sequence when it succeeds (std::vector's specification). -/
def specStep (l : List V) : VOp V → List V
  | .push x => l ++ [x]
  | .pop => l.dropLast
  | .resize n x => if n ≤ l.length then l.take n else l ++ List.replicate (n - l.length) x
  | .reserve _ => l
  | .shrink => l
  | .assign n x => List.replicate n x
  | .copyFrom other => other
  | .clear => []
  | .insert i x => if i > l.length then l else l.take i ++ x :: l.drop i
  | .erase i => l.eraseIdx i
  | .set i x => l.set i x
  | .release => []

/-! ### Two vectors sharing the allocator (for swap and copy assignment) -/

structure St (V : Type) where
  live : List Ext
  a : Vec V
  b : Vec V
  fault : Bool
deriving Repr

def St.init : St V := ⟨[], none, none, false⟩

def St.get (s : St V) (k : Bool) : Vec V := if k then s.b else s.a

inductive Op (V : Type) where
  | on (k : Bool) (op : VOp V)      -- operation on vector k (false = a, true = b)
  | copyAssign (k : Bool)           -- v[k] = v[!k]
  | swap
deriving Repr

def onVec (c : Cfg) (s : St V) (k : Bool) (op : VOp V) : St V × Outcome :=
  let (r, o) := vstep c ⟨s.live, s.get k, s.fault⟩ op
  (if k then ⟨r.live, s.a, r.v, r.fault⟩ else ⟨r.live, r.v, s.b, r.fault⟩, o)

def step (c : Cfg) (s : St V) : Op V → St V × Outcome
  | .on k op => onVec c s k op
  | .copyAssign k => onVec c s k (.copyFrom (s.get !k).contents)
  | .swap => (⟨s.live, s.b, s.a, s.fault⟩, .ok)

/-- History, most recent operation first. -/
def runR (c : Cfg) : List (Op V) → St V
  | [] => St.init
  | op :: earlier => (step c (runR c earlier) op).1

/-- Element sequences the history determines (reference semantics), given which operations succeeded. -/
def specOp (c : Cfg) (s : St V) (l : List V × List V) (op : Op V) : List V × List V :=
  if (step c s op).2 = .ok then
    match op with
    | .on false o => (specStep l.1 o, l.2)
    | .on true o => (l.1, specStep l.2 o)
    | .copyAssign false => (l.2, l.2)
    | .copyAssign true => (l.1, l.1)
    | .swap => (l.2, l.1)
  else l

def specR (c : Cfg) : List (Op V) → List V × List V
  | [] => ([], [])
  | op :: earlier => specOp c (runR c earlier) (specR c earlier) op

/-! ### A concrete allocator meeting the contract (used by the driver; any other would do) -/

def roundUp (x a : Nat) : Nat := if a ≤ 1 then x else ((x + a - 1) / a) * a

/-- Bump allocator above every live block; refuses requests of 2^40 bytes or more and requests
    that would leave the address space. -/
def bumpSys : Sys := fun live bytes align =>
  if bytes ≥ 1099511627776 then none
  else
    let top := live.foldl (fun m e => max m (e.addr + e.bytes + 1)) 4096
    let p := roundUp top align
    if p + bytes > W then none else some p

/-- libstdc++'s doubling policy `size + max(size, extra)`. -/
def stdGrow (s e : Nat) : Nat := s + max s e

def stdCfg (sz : Nat) : Cfg := ⟨64, sz, bumpSys, stdGrow⟩

end RkVerif.C14
