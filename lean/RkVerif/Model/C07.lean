/-
Model of the scalar math kernels of rkcommon (property C07):

  rkcommon/math/rkmath.h   sign, rcp (SIMD: rcpss estimate + one Newton–Raphson step; NO_SIMD: 1/x),
                           rcp_safe_t / rcp_safe, rsqrt (both builds), clamp, deg2rad, madd, lerp,
                           divRoundUp, linear_to_srgb
  rkcommon/math/vec.h      cvt_uint32(float), cvt_uint32(vec4f), linear_to_srgba, linear_to_srgba8
  rkcommon/utility/random.h  pcg32_biased_float_distribution, uniform_real_distribution, makeRandomColor
  rkcommon/utility/detail/pcg_random.hpp  pcg32 = setseq_xsh_rr_64_32 (64-bit LCG, XSH-RR output)

Hand-written, executable, core Lean only, polymorphic over the scalar `[CNum α]`:
 * `Driver/C07.lean` runs the same definitions at `Float32` (operation by operation as the C++ does) and the
   result is compared bit for bit with the real functions (harness/c07.cpp, both preprocessor configurations);
 * `Props/C07.lean` instantiates them at an arbitrary linearly ordered field.

The hardware estimates (`_mm_rcp_ss`, `_mm_rsqrt_ss`) are INPUTS of the model (`r`); libm `powf` is the abstract
`CNum.pow`; `round`+conversion to `uint32_t` is the parameter `rnd`. What the theorems need to know about them is
stated there as hypotheses and validated exhaustively on the real code by harness/c07_sweep.cpp.
-/
import RkVerif.Sem.CNum

namespace RkVerif.C07
open RkVerif

section scalar
variable {α : Type} [CNum α]

/-- `sign(x) = x < 0 ? -1.0f : 1.0f` -/
def sign (x : α) : α := if x < 0 then -1 else 1

/-- SIMD build: `r = _mm_rcp_ss(x)`; result `r * (2 - r * x)` (mul_ss, sub_ss, mul_ss). -/
def rcp_simd (x r : α) : α := r * (2 - r * x)

/-- NO_SIMD build: `1.f / x`. -/
def rcp_nosimd (x : α) : α := 1 / x

/-- The argument `rcp_safe_t` hands to `rcp`:
    `std::abs(x) < flt_min ? (x >= 0.f ? flt_min : -flt_min) : x`. -/
def rcp_safe_arg (x : α) : α :=
  if CNum.abs x < CNum.fltMin then (if 0 ≤ x then CNum.fltMin else -CNum.fltMin) else x

/-- `rcp_safe(x) = rcp(<selected argument>)`; `rcp` is whichever build's reciprocal. -/
def rcp_safe (rcp : α → α) (x : α) : α := rcp (rcp_safe_arg x)

/-- SIMD build: `r = _mm_rsqrt_ss(x)`; result `1.5f*r + ((x * -0.5f) * r) * (r*r)` in the source's order. -/
def rsqrt_simd (x r : α) : α := 1.5 * r + ((x * -0.5) * r) * (r * r)

/-- NO_SIMD build: `1.f / std::sqrt(x)`. -/
def rsqrt_nosimd (x : α) : α := 1 / CNum.sqrt x

/-- `clamp(x, lower, upper) = max(min(x, upper), lower)` (std::min / std::max). -/
def clamp (x lower upper : α) : α := max (min x upper) lower

/-- `deg2rad(x) = x * T(1.745329251994329576923690768489e-2)` -/
def deg2rad (x : α) : α := x * 1.745329251994329576923690768489e-2

/-- `madd(a,b,c) = a * b + c` -/
def madd (a b c : α) : α := a * b + c

/-- `lerp(factor, a, b) = (1.f - factor) * a + factor * b` -/
def lerp (factor a b : α) : α := (1 - factor) * a + factor * b

/-- `linear_to_srgb(f) = std::pow(std::max(f, 0.f), 1.f / 2.2f)` (APPROXIMATE_SRGB is defined in the header). -/
def linear_to_srgb (f : α) : α := CNum.pow (max f 0) (1 / 2.2)

/-- `cvt_uint32(float f) = (uint32_t)round(255.f * clamp(f, 0.f, 1.f))`; `rnd` is `round` followed by the conversion. -/
def cvt_uint32 (rnd : α → Nat) (f : α) : Nat := rnd (255 * clamp f 0 1)

end scalar

/-- `divRoundUp(a, b) = (a + b - 1) / b` with C's truncating division (mathematical integers: no overflow). -/
def divRoundUp (a b : Int) : Int := Int.tdiv (a + b - 1) b

/-- two's-complement reduction to `int32_t` -/
def wrap32 (x : Int) : Int :=
  let m := x % 4294967296
  if m ≥ 2147483648 then m - 4294967296 else m

/-- The `int` instantiation with every intermediate reduced to 32 bits (what the machine computes when the
    C++ expression has no undefined behaviour). -/
def divRoundUp32 (a b : Int) : Int := wrap32 (Int.tdiv (wrap32 (wrap32 (a + b) - 1)) b)

/-- `(c0 << 0) | (c1 << 8) | (c2 << 16) | (c3 << 24)` on `uint32_t`. -/
def pack4 (c0 c1 c2 c3 : Nat) : Nat :=
  ((c0 <<< 0) ||| (c1 <<< 8) ||| (c2 <<< 16) ||| (c3 <<< 24)) % 4294967296

/-- byte `k` of a packed word -/
def byteOf (w k : Nat) : Nat := (w >>> (8 * k)) % 256

section scalar2
variable {α : Type} [CNum α]

/-- `cvt_uint32(const vec4f &v)` -/
def cvt_uint32_vec (rnd : α → Nat) (x y z w : α) : Nat :=
  pack4 (cvt_uint32 rnd x) (cvt_uint32 rnd y) (cvt_uint32 rnd z) (cvt_uint32 rnd w)

/-- `linear_to_srgba(c)`: gamma on x,y,z; alpha only clamped below (`std::max(c.w, 0.f)`). -/
def linear_to_srgba (x y z w : α) : α × α × α × α :=
  (linear_to_srgb x, linear_to_srgb y, linear_to_srgb z, max w 0)

/-- 8-bit value of one colour channel: `cvt_uint32(linear_to_srgb(x))` -/
def srgb8 (rnd : α → Nat) (x : α) : Nat := cvt_uint32 rnd (linear_to_srgb x)

/-- `linear_to_srgba8(c) = cvt_uint32(linear_to_srgba(c))` -/
def linear_to_srgba8 (rnd : α → Nat) (x y z w : α) : Nat :=
  let c := linear_to_srgba x y z w
  cvt_uint32_vec rnd c.1 c.2.1 c.2.2.1 c.2.2.2

/-- `pcg32_biased_float_distribution::operator()` as arithmetic on the raw draw `k = rng()`:
    `diff = upper - lower` (constructor); `(scale * k) * diff + lower` with `scale = 2^-32` (bits 0x2F800000). -/
def biased_float (k : Nat) (lower upper : α) : α :=
  let diff := upper - lower
  ((2.3283064365386962890625e-10 : α) * CNum.ofNat k) * diff + lower

/-- unsigned 32-bit subtraction -/
def sub32 (a b : Nat) : Nat := (a + 4294967296 - b % 4294967296) % 4294967296

/-- `uniform_real_distribution<T>::operator()(G &g)` with a 32-bit generator:
    `scale = (u - l) / T(g.max() - g.min());  l + (g() - g.min()) * scale`. -/
def uniform_real (l u : α) (gmin gmax g : Nat) : α :=
  let scale := (u - l) / CNum.ofNat (sub32 gmax gmin)
  l + CNum.ofNat (sub32 g gmin) * scale

/-- `makeRandomColor(i)`: 32-bit unsigned wrap-around in `g`, then three remainders scaled to [0,1]. -/
def makeRandomColor (i : Nat) : α × α × α :=
  let mx := 13 * 17 * 43
  let my := 11 * 29
  let mz := 7 * 23 * 63
  let g := (i * (3 * 5 * 127) + 12312314) % 4294967296
  (CNum.ofNat (g % mx) * (1 / CNum.ofNat (mx - 1)),
   CNum.ofNat (g % my) * (1 / CNum.ofNat (my - 1)),
   CNum.ofNat (g % mz) * (1 / CNum.ofNat (mz - 1)))

end scalar2

/-! ## pcg32 (pcg_random.hpp: `setseq_xsh_rr_64_32`, output of the previous state) -/

structure Pcg32 where
  state : UInt64
  inc : UInt64
  deriving Repr, BEq

def pcgMult : UInt64 := 6364136223846793005

def Pcg32.bump (g : Pcg32) (s : UInt64) : UInt64 := s * pcgMult + g.inc

/-- `rng.seed(seed, sequence)` = `new (this) engine(itype(seed), itype(sequence))`:
    `inc = (sequence << 1) | 1`, `state = bump(seed + inc)`; the `int` arguments are sign-extended to 64 bits. -/
def Pcg32.seed (seed sequence : Int) : Pcg32 :=
  let inc : UInt64 := (UInt64.ofInt sequence <<< 1) ||| 1
  let g0 : Pcg32 := { state := 0, inc := inc }
  { g0 with state := g0.bump (UInt64.ofInt seed + inc) }

/-- `rotr(value, rot)` on 32 bits: `(value >> rot) | (value << ((-rot) & 31))`. -/
def rotr32 (v : UInt32) (rot : UInt32) : UInt32 :=
  (v >>> rot) ||| (v <<< ((0 - rot) &&& 31))

/-- XSH-RR 64→32: `rot = s >> 59`; `s ^= s >> 18`; `rotr(uint32(s >> 27), rot)`. -/
def pcgOutput (s : UInt64) : UInt32 :=
  let rot : UInt32 := (s >>> 59).toUInt32
  let x := s ^^^ (s >>> 18)
  rotr32 (x >>> 27).toUInt32 rot

/-- `operator()`: advance, output the OLD state. -/
def Pcg32.next (g : Pcg32) : UInt32 × Pcg32 :=
  (pcgOutput g.state, { g with state := g.bump g.state })

/-- the first `n` raw draws -/
def Pcg32.draws : Nat → Pcg32 → List Nat
  | 0, _ => []
  | n + 1, g => let (k, g') := g.next; k.toNat :: Pcg32.draws n g'

section dist
variable {α : Type} [CNum α]

/-- the first `n` values of `pcg32_biased_float_distribution(seed, sequence, lower, upper)` -/
def biasedStream (seed sequence : Int) (lower upper : α) (n : Nat) : List α :=
  ((Pcg32.seed seed sequence).draws n).map (fun k => biased_float k lower upper)

/-- the first `n` values of `uniform_real_distribution<float>(l,u)` driven by a `pcg32` seeded with (seed, sequence)
    (`pcg32::min() = 0`, `pcg32::max() = 2^32-1`) -/
def uniformStream (seed sequence : Int) (l u : α) (n : Nat) : List α :=
  ((Pcg32.seed seed sequence).draws n).map (fun k => uniform_real l u 0 4294967295 k)

end dist

end RkVerif.C07
