/-
Model of rkcommon::networking stream serialization
(rkcommon/networking/DataStreaming.{h,cpp}, with fixes/C15-*.patch applied).

Hand-written, executable, core Lean only.  Tied to the source by the correspondence check
(harness/c15.cpp vs Driver/C15.lean).

size_t is 64 bit: every arithmetic expression of the source that can wrap is written with
`add64 / sub64 / mul64` (explicit `% 2^64`), so wrap-around is visible in the model.

Memory accesses (`memcpy` into / out of the stream's buffer, dereferencing a view) are modelled
by `slice?` / `store?`, which fail when the accessed range is not inside the buffer; that failure is
the third outcome `Res.fault` (undefined behaviour in C++, an ASan report in the harness).  The
property "never leaves its buffer" is "`fault` is unreachable".
-/
namespace RkVerif.C15

/-- 2^64 -/
abbrev W : Nat := 18446744073709551616

def add64 (a b : Nat) : Nat := (a + b) % W
/-- unsigned `a - b` for `a, b < 2^64` -/
def sub64 (a b : Nat) : Nat := (a + W - b) % W
def mul64 (a b : Nat) : Nat := (a * b) % W

/-! ### outcome of a call -/

inductive Res (α : Type) where
  | ok (a : α)
  | throw            -- std::runtime_error
  | fault            -- access outside the buffer
deriving Repr

def Res.bind {α β : Type} : Res α → (α → Res β) → Res β
  | .ok a, f => f a
  | .throw, _ => .throw
  | .fault, _ => .fault

def Res.map {α β : Type} (f : α → β) : Res α → Res β
  | .ok a => .ok (f a)
  | .throw => .throw
  | .fault => .fault

/-- `n` consecutive typed reads (`for (i < sz) buf >> rh[i]`), stopping at the first exception. -/
def repeatN {σ α : Type} (f : σ → Res (α × σ)) : Nat → σ → Res (List α × σ)
  | 0, s => .ok ([], s)
  | n + 1, s =>
    match f s with
    | .ok (a, s1) =>
      match repeatN f n s1 with
      | .ok (as, s2) => .ok (a :: as, s2)
      | .throw => .throw
      | .fault => .fault
    | .throw => .throw
    | .fault => .fault

/-! ### little-endian integers (x86-64 object representation of size_t) -/

def leBytes : Nat → Nat → List UInt8
  | 0, _ => []
  | k + 1, n => UInt8.ofNat (n % 256) :: leBytes k (n / 256)

def leVal : List UInt8 → Nat
  | [] => 0
  | b :: bs => b.toNat + 256 * leVal bs

/-- `buf << sz` for a `size_t`: the generic raw-block operator, 8 bytes. -/
def le64 (n : Nat) : List UInt8 := leBytes 8 n

/-! ### types and values -/

/-- `pod k`: any trivially copyable type with `sizeof = k` (written as its object bytes);
    `str`: std::string / const char*;  `vec τ`: std::vector<τ>;
    `arr k`: any array wrapper (AbstractArray<T> and everything derived from it), `sizeof(T) = k`. -/
inductive Ty where
  | pod (k : Nat)
  | str
  | vec (t : Ty)
  | arr (k : Nat)
deriving Repr, DecidableEq

inductive Val where
  | pod (bs : List UInt8)
  | str (bs : List UInt8)
  | vec (vs : List Val)
  | arr (n : Nat) (bs : List UInt8)     -- n elements, their bytes back to back

/-- Well-typed values (what a C++ object of that type can hold). -/
def WT : Ty → Val → Prop
  | .pod k, .pod bs => bs.length = k
  | .str, .str bs => bs.length < W
  | .vec t, .vec vs => vs.length < W ∧ ∀ v ∈ vs, WT t v
  | .arr k, .arr n bs => n < W ∧ bs.length = n * k ∧ n * k < W
  | _, _ => False

/-- a sequence of values against a sequence of types -/
def WTL : List Ty → List Val → Prop
  | [], [] => True
  | t :: ts, v :: vs => WT t v ∧ WTL ts vs
  | _, _ => False

/-! ### the typed `operator<<`s as sequences of `WriteStream::write` calls -/

mutual
  /-- the payloads of the successive `write(mem, size)` calls made by `buf << v` -/
  def chunks : Val → List (List UInt8)
    | .pod bs => [bs]                               -- write(&rh, sizeof(T))
    | .str bs => [le64 bs.length, bs]               -- buf << sz; write(data, sz)
    | .vec vs => le64 vs.length :: chunksL vs       -- buf << sz; for (x : rh) buf << x
    | .arr n bs => [le64 n, bs]                     -- buf << sz; write(data, sizeof(T) * sz)
  def chunksL : List Val → List (List UInt8)
    | [] => []
    | v :: vs => chunks v ++ chunksL vs
end

def encode (v : Val) : List UInt8 := (chunks v).flatten
def encodeL (vs : List Val) : List UInt8 := (chunksL vs).flatten

/-! ### memory -/

/-- bytes `[off, off+n)` of `m`; `none` when the range leaves `m`.  `n = 0` touches nothing
    (`if (mem && size > 0) memcpy(...)`). -/
def slice? (m : List UInt8) (off n : Nat) : Option (List UInt8) :=
  if n = 0 then some []
  else if off + n ≤ m.length then some ((m.drop off).take n)
  else none

/-- overwrite `[off, off+bs.length)` of `m`; `none` when the range leaves `m`. -/
def store? (m : List UInt8) (off : Nat) (bs : List UInt8) : Option (List UInt8) :=
  if bs.length = 0 then some m
  else if off + bs.length ≤ m.length then some (m.take off ++ bs ++ m.drop (off + bs.length))
  else none

/-! ### BufferReader -/

structure Reader where
  buf : List UInt8          -- *buffer (never modified by the reader)
  cursor : Nat
deriving Repr

/-- `buffer->size()` -/
@[reducible] def Reader.size (r : Reader) : Nat := r.buf.length

/-- the guard of `BufferReader::read`:  `cursor > size() || size > size() - cursor` -/
def Reader.rejects (r : Reader) (size : Nat) : Bool :=
  r.cursor > r.size || size > sub64 r.size r.cursor

/-- `BufferReader::read(mem, size)`; returns the bytes copied to `mem`. -/
def Reader.read (r : Reader) (size : Nat) : Res (List UInt8 × Reader) :=
  if r.rejects size then .throw
  else match slice? r.buf r.cursor size with
    | none => .fault
    | some bs => .ok (bs, { r with cursor := add64 r.cursor size })

/-- the guard of `BufferReader::getView<T>(count)` with `k = sizeof(T)`:
    `cursor > size() || count > (size() - cursor) / sizeof(T)` -/
def Reader.rejectsView (r : Reader) (count k : Nat) : Bool :=
  r.cursor > r.size || count > sub64 r.size r.cursor / k

/-- `BufferReader::getView<T>(count)`; returns the bytes the view refers to
    (`[cursor, cursor + count*sizeof(T))`), as a user reading every element of the view sees them. -/
def Reader.getView (r : Reader) (count k : Nat) : Res (List UInt8 × Reader) :=
  if r.rejectsView count k then .throw
  else
    let size := mul64 count k
    match slice? r.buf r.cursor size with
    | none => .fault
    | some bs => .ok (bs, { r with cursor := add64 r.cursor size })

/-- `BufferReader::end()` -/
def Reader.atEnd (r : Reader) : Bool := r.cursor ≥ r.size

/-- `size_t sz; buf >> sz;` -/
def Reader.readLen (r : Reader) : Res (Nat × Reader) :=
  (r.read 8).map fun (bs, r') => (leVal bs, r')

/-- the typed `operator>>`s.  Arrays have no `operator>>`; `arr k` is the documented way to get
    them back without a copy: read the count, then `getView<uint8_t>(count * sizeof(T))`. -/
def readVal : Ty → Reader → Res (Val × Reader)
  | .pod k, r => (r.read k).map fun (bs, r') => (.pod bs, r')
  | .str, r =>
    r.readLen.bind fun (n, r1) =>                 -- buf >> sz; rh.resize(sz)
    (r1.read n).map fun (bs, r2) => (.str bs, r2) -- buf.read(rh.data(), sz)
  | .vec t, r =>
    r.readLen.bind fun (n, r1) =>                 -- buf >> sz; rh.resize(sz)
    (repeatN (readVal t) n r1).map fun (vs, r2) => (.vec vs, r2)
  | .arr k, r =>
    r.readLen.bind fun (n, r1) =>
    (r1.getView (mul64 n k) 1).map fun (bs, r2) => (.arr n bs, r2)

/-- a sequence of typed reads; stops at the first exception -/
def readAll : List Ty → Reader → Res (List Val × Reader)
  | [], r => .ok ([], r)
  | t :: ts, r =>
    (readVal t r).bind fun (v, r1) =>
    (readAll ts r1).map fun (vs, r2) => (v :: vs, r2)

/-! ### the format, without cursors: decoder on plain byte lists (specification level) -/

def takeN (n : Nat) (bs : List UInt8) : Res (List UInt8 × List UInt8) :=
  if n ≤ bs.length then .ok (bs.take n, bs.drop n) else .throw

def decode : Ty → List UInt8 → Res (Val × List UInt8)
  | .pod k, bs => (takeN k bs).map fun (a, r) => (.pod a, r)
  | .str, bs =>
    (takeN 8 bs).bind fun (l, r1) =>
    (takeN (leVal l) r1).map fun (a, r2) => (.str a, r2)
  | .vec t, bs =>
    (takeN 8 bs).bind fun (l, r1) =>
    (repeatN (decode t) (leVal l) r1).map fun (vs, r2) => (.vec vs, r2)
  | .arr k, bs =>
    (takeN 8 bs).bind fun (l, r1) =>
    (takeN (mul64 (leVal l) k) r1).map fun (a, r2) => (.arr (leVal l) a, r2)

def decodeAll : List Ty → List UInt8 → Res (List Val × List UInt8)
  | [], bs => .ok ([], bs)
  | t :: ts, bs =>
    (decode t bs).bind fun (v, r1) =>
    (decodeAll ts r1).map fun (vs, r2) => (v :: vs, r2)

/-! ### BufferWriter (grow-and-copy) and WriteSizeCalculator -/

structure BufW where
  buf : List UInt8
deriving Repr

/-- `bsize = size(); buffer->resize(size() + size, 0); memcpy(begin() + bsize, mem, size)` -/
def BufW.write (w : BufW) (bs : List UInt8) : Res BufW :=
  let bsize := w.buf.length
  let grown := w.buf ++ List.replicate bs.length 0
  match store? grown bsize bs with
  | none => .fault
  | some m => .ok ⟨m⟩

def BufW.writeChunks : BufW → List (List UInt8) → Res BufW
  | w, [] => .ok w
  | w, b :: bs => (w.write b).bind fun w' => w'.writeChunks bs

def BufW.writeVal (w : BufW) (v : Val) : Res BufW := w.writeChunks (chunks v)

structure SizeCalc where
  written : Nat
deriving Repr

/-- `writtenSize += size` -/
def SizeCalc.write (c : SizeCalc) (size : Nat) : SizeCalc := ⟨add64 c.written size⟩

def SizeCalc.writeChunks (c : SizeCalc) (cs : List (List UInt8)) : SizeCalc :=
  cs.foldl (fun c b => c.write b.length) c

def SizeCalc.writeVal (c : SizeCalc) (v : Val) : SizeCalc := c.writeChunks (chunks v)

/-! ### FixedBufferWriter -/

structure FixedW where
  mem : List UInt8         -- *buffer: `new uint8_t[size]`, initial contents arbitrary
  cursor : Nat
deriving Repr

/-- `FixedBufferWriter(size)`; `init` is whatever `new uint8_t[size]` returned (`size = init.length`). -/
def FixedW.new (init : List UInt8) : FixedW := ⟨init, 0⟩

/-- `capacity()` = `buffer->size()` -/
@[reducible] def FixedW.capacity (w : FixedW) : Nat := w.mem.length

/-- `available()` = `buffer->size() - cursor` -/
def FixedW.available (w : FixedW) : Nat := sub64 w.capacity w.cursor

/-- the guard of `write` and `reserve`:  `cursor > size() || size > size() - cursor` -/
def FixedW.rejects (w : FixedW) (size : Nat) : Bool :=
  w.cursor > w.capacity || size > sub64 w.capacity w.cursor

/-- the `size` bytes at `mem` of a `write(mem, size)` / the bytes the caller puts into a reserved region -/
def srcBytes (size : Nat) (src : Nat → UInt8) : List UInt8 := (List.range size).map src

/-- `FixedBufferWriter::write(mem, size)`, `src i` = `((uint8_t*)mem)[i]` -/
def FixedW.write (w : FixedW) (size : Nat) (src : Nat → UInt8) : Res FixedW :=
  if w.rejects size then .throw
  else if size = 0 then .ok { w with cursor := add64 w.cursor size }
  else if w.cursor + size ≤ w.mem.length then
    .ok { mem := w.mem.take w.cursor ++ srcBytes size src ++ w.mem.drop (w.cursor + size),
          cursor := add64 w.cursor size }
  else .fault

/-- `FixedBufferWriter::reserve(size)`; returns the offset of the returned pointer in the buffer. -/
def FixedW.reserve (w : FixedW) (size : Nat) : Res (Nat × FixedW) :=
  if w.rejects size then .throw
  else .ok (w.cursor, { w with cursor := add64 w.cursor size })

/-- the caller fills a region obtained from `reserve` through the returned pointer -/
def FixedW.fill (w : FixedW) (off size : Nat) (src : Nat → UInt8) : Res FixedW :=
  if size = 0 then .ok w
  else if off + size ≤ w.mem.length then
    .ok { w with mem := w.mem.take off ++ srcBytes size src ++ w.mem.drop (off + size) }
  else .fault

/-- `reserve(size)` followed by the caller filling the region -/
def FixedW.reserveFill (w : FixedW) (size : Nat) (src : Nat → UInt8) : Res FixedW :=
  (w.reserve size).bind fun (off, w') => w'.fill off size src

/-- `getWrittenView()`: the bytes `[0, cursor)` of the buffer as seen through the view -/
def FixedW.writtenView (w : FixedW) : Option (List UInt8) := slice? w.mem 0 w.cursor

def listSrc (bs : List UInt8) : Nat → UInt8 := fun i => bs.getD i 0

def FixedW.writeChunks : FixedW → List (List UInt8) → Res FixedW
  | w, [] => .ok w
  | w, b :: bs => (w.write b.length (listSrc b)).bind fun w' => w'.writeChunks bs

/-- `fixedWriter << v` -/
def FixedW.writeVal (w : FixedW) (v : Val) : Res FixedW := w.writeChunks (chunks v)

/-! ### raw operation histories on a FixedBufferWriter -/

inductive FOp where
  | write (size : Nat) (src : Nat → UInt8)
  | reserve (size : Nat) (src : Nat → UInt8)

def FOp.size : FOp → Nat
  | .write s _ => s
  | .reserve s _ => s

def FOp.src : FOp → Nat → UInt8
  | .write _ f => f
  | .reserve _ f => f

def FixedW.apply (w : FixedW) : FOp → Res FixedW
  | .write s f => w.write s f
  | .reserve s f => w.reserveFill s f

/-- one operation of a history: an exception leaves the writer as it is (`fault` is kept apart:
    the history stops making sense, the state is frozen). -/
def FixedW.step (w : FixedW) (op : FOp) : FixedW :=
  match w.apply op with
  | .ok w' => w'
  | _ => w

/-- history given most-recent-first -/
def FixedW.runR (init : List UInt8) : List FOp → FixedW
  | [] => FixedW.new init
  | op :: earlier => (FixedW.runR init earlier).step op

/-! ### the unrepaired guards (for the witnesses in Props; not used by the driver) -/

/-- `cursor + size > buffer->size()` (BufferReader::read / getView before the repair) -/
def oldReaderRejects (cursor size n : Nat) : Bool := add64 cursor size > n
/-- `cursor + size >= buffer->size()` (FixedBufferWriter::write / reserve before the repair) -/
def oldWriterRejects (cursor size n : Nat) : Bool := add64 cursor size ≥ n

end RkVerif.C15
