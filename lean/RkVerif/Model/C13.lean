/-
Model of rkcommon::tasking::initTaskingSystem / numTaskingThreads
(rkcommon/tasking/detail/tasking_system_init.cpp), of the internal backend's scheduler set-up
(rkcommon/tasking/detail/TaskSys.cpp, detail/enkiTS/TaskScheduler.cpp: Initialize, StartThreads,
StopThreads, TryRunTask, SplitAndAddTask, WaitforTask) and of which threads can execute loop bodies.

Hand-written, executable, core Lean only.  Tied to the source by the correspondence check
(harness/c13.cpp, one binary per backend, vs Driver/C13.lean).

Source, statement by statement:

  struct tasking_system_handle {
    tasking_system_handle(int numThreads) : numThreads(numThreads) {
      TBB:      if (numThreads > 0) tbb_gc = make_unique<tbb::global_control>(max_allowed_parallelism, numThreads);
      OMP:      if (numThreads > 0) omp_set_num_threads(numThreads);
      INTERNAL: detail::initTaskSystemInternal(numThreads <= 0 ? -1 : numThreads);
      (Debug: nothing)
    }
    int num_threads() {
      TBB:      return tbb::global_control::active_value(max_allowed_parallelism);
      OMP:      return omp_get_max_threads();
      INTERNAL: return detail::numThreadsTaskSystemInternal();     // g_ts->GetNumTaskThreads() = m_NumThreads
      Debug:    return 1;
    }
    int numThreads; std::unique_ptr<tbb::global_control> tbb_gc;   // tbb_gc: TBB only
  };
  static std::unique_ptr<tasking_system_handle> g_tasking_handle;
  void initTaskingSystem(int n, bool flushDenormals) {
    if (flushDenormals) {...MXCSR...}
    g_tasking_handle = make_unique<tasking_system_handle>(n);      // new handle constructed FIRST, then the old one destroyed
  }
  int numTaskingThreads() { return g_tasking_handle ? g_tasking_handle->num_threads() : 0; }

  void initTaskSystemInternal(int nThreads) {
    g_ts = std::unique_ptr<enki::TaskScheduler>(new enki::TaskScheduler());   // no threads yet; old scheduler destroyed here (threads joined)
    if (nThreads < 1) nThreads = enki::GetNumHardwareThreads();
    g_ts->Initialize(nThreads);                                                // m_NumThreads = nThreads; StartThreads()
  }
  void scheduleTaskInternal(Task *t) { if (!g_ts) initTaskSystemInternal(-1); g_ts->AddTaskSetToPipe(t); }

Contracts (not rkcommon code; observed by the harness, not proved):
  * tbb::global_control(max_allowed_parallelism): the active value is the minimum over the live
    controls, the hardware default `hw` when there is none; at most that many threads run tasks.
  * OpenMP: omp_get_max_threads() is the calling thread's nthreads-var: the last
    omp_set_num_threads value, initially the default `hw`; a parallel region's team is at most that.
-/
namespace RkVerif.C13

inductive Backend where
  | tbb | omp | internal | debug
deriving DecidableEq, Repr

/-! ### The internal backend's scheduler object -/

/-- `TaskScheduler::StartThreads`:
    `for (uint32_t thread = 1; thread < m_NumThreads; ++thread) ThreadCreate(.., threadNum = thread)`;
    returns the threadNums of the created threads, in creation order. (`fuel` only makes the
    recursion structural; `m_NumThreads` iterations always suffice.) -/
def startThreadsLoop (numThreads : Nat) : (fuel thread : Nat) → List Nat
  | 0, _ => []
  | fuel + 1, thread =>
    if thread < numThreads then thread :: startThreadsLoop numThreads fuel (thread + 1) else []

def startThreads (numThreads : Nat) : List Nat := startThreadsLoop numThreads numThreads 1

/-- A live, initialised `enki::TaskScheduler`. -/
structure Sched where
  numThreads : Nat          -- m_NumThreads
  workers : List Nat        -- threadNums of the threads created by StartThreads (joined by StopThreads)
deriving Repr, DecidableEq

/-- `new TaskScheduler(); if (nThreads < 1) nThreads = GetNumHardwareThreads(); Initialize(nThreads)` -/
def initTaskSystemInternal (hw : Nat) (nThreads : Int) : Sched :=
  let n : Nat := if nThreads < 1 then hw else nThreads.toNat
  { numThreads := n, workers := startThreads n }

/-! ### initTaskingSystem / numTaskingThreads -/

/-- `tasking_system_handle` -/
structure Handle where
  numThreads : Int          -- the member `numThreads` (stored, never read again)
  gc : Option Nat           -- TBB: value of the owned `tbb::global_control`, if one was created
deriving Repr, DecidableEq

/-- Process state: the handle and what each backend keeps outside rkcommon. -/
structure St where
  handle : Option Handle := none   -- g_tasking_handle
  gcs : List Nat := []             -- TBB: live global_control(max_allowed_parallelism) values
  ompN : Option Nat := none        -- OpenMP: value given to the last omp_set_num_threads of the calling thread
  sched : Option Sched := none     -- Internal: g_ts
deriving Repr, DecidableEq

/-- The handle constructor: applies the limit to the backend. -/
def construct (b : Backend) (hw : Nat) (s : St) (n : Int) : St × Handle :=
  match b with
  | .tbb =>
    if n > 0 then ({ s with gcs := n.toNat :: s.gcs }, { numThreads := n, gc := some n.toNat })
    else (s, { numThreads := n, gc := none })
  | .omp =>
    if n > 0 then ({ s with ompN := some n.toNat }, { numThreads := n, gc := none })
    else (s, { numThreads := n, gc := none })
  | .internal =>
    ({ s with sched := some (initTaskSystemInternal hw (if n ≤ 0 then -1 else n)) }, { numThreads := n, gc := none })
  | .debug => (s, { numThreads := n, gc := none })

/-- The (implicit) handle destructor: destroys the owned global_control, if any. -/
def destroy (s : St) (h : Handle) : St :=
  match h.gc with
  | some v => { s with gcs := s.gcs.erase v }
  | none => s

/-- State between the two halves of `g_tasking_handle = make_unique<...>(n)`: the new handle
    exists, the old one is not destroyed yet (two global_controls may be alive). -/
def initMid (b : Backend) (hw : Nat) (s : St) (n : Int) : St × Handle := construct b hw s n

def initTaskingSystem (b : Backend) (hw : Nat) (s : St) (n : Int) : St :=
  let (s1, h) := initMid b hw s n
  let s2 := match s.handle with
    | some old => destroy s1 old
    | none => s1
  { s2 with handle := some h }

/-- minimum of `x :: xs` -/
def listMin : Nat → List Nat → Nat
  | x, [] => x
  | x, y :: ys => listMin (min x y) ys

/-- `tbb::global_control::active_value(max_allowed_parallelism)` (contract). -/
def tbbActive (hw : Nat) : List Nat → Nat
  | [] => hw
  | x :: xs => listMin x xs

/-- `tasking_system_handle::num_threads()` -/
def backendThreads (b : Backend) (hw : Nat) (s : St) : Nat :=
  match b with
  | .tbb => tbbActive hw s.gcs
  | .omp => s.ompN.getD hw
  | .internal => match s.sched with
    | some sc => sc.numThreads
    | none => 0            -- unreachable once a handle exists (the real code would dereference null)
  | .debug => 1

def numTaskingThreads (b : Backend) (hw : Nat) (s : St) : Nat :=
  match s.handle with
  | none => 0
  | some _ => backendThreads b hw s

/-- What the *code* reports / uses on a thread other than the one that called
    `initTaskingSystem` (`onInitThread = false`): OpenMP's nthreads-var is a per-thread ICV, so
    `omp_set_num_threads` in the handle constructor does not reach other threads, which still have
    the default. The other backends keep the limit process-wide. (Known finding C13-omp-limit-per-thread.) -/
def backendThreadsOn (b : Backend) (hw : Nat) (s : St) (onInitThread : Bool) : Nat :=
  match b, onInitThread with
  | .omp, false => hw
  | _, _ => backendThreads b hw s

def numTaskingThreadsOn (b : Backend) (hw : Nat) (s : St) (onInitThread : Bool) : Nat :=
  match s.handle with
  | none => 0
  | some _ => backendThreadsOn b hw s onInitThread

/-- `parallel_for`'s effect on the state: only the internal backend has one
    (`scheduleTaskInternal` creates the default scheduler when there is none). -/
def parallelFor (b : Backend) (hw : Nat) (s : St) : St :=
  match b with
  | .internal => match s.sched with
    | some _ => s
    | none => { s with sched := some (initTaskSystemInternal hw (-1)) }
  | _ => s

/-- Number of threads that can be inside loop bodies during a `parallel_for` started in `s`
    (Internal: the scheduler's threads incl. the caller — see `Sys` below; TBB/OpenMP: contract). -/
def availThreads (b : Backend) (hw : Nat) (s : St) : Nat :=
  backendThreads b hw (parallelFor b hw s)

inductive Op where
  | init (n : Int)
  | pfor
  | num
deriving Repr, DecidableEq

def step (b : Backend) (hw : Nat) (s : St) : Op → St
  | .init n => initTaskingSystem b hw s n
  | .pfor => parallelFor b hw s
  | .num => s

/-- History given most-recent-first, from process start. -/
def runR (b : Backend) (hw : Nat) : List Op → St
  | [] => {}
  | op :: earlier => step b hw (runR b hw earlier) op

/-- The `n` of the most recent `init` of a history (most-recent-first), if any. -/
def lastInit : List Op → Option Int
  | [] => none
  | .init n :: _ => some n
  | _ :: earlier => lastInit earlier

/-- What the harness compares the measured concurrency with: the configured `n` when the last
    `init` had `n > 0`, the reported value after `init n ≤ 0`, nothing before the first init. -/
def limitOf (b : Backend) (hw : Nat) (s : St) (last : Option Int) : Option Nat :=
  match last with
  | none => none
  | some n => if n > 0 then some n.toNat else some (numTaskingThreads b hw s)

/-- Upper bound of the number of threads simultaneously inside the bodies of a loop with `size`
    (innermost) iterations started in state `s`. -/
def maxConcurrency (b : Backend) (hw : Nat) (s : St) (size : Nat) : Nat := min size (availThreads b hw s)

/-! ### Which threads execute bodies under the internal scheduler

Threads are identified as the scheduler does: the threads it created (`worker i`, gtl_threadNum = i)
and threads it did not create (`ext e`, gtl_threadNum = 0) that call AddTaskSetToPipe/WaitforTask.
Pipes are abstracted to a counter of queued sub-tasks; an `ExecuteRange` activation is a frame. -/

inductive Thread where
  | ext (e : Nat)
  | worker (i : Nat)
deriving DecidableEq, Repr

structure Frame where
  thread : Thread
  task : Nat
deriving DecidableEq, Repr

structure Sys where
  numThreads : Nat
  workers : List Nat
  externals : Nat           -- number of threads not created by the scheduler that use it
  queued : Nat              -- sub-tasks in the pipes
  frames : List Frame       -- live ExecuteRange activations, innermost first
  nextTask : Nat
deriving Repr, DecidableEq

def Sys.boot (numThreads externals : Nat) : Sys :=
  { numThreads, workers := startThreads numThreads, externals, queued := 0, frames := [], nextTask := 0 }

/-- `t` is a thread that ever calls into the scheduler. -/
def Sys.member (s : Sys) : Thread → Bool
  | .ext e => decide (e < s.externals)
  | .worker i => s.workers.contains i

def Sys.inBody (s : Sys) (t : Thread) : Bool := s.frames.any (fun f => f.thread == t)

def Thread.isExt : Thread → Bool
  | .ext _ => true
  | .worker _ => false

/-- `t` may call AddTaskSetToPipe now: a worker only from inside a body (its top level is the
    TryRunTask loop); an external thread at top level or inside a body. -/
def Sys.mayAdd (s : Sys) (t : Thread) : Bool := s.member t && (s.inBody t || t.isExt)

/-- remove the innermost frame of `t` -/
def popFrame (t : Thread) : List Frame → List Frame
  | [] => []
  | f :: fs => if f.thread = t then fs else f :: popFrame t fs

inductive Act where
  | add (t : Thread) (k : Nat)   -- AddTaskSetToPipe on `t`: `k` partitions written to t's pipe
  | run (t : Thread)             -- TryRunTask on `t` obtains a sub-task and calls ExecuteRange on `t`
  | inline (t : Thread)          -- SplitAndAddTask on `t`, pipe full: ExecuteRange directly on `t`
  | ret (t : Thread)             -- the innermost ExecuteRange on `t` returns
deriving Repr, DecidableEq

/-- One atomic action of one thread; `none` when the action is not enabled.
    * adding task sets: see `mayAdd`;
    * TryRunTask is called by a worker's loop, and by WaitforTask on whichever thread waits —
      so a nested wait runs the sub-task on the waiting thread itself (a new frame of that thread);
    * the pipe-full branch of SplitAndAddTask runs the range on the adding thread. -/
def Sys.step (s : Sys) : Act → Option Sys
  | .add t k =>
    if s.mayAdd t then
      some { s with queued := s.queued + k }
    else none
  | .run t =>
    if s.member t && decide (0 < s.queued) then
      some { s with queued := s.queued - 1, frames := ⟨t, s.nextTask⟩ :: s.frames, nextTask := s.nextTask + 1 }
    else none
  | .inline t =>
    if s.mayAdd t then
      some { s with frames := ⟨t, s.nextTask⟩ :: s.frames, nextTask := s.nextTask + 1 }
    else none
  | .ret t =>
    if s.inBody t then some { s with frames := popFrame t s.frames } else none

/-- Run a schedule (oldest action first); `none` if some action was not enabled. -/
def Sys.exec (s : Sys) : List Act → Option Sys
  | [] => some s
  | a :: rest => match s.step a with
    | some s' => s'.exec rest
    | none => none

/-- each element once -/
def dedup : List Thread → List Thread
  | [] => []
  | t :: ts => if (dedup ts).contains t then dedup ts else t :: dedup ts

/-- The threads that are inside a body (each once). -/
def Sys.activeThreads (s : Sys) : List Thread := dedup (s.frames.map (·.thread))

/-- Number of threads simultaneously executing bodies in state `s`. -/
def Sys.concurrency (s : Sys) : Nat := s.activeThreads.length

end RkVerif.C13
