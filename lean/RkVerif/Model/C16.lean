/-
  C16 — executable model of rkcommon/xml/XML.cpp (readXML and its helpers), core Lean only.

  The file's bytes are an `Array UInt8` `b`; `readXML` copies them into a buffer of `b.size + 1`
  chars whose last char is 0 (`std::vector<char> mem(numBytes + 1, 0)` + `fread`).  The parser is a
  cursor `s` (a `Nat` index; C++: `char *&s`) into that buffer.  `rd b i` is the only way the
  model reads the buffer: indices `< b.size` give the file byte, index `b.size` gives the
  terminator 0, everything beyond is `Err.outOfBounds` (in C++: undefined behaviour, what ASan
  reports as heap-buffer-overflow).  Every helper of XML.cpp is mirrored statement by statement;
  every `while` loop and the `parseNode` recursion take a fuel argument (one unit per loop
  iteration / recursive call); running out gives `Err.outOfFuel` (C++: a hang / unbounded
  recursion).  `throw std::runtime_error` is `Err.runtimeError`.

  The model follows the code *with* fixes/C16-parsestring-terminator.patch applied
  (`parseString`); `parseStringOrig` is the scanning loop of the unchanged tree, kept for the
  witnesses in Props.
-/
namespace RkVerif.C16

inductive Err where
  | runtimeError   -- throw std::runtime_error(...)
  | outOfBounds    -- a read outside [buffer, buffer + numBytes]  (UB in C++)
  | outOfFuel      -- non-termination within the fuel
  deriving DecidableEq, Repr, Inhabited

abbrev Bytes := List UInt8

/-- `xml::Node` (name, content, properties, child).  `props` is the `std::map` as an
    association list with unique keys (see `setProp`); the observation sorts it by key. -/
structure Node where
  name : Bytes
  props : List (Bytes × Bytes)
  content : Bytes
  children : List Node
  deriving Repr, Inhabited

/-- parser state monad: buffer (read-only) and cursor. -/
def XmlM (α : Type) := Array UInt8 → Nat → Except Err (α × Nat)

instance : Monad XmlM where
  pure a := fun _ s => .ok (a, s)
  bind m f := fun b s =>
    match m b s with
    | .ok (a, s') => f a b s'
    | .error e => .error e

def fail {α : Type} (e : Err) : XmlM α := fun _ _ => .error e

/-- `mem[i]` of the zero-terminated copy of the file. -/
def rd (b : Array UInt8) (i : Nat) : Except Err UInt8 :=
  if h : i < b.size then .ok b[i]
  else if i = b.size then .ok 0
  else .error .outOfBounds

/-- `s[k]` -/
def peekAt (k : Nat) : XmlM UInt8 := fun b s =>
  match rd b (s + k) with
  | .ok c => .ok (c, s)
  | .error e => .error e

/-- `*s` -/
def peek : XmlM UInt8 := peekAt 0

/-- `++s` (pointer arithmetic itself never faults; the next read does) -/
def adv : XmlM Unit := fun _ s => .ok ((), s + 1)

/-- the cursor value (`char *begin = s;`) -/
def pos : XmlM Nat := fun _ s => .ok (s, s)

/-- `mem[i]` at an absolute index (`end[-1]`) -/
def rdAbs (i : Nat) : XmlM UInt8 := fun b s =>
  match rd b i with
  | .ok c => .ok (c, s)
  | .error e => .error e

/-! character classes ("C" locale; bytes ≥ 0x80 are in no class) -/
def cLT : UInt8 := 60      -- '<'
def cGT : UInt8 := 62      -- '>'
def cSlash : UInt8 := 47   -- '/'
def cBang : UInt8 := 33    -- '!'
def cDash : UInt8 := 45    -- '-'
def cQuest : UInt8 := 63   -- '?'
def cEq : UInt8 := 61      -- '='
def cDQ : UInt8 := 34      -- '"'
def cSQ : UInt8 := 39      -- '\''
def cBSl : UInt8 := 92     -- '\\'

def isWhite (c : UInt8) : Bool := c == 32 || c == 9 || c == 10 || c == 13
def isSpace (c : UInt8) : Bool := c == 32 || (9 ≤ c && c ≤ 13)         -- isspace
def isAlpha (c : UInt8) : Bool := (65 ≤ c && c ≤ 90) || (97 ≤ c && c ≤ 122)
def isDigit (c : UInt8) : Bool := 48 ≤ c && c ≤ 57
def isIdStart (c : UInt8) : Bool := isAlpha c || c == 95
def isIdChar (c : UInt8) : Bool := isAlpha c || isDigit c || c == 95 || c == 46

/-- `expect(s, w)` -/
def expect (w : UInt8) : XmlM Unit := do
  let c ← peek
  if c != w then fail .runtimeError else pure ()

/-- `expect(s, w0, w1)` -/
def expect2 (w0 w1 : UInt8) : XmlM Unit := do
  let c ← peek
  if c != w0 && c != w1 then fail .runtimeError else pure ()

/-- `consume(s, w)` -/
def consume (w : UInt8) : XmlM Unit := do
  expect w
  adv

/-- `consume(s, const char *word)`: `consume` for each char of the word; the `catch (...)`
    turns the `runtime_error` of `consume` into another `runtime_error`. -/
def consumeWord : List UInt8 → XmlM Unit
  | [] => pure ()
  | w :: ws => do
    consume w
    consumeWord ws

/-- the scanning loop of `consumeComment`:
    `while (!((s[0] == 0) || (s[0] == '-' && s[1] == '-' && s[2] == '>'))) ++s;`
    (`&&` short-circuits: `s[1]` is read only when `s[0] == '-'`, `s[2]` only when `s[1] == '-'`) -/
def commentLoop : Nat → XmlM Unit
  | 0 => fail .outOfFuel
  | f + 1 => do
    let c0 ← peekAt 0
    if c0 == 0 then pure ()
    else if c0 == cDash then do
      let c1 ← peekAt 1
      if c1 == cDash then do
        let c2 ← peekAt 2
        if c2 == cGT then pure ()
        else do adv; commentLoop f
      else do adv; commentLoop f
    else do adv; commentLoop f

/-- `consumeComment(s)` -/
def consumeComment (f : Nat) : XmlM Unit := do
  consume cLT
  consume cBang
  commentLoop f
  consume cDash
  consume cDash
  consume cGT

/-- `makeString(begin, end)`: throws when `begin > end`; `std::string s = mem` stops at the first 0. -/
def makeString (bg en : Nat) : XmlM Bytes := fun b s =>
  if bg > en then .error .runtimeError
  else .ok (((b.extract bg en).toList).takeWhile (· != 0), s)

/-- the scanning loop of `parseString` for quote `q`, fixed code:
    `while (*s != q) { if (*s == '\\') ++s; if (*s == 0) throw runtime_error; ++s; }` -/
def stringLoop (q : UInt8) : Nat → XmlM Unit
  | 0 => fail .outOfFuel
  | f + 1 => do
    let c ← peek
    if c != q then do
      (if c == cBSl then adv else pure ())
      let c' ← peek
      if c' == 0 then fail .runtimeError
      else do
        adv
        stringLoop q f
    else pure ()

/-- the same loop on the unchanged tree: `while (*s != q) { if (*s == '\\') ++s; ++s; }` -/
def stringLoopOrig (q : UInt8) : Nat → XmlM Unit
  | 0 => fail .outOfFuel
  | f + 1 => do
    let c ← peek
    if c != q then do
      (if c == cBSl then adv else pure ())
      adv
      stringLoopOrig q f
    else pure ()

/-- one branch of `parseString` -/
def parseQuoted (loop : UInt8 → Nat → XmlM Unit) (q : UInt8) (f : Nat) : XmlM Bytes := do
  consume q
  let bg ← pos
  loop q f
  let en ← pos
  let v ← makeString bg en
  consume q
  pure v

/-- `parseString(s, value)` -/
def parseStringWith (loop : UInt8 → Nat → XmlM Unit) (f : Nat) : XmlM Bytes := do
  let c ← peek
  if c == cDQ then parseQuoted loop cDQ f else parseQuoted loop cSQ f

def parseString (f : Nat) : XmlM Bytes := parseStringWith stringLoop f
def parseStringOrig (f : Nat) : XmlM Bytes := parseStringWith stringLoopOrig f

/-- `while (isalpha(*s) || isdigit(*s) || *s == '_' || *s == '.') ++s;` -/
def identLoop : Nat → XmlM Unit
  | 0 => fail .outOfFuel
  | f + 1 => do
    let c ← peek
    if isIdChar c then do adv; identLoop f else pure ()

/-- `parseIdentifier(s, identifier)`: `none` = returned false (identifier untouched). -/
def parseIdentifier (f : Nat) : XmlM (Option Bytes) := do
  let c ← peek
  if isIdStart c then do
    let bg ← pos
    adv
    identLoop f
    let en ← pos
    let v ← makeString bg en
    pure (some v)
  else pure none

/-- `skipWhites(s)` -/
def skipWhites : Nat → XmlM Unit
  | 0 => fail .outOfFuel
  | f + 1 => do
    let c ← peek
    if isWhite c then do adv; skipWhites f else pure ()

/-- `parseProp(s, name, value)` with a given `parseString` -/
def parsePropWith (ps : Nat → XmlM Bytes) (f : Nat) : XmlM (Option (Bytes × Bytes)) := do
  match ← parseIdentifier f with
  | none => pure none
  | some name =>
    skipWhites f
    consume cEq
    skipWhites f
    expect2 cDQ cSQ
    let value ← ps f
    pure (some (name, value))

def parseProp (f : Nat) : XmlM (Option (Bytes × Bytes)) := parsePropWith parseString f

/-- `skipComment(s)` -/
def skipComment (f : Nat) : XmlM Bool := do
  let c0 ← peekAt 0
  if c0 == cLT then do
    let c1 ← peekAt 1
    if c1 == cBang then do
      consumeComment f
      pure true
    else pure false
  else pure false

/-- `node.properties[name] = value` on the association list: replace or append. -/
def setProp : List (Bytes × Bytes) → Bytes → Bytes → List (Bytes × Bytes)
  | [], k, v => [(k, v)]
  | (k', v') :: rest, k, v => if k' == k then (k', v) :: rest else (k', v') :: setProp rest k v

/-- `while (parseProp(s, name, value)) { node.properties[name] = value; skipWhites(s); }` -/
def propLoop (ps : Nat → XmlM Bytes) : Nat → List (Bytes × Bytes) → XmlM (List (Bytes × Bytes))
  | 0, _ => fail .outOfFuel
  | f + 1, acc => do
    match ← parsePropWith ps f with
    | none => pure acc
    | some (k, v) =>
      skipWhites f
      propLoop ps f (setProp acc k v)

/-- `while (*s != '<' && *s != 0) ++s;` -/
def contentLoop : Nat → XmlM Unit
  | 0 => fail .outOfFuel
  | f + 1 => do
    let c ← peek
    if c != cLT && c != 0 then do adv; contentLoop f else pure ()

/-- `while (isspace(end[-1])) --end;` — `end[-1]` with `end = buffer` would be a read before
    the buffer (`outOfBounds`). Structural in `end`, needs no fuel. -/
def trimBack : Nat → XmlM Nat
  | 0 => fail .outOfBounds
  | e + 1 => do
    let c ← rdAbs e
    if isSpace c then trimBack e else pure (e + 1)

/-- the `while (1)` loop of `parseNode`; `pn` parses a child node (`parseNode(s)`). -/
def nodeLoop (pn : XmlM Node) (name : Bytes) (props : List (Bytes × Bytes)) :
    Nat → Bytes → List Node → XmlM Node
  | 0, _, _ => fail .outOfFuel
  | f + 1, content, children => do
    skipWhites f
    if ← skipComment f then
      nodeLoop pn name props f content children            -- continue
    else do
      let c0 ← peekAt 0
      if c0 == cLT then do
        let c1 ← peekAt 1
        if c1 == cSlash then do
          consumeWord [cLT, cSlash]
          let nodeName := (← parseIdentifier f).getD []
          if nodeName != name then fail .runtimeError
          else do
            consumeWord [cGT]
            pure { name, props, content, children }         -- break; return node
        else do
          let ch ← pn
          nodeLoop pn name props f content (children ++ [ch])
      else if c0 == 0 then
        pure { name, props, content, children }             -- warning on std::cout; return node
      else do
        if content != [] then fail .runtimeError
        else do
          let bg ← pos
          contentLoop f
          let en ← pos
          let en' ← trimBack en
          let v ← makeString bg en'
          nodeLoop pn name props f v children

/-- `parseNode(s)` with a given `parseString` -/
def parseNodeWith (ps : Nat → XmlM Bytes) : Nat → XmlM Node
  | 0 => fail .outOfFuel
  | f + 1 => do
    consume cLT
    match ← parseIdentifier f with
    | none => fail .runtimeError
    | some name =>
      skipWhites f
      let props ← propLoop ps f []
      let c ← peek
      if c == cSlash then do
        consumeWord [cSlash, cGT]
        pure { name, props, content := [], children := [] }
      else do
        consumeWord [cGT]
        nodeLoop (parseNodeWith ps f) name props f [] []

def parseNode (f : Nat) : XmlM Node := parseNodeWith parseString f

/-- `while (parseProp(s, name, value)) { skipWhites(s); }` of `parseHeader` -/
def headerPropLoop (ps : Nat → XmlM Bytes) : Nat → XmlM Unit
  | 0 => fail .outOfFuel
  | f + 1 => do
    match ← parsePropWith ps f with
    | none => pure ()
    | some _ =>
      skipWhites f
      headerPropLoop ps f

/-- `parseHeader(s)` -/
def parseHeaderWith (ps : Nat → XmlM Bytes) (f : Nat) : XmlM Bool := do
  consumeWord [cLT, cQuest, 120, 109, 108]       -- "<?xml"
  let c0 ← peekAt 0
  let isEnd ← (if c0 == cQuest then do
                  let c1 ← peekAt 1
                  pure (c1 == cGT)
                else pure false : XmlM Bool)
  if isEnd then do
    consumeWord [cQuest, cGT]
    pure true
  else do
    let c ← peek
    if !isWhite c then pure false
    else do
      adv
      skipWhites f
      headerPropLoop ps f
      consumeWord [cQuest, cGT]
      pure true

/-- the `while (*s != 0)` loop of `parseXML` -/
def topLoop (ps : Nat → XmlM Bytes) : Nat → List Node → XmlM (List Node)
  | 0, _ => fail .outOfFuel
  | f + 1, acc => do
    let c ← peek
    if c != 0 then do
      if ← skipComment f then do
        skipWhites f
        topLoop ps f acc
      else do
        let nd ← parseNodeWith ps f
        skipWhites f
        topLoop ps f (acc ++ [nd])
    else pure acc

/-- `parseXML(doc, s)`; the result is `doc.child`. -/
def parseXMLWith (ps : Nat → XmlM Bytes) (f : Nat) : XmlM (List Node) := do
  let c0 ← peekAt 0
  let hdr ← (if c0 == cLT then do
                let c1 ← peekAt 1
                pure (c1 == cQuest)
              else pure false : XmlM Bool)
  let hok ← (if hdr then parseHeaderWith ps f else pure true : XmlM Bool)
  if !hok then fail .runtimeError
  else do
    skipWhites f
    let doc ← topLoop ps f []
    let c ← peek
    if c != 0 then fail .runtimeError else pure doc

/-- `readXML` on a file with bytes `b` (fixed code): fuel `b.size + 2`. -/
def readXML (b : Array UInt8) : Except Err (List Node) :=
  match parseXMLWith parseString (b.size + 2) b 0 with
  | .ok (doc, _) => .ok doc
  | .error e => .error e

/-- the same with the `parseString` of the unchanged tree -/
def readXMLOrig (b : Array UInt8) : Except Err (List Node) :=
  match parseXMLWith parseStringOrig (b.size + 2) b 0 with
  | .ok (doc, _) => .ok doc
  | .error e => .error e


/-! ## printer for the documented subset

A *source tree* carries, next to names / properties / text / children, every layout choice the
reader accepts: whitespace after the tag name, around `=`, after a property, between the items
of an element, the quote style of every value, comments between items, self-closing vs.
open/close form, optional header.  `printDoc` writes it to bytes, `eraseDoc` forgets the layout
and yields the tree `readXML` must return. -/

structure Attr where
  key : Bytes
  val : Bytes
  dq : Bool          -- "…" or '…'
  ws1 : Bytes        -- between key and '='
  ws2 : Bytes        -- between '=' and the opening quote
  ws3 : Bytes        -- after the closing quote
  deriving Repr, Inhabited

mutual
  inductive Elem where
    /-- `<name ws0 attrs/>` -/
    | selfClose (name ws0 : Bytes) (attrs : List Attr)
    /-- `<name ws0 attrs> initWs items </name>` -/
    | node (name ws0 : Bytes) (attrs : List Attr) (initWs : Bytes) (items : Items)
  /-- what stands between `<name …>` and `</name>`: each item followed by whitespace -/
  inductive Items where
    | nil
    | child (e : Elem) (wsAfter : Bytes) (rest : Items)
    | comment (body wsAfter : Bytes) (rest : Items)      -- `<!` body `-->`
    | text (t wsAfter : Bytes) (rest : Items)
end

inductive Top where
  | elem (e : Elem) (wsAfter : Bytes)
  | comment (body wsAfter : Bytes)

inductive Header where
  | none
  | short                                      -- `<?xml?>`
  | long (ws : Bytes) (attrs : List Attr)      -- `<?xml` ws attrs `?>`

structure Doc where
  header : Header
  initWs : Bytes
  tops : List Top

def quoteOf (dq : Bool) : UInt8 := if dq then cDQ else cSQ

/-- `key ws1 = ws2 "val"` -/
def printAttrCore (a : Attr) : Bytes :=
  a.key ++ (a.ws1 ++ (cEq :: (a.ws2 ++ (quoteOf a.dq :: (a.val ++ [quoteOf a.dq])))))

def printAttrs : List Attr → Bytes
  | [] => []
  | a :: as => printAttrCore a ++ (a.ws3 ++ printAttrs as)

def printComment (body : Bytes) : Bytes := cLT :: cBang :: (body ++ [cDash, cDash, cGT])

mutual
  def printElem : Elem → Bytes
    | .selfClose name ws0 attrs => cLT :: (name ++ (ws0 ++ (printAttrs attrs ++ [cSlash, cGT])))
    | .node name ws0 attrs initWs items =>
      cLT :: (name ++ (ws0 ++ (printAttrs attrs ++ (cGT :: (initWs ++
        (printItems items ++ (cLT :: cSlash :: (name ++ [cGT]))))))))
  def printItems : Items → Bytes
    | .nil => []
    | .child e w rest => printElem e ++ (w ++ printItems rest)
    | .comment body w rest => printComment body ++ (w ++ printItems rest)
    | .text t w rest => t ++ (w ++ printItems rest)
end

def printTops : List Top → Bytes
  | [] => []
  | .elem e w :: r => printElem e ++ (w ++ printTops r)
  | .comment body w :: r => printComment body ++ (w ++ printTops r)

def printHeader : Header → Bytes
  | .none => []
  | .short => [cLT, cQuest, 120, 109, 108, cQuest, cGT]
  | .long ws attrs => [cLT, cQuest, 120, 109, 108] ++ (ws ++ (printAttrs attrs ++ [cQuest, cGT]))

def printDoc (d : Doc) : Bytes := printHeader d.header ++ (d.initWs ++ printTops d.tops)

/-- `node.properties[key] = val` for every attribute in order (a repeated key keeps the last value) -/
def propsOf (acc : List (Bytes × Bytes)) : List Attr → List (Bytes × Bytes)
  | [] => acc
  | a :: as => propsOf (setProp acc a.key a.val) as

/-- the text run of an element (the first one; well-formed sources have at most one) -/
def contentOf : Items → Bytes
  | .nil => []
  | .child _ _ rest => contentOf rest
  | .comment _ _ rest => contentOf rest
  | .text t _ _ => t

mutual
  def eraseElem : Elem → Node
    | .selfClose name _ attrs => { name, props := propsOf [] attrs, content := [], children := [] }
    | .node name _ attrs _ items =>
      { name, props := propsOf [] attrs, content := contentOf items, children := childrenOf items }
  def childrenOf : Items → List Node
    | .nil => []
    | .child e _ rest => eraseElem e :: childrenOf rest
    | .comment _ _ rest => childrenOf rest
    | .text _ _ rest => childrenOf rest
end

def eraseTops : List Top → List Node
  | [] => []
  | .elem e _ :: r => eraseElem e :: eraseTops r
  | .comment _ _ :: r => eraseTops r

def eraseDoc (d : Doc) : List Node := eraseTops d.tops

/-! well-formedness of a source tree = membership in the subset the reader documents -/

def allB (p : UInt8 → Bool) : Bytes → Bool
  | [] => true
  | c :: t => p c && allB p t

/-- identifier: `[A-Za-z_][A-Za-z0-9_.]*` -/
def identOK : Bytes → Bool
  | [] => false
  | c :: t => isIdStart c && allB isIdChar t

def wsOK (w : Bytes) : Bool := allB isWhite w

/-- a property value in quotes `q`: a sequence of plain bytes (not NUL, not `q`, not backslash) and
    backslash pairs `\x` (x any byte but NUL, e.g. the quote itself); the pair is kept verbatim -/
def valOK (q : UInt8) : Bytes → Bool
  | [] => true
  | c :: t =>
    if c == cBSl then
      match t with
      | [] => false
      | x :: t' => x != 0 && valOK q t'
    else c != 0 && c != q && valOK q t

def attrOK (a : Attr) : Bool :=
  identOK a.key && wsOK a.ws1 && wsOK a.ws2 && wsOK a.ws3 && valOK (quoteOf a.dq) a.val

/-- whitespace after the tag name is needed before the first property -/
def tagOK (name ws0 : Bytes) (attrs : List Attr) : Bool :=
  identOK name && wsOK ws0 && (attrs.isEmpty || !ws0.isEmpty) && attrs.all attrOK

def lastNotSpace : Bytes → Bool
  | [] => false
  | [c] => !isSpace c
  | _ :: t => lastNotSpace t

/-- a text run: non-empty, no `<`, no NUL, does not start with (reader-)whitespace, does not end
    with `isspace` — i.e. it is its own trimmed form -/
def textOK : Bytes → Bool
  | [] => false
  | c :: t => !isWhite c && allB (fun c => c != cLT && c != 0) (c :: t) && lastNotSpace (c :: t)

def startsClose : Bytes → Bool
  | a :: b :: c :: _ => a == cDash && b == cDash && c == cGT
  | _ => false

/-- index of the first `-->` -/
def firstClose : Bytes → Nat
  | [] => 0
  | c :: t => if startsClose (c :: t) then 0 else firstClose t + 1

/-- a comment body: no NUL and the first `-->` of `body-->` is the final one -/
def commentOK (body : Bytes) : Bool :=
  allB (· != 0) body && firstClose (body ++ [cDash, cDash, cGT]) == body.length

mutual
  def elemOK : Elem → Bool
    | .selfClose name ws0 attrs => tagOK name ws0 attrs
    | .node name ws0 attrs initWs items => tagOK name ws0 attrs && wsOK initWs && itemsOK true items
  /-- `allowText`: no text run seen yet in this element -/
  def itemsOK : Bool → Items → Bool
    | _, .nil => true
    | tx, .child e w rest => elemOK e && wsOK w && itemsOK tx rest
    | tx, .comment body w rest => commentOK body && wsOK w && itemsOK tx rest
    | tx, .text t w rest => tx && textOK t && wsOK w && itemsOK false rest
end

def topOK : Top → Bool
  | .elem e w => elemOK e && wsOK w
  | .comment body w => commentOK body && wsOK w

def headerOK : Header → Bool
  | .none => true
  | .short => true
  | .long ws attrs => !ws.isEmpty && wsOK ws && attrs.all attrOK

def docOK (d : Doc) : Bool := headerOK d.header && wsOK d.initWs && d.tops.all topOK

end RkVerif.C16
