/-
Model of rkcommon::containers::FlatMap (rkcommon/containers/FlatMap.h) and
rkcommon::utility::ParameterizedObject (rkcommon/utility/ParameterizedObject.{h,cpp}).

Hand-written, executable, core Lean only. Tied to the source by the
correspondence check (harness/c10.cpp vs Driver/C10.lean).

FlatMap<KEY,VALUE> is a std::vector<std::pair<KEY,VALUE>>:
  lookup      = std::find_if on key equality (first match)
  at          = lookup, throws std::out_of_range when absent
  operator[]  = lookup, push_back(key, VALUE()) when absent
  erase       = std::stable_partition(key != k) then resize  (= filter)
  at_index    = std::vector::at
-/
namespace RkVerif.C10

variable {K V : Type} [DecidableEq K]

abbrev Items (K V : Type) := List (K × V)

def keys (m : Items K V) : List K := m.map Prod.fst

def lookup (m : Items K V) (k : K) : Option V :=
  match m with
  | [] => none
  | (k', v) :: rest => if k' = k then some v else lookup rest k

def contains (m : Items K V) (k : K) : Bool := (lookup m k).isSome

/-- `m[k] = v` : operator[] followed by assignment through the returned reference. -/
def set (m : Items K V) (k : K) (v : V) : Items K V :=
  match m with
  | [] => [(k, v)]
  | (k', v') :: rest => if k' = k then (k', v) :: rest else (k', v') :: set rest k v

/-- `m[k]` as an rvalue: inserts `dflt` (= VALUE()) when absent, returns the stored value. -/
def index (m : Items K V) (k : K) (dflt : V) : Items K V × V :=
  match lookup m k with
  | some v => (m, v)
  | none => (m ++ [(k, dflt)], dflt)

/-- `m.at(k)` ; `none` models the std::out_of_range exception. -/
def at? (m : Items K V) (k : K) : Option V := lookup m k

/-- `m.at(k) = v` ; `none` models the exception (state unchanged). -/
def atSet (m : Items K V) (k : K) (v : V) : Option (Items K V) :=
  match lookup m k with
  | some _ => some (set m k v)
  | none => none

def erase (m : Items K V) (k : K) : Items K V := m.filter (fun i => i.1 ≠ k)

def atIndex (m : Items K V) (i : Nat) : Option (K × V) := m[i]?

/-- State-changing operations of a history. -/
inductive Op (K V : Type) where
  | set (k : K) (v : V)
  | idx (k : K)
  | atSet (k : K) (v : V)
  | erase (k : K)
  | clear
deriving Repr

def step (dflt : V) (m : Items K V) : Op K V → Items K V
  | .set k v => set m k v
  | .idx k => (index m k dflt).1
  | .atSet k v => (atSet m k v).getD m
  | .erase k => erase m k
  | .clear => []

/-- History given most-recent-first. -/
def runR (dflt : V) : List (Op K V) → Items K V
  | [] => []
  | op :: earlier => step dflt (runR dflt earlier) op

/-! ### ParameterizedObject -/

structure Param (T A : Type) where
  name : String
  tag : T          -- the exact C++ type stored in the Any
  val : A
  query : Bool
deriving Repr

abbrev Params (T A : Type) := List (Param T A)

variable {T A : Type} [DecidableEq T]

def findParam (ps : Params T A) (n : String) : Option (Param T A) :=
  match ps with
  | [] => none
  | p :: rest => if p.name = n then some p else findParam rest n

def hasParam (ps : Params T A) (n : String) : Bool := (findParam ps n).isSome

/-- `setParam<T>(name, v)`: findParam(name, true)->set(v); `query` keeps its value, a new
    Param starts with query = false and is appended. -/
def setParam (ps : Params T A) (n : String) (t : T) (v : A) : Params T A :=
  match ps with
  | [] => [{ name := n, tag := t, val := v, query := false }]
  | p :: rest => if p.name = n then { p with tag := t, val := v } :: rest else p :: setParam rest n t v

def markQueried (ps : Params T A) (n : String) : Params T A :=
  match ps with
  | [] => []
  | p :: rest => if p.name = n then { p with query := true } :: rest else p :: markQueried rest n

/-- `getParam<T>(name, dflt)` -/
def getParam (ps : Params T A) (n : String) (t : T) (dflt : A) : Params T A × A :=
  match findParam ps n with
  | none => (ps, dflt)
  | some p => if p.tag = t then (markQueried ps n, p.val) else (ps, dflt)

/-- `removeParam(name)`: erases the first (only) Param with that name. -/
def removeParam (ps : Params T A) (n : String) : Params T A :=
  match ps with
  | [] => []
  | p :: rest => if p.name = n then rest else p :: removeParam rest n

def resetQuery (ps : Params T A) : Params T A := ps.map (fun p => { p with query := false })

inductive POp (T A : Type) where
  | set (n : String) (t : T) (v : A)
  | get (n : String) (t : T) (dflt : A)
  | remove (n : String)
  | reset
deriving Repr

def pstep (ps : Params T A) : POp T A → Params T A
  | .set n t v => setParam ps n t v
  | .get n t d => (getParam ps n t d).1
  | .remove n => removeParam ps n
  | .reset => resetQuery ps

def prunR : List (POp T A) → Params T A
  | [] => []
  | op :: earlier => pstep (prunR earlier) op

end RkVerif.C10
