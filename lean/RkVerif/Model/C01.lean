/-
Model for C01 (parallel loops run every index exactly once and join before returning).

Hand-written, executable, core Lean only.  Three layers (DESIGN §7 C01) plus the pipe:

  §1 `Blocks`   integer semantics of the index types (widths, promotions, wrap / signed overflow),
                the block arithmetic of `parallel_in_blocks_of`, the serial loop of the Debug
                backend / `serial_for`, the chunking of the Internal backend's 32-bit task count
                (detail/parallel_for.inl) and `parallel_foreach`'s element addressing
  §2 `Sched`    the enkiTS task-set path (AddTaskSetToPipe, SplitAndAddTask incl. the pipe-full
                branch, TryRunTask, WaitforTask) as a transition system over multisets
  §3 `Pipe`     LockLessMultiReadPipe's flag protocol (slots, CAS transitions)
  §4 `Dispatch` per backend the indices a `parallel_for` call hands to the body (one canonical
                schedule of §2 for the Internal backend) – used by the driver only

Source, statement by statement (tree = /repo HEAD + fixes/C01-*.patch):

  parallel_for.h
    template <int BLOCK_SIZE, typename INDEX_T, typename TASK_T>
    void parallel_in_blocks_of(INDEX_T nTasks, TASK_T &&fcn) {
      static_assert(BLOCK_SIZE > 0, ...);
      const INDEX_T numBlocks = nTasks > 0
          ? INDEX_T(nTasks / BLOCK_SIZE + (nTasks % BLOCK_SIZE != 0 ? 1 : 0)) : INDEX_T(0);
      parallel_for(numBlocks, [&](INDEX_T blockID) {
        const INDEX_T begin = INDEX_T(blockID * BLOCK_SIZE);
        const INDEX_T end   = (nTasks - begin > BLOCK_SIZE) ? INDEX_T(begin + BLOCK_SIZE) : nTasks;
        fcn(begin, end);
      });
    }
    (before the fix:  numBlocks = (nTasks + BLOCK_SIZE - 1) / BLOCK_SIZE;
                      begin = blockID * (INDEX_T)BLOCK_SIZE;
                      end = std::min(begin + (INDEX_T)BLOCK_SIZE, nTasks);          -> `Orig` below)
    serial_for / Debug backend / OpenMP loop:
      for (INDEX_T taskIndex = 0; taskIndex < nTasks; ++taskIndex) fcn(taskIndex);

  detail/parallel_for.inl, Internal backend
      if (nTasks > 0) {
        const unsigned long long total = nTasks, maxChunk = 0x7fffffffull;
        for (unsigned long long first = 0; first < total; first += maxChunk) {
          const unsigned long long left = total - first;
          const int chunk = int(left < maxChunk ? left : maxChunk);
          detail::parallel_for_internal(chunk, [&](unsigned i) { fcn(INDEX_T(first + i)); });
        } }
    (before the fix:  detail::parallel_for_internal(nTasks, fcn)  with  parallel_for_internal(int nTasks, ..),
                      Task(uint32_t setSize_), body called with the uint32_t partition index)

  parallel_foreach.h
      const size_t count = std::distance(begin, end);
      parallel_for(count, [&](size_t i) { f(begin[i]); });
    (before the fix:  auto *v = &(*begin);  ... f(v[i]))

  detail/enkiTS/TaskScheduler.cpp
    SplitTask(subTask_, rangeToSplit_):
      splitTask = subTask_; rangeLeft = subTask_.end - subTask_.start;
      if (rangeToSplit_ > rangeLeft) rangeToSplit_ = rangeLeft;
      splitTask.end = subTask_.start + rangeToSplit_; subTask_.start = splitTask.end; return splitTask;
    SplitAndAddTask(threadNum_, subTask_, rangeToSplit_):
      while (subTask_.start != subTask_.end) {
        taskToAdd = SplitTask(subTask_, rangeToSplit_);
        AtomicAdd(&m_RunningCount, 1);                                         -- Act.take
        if (!pipe[threadNum_].WriterTryWriteFront(taskToAdd)) {                -- Act.inline
          if (m_RangeToRun < taskToAdd.end - taskToAdd.start) {      (before the fix: m_RangeToRun < rangeToSplit_)
            taskToAdd.end = taskToAdd.start + m_RangeToRun; subTask_.start = taskToAdd.end; }
          taskToAdd.pTask->ExecuteRange(taskToAdd.partition, threadNum_);      -- Act.exec*
          AtomicAdd(&m_RunningCount, -1);                                      -- Act.finish
        } else WakeThreads(1);                                                 -- Act.push
      }                                                                        -- Act.jobDone
    AddTaskSetToPipe(pTaskSet):                                                -- Act.add
      m_RunningCount = 0;
      m_RangeToRun = m_SetSize / m_NumPartitions;        if (< m_MinRange) m_RangeToRun = m_MinRange;
      rangeToSplit = m_SetSize / m_NumInitialPartitions; if (< m_MinRange) rangeToSplit = m_MinRange;
      SplitAndAddTask(gtl_threadNum, {pTaskSet, 0, m_SetSize}, rangeToSplit);
    TryRunTask(threadNum, hint):                                               -- Act.pop
      bHaveTask = own pipe .WriterTryReadFront || some other pipe .ReaderTryReadBack;
      if (bHaveTask) {
        partitionSize = subTask.end - subTask.start;
        if (m_RangeToRun < partitionSize) {
          taskToRun = SplitTask(subTask, m_RangeToRun);
          SplitAndAddTask(threadNum, subTask, m_RangeToRun);
          taskToRun.pTask->ExecuteRange(taskToRun.partition, threadNum); AtomicAdd(&m_RunningCount, -1);
        } else { subTask.pTask->ExecuteRange(subTask.partition, threadNum); AtomicAdd(&m_RunningCount, -1); } }
    WaitforTask(p):  while (p->m_RunningCount) TryRunTask(gtl_threadNum, hint);  -- `waitMayReturn`
    StartThreads:  m_NumPartitions = 1 == n ? 1 : n*(n-1);  m_NumInitialPartitions = 1 == n ? 1 : min(n-1, 8)
    TaskSys.h LocalTask::ExecuteRange(tp, _):  for (auto i = tp.start; i < tp.end; ++i) t(i);
-/
namespace RkVerif.C01

/-! ## §1 Blocks — integer semantics of the index types, block arithmetic, serial loop, chunking, addressing -/

/-- An integer type of C++: width and signedness. -/
structure CTy where
  bits : Nat
  signed : Bool
deriving DecidableEq, Repr

def CTy.lo (T : CTy) : Int := if T.signed then -(2 ^ (T.bits - 1) : Int) else 0
def CTy.hi (T : CTy) : Int := if T.signed then 2 ^ (T.bits - 1) - 1 else 2 ^ T.bits - 1
def CTy.inRange (T : CTy) (x : Int) : Prop := T.lo ≤ x ∧ x ≤ T.hi

instance (T : CTy) (x : Int) : Decidable (T.inRange x) := by unfold CTy.inRange; exact inferInstance

/-- Conversion to `T`: modular (for a signed target: what gcc, clang and msvc define). -/
def CTy.conv (T : CTy) (x : Int) : Int :=
  let m := x % (2 ^ T.bits : Int)
  if T.signed ∧ m ≥ (2 ^ (T.bits - 1) : Int) then m - (2 ^ T.bits : Int) else m

def u8 : CTy := ⟨8, false⟩
def i16 : CTy := ⟨16, true⟩
def i32 : CTy := ⟨32, true⟩
def u32 : CTy := ⟨32, false⟩
def i64 : CTy := ⟨64, true⟩
def u64 : CTy := ⟨64, false⟩

/-- The 8 index types `is_valid_index` accepts (LP64): unsigned char, short, int, unsigned, long,
    long long, unsigned long long, size_t. -/
def indexTypes : List (String × CTy) :=
  [("u8", u8), ("i16", i16), ("i32", i32), ("u32", u32), ("i64", i64), ("ll", i64), ("ull", u64), ("sz", u64)]

/-- The type in which `a ∘ b` is evaluated when one operand is an `INDEX_T` (after promotion) and the
    other an `int`, or both are `INDEX_T`: types narrower than `int` are promoted to `int`. -/
def CTy.arith (T : CTy) : CTy := if T.bits < 32 then i32 else T

/-- Result of an arithmetic operation in type `A`: signed overflow is undefined behaviour (`none`),
    unsigned arithmetic wraps. -/
def cres (A : CTy) (r : Int) : Option Int :=
  if A.signed then (if A.inRange r then some r else none) else some (A.conv r)

def cadd (A : CTy) (a b : Int) : Option Int := cres A (a + b)
def csub (A : CTy) (a b : Int) : Option Int := cres A (a - b)
def cmul (A : CTy) (a b : Int) : Option Int := cres A (a * b)
def cdiv (A : CTy) (a b : Int) : Option Int := if b = 0 then none else cres A (Int.tdiv a b)
def cmod (A : CTy) (a b : Int) : Option Int := if b = 0 then none else cres A (Int.tmod a b)

/-- `nTasks > 0 ? INDEX_T(nTasks / BLOCK_SIZE + (nTasks % BLOCK_SIZE != 0 ? 1 : 0)) : INDEX_T(0)` -/
def numBlocks (T : CTy) (n bs : Int) : Option Int :=
  let A := T.arith
  if n > 0 then
    match cdiv A (A.conv n) (A.conv bs), cmod A (A.conv n) (A.conv bs) with
    | some q, some r =>
      match cadd A q (A.conv (if r ≠ 0 then 1 else 0)) with
      | some sum => some (T.conv sum)
      | none => none
    | _, _ => none
  else some (T.conv 0)

/-- `INDEX_T(blockID * BLOCK_SIZE)` -/
def blockBegin (T : CTy) (bs blockID : Int) : Option Int :=
  let A := T.arith
  match cmul A (A.conv blockID) (A.conv bs) with
  | some p => some (T.conv p)
  | none => none

/-- `(nTasks - begin > BLOCK_SIZE) ? INDEX_T(begin + BLOCK_SIZE) : nTasks` -/
def blockEnd (T : CTy) (n bs bg : Int) : Option Int :=
  let A := T.arith
  match csub A (A.conv n) (A.conv bg) with
  | some d =>
    if d > A.conv bs then
      match cadd A (A.conv bg) (A.conv bs) with
      | some e => some (T.conv e)
      | none => none
    else some n
  | none => none

/-- the (begin, end) pairs handed to `fcn` for blockID = k, k+1, … (`fuel` of them) -/
def blocksFrom (T : CTy) (n bs : Int) : Nat → Int → Option (List (Int × Int))
  | 0, _ => some []
  | fuel + 1, k =>
    match blockBegin T bs k with
    | some bg =>
      match blockEnd T n bs bg, blocksFrom T n bs fuel (k + 1) with
      | some en, some rest => some ((bg, en) :: rest)
      | _, _ => none
    | none => none

/-- `parallel_in_blocks_of<bs>(n, fcn)`: the blocks `fcn` is called with (in blockID order), given that
    `parallel_for(numBlocks, …)` calls its body for blockID = 0 … numBlocks-1. `none`: undefined behaviour. -/
def blocks (T : CTy) (n bs : Int) : Option (List (Int × Int)) :=
  match numBlocks T n bs with
  | some nb => blocksFrom T n bs nb.toNat 0
  | none => none

/-- before the fix: `(nTasks + BLOCK_SIZE - 1) / BLOCK_SIZE` -/
def numBlocksOrig (T : CTy) (n bs : Int) : Option Int :=
  let A := T.arith
  match cadd A (A.conv n) (A.conv bs) with
  | some a =>
    match csub A a 1 with
    | some b =>
      match cdiv A b (A.conv bs) with
      | some q => some (T.conv q)
      | none => none
    | none => none
  | none => none

/-- blocks are consecutive from `a`, non-empty, at most `bs` long, and end at `n` -/
def chainFrom (bs n : Int) : Int → List (Int × Int) → Prop
  | a, [] => a = n
  | a, (b, e) :: rest => b = a ∧ b < e ∧ e - b ≤ bs ∧ chainFrom bs n e rest

/-- `++taskIndex` on an `INDEX_T` -/
def cinc (T : CTy) (i : Int) : Option Int :=
  if T.bits < 32 then some (T.conv (i + 1)) else cres T (i + 1)

/-- `for (INDEX_T taskIndex = i; taskIndex < nTasks; ++taskIndex) fcn(taskIndex);` – the indices `fcn`
    is called with. `fuel` bounds the number of iterations (outer `none` = fuel exhausted or UB). -/
def serialFrom (T : CTy) (n : Int) : Nat → Int → Option (List Int)
  | 0, _ => none
  | fuel + 1, i =>
    if i < n then
      match cinc T i with
      | some i' =>
        match serialFrom T n fuel i' with
        | some l => some (i :: l)
        | none => none
      | none => none
    else some []

def serialLoop (T : CTy) (n : Int) : Option (List Int) := serialFrom T n (2 ^ T.bits + 1) 0

/-- `[i, i+1, …]`, `len` entries -/
def intsFrom : Int → Nat → List Int
  | _, 0 => []
  | i, len + 1 => i :: intsFrom (i + 1) len

/-- the indices `[0, n)` in order (empty for n ≤ 0) -/
def indexRange (n : Int) : List Int := intsFrom 0 n.toNat

def maxChunk : Int := 0x7fffffff

/-- Internal backend, detail/parallel_for.inl: the task sets handed to `parallel_for_internal`:
    (first, m_SetSize). `first`, `total`, `left` are unsigned long long, `chunk` an int,
    `Task(uint32_t setSize_)`; `first += chunk`. -/
def internalSetsFrom (total : Int) : Nat → Int → Option (List (Int × Int))
  | 0, _ => none
  | fuel + 1, first =>
    if first < total then
      match csub u64 total first with
      | some left =>
        let chunk := i32.conv (if left < maxChunk then left else maxChunk)
        match cadd u64 first (u64.conv chunk) with
        | some first' =>
          match internalSetsFrom total fuel first' with
          | some l => some ((first, u32.conv chunk) :: l)
          | none => none
        | none => none
      | none => none
    else some []

def internalSets (n : Int) : Option (List (Int × Int)) :=
  if n > 0 then internalSetsFrom (u64.conv n) ((u64.conv n).toNat + 1) 0 else some []

/-- `fcn(INDEX_T(first + i))` with `unsigned i` the partition index -/
def internalIndex (T : CTy) (first i : Int) : Int := T.conv (u64.conv (first + u32.conv i))

/-- the indices `fcn` is called with when every set runs each of its indices once, in canonical order -/
def internalCalls (T : CTy) (n : Int) : Option (List Int) :=
  match internalSets n with
  | some sets => some (sets.flatMap fun fs => (intsFrom 0 fs.2.toNat).map (internalIndex T fs.1))
  | none => none

/-- before the fix: `parallel_for_internal(int nTasks, …)`, `Task(uint32_t setSize_)` -/
def origSetSize (n : Int) : Int := u32.conv (i32.conv n)

/-- A run of contiguous elements. -/
structure Chunk where
  base : Nat
  len : Nat
deriving Repr, DecidableEq

def elemAddrs (sz : Nat) (c : Chunk) : List Nat := (List.range c.len).map fun j => c.base + j * sz

/-- the addresses of the range's elements, in order (what `parallel_foreach` must visit) -/
def rangeAddrs (sz : Nat) (chunks : List Chunk) : List Nat := chunks.flatMap (elemAddrs sz)

/-- `begin[i]` = `*(begin + i)`: iterator arithmetic walks the chunk map -/
def iterAt (sz : Nat) : List Chunk → Nat → Option Nat
  | [], _ => none
  | c :: cs, i => if i < c.len then some (c.base + i * sz) else iterAt sz cs (i - c.len)

/-- before the fix: `auto *v = &(*begin); … v[i]` -/
def ptrAt (sz : Nat) (chunks : List Chunk) (i : Nat) : Option Nat :=
  match iterAt sz chunks 0 with
  | some a => some (a + i * sz)
  | none => none

/-! ## §2 Sched — the enkiTS task-set path

Thread identity is abstracted away: the state holds multisets (lists) of activities, every one of
which may take its next step at any time.  Every real schedule on any number of threads, with any
pipe capacity (whether `WriterTryWriteFront` succeeds is a free choice between `push` and `inline`)
and any nesting (a body that calls `parallel_for` is an `add` while its partition is in flight) is
an interleaving of these steps. -/

/-- `TaskSetPartition` tagged with its task set (`SubTaskSet`). -/
structure Part where
  tid : Nat
  s : Nat
  e : Nat
deriving Repr, DecidableEq

/-- One activation of `SplitAndAddTask`. -/
structure Job where
  tid : Nat
  s : Nat                 -- subTask_.partition.start
  e : Nat                 -- subTask_.partition.end
  rts : Nat               -- rangeToSplit_
  pend : Option Part      -- taskToAdd: split off and counted (AtomicAdd +1), not yet pushed / run inline
  cont : Option Part      -- TryRunTask's taskToRun, run after SplitAndAddTask returns; none: called by AddTaskSetToPipe
deriving Repr, DecidableEq

structure State where
  nsets : Nat                     -- task sets handed to AddTaskSetToPipe so far (ids 0 … nsets-1)
  size : Nat → Nat                -- m_SetSize
  rtr : Nat → Nat                 -- m_RangeToRun
  count : Nat → Int               -- m_RunningCount
  jobs : List Job                 -- SplitAndAddTask activations in progress
  queued : List Part              -- partitions sitting in some thread's pipe
  inflight : List Part            -- ExecuteRange in progress: (set, next index, end); count not yet decremented
  executed : List (Nat × Nat)     -- (set, index) for which the body has been called, most recent first

def init : State :=
  { nsets := 0, size := fun _ => 0, rtr := fun _ => 0, count := fun _ => 0,
    jobs := [], queued := [], inflight := [], executed := [] }

inductive Act where
  | add (size minRange np ni : Nat)   -- AddTaskSetToPipe (np = m_NumPartitions, ni = m_NumInitialPartitions)
  | take (k : Nat)                    -- job k: loop test, SplitTask, AtomicAdd(+1)
  | push (k : Nat)                    -- job k: WriterTryWriteFront succeeded
  | inline (k : Nat)                  -- job k: pipe full – adjust the range, run the partition on this thread
  | jobDone (k : Nat)                 -- job k: loop exit; caller continues (AddTaskSetToPipe returns / taskToRun is run)
  | pop (k : Nat)                     -- TryRunTask obtained queued[k]
  | exec (k : Nat)                    -- in-flight k: the body is called for its next index
  | finish (k : Nat)                  -- in-flight k: ExecuteRange returned, AtomicAdd(-1)
deriving Repr, DecidableEq

/-- element `k` of a list together with the rest -/
def pick {α : Type} : List α → Nat → Option (α × List α)
  | [], _ => none
  | a :: l, 0 => some (a, l)
  | a :: l, k + 1 => match pick l k with
    | some (b, r) => some (b, a :: r)
    | none => none

def upd {β : Type} (f : Nat → β) (t : Nat) (v : β) : Nat → β := fun x => if x = t then v else f x

/-- `SplitTask`: the piece split off and the new `subTask_.partition.start`. -/
def splitTask (tid s e rangeToSplit : Nat) : Part × Nat :=
  let rangeLeft := e - s
  let r := if rangeToSplit > rangeLeft then rangeLeft else rangeToSplit
  (⟨tid, s, s + r⟩, s + r)

/-- The pipe-full branch's range adjustment. `orig = true`: the test as written before the fix. -/
def inlineAdjust (orig : Bool) (rtr : Nat) (j : Job) (p : Part) : Part × Nat :=
  let cond := if orig then rtr < j.rts else rtr < p.e - p.s
  if cond then (⟨p.tid, p.s, p.s + rtr⟩, p.s + rtr) else (p, j.s)

/-- One step. `none`: the action is not enabled. -/
def step (orig : Bool) (s : State) : Act → Option State
  | .add size minRange np ni =>
    let t := s.nsets
    let rtr0 := size / np
    let rtr := if rtr0 < minRange then minRange else rtr0
    let rts0 := size / ni
    let rts := if rts0 < minRange then minRange else rts0
    some { s with nsets := t + 1, size := upd s.size t size, rtr := upd s.rtr t rtr,
                  count := upd s.count t 0,
                  jobs := ⟨t, 0, size, rts, none, none⟩ :: s.jobs }
  | .take k =>
    match pick s.jobs k with
    | some (j, rest) =>
      if j.pend.isNone ∧ j.s ≠ j.e then
        let (p, ns) := splitTask j.tid j.s j.e j.rts
        some { s with count := upd s.count j.tid (s.count j.tid + 1),
                      jobs := { j with s := ns, pend := some p } :: rest }
      else none
    | none => none
  | .push k =>
    match pick s.jobs k with
    | some (j, rest) =>
      match j.pend with
      | some p => some { s with jobs := { j with pend := none } :: rest, queued := p :: s.queued }
      | none => none
    | none => none
  | .inline k =>
    match pick s.jobs k with
    | some (j, rest) =>
      match j.pend with
      | some p =>
        let (p', ns) := inlineAdjust orig (s.rtr j.tid) j p
        some { s with jobs := { j with s := ns, pend := none } :: rest, inflight := p' :: s.inflight }
      | none => none
    | none => none
  | .jobDone k =>
    match pick s.jobs k with
    | some (j, rest) =>
      if j.pend.isNone ∧ j.s = j.e then
        match j.cont with
        | some c => some { s with jobs := rest, inflight := c :: s.inflight }
        | none => some { s with jobs := rest }
      else none
    | none => none
  | .pop k =>
    match pick s.queued k with
    | some (q, rest) =>
      if s.rtr q.tid < q.e - q.s then
        let (run, ns) := splitTask q.tid q.s q.e (s.rtr q.tid)
        some { s with queued := rest, jobs := ⟨q.tid, ns, q.e, s.rtr q.tid, none, some run⟩ :: s.jobs }
      else some { s with queued := rest, inflight := q :: s.inflight }
    | none => none
  | .exec k =>
    match pick s.inflight k with
    | some (p, rest) =>
      if p.s < p.e then
        some { s with inflight := { p with s := p.s + 1 } :: rest, executed := (p.tid, p.s) :: s.executed }
      else none
    | none => none
  | .finish k =>
    match pick s.inflight k with
    | some (p, rest) =>
      if p.s < p.e then none
      else some { s with inflight := rest, count := upd s.count p.tid (s.count p.tid - 1) }
    | none => none

/-- States reachable by the code as it is (after the fix). -/
inductive Reachable : State → Prop where
  | init : Reachable init
  | step {s s' : State} (a : Act) : Reachable s → step false s a = some s' → Reachable s'

/-- Run an action list (first action first); `none` if some action is not enabled. -/
def run (orig : Bool) : State → List Act → Option State
  | s, [] => some s
  | s, a :: as => match step orig s a with
    | some s' => run orig s' as
    | none => none

/-- `AddTaskSetToPipe(t)` has returned: no `SplitAndAddTask` activation of set `t` started by it is left. -/
def addReturned (s : State) (t : Nat) : Prop :=
  t < s.nsets ∧ ∀ j ∈ s.jobs, j.tid = t → j.cont ≠ none

instance (s : State) (t : Nat) : Decidable (addReturned s t) := by
  unfold addReturned; exact inferInstance

/-- `WaitforTask(t)` (called after `AddTaskSetToPipe(t)` returned) may leave its loop. -/
def waitMayReturn (s : State) (t : Nat) : Prop := addReturned s t ∧ s.count t = 0

instance (s : State) (t : Nat) : Decidable (waitMayReturn s t) := by
  unfold waitMayReturn; exact inferInstance

/-- `StartThreads`: m_NumPartitions, m_NumInitialPartitions for `n` scheduler threads. -/
def numPartitions (n : Nat) : Nat := if n = 1 then 1 else n * (n - 1)
def numInitialPartitions (n : Nat) : Nat :=
  if n = 1 then 1 else if n - 1 > 8 then 8 else n - 1

/-! ### counting functions used by the invariant -/

/-- 1 if index `i` of set `t` lies in the partition, else 0 -/
def Part.cnt (p : Part) (t i : Nat) : Nat := if p.tid = t ∧ p.s ≤ i ∧ i < p.e then 1 else 0

def optCnt (o : Option Part) (t i : Nat) : Nat :=
  match o with
  | some p => p.cnt t i
  | none => 0

def Job.cnt (j : Job) (t i : Nat) : Nat :=
  (Part.mk j.tid j.s j.e).cnt t i + optCnt j.pend t i + optCnt j.cont t i

def sumBy {α : Type} (f : α → Nat) : List α → Nat
  | [] => 0
  | a :: l => f a + sumBy f l

/-- how many times index `i` of set `t` is accounted for: executed, queued, in flight, or still to be split -/
def cover (s : State) (t i : Nat) : Nat :=
  sumBy (fun e => if e = (t, i) then 1 else 0) s.executed + sumBy (·.cnt t i) s.queued +
    sumBy (·.cnt t i) s.inflight + sumBy (·.cnt t i) s.jobs

def tidIs (p : Part) (t : Nat) : Nat := if p.tid = t then 1 else 0
def optTidIs (o : Option Part) (t : Nat) : Nat :=
  match o with
  | some p => tidIs p t
  | none => 0

/-- partitions of set `t` that hold one unit of m_RunningCount -/
def pending (s : State) (t : Nat) : Nat :=
  sumBy (tidIs · t) s.queued + sumBy (tidIs · t) s.inflight +
    sumBy (fun j => optTidIs j.pend t + optTidIs j.cont t) s.jobs

/-! ## §2b TryRunTask's steal loop

    uint32_t checkCount = 0;
    while( !bHaveTask && checkCount < BOUND ) {
        threadToCheck = ( hintPipeToCheck_io_ + checkCount ) % m_NumThreads;
        if( threadToCheck != threadNum ) bHaveTask = pipe[threadToCheck].ReaderTryReadBack(..);
        ++checkCount; }

`BOUND` (as a function of m_NumThreads) is read from the source on every run (Gen/C01Table.lean). -/

/-- the other threads' pipes one call of `TryRunTask(t, hint)` probes when nothing is found: in this order -/
def stealProbes (n bound t h : Nat) : List Nat := ((List.range bound).map fun c => (h + c) % n).filter (· ≠ t)

/-! ## §3 Pipe — LockLessMultiReadPipe's flag protocol

  WriterTryWriteFront(in):  k = m_WriteIndex & mask;
                            if (m_Flags[k] != FLAG_CAN_WRITE) return false;
                            m_Buffer[k] = in;                    -- PAct.wBuf k
                            m_Flags[k] = FLAG_CAN_READ;          -- PAct.wFlag      (then ++m_WriteIndex)
  ReaderTryReadBack(pOut) / WriterTryReadFront(pOut):  loop over candidate indices k:
                            prev = CAS(&m_Flags[k], FLAG_INVALID, FLAG_CAN_READ);   -- PAct.cas r k
                            if (prev == FLAG_CAN_READ) break;
                            *pOut = m_Buffer[k];                 -- PAct.copy r
                            m_Flags[k] = FLAG_CAN_WRITE;         -- PAct.release r

Which index a thread tries (m_WriteIndex, m_ReadCount, m_ReadIndex arithmetic) is abstracted to a
free choice of `k`: the hand-off guarantee rests on the flags alone.  Any number of reader threads
(`Nat`-indexed); the writer's own `WriterTryReadFront` is one more reader (the model does not even
use that it cannot overlap with the writer's own write).  Every write stores a fresh ticket
(`next`), so "the same item" means "the same ticket". -/

inductive Flag where
  | canWrite | canRead | invalid
deriving DecidableEq, Repr

inductive RPc where
  | idle
  | claimed (k ticket : Nat)   -- CAS succeeded on slot k (ghost: the ticket that was in the slot)
  | copied (k : Nat)           -- *pOut written, flag not yet released
deriving DecidableEq, Repr

def RPc.slot : RPc → Option Nat
  | .idle => none
  | .claimed k _ => some k
  | .copied k => some k

structure PState where
  flags : Nat → Flag
  buf : Nat → Nat
  wpc : Option Nat            -- the writer is between `m_Buffer[k] = in` and `m_Flags[k] = FLAG_CAN_READ`
  rpc : Nat → RPc
  next : Nat                  -- next fresh ticket = number of items written
  claimed : List Nat          -- tickets claimed by successful CASes, most recent first
  out : List (Nat × Nat)      -- (ticket claimed, value copied out)

def pinit : PState :=
  { flags := fun _ => .canWrite, buf := fun _ => 0, wpc := none, rpc := fun _ => .idle,
    next := 0, claimed := [], out := [] }

inductive PAct where
  | wBuf (k : Nat)
  | wFlag
  | cas (r k : Nat)
  | copy (r : Nat)
  | release (r : Nat)
deriving DecidableEq, Repr

def pstep (s : PState) : PAct → Option PState
  | .wBuf k =>
    if s.wpc = none ∧ s.flags k = .canWrite then
      some { s with buf := upd s.buf k s.next, next := s.next + 1, wpc := some k }
    else none
  | .wFlag =>
    match s.wpc with
    | some k => some { s with flags := upd s.flags k .canRead, wpc := none }
    | none => none
  | .cas r k =>
    if s.rpc r = .idle then
      if s.flags k = .canRead then
        some { s with flags := upd s.flags k .invalid, rpc := upd s.rpc r (.claimed k (s.buf k)),
                      claimed := s.buf k :: s.claimed }
      else some s
    else none
  | .copy r =>
    match s.rpc r with
    | .claimed k c => some { s with rpc := upd s.rpc r (.copied k), out := (c, s.buf k) :: s.out }
    | _ => none
  | .release r =>
    match s.rpc r with
    | .copied k => some { s with flags := upd s.flags k .canWrite, rpc := upd s.rpc r .idle }
    | _ => none

inductive PReachable : PState → Prop where
  | init : PReachable pinit
  | step {s s' : PState} (a : PAct) : PReachable s → pstep s a = some s' → PReachable s'

def prun : PState → List PAct → Option PState
  | s, [] => some s
  | s, a :: as => match pstep s a with
    | some s' => prun s' as
    | none => none

/-! ## §4 Dispatch — what a `parallel_for` call hands to the body, per backend (driver only)

For the Internal backend one canonical schedule of §2 is run (`sched`): whatever it does is an
execution of `step false`, so the theorems about reachable states apply to its result. -/

inductive Backend where
  | tbb | omp | internal | debug
deriving DecidableEq, Repr

/-- canonical scheduler: finish the SplitAndAddTask activations first, then run what is in flight,
    then pop. `room`: free slots of the (one) pipe – a push is chosen while fewer partitions are queued. -/
def sched (room : Nat) (s : State) : Option Act :=
  match s.jobs with
  | j :: _ =>
    if j.pend.isSome then (if s.queued.length < room then some (.push 0) else some (.inline 0))
    else if j.s ≠ j.e then some (.take 0) else some (.jobDone 0)
  | [] =>
    match s.inflight with
    | p :: _ => if p.s < p.e then some (.exec 0) else some (.finish 0)
    | [] =>
      match s.queued with
      | _ :: _ => some (.pop 0)
      | [] => none

/-- run the canonical scheduler until nothing is enabled (or the fuel is used up: `none`) -/
def runSched (room : Nat) : Nat → State → Option State
  | 0, _ => none
  | fuel + 1, s =>
    match sched room s with
    | some a =>
      match step false s a with
      | some s' => runSched room fuel s'
      | none => none
    | none => some s

/-- `parallel_for_internal(size, body)` on `threads` scheduler threads: AddTaskSetToPipe, WaitforTask;
    the partition indices the body was called with, oldest first. `none`: the waiter could not return. -/
def runSet (threads room size : Nat) : Option (List Nat) :=
  match step false init (.add size 1 (numPartitions threads) (numInitialPartitions threads)) with
  | some s0 =>
    match runSched room (8 * size + 64) s0 with
    | some s => if waitMayReturn s 0 then some ((s.executed.filter (·.1 = 0)).map (·.2)).reverse else none
    | none => none
  | none => none

/-- the indices `fcn` is called with by `parallel_for<T>(n, fcn)` (one admissible order).
    TBB / OpenMP: the external contract (each index of [0,n) once, nothing for n ≤ 0). -/
def dispatch (b : Backend) (threads room : Nat) (T : CTy) (n : Int) : Option (List Int) :=
  match b with
  | .tbb => some (indexRange n)
  | .omp => some (indexRange n)
  | .debug => serialLoop T n
  | .internal =>
    match internalSets n with
    | some sets =>
      sets.foldr (fun fs acc =>
        match acc, runSet threads room fs.2.toNat with
        | some rest, some idx => some (idx.map (fun (i : Nat) => internalIndex T fs.1 (Int.ofNat i)) ++ rest)
        | _, _ => none) (some [])
    | none => none

end RkVerif.C01
