/-
Model for C03 — rkcommon/tasking/AsyncLoop.h as a finite transition system `AsyncLoopM`.

One transition per shared-memory access (flag read, flag write, lock, unlock, wait, notify, join),
in the order of the source.  Sequential consistency; std::mutex / std::condition_variable /
std::thread::join are contracts (see notes/C03.md).  Core Lean only (the driver links this file).

Two code variants are modelled:
  * `fixed = false` : the loop body as it is in the pinned tree
        if (shouldBeRunning) { insideLoopBody = true; fcn(); insideLoopBody = false; } else { lock; wait }
  * `fixed = true`  : after fixes/C03-stop-race.patch
        insideLoopBody = true;
        if (shouldBeRunning) { fcn(); insideLoopBody = false; } else { insideLoopBody = false; lock; wait }
and two launch methods (`thread = true`: the destructor joins; `thread = false`: TASK, no join).
-/
namespace RkVerif.C03

/-- Program counter of the loop thread.  The comment gives the *next* action taken from that pc. -/
inductive LPc
  | top      -- read threadShouldBeAlive (while condition)
  | alive1   -- read threadShouldBeAlive (if (!alive) return)
  | alive2   -- fixed: write insideLoopBody = true      | orig: read shouldBeRunning
  | pub      -- fixed: read shouldBeRunning             | orig: call fcn()
  | run      -- fixed: call fcn()                       | orig: write insideLoopBody = true
  | body     -- inside fcn(); next: fcn() returns
  | done     -- write insideLoopBody = false
  | norun    -- fixed: write insideLoopBody = false     | orig: lock runningMutex
  | prelock  -- (fixed only) lock runningMutex
  | pred     -- holding the mutex, in the wait predicate: read shouldBeRunning
  | pred2    -- holding the mutex: read threadShouldBeAlive
  | pdT      -- predicate evaluated to true: leave wait()
  | pdF      -- predicate evaluated to false: atomically release the mutex and block
  | waiting  -- blocked in condition_variable::wait, mutex released
  | woken    -- notified (or spuriously woken): re-acquire the mutex, then evaluate the predicate
  | wdone    -- wait() returned: unlock (end of the else scope)
  | exited   -- mainLoop returned
  deriving DecidableEq, Repr, Inhabited

/-- Program counter of the controlling thread. -/
inductive CPc
  | idle
  | st0      -- start(): read shouldBeRunning
  | st1      -- lock
  | st2      -- write shouldBeRunning = true
  | st3      -- unlock
  | st4      -- notify_one, return
  | sp0      -- stop(): read shouldBeRunning
  | sp1      -- write shouldBeRunning = false
  | sp2      -- read insideLoopBody (first evaluation of the spin condition)
  | sp3      -- yield; read insideLoopBody
  | d0       -- ~AsyncLoop(): lock
  | d1       -- write threadShouldBeAlive = false
  | d2       -- write shouldBeRunning = false
  | d3       -- unlock
  | d4       -- notify_one
  | d5       -- join if joinable (THREAD launch), return
  | dead     -- destructor returned
  deriving DecidableEq, Repr, Inhabited

inductive Owner | free | loop | ctl
  deriving DecidableEq, Repr, Inhabited

structure State where
  lpc : LPc
  cpc : CPc
  alive : Bool      -- threadShouldBeAlive
  running : Bool    -- shouldBeRunning
  inside : Bool     -- insideLoopBody
  mtx : Owner       -- runningMutex
  stopped : Bool    -- ghost: stop() has returned and start() has not been called since
  started : Bool    -- ghost: start() has returned and no member function has been called since
  deriving DecidableEq, Repr, Inhabited

structure Cfg where
  fixed : Bool
  thread : Bool
  deriving DecidableEq, Repr

def init : State :=
  { lpc := .top, cpc := .idle, alive := true, running := false, inside := false, mtx := .free,
    stopped := false, started := false }

/-- ghost: a body invocation is executing -/
def State.bodyRunning (s : State) : Bool := s.lpc == .body
/-- ghost: the destructor has returned -/
def State.destroyed (s : State) : Bool := s.cpc == .dead

/-- The (deterministic) next step of the loop thread; `none` when it is blocked or has exited. -/
def loopStep (c : Cfg) (s : State) : Option State :=
  match s.lpc with
  | .top => some { s with lpc := if s.alive then .alive1 else .exited }
  | .alive1 => some { s with lpc := if s.alive then .alive2 else .exited }
  | .alive2 =>
      if c.fixed then some { s with inside := true, lpc := .pub }
      else some { s with lpc := if s.running then .run else .norun }
  | .pub =>
      if c.fixed then some { s with lpc := if s.running then .run else .norun }
      else some { s with lpc := .body }
  | .run =>
      if c.fixed then some { s with lpc := .body }
      else some { s with inside := true, lpc := .pub }
  | .body => some { s with lpc := .done }
  | .done => some { s with inside := false, lpc := .top }
  | .norun =>
      if c.fixed then some { s with inside := false, lpc := .prelock }
      else if s.mtx == .free then some { s with mtx := .loop, lpc := .pred } else none
  | .prelock => if s.mtx == .free then some { s with mtx := .loop, lpc := .pred } else none
  | .pred => some { s with lpc := if s.running then .pdT else .pred2 }
  | .pred2 => some { s with lpc := if !s.alive then .pdT else .pdF }
  | .pdT => some { s with lpc := .wdone }
  | .pdF => some { s with mtx := .free, lpc := .waiting }
  | .waiting => none
  | .woken => if s.mtx == .free then some { s with mtx := .loop, lpc := .pred } else none
  | .wdone => some { s with mtx := .free, lpc := .top }
  | .exited => none

/-- A spurious wake-up of condition_variable::wait. -/
def spurStep (s : State) : Option State :=
  if s.lpc == .waiting then some { s with lpc := .woken } else none

/-- notify_one: wakes the loop thread if it is blocked in wait, otherwise it is lost. -/
def notify (s : State) : State :=
  if s.lpc == .waiting then { s with lpc := .woken } else s

inductive Call | start | stop | destroy
  deriving DecidableEq, Repr, Inhabited

/-- The next step of the controlling thread.  When idle, `call` is the member function it calls
    (the call itself touches no shared memory; it updates the ghosts). -/
def ctlStep (c : Cfg) (s : State) (call : Call) : Option State :=
  match s.cpc with
  | .idle =>
      match call with
      | .start => some { s with cpc := .st0, stopped := false, started := false }
      | .stop => some { s with cpc := .sp0, started := false }
      | .destroy => some { s with cpc := .d0, started := false }
  | .st0 => if s.running then some { s with cpc := .idle, started := true } else some { s with cpc := .st1 }
  | .st1 => if s.mtx == .free then some { s with mtx := .ctl, cpc := .st2 } else none
  | .st2 => some { s with running := true, cpc := .st3 }
  | .st3 => some { s with mtx := .free, cpc := .st4 }
  | .st4 => some { notify s with cpc := .idle, started := true }
  | .sp0 => if s.running then some { s with cpc := .sp1 } else some { s with cpc := .idle, stopped := true }
  | .sp1 => some { s with running := false, cpc := .sp2 }
  | .sp2 => if s.inside then some { s with cpc := .sp3 } else some { s with cpc := .idle, stopped := true }
  | .sp3 => if s.inside then some { s with cpc := .sp3 } else some { s with cpc := .idle, stopped := true }
  | .d0 => if s.mtx == .free then some { s with mtx := .ctl, cpc := .d1 } else none
  | .d1 => some { s with alive := false, cpc := .d2 }
  | .d2 => some { s with running := false, cpc := .d3 }
  | .d3 => some { s with mtx := .free, cpc := .d4 }
  | .d4 => some { notify s with cpc := .d5 }
  | .d5 => if c.thread then (if s.lpc == .exited then some { s with cpc := .dead } else none)
           else some { s with cpc := .dead }
  | .dead => none

inductive Thread | loop | ctl
  deriving DecidableEq, Repr, Inhabited

def optL {α : Type} : Option α → List α
  | some a => [a]
  | none => []

/-- Steps of the controlling thread (all three calls when idle). -/
def ctlSteps (c : Cfg) (s : State) : List State :=
  if s.cpc == .idle then optL (ctlStep c s .start) ++ optL (ctlStep c s .stop) ++ optL (ctlStep c s .destroy)
  else optL (ctlStep c s .start)

/-- Steps of the loop thread, spurious wake-ups excluded. -/
def loopSteps (c : Cfg) (s : State) : List State := optL (loopStep c s)

/-- Labelled successors without spurious wake-ups. -/
def stepNS (c : Cfg) (s : State) : List (Thread × State) :=
  (loopSteps c s).map (fun t => (Thread.loop, t)) ++ (ctlSteps c s).map (fun t => (Thread.ctl, t))

/-- All successors: any interleaving, any call sequence, spurious wake-ups included. -/
def step (c : Cfg) (s : State) : List State :=
  loopSteps c s ++ optL (spurStep s) ++ ctlSteps c s

/-- States reachable by executions of any length. -/
inductive Reachable (c : Cfg) : State → Prop
  | init : Reachable c init
  | step {s t : State} : Reachable c s → t ∈ step c s → Reachable c t

/-! ### Structural list helpers that reduce well in the kernel -/

def mem (s : State) : List State → Bool
  | [] => false
  | x :: xs => if x = s then true else mem s xs

theorem mem_iff (s : State) (l : List State) : mem s l = true ↔ s ∈ l := by
  induction l with
  | nil => simp [mem]
  | cons x xs ih =>
    simp only [mem, List.mem_cons]
    by_cases h : x = s
    · simp [h]
    · simp only [h, if_false, ih]
      constructor
      · intro h'; exact Or.inr h'
      · intro h'; rcases h' with h' | h'
        · exact absurd h'.symm h
        · exact h'

/-- Worklist closure (used only to *compute* the certificate lists in Gen/C03Reach.lean). -/
def closure (c : Cfg) : Nat → List State → List State → List State
  | 0, _, seen => seen
  | _ + 1, [], seen => seen
  | fuel + 1, s :: todo, seen =>
      let new := (step c s).foldl (fun acc t => if mem t seen || mem t acc then acc else acc ++ [t]) []
      closure c fuel (todo ++ new) (seen ++ new)

/-! ### Numeric encoding of states (certificate checking with kernel-accelerated `Nat` operations) -/

def LPc.n : LPc → Nat
  | .top => 0 | .alive1 => 1 | .alive2 => 2 | .pub => 3 | .run => 4 | .body => 5 | .done => 6 | .norun => 7
  | .prelock => 8 | .pred => 9 | .pred2 => 10 | .pdT => 11 | .pdF => 12 | .waiting => 13 | .woken => 14
  | .wdone => 15 | .exited => 16
def CPc.n : CPc → Nat
  | .idle => 0 | .st0 => 1 | .st1 => 2 | .st2 => 3 | .st3 => 4 | .st4 => 5 | .sp0 => 6 | .sp1 => 7 | .sp2 => 8
  | .sp3 => 9 | .d0 => 10 | .d1 => 11 | .d2 => 12 | .d3 => 13 | .d4 => 14 | .d5 => 15 | .dead => 16
def Owner.n : Owner → Nat | .free => 0 | .loop => 1 | .ctl => 2
def bn (b : Bool) : Nat := if b then 1 else 0

/-- mixed-radix code of a state (injective: Lemmas/C03.lean `code_inj`) -/
def code (s : State) : Nat :=
  ((((((s.lpc.n * 17 + s.cpc.n) * 2 + bn s.alive) * 2 + bn s.running) * 2 + bn s.inside) * 3 + s.mtx.n) * 2
    + bn s.stopped) * 2 + bn s.started

/-- the set of codes of a list of states as a bit mask -/
def maskOf : List State → Nat
  | [] => 0
  | s :: r => (1 <<< code s) ||| maskOf r

def CPc.inDtor : CPc → Bool
  | .d0 | .d1 | .d2 | .d3 | .d4 | .d5 => true
  | _ => false

def CPc.inStart : CPc → Bool
  | .st0 | .st1 | .st2 | .st3 | .st4 => true
  | _ => false
def CPc.inStop : CPc → Bool
  | .sp0 | .sp1 | .sp2 | .sp3 => true
  | _ => false
def CPc.isDead : CPc → Bool
  | .dead => true
  | _ => false
def CPc.isIdle : CPc → Bool
  | .idle => true
  | _ => false

def enabled (c : Cfg) (t : Thread) (s : State) : Bool := (stepNS c s).any (fun p => p.1 == t)

/-- rank table lookup: entries are (code, 2*rank + (1 if the helpful thread is the loop thread)) -/
def lookupN (n : Nat) : List (Nat × Nat) → Nat
  | [] => 0
  | (k, v) :: r => if Nat.beq k n then v else lookupN n r

/-! ### Hook-point names (the tie): which named scheduling point each pc is parked at -/

def LPc.point : LPc → String
  | .top => "loop.top" | .alive1 => "loop.alive1" | .alive2 => "loop.alive2" | .pub => "loop.published"
  | .run => "loop.run" | .body => "body.in" | .done => "loop.body_done" | .norun => "loop.norun"
  | .prelock => "loop.before_lock" | .pred => "loop.pred" | .pred2 => "-" | .pdT => "loop.pred_done"
  | .pdF => "loop.pred_done" | .waiting => "blocked" | .woken => "blocked" | .wdone => "loop.wait_done"
  | .exited => "loop.exit"

/-- pcs without a hook point in front of them: a grant runs through them. -/
def LPc.invisible : LPc → Bool
  | .pred2 => true
  | _ => false

def CPc.point : CPc → String
  | .idle => "ctl.idle" | .st0 => "start.enter" | .st1 => "start.before_lock" | .st2 => "start.locked"
  | .st3 => "start.written" | .st4 => "start.unlocked" | .sp0 => "stop.enter" | .sp1 => "stop.before_clear"
  | .sp2 => "stop.cleared" | .sp3 => "stop.yield" | .d0 => "dtor.enter" | .d1 => "dtor.locked"
  | .d2 => "dtor.alive_cleared" | .d3 => "dtor.written" | .d4 => "dtor.unlocked" | .d5 => "dtor.notified"
  | .dead => "ctl.dead"

/-- One *grant* of the loop thread as the harness sees it: run to the next hook point (or block). -/
def grantLoop (c : Cfg) (s : State) : Option State :=
  match loopStep c s with
  | none => none
  | some t => if t.lpc.invisible then loopStep c t else some t

end RkVerif.C03
