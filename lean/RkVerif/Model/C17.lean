/-
Model of
  rkcommon/utility/multidim_index_sequence.h   (index_sequence_2D / _3D and their iterator)
  rkcommon/array3D/for_each.h                  (longProduct, longIndex, coordsOf, for_each)
  rkcommon/array3D/Array3D.h                   (Array3D, ActualArray3D, IndexShiftedArray3D,
                                                Array3DAccessor, SubBoxArray3D, MultiSliceArray3D,
                                                getValueRange)

Hand-written, executable, core Lean only.  Tied to the source by the correspondence check
(harness/c17.cpp vs Driver/C17.lean).

Machine arithmetic is modelled, not idealised:
 * `size_t` is `UInt64` (wrap-around `+ - *`, truncating `/ %`),
 * `int` components are `Int` values (the theorems carry the hypothesis that they are in the
   int range where that matters); every place where the C++ converts an `int` to `size_t`
   is an explicit `toU` (value mod 2^64), every place where a `size_t` is narrowed to `int`
   (the `vec3i(size_t,size_t,size_t)` constructor call in coordsOf, `slice.size()` in
   MultiSliceArray3D::size) is an explicit `toI32` (value mod 2^32, signed),
 * `int % int` is C++ truncated remainder (`Int.tmod`).
Memory: `ActualArray3D::value` is the list `vals` (cell i of the C array = `vals[i]`).
-/
namespace RkVerif.C17

structure V2 (α : Type) where
  x : α
  y : α
deriving DecidableEq, Repr

structure V3 (α : Type) where
  x : α
  y : α
  z : α
deriving DecidableEq, Repr

abbrev U64 := UInt64

/-! ## multidim_index_sequence.h -/

/-- `index_sequence_2D::flatten` : `coords.x + dims.x * coords.y` -/
def flatten2 (dims c : V2 U64) : U64 := c.x + dims.x * c.y

/-- `index_sequence_3D::flatten` : `coords.x + dims.x * (coords.y + dims.y * coords.z)` -/
def flatten3 (dims c : V3 U64) : U64 := c.x + dims.x * (c.y + dims.y * c.z)

/-- `index_sequence_2D::reshape` -/
def reshape2 (dims : V2 U64) (i : U64) : V2 U64 :=
  let y := i / dims.x
  let x := i % dims.x
  ⟨x, y⟩

/-- `index_sequence_3D::reshape` -/
def reshape3 (dims : V3 U64) (i : U64) : V3 U64 :=
  let z := i / (dims.x * dims.y)
  let i := i - (z * dims.x * dims.y)
  let y := i / dims.x
  let x := i % dims.x
  ⟨x, y, z⟩

/-- `total_indices()` = `dims.long_product()` = `size_t(x) * size_t(y)` -/
def total2 (dims : V2 U64) : U64 := dims.x * dims.y
/-- `size_t(x) * size_t(y) * size_t(z)` -/
def total3 (dims : V3 U64) : U64 := dims.x * dims.y * dims.z

/-- `multidim_index_iterator<N>`: the dimensions and `current_index`. `C` is the coordinate
    vector type (`V2 U64` / `V3 U64`). -/
structure Iter (C : Type) where
  dims : C
  cur : U64
deriving DecidableEq, Repr

namespace Iter
variable {C : Type} [DecidableEq C]

/-- `operator==` : same dimensions and same current index -/
def eq (a b : Iter C) : Bool := a.dims == b.dims && a.cur == b.cur
/-- `operator!=` : `!(*this == other)` -/
def ne (a b : Iter C) : Bool := !(eq a b)
/-- `operator++()` : `++current_index`, returns a *copy* built from the new index.
    Result = (new state of `*this`, returned iterator). -/
def preInc (it : Iter C) : Iter C × Iter C :=
  let cur := it.cur + 1
  ({ it with cur := cur }, { dims := it.dims, cur := cur })
/-- `operator++(int)` : `current_index++; return *this` (a reference to the advanced iterator). -/
def postInc (it : Iter C) : Iter C × Iter C :=
  let it' := { it with cur := it.cur + 1 }
  (it', it')
def preDec (it : Iter C) : Iter C × Iter C :=
  let cur := it.cur - 1
  ({ it with cur := cur }, { dims := it.dims, cur := cur })
def jumpTo (it : Iter C) (i : U64) : Iter C := { it with cur := i }
/-- `operator--(int)` : `current_index--; return *this` -/
def postDec (it : Iter C) : Iter C × Iter C :=
  let it' := { it with cur := it.cur - 1 }
  (it', it')
/-- `operator+(size_t)`, `operator-(size_t)`, `operator+(const iterator&)`, `operator-(const iterator&)`:
    all four modify `*this` (`current_index += ...`) and return a reference to it -/
def addN (it : Iter C) (n : U64) : Iter C := { it with cur := it.cur + n }
def subN (it : Iter C) (n : U64) : Iter C := { it with cur := it.cur - n }
def addIt (it o : Iter C) : Iter C := { it with cur := it.cur + o.cur }
def subIt (it o : Iter C) : Iter C := { it with cur := it.cur - o.cur }
end Iter

theorem iter_measure (e cur : U64) (h : cur ≠ e) : (e - (cur + 1)).toNat < (e - cur).toNat := by
  have h1 : e - (cur + 1) = (e - cur) - 1 := by
    apply UInt64.toNat_inj.mp
    simp only [UInt64.toNat_sub, UInt64.toNat_add]
    have := cur.toNat_lt; have := e.toNat_lt
    simp; omega
  have h2 : (1 : U64) ≤ e - cur := by
    rw [UInt64.le_iff_toNat_le]
    have : (e - cur).toNat ≠ 0 := by
      intro h0
      apply h
      have : e - cur = 0 := UInt64.toNat_inj.mp (by simpa using h0)
      have h3 : e = cur := by
        apply UInt64.toNat_inj.mp
        have h4 := congrArg UInt64.toNat this
        simp only [UInt64.toNat_sub] at h4
        have := cur.toNat_lt; have := e.toNat_lt
        simp at h4; omega
      exact h3.symm
    simp; omega
  rw [h1, UInt64.toNat_sub_of_le _ _ h2]
  have : (e - cur).toNat ≠ 0 := by
    rw [UInt64.le_iff_toNat_le] at h2; simp at h2; omega
  simp; omega

set_option linter.unusedVariables false in
/-- The range-based for loop `for (auto c : seq) visit(c);` i.e.
    `for (it = begin(); it != end(); ++it) visit(*it);`
    with both iterators built from the same `dims`; `e` is `end().current_index`,
    `cur` the running iterator's index.  Returns the sequence of visited coordinates.
    (Terminates for every `cur`/`e` because `++` wraps in 64 bits.) -/
def iterLoop {C : Type} [DecidableEq C] (reshape : C → U64 → C) (dims : C) (e cur : U64) : List C :=
  if h : Iter.ne (⟨dims, cur⟩ : Iter C) ⟨dims, e⟩ then
    reshape dims cur :: iterLoop reshape dims e ((Iter.preInc (⟨dims, cur⟩ : Iter C)).1.cur)
  else []
termination_by (e - cur).toNat
decreasing_by
  apply iter_measure
  intro hc
  simp [Iter.ne, Iter.eq] at h
  exact h hc

/-- `for (it = end(); it != begin(); ) { --it; visit(*it); }` — a backward walk with the prefix decrement; `cur` is the
    running iterator's index (begin() has index 0). -/
def backLoop {C : Type} (reshape : C → U64 → C) (dims : C) (cur : U64) : List C :=
  if h : cur ≠ 0 then reshape dims (cur - 1) :: backLoop reshape dims (cur - 1) else []
termination_by cur.toNat
decreasing_by
  have h0 : cur.toNat ≠ 0 := fun h0 => h (UInt64.toNat_inj.mp (by simpa using h0))
  have h1 : (1 : U64) ≤ cur := by rw [UInt64.le_iff_toNat_le]; simp; omega
  rw [UInt64.toNat_sub_of_le _ _ h1]; simp; omega

/-- `for (auto c : index_sequence_2D(dims))` : begin() has index 0, end() has index total_indices() -/
def iterate2 (dims : V2 U64) : List (V2 U64) := iterLoop reshape2 dims (total2 dims) 0
/-- `for (auto c : index_sequence_3D(dims))` -/
def iterate3 (dims : V3 U64) : List (V3 U64) := iterLoop reshape3 dims (total3 dims) 0
/-- the backward walks of the two sequences -/
def backward2 (dims : V2 U64) : List (V2 U64) := backLoop reshape2 dims (total2 dims)
def backward3 (dims : V3 U64) : List (V3 U64) := backLoop reshape3 dims (total3 dims)

/-! ## array3D/for_each.h -/

abbrev V3i := V3 Int

/-- conversion `int → size_t` (sign extension = value mod 2^64) -/
def toU (i : Int) : U64 := UInt64.ofNat (i % 18446744073709551616).toNat

/-- narrowing conversion `size_t → int` (g++: value mod 2^32, two's complement) -/
def toI32 (u : U64) : Int :=
  let r := u.toNat % 4294967296
  if r < 2147483648 then (r : Int) else (r : Int) - 4294967296

/-- `longProduct` : `dims.x * size_t(dims.y) * dims.z` (all three promoted to size_t) -/
def longProduct (dims : V3i) : U64 := toU dims.x * toU dims.y * toU dims.z

/-- `longIndex` : `idx.x + size_t(dims.x) * (idx.y + size_t(dims.y) * idx.z)` -/
def longIndex (idx dims : V3i) : U64 :=
  toU idx.x + toU dims.x * (toU idx.y + toU dims.y * toU idx.z)

/-- `coordsOf` : `vec3i(idx % dims.x, (idx / dims.x) % dims.y, (idx / dims.x) / dims.y)` -/
def coordsOf (idx : U64) (dims : V3i) : V3i :=
  ⟨toI32 (idx % toU dims.x), toI32 ((idx / toU dims.x) % toU dims.y), toI32 ((idx / toU dims.x) / toU dims.y)⟩

/-- `for (int i = lo; i < hi; i++) body(i)`, the bodies' visit lists concatenated. -/
def loopI {α : Type} (lo hi : Int) (body : Int → List α) : List α :=
  if lo < hi then body lo ++ loopI (lo + 1) hi body else []
termination_by (hi - lo).toNat
decreasing_by omega

/-- `for_each(lower, upper, functor)`: the sequence of arguments the functor is called with
    (z outermost, x innermost). -/
def forEach (lower upper : V3i) : List V3i :=
  loopI lower.z upper.z fun iz =>
    loopI lower.y upper.y fun iy =>
      loopI lower.x upper.x fun ix => [⟨ix, iy, iz⟩]

/-- `for_each(size, functor)` = `for_each({0,0,0}, size, functor)` -/
def forEachSize (size : V3i) : List V3i := forEach ⟨0, 0, 0⟩ size

/-! ## array3D/Array3D.h -/

namespace V3i
def add (a b : V3i) : V3i := ⟨a.x + b.x, a.y + b.y, a.z + b.z⟩
def sub (a b : V3i) : V3i := ⟨a.x - b.x, a.y - b.y, a.z - b.z⟩
/-- component-wise C++ `%` on ints (truncated) -/
def tmod (a b : V3i) : V3i := ⟨a.x.tmod b.x, a.y.tmod b.y, a.z.tmod b.z⟩
def min (a b : V3i) : V3i := ⟨Min.min a.x b.x, Min.min a.y b.y, Min.min a.z b.z⟩
def max (a b : V3i) : V3i := ⟨Max.max a.x b.x, Max.max a.y b.y, Max.max a.z b.z⟩
def splat (v : Int) : V3i := ⟨v, v, v⟩
end V3i

/-- The abstract interface `Array3D<value_t>` (the three virtual functions). -/
structure Array3D (V : Type) where
  size : V3i
  get : V3i → V
  numElements : U64

/-- `ActualArray3D<int>` : `dims` and the cell memory `value[0 .. n)`. -/
structure Actual where
  dims : V3i
  vals : List Int
deriving Repr

namespace Actual

def size (a : Actual) : V3i := a.dims

/-- the clamped location used by `get`: `max(vec3i(0), min(_where, dims - vec3i(1)))` -/
def clampWhere (a : Actual) (w : V3i) : V3i :=
  V3i.max (V3i.splat 0) (V3i.min w (V3i.sub a.dims (V3i.splat 1)))

/-- `where.x + size_t(dims.x) * (where.y + size_t(dims.y) * (where.z))` of the clamped location -/
def getIndex (a : Actual) (w : V3i) : U64 :=
  let w := a.clampWhere w
  toU w.x + toU a.dims.x * (toU w.y + toU a.dims.y * toU w.z)

/-- `ActualArray3D::get` (reading outside `value[]` is undefined in C++; the model then yields 0) -/
def get (a : Actual) (w : V3i) : Int := a.vals.getD (a.getIndex w).toNat 0

/-- `ActualArray3D::indexOf` : `pos.x + size_t(dims.x) * (pos.y + size_t(dims.y) * pos.z)` -/
def indexOf (a : Actual) (pos : V3i) : U64 :=
  toU pos.x + toU a.dims.x * (toU pos.y + toU a.dims.y * toU pos.z)

/-- `size_t(dims.x) * size_t(dims.y) * size_t(dims.z)` -/
def numElements (a : Actual) : U64 := toU a.dims.x * toU a.dims.y * toU a.dims.z

/-- `ActualArray3D::set` : `value[longIndex(where, size())] = t` (no clamping) -/
def set (a : Actual) (w : V3i) (t : Int) : Actual :=
  { a with vals := a.vals.set (longIndex w a.size).toNat t }

/-- `ActualArray3D::clear` : `for_each(size(), [&](idx){ set(idx, t); })` -/
def clear (a : Actual) (t : Int) : Actual :=
  (forEachSize a.size).foldl (fun a idx => a.set idx t) a

/-- the constructor with own memory allocates `longProduct(dims)` cells -/
def allocCount (dims : V3i) : U64 := longProduct dims

def toArray3D (a : Actual) : Array3D Int :=
  { size := a.size, get := a.get, numElements := a.numElements }

end Actual

/-- `IndexShiftedArray3D` : `get(where) = actual->get((where + size() + shift) % size())` -/
def shifted {V : Type} (actual : Array3D V) (shift : V3i) : Array3D V :=
  { size := actual.size
    get := fun w => actual.get (V3i.tmod (V3i.add (V3i.add w actual.size) shift) actual.size)
    numElements := actual.numElements }

/-- `Array3DAccessor<in_t,out_t>` : `get(where) = (out_t)actual->get(where)` -/
def accessor {A B : Type} (cast : A → B) (actual : Array3D A) : Array3D B :=
  { size := actual.size
    get := fun w => cast (actual.get w)
    numElements := actual.numElements }

/-- `SubBoxArray3D` : `size() = clipBox.size() = upper - lower`,
    `get(where) = actual->get(where + clipBox.lower)` -/
def subBox {V : Type} (actual : Array3D V) (lower upper : V3i) : Array3D V :=
  let dims := V3i.sub upper lower
  { size := dims
    get := fun w => actual.get (V3i.add w lower)
    numElements := toU dims.x * toU dims.y * toU dims.z }

/-- `clamp(x, lo, hi) = max(min(x, hi), lo)` (rkmath.h) -/
def clampI (x lo hi : Int) : Int := Max.max (Min.min x hi) lo

/-- `MultiSliceArray3D` over the non-empty slice vector `s0 :: rest`:
    `size() = (slice[0]->size().x, slice[0]->size().y, slice.size())`,
    `get(where) = slice[clamp(where.z, 0, (int)slice.size()-1)]->get(vec3i(where.x, where.y, 0))` -/
def multiSlice {V : Type} (s0 : Array3D V) (rest : List (Array3D V)) : Array3D V :=
  let slices := s0 :: rest
  let n : U64 := UInt64.ofNat slices.length
  { size := ⟨s0.size.x, s0.size.y, toI32 n⟩
    get := fun w =>
      let k := clampI w.z 0 (toI32 n - 1)
      (slices.getD (toU k).toNat s0).get ⟨w.x, w.y, 0⟩
    numElements := s0.numElements * n }

/-- `range_t<int>::extend(t)` : `lower = min(lower,t); upper = max(upper,t)` -/
def extend (r : Int × Int) (t : Int) : Int × Int := (Min.min r.1 t, Max.max r.2 t)

/-- `Array3D::getValueRange(begin, end)` :
    `range_t v = get(begin); for_each(begin, end, [&](idx){ v.extend(get(idx)); }); return v;` -/
def getValueRange (a : Array3D Int) (b e : V3i) : Int × Int :=
  (forEach b e).foldl (fun v idx => extend v (a.get idx)) (a.get b, a.get b)

/-- `getValueRange()` = `getValueRange(vec3i(0), size())` -/
def getValueRangeAll (a : Array3D Int) : Int × Int := getValueRange a (V3i.splat 0) a.size

end RkVerif.C17
