/-
Property C07 — scalar math kernels meet accuracy and range contracts (claimed PARTIAL).

Every theorem is about the executable model `RkVerif/Model/C07.lean` (the same definitions the compiled driver runs
at Float32 and compares bit for bit with the real kernels), instantiated at an ARBITRARY linearly ordered field `α`
through `CNum.ofFieldX E` (`E.fmin` = FLT_MIN, `E.pow` = powf, `E.sqrt` = sqrtf are parameters; each theorem states what
it assumes about them). Integer and bit kernels are over `Int` / `Nat`.

Float rounding enters through the standard model: a rounded operation returns `exact * (1 + d)` with `|d| ≤ u`,
`u = 2⁻²⁴`. The hardware estimate enters as the model's input `r` with the hypothesis `|r·x − 1| ≤ 1.5·2⁻¹²`.
Those two hypotheses and the monotonicity of `pow`/`round` are NOT proved here: they are validated on the real
code for all 2³² float bit patterns by harness/c07_sweep.cpp (observed on this machine; hence "partial").

Determinism ("reproducible from the seed") is definitional: `biasedStream`, `uniformStream` and `Pcg32.draws` are
Lean functions of `(seed, sequence, lower, upper, n)` — there is no hidden state to prove anything about; the tie
(bit-exact streams against the real pcg32 for random and extreme seeds) is what carries that clause.
-/
import RkVerif.Lemmas.C07

namespace RkVerif.C07
open RkVerif

/-! ## field-valued kernels -/
section field
variable {α : Type} [Field α] [LinearOrder α] [IsStrictOrderedRing α] (E : Ext α)
local notation "𝔽" => CNum.ofFieldX α E

/-! ### rcp, SIMD build: estimate + one Newton–Raphson step -/

/-- Exact arithmetic: with `e = r·x − 1` the estimate's relative error, one step leaves exactly `−e²`. -/
theorem rcp_nr_exact (x r : α) :
    @rcp_simd α 𝔽 x r * x - 1 = -(r * x - 1) ^ 2 := by
  rw [rcp_simd_eq]; ring

/-- `rcp_simd` with each of its three float operations rounded: `t1 = fl(r*x)`, `t2 = fl(2 - t1)`, `fl(r*t2)`. -/
def rcp_simd_fl (x r d1 d2 d3 : α) : α :=
  (r * ((2 - (r * x) * (1 + d1)) * (1 + d2))) * (1 + d3)

/-- the rounded form with zero rounding errors is the model -/
theorem rcp_simd_fl_zero (x r : α) : rcp_simd_fl x r 0 0 0 = @rcp_simd α 𝔽 x r := by
  rw [rcp_simd_eq]; simp [rcp_simd_fl]

/-- **rcp accuracy (SIMD build).** If the hardware estimate `r` satisfies `|r·x − 1| ≤ 1.5·2⁻¹²` (documented bound of
    `rcpss`) and each of the three float operations obeys the standard model with `|dᵢ| ≤ 2⁻²⁴`, the result `y`
    satisfies `|y·x − 1| ≤ 2⁻²⁰`, i.e. `y` is within relative error 2⁻²⁰ of `1/x`. -/
theorem rcp_nr_error (x r d1 d2 d3 : α)
    (he : |r * x - 1| ≤ 3 / 8192)
    (h1 : |d1| ≤ 1 / 16777216) (h2 : |d2| ≤ 1 / 16777216) (h3 : |d3| ≤ 1 / 16777216) :
    |rcp_simd_fl x r d1 d2 d3 * x - 1| ≤ 1 / 1048576 := by
  obtain ⟨p, hp⟩ : ∃ p, p = r * x := ⟨_, rfl⟩
  have hid : rcp_simd_fl x r d1 d2 d3 * x = ((p * (2 - p * (1 + d1))) * (1 + d2)) * (1 + d3) := by
    subst hp; unfold rcp_simd_fl; ring
  rw [← hp] at he
  -- A = p(2 - p(1+d1)) = 1 - (p-1)^2 - d1 p^2
  have hA : |p * (2 - p * (1 + d1)) - 1| ≤ (3 / 8192) ^ 2 + 1 / 16777216 * (1 + 3 / 8192) ^ 2 := by
    have e1 : p * (2 - p * (1 + d1)) - 1 = -(p - 1) ^ 2 - d1 * p ^ 2 := by ring
    have hp1 : |(p - 1) ^ 2| ≤ (3 / 8192) ^ 2 := by
      rw [abs_pow]; exact pow_le_pow_left₀ (abs_nonneg _) he 2
    have hpa : |p| ≤ 1 + 3 / 8192 := by
      have := abs_le.mp he
      rw [abs_le]; constructor <;> linarith [this.1, this.2]
    have hp2 : |d1 * p ^ 2| ≤ 1 / 16777216 * (1 + 3 / 8192) ^ 2 := by
      rw [abs_mul, abs_pow]
      exact mul_le_mul h1 (pow_le_pow_left₀ (abs_nonneg _) hpa 2) (by positivity) (by norm_num)
    rw [e1]
    have a1 := abs_le.mp hp1
    have a2 := abs_le.mp hp2
    rw [abs_le]; constructor <;> linarith [a1.1, a1.2, a2.1, a2.2]
  have hB := abs_mul_sub_one_le hA (abs_one_add_sub_one h2)
  have hC := abs_mul_sub_one_le hB (abs_one_add_sub_one h3)
  rw [hid]
  refine le_trans hC ?_
  norm_num

/-- Corollary in exact arithmetic (no rounding): the Newton–Raphson step alone brings 1.5·2⁻¹² down to below 2⁻²⁰. -/
theorem rcp_nr_error_exact (x r : α) (he : |r * x - 1| ≤ 3 / 8192) :
    |@rcp_simd α 𝔽 x r * x - 1| ≤ 1 / 1048576 := by
  rw [← rcp_simd_fl_zero]
  exact rcp_nr_error x r 0 0 0 he (by norm_num) (by norm_num) (by norm_num)

/-! ### rsqrt, SIMD build -/

/-- Exact arithmetic: with `x = s²`, `s > 0` and `r = (1+e)/s`, one step gives `(1 − 3e²/2 − e³/2)/s`. -/
theorem rsqrt_nr_exact (x r s e : α) (hs : 0 < s) (hx : x = s * s) (hr : r = (1 + e) / s) :
    @rsqrt_simd α 𝔽 x r * s = 1 - 3 / 2 * e ^ 2 - 1 / 2 * e ^ 3 := by
  rw [rsqrt_simd_eq, hx, hr]
  have : s ≠ 0 := ne_of_gt hs
  field_simp
  ring

/-- `rsqrt_simd` with each of its six float operations rounded, in the source's order:
    `m1 = fl(1.5*r)`, `m2 = fl(x * -0.5)`, `m3 = fl(m2*r)`, `m4 = fl(r*r)`, `m5 = fl(m3*m4)`, `fl(m1+m5)`. -/
def rsqrt_simd_fl (x r d1 d2 d3 d4 d5 d6 : α) : α :=
  ((3 / 2 * r) * (1 + d1) + ((((x * -(1 / 2)) * (1 + d2)) * r) * (1 + d3) * ((r * r) * (1 + d4))) * (1 + d5)) * (1 + d6)

theorem rsqrt_simd_fl_zero (x r : α) : rsqrt_simd_fl x r 0 0 0 0 0 0 = @rsqrt_simd α 𝔽 x r := by
  rw [rsqrt_simd_eq]; simp [rsqrt_simd_fl]

/-- **rsqrt accuracy (SIMD build).** `x = s²` with `s > 0` (so `s = √x`), estimate error `|r·s − 1| ≤ 1.5·2⁻¹²`, all six
    float operations rounded with `|dᵢ| ≤ 2⁻²⁴`: the result `y` satisfies `|y·√x − 1| ≤ 2⁻²⁰`. -/
theorem rsqrt_nr_error (x r s d1 d2 d3 d4 d5 d6 : α) (hx : x = s * s)
    (he : |r * s - 1| ≤ 3 / 8192)
    (h1 : |d1| ≤ 1 / 16777216) (h2 : |d2| ≤ 1 / 16777216) (h3 : |d3| ≤ 1 / 16777216)
    (h4 : |d4| ≤ 1 / 16777216) (h5 : |d5| ≤ 1 / 16777216) (h6 : |d6| ≤ 1 / 16777216) :
    |rsqrt_simd_fl x r d1 d2 d3 d4 d5 d6 * s - 1| ≤ 1 / 1048576 := by
  obtain ⟨q, hq⟩ : ∃ q, q = r * s := ⟨_, rfl⟩
  obtain ⟨P, hP⟩ : ∃ P, P = ((1 + d2) * (1 + d3)) * ((1 + d4) * (1 + d5)) := ⟨_, rfl⟩
  have hid : rsqrt_simd_fl x r d1 d2 d3 d4 d5 d6 * s
      = (3 / 2 * q * (1 + d1) - 1 / 2 * q ^ 3 * P) * (1 + d6) := by
    subst hq hP hx; unfold rsqrt_simd_fl; ring
  rw [← hq] at he
  -- |P - 1|
  have hP23 := abs_mul_sub_one_le (abs_one_add_sub_one h2) (abs_one_add_sub_one h3)
  have hP45 := abs_mul_sub_one_le (abs_one_add_sub_one h4) (abs_one_add_sub_one h5)
  have hPb := abs_mul_sub_one_le hP23 hP45
  rw [← hP] at hPb
  have hPb' : |P - 1| ≤ 5 / 16777216 := le_trans hPb (by norm_num)
  obtain ⟨e, hedef⟩ : ∃ e, e = q - 1 := ⟨_, rfl⟩
  have hqe : q = 1 + e := by rw [hedef]; ring
  rw [← hedef] at he
  have hqa : |q| ≤ 1 + 3 / 8192 := by
    have := abs_le.mp he
    rw [hqe, abs_le]; constructor <;> linarith [this.1, this.2]
  have he2 : |e ^ 2| ≤ (3 / 8192) ^ 2 := by
    rw [abs_pow]; exact pow_le_pow_left₀ (abs_nonneg _) he 2
  have he3 : |e ^ 3| ≤ (3 / 8192) ^ 3 := by
    rw [abs_pow]; exact pow_le_pow_left₀ (abs_nonneg _) he 3
  have hqd : |q * d1| ≤ (1 + 3 / 8192) * (1 / 16777216) := by
    rw [abs_mul]; exact mul_le_mul hqa h1 (abs_nonneg _) (by norm_num)
  have hq3 : |q ^ 3 * (P - 1)| ≤ (1 + 3 / 8192) ^ 3 * (5 / 16777216) := by
    rw [abs_mul, abs_pow]
    exact mul_le_mul (pow_le_pow_left₀ (abs_nonneg _) hqa 3) hPb' (abs_nonneg _) (by norm_num)
  have hI : |(3 / 2 * q * (1 + d1) - 1 / 2 * q ^ 3 * P) - 1| ≤ 1 / 2097152 := by
    have e1 : (3 / 2 * q * (1 + d1) - 1 / 2 * q ^ 3 * P) - 1
        = -(3 / 2) * e ^ 2 - 1 / 2 * e ^ 3 + 3 / 2 * (q * d1) - 1 / 2 * (q ^ 3 * (P - 1)) := by
      rw [hqe]; ring
    rw [e1]
    have a1 := abs_le.mp he2
    have a2 := abs_le.mp he3
    have a3 := abs_le.mp hqd
    have a4 := abs_le.mp hq3
    have hK : (3 / 2 : α) * (3 / 8192) ^ 2 + 1 / 2 * (3 / 8192) ^ 3 + 3 / 2 * ((1 + 3 / 8192) * (1 / 16777216))
        + 1 / 2 * ((1 + 3 / 8192) ^ 3 * (5 / 16777216)) ≤ 1 / 2097152 := by norm_num
    rw [abs_le]
    constructor <;> linarith [a1.1, a1.2, a2.1, a2.2, a3.1, a3.2, a4.1, a4.2, hK]
  have hC := abs_mul_sub_one_le hI (abs_one_add_sub_one h6)
  rw [hid]
  refine le_trans hC ?_
  norm_num

/-- Corollary in exact arithmetic. -/
theorem rsqrt_nr_error_exact (x r s : α) (hx : x = s * s) (he : |r * s - 1| ≤ 3 / 8192) :
    |@rsqrt_simd α 𝔽 x r * s - 1| ≤ 1 / 1048576 := by
  rw [← rsqrt_simd_fl_zero]
  exact rsqrt_nr_error x r s 0 0 0 0 0 0 hx he (by norm_num) (by norm_num) (by norm_num) (by norm_num) (by norm_num) (by norm_num)

/-! ### NO_SIMD build -/

/-- **rcp accuracy (NO_SIMD build)**: one rounded division. -/
theorem nosimd_error_rcp (x d : α) (hx : x ≠ 0) (hd : |d| ≤ 1 / 16777216) :
    |(@rcp_nosimd α 𝔽 x * (1 + d)) * x - 1| ≤ 1 / 1048576 := by
  rw [rcp_nosimd_eq]
  have : 1 / x * (1 + d) * x - 1 = d := by field_simp; ring
  rw [this]
  exact le_trans hd (by norm_num)

/-- **rsqrt accuracy (NO_SIMD build)**: `sqrtf` correctly rounded (`sqrt x = s(1+d1)` with `s² = x`, `s > 0`) followed by one
    rounded division. -/
theorem nosimd_error_rsqrt (x s d1 d2 : α) (hs : 0 < s) (hsq : E.sqrt x = s * (1 + d1))
    (h1 : |d1| ≤ 1 / 16777216) (h2 : |d2| ≤ 1 / 16777216) :
    |(@rsqrt_nosimd α 𝔽 x * (1 + d2)) * s - 1| ≤ 1 / 1048576 := by
  rw [rsqrt_nosimd_eq, hsq]
  have b1 := abs_le.mp h1
  have b2 := abs_le.mp h2
  have hpos : 0 < 1 + d1 := by linarith [b1.1]
  have hne : 1 + d1 ≠ 0 := ne_of_gt hpos
  have hsne : s ≠ 0 := ne_of_gt hs
  have : 1 / (s * (1 + d1)) * (1 + d2) * s - 1 = (d2 - d1) / (1 + d1) := by
    field_simp; ring
  rw [this, abs_div, abs_of_pos hpos, div_le_iff₀ hpos]
  have : |d2 - d1| ≤ 2 / 16777216 := by
    rw [abs_le]; constructor <;> linarith [b1.1, b1.2, b2.1, b2.2]
  nlinarith [this, b1.1]

/-! ### rcp_safe -/

/-- The argument handed to `rcp` — for EVERY `x` (zeros of either sign and denormals included; in the field model:
    every `x`) — has magnitude at least FLT_MIN, is positive when `x ≥ 0` (the code's `x >= 0.f` test) and negative
    when `x < 0`, and is `x` itself whenever `|x| ≥ FLT_MIN`. -/
theorem rcp_safe_arg_spec (hf : 0 < E.fmin) (x : α) :
    E.fmin ≤ |@rcp_safe_arg α 𝔽 x| ∧ (0 ≤ x → 0 < @rcp_safe_arg α 𝔽 x) ∧ (x < 0 → @rcp_safe_arg α 𝔽 x < 0) ∧
    (E.fmin ≤ |x| → @rcp_safe_arg α 𝔽 x = x) := by
  rw [rcp_safe_arg_eq]
  by_cases hsmall : |x| < E.fmin
  · by_cases hx : 0 ≤ x
    · rw [if_pos hsmall, if_pos hx]
      refine ⟨by rw [abs_of_pos hf], fun _ => hf, fun h => absurd hx (not_le.mpr h), fun h => absurd hsmall (not_lt.mpr h)⟩
    · rw [if_pos hsmall, if_neg hx]
      refine ⟨by rw [abs_neg, abs_of_pos hf], fun h => absurd h hx, fun _ => by linarith, fun h => absurd hsmall (not_lt.mpr h)⟩
  · rw [if_neg hsmall]
    have hge : E.fmin ≤ |x| := not_lt.mp hsmall
    refine ⟨hge, fun h => ?_, fun h => h, fun _ => rfl⟩
    rw [abs_of_nonneg h] at hge; linarith

/-- **rcp_safe is finite and sign-correct for every x.** For any reciprocal `rcp` that is accurate to a relative error
    `η < 1` on non-zero arguments (either build: `η = 2⁻²⁰` by the theorems above), the result is bounded by
    `(1+η)/FLT_MIN`, positive for `x > 0` (indeed for `x ≥ 0`: zeros map to `+1/FLT_MIN`) and negative for `x < 0`. -/
theorem rcp_safe_sign (hf : 0 < E.fmin) (rcp : α → α) (η : α) (hη : η < 1)
    (hr : ∀ y, y ≠ 0 → |rcp y * y - 1| ≤ η) (x : α) :
    |@rcp_safe α 𝔽 rcp x| ≤ (1 + η) / E.fmin ∧ (0 ≤ x → 0 < @rcp_safe α 𝔽 rcp x) ∧ (x < 0 → @rcp_safe α 𝔽 rcp x < 0) := by
  obtain ⟨hmag, hpos, hneg, -⟩ := rcp_safe_arg_spec E hf x
  unfold rcp_safe
  generalize @rcp_safe_arg α 𝔽 x = y at hmag hpos hneg
  have hy0 : y ≠ 0 := by
    intro h; rw [h, abs_zero] at hmag; linarith
  have hb := abs_le.mp (hr y hy0)
  have hprod : 0 < rcp y * y := by linarith [hb.1]
  have hypos : 0 < |y| := abs_pos.mpr hy0
  refine ⟨?_, fun hx => ?_, fun hx => ?_⟩
  · rw [le_div_iff₀ hf]
    have h1 : |rcp y| * |y| ≤ 1 + η := by
      rw [← abs_mul, abs_of_pos hprod]; linarith [hb.2]
    calc |rcp y| * E.fmin ≤ |rcp y| * |y| := mul_le_mul_of_nonneg_left hmag (abs_nonneg _)
      _ ≤ 1 + η := h1
  · have hy := hpos hx
    exact (pos_iff_pos_of_mul_pos hprod).mpr hy
  · have hy := hneg hx
    by_contra hcon
    have : 0 ≤ rcp y := not_lt.mp hcon
    have : rcp y * y ≤ 0 := mul_nonpos_of_nonneg_of_nonpos this (le_of_lt hy)
    linarith

/-! ### clamp, sign, lerp, deg2rad, madd -/

/-- `clamp` returns a value inside `[lower, upper]` that equals `x` whenever `x` is inside. -/
theorem clamp_spec (x lo hi : α) (h : lo ≤ hi) :
    lo ≤ @clamp α 𝔽 x lo hi ∧ @clamp α 𝔽 x lo hi ≤ hi ∧ (lo ≤ x → x ≤ hi → @clamp α 𝔽 x lo hi = x) := by
  rw [clamp_eq]
  refine ⟨le_max_right _ _, max_le (min_le_right _ _) h, fun h1 h2 => ?_⟩
  rw [min_eq_left h2, max_eq_left h1]

/-- outside the interval `clamp` returns the nearer bound -/
theorem clamp_outside (x lo hi : α) (h : lo ≤ hi) :
    (x ≤ lo → @clamp α 𝔽 x lo hi = lo) ∧ (hi ≤ x → @clamp α 𝔽 x lo hi = hi) := by
  rw [clamp_eq]
  constructor
  · intro h1; rw [min_eq_left (le_trans h1 h), max_eq_right h1]
  · intro h1; rw [min_eq_right h1, max_eq_left h]

theorem sign_def (x : α) :
    (x < 0 → @sign α 𝔽 x = -1) ∧ (0 ≤ x → @sign α 𝔽 x = 1) ∧ @sign α 𝔽 x * |x| = x := by
  rw [sign_eq]
  by_cases h : x < 0
  · rw [if_pos h]
    exact ⟨fun _ => rfl, fun h' => absurd h (not_lt.mpr h'), by rw [abs_of_neg h]; ring⟩
  · rw [if_neg h]
    exact ⟨fun h' => absurd h' h, fun _ => rfl, by rw [abs_of_nonneg (not_lt.mp h)]; ring⟩

theorem lerp_def (f a b : α) :
    @lerp α 𝔽 f a b = (1 - f) * a + f * b ∧ @lerp α 𝔽 f a b = a + f * (b - a) ∧
    @lerp α 𝔽 0 a b = a ∧ @lerp α 𝔽 1 a b = b := by
  refine ⟨lerp_eq E f a b, ?_, ?_, ?_⟩ <;> rw [lerp_eq] <;> ring

/-- for a factor in [0,1] the interpolant lies between the end points -/
theorem lerp_between (f a b : α) (h0 : 0 ≤ f) (h1 : f ≤ 1) (hab : a ≤ b) :
    a ≤ @lerp α 𝔽 f a b ∧ @lerp α 𝔽 f a b ≤ b := by
  rw [lerp_eq]
  constructor <;> nlinarith [mul_nonneg h0 (sub_nonneg.mpr hab), mul_nonneg (sub_nonneg.mpr h1) (sub_nonneg.mpr hab)]

/-- `deg2rad` is multiplication by the decimal constant of the source, which agrees with π/180 to 30 digits:
    `deg2rad 180` lies between two 15-digit decimal bounds of π. -/
theorem deg2rad_def (x : α) :
    @deg2rad α 𝔽 x = x * (1745329251994329576923690768489 / 100000000000000000000000000000000) ∧
    (314159265358979 / 100000000000000 < @deg2rad α 𝔽 180 ∧ @deg2rad α 𝔽 180 < 314159265358980 / 100000000000000) := by
  refine ⟨deg2rad_eq E x, ?_, ?_⟩ <;> rw [deg2rad_eq] <;> norm_num

theorem madd_def (a b c : α) : @madd α 𝔽 a b c = a * b + c := madd_eq E a b c

/-! ### linear → sRGB → 8 bit -/

/-- `cvt_uint32` is monotone when `round` is. -/
theorem cvt_monotone (rnd : α → Nat) (hrm : ∀ a b, a ≤ b → rnd a ≤ rnd b) (x y : α) (h : x ≤ y) :
    @cvt_uint32 α 𝔽 rnd x ≤ @cvt_uint32 α 𝔽 rnd y := by
  rw [cvt_uint32_eq, cvt_uint32_eq]
  apply hrm
  have : max (min x 1) 0 ≤ max (min y 1) 0 := max_le_max (min_le_min h (le_refl _)) (le_refl _)
  linarith

/-- `cvt_uint32` saturates: 0 for inputs ≤ 0, 255 for inputs ≥ 1, always within 0…255. -/
theorem cvt_saturating (rnd : α → Nat) (hrm : ∀ a b, a ≤ b → rnd a ≤ rnd b) (hr0 : rnd 0 = 0) (hr255 : rnd 255 = 255) (x : α) :
    (x ≤ 0 → @cvt_uint32 α 𝔽 rnd x = 0) ∧ (1 ≤ x → @cvt_uint32 α 𝔽 rnd x = 255) ∧ @cvt_uint32 α 𝔽 rnd x ≤ 255 := by
  rw [cvt_uint32_eq]
  refine ⟨fun h => ?_, fun h => ?_, ?_⟩
  · have : max (min x 1) 0 = 0 := max_eq_right (le_trans (min_le_left _ _) h)
    rw [this, mul_zero, hr0]
  · have : max (min x 1) 0 = 1 := by rw [min_eq_right h]; exact max_eq_left (by norm_num)
    rw [this, mul_one, hr255]
  · rw [← hr255]
    apply hrm
    have : max (min x 1) 0 ≤ 1 := max_le (min_le_right _ _) (by norm_num)
    linarith

/-- **monotone**: assuming `pow(·, 1/2.2)` monotone on `[0,∞)` and `round` monotone, a larger linear value never gets
    a smaller 8-bit sRGB value. -/
theorem srgb_monotone (rnd : α → Nat)
    (hpm : ∀ a b, 0 ≤ a → a ≤ b → E.pow a (5 / 11) ≤ E.pow b (5 / 11))
    (hrm : ∀ a b, a ≤ b → rnd a ≤ rnd b) (x y : α) (h : x ≤ y) :
    @srgb8 α 𝔽 rnd x ≤ @srgb8 α 𝔽 rnd y := by
  unfold srgb8
  apply cvt_monotone E rnd hrm
  rw [linear_to_srgb_eq, linear_to_srgb_eq]
  exact hpm _ _ (le_max_right _ _) (max_le_max h (le_refl _))

/-- **saturating**: 0 for inputs ≤ 0, 255 for inputs ≥ 1, always within 0…255 (given `pow 0 p = 0`, `pow 1 p = 1`,
    `round 0 = 0`, `round 255 = 255` and the two monotonicity hypotheses). -/
theorem srgb_saturating (rnd : α → Nat)
    (hpm : ∀ a b, 0 ≤ a → a ≤ b → E.pow a (5 / 11) ≤ E.pow b (5 / 11))
    (hp0 : E.pow 0 (5 / 11) = 0) (hp1 : E.pow 1 (5 / 11) = 1)
    (hrm : ∀ a b, a ≤ b → rnd a ≤ rnd b) (hr0 : rnd 0 = 0) (hr255 : rnd 255 = 255) (x : α) :
    (x ≤ 0 → @srgb8 α 𝔽 rnd x = 0) ∧ (1 ≤ x → @srgb8 α 𝔽 rnd x = 255) ∧ @srgb8 α 𝔽 rnd x ≤ 255 := by
  unfold srgb8
  obtain ⟨c0, c1, c2⟩ := cvt_saturating E rnd hrm hr0 hr255 (@linear_to_srgb α 𝔽 x)
  refine ⟨fun h => c0 ?_, fun h => c1 ?_, c2⟩
  · rw [linear_to_srgb_eq, max_eq_right h, hp0]
  · rw [linear_to_srgb_eq, max_eq_left (le_trans (by norm_num) h), ← hp1]
    exact hpm _ _ (by norm_num) h

/-- the alpha channel of `linear_to_srgba8` is `cvt_uint32(max(w,0))`, the colour channels are `srgb8`: the packed
    result is `pack4` of four per-channel values (so `pack_per_channel` below applies to it). -/
theorem srgba8_channels (rnd : α → Nat) (x y z w : α) :
    @linear_to_srgba8 α 𝔽 rnd x y z w =
      pack4 (@srgb8 α 𝔽 rnd x) (@srgb8 α 𝔽 rnd y) (@srgb8 α 𝔽 rnd z) (@cvt_uint32 α 𝔽 rnd (max w 0)) := by
  rw [@srgba8_channels_gen α 𝔽 rnd x y z w]
  simp only [ofFieldX_ofNat, Nat.cast_zero]

/-! ### the float distributions -/

/-- **biased_float_range** (exact arithmetic): for a raw draw `0 ≤ k < 2³²` and `lower ≤ upper` the value lies in
    `[lower, upper)`; it is `lower` when the range is a single point. -/
theorem biased_float_range (k : Nat) (hk : k < 4294967296) (lo hi : α) (h : lo ≤ hi) :
    lo ≤ @biased_float α 𝔽 k lo hi ∧ (lo < hi → @biased_float α 𝔽 k lo hi < hi) ∧
    (lo = hi → @biased_float α 𝔽 k lo hi = lo) ∧ @biased_float α 𝔽 k lo hi ≤ hi := by
  rw [biased_float_eq]
  have hk0 : (0 : α) ≤ (k : α) := Nat.cast_nonneg k
  have hk1 : (k : α) < 4294967296 := by exact_mod_cast hk
  have ht0 : (0 : α) ≤ 1 / 4294967296 * (k : α) := by positivity
  have ht1 : 1 / 4294967296 * (k : α) < 1 := by
    rw [one_div, inv_mul_lt_iff₀ (by norm_num)]; linarith
  have hd : 0 ≤ hi - lo := sub_nonneg.mpr h
  refine ⟨by nlinarith [mul_nonneg ht0 hd], fun hlt => ?_, fun heq => by rw [heq]; ring, ?_⟩
  · have hd' : 0 < hi - lo := sub_pos.mpr hlt
    nlinarith [mul_lt_mul_of_pos_right ht1 hd']
  · nlinarith [mul_le_mul_of_nonneg_right (le_of_lt ht1) hd]

/-- `pcg32_biased_float_distribution::operator()` with its float operations rounded: `t = fl(scale * float(k)) ∈ [0,1]`
    (scale is a power of two and `float(k) ≤ 2³²`), `diff = fl(upper - lower)`, `fl(fl(t*diff) + lower)`. -/
def biased_float_fl (t lo hi d1 d2 d3 : α) : α :=
  ((t * ((hi - lo) * (1 + d1))) * (1 + d2) + lo) * (1 + d3)

/-- Rounded form: under the standard model (`|dᵢ| ≤ u ≤ 2⁻²⁴`, no under/overflow) the value leaves `[lower, upper]` by
    at most `6·u·M`, `M` a bound of `|lower|`, `|upper|` — a few units in the last place of the larger end point. -/
theorem biased_float_range_fl (t lo hi d1 d2 d3 M : α) (ht0 : 0 ≤ t) (ht1 : t ≤ 1) (h : lo ≤ hi)
    (hlo : |lo| ≤ M) (hhi : |hi| ≤ M)
    (h1 : |d1| ≤ 1 / 16777216) (h2 : |d2| ≤ 1 / 16777216) (h3 : |d3| ≤ 1 / 16777216) :
    lo - 6 * (1 / 16777216) * M ≤ biased_float_fl t lo hi d1 d2 d3 ∧
    biased_float_fl t lo hi d1 d2 d3 ≤ hi + 6 * (1 / 16777216) * M := by
  unfold biased_float_fl
  have b1 := abs_le.mp h1
  have b2 := abs_le.mp h2
  have blo := abs_le.mp hlo
  have bhi := abs_le.mp hhi
  have hM : 0 ≤ M := le_trans (abs_nonneg _) hlo
  have hD : 0 ≤ hi - lo := sub_nonneg.mpr h
  have hD2 : hi - lo ≤ 2 * M := by linarith [blo.1, bhi.2]
  obtain ⟨c, hc⟩ : ∃ c : α, c = (1 + 1 / 16777216) * (1 + 1 / 16777216) := ⟨_, rfl⟩
  have hc1 : (1 : α) ≤ c := by rw [hc]; norm_num
  have hnum : 2 * (c - 1) + (2 * c - 1) * (1 / 16777216) ≤ 6 * (1 / 16777216) := by rw [hc]; norm_num
  -- w = t * D * (1+d1) * (1+d2) lies in [0, D c]
  obtain ⟨w, hw⟩ : ∃ w, w = (t * ((hi - lo) * (1 + d1))) * (1 + d2) := ⟨_, rfl⟩
  have hf1 : 0 ≤ 1 + d1 := by linarith [b1.1]
  have hf2 : 0 ≤ 1 + d2 := by linarith [b2.1]
  have hw0 : 0 ≤ w := by rw [hw]; positivity
  have hw1 : w ≤ (hi - lo) * c := by
    rw [hw, hc]
    have s0 : (hi - lo) * (1 + d1) ≤ (hi - lo) * (1 + 1 / 16777216) :=
      mul_le_mul_of_nonneg_left (by linarith [b1.2]) hD
    have s0' : t * ((hi - lo) * (1 + d1)) ≤ 1 * ((hi - lo) * (1 + d1)) :=
      mul_le_mul_of_nonneg_right ht1 (mul_nonneg hD hf1)
    have s1 : t * ((hi - lo) * (1 + d1)) ≤ (hi - lo) * (1 + 1 / 16777216) := by linarith
    have s2 : (t * ((hi - lo) * (1 + d1))) * (1 + d2) ≤ ((hi - lo) * (1 + 1 / 16777216)) * (1 + 1 / 16777216) :=
      mul_le_mul s1 (by linarith [b2.2]) hf2 (by positivity)
    linarith [mul_assoc (hi - lo) (1 + 1 / 16777216 : α) (1 + 1 / 16777216)]
  rw [← hw]
  exact margin_of_inner w lo hi M c (1 / 16777216) (6 * (1 / 16777216)) d3 hM hc1 (by norm_num) hnum hw0 hw1 hD2 blo.1 bhi.2 h3

/-- **uniform_real_range** (exact arithmetic): for a generator value `min ≤ g ≤ max`, `min < max` (all below 2³²) and
    `l ≤ u` the value `l + (g − min)·((u − l)/(max − min))` lies in `[l, u]`. -/
theorem uniform_real_range (l u : α) (gmin gmax g : Nat) (hmax : gmax < 4294967296)
    (h1 : gmin ≤ g) (h2 : g ≤ gmax) (h3 : gmin < gmax) (h : l ≤ u) :
    l ≤ @uniform_real α 𝔽 l u gmin gmax g ∧ @uniform_real α 𝔽 l u gmin gmax g ≤ u := by
  rw [uniform_real_eq]
  have e1 : sub32 g gmin = g - gmin := by unfold sub32; omega
  have e2 : sub32 gmax gmin = gmax - gmin := by unfold sub32; omega
  rw [e1, e2]
  have hpos : (0 : α) < ((gmax - gmin : Nat) : α) := by exact_mod_cast Nat.sub_pos_of_lt h3
  have hle : ((g - gmin : Nat) : α) ≤ ((gmax - gmin : Nat) : α) := by exact_mod_cast Nat.sub_le_sub_right h2 gmin
  have h0 : (0 : α) ≤ ((g - gmin : Nat) : α) := Nat.cast_nonneg _
  have hd : 0 ≤ u - l := sub_nonneg.mpr h
  have hq0 : 0 ≤ ((g - gmin : Nat) : α) * ((u - l) / ((gmax - gmin : Nat) : α)) :=
    mul_nonneg h0 (div_nonneg hd (le_of_lt hpos))
  have hq1 : ((g - gmin : Nat) : α) * ((u - l) / ((gmax - gmin : Nat) : α)) ≤ u - l := by
    rw [mul_div_assoc', div_le_iff₀ hpos]
    nlinarith [mul_le_mul_of_nonneg_right hle hd]
  constructor <;> linarith

/-- `uniform_real_distribution<float>::operator()` with its float operations rounded: `kf = float(g − min)`,
    `mf = float(max − min)` (conversions rounded: `kf ≤ mf` because rounding is monotone),
    `scale = fl((u − l)/mf)`, `fl(l + fl(kf * scale))`. -/
def uniform_real_fl (l u kf mf d1 d2 d3 d4 : α) : α :=
  (l + (kf * (((u - l) * (1 + d1)) / mf * (1 + d2))) * (1 + d3)) * (1 + d4)

/-- Rounded form, valid when no operation underflows (standard model). NOTE the excluded case is real: when
    `(u − l)/2³²` is a denormal float the division's relative error is not bounded by `2⁻²⁴` and the real code returns
    values up to a third beyond `u` (known finding `C07-uniform-real-denormal-scale`; witness below). -/
theorem uniform_real_range_fl_partial (l u kf mf d1 d2 d3 d4 M : α) (hk0 : 0 ≤ kf) (hkm : kf ≤ mf) (hm : 0 < mf) (h : l ≤ u)
    (hl : |l| ≤ M) (hu : |u| ≤ M)
    (h1 : |d1| ≤ 1 / 16777216) (h2 : |d2| ≤ 1 / 16777216) (h3 : |d3| ≤ 1 / 16777216) (h4 : |d4| ≤ 1 / 16777216) :
    l - 8 * (1 / 16777216) * M ≤ uniform_real_fl l u kf mf d1 d2 d3 d4 ∧
    uniform_real_fl l u kf mf d1 d2 d3 d4 ≤ u + 8 * (1 / 16777216) * M := by
  unfold uniform_real_fl
  have b1 := abs_le.mp h1
  have b2 := abs_le.mp h2
  have b3 := abs_le.mp h3
  have bl := abs_le.mp hl
  have bu := abs_le.mp hu
  have hM : 0 ≤ M := le_trans (abs_nonneg _) hl
  have hD : 0 ≤ u - l := sub_nonneg.mpr h
  have hD2 : u - l ≤ 2 * M := by linarith [bl.1, bu.2]
  obtain ⟨c, hc⟩ : ∃ c : α, c = (1 + 1 / 16777216) * (1 + 1 / 16777216) * (1 + 1 / 16777216) := ⟨_, rfl⟩
  have hc1 : (1 : α) ≤ c := by rw [hc]; norm_num
  have hnum : 2 * (c - 1) + (2 * c - 1) * (1 / 16777216) ≤ 8 * (1 / 16777216) := by rw [hc]; norm_num
  obtain ⟨t, ht⟩ : ∃ t, t = kf / mf := ⟨_, rfl⟩
  have ht0 : 0 ≤ t := by rw [ht]; exact div_nonneg hk0 (le_of_lt hm)
  have ht1 : t ≤ 1 := by rw [ht, div_le_one hm]; exact hkm
  obtain ⟨w, hw⟩ : ∃ w, w = (kf * (((u - l) * (1 + d1)) / mf * (1 + d2))) * (1 + d3) := ⟨_, rfl⟩
  have hwt : w = t * (u - l) * ((1 + d1) * (1 + d2) * (1 + d3)) := by
    rw [hw, ht]; field_simp
  have hf1 : 0 ≤ 1 + d1 := by linarith [b1.1]
  have hf2 : 0 ≤ 1 + d2 := by linarith [b2.1]
  have hf3 : 0 ≤ 1 + d3 := by linarith [b3.1]
  have hF0 : 0 ≤ (1 + d1) * (1 + d2) * (1 + d3) := by positivity
  have hF1 : (1 + d1) * (1 + d2) * (1 + d3) ≤ c := by
    rw [hc]
    have s1 : (1 + d1) * (1 + d2) ≤ (1 + 1 / 16777216) * (1 + 1 / 16777216) :=
      mul_le_mul (by linarith [b1.2]) (by linarith [b2.2]) hf2 (by norm_num)
    exact mul_le_mul s1 (by linarith [b3.2]) hf3 (by norm_num)
  have hw0 : 0 ≤ w := by rw [hwt]; exact mul_nonneg (mul_nonneg ht0 hD) hF0
  have hw1 : w ≤ (u - l) * c := by
    rw [hwt]
    have s1 : t * (u - l) ≤ 1 * (u - l) := mul_le_mul_of_nonneg_right ht1 hD
    rw [one_mul] at s1
    exact mul_le_mul s1 hF1 hF0 hD
  rw [← hw, add_comm l w]
  exact margin_of_inner w l u M c (1 / 16777216) (8 * (1 / 16777216)) d4 hM hc1 (by norm_num) hnum hw0 hw1 hD2 bl.1 bu.2 h4

/-- Witness of the known finding (numbers of the replay `urd 00000000 05400000 0 4294967295 4294967295`):
    `l = 0`, `u = 1.5·2⁻¹¹⁷`; the exact scale `u/2³² = 1.5·2⁻¹⁴⁹` is not a float — the nearest one (denormal grid, ties
    to even) is `2·2⁻¹⁴⁹`; with `float(g − min) = 2³²` the returned value `0 + 2³²·2·2⁻¹⁴⁹ = 2⁻¹¹⁶` exceeds `u` by a third. -/
theorem uniform_real_denormal_scale_witness :
    (0 : α) + 4294967296 * (2 / 2 ^ 149) = (4 / 3) * ((3 / 2) / 2 ^ 117) ∧
    (3 / 2 : α) / 2 ^ 117 < (0 : α) + 4294967296 * (2 / 2 ^ 149) := by
  constructor <;> norm_num

/-- `makeRandomColor` components lie in `[0,1]` (exact arithmetic) for every index. -/
theorem randomColor_range (i : Nat) :
    let c := @makeRandomColor α 𝔽 i
    (0 ≤ c.1 ∧ c.1 ≤ 1) ∧ (0 ≤ c.2.1 ∧ c.2.1 ≤ 1) ∧ (0 ≤ c.2.2 ∧ c.2.2 ≤ 1) := by
  rw [makeRandomColor_eq]
  have key : ∀ (g m : Nat), 0 < m → (0 : α) ≤ ((g % (m + 1) : Nat) : α) * (1 / (m : α)) ∧
      ((g % (m + 1) : Nat) : α) * (1 / (m : α)) ≤ 1 := by
    intro g m hm
    have hmp : (0 : α) < (m : α) := by exact_mod_cast hm
    have hle : ((g % (m + 1) : Nat) : α) ≤ (m : α) := by
      exact_mod_cast Nat.lt_succ_iff.mp (Nat.mod_lt g (Nat.succ_pos m))
    refine ⟨by positivity, ?_⟩
    rw [mul_one_div, div_le_one hmp]; exact hle
  have k1 := key ((i * 1905 + 12312314) % 4294967296) 9502 (by norm_num)
  have k2 := key ((i * 1905 + 12312314) % 4294967296) 318 (by norm_num)
  have k3 := key ((i * 1905 + 12312314) % 4294967296) 10142 (by norm_num)
  norm_num at k1 k2 k3 ⊢
  exact ⟨k1, k2, k3⟩

end field

/-! ## integer and bit kernels -/

/-- **divRoundUp_least**: for `a ≥ 0`, `b > 0` (mathematical integers, C's truncating division) `divRoundUp a b` is the least
    `q` with `q·b ≥ a`. -/
theorem divRoundUp_least (a b : Int) (ha : 0 ≤ a) (hb : 0 < b) :
    a ≤ divRoundUp a b * b ∧ ∀ q' : Int, a ≤ q' * b → divRoundUp a b ≤ q' := by
  unfold divRoundUp
  have hn : 0 ≤ a + b - 1 := by omega
  rw [Int.tdiv_eq_ediv_of_nonneg hn]
  constructor
  · have := Int.lt_ediv_add_one_mul_self (a + b - 1) hb
    have e : ((a + b - 1) / b + 1) * b = (a + b - 1) / b * b + b := by ring
    rw [e] at this
    omega
  · intro q' hq'
    have : (a + b - 1) / b < q' + 1 := by
      rw [Int.ediv_lt_iff_lt_mul hb]
      have e : (q' + 1) * b = q' * b + b := by ring
      rw [e]; omega
    omega

theorem wrap32_id (y : Int) (h0 : -2147483648 ≤ y) (h1 : y < 2147483648) : wrap32 y = y := by
  unfold wrap32
  simp only
  split <;> omega

/-- The 32-bit `int` instantiation computes the same value as long as the FIRST intermediate `a + b` (the expression
    is `(a + b - 1) / b`) is representable: the no-overflow side condition is `a + b < 2³¹` (not merely
    `a + b − 1 < 2³¹`: `divRoundUp(1, INT_MAX)` overflows in `a + b` although the result 1 is representable). -/
theorem divRoundUp32_eq (a b : Int) (ha : 0 ≤ a) (hb : 0 < b) (hov : a + b < 2147483648) :
    divRoundUp32 a b = divRoundUp a b := by
  unfold divRoundUp32 divRoundUp
  rw [wrap32_id (a + b) (by omega) hov, wrap32_id (a + b - 1) (by omega) (by omega)]
  have hn : 0 ≤ a + b - 1 := by omega
  rw [Int.tdiv_eq_ediv_of_nonneg hn]
  have h0 : 0 ≤ (a + b - 1) / b := Int.ediv_nonneg hn (le_of_lt hb)
  have h1 : (a + b - 1) / b ≤ a + b - 1 := Int.ediv_le_self b hn
  exact wrap32_id _ (by omega) (by omega)

/-- hence the least-`q` characterisation holds for what the 32-bit machine computes -/
theorem divRoundUp32_least (a b : Int) (ha : 0 ≤ a) (hb : 0 < b) (hov : a + b < 2147483648) :
    a ≤ divRoundUp32 a b * b ∧ ∀ q' : Int, a ≤ q' * b → divRoundUp32 a b ≤ q' := by
  rw [divRoundUp32_eq a b ha hb hov]; exact divRoundUp_least a b ha hb

/-- **divRoundUp_narrow**: for the 8- and 16-bit element types the expression `(a + b - 1) / b` is evaluated in `int`
    (integral promotion), where `a + b - 1 < 2¹⁷` cannot overflow, and its value is at most `a` (for `a ≥ 1`), i.e.
    it fits the narrow type it is converted back to: the narrow instantiations compute exactly `divRoundUp a b`, the
    least `q` with `q·b ≥ a`. (Truncating the intermediate sum to the narrow type, `a += b - 1`, does not.) -/
theorem divRoundUp_narrow (a b top : Int) (ha : 0 ≤ a) (hb : 0 < b) (hat : a ≤ top) (hbt : b ≤ top) (ht : top ≤ 65535) :
    divRoundUp32 a b = divRoundUp a b ∧ 0 ≤ divRoundUp a b ∧ divRoundUp a b ≤ top := by
  refine ⟨divRoundUp32_eq a b ha hb (by omega), ?_, ?_⟩
  · have h := (divRoundUp_least a b ha hb).1
    by_contra hneg
    have : divRoundUp a b * b ≤ -1 * b := Int.mul_le_mul_of_nonneg_right (by omega) (by omega)
    omega
  · have h := (divRoundUp_least a b ha hb).2 a (by nlinarith)
    omega
-- what the truncating variant computes for uint8_t: (255 + 2 - 1) mod 256 / 2 = 0, not 128
example : divRoundUp 255 2 = 128 ∧ Int.tdiv ((255 + 2 - 1) % 256) 2 = 0 := by decide

/-- the packed word as a sum: no two channels share a bit -/
theorem pack4_eq_sum (c0 c1 c2 c3 : Nat) (h0 : c0 < 256) (h1 : c1 < 256) (h2 : c2 < 256) (h3 : c3 < 256) :
    pack4 c0 c1 c2 c3 = c0 + 256 * c1 + 65536 * c2 + 16777216 * c3 := by
  unfold pack4
  have e1 : c0 <<< 0 ||| c1 <<< 8 = c1 <<< 8 + c0 := by
    rw [Nat.shiftLeft_zero, Nat.or_comm]
    exact (Nat.shiftLeft_add_eq_or_of_lt (by omega : c0 < 2 ^ 8) c1).symm
  have e2 : (c1 <<< 8 + c0) ||| c2 <<< 16 = c2 <<< 16 + (c1 <<< 8 + c0) := by
    rw [Nat.or_comm]
    refine (Nat.shiftLeft_add_eq_or_of_lt ?_ c2).symm
    rw [Nat.shiftLeft_eq]; omega
  have e3 : (c2 <<< 16 + (c1 <<< 8 + c0)) ||| c3 <<< 24 = c3 <<< 24 + (c2 <<< 16 + (c1 <<< 8 + c0)) := by
    rw [Nat.or_comm]
    refine (Nat.shiftLeft_add_eq_or_of_lt ?_ c3).symm
    rw [Nat.shiftLeft_eq, Nat.shiftLeft_eq]; omega
  rw [e1, e2, e3, Nat.shiftLeft_eq, Nat.shiftLeft_eq, Nat.shiftLeft_eq]
  omega

/-- **pack_per_channel**: for channel values below 256, byte `k` of `c₀ | c₁<<8 | c₂<<16 | c₃<<24` is `c_k`. -/
theorem pack_per_channel (c0 c1 c2 c3 : Nat) (h0 : c0 < 256) (h1 : c1 < 256) (h2 : c2 < 256) (h3 : c3 < 256) :
    byteOf (pack4 c0 c1 c2 c3) 0 = c0 ∧ byteOf (pack4 c0 c1 c2 c3) 1 = c1 ∧
    byteOf (pack4 c0 c1 c2 c3) 2 = c2 ∧ byteOf (pack4 c0 c1 c2 c3) 3 = c3 := by
  rw [pack4_eq_sum c0 c1 c2 c3 h0 h1 h2 h3]
  unfold byteOf
  simp only [Nat.shiftRight_eq_div_pow]
  refine ⟨by omega, by omega, by omega, by omega⟩

/-! ## non-vacuity: the hypotheses used above are satisfiable, the definitions are not degenerate -/
section examples

/-- a concrete instance over ℚ-like fields: FLT_MIN = 2⁻¹²⁶, identity for pow/sqrt (enough to run the examples) -/
def exE (α : Type) [Field α] : Ext α := { fmin := 1 / 2 ^ 126, pow := fun a _ => a, sqrt := fun a => a }

variable {α : Type} [Field α] [LinearOrder α] [IsStrictOrderedRing α]

-- rcp: x = 3, estimate r = 1/3·(1 + 2⁻¹²) satisfies the estimate hypothesis, so the theorem applies
example : |((1 + 1 / 4096) / 3 : α) * 3 - 1| ≤ 3 / 8192 := by norm_num
example : |@rcp_simd α (CNum.ofFieldX α (exE α)) 3 ((1 + 1 / 4096) / 3) * 3 - 1| ≤ 1 / 1048576 :=
  rcp_nr_error_exact (exE α) 3 _ (by norm_num)
-- and without the Newton step the bound would fail: the estimate alone is off by 2⁻¹² > 2⁻²⁰
example : ¬ |((1 + 1 / 4096) / 3 : α) * 3 - 1| ≤ 1 / 1048576 := by norm_num
-- rsqrt: x = 4 = 2·2, r = (1 - 2⁻¹²)/2
example : |@rsqrt_simd α (CNum.ofFieldX α (exE α)) 4 ((1 - 1 / 4096) / 2) * 2 - 1| ≤ 1 / 1048576 :=
  rsqrt_nr_error_exact (exE α) 4 _ 2 (by norm_num) (by norm_num)
-- rcp_safe with the exact reciprocal: zero maps to +1/FLT_MIN, a negative denormal to −1/FLT_MIN
example : @rcp_safe α (CNum.ofFieldX α (exE α)) (fun y => 1 / y) 0 = 2 ^ 126 := by
  simp [rcp_safe, rcp_safe_arg_eq, exE]
example : @rcp_safe α (CNum.ofFieldX α (exE α)) (fun y => 1 / y) (-(1 / 2 ^ 140)) = -(2 ^ 126) := by
  have h : |(-(1 / 2 ^ 140) : α)| < 1 / 2 ^ 126 := by
    rw [abs_neg, abs_of_pos (by positivity)]
    rw [div_lt_div_iff₀ (by positivity) (by positivity)]; norm_num
  have h2 : ¬ ((0 : α) ≤ -(1 / 2 ^ 140)) := by
    have : (0 : α) < 1 / 2 ^ 140 := by positivity
    linarith
  have e : (exE α).fmin = 1 / 2 ^ 126 := rfl
  unfold rcp_safe
  rw [rcp_safe_arg_eq, e, if_pos h, if_neg h2]
  norm_num
example : (∀ y : α, y ≠ 0 → |(fun y => 1 / y) y * y - 1| ≤ 0) := by
  intro y hy; simp [hy]
-- divRoundUp / packing on literals
example : divRoundUp 10 3 = 4 ∧ divRoundUp 9 3 = 3 ∧ divRoundUp 0 7 = 0 ∧ divRoundUp32 2147483646 1 = 2147483646 := by decide
example : pack4 0x12 0x34 0x56 0x78 = 0x78563412 := by decide
-- the 32-bit side condition matters: beyond it the machine value differs from the mathematical one
example : divRoundUp32 2147483647 2147483647 ≠ divRoundUp 2147483647 2147483647 := by decide
-- biased distribution: k = 2³²−1 in [0,1) stays strictly below upper
example : @biased_float α (CNum.ofFieldX α (exE α)) 4294967295 0 1 < 1 :=
  ((biased_float_range (exE α) 4294967295 (by norm_num) 0 1 (by norm_num)).2.1 (by norm_num))

end examples

end RkVerif.C07
