/-
Property C20 — image and trace writers emit decodable files containing exactly the input.
Property theorems only (model: Model/C20.lean, helpers: Lemmas/C20.lean, Lemmas/C20Trace.lean).
Every theorem declared in this module is an audited proof obligation of the check.
-/
import RkVerif.Lemmas.C20
import RkVerif.Lemmas.C20Trace
set_option linter.unusedSimpArgs false
set_option linter.unusedVariables false

namespace RkVerif.C20
open Tok

/-! ## Specification table of the six writers (independent of the model's `Fmt` values)

`channels`: which components of an input pixel the file contains, in file order;
`bottomUp`: file row y is input row height-1-y;  `pixelWidth`: components per input pixel
(bytes of a uint32_t pixel for PPM/PGM, floats for the PFM variants). -/

inductive Writer where
  | ppm | pgm | pfmFloat | pfmVec3f | pfmVec3fa | pfmVec4f

def Writer.fmt : Writer → Fmt
  | .ppm => fmtPPM | .pgm => fmtPGM | .pfmFloat => fmtPf | .pfmVec3f => fmtPF3 | .pfmVec3fa => fmtPF3a | .pfmVec4f => fmtPF4

def Writer.channels : Writer → List Nat
  | .ppm => [0, 1, 2] | .pgm => [3] | .pfmFloat => [0] | .pfmVec3f => [0, 1, 2] | .pfmVec3fa => [0, 1, 2] | .pfmVec4f => [0, 1, 2, 3]

def Writer.bottomUp : Writer → Bool
  | .ppm | .pgm => true
  | _ => false

def Writer.pixelWidth : Writer → Nat
  | .ppm | .pgm => 4
  | .pfmFloat => 1 | .pfmVec3f => 3 | .pfmVec3fa => 4 | .pfmVec4f => 4

/-- bytes per sample: 1 for the 8-bit formats, 4 (an opaque 32-bit float pattern) for PFM -/
def Writer.sampleBytes : Writer → Nat
  | .ppm | .pgm => 1
  | _ => 4

/-- "P6" "P5" "Pf" "PF" "PF" "PF4" -/
def Writer.magic : Writer → List UInt8
  | .ppm => [80, 54] | .pgm => [80, 53] | .pfmFloat => [80, 102] | .pfmVec3f => [80, 70] | .pfmVec3fa => [80, 70] | .pfmVec4f => [80, 70, 52]

def Writer.maxval : Writer → Option Nat
  | .ppm | .pgm => some 255
  | _ => none

theorem writer_fmt_mem (w : Writer) : w.fmt ∈ formats := by cases w <;> simp [Writer.fmt, formats]

theorem writer_table (w : Writer) :
    w.fmt.stride = w.pixelWidth ∧ w.fmt.nComp = w.channels.length ∧ w.fmt.flip = w.bottomUp ∧
    w.fmt.magic = w.magic ∧ w.fmt.compBytes = w.sampleBytes ∧
    (if w.fmt.compBytes = 1 then some 255 else none) = w.maxval ∧
    ∀ k, (hk : k < w.channels.length) → compSel w.fmt k = w.channels[k] := by
  cases w <;> refine ⟨rfl, rfl, rfl, rfl, rfl, rfl, ?_⟩ <;> decide

/-! ## image_in_bounds -/

/-- image_in_bounds: for every writer, every width and height, every source index the copy loop
    reads lies inside the width*height pixels (= width*height*pixelWidth components) given. -/
theorem image_in_bounds (w : Writer) (sx sy : Nat) :
    ∀ i ∈ reads w.fmt sx sy, i < sx * sy * w.pixelWidth := by
  rw [← (writer_table w).1]
  exact reads_lt w.fmt (formats_wf _ (writer_fmt_mem w)) sx sy

/-- the same, index by index (row y, column x, output component c) -/
theorem image_in_bounds_pointwise (w : Writer) (sx sy y x c : Nat) (hy : y < sy) (hx : x < sx)
    (hc : c < w.channels.length) : srcIdx w.fmt compSel sx sy y x c < sx * sy * w.pixelWidth := by
  rw [← (writer_table w).1]
  exact srcIdx_lt w.fmt (formats_wf _ (writer_fmt_mem w)) sx sy y x c hy hx (by rw [(writer_table w).2.1]; exact hc)

/-- witness: the pre-fix selection `N_COMP == 1 ? 3 : c` reads outside a 4x3 float image
    (defect C20-pfm-float-index), and the model of the pre-fix writer reports it. -/
theorem image_in_bounds_prefix_fails :
    ¬ (∀ i ∈ readsWith compSelOld fmtPf 4 3, i < 4 * 3 * Writer.pfmFloat.pixelWidth) := by decide

example : writeImageOld fmtPf 4 3 (List.range 12) = none := by decide
example : (writeImage fmtPf 4 3 (List.range 12)).isSome = true := by decide
-- non-vacuity: the reads list is what one expects on a small flipped image
example : reads fmtPGM 2 2 = [11, 15, 3, 7] := by decide
example : reads fmtPPM 1 2 = [4, 5, 6, 0, 1, 2] := by decide

/-! ## image_roundtrip -/

/-- image_roundtrip: for every writer, width, height and pixel content (components within the
    sample range), the written bytes decode — with a reader that knows only the file format — to a
    header carrying the magic number, width, height, maxval/byte order, and to exactly
    width*height*channels samples; the sample of file row y, column x, channel k is component
    `channels[k]` of the input pixel in row (bottomUp ? height-1-y : y), column x. -/
theorem image_roundtrip (w : Writer) (sx sy : Nat) (comps : List Nat)
    (hlen : comps.length = sx * sy * w.pixelWidth) (hrange : ∀ v ∈ comps, v < 256 ^ w.sampleBytes) :
    ∃ bytes d, writeImage w.fmt sx sy comps = some bytes ∧ decode bytes = some d ∧
      d.magic = w.magic ∧ d.w = sx ∧ d.h = sy ∧ d.nChan = w.channels.length ∧ d.maxval = w.maxval ∧
      d.littleEndian = true ∧ d.samples.length = sx * sy * w.channels.length ∧
      ∀ y x k, y < sy → x < sx → (hk : k < w.channels.length) →
        d.samples[(y * sx + x) * w.channels.length + k]? =
          comps[((if w.bottomUp then sy - 1 - y else y) * sx + x) * w.pixelWidth + w.channels[k]]? := by
  obtain ⟨t1, t2, t3, t4, t5, t6, t7⟩ := writer_table w
  have hw := formats_wf _ (writer_fmt_mem w)
  rw [← t1] at hlen
  rw [← t5] at hrange
  refine ⟨_, _, writeImage_eq w.fmt hw sx sy comps hlen, decode_file w.fmt hw sx sy comps hrange, ?_⟩
  refine ⟨t4, rfl, rfl, t2, t6, rfl, ?_, ?_⟩
  · simp only [length_samples, t2]; ac_rfl
  · intro y x k hy hx hk
    have := samples_getElem? w.fmt hw sx sy comps hlen y x k hy hx (by rw [t2]; exact hk)
    simp only [t2, t1, srcRow, t3, t7 k hk] at this
    exact this

/-- PPM from uint32 pixels: sample (y, x, k), k = 0,1,2, is byte k (little-endian: R, G, B) of
    pixel (height-1-y, x); PGM: the single sample is byte 3 of that pixel. -/
theorem ppm_pgm_roundtrip_words (w : Writer) (h8 : w = .ppm ∨ w = .pgm) (sx sy : Nat) (words : List Nat)
    (hlen : words.length = sx * sy) :
    ∃ bytes d, writeImage w.fmt sx sy (bytesOfWords words) = some bytes ∧ decode bytes = some d ∧
      d.w = sx ∧ d.h = sy ∧ d.maxval = some 255 ∧ d.samples.length = sx * sy * w.channels.length ∧
      ∀ y x k, y < sy → x < sx → (hk : k < w.channels.length) →
        d.samples[(y * sx + x) * w.channels.length + k]? =
          (words[(sy - 1 - y) * sx + x]?).map fun v => v / 256 ^ w.channels[k] % 256 := by
  have hpw : w.pixelWidth = 4 := by rcases h8 with rfl | rfl <;> rfl
  have hsb : w.sampleBytes = 1 := by rcases h8 with rfl | rfl <;> rfl
  have hbu : w.bottomUp = true := by rcases h8 with rfl | rfl <;> rfl
  have hmv : w.maxval = some 255 := by rcases h8 with rfl | rfl <;> rfl
  have hch : ∀ k, (hk : k < w.channels.length) → w.channels[k] < 4 := by
    rcases h8 with rfl | rfl <;> decide
  obtain ⟨bytes, d, h1, h2, _, h4, h5, _, h7, _, h9, h10⟩ :=
    image_roundtrip w sx sy (bytesOfWords words) (by rw [length_bytesOfWords, hlen, hpw])
      (by rw [hsb]; simpa using bytesOfWords_lt words)
  refine ⟨bytes, d, h1, h2, h4, h5, by rw [h7, hmv], h9, ?_⟩
  intro y x k hy hx hk
  rw [h10 y x k hy hx hk, hbu, hpw]
  exact bytesOfWords_getElem? words _ _ (hch k hk)

-- non-vacuity / sanity: the theorem instantiated on a 2x2 PPM (hypotheses satisfiable, conclusion concrete)
example : ∃ bytes d, writeImage fmtPPM 2 2 (bytesOfWords [0x04030201, 0x08070605, 0x0c0b0a09, 0x100f0e0d]) = some bytes ∧
    decode bytes = some d ∧ d.samples[0]? = some 9 ∧ d.samples[5]? = some 15 ∧ d.samples[11]? = some 7 := by
  obtain ⟨bytes, d, h1, h2, _, _, _, _, h⟩ :=
    ppm_pgm_roundtrip_words .ppm (Or.inl rfl) 2 2 [0x04030201, 0x08070605, 0x0c0b0a09, 0x100f0e0d] rfl
  refine ⟨bytes, d, h1, h2, ?_, ?_, ?_⟩
  · simpa [Writer.channels] using h 0 0 0 (by decide) (by decide) (by decide)
  · simpa [Writer.channels] using h 0 1 2 (by decide) (by decide) (by decide)
  · simpa [Writer.channels] using h 1 1 2 (by decide) (by decide) (by decide)

/-! ## trace_wellformed -/

/-- trace_wellformed: whatever the registry contains (any number of threads, any events in any
    chunking, balanced or not, any iteration order), with or without a process name, the character
    stream saveLog writes is a well-formed JSON array (grammar `JArr` over the token stream). -/
theorem trace_wellformed (pid : Nat) (proc : Option String) (idText : Nat → String) (ths : List (Nat × ThreadLog)) :
    JArr (saveLog pid proc idText ths) := by
  rw [saveLog, saveLogBody_eq, finish_eq]
  apply JArr_of_objs
  intro x hx
  rcases List.mem_append.mp hx with hx | hx
  · exact JVal_procObjs _ _ x hx
  · exact JVal_objsThreads _ _ _ _ x hx

/-- in particular for every recorded history, every chunk size and every iteration order -/
theorem trace_wellformed_history (cs pid : Nat) (proc : Option String) (idText : Nat → String) (h : List Call)
    (ths : List (Nat × ThreadLog)) (hp : ths.Perm (runR cs h)) : JArr (saveLog pid proc idText ths) :=
  trace_wellformed pid proc idText ths

/-- witness: before fix C20-savelog-empty the log of a process that recorded nothing and gave no
    process name was the single character `]`, which is not a JSON array. -/
theorem trace_wellformed_prefix_fails : saveLogOld 1 none (fun _ => "") [] = [rbrack] ∧ ¬ JArr [rbrack] := by
  refine ⟨by decide, ?_⟩
  intro h
  cases h

example : saveLog 1 none (fun _ => "") [] = [lbrack, rbrack] := by decide
-- the pre-fix closing step is right whenever something was emitted
example (o : List Tok) (os : List (List Tok)) : finishOld (lbrack :: withCommas (o :: os)) = finish (lbrack :: withCommas (o :: os)) := by
  rw [finishOld_eq, finish_eq]

/-! ## trace_complete_ordered -/

/-- trace_complete_ordered: for every history `h` of API calls by any number of threads in any
    interleaving that respects the precondition (no endEvent without an open beginEvent on that
    thread), every chunk size, and every order `ths` in which the registry is iterated: the output
    parses (independent token automaton) to a list of objects in which, for every position `i`, the
    events carrying `tid = i` are exactly the begin/end/marker/counter calls of thread `ths[i]` in
    call order; every thread that made a call appears exactly once. -/
theorem trace_complete_ordered (cs pid : Nat) (proc : Option String) (idText : Nat → String) (h : List Call)
    (hv : Valid h) (ths : List (Nat × ThreadLog)) (hp : ths.Perm (runR cs h)) :
    ∃ objs, parseArray (saveLog pid proc idText ths) = some objs ∧
      (∀ i, (hi : i < ths.length) → eventsOf objs i = recordedOf h ths[i].1) ∧
      (∀ i, ths.length ≤ i → eventsOf objs i = []) ∧
      (∀ c ∈ h, c.tid ∈ ths.map (·.1)) ∧ (ths.map (·.1)).Nodup := by
  obtain ⟨i1, i2, i3⟩ := runR_inv cs h hv
  have hall : ∀ th ∈ ths, th.2.all = evsOf h th.1 := fun th hth => i2 th (hp.mem_iff.mp hth)
  have hwn : ∀ th ∈ ths, wn 0 th.2.all := fun th hth => by rw [hall th hth]; exact (wn_evsOf h hv th.1).1
  refine ⟨(procObjs pid proc ++ objsThreads pid idText 0 ths).map pOf, ?_, ?_, ?_, ?_, ?_⟩
  · rw [saveLog, saveLogBody_eq, finish_eq]
    apply parseArray_of_objs
    intro x hx
    rcases List.mem_append.mp hx with hx | hx
    · exact accepts_procObjs _ _ x hx
    · exact accepts_objsThreads _ _ _ _ x hx
  · intro i hi
    rw [eventsOf_eq, List.map_append, List.filterMap_append, sel_procObjs, List.nil_append,
      events_objsThreads i pid idText 0 ths hwn]
    simp only [Nat.zero_le, if_true, Nat.sub_zero, List.getElem?_eq_getElem hi, Option.map_some, Option.getD_some]
    rw [hall _ (List.getElem_mem hi), canon_evsOf]
  · intro i hi
    rw [eventsOf_eq, List.map_append, List.filterMap_append, sel_procObjs, List.nil_append,
      events_objsThreads i pid idText 0 ths hwn]
    simp [List.getElem?_eq_none hi]
  · intro c hc
    exact (hp.map (·.1)).mem_iff.mpr (i3 c hc)
  · exact (hp.map (·.1)).nodup_iff.mpr i1

-- non-vacuity: a valid two-thread history with nesting, recorded with chunk size 2
example : Valid [⟨0, .end_, 9⟩, ⟨1, .counter "n" 5, 8⟩, ⟨0, .end_, 7⟩, ⟨0, .begin "b" none, 6⟩, ⟨1, .setName "t1", 5⟩,
    ⟨0, .marker "m" (some "c"), 4⟩, ⟨0, .begin "a" (some "c"), 3⟩] := by decide
example : recordedOf [⟨0, .end_, 9⟩, ⟨1, .counter "n" 5, 8⟩, ⟨0, .end_, 7⟩, ⟨0, .begin "b" none, 6⟩, ⟨1, .setName "t1", 5⟩,
    ⟨0, .marker "m" (some "c"), 4⟩, ⟨0, .begin "a" (some "c"), 3⟩] 0
    = [.b "a" (some "c"), .m "m" (some "c"), .b "b" none, .e, .e] := by decide

/-! ## trace_nested -/

/-- trace_nested: under the same hypotheses the objects of thread `i` pass the stack check
    `nestCheck` — every "E" closes the most recent open "B", every derived cpuUtilization counter
    directly follows an "E" and carries the time stamp of the "B" that "E" closed — and the number of
    begins left open equals begins minus ends of that thread in the history. -/
theorem trace_nested (cs pid : Nat) (proc : Option String) (idText : Nat → String) (h : List Call)
    (hv : Valid h) (ths : List (Nat × ThreadLog)) (hp : ths.Perm (runR cs h)) :
    ∃ objs, parseArray (saveLog pid proc idText ths) = some objs ∧
      ∀ i, (hi : i < ths.length) → nestCheck [] none (threadObjs objs i) = some (depthOf h ths[i].1) := by
  obtain ⟨i1, i2, i3⟩ := runR_inv cs h hv
  have hall : ∀ th ∈ ths, th.2.all = evsOf h th.1 := fun th hth => i2 th (hp.mem_iff.mp hth)
  have hwn : ∀ th ∈ ths, wn 0 th.2.all := fun th hth => by rw [hall th hth]; exact (wn_evsOf h hv th.1).1
  refine ⟨(procObjs pid proc ++ objsThreads pid idText 0 ths).map pOf, ?_, ?_⟩
  · rw [saveLog, saveLogBody_eq, finish_eq]
    apply parseArray_of_objs
    intro x hx
    rcases List.mem_append.mp hx with hx | hx
    · exact accepts_procObjs _ _ x hx
    · exact accepts_objsThreads _ _ _ _ x hx
  · intro i hi
    rw [threadObjs_eq, List.map_append, List.filter_append, keep_procObjs, List.nil_append,
      keep_objsThreads i pid idText 0 ths hwn]
    simp only [Nat.zero_le, if_true, Nat.sub_zero, List.getElem?_eq_getElem hi, Option.map_some, Option.getD_some]
    have hth := List.getElem_mem hi
    have := nestCheck_objsChunk pid i [] ths[i].2.all none (hwn _ hth)
      (by rw [hall _ hth]; exact evsOf_ok h _)
    simp only [List.map_nil, List.length_nil] at this
    rw [this, hall _ hth, (wn_evsOf h hv _).2]

/-! ## chunk_boundary_irrelevant -/

/-- what saveLog reads of a registry entry: thread id, thread name, the events in order -/
theorem saveLog_depends_on_events_only (pid : Nat) (proc : Option String) (idText : Nat → String)
    (ths1 ths2 : List (Nat × ThreadLog)) (hview : ths1.map view = ths2.map view)
    (hwn : ∀ th ∈ ths1, wn 0 th.2.all) :
    saveLog pid proc idText ths1 = saveLog pid proc idText ths2 := by
  rw [saveLog, saveLog, saveLogBody_eq, saveLogBody_eq, objsThreads_congr pid idText 0 ths1 ths2 hview hwn]

/-- chunk_boundary_irrelevant: for every valid history and any two chunk sizes (including 0 and 1)
    the registries hold the same threads, names and event sequences, and saveLog writes the same
    stream — also when both registries are iterated in any common order `σ`. -/
theorem chunk_boundary_irrelevant (cs1 cs2 pid : Nat) (proc : Option String) (idText : Nat → String)
    (h : List Call) (hv : Valid h) :
    (runR cs1 h).map view = (runR cs2 h).map view ∧
    saveLog pid proc idText (runR cs1 h) = saveLog pid proc idText (runR cs2 h) ∧
    ∀ (σ : List Nat), saveLog pid proc idText (σ.filterMap ((runR cs1 h)[·]?)) =
      saveLog pid proc idText (σ.filterMap ((runR cs2 h)[·]?)) := by
  have hview := runR_view cs1 cs2 h
  obtain ⟨_, i2, _⟩ := runR_inv cs1 h hv
  have hwn : ∀ th ∈ runR cs1 h, wn 0 th.2.all := fun th hth => by rw [i2 th hth]; exact (wn_evsOf h hv th.1).1
  refine ⟨hview, saveLog_depends_on_events_only pid proc idText _ _ hview hwn, ?_⟩
  intro σ
  apply saveLog_depends_on_events_only
  · induction σ with
    | nil => rfl
    | cons j σ ih =>
      have hj := congrArg (·[j]?) hview
      simp only [List.getElem?_map] at hj
      simp only [List.filterMap_cons]
      cases h1 : (runR cs1 h)[j]? <;> cases h2 : (runR cs2 h)[j]? <;> simp_all
  · intro th hth
    rw [List.mem_filterMap] at hth
    obtain ⟨j, _, hj⟩ := hth
    exact hwn th (List.mem_of_getElem? hj)

/-- the chunked storage itself: the events of a thread, in order, whatever the chunk size -/
theorem chunks_hold_all_events (cs : Nat) (h : List Call) (hv : Valid h) :
    ∀ p ∈ runR cs h, p.2.chunks.flatten = evsOf h p.1 :=
  (runR_inv cs h hv).2.1

-- non-vacuity: chunk sizes 1 and 3 really chunk differently, and an unbalanced sequence shows the
-- hypothesis is needed (the `break` leaves the chunk, so the chunking becomes visible)
example : (runR 1 [⟨0, .marker "b" none, 2⟩, ⟨0, .marker "a" none, 1⟩]).map (·.2.chunks.length) = [2] := by decide
example : (runR 3 [⟨0, .marker "b" none, 2⟩, ⟨0, .marker "a" none, 1⟩]).map (·.2.chunks.length) = [1] := by decide
example :
    let h : List Call := [⟨0, .marker "m" none, 3⟩, ⟨0, .end_, 2⟩, ⟨0, .marker "a" none, 1⟩]
    saveLog 1 none (fun _ => "") (runR 1 h) ≠ saveLog 1 none (fun _ => "") (runR 8 h) := by decide

end RkVerif.C20
