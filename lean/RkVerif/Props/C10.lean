/-
Property C10 — FlatMap and ParameterizedObject conform to an insertion-ordered
unique-key map.  Property theorems only (model: Model/C10.lean, helpers: Lemmas/C10.lean).
Every theorem declared in this module is an audited proof obligation of the check.
-/
import RkVerif.Lemmas.C10
set_option linter.unusedSectionVars false

namespace RkVerif.C10

variable {K V : Type} [DecidableEq K]

/-! ## FlatMap -/

theorem step_keys_nodup (dflt : V) (m : Items K V) (op : Op K V) (h : (keys m).Nodup) :
    (keys (step dflt m op)).Nodup := by
  cases op with
  | set k v =>
    simp only [step, keys_set]; split
    · exact h
    · exact nodup_snoc _ _ h ‹_›
  | idx k =>
    simp only [step, index]; split
    · exact h
    · rename_i hk
      have hk' := (lookup_none_iff m k).mp hk
      simpa [keys] using nodup_snoc _ _ h hk'
  | atSet k v =>
    simp only [step, atSet]; split
    · rename_i v' hv
      have := mem_keys_of_lookup m k v' hv
      simp [keys_set, this, h]
    · simpa using h
  | erase k => simp only [step, keys_erase]; exact h.filter _
  | clear => simp [step, keys]

/-- keys_nodup: after *every* history a key is stored at most once. -/
theorem keys_nodup (dflt : V) (hist : List (Op K V)) : (keys (runR dflt hist)).Nodup := by
  induction hist with
  | nil => simp [runR, keys]
  | cons op earlier ih => exact step_keys_nodup dflt _ op ih

/-- The reference map: a partial function plus the first-insertion order. -/
structure Ref (K V : Type) where
  val : K → Option V
  order : List K

def abs (m : Items K V) : Ref K V := ⟨lookup m, keys m⟩

/-- Reference semantics of each operation on the abstract map. -/
def Ref.step (dflt : V) (r : Ref K V) : Op K V → Ref K V
  | .set k v => ⟨fun x => if x = k then some v else r.val x, if k ∈ r.order then r.order else r.order ++ [k]⟩
  | .idx k => match r.val k with
      | some _ => r
      | none => ⟨fun x => if x = k then some dflt else r.val x, r.order ++ [k]⟩
  | .atSet k v => match r.val k with
      | some _ => ⟨fun x => if x = k then some v else r.val x, r.order⟩
      | none => r
  | .erase k => ⟨fun x => if x = k then none else r.val x, r.order.filter (· ≠ k)⟩
  | .clear => ⟨fun _ => none, []⟩

/-- flatmap_refines (one step): the concrete step commutes with the abstraction map. -/
theorem flatmap_refines_step (dflt : V) (m : Items K V) (op : Op K V) :
    abs (step dflt m op) = (abs m).step dflt op := by
  cases op with
  | set k v =>
    simp only [abs, step, Ref.step, keys_set, Ref.mk.injEq]
    refine ⟨?_, rfl⟩
    funext x; by_cases h : x = k
    · subst h; simp [lookup_set_same]
    · simp [lookup_set_other _ _ _ _ h, h]
  | idx k =>
    simp only [abs, step, Ref.step, index]
    cases hk : lookup m k with
    | some v => simp
    | none =>
      simp only [keys, List.map_append, List.map_cons, List.map_nil, Ref.mk.injEq, and_true]
      funext x; exact lookup_append_absent m k x dflt hk
  | atSet k v =>
    simp only [abs, step, Ref.step, atSet]
    cases hk : lookup m k with
    | none => simp
    | some v' =>
      have hmem := mem_keys_of_lookup m k v' hk
      simp only [Option.getD_some, keys_set, hmem, ↓reduceIte, Ref.mk.injEq, and_true]
      funext x; by_cases h : x = k
      · subst h; simp [lookup_set_same]
      · simp [lookup_set_other _ _ _ _ h, h]
  | erase k =>
    simp only [abs, step, Ref.step, keys_erase, Ref.mk.injEq, and_true]
    funext x; by_cases h : x = k
    · subst h; simp [lookup_erase_same]
    · simp [lookup_erase_other _ _ _ h, h]
  | clear =>
    simp only [abs, step, Ref.step, keys, List.map_nil, Ref.mk.injEq, and_true]
    funext x; simp [lookup]

def Ref.runR (dflt : V) : List (Op K V) → Ref K V
  | [] => ⟨fun _ => none, []⟩
  | op :: earlier => (Ref.runR dflt earlier).step dflt op

/-- flatmap_refines: after every history the FlatMap's observable content (lookup function and
    key order) is that of the reference map driven by the same history. -/
theorem flatmap_refines (dflt : V) (hist : List (Op K V)) :
    abs (runR dflt hist) = Ref.runR dflt hist := by
  induction hist with
  | nil =>
    simp only [runR, Ref.runR, abs, keys, List.map_nil, Ref.mk.injEq, and_true]
    funext x; simp [lookup]
  | cons op earlier ih => simp [runR, Ref.runR, flatmap_refines_step, ih]

/-- `at` throws exactly for absent keys. -/
theorem at_throws_iff_absent (m : Items K V) (k : K) : at? m k = none ↔ k ∉ (abs m).order :=
  lookup_none_iff m k

theorem at_returns_ref (m : Items K V) (k : K) : at? m k = (abs m).val k := rfl

theorem contains_iff (m : Items K V) (k : K) : contains m k = true ↔ k ∈ (abs m).order := by
  have := lookup_none_iff m k
  simp only [contains, abs]
  cases h : lookup m k <;> simp_all

/-- `operator[]` returns the stored value, or `VALUE()` for a key it has just inserted. -/
theorem index_returns (m : Items K V) (k : K) (dflt : V) :
    (index m k dflt).2 = ((abs m).val k).getD dflt := by
  simp only [index, abs]; cases lookup m k <;> simp

/-- `at_index` follows the first-insertion order … -/
theorem atIndex_order (m : Items K V) (i : Nat) :
    (atIndex m i).map Prod.fst = (abs m).order[i]? := by
  simp [atIndex, abs, keys]

/-- … and carries the value a key-based lookup returns. -/
theorem atIndex_value (m : Items K V) (i : Nat) (k : K) (v : V) (hn : (keys m).Nodup)
    (h : atIndex m i = some (k, v)) : lookup m k = some v := by
  induction m generalizing i with
  | nil => simp [atIndex] at h
  | cons a rest ih =>
    obtain ⟨k', v'⟩ := a
    cases i with
    | zero => simp [atIndex] at h; simp [lookup, h.1, h.2]
    | succ j =>
      simp only [atIndex, List.getElem?_cons_succ] at h
      simp only [keys, List.map_cons, List.nodup_cons] at hn
      have hmem : k ∈ rest.map Prod.fst :=
        List.mem_map.mpr ⟨(k, v), List.mem_of_getElem? h, rfl⟩
      have hne : k' ≠ k := fun e => hn.1 (e ▸ hmem)
      simp only [lookup, hne, ↓reduceIte]
      exact ih j hn.2 h

/-- erase_preserves_order: removal keeps the relative order (and values) of the rest. -/
theorem erase_preserves_order (m : Items K V) (k : K) :
    erase m k = m.filter (fun i => i.1 ≠ k) ∧ (erase m k).Sublist m :=
  ⟨rfl, List.filter_sublist⟩

/-- reinsertion_goes_last: a key inserted after having been removed is appended. -/
theorem reinsertion_goes_last (m : Items K V) (k : K) (v : V) :
    keys (set (erase m k) k v) = (keys m).filter (· ≠ k) ++ [k] := by
  rw [keys_set, keys_erase]; simp

/-- "Inserted and not since removed", read off the history alone (most recent first). -/
def insertedNotRemoved (k : K) : List (Op K V) → Bool
  | [] => false
  | .set k' _ :: earlier => k' = k || insertedNotRemoved k earlier
  | .idx k' :: earlier => k' = k || insertedNotRemoved k earlier
  | .atSet _ _ :: earlier => insertedNotRemoved k earlier
  | .erase k' :: earlier => k' ≠ k && insertedNotRemoved k earlier
  | .clear :: _ => false

/-- A key is present exactly if it was inserted and not since removed — for every history. -/
theorem present_iff_inserted_not_removed (dflt : V) (hist : List (Op K V)) (k : K) :
    k ∈ keys (runR dflt hist) ↔ insertedNotRemoved k hist = true := by
  induction hist with
  | nil => simp [runR, keys, insertedNotRemoved]
  | cons op earlier ih =>
    cases op with
    | set k' v => grind [runR, step, keys_set, insertedNotRemoved]
    | idx k' =>
      simp only [runR, step, index, insertedNotRemoved, Bool.or_eq_true, decide_eq_true_eq]
      cases hk : lookup (runR dflt earlier) k' with
      | some v =>
        have hmem := mem_keys_of_lookup _ _ _ hk
        grind
      | none => simp [keys, ← ih, or_comm, eq_comm]
    | atSet k' v =>
      simp only [runR, step, atSet, insertedNotRemoved]
      cases hk : lookup (runR dflt earlier) k' with
      | none => simpa using ih
      | some v' =>
        have hmem := mem_keys_of_lookup _ _ _ hk
        simp [keys_set, hmem, ih]
    | erase k' => grind [runR, step, keys_erase, insertedNotRemoved]
    | clear => simp [runR, step, keys, insertedNotRemoved]

/-- Lookups return the last value written. -/
theorem lookup_last_written (dflt : V) (hist : List (Op K V)) (k : K) (v : V) :
    lookup (runR dflt (.set k v :: hist)) k = some v := lookup_set_same _ _ _

/-! ## ParameterizedObject -/

variable {T A : Type} [DecidableEq T]

/-- Parameter names are unique after every history. -/
theorem param_names_nodup (hist : List (POp T A)) : (pnames (prunR hist)).Nodup := by
  induction hist with
  | nil => simp [prunR, pnames]
  | cons op earlier ih =>
    cases op with
    | set n t v =>
      simp only [prunR, pstep, pnames_set]; split
      · exact ih
      · exact nodup_snoc _ _ ih ‹_›
    | get n t d =>
      simp only [prunR, pstep, getParam]
      split
      · exact ih
      · split
        · simpa [pnames_mark] using ih
        · exact ih
    | remove n => exact (pnames_remove_sublist _ n).nodup ih
    | reset =>
      have : pnames (resetQuery (prunR earlier)) = pnames (prunR earlier) := by
        simp [resetQuery, pnames, Function.comp_def]
      simpa [prunR, pstep, this] using ih

/-- param_type_mismatch_default: a read with a type other than the exact stored type (or of an
    absent name) yields the caller's default and leaves the whole object — hence every query
    flag — untouched. -/
theorem param_type_mismatch_default (ps : Params T A) (n : String) (t : T) (d : A)
    (h : ∀ p, findParam ps n = some p → p.tag ≠ t) : getParam ps n t d = (ps, d) := by
  simp only [getParam]
  cases hp : findParam ps n with
  | none => rfl
  | some p => simp [h p hp]

def queried (ps : Params T A) (n : String) : Option Bool := (findParam ps n).map (·.query)

/-- A read with the exact stored type returns the stored value, marks that parameter queried
    and changes no other flag. -/
theorem param_get_success (ps : Params T A) (n : String) (t : T) (d : A) (p : Param T A)
    (hp : findParam ps n = some p) (ht : p.tag = t) :
    (getParam ps n t d).2 = p.val ∧ queried (getParam ps n t d).1 n = some true ∧
    ∀ n2, n2 ≠ n → queried (getParam ps n t d).1 n2 = queried ps n2 := by
  simp only [getParam, hp, ht, ↓reduceIte, queried, true_and]
  refine ⟨by simp [findParam_mark_same ps n p hp], ?_⟩
  intro n2 h; simp [findParam_mark_other ps n n2 h]

/-- `resetAllParamQueryStatus` clears every flag and nothing else. -/
theorem param_reset_clears (ps : Params T A) (n : String) :
    queried (resetQuery ps) n = (queried ps n).map (fun _ => false) := by
  simp only [queried, findParam_reset]; cases findParam ps n <;> simp

/-- `setParam` never changes the flag of an existing parameter; a fresh one starts unqueried. -/
theorem param_set_keeps_flag (ps : Params T A) (n : String) (t : T) (v : A) :
    queried (setParam ps n t v) n = some ((queried ps n).getD false) ∧
    ∀ n2, n2 ≠ n → queried (setParam ps n t v) n2 = queried ps n2 := by
  constructor
  · obtain ⟨p, h1, _, _, h4⟩ := findParam_set_same ps n t v
    simp only [queried, h1, Option.map_some, h4]
  · intro n2 h; simp [queried, findParam_set_other ps n n2 t v h]

/-- History-level query flag: the flag of `n` is true iff a successful typed read of `n`
    happened after the last reset and after the last (re-)creation of `n` (most recent
    operation first; a read succeeds iff the type stored at that moment is the requested one). -/
def queriedSpec (n : String) : List (POp T A) → Option Bool
  | [] => none
  | .set n' _ _ :: earlier =>
      if n' = n then some ((queriedSpec n earlier).getD false) else queriedSpec n earlier
  | .get n' t _ :: earlier =>
      if n' = n then
        match findParam (prunR earlier) n with
        | some p => if p.tag = t then some true else queriedSpec n earlier
        | none => queriedSpec n earlier
      else queriedSpec n earlier
  | .remove n' :: earlier => if n' = n then none else queriedSpec n earlier
  | .reset :: earlier => (queriedSpec n earlier).map (fun _ => false)

/-- param_query_flag, for every history. -/
theorem param_query_flag (hist : List (POp T A)) (n : String) :
    queried (prunR hist) n = queriedSpec n hist := by
  induction hist with
  | nil => simp [prunR, queried, findParam, queriedSpec]
  | cons op earlier ih =>
    cases op with
    | set n' t v =>
      simp only [prunR, pstep, queriedSpec]
      by_cases h : n' = n
      · subst h; simp [(param_set_keeps_flag (prunR earlier) n' t v).1, ih]
      · simp [h, (param_set_keeps_flag (prunR earlier) n' t v).2 n (fun e => h e.symm), ih]
    | get n' t d =>
      simp only [prunR, pstep, queriedSpec]
      by_cases h : n' = n
      · subst h
        simp only [↓reduceIte]
        cases hp : findParam (prunR earlier) n' with
        | none => simp [getParam, hp, ih]
        | some p =>
          by_cases ht : p.tag = t
          · simp [ht, (param_get_success (prunR earlier) n' t d p hp ht).2.1]
          · simp [getParam, hp, ht, ih]
      · simp only [h, ↓reduceIte]
        cases hp : findParam (prunR earlier) n' with
        | none => simp [getParam, hp, ih]
        | some p =>
          by_cases ht : p.tag = t
          · rw [(param_get_success (prunR earlier) n' t d p hp ht).2.2 n (fun e => h e.symm), ih]
          · simp [getParam, hp, ht, ih]
    | remove n' =>
      simp only [prunR, pstep, queriedSpec]
      by_cases h : n' = n
      · subst h; simp [queried, findParam_remove_same _ _ (param_names_nodup earlier)]
      · simp [h, queried, findParam_remove_other _ n' n (fun e => h e.symm), ← ih]
    | reset => simp [prunR, pstep, queriedSpec, param_reset_clears, ih]

/-- `hasParam` is name membership; the order of the parameter list is first-insertion order with
    removals keeping the order of the rest. -/
theorem hasParam_iff (ps : Params T A) (n : String) : hasParam ps n = true ↔ n ∈ pnames ps := by
  have := findParam_none_iff ps n
  simp only [hasParam]; cases h : findParam ps n <;> simp_all

theorem param_order (ps : Params T A) (n : String) (t : T) (v : A) :
    pnames (setParam ps n t v) = (if n ∈ pnames ps then pnames ps else pnames ps ++ [n]) ∧
    (pnames (removeParam ps n)).Sublist (pnames ps) :=
  ⟨pnames_set ps n t v, pnames_remove_sublist ps n⟩

/-! ## non-vacuity: the hypotheses above are met by concrete non-trivial states -/

example : keys (runR (0 : Nat) [Op.set 1 5, .erase 1, .set 2 7, .set 1 3]) = [2, 1] := by decide
example : insertedNotRemoved (V := Nat) 1 [Op.set 1 5, .erase 1, .set 2 7, .set 1 3] = true := by decide
example : (getParam (T := Nat) [{ name := "a", tag := 0, val := 7, query := false }] "a" 1 9).2 = 9 := by decide
example : queriedSpec (T := Nat) (A := Nat) "a" [.get "a" 0 1, .reset, .get "a" 0 1, .set "a" 0 7] = some true := by decide

end RkVerif.C10
