/-
Property C06 — linear, affine and quaternion transforms obey their algebra and agree.
Property theorems only; they are about the definitions in RkVerif/Gen/C06.lean, which tools/cpp2lean.py
regenerates from /repo's LinearSpace.h / AffineSpace.h / Quaternion.h on every run (wrappers: tr/c06_drv.cpp).
All statements are over an arbitrary linearly ordered field; sin/cos/sqrt/acos are abstract functions
(`Transc`) and each theorem states as a hypothesis exactly the identity it uses (s²+c²=1, (√x)²=x, …).
"Within a tolerance derived from the condition number" is the floating-point reading of these exact
identities; that part is observed by the correspondence check, not proved.
-/
import RkVerif.Sem.CNumMathlib
import RkVerif.Gen.C06
import Mathlib.Tactic.LinearCombination
import Mathlib.Tactic.SplitIfs
import Mathlib.Tactic.FieldSimp
import Mathlib.Tactic.Linarith
import Mathlib.Analysis.Real.Sqrt

open RkVerif RkVerif.Gen.C06

namespace RkVerif.C06
variable {α : Type} [Field α] [LinearOrder α] [IsStrictOrderedRing α] (E : Transc α)
local notation "𝔽" => CNum.ofFieldT α E

def I2 : Lin2 α := ⟨⟨1,0⟩,⟨0,1⟩⟩
def I3 : Lin3 α := ⟨⟨1,0,0⟩,⟨0,1,0⟩,⟨0,0,1⟩⟩
def dI2 (d : α) : Lin2 α := ⟨⟨d,0⟩,⟨0,d⟩⟩
def dI3 (d : α) : Lin3 α := ⟨⟨d,0,0⟩,⟨0,d,0⟩,⟨0,0,d⟩⟩
def dot3 (a b : Vec3 α) : α := a.x * b.x + a.y * b.y + a.z * b.z
def cross3 (a b : Vec3 α) : Vec3 α := ⟨a.y * b.z - a.z * b.y, a.z * b.x - a.x * b.z, a.x * b.y - a.y * b.x⟩

/-! ## determinant, adjoint, transpose, rows: match their definitions -/

theorem l2_det_def (m : Lin2 α) : @l2_det α 𝔽 m = m.vx.x * m.vy.y - m.vx.y * m.vy.x := by
  simp only [gen_simp]
theorem l3_det_def (m : Lin3 α) : @l3_det α 𝔽 m = dot3 m.vx (cross3 m.vy m.vz) := by
  simp only [gen_simp, dot3, cross3]
theorem l2_transposed_def (m : Lin2 α) : @l2_transposed α 𝔽 m = ⟨⟨m.vx.x, m.vy.x⟩, ⟨m.vx.y, m.vy.y⟩⟩ := by
  simp only [gen_simp]
theorem l3_transposed_def (m : Lin3 α) : @l3_transposed α 𝔽 m =
    ⟨⟨m.vx.x, m.vy.x, m.vz.x⟩, ⟨m.vx.y, m.vy.y, m.vz.y⟩, ⟨m.vx.z, m.vy.z, m.vz.z⟩⟩ := by
  simp only [gen_simp]
theorem l2_rows_def (m : Lin2 α) : @l2_row0 α 𝔽 m = ⟨m.vx.x, m.vy.x⟩ ∧ @l2_row1 α 𝔽 m = ⟨m.vx.y, m.vy.y⟩ := by
  simp only [gen_simp, and_self]
theorem l3_rows_def (m : Lin3 α) : @l3_row0 α 𝔽 m = ⟨m.vx.x, m.vy.x, m.vz.x⟩ ∧
    @l3_row1 α 𝔽 m = ⟨m.vx.y, m.vy.y, m.vz.y⟩ ∧ @l3_row2 α 𝔽 m = ⟨m.vx.z, m.vy.z, m.vz.z⟩ := by
  simp only [gen_simp, and_self]
/-- adjoint is the transposed cofactor matrix: m · adj(m) = adj(m) · m = det(m) · 1 -/
theorem l3_mul_adjoint (m : Lin3 α) : @l3_mul α 𝔽 m (@l3_adjoint α 𝔽 m) = dI3 (@l3_det α 𝔽 m) ∧
    @l3_mul α 𝔽 (@l3_adjoint α 𝔽 m) m = dI3 (@l3_det α 𝔽 m) := by
  obtain ⟨⟨a,b,c⟩,⟨d,e,f⟩,⟨g,i,j⟩⟩ := m
  simp only [gen_simp, dI3, Lin3.mk.injEq, Vec3.mk.injEq]
  refine ⟨⟨⟨?_, ?_, ?_⟩, ⟨?_, ?_, ?_⟩, ?_, ?_, ?_⟩, ⟨?_, ?_, ?_⟩, ⟨?_, ?_, ?_⟩, ?_, ?_, ?_⟩ <;> first | ring1 | trivial
theorem l2_mul_adjoint (m : Lin2 α) : @l2_mul α 𝔽 m (@l2_adjoint α 𝔽 m) = dI2 (@l2_det α 𝔽 m) ∧
    @l2_mul α 𝔽 (@l2_adjoint α 𝔽 m) m = dI2 (@l2_det α 𝔽 m) := by
  obtain ⟨⟨a,b⟩,⟨c,d⟩⟩ := m
  simp only [gen_simp, dI2, Lin2.mk.injEq, Vec2.mk.injEq]
  refine ⟨⟨⟨?_, ?_⟩, ?_, ?_⟩, ⟨?_, ?_⟩, ?_, ?_⟩ <;> ring

/-! ## M·inverse(M) = inverse(M)·M = 1 -/

theorem l3_mul_inverse_aux (m : Lin3 α) :
    @l3_mul α 𝔽 m (@l3_inverse α 𝔽 m) = dI3 (@l3_det α 𝔽 m / @l3_det α 𝔽 m) ∧
    @l3_mul α 𝔽 (@l3_inverse α 𝔽 m) m = dI3 (@l3_det α 𝔽 m / @l3_det α 𝔽 m) := by
  obtain ⟨⟨a,b,c⟩,⟨d,e,f⟩,⟨g,i,j⟩⟩ := m
  simp only [gen_simp, dI3, Lin3.mk.injEq, Vec3.mk.injEq]
  refine ⟨⟨⟨?_, ?_, ?_⟩, ⟨?_, ?_, ?_⟩, ?_, ?_, ?_⟩, ⟨?_, ?_, ?_⟩, ⟨?_, ?_, ?_⟩, ?_, ?_, ?_⟩ <;> ring

theorem l3_mul_inverse (m : Lin3 α) (h : @l3_det α 𝔽 m ≠ 0) :
    @l3_mul α 𝔽 m (@l3_inverse α 𝔽 m) = I3 ∧ @l3_mul α 𝔽 (@l3_inverse α 𝔽 m) m = I3 := by
  have := l3_mul_inverse_aux E m
  rw [div_self h] at this
  exact this

theorem l2_mul_inverse_aux (m : Lin2 α) :
    @l2_mul α 𝔽 m (@l2_inverse α 𝔽 m) = dI2 (@l2_det α 𝔽 m / @l2_det α 𝔽 m) ∧
    @l2_mul α 𝔽 (@l2_inverse α 𝔽 m) m = dI2 (@l2_det α 𝔽 m / @l2_det α 𝔽 m) := by
  obtain ⟨⟨a,b⟩,⟨c,d⟩⟩ := m
  simp only [gen_simp, dI2, Lin2.mk.injEq, Vec2.mk.injEq]
  refine ⟨⟨⟨?_, ?_⟩, ?_, ?_⟩, ⟨?_, ?_⟩, ?_, ?_⟩ <;> ring

theorem l2_mul_inverse (m : Lin2 α) (h : @l2_det α 𝔽 m ≠ 0) :
    @l2_mul α 𝔽 m (@l2_inverse α 𝔽 m) = I2 ∧ @l2_mul α 𝔽 (@l2_inverse α 𝔽 m) m = I2 := by
  have := l2_mul_inverse_aux E m
  rw [div_self h] at this
  exact this

theorem rcp_is_inverse (m : Lin3 α) (n : Lin2 α) :
    @l3_rcp α 𝔽 m = @l3_inverse α 𝔽 m ∧ @l2_rcp α 𝔽 n = @l2_inverse α 𝔽 n := by
  simp only [gen_simp, and_self]

/-! ## det is multiplicative; (A·B)p = A(Bp) -/

theorem l3_det_mul (a b : Lin3 α) : @l3_det α 𝔽 (@l3_mul α 𝔽 a b) = @l3_det α 𝔽 a * @l3_det α 𝔽 b := by
  simp only [gen_simp]; ring
theorem l2_det_mul (a b : Lin2 α) : @l2_det α 𝔽 (@l2_mul α 𝔽 a b) = @l2_det α 𝔽 a * @l2_det α 𝔽 b := by
  simp only [gen_simp]; ring
theorem l3_mul_apply (a b : Lin3 α) (v : Vec3 α) :
    @l3_apply α 𝔽 (@l3_mul α 𝔽 a b) v = @l3_apply α 𝔽 a (@l3_apply α 𝔽 b v) := by
  simp only [gen_simp, Vec3.mk.injEq]; refine ⟨?_, ?_, ?_⟩ <;> ring
theorem l2_mul_apply (a b : Lin2 α) (v : Vec2 α) :
    @l2_apply α 𝔽 (@l2_mul α 𝔽 a b) v = @l2_apply α 𝔽 a (@l2_apply α 𝔽 b v) := by
  simp only [gen_simp, Vec2.mk.injEq]; refine ⟨?_, ?_⟩ <;> ring
theorem l3_apply_def (a : Lin3 α) (v : Vec3 α) : @l3_apply α 𝔽 a v =
    ⟨v.x * a.vx.x + v.y * a.vy.x + v.z * a.vz.x, v.x * a.vx.y + v.y * a.vy.y + v.z * a.vz.y,
     v.x * a.vx.z + v.y * a.vy.z + v.z * a.vz.z⟩ := by
  simp only [gen_simp]

/-! ## xfmPoint / xfmVector / xfmNormal: full map, linear part, inverse transpose -/

theorem l3_xfm_def (m : Lin3 α) (p : Vec3 α) :
    @l3_xfmPoint α 𝔽 m p = @l3_apply α 𝔽 m p ∧ @l3_xfmVector α 𝔽 m p = @l3_apply α 𝔽 m p ∧
    @l3_xfmNormal α 𝔽 m p = @l3_apply α 𝔽 (@l3_transposed α 𝔽 (@l3_inverse α 𝔽 m)) p := by
  simp only [gen_simp, Vec3.mk.injEq]
  refine ⟨⟨?_, ?_, ?_⟩, ⟨?_, ?_, ?_⟩, ?_, ?_, ?_⟩ <;> ring
theorem a3_xfm_def (m : Aff3 α) (p : Vec3 α) :
    @a3_xfmPoint α 𝔽 m p = ⟨(@l3_apply α 𝔽 m.l p).x + m.p.x, (@l3_apply α 𝔽 m.l p).y + m.p.y, (@l3_apply α 𝔽 m.l p).z + m.p.z⟩ ∧
    @a3_xfmVector α 𝔽 m p = @l3_apply α 𝔽 m.l p ∧
    @a3_xfmNormal α 𝔽 m p = @l3_apply α 𝔽 (@l3_transposed α 𝔽 (@l3_inverse α 𝔽 m.l)) p := by
  simp only [gen_simp, Vec3.mk.injEq]
  refine ⟨⟨?_, ?_, ?_⟩, ⟨?_, ?_, ?_⟩, ?_, ?_, ?_⟩ <;> ring

/-! ## affine maps: composition, inverse -/

def A1 : Aff3 α := ⟨I3, ⟨0,0,0⟩⟩

theorem a3_mul_apply (a b : Aff3 α) (p : Vec3 α) :
    @a3_xfmPoint α 𝔽 (@a3_mul α 𝔽 a b) p = @a3_xfmPoint α 𝔽 a (@a3_xfmPoint α 𝔽 b p) := by
  simp only [gen_simp, Vec3.mk.injEq]; refine ⟨?_, ?_, ?_⟩ <;> ring

theorem a3_rcp_mul_aux (a : Aff3 α) :
    @a3_mul α 𝔽 (@a3_rcp α 𝔽 a) a = ⟨dI3 (@l3_det α 𝔽 a.l / @l3_det α 𝔽 a.l), ⟨0,0,0⟩⟩ := by
  obtain ⟨⟨⟨a,b,c⟩,⟨d,e,f⟩,⟨g,i,j⟩⟩, ⟨x,y,z⟩⟩ := a
  simp only [gen_simp, dI3, Aff3.mk.injEq, Lin3.mk.injEq, Vec3.mk.injEq]
  refine ⟨⟨⟨?_, ?_, ?_⟩, ⟨?_, ?_, ?_⟩, ?_, ?_, ?_⟩, ?_, ?_, ?_⟩ <;> ring

/-- rcp(A)·A is the identity map -/
theorem a3_rcp_mul (a : Aff3 α) (h : @l3_det α 𝔽 a.l ≠ 0) : @a3_mul α 𝔽 (@a3_rcp α 𝔽 a) a = A1 := by
  rw [a3_rcp_mul_aux, div_self h]; rfl

theorem a3_mul_rcp_aux (a : Aff3 α) :
    @a3_mul α 𝔽 a (@a3_rcp α 𝔽 a) = ⟨dI3 (@l3_det α 𝔽 a.l / @l3_det α 𝔽 a.l),
      ⟨a.p.x - a.p.x * (@l3_det α 𝔽 a.l / @l3_det α 𝔽 a.l), a.p.y - a.p.y * (@l3_det α 𝔽 a.l / @l3_det α 𝔽 a.l),
       a.p.z - a.p.z * (@l3_det α 𝔽 a.l / @l3_det α 𝔽 a.l)⟩⟩ := by
  obtain ⟨⟨⟨a,b,c⟩,⟨d,e,f⟩,⟨g,i,j⟩⟩, ⟨x,y,z⟩⟩ := a
  simp only [gen_simp, dI3, Aff3.mk.injEq, Lin3.mk.injEq, Vec3.mk.injEq]
  refine ⟨⟨⟨?_, ?_, ?_⟩, ⟨?_, ?_, ?_⟩, ?_, ?_, ?_⟩, ?_, ?_, ?_⟩ <;> ring

theorem a3_mul_rcp (a : Aff3 α) (h : @l3_det α 𝔽 a.l ≠ 0) : @a3_mul α 𝔽 a (@a3_rcp α 𝔽 a) = A1 := by
  rw [a3_mul_rcp_aux, div_self h]; simp [A1, I3, dI3]

theorem a3_div_def (a b : Aff3 α) : @a3_div α 𝔽 a b = @a3_mul α 𝔽 a (@a3_rcp α 𝔽 b) := by
  simp only [gen_simp]

/-! ## scale, translate, one, rotate-about-a-point: exactly the documented axes and origin -/

theorem scale_translate_def (s p : Vec3 α) :
    @l3_scale α 𝔽 s = ⟨⟨s.x,0,0⟩,⟨0,s.y,0⟩,⟨0,0,s.z⟩⟩ ∧ @a3_scale α 𝔽 s = ⟨⟨⟨s.x,0,0⟩,⟨0,s.y,0⟩,⟨0,0,s.z⟩⟩, ⟨0,0,0⟩⟩ ∧
    @a3_translate α 𝔽 p = ⟨I3, p⟩ ∧ (@l3_one α 𝔽) = I3 ∧ (@a3_one α 𝔽) = A1 := by
  simp only [gen_simp, ofFieldT_ofNat, ofFieldT_ofInt, I3, A1]; norm_num
theorem scale_translate2_def (s p : Vec2 α) :
    @l2_scale α 𝔽 s = ⟨⟨s.x,0⟩,⟨0,s.y⟩⟩ ∧ @a2_scale α 𝔽 s = ⟨⟨⟨s.x,0⟩,⟨0,s.y⟩⟩, ⟨0,0⟩⟩ ∧
    @a2_translate α 𝔽 p = ⟨I2, p⟩ ∧ (@l2_one α 𝔽) = I2 := by
  simp only [gen_simp, ofFieldT_ofNat, ofFieldT_ofInt, I2]; norm_num
theorem a3_rotate_def (u : Vec3 α) (r : α) : @a3_rotate α 𝔽 u r = ⟨@l3_rotate α 𝔽 u r, ⟨0,0,0⟩⟩ := by
  simp only [gen_simp, ofFieldT_ofNat]; norm_num
/-- rotation about the axis through point `p`: the linear part is rotate(u,r) and `p` is a fixed point -/
theorem a3_rotate_about_fixes (p u : Vec3 α) (r : α) :
    (@a3_rotate_about α 𝔽 p u r).l = @l3_rotate α 𝔽 u r ∧ @a3_xfmPoint α 𝔽 (@a3_rotate_about α 𝔽 p u r) p = p := by
  obtain ⟨px, py, pz⟩ := p
  simp only [gen_simp, ofFieldT_ofNat, Lin3.mk.injEq, Vec3.mk.injEq]; norm_num
  refine ⟨?_, ?_, ?_⟩ <;> ring

/-- 2D rotation about the point `p`: the linear part is rotate(r) and `p` is a fixed point -/
theorem a2_rotate_about_fixes (p : Vec2 α) (r : α) :
    (@a2_rotate_about α 𝔽 p r).l = @l2_rotate α 𝔽 r ∧
    (@l2_apply α 𝔽 (@a2_rotate_about α 𝔽 p r).l p).x + (@a2_rotate_about α 𝔽 p r).p.x = p.x ∧
    (@l2_apply α 𝔽 (@a2_rotate_about α 𝔽 p r).l p).y + (@a2_rotate_about α 𝔽 p r).p.y = p.y := by
  obtain ⟨px, py⟩ := p
  simp only [gen_simp, ofFieldT_ofNat, Lin2.mk.injEq, Vec2.mk.injEq]; norm_num
  refine ⟨?_, ?_⟩ <;> ring

/-! ## rotate(axis,angle) is a proper rotation about that axis by that angle -/

/-- the 3×3 matrix of the code for a *unit* axis (x,y,z) and sin/cos values (s,c) -/
def rotM (x y z s c : α) : Lin3 α :=
  ⟨⟨x * x + (1 - x * x) * c, x * y * (1 - c) + z * s, x * z * (1 - c) - y * s⟩,
   ⟨x * y * (1 - c) - z * s, y * y + (1 - y * y) * c, y * z * (1 - c) + x * s⟩,
   ⟨x * z * (1 - c) + y * s, y * z * (1 - c) - x * s, z * z + (1 - z * z) * c⟩⟩

/-- the code computes exactly `rotM` of the normalised axis -/
theorem l3_rotate_eq_rotM (u : Vec3 α) (r : α) :
    @l3_rotate α 𝔽 u r =
      rotM (u.x * (1 / E.sqrt (dot3 u u))) (u.y * (1 / E.sqrt (dot3 u u))) (u.z * (1 / E.sqrt (dot3 u u))) (E.sin r) (E.cos r) := by
  simp only [gen_simp, ofFieldT_ofNat, ofFieldT_ofScientific, ofFieldT_sqrt, ofFieldT_sin, ofFieldT_cos, rotM, dot3]
  norm_num

/-- the normalised axis is a unit vector when √ is a square root of the squared length -/
theorem normalized_unit (u : Vec3 α) (hn : dot3 u u ≠ 0) (hs : E.sqrt (dot3 u u) * E.sqrt (dot3 u u) = dot3 u u) :
    (u.x * (1 / E.sqrt (dot3 u u))) * (u.x * (1 / E.sqrt (dot3 u u))) +
    (u.y * (1 / E.sqrt (dot3 u u))) * (u.y * (1 / E.sqrt (dot3 u u))) +
    (u.z * (1 / E.sqrt (dot3 u u))) * (u.z * (1 / E.sqrt (dot3 u u))) = 1 := by
  have hq : E.sqrt (dot3 u u) ≠ 0 := by intro e; rw [e] at hs; exact hn (by rw [← hs]; ring)
  have : (u.x * u.x + u.y * u.y + u.z * u.z) = E.sqrt (dot3 u u) * E.sqrt (dot3 u u) := by rw [hs]; rfl
  field_simp
  linear_combination this

/-- rotate3_proper: for a unit axis and s²+c²=1 the matrix is orthogonal, has determinant 1, fixes
    the axis and has trace 1+2c (so the rotation angle is the one given). -/
theorem rotM_proper (x y z s c : α) (h1 : x * x + y * y + z * z = 1) (h2 : s * s + c * c = 1) :
    @l3_mul α 𝔽 (rotM x y z s c) (@l3_transposed α 𝔽 (rotM x y z s c)) = I3 ∧
    @l3_det α 𝔽 (rotM x y z s c) = 1 ∧
    @l3_apply α 𝔽 (rotM x y z s c) ⟨x, y, z⟩ = ⟨x, y, z⟩ ∧
    (rotM x y z s c).vx.x + (rotM x y z s c).vy.y + (rotM x y z s c).vz.z = 1 + 2 * c := by
  refine ⟨?_, ?_, ?_, ?_⟩
  · simp only [gen_simp, rotM, I3, Lin3.mk.injEq, Vec3.mk.injEq]
    refine ⟨⟨?_, ?_, ?_⟩, ⟨?_, ?_, ?_⟩, ?_, ?_, ?_⟩
    · linear_combination (c^2*x^2 - c^2 - 2*c*x^2 + x^2 + 1) * h1 + (y^2 + z^2) * h2
    · linear_combination (c^2*x*y - 2*c*x*y + x*y) * h1 + (-x*y) * h2
    · linear_combination (c^2*x*z - 2*c*x*z + x*z) * h1 + (-x*z) * h2
    · linear_combination (c^2*x*y - 2*c*x*y + x*y) * h1 + (-x*y) * h2
    · linear_combination (c^2*y^2 - 2*c*y^2 + s^2 + y^2) * h1 + (1 - y^2) * h2
    · linear_combination (c^2*y*z - 2*c*y*z + y*z) * h1 + (-y*z) * h2
    · linear_combination (c^2*x*z - 2*c*x*z + x*z) * h1 + (-x*z) * h2
    · linear_combination (c^2*y*z - 2*c*y*z + y*z) * h1 + (-y*z) * h2
    · linear_combination (c^2*z^2 - 2*c*z^2 + s^2 + z^2) * h1 + (1 - z^2) * h2
  · simp only [gen_simp, rotM]
    linear_combination (-c^3 + c^2 - c*s^2*x^2 - c*s^2*y^2 - c*s^2*z^2 + s^2*x^2 + s^2*y^2 + s^2*z^2 + s^2) * h1 + (1 : α) * h2
  · simp only [gen_simp, rotM, Vec3.mk.injEq]
    refine ⟨?_, ?_, ?_⟩
    · linear_combination (-c*x + x) * h1
    · linear_combination (-c*y + y) * h1
    · linear_combination (-c*z + z) * h1
  · simp only [rotM]
    linear_combination (1 - c) * h1

/-- rotate3_proper for the code's `rotate(u, r)` with any non-zero axis. -/
theorem l3_rotate_proper (u : Vec3 α) (r : α) (hn : dot3 u u ≠ 0)
    (hs : E.sqrt (dot3 u u) * E.sqrt (dot3 u u) = dot3 u u)
    (hsc : E.sin r * E.sin r + E.cos r * E.cos r = 1) :
    @l3_mul α 𝔽 (@l3_rotate α 𝔽 u r) (@l3_transposed α 𝔽 (@l3_rotate α 𝔽 u r)) = I3 ∧
    @l3_det α 𝔽 (@l3_rotate α 𝔽 u r) = 1 := by
  rw [l3_rotate_eq_rotM]
  have := rotM_proper E _ _ _ _ _ (normalized_unit E u hn hs) hsc
  exact ⟨this.1, this.2.1⟩

/-- rotate2_proper -/
theorem l2_rotate_proper (r : α) (hsc : E.sin r * E.sin r + E.cos r * E.cos r = 1) :
    @l2_rotate α 𝔽 r = ⟨⟨E.cos r, E.sin r⟩, ⟨-E.sin r, E.cos r⟩⟩ ∧
    @l2_mul α 𝔽 (@l2_rotate α 𝔽 r) (@l2_transposed α 𝔽 (@l2_rotate α 𝔽 r)) = I2 ∧
    @l2_det α 𝔽 (@l2_rotate α 𝔽 r) = 1 := by
  refine ⟨?_, ?_, ?_⟩
  · simp only [gen_simp, ofFieldT_sin, ofFieldT_cos]
  · simp only [gen_simp, ofFieldT_sin, ofFieldT_cos, I2, Lin2.mk.injEq, Vec2.mk.injEq]
    refine ⟨⟨?_, ?_⟩, ?_, ?_⟩ <;> first | ring1 | linear_combination hsc
  · simp only [gen_simp, ofFieldT_sin, ofFieldT_cos]; linear_combination hsc

/-! ## quaternions and matrices describe the same rotations -/

/-- quat_matrix_agree: the matrix built from a quaternion acts on every vector as q·v·conj(q) (for
    every quaternion, unit or not). -/
theorem quat_matrix_agree (q : Quat α) (v : Vec3 α) :
    @l3_apply α 𝔽 (@l3_from_quat α 𝔽 q) v = @q_rotate_vec α 𝔽 q v ∧
    @q_xfmPoint α 𝔽 q v = @q_rotate_vec α 𝔽 q v := by
  simp only [gen_simp, ofFieldT_ofNat, ofFieldT_ofScientific, Vec3.mk.injEq]
  norm_num
  refine ⟨?_, ?_, ?_⟩ <;> ring

/-- the quaternion product is the Hamilton product and the norm is multiplicative -/
theorem q_mul_norm (a b : Quat α) :
    @q_dot α 𝔽 (@q_mul α 𝔽 a b) (@q_mul α 𝔽 a b) = @q_dot α 𝔽 a a * @q_dot α 𝔽 b b := by
  simp only [gen_simp]; ring
theorem q_mul_assoc (a b c : Quat α) :
    @q_mul α 𝔽 (@q_mul α 𝔽 a b) c = @q_mul α 𝔽 a (@q_mul α 𝔽 b c) := by
  simp only [gen_simp, Quat.mk.injEq]; refine ⟨?_, ?_, ?_, ?_⟩ <;> ring
/-- rotation by a product of quaternions is the composition of the rotations -/
theorem q_mul_rotate (a b : Quat α) (v : Vec3 α) :
    @q_rotate_vec α 𝔽 (@q_mul α 𝔽 a b) v = @q_rotate_vec α 𝔽 a (@q_rotate_vec α 𝔽 b v) := by
  simp only [gen_simp, Vec3.mk.injEq]; refine ⟨?_, ?_, ?_⟩ <;> ring
theorem q_rcp_mul_aux (a : Quat α) :
    @q_mul α 𝔽 a (@q_rcp α 𝔽 a) = ⟨0, 0, 0, @q_dot α 𝔽 a a / @q_dot α 𝔽 a a⟩ := by
  simp only [gen_simp, ofFieldT_ofScientific, Quat.mk.injEq]; norm_num
  refine ⟨?_, ?_, ?_, ?_⟩ <;> ring
theorem q_rcp_mul (a : Quat α) (h : @q_dot α 𝔽 a a ≠ 0) : @q_mul α 𝔽 a (@q_rcp α 𝔽 a) = ⟨0, 0, 0, 1⟩ := by
  rw [q_rcp_mul_aux, div_self h]

/-- yaw/pitch/roll: the constructor equals qY(yaw)·qX(pitch)·qZ(roll) of the three axis quaternions
    (half-angle sines and cosines as computed by the code). -/
theorem quat_ypr (yaw pitch roll : α) :
    @q_from_ypr α 𝔽 yaw pitch roll =
      @q_mul α 𝔽 (@q_mul α 𝔽 ⟨0, E.sin (yaw * (1/2)), 0, E.cos (yaw * (1/2))⟩
                              ⟨E.sin (pitch * (1/2)), 0, 0, E.cos (pitch * (1/2))⟩)
                 ⟨0, 0, E.sin (roll * (1/2)), E.cos (roll * (1/2))⟩ := by
  simp only [gen_simp, ofFieldT_ofScientific, ofFieldT_sin, ofFieldT_cos, Quat.mk.injEq]
  norm_num
  refine ⟨?_, ?_, ?_, ?_⟩ <;> ring

/-- Quaternion::rotate(u, r) = (cos(r/2), sin(r/2)·û) -/
theorem q_rotate_def (u : Vec3 α) (r : α) :
    @q_rotate α 𝔽 u r = ⟨E.sin ((1/2) * r) * (u.x * (1 / E.sqrt (dot3 u u))), E.sin ((1/2) * r) * (u.y * (1 / E.sqrt (dot3 u u))),
      E.sin ((1/2) * r) * (u.z * (1 / E.sqrt (dot3 u u))), E.cos ((1/2) * r)⟩ := by
  simp only [gen_simp, ofFieldT_ofScientific, ofFieldT_sqrt, ofFieldT_sin, ofFieldT_cos, dot3]
  norm_num

/-! ## lookat / frame: exactly the documented axes and origin; orthonormality and orientation -/

theorem a3_lookat_def (eye point up : Vec3 α) :
    let Z := @normalize_Vec3 α 𝔽 (@sub_Vec3_Vec3 α 𝔽 point eye)
    let U := @normalize_Vec3 α 𝔽 (@cross_Vec3_Vec3 α 𝔽 Z up)
    @a3_lookat α 𝔽 eye point up = ⟨⟨U, @cross_Vec3_Vec3 α 𝔽 U Z, Z⟩, eye⟩ := by
  simp only [gen_simp]

/-- Lagrange identity for the generated cross/dot -/
theorem cross_dot_lagrange (a b : Vec3 α) :
    @dot_Vec3_Vec3 α 𝔽 (@cross_Vec3_Vec3 α 𝔽 a b) (@cross_Vec3_Vec3 α 𝔽 a b) =
      @dot_Vec3_Vec3 α 𝔽 a a * @dot_Vec3_Vec3 α 𝔽 b b - @dot_Vec3_Vec3 α 𝔽 a b * @dot_Vec3_Vec3 α 𝔽 a b := by
  simp only [gen_simp]; ring

/-- lookat's frame (U, U×Z, Z) for unit, mutually orthogonal U and Z: V=U×Z is a unit vector
    orthogonal to both, and the determinant is −1 (the orientation the defining expressions give). -/
theorem lookat_frame_orientation (U Z : Vec3 α) (hU : @dot_Vec3_Vec3 α 𝔽 U U = 1) (hZ : @dot_Vec3_Vec3 α 𝔽 Z Z = 1)
    (hUZ : @dot_Vec3_Vec3 α 𝔽 U Z = 0) :
    let V := @cross_Vec3_Vec3 α 𝔽 U Z
    @dot_Vec3_Vec3 α 𝔽 V V = 1 ∧ @dot_Vec3_Vec3 α 𝔽 V U = 0 ∧ @dot_Vec3_Vec3 α 𝔽 V Z = 0 ∧
    @l3_det α 𝔽 ⟨U, V, Z⟩ = -1 := by
  intro V
  have hVV : @dot_Vec3_Vec3 α 𝔽 V V = 1 := by rw [cross_dot_lagrange, hU, hZ, hUZ]; ring
  refine ⟨hVV, ?_, ?_, ?_⟩
  · simp only [V, gen_simp]; ring
  · simp only [V, gen_simp]; ring
  · have : @l3_det α 𝔽 ⟨U, V, Z⟩ = - @dot_Vec3_Vec3 α 𝔽 V V := by simp only [V, gen_simp]; ring
    rw [this, hVV]

/-- frame's (dx, N×dx, N) for unit, orthogonal dx and N is orthonormal with determinant +1. -/
theorem frame_orientation (dx N : Vec3 α) (hd : @dot_Vec3_Vec3 α 𝔽 dx dx = 1) (hN : @dot_Vec3_Vec3 α 𝔽 N N = 1)
    (hdN : @dot_Vec3_Vec3 α 𝔽 N dx = 0) :
    let dy := @cross_Vec3_Vec3 α 𝔽 N dx
    @dot_Vec3_Vec3 α 𝔽 dy dy = 1 ∧ @dot_Vec3_Vec3 α 𝔽 dy dx = 0 ∧ @dot_Vec3_Vec3 α 𝔽 dy N = 0 ∧
    @l3_det α 𝔽 ⟨dx, dy, N⟩ = 1 := by
  intro dy
  have hVV : @dot_Vec3_Vec3 α 𝔽 dy dy = 1 := by rw [cross_dot_lagrange, hd, hN, hdN]; ring
  refine ⟨hVV, ?_, ?_, ?_⟩
  · simp only [dy, gen_simp]; ring
  · simp only [dy, gen_simp]; ring
  · have : @l3_det α 𝔽 ⟨dx, dy, N⟩ = @dot_Vec3_Vec3 α 𝔽 dy dy := by simp only [dy, gen_simp]; ring
    rw [this, hVV]

/-- frame(N): third axis is N itself, first axis is orthogonal to N (a multiple of e×N), second is a
    multiple of N×dx. -/
theorem l3_frame_axes (N : Vec3 α) : (@l3_frame α 𝔽 N).vz = N ∧
    @dot_Vec3_Vec3 α 𝔽 (@l3_frame α 𝔽 N).vx N = 0 ∧ @dot_Vec3_Vec3 α 𝔽 (@l3_frame α 𝔽 N).vy N = 0 := by
  refine ⟨by simp only [gen_simp], ?_, ?_⟩
  · simp only [gen_simp, ofFieldT_ofNat, ofFieldT_ofScientific, Nat.cast_zero, Nat.cast_one]
    have h10 : (OfScientific.ofScientific 10 true 1 : α) = 1 := by norm_num
    simp only [h10]
    split_ifs <;> ring
  · simp only [gen_simp, ofFieldT_ofNat, ofFieldT_ofScientific, Nat.cast_zero, Nat.cast_one]
    have h10 : (OfScientific.ofScientific 10 true 1 : α) = 1 := by norm_num
    simp only [h10]
    split_ifs <;> ring

/-! ## frame(N,up) fallback; slerp takes the short way -/

/-- frame(N, up) falls back to frame(N) whenever up and N are nearly parallel OR anti-parallel (|up·N| ≥ 0.991) -/
theorem l3_frame_up_fallback (N up : Vec3 α) (h : (991 / 1000 : α) ≤ |dot3 up N|) :
    @l3_frame_up α 𝔽 N up = @l3_frame α 𝔽 N := by
  have h' : (OfScientific.ofScientific 990000009 true 9 : α) < |up.x * N.x + up.y * N.y + up.z * N.z| := by
    have : (OfScientific.ofScientific 990000009 true 9 : α) < 991 / 1000 := by norm_num
    exact lt_of_lt_of_le this h
  simp only [l3_frame_up, frame_Vec3_Vec3, l3_frame, dot_Vec3_Vec3, ofFieldT_abs, ofFieldT_ofScientific, gt_iff_lt, h',
    decide_true, ↓reduceIte]

/-- slerp takes the short way: it interpolates from whichever of ±a is closer to b, so negating the first
    operand (the same rotation) never changes the result (dot ≠ 0). -/
theorem q_slerp_neg_invariant (f : α) (a b : Quat α) (hd : @q_dot α 𝔽 a b ≠ 0) :
    @q_slerp α 𝔽 f (@q_neg α 𝔽 a) b = @q_slerp α 𝔽 f a b := by
  have h0 : (OfScientific.ofScientific 0 true 1 : α) = 0 := by norm_num
  obtain ⟨ai, aj, ak, ar⟩ := a
  obtain ⟨bi, bj, bk, br⟩ := b
  simp only [gen_simp] at hd
  have hd' : (-ar * br + -ai * bi + -aj * bj + -ak * bk) = -(ar * br + ai * bi + aj * bj + ak * bk) := by ring
  rcases lt_or_gt_of_ne hd with hneg | hpos
  · have h1 : ¬ (-(ar * br + ai * bi + aj * bj + ak * bk) < 0) := by linarith
    simp only [gen_simp, ofFieldT_ofScientific, h0, hd', hneg, h1, decide_true, decide_false, ↓reduceIte, Bool.false_eq_true]
  · have h1 : (-(ar * br + ai * bi + aj * bj + ak * bk) < 0) := by linarith
    have h2 : ¬ (ar * br + ai * bi + aj * bj + ak * bk < 0) := by linarith
    simp only [gen_simp, ofFieldT_ofScientific, h0, hd', h1, h2, decide_true, decide_false, ↓reduceIte, Bool.false_eq_true, neg_neg]


/-! ## slerp end points (both branches); frame(N) orthonormal for every unit N -/


/-- slerp(0, a, b) is the (short-way) first operand: ±a, normalised in the near-parallel fallback branch. -/
theorem q_slerp_zero (a b : Quat α) (hs : E.sin 0 = 0) (hc : E.cos 0 = 1) :
    @q_slerp α 𝔽 0 a b =
      (let a' := if @q_dot α 𝔽 a b < 0 then @q_neg α 𝔽 a else a
       if (9995 / 10000 : α) < |@q_dot α 𝔽 a b| then @q_normalize α 𝔽 a' else a') := by
  have h0 : (OfScientific.ofScientific 0 true 1 : α) = 0 := by norm_num
  have h1 : (OfScientific.ofScientific 10 true 1 : α) = 1 := by norm_num
  have h9 : (OfScientific.ofScientific 9995 true 4 : α) = 9995 / 10000 := by norm_num
  obtain ⟨ai, aj, ak, ar⟩ := a
  obtain ⟨bi, bj, bk, br⟩ := b
  simp only [gen_simp, ofFieldT_ofScientific, ofFieldT_sin, ofFieldT_cos, ofFieldT_acos, h0, h1, h9]
  by_cases hd : ar * br + ai * bi + aj * bj + ak * bk < 0
  · have habs : |ar * br + ai * bi + aj * bj + ak * bk| = -(ar * br + ai * bi + aj * bj + ak * bk) := abs_of_neg hd
    by_cases hb : (9995 / 10000 : α) < -(ar * br + ai * bi + aj * bj + ak * bk)
    · simp [hd, hb, habs, hs, hc]
    · simp [hd, hb, habs, hs, hc]
  · have habs : |ar * br + ai * bi + aj * bj + ak * bk| = (ar * br + ai * bi + aj * bj + ak * bk) := abs_of_nonneg (not_lt.mp hd)
    by_cases hb : (9995 / 10000 : α) < (ar * br + ai * bi + aj * bj + ak * bk)
    · simp [hd, hb, habs, hs, hc]
    · simp [hd, hb, habs, hs, hc]

/-- slerp(1, a, b) is the second operand (normalised in the near-parallel fallback branch). -/
theorem q_slerp_one (a b : Quat α)
    (hsin : E.sin (E.acos |@q_dot α 𝔽 a b|) ≠ 0) (hcos : E.cos (E.acos |@q_dot α 𝔽 a b|) = |@q_dot α 𝔽 a b|) :
    @q_slerp α 𝔽 1 a b =
      (if (9995 / 10000 : α) < |@q_dot α 𝔽 a b| then @q_normalize α 𝔽 b else b) := by
  have h0 : (OfScientific.ofScientific 0 true 1 : α) = 0 := by norm_num
  have h1 : (OfScientific.ofScientific 10 true 1 : α) = 1 := by norm_num
  have h9 : (OfScientific.ofScientific 9995 true 4 : α) = 9995 / 10000 := by norm_num
  obtain ⟨ai, aj, ak, ar⟩ := a
  obtain ⟨bi, bj, bk, br⟩ := b
  simp only [gen_simp, ofFieldT_ofScientific, ofFieldT_sin, ofFieldT_cos, ofFieldT_acos, h0, h1, h9] at hsin hcos ⊢
  generalize ar * br + ai * bi + aj * bj + ak * bk = d at *
  by_cases hd : d < 0
  · rw [abs_of_neg hd] at hsin hcos ⊢
    by_cases hb : (9995 / 10000 : α) < -d
    · simp only [hd, hb, decide_true, ↓reduceIte, gt_iff_lt, sub_self, zero_mul, one_mul, zero_add]
    · simp only [hd, hb, decide_true, decide_false, ↓reduceIte, gt_iff_lt, Bool.false_eq_true, mul_one, hcos, div_self hsin,
        sub_self, zero_mul, one_mul, zero_add, mul_zero]
  · rw [abs_of_nonneg (not_lt.mp hd)] at hsin hcos ⊢
    by_cases hb : (9995 / 10000 : α) < d
    · simp only [hd, hb, decide_true, decide_false, ↓reduceIte, gt_iff_lt, Bool.false_eq_true, sub_self, zero_mul, one_mul, zero_add]
    · simp only [hd, hb, decide_true, decide_false, ↓reduceIte, gt_iff_lt, Bool.false_eq_true, mul_one, hcos, div_self hsin,
        sub_self, zero_mul, one_mul, zero_add, mul_zero]


/-- the square-root law the normalisation theorems use -/
def SqrtLaw : Prop := ∀ x : α, 0 < x → 0 < E.sqrt x ∧ E.sqrt x * E.sqrt x = x

theorem sqrt_one_of_law (h : SqrtLaw E) : E.sqrt 1 = 1 := by
  obtain ⟨hp, hm⟩ := h 1 one_pos
  have : (E.sqrt 1 - 1) * (E.sqrt 1 + 1) = 0 := by ring_nf; rw [sq, hm]; ring
  rcases mul_eq_zero.mp this with h1 | h1
  · linarith
  · linarith

/-- normalize(v) is a unit vector whenever v ≠ 0 (v·v > 0) -/
theorem normalize_unit (h : SqrtLaw E) (v : Vec3 α) (hv : 0 < @dot_Vec3_Vec3 α 𝔽 v v) :
    @dot_Vec3_Vec3 α 𝔽 (@normalize_Vec3 α 𝔽 v) (@normalize_Vec3 α 𝔽 v) = 1 := by
  have h1 : (OfScientific.ofScientific 10 true 1 : α) = 1 := by norm_num
  obtain ⟨x, y, z⟩ := v
  simp only [gen_simp, ofFieldT_ofScientific, ofFieldT_sqrt, h1] at hv ⊢
  obtain ⟨hp, hm⟩ := h _ hv
  have hne : E.sqrt (x * x + y * y + z * z) ≠ 0 := ne_of_gt hp
  have hr : (1 / E.sqrt (x * x + y * y + z * z)) * (1 / E.sqrt (x * x + y * y + z * z)) *
      (E.sqrt (x * x + y * y + z * z) * E.sqrt (x * x + y * y + z * z)) = 1 := by
    generalize E.sqrt (x * x + y * y + z * z) = t at hne
    field_simp
  rw [hm] at hr
  linear_combination hr

/-- normalize leaves a unit vector unchanged -/
theorem normalize_of_unit (h : SqrtLaw E) (v : Vec3 α) (hv : @dot_Vec3_Vec3 α 𝔽 v v = 1) :
    @normalize_Vec3 α 𝔽 v = v := by
  have h1 : (OfScientific.ofScientific 10 true 1 : α) = 1 := by norm_num
  obtain ⟨x, y, z⟩ := v
  simp only [gen_simp, ofFieldT_ofScientific, ofFieldT_sqrt, h1] at hv ⊢
  rw [hv, sqrt_one_of_law E h]
  simp

/-- the common tail of frame(N) and frame(N, up): for unit N and any helper v ≠ 0 orthogonal to N, the triple
    (normalize v, normalize (N × normalize v), N) is orthonormal with determinant +1 -/
theorem frame_from_helper (h : SqrtLaw E) (N v : Vec3 α) (hN : @dot_Vec3_Vec3 α 𝔽 N N = 1)
    (hvp : 0 < @dot_Vec3_Vec3 α 𝔽 v v) (hNv : @dot_Vec3_Vec3 α 𝔽 N v = 0) :
    let F : Lin3 α := ⟨@normalize_Vec3 α 𝔽 v, @normalize_Vec3 α 𝔽 (@cross_Vec3_Vec3 α 𝔽 N (@normalize_Vec3 α 𝔽 v)), N⟩
    @dot_Vec3_Vec3 α 𝔽 F.vx F.vx = 1 ∧ @dot_Vec3_Vec3 α 𝔽 F.vy F.vy = 1 ∧ @dot_Vec3_Vec3 α 𝔽 F.vy F.vx = 0 ∧
    @dot_Vec3_Vec3 α 𝔽 F.vx N = 0 ∧ @dot_Vec3_Vec3 α 𝔽 F.vy N = 0 ∧ F.vz = N ∧ @l3_det α 𝔽 F = 1 := by
  intro F
  have h10 : (OfScientific.ofScientific 10 true 1 : α) = 1 := by norm_num
  have hdxu := normalize_unit E h v hvp
  have hF : F = ⟨@normalize_Vec3 α 𝔽 v, @normalize_Vec3 α 𝔽 (@cross_Vec3_Vec3 α 𝔽 N (@normalize_Vec3 α 𝔽 v)), N⟩ := rfl
  set dx := @normalize_Vec3 α 𝔽 v with hdx
  have hNdx : @dot_Vec3_Vec3 α 𝔽 N dx = 0 := by
    obtain ⟨x, y, z⟩ := N
    obtain ⟨a, b, c⟩ := v
    simp only [gen_simp] at hNv
    simp only [hdx, gen_simp, ofFieldT_ofScientific, ofFieldT_sqrt, h10]
    linear_combination (1 / E.sqrt (a * a + b * b + c * c)) * hNv
  obtain ⟨o1, o2, o3, o4⟩ := frame_orientation E dx N hdxu hN hNdx
  have hdy : @normalize_Vec3 α 𝔽 (@cross_Vec3_Vec3 α 𝔽 N dx) = @cross_Vec3_Vec3 α 𝔽 N dx :=
    normalize_of_unit E h _ o1
  rw [hF, hdy]
  refine ⟨hdxu, o1, o2, ?_, o3, rfl, o4⟩
  obtain ⟨x, y, z⟩ := N
  obtain ⟨a, b, c⟩ := dx
  simp only [gen_simp] at hNdx ⊢
  linear_combination hNdx

/-- **frame(N) is a right-handed orthonormal frame with third axis N, for every unit N** — in particular
    the helper axis chosen (the longer of e_x×N, e_y×N) is never the zero vector, so nothing is normalised
    from zero (N = ±e_x, ±e_y included). -/
theorem l3_frame_orthonormal (h : SqrtLaw E) (N : Vec3 α) (hN : @dot_Vec3_Vec3 α 𝔽 N N = 1) :
    let F := @l3_frame α 𝔽 N
    @dot_Vec3_Vec3 α 𝔽 F.vx F.vx = 1 ∧ @dot_Vec3_Vec3 α 𝔽 F.vy F.vy = 1 ∧ @dot_Vec3_Vec3 α 𝔽 F.vy F.vx = 0 ∧
    @dot_Vec3_Vec3 α 𝔽 F.vx N = 0 ∧ @dot_Vec3_Vec3 α 𝔽 F.vy N = 0 ∧ F.vz = N ∧ @l3_det α 𝔽 F = 1 := by
  intro F
  have h10 : (OfScientific.ofScientific 10 true 1 : α) = 1 := by norm_num
  set ex : Vec3 α := @Vec3_mk_S_S_S α 𝔽 (@OneTy_to_S α 𝔽 ()) (@ZeroTy_to_S α 𝔽 ()) (@ZeroTy_to_S α 𝔽 ()) with hex
  set ey : Vec3 α := @Vec3_mk_S_S_S α 𝔽 (@ZeroTy_to_S α 𝔽 ()) (@OneTy_to_S α 𝔽 ()) (@ZeroTy_to_S α 𝔽 ()) with hey
  set dx0 := @cross_Vec3_Vec3 α 𝔽 ex N with hdx0
  set dx1 := @cross_Vec3_Vec3 α 𝔽 ey N with hdx1
  set v := (if (decide (@dot_Vec3_Vec3 α 𝔽 dx0 dx0 > @dot_Vec3_Vec3 α 𝔽 dx1 dx1)) then dx0 else dx1) with hv
  have hF : F = ⟨@normalize_Vec3 α 𝔽 v, @normalize_Vec3 α 𝔽 (@cross_Vec3_Vec3 α 𝔽 N (@normalize_Vec3 α 𝔽 v)), N⟩ := rfl
  have hvpos : 0 < @dot_Vec3_Vec3 α 𝔽 v v ∧ @dot_Vec3_Vec3 α 𝔽 N v = 0 := by
    obtain ⟨x, y, z⟩ := N
    simp only [gen_simp, ofFieldT_ofScientific, ofFieldT_ofNat, h10, Nat.cast_zero, Nat.cast_one] at hN
    simp only [hv, hdx0, hdx1, hex, hey, gen_simp, ofFieldT_ofScientific, ofFieldT_ofNat, h10, Nat.cast_zero, Nat.cast_one]
    split_ifs with hc
    · simp only [decide_eq_true_eq, gt_iff_lt] at hc
      refine ⟨?_, by ring⟩
      nlinarith [sq_nonneg x, sq_nonneg y, sq_nonneg z]
    · simp only [decide_eq_true_eq, gt_iff_lt, not_lt] at hc
      refine ⟨?_, by ring⟩
      nlinarith [sq_nonneg x, sq_nonneg y, sq_nonneg z]
  rw [hF]
  exact frame_from_helper E h N v hN hvpos.1 hvpos.2

/-- **frame(N, up) is a right-handed orthonormal frame with third axis N, for all unit N and up** (parallel,
    anti-parallel and nearly parallel `up` included: those take the frame(N) fallback; otherwise up×N ≠ 0). -/
theorem l3_frame_up_orthonormal (h : SqrtLaw E) (N up : Vec3 α) (hN : @dot_Vec3_Vec3 α 𝔽 N N = 1)
    (hup : @dot_Vec3_Vec3 α 𝔽 up up = 1) :
    let F := @l3_frame_up α 𝔽 N up
    @dot_Vec3_Vec3 α 𝔽 F.vx F.vx = 1 ∧ @dot_Vec3_Vec3 α 𝔽 F.vy F.vy = 1 ∧ @dot_Vec3_Vec3 α 𝔽 F.vy F.vx = 0 ∧
    @dot_Vec3_Vec3 α 𝔽 F.vx N = 0 ∧ @dot_Vec3_Vec3 α 𝔽 F.vy N = 0 ∧ F.vz = N ∧ @l3_det α 𝔽 F = 1 := by
  intro F
  by_cases hc : @CNum.abs α 𝔽 (@dot_Vec3_Vec3 α 𝔽 up N) > (OfScientific.ofScientific 990000009 true 9 : α)
  · have hF : F = @l3_frame α 𝔽 N := by
      simp only [F, l3_frame_up, frame_Vec3_Vec3, l3_frame, ofFieldT_ofScientific, hc, decide_true, ↓reduceIte]
    rw [hF]
    exact l3_frame_orthonormal E h N hN
  · have hF : F = ⟨@normalize_Vec3 α 𝔽 (@cross_Vec3_Vec3 α 𝔽 up N),
        @normalize_Vec3 α 𝔽 (@cross_Vec3_Vec3 α 𝔽 N (@normalize_Vec3 α 𝔽 (@cross_Vec3_Vec3 α 𝔽 up N))), N⟩ := by
      simp only [F, l3_frame_up, frame_Vec3_Vec3, Lin3_mk_Vec3_Vec3_Vec3, ofFieldT_ofScientific, hc, decide_false, ↓reduceIte,
        Bool.false_eq_true]
    rw [hF]
    have hlt : |@dot_Vec3_Vec3 α 𝔽 up N| < 1 := by
      have h99 : (OfScientific.ofScientific 990000009 true 9 : α) < 1 := by norm_num
      exact lt_of_le_of_lt (not_lt.mp hc) h99
    have hsq : @dot_Vec3_Vec3 α 𝔽 up N * @dot_Vec3_Vec3 α 𝔽 up N < 1 := by
      have := abs_lt.mp hlt
      nlinarith [this.1, this.2]
    refine frame_from_helper E h N _ hN ?_ ?_
    · rw [cross_dot_lagrange, hup, hN]; linarith
    · obtain ⟨x, y, z⟩ := N
      obtain ⟨a, b, c⟩ := up
      simp only [gen_simp]; ring

/-- **lookat is orthonormal** whenever point ≠ eye and up is not parallel to the viewing direction:
    Z, U = normalize(Z×up), V = U×Z are unit and mutually orthogonal, det = −1, origin = eye. -/
theorem a3_lookat_orthonormal (h : SqrtLaw E) (eye point up : Vec3 α)
    (hpe : 0 < @dot_Vec3_Vec3 α 𝔽 (@sub_Vec3_Vec3 α 𝔽 point eye) (@sub_Vec3_Vec3 α 𝔽 point eye))
    (hcr : 0 < @dot_Vec3_Vec3 α 𝔽
      (@cross_Vec3_Vec3 α 𝔽 (@normalize_Vec3 α 𝔽 (@sub_Vec3_Vec3 α 𝔽 point eye)) up)
      (@cross_Vec3_Vec3 α 𝔽 (@normalize_Vec3 α 𝔽 (@sub_Vec3_Vec3 α 𝔽 point eye)) up)) :
    let A := @a3_lookat α 𝔽 eye point up
    @dot_Vec3_Vec3 α 𝔽 A.l.vx A.l.vx = 1 ∧ @dot_Vec3_Vec3 α 𝔽 A.l.vy A.l.vy = 1 ∧ @dot_Vec3_Vec3 α 𝔽 A.l.vz A.l.vz = 1 ∧
    @dot_Vec3_Vec3 α 𝔽 A.l.vy A.l.vx = 0 ∧ @dot_Vec3_Vec3 α 𝔽 A.l.vy A.l.vz = 0 ∧ @dot_Vec3_Vec3 α 𝔽 A.l.vx A.l.vz = 0 ∧
    @l3_det α 𝔽 A.l = -1 ∧ A.p = eye := by
  intro A
  have h10 : (OfScientific.ofScientific 10 true 1 : α) = 1 := by norm_num
  have hA : A = _ := a3_lookat_def E eye point up
  set Z := @normalize_Vec3 α 𝔽 (@sub_Vec3_Vec3 α 𝔽 point eye) with hZ
  set U := @normalize_Vec3 α 𝔽 (@cross_Vec3_Vec3 α 𝔽 Z up) with hU
  have hZu := normalize_unit E h _ hpe
  have hUu := normalize_unit E h _ hcr
  rw [← hZ] at hZu
  rw [← hU] at hUu
  have hUZ : @dot_Vec3_Vec3 α 𝔽 U Z = 0 := by
    obtain ⟨x, y, z⟩ := Z
    obtain ⟨a, b, c⟩ := up
    simp only [hU, gen_simp, ofFieldT_ofScientific, ofFieldT_sqrt, h10]
    ring
  obtain ⟨o1, o2, o3, o4⟩ := lookat_frame_orientation E U Z hUu hZu hUZ
  rw [hA]
  exact ⟨hUu, o1, hZu, o2, o3, hUZ, o4, rfl⟩

/-! ## quaternion from rotation matrix: all four branches return ±q -/

/-- the square root of a square, from the law: positive root is unique -/
theorem sqrt_eq_of_sq (h : SqrtLaw E) (x y : α) (hy : 0 < y) (hxy : y * y = x) : E.sqrt x = y := by
  have hx : 0 < x := by rw [← hxy]; positivity
  obtain ⟨hp, hm⟩ := h x hx
  have : (E.sqrt x - y) * (E.sqrt x + y) = 0 := by ring_nf; rw [sq, hm, ← hxy]; ring
  rcases mul_eq_zero.mp this with h1 | h1
  · linarith
  · linarith

/-- pivot step shared by the four branches of the matrix→quaternion constructor: with t = 4a², s = rsqrt(t)·½,
    t·s = |a| and (4·a·x)·s = ±x with the sign of a -/
theorem pivot (h : SqrtLaw E) (a : α) (ha : a ≠ 0) :
    (4 * a * a) * ((1 / E.sqrt (4 * a * a)) * (1 / 2)) = |a| ∧
    ∀ x, (4 * a * x) * ((1 / E.sqrt (4 * a * a)) * (1 / 2)) = if 0 < a then x else -x := by
  rcases lt_or_gt_of_ne ha with hneg | hpos
  · have hs : E.sqrt (4 * a * a) = -(2 * a) := sqrt_eq_of_sq E h _ _ (by linarith) (by ring)
    rw [hs, abs_of_neg hneg]
    have : ¬ (0 < a) := not_lt.mpr (le_of_lt hneg)
    simp only [this, ↓reduceIte]
    constructor
    · field_simp; ring
    · intro x; field_simp; ring
  · have hs : E.sqrt (4 * a * a) = 2 * a := sqrt_eq_of_sq E h _ _ (by linarith) (by ring)
    rw [hs, abs_of_pos hpos]
    simp only [hpos, ↓reduceIte]
    constructor
    · field_simp; ring
    · intro x; field_simp; ring

/-- the result of a branch whose pivot component is `a`: the quaternion (x,y,z,w) up to the sign of `a` -/
def signed (a : α) (q : Quat α) : Quat α := if 0 < a then q else ⟨-q.i, -q.j, -q.k, -q.r⟩

/-- branch 1 (trace ≥ 0): pivot r -/
theorem from_matrix_b1 (h : SqrtLaw E) (vx vy vz : Vec3 α) (a x y z : α) (ha : a ≠ 0)
    (hc : vx.x + vy.y + vz.z ≥ 0) (ht : 1 + (vx.x + vy.y + vz.z) = 4 * a * a)
    (h1 : vy.z - vz.y = 4 * a * x) (h2 : vz.x - vx.z = 4 * a * y) (h3 : vx.y - vy.x = 4 * a * z) :
    @q_from_matrix α 𝔽 vx vy vz = signed a ⟨x, y, z, a⟩ := by
  have h0 : (OfScientific.ofScientific 0 true 1 : α) = 0 := by norm_num
  have h10 : (OfScientific.ofScientific 10 true 1 : α) = 1 := by norm_num
  have h05 : (OfScientific.ofScientific 5 true 1 : α) = 1 / 2 := by norm_num
  obtain ⟨p1, p2⟩ := pivot E h a ha
  simp only [gen_simp, ofFieldT_ofScientific, ofFieldT_ofNat, ofFieldT_sqrt, h0, h10, h05, Nat.cast_zero, Nat.cast_one]
  simp only [Nat.cast_ofNat]
  simp only [hc, decide_true, ↓reduceIte, ht, h1, h2, h3, p1, p2, signed]
  split_ifs with hp
  · rw [abs_of_pos hp]
  · have : a < 0 := lt_of_le_of_ne (not_lt.mp hp) ha
    rw [abs_of_neg this]

/-- branch 2: pivot i -/
theorem from_matrix_b2 (h : SqrtLaw E) (vx vy vz : Vec3 α) (a x y z : α) (ha : a ≠ 0)
    (hc1 : ¬ (vx.x + vy.y + vz.z ≥ 0)) (hc2 : vx.x ≥ max vy.y vz.z)
    (ht : 1 + vx.x - (vy.y + vz.z) = 4 * a * a)
    (h1 : vy.z - vz.y = 4 * a * x) (h2 : vx.y + vy.x = 4 * a * y) (h3 : vz.x + vx.z = 4 * a * z) :
    @q_from_matrix α 𝔽 vx vy vz = signed a ⟨a, y, z, x⟩ := by
  have h0 : (OfScientific.ofScientific 0 true 1 : α) = 0 := by norm_num
  have h10 : (OfScientific.ofScientific 10 true 1 : α) = 1 := by norm_num
  have h05 : (OfScientific.ofScientific 5 true 1 : α) = 1 / 2 := by norm_num
  obtain ⟨p1, p2⟩ := pivot E h a ha
  simp only [gen_simp, ofFieldT_ofScientific, ofFieldT_ofNat, ofFieldT_sqrt, h0, h10, h05, Nat.cast_zero, Nat.cast_one]
  simp only [Nat.cast_ofNat]
  simp only [hc1, hc2, decide_true, decide_false, ↓reduceIte, Bool.false_eq_true, ht, h1, h2, h3, p1, p2, signed]
  split_ifs with hp
  · rw [abs_of_pos hp]
  · have : a < 0 := lt_of_le_of_ne (not_lt.mp hp) ha
    rw [abs_of_neg this]

/-- branch 3: pivot j -/
theorem from_matrix_b3 (h : SqrtLaw E) (vx vy vz : Vec3 α) (a x y z : α) (ha : a ≠ 0)
    (hc1 : ¬ (vx.x + vy.y + vz.z ≥ 0)) (hc2 : ¬ (vx.x ≥ max vy.y vz.z)) (hc3 : vy.y ≥ vz.z)
    (ht : 1 + vy.y - (vz.z + vx.x) = 4 * a * a)
    (h1 : vz.x - vx.z = 4 * a * x) (h2 : vx.y + vy.x = 4 * a * y) (h3 : vy.z + vz.y = 4 * a * z) :
    @q_from_matrix α 𝔽 vx vy vz = signed a ⟨y, a, z, x⟩ := by
  have h0 : (OfScientific.ofScientific 0 true 1 : α) = 0 := by norm_num
  have h10 : (OfScientific.ofScientific 10 true 1 : α) = 1 := by norm_num
  have h05 : (OfScientific.ofScientific 5 true 1 : α) = 1 / 2 := by norm_num
  obtain ⟨p1, p2⟩ := pivot E h a ha
  simp only [gen_simp, ofFieldT_ofScientific, ofFieldT_ofNat, ofFieldT_sqrt, h0, h10, h05, Nat.cast_zero, Nat.cast_one]
  simp only [Nat.cast_ofNat]
  simp only [hc1, hc2, hc3, decide_true, decide_false, ↓reduceIte, Bool.false_eq_true, ht, h1, h2, h3, p1, p2, signed]
  split_ifs with hp
  · rw [abs_of_pos hp]
  · have : a < 0 := lt_of_le_of_ne (not_lt.mp hp) ha
    rw [abs_of_neg this]

/-- branch 4: pivot k -/
theorem from_matrix_b4 (h : SqrtLaw E) (vx vy vz : Vec3 α) (a x y z : α) (ha : a ≠ 0)
    (hc1 : ¬ (vx.x + vy.y + vz.z ≥ 0)) (hc2 : ¬ (vx.x ≥ max vy.y vz.z)) (hc3 : ¬ (vy.y ≥ vz.z))
    (ht : 1 + vz.z - (vx.x + vy.y) = 4 * a * a)
    (h1 : vx.y - vy.x = 4 * a * x) (h2 : vz.x + vx.z = 4 * a * y) (h3 : vy.z + vz.y = 4 * a * z) :
    @q_from_matrix α 𝔽 vx vy vz = signed a ⟨y, z, a, x⟩ := by
  have h0 : (OfScientific.ofScientific 0 true 1 : α) = 0 := by norm_num
  have h10 : (OfScientific.ofScientific 10 true 1 : α) = 1 := by norm_num
  have h05 : (OfScientific.ofScientific 5 true 1 : α) = 1 / 2 := by norm_num
  obtain ⟨p1, p2⟩ := pivot E h a ha
  simp only [gen_simp, ofFieldT_ofScientific, ofFieldT_ofNat, ofFieldT_sqrt, h0, h10, h05, Nat.cast_zero, Nat.cast_one]
  simp only [Nat.cast_ofNat]
  simp only [hc1, hc2, hc3, decide_true, decide_false, ↓reduceIte, Bool.false_eq_true, ht, h1, h2, h3, p1, p2, signed]
  split_ifs with hp
  · rw [abs_of_pos hp]
  · have : a < 0 := lt_of_le_of_ne (not_lt.mp hp) ha
    rw [abs_of_neg this]

theorem signed_cases (a : α) (q : Quat α) : signed a q = q ∨ signed a q = @q_neg α 𝔽 q := by
  unfold signed
  split_ifs
  · exact Or.inl rfl
  · right; simp only [gen_simp]

/-- **quaternion ← matrix ← quaternion**: for every unit quaternion q, converting its rotation matrix back yields q or −q
    (the same rotation), whichever of the four branches is taken; in particular the pivot of the branch taken is
    never zero, so no branch divides by zero. -/
theorem q_from_matrix_of_quat (h : SqrtLaw E) (q : Quat α)
    (hu : q.r * q.r + q.i * q.i + q.j * q.j + q.k * q.k = 1) :
    let M := @l3_from_quat α 𝔽 q
    @q_from_matrix α 𝔽 M.vx M.vy M.vz = q ∨ @q_from_matrix α 𝔽 M.vx M.vy M.vz = @q_neg α 𝔽 q := by
  intro M
  have h20 : (OfScientific.ofScientific 20 true 1 : α) = 2 := by norm_num
  obtain ⟨i, j, k, r⟩ := q
  simp only at hu
  have ex : M.vx.x = r * r + i * i - j * j - k * k := by simp only [M, gen_simp]
  have ey : M.vy.y = r * r - i * i + j * j - k * k := by simp only [M, gen_simp]
  have ez : M.vz.z = r * r - i * i - j * j + k * k := by simp only [M, gen_simp]
  have exy : M.vx.y = 2 * (i * j + r * k) := by simp only [M, gen_simp, ofFieldT_ofScientific, h20]
  have exz : M.vx.z = 2 * (i * k - r * j) := by simp only [M, gen_simp, ofFieldT_ofScientific, h20]
  have eyx : M.vy.x = 2 * (i * j - r * k) := by simp only [M, gen_simp, ofFieldT_ofScientific, h20]
  have eyz : M.vy.z = 2 * (j * k + r * i) := by simp only [M, gen_simp, ofFieldT_ofScientific, h20]
  have ezx : M.vz.x = 2 * (i * k + r * j) := by simp only [M, gen_simp, ofFieldT_ofScientific, h20]
  have ezy : M.vz.y = 2 * (j * k - r * i) := by simp only [M, gen_simp, ofFieldT_ofScientific, h20]
  have tr : M.vx.x + M.vy.y + M.vz.z = 4 * (r * r) - 1 := by rw [ex, ey, ez]; linear_combination (-1 : α) * hu
  have dxy : M.vx.x - M.vy.y = 2 * (i * i) - 2 * (j * j) := by rw [ex, ey]; ring
  have dxz : M.vx.x - M.vz.z = 2 * (i * i) - 2 * (k * k) := by rw [ex, ez]; ring
  have dyz : M.vy.y - M.vz.z = 2 * (j * j) - 2 * (k * k) := by rw [ey, ez]; ring
  have nr := mul_self_nonneg r
  have ni := mul_self_nonneg i
  have nj := mul_self_nonneg j
  have nk := mul_self_nonneg k
  by_cases c1 : M.vx.x + M.vy.y + M.vz.z ≥ 0
  · have hr : r ≠ 0 := by
      intro e
      have : r * r = 0 := by rw [e]; ring
      rw [tr, this] at c1; linarith
    rw [from_matrix_b1 E h M.vx M.vy M.vz r i j k hr c1 (by rw [ex, ey, ez]; linear_combination (-1 : α) * hu)
      (by rw [eyz, ezy]; ring) (by rw [ezx, exz]; ring) (by rw [exy, eyx]; ring)]
    exact signed_cases E r _
  · have c1' : 4 * (r * r) - 1 < 0 := by rw [tr] at c1; exact not_le.mp c1
    by_cases c2 : M.vx.x ≥ max M.vy.y M.vz.z
    · have hi : i ≠ 0 := by
        intro e
        have e2 : i * i = 0 := by rw [e]; ring
        have c2a : M.vy.y ≤ M.vx.x := le_trans (le_max_left _ _) c2
        have c2b : M.vz.z ≤ M.vx.x := le_trans (le_max_right _ _) c2
        linarith
      rw [from_matrix_b2 E h M.vx M.vy M.vz i r j k hi c1 c2 (by rw [ex, ey, ez]; linear_combination (-1 : α) * hu)
        (by rw [eyz, ezy]; ring) (by rw [exy, eyx]; ring) (by rw [ezx, exz]; ring)]
      exact signed_cases E i _
    · by_cases c3 : M.vy.y ≥ M.vz.z
      · have hj : j ≠ 0 := by
          intro e
          have e2 : j * j = 0 := by rw [e]; ring
          have : M.vx.x < M.vy.y := by
            have := not_le.mp c2; rwa [max_eq_left c3] at this
          linarith
        rw [from_matrix_b3 E h M.vx M.vy M.vz j r i k hj c1 c2 c3 (by rw [ex, ey, ez]; linear_combination (-1 : α) * hu)
          (by rw [ezx, exz]; ring) (by rw [exy, eyx]; ring) (by rw [eyz, ezy]; ring)]
        exact signed_cases E j _
      · have hk : k ≠ 0 := by
          intro e
          have e2 : k * k = 0 := by rw [e]; ring
          have := not_le.mp c3
          linarith
        rw [from_matrix_b4 E h M.vx M.vy M.vz k r i j hk c1 c2 c3 (by rw [ex, ey, ez]; linear_combination (-1 : α) * hu)
          (by rw [exy, eyx]; ring) (by rw [ezx, exz]; ring) (by rw [eyz, ezy]; ring)]
        exact signed_cases E k _

/-! ## non-vacuity -/
example : (2 : ℚ) * 2 + 0 * 0 + 0 * 0 ≠ 0 := by norm_num
/-- the square-root law is satisfiable (real numbers) -/
example : SqrtLaw (⟨0, 0, 0, Real.sqrt, id, id, id⟩ : Transc ℝ) :=
  fun x h => ⟨Real.sqrt_pos.mpr h, Real.mul_self_sqrt h.le⟩

/-! ## compound assignments: `x op= y` leaves `x op y` in `x` -/
theorem a3_compound_assign (a b : Aff3 α) :
    @a3_imul α 𝔽 a b = @a3_mul α 𝔽 a b ∧ @a3_idiv α 𝔽 a b = @a3_div α 𝔽 a b := by
  simp only [gen_simp, and_self]
theorem l_compound_assign (a b : Lin3 α) (c d : Lin2 α) :
    @l3_imul α 𝔽 a b = @l3_mul α 𝔽 a b ∧ @l3_idiv α 𝔽 a b = @l3_mul α 𝔽 a (@l3_rcp α 𝔽 b) ∧
    @l2_imul α 𝔽 c d = @l2_mul α 𝔽 c d ∧ @l2_idiv α 𝔽 c d = @l2_mul α 𝔽 c (@l2_rcp α 𝔽 d) := by
  simp only [gen_simp, and_self]
theorem q_compound_assign (a b : Quat α) (s : α) :
    @q_imul α 𝔽 a b = @q_mul α 𝔽 a b ∧ @q_idiv α 𝔽 a b = @q_mul α 𝔽 a (@q_rcp α 𝔽 b) ∧
    @q_iadd α 𝔽 a b = @q_add α 𝔽 a b ∧ @q_isub α 𝔽 a b = @q_sub α 𝔽 a b ∧
    @q_imuls α 𝔽 a s = @q_muls α 𝔽 a s ∧ @q_idivs α 𝔽 a s = @q_muls α 𝔽 a (1 / s) ∧
    @q_iadds α 𝔽 a s = ⟨a.i, a.j, a.k, a.r + s⟩ ∧ @q_isubs α 𝔽 a s = ⟨a.i, a.j, a.k, a.r - s⟩ := by
  simp only [gen_simp, ofFieldT_ofScientific, and_self, true_and, and_true]; norm_num

end RkVerif.C06
