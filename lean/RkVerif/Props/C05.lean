/-
Property C05 — ranges and boxes behave as closed axis-aligned sets.
Property theorems only. They are about the definitions in RkVerif/Gen/C05.lean, which
tools/cpp2lean.py regenerates from /repo's range.h / box.h / AffineSpace.h on every run:
each `r1_*`, `b2_*`, `b3_*`, `b3a_*`, `b4_*`, `xfm_*`, `ray_*` name is a wrapper of tr/c05_drv.cpp.
Order facts hold over *any* bounded linear order (floats with ±∞, integers with their extremes);
arithmetic facts over any linearly ordered field.
-/
import RkVerif.Sem.CNumMathlib
import RkVerif.Gen.C05
import Mathlib.Tactic.Tauto
import Mathlib.Tactic.Positivity
import Mathlib.Order.Fin.Basic
import Mathlib.Tactic.Linarith

open RkVerif RkVerif.Gen.C05

namespace RkVerif.C05

/-! ## componentwise order on the generated vector types -/
variable {α : Type}

def Vec2.le [LE α] (a b : Vec2 α) : Prop := a.x ≤ b.x ∧ a.y ≤ b.y
def Vec3.le [LE α] (a b : Vec3 α) : Prop := a.x ≤ b.x ∧ a.y ≤ b.y ∧ a.z ≤ b.z
def Vec3a.le [LE α] (a b : Vec3a α) : Prop := a.x ≤ b.x ∧ a.y ≤ b.y ∧ a.z ≤ b.z
def Vec4.le [LE α] (a b : Vec4 α) : Prop := a.x ≤ b.x ∧ a.y ≤ b.y ∧ a.z ≤ b.z ∧ a.w ≤ b.w

section order
variable [LinearOrder α] [BoundedOrder α]
attribute [local instance] CNum.ofBoundedOrder

/-! ### contains(p) ⇔ lower ≤ p ≤ upper in every component (closed on both ends) -/

theorem r1_contains_iff (r : Range1 α) (t : α) :
    r1_contains r t = true ↔ r.lower ≤ t ∧ t ≤ r.upper := by
  simp only [gen_simp]; simp

theorem b2_contains_iff (b : Box2 α) (p : Vec2 α) :
    b2_contains b p = true ↔ Vec2.le b.lower p ∧ Vec2.le p b.upper := by
  simp only [gen_simp, Vec2.le]; simp

theorem b3_contains_iff (b : Box3 α) (p : Vec3 α) :
    b3_contains b p = true ↔ Vec3.le b.lower p ∧ Vec3.le p b.upper := by
  simp only [gen_simp, Vec3.le]; simp; tauto

theorem b3a_contains_iff (b : Box3a α) (p : Vec3a α) :
    b3a_contains b p = true ↔ Vec3a.le b.lower p ∧ Vec3a.le p b.upper := by
  simp only [gen_simp, Vec3a.le]; simp; tauto

theorem b4_contains_iff (b : Box4 α) (p : Vec4 α) :
    b4_contains b p = true ↔ Vec4.le b.lower p ∧ Vec4.le p b.upper := by
  simp only [gen_simp, Vec4.le]; simp; tauto

/-! ### extend: smallest box containing the old box and the argument -/

/-- the extended range contains the old range, contains the point, and is inside every range
    `c` that contains both. -/
theorem r1_extend_least (r : Range1 α) (t : α) :
    (∀ q, r1_contains r q = true → r1_contains (r1_extend r t) q = true) ∧
    r1_contains (r1_extend r t) t = true ∧
    (∀ c : Range1 α, c.lower ≤ r.lower → r.upper ≤ c.upper → r1_contains c t = true →
        c.lower ≤ (r1_extend r t).lower ∧ (r1_extend r t).upper ≤ c.upper) := by
  refine ⟨?_, ?_, ?_⟩
  · intro q; simp only [gen_simp]; simp; intro h1 h2; exact ⟨Or.inl h1, Or.inl h2⟩
  · simp only [gen_simp]; simp
  · intro c h1 h2; simp only [gen_simp]; simp; intro h3 h4; exact ⟨⟨h1, h3⟩, ⟨h2, h4⟩⟩

theorem b3_extend_least (b : Box3 α) (p : Vec3 α) :
    (∀ q, b3_contains b q = true → b3_contains (b3_extend b p) q = true) ∧
    b3_contains (b3_extend b p) p = true ∧
    (∀ c : Box3 α, Vec3.le c.lower b.lower → Vec3.le b.upper c.upper → b3_contains c p = true →
        Vec3.le c.lower (b3_extend b p).lower ∧ Vec3.le (b3_extend b p).upper c.upper) := by
  refine ⟨?_, ?_, ?_⟩
  · intro q; simp only [gen_simp]; simp; tauto
  · simp only [gen_simp]; simp
  · intro c; simp only [gen_simp, Vec3.le]; simp; tauto

theorem b2_extend_least (b : Box2 α) (p : Vec2 α) :
    (∀ q, b2_contains b q = true → b2_contains (b2_extend b p) q = true) ∧
    b2_contains (b2_extend b p) p = true ∧
    (∀ c : Box2 α, Vec2.le c.lower b.lower → Vec2.le b.upper c.upper → b2_contains c p = true →
        Vec2.le c.lower (b2_extend b p).lower ∧ Vec2.le (b2_extend b p).upper c.upper) := by
  refine ⟨?_, ?_, ?_⟩
  · intro q; simp only [gen_simp]; simp; tauto
  · simp only [gen_simp]; simp
  · intro c; simp only [gen_simp, Vec2.le]; simp; tauto

theorem b4_extend_least (b : Box4 α) (p : Vec4 α) :
    (∀ q, b4_contains b q = true → b4_contains (b4_extend b p) q = true) ∧
    b4_contains (b4_extend b p) p = true := by
  refine ⟨?_, ?_⟩
  · intro q; simp only [gen_simp]; simp; tauto
  · simp only [gen_simp]; simp

/-- extending by a box: union bounds. -/
theorem b3_extend_box (a b : Box3 α) (q : Vec3 α) :
    (b3_contains a q = true ∨ b3_contains b q = true) → b3_contains (b3_extend_b a b) q = true := by
  simp only [gen_simp]; simp; tauto

/-! ### the default-constructed (empty) box is the identity of extend -/

theorem r1_default_extend (t : α) : r1_extend r1_default t = ⟨t, t⟩ := by
  simp only [gen_simp]; simp
theorem r1_emptyctor_eq_default : (r1_emptyctor : Range1 α) = r1_default := by
  simp only [gen_simp]
theorem b2_default_extend (p : Vec2 α) : b2_extend b2_default p = ⟨p, p⟩ := by
  simp only [gen_simp]; simp
theorem b3_default_extend (p : Vec3 α) : b3_extend b3_default p = ⟨p, p⟩ := by
  simp only [gen_simp]; simp
theorem b3_default_extend_box (b : Box3 α) : b3_extend_b b3_default b = b ∧ b3_extend_b b b3_default = b := by
  simp only [gen_simp]; simp
theorem r1_default_extend_range (r : Range1 α) : r1_extend_r r1_default r = r ∧ r1_extend_r r r1_default = r := by
  simp only [gen_simp]; simp
/-- the default box is empty (contains no point) as soon as the order has two elements. -/
theorem b3_default_empty (h : (⊥ : α) ≠ ⊤) : b3_empty (b3_default : Box3 α) = true ∧
    ∀ p, b3_contains (b3_default : Box3 α) p = false := by
  have hlt : (⊥ : α) < ⊤ := lt_of_le_of_ne bot_le h
  constructor
  · simp only [gen_simp]; simp [hlt]
  · intro p; simp only [gen_simp]; simp
    intro h1 _ _ h2 _
    rw [h2] at h1
    simp [hlt] at h1

theorem r1_default_empty (h : (⊥ : α) ≠ ⊤) : r1_empty (r1_default : Range1 α) = true := by
  have hlt : (⊥ : α) < ⊤ := lt_of_le_of_ne bot_le h
  simp only [gen_simp]; simp [hlt]

/-- `empty()` is exactly "contains no point" for ranges; for boxes it is "some axis inverted". -/
theorem r1_empty_iff (r : Range1 α) : r1_empty r = true ↔ ∀ t, r1_contains r t = false := by
  simp only [gen_simp]; simp
  constructor
  · intro h t h1; exact lt_of_lt_of_le h h1
  · intro h; by_contra hc; exact absurd (h r.lower le_rfl) (not_lt.mpr (not_lt.mp hc))

theorem b3_empty_iff (b : Box3 α) : b3_empty b = true ↔
    (b.upper.x < b.lower.x ∨ b.upper.y < b.lower.y ∨ b.upper.z < b.lower.z) := by
  simp only [gen_simp]; simp; tauto

/-! ### intersectionOf contains exactly the common points -/

theorem b2_inter_contains (a b : Box2 α) (p : Vec2 α) :
    b2_contains (b2_inter a b) p = true ↔ (b2_contains a p = true ∧ b2_contains b p = true) := by
  simp only [gen_simp]; simp; tauto
theorem b3_inter_contains (a b : Box3 α) (p : Vec3 α) :
    b3_contains (b3_inter a b) p = true ↔ (b3_contains a p = true ∧ b3_contains b p = true) := by
  simp only [gen_simp]; simp; tauto
theorem b3a_inter_contains (a b : Box3a α) (p : Vec3a α) :
    b3a_contains (b3a_inter a b) p = true ↔ (b3a_contains a p = true ∧ b3a_contains b p = true) := by
  simp only [gen_simp]; simp; tauto
theorem b4_inter_contains (a b : Box4 α) (p : Vec4 α) :
    b4_contains (b4_inter a b) p = true ↔ (b4_contains a p = true ∧ b4_contains b p = true) := by
  simp only [gen_simp]; simp; tauto

/-! ### disjoint ⇔ not touchingOrOverlapping (always), intersection empty ⇔ disjoint (non-inverted inputs) -/

theorem b2_disjoint_iff_not_touching (a b : Box2 α) : b2_disjoint a b = !b2_touching a b := by
  rw [Bool.eq_iff_iff]; simp only [gen_simp]; simp; tauto

theorem b3_disjoint_iff_not_touching (a b : Box3 α) : b3_disjoint a b = !b3_touching a b := by
  rw [Bool.eq_iff_iff]; simp only [gen_simp]; simp; tauto

theorem b3a_disjoint_iff_not_touching (a b : Box3a α) : b3a_disjoint a b = !b3a_touching a b := by
  rw [Bool.eq_iff_iff]; simp only [gen_simp]; simp; tauto

/-- touchingOrOverlapping ⇔ the two boxes share a point (for non-inverted boxes). -/
theorem b3_touching_iff_common_point (a b : Box3 α) (ha : b3_empty a = false) (hb : b3_empty b = false) :
    b3_touching a b = true ↔ ∃ p, b3_contains a p = true ∧ b3_contains b p = true := by
  constructor
  · intro h
    refine ⟨⟨max a.lower.x b.lower.x, max a.lower.y b.lower.y, max a.lower.z b.lower.z⟩, ?_⟩
    revert h ha hb
    simp only [gen_simp]
    by_cases h1 : a.lower.x > b.upper.x <;> by_cases h2 : a.lower.y > b.upper.y <;>
    by_cases h3 : a.lower.z > b.upper.z <;> by_cases h4 : b.lower.x > a.upper.x <;>
    by_cases h5 : b.lower.y > a.upper.y <;> by_cases h6 : b.lower.z > a.upper.z <;> simp_all
  · rintro ⟨p, h1, h2⟩
    rw [b3_contains_iff] at h1 h2
    obtain ⟨⟨a1, a2, a3⟩, a4, a5, a6⟩ := h1
    obtain ⟨⟨b1, b2, b3⟩, b4, b5, b6⟩ := h2
    have e1 := le_trans a1 b4; have e2 := le_trans a2 b5; have e3 := le_trans a3 b6
    have e4 := le_trans b1 a4; have e5 := le_trans b2 a5; have e6 := le_trans b3 a6
    simp only [gen_simp]
    simp [not_lt.mpr e1, not_lt.mpr e2, not_lt.mpr e3, not_lt.mpr e4, not_lt.mpr e5, not_lt.mpr e6]

/-
FULL STATEMENT (false on the current code, known finding C05-inverted-box):
    ∀ a b, b3_empty (b3_inter a b) = b3_disjoint a b
It fails when an input box is itself inverted (e.g. the result of a previous intersectionOf of
disjoint boxes): `disjoint` only compares the two boxes' bounds with each other.
Proved: the statement for non-inverted inputs, which is what intersectionOf/extend produce from
non-empty data.
-/
theorem b3_inter_empty_iff_disjoint_partial (a b : Box3 α) (ha : b3_empty a = false) (hb : b3_empty b = false) :
    b3_empty (b3_inter a b) = b3_disjoint a b := by
  rw [Bool.eq_iff_iff]
  revert ha hb
  simp only [gen_simp]; simp
  intro a1 a2 a3 b1 b2 b3
  have := not_lt.mpr a1; have := not_lt.mpr a2; have := not_lt.mpr a3
  have := not_lt.mpr b1; have := not_lt.mpr b2; have := not_lt.mpr b3
  tauto

theorem b2_inter_empty_iff_disjoint_partial (a b : Box2 α) (ha : b2_empty a = false) (hb : b2_empty b = false) :
    b2_empty (b2_inter a b) = b2_disjoint a b := by
  rw [Bool.eq_iff_iff]
  revert ha hb
  simp only [gen_simp]; simp
  intro a1 a2 b1 b2
  have := not_lt.mpr a1; have := not_lt.mpr a2; have := not_lt.mpr b1; have := not_lt.mpr b2
  tauto

/-! ### clamp returns the nearest contained point (per axis) -/

/-- For a non-inverted range: the result is contained, equals `t` when `t` is inside, and lies
    between `t` and any contained point `q` (so no contained point is closer to `t`). -/
theorem r1_clamp_nearest (r : Range1 α) (t : α) (h : r.lower ≤ r.upper) :
    r1_contains r (r1_clamp r t) = true ∧
    (r1_contains r t = true → r1_clamp r t = t) ∧
    (∀ q, r1_contains r q = true →
        (t ≤ r1_clamp r t ∧ r1_clamp r t ≤ q) ∨ (q ≤ r1_clamp r t ∧ r1_clamp r t ≤ t)) := by
  simp only [gen_simp]
  refine ⟨?_, ?_, ?_⟩
  · simp; exact h
  · simp; intro h1 h2; rw [min_eq_left h2, max_eq_right h1]
  · intro q; simp only [Bool.and_eq_true, Bool.not_eq_true', decide_eq_false_iff_not, not_lt]
    intro ⟨h1, h2⟩
    rcases le_total t r.lower with c1 | c1
    · left; rw [min_eq_left (le_trans c1 h), max_eq_left c1]; exact ⟨c1, h1⟩
    · rcases le_total t r.upper with c2 | c2
      · rw [min_eq_left c2, max_eq_right c1]
        rcases le_total t q with c3 | c3
        · left; exact ⟨le_rfl, c3⟩
        · right; exact ⟨c3, le_rfl⟩
      · right; rw [min_eq_right c2, max_eq_right h]; exact ⟨h2, c2⟩

/-- Boxes clamp per axis: component `x` of the 3D clamp is the 1D clamp of the x-range (same for
    y, z), so `r1_clamp_nearest` applies to every axis. -/
theorem b3_clamp_per_axis (b : Box3 α) (p : Vec3 α) :
    (b3_clamp b p).x = r1_clamp ⟨b.lower.x, b.upper.x⟩ p.x ∧
    (b3_clamp b p).y = r1_clamp ⟨b.lower.y, b.upper.y⟩ p.y ∧
    (b3_clamp b p).z = r1_clamp ⟨b.lower.z, b.upper.z⟩ p.z := by
  simp only [gen_simp]; simp
theorem b2_clamp_per_axis (b : Box2 α) (p : Vec2 α) :
    (b2_clamp b p).x = r1_clamp ⟨b.lower.x, b.upper.x⟩ p.x ∧
    (b2_clamp b p).y = r1_clamp ⟨b.lower.y, b.upper.y⟩ p.y := by
  simp only [gen_simp]; simp
theorem b4_clamp_per_axis (b : Box4 α) (p : Vec4 α) :
    (b4_clamp b p).x = r1_clamp ⟨b.lower.x, b.upper.x⟩ p.x ∧
    (b4_clamp b p).y = r1_clamp ⟨b.lower.y, b.upper.y⟩ p.y ∧
    (b4_clamp b p).z = r1_clamp ⟨b.lower.z, b.upper.z⟩ p.z ∧
    (b4_clamp b p).w = r1_clamp ⟨b.lower.w, b.upper.w⟩ p.w := by
  simp only [gen_simp]; simp

end order

/-! ## arithmetic facts: any linearly ordered field; `top`, `fmin` stand for +∞ and FLT_MIN -/
section field
variable [Field α] [LinearOrder α] [IsStrictOrderedRing α] (top fmin : α)
local notation "𝔽" => CNum.ofField α top fmin

theorem r1_contains_iffF (r : Range1 α) (t : α) :
    @r1_contains α 𝔽 r t = true ↔ r.lower ≤ t ∧ t ≤ r.upper := by
  simp only [gen_simp]; simp
theorem b3_contains_iffF (b : Box3 α) (p : Vec3 α) :
    @b3_contains α 𝔽 b p = true ↔ Vec3.le b.lower p ∧ Vec3.le p b.upper := by
  simp only [gen_simp, Vec3.le]; simp; tauto
theorem b2_contains_iffF (b : Box2 α) (p : Vec2 α) :
    @b2_contains α 𝔽 b p = true ↔ Vec2.le b.lower p ∧ Vec2.le p b.upper := by
  simp only [gen_simp, Vec2.le]; simp

/-! ### size, center, area, volume, scaling, translation match their definitions -/
theorem r1_size_def (r : Range1 α) : @r1_size α 𝔽 r = r.upper - r.lower := by
  simp only [gen_simp]
theorem r1_center_def (r : Range1 α) : @r1_center α 𝔽 r = (r.lower + r.upper) / 2 := by
  simp only [gen_simp, ofField_ofNat, ofField_ofScientific]; norm_num; ring
theorem r1_scale_def (r : Range1 α) (s : α) :
    @r1_scale α 𝔽 r s = ⟨r.lower * s, r.upper * s⟩ ∧ @r1_scale_l α 𝔽 s r = ⟨r.lower * s, r.upper * s⟩ := by
  simp only [gen_simp, and_self]
theorem r1_translate_def (r : Range1 α) (s : α) :
    @r1_translate α 𝔽 r s = ⟨r.lower + s, r.upper + s⟩ ∧ @r1_translate_l α 𝔽 s r = ⟨r.lower + s, r.upper + s⟩ := by
  simp only [gen_simp, and_self]
theorem b2_size_def (b : Box2 α) : @b2_size α 𝔽 b = ⟨b.upper.x - b.lower.x, b.upper.y - b.lower.y⟩ := by
  simp only [gen_simp]
theorem b3_size_def (b : Box3 α) :
    @b3_size α 𝔽 b = ⟨b.upper.x - b.lower.x, b.upper.y - b.lower.y, b.upper.z - b.lower.z⟩ := by
  simp only [gen_simp]
theorem b2_center_def (b : Box2 α) :
    @b2_center α 𝔽 b = ⟨(b.lower.x + b.upper.x) / 2, (b.lower.y + b.upper.y) / 2⟩ ∧
    @b2_center_free α 𝔽 b = @b2_center α 𝔽 b := by
  simp only [gen_simp, ofField_ofNat, ofField_ofScientific]; norm_num
  constructor <;> ring
theorem b3_center_def (b : Box3 α) :
    @b3_center α 𝔽 b = ⟨(b.lower.x + b.upper.x) / 2, (b.lower.y + b.upper.y) / 2, (b.lower.z + b.upper.z) / 2⟩ := by
  simp only [gen_simp, ofField_ofNat, ofField_ofScientific]; norm_num
  refine ⟨?_, ?_, ?_⟩ <;> ring
theorem b2_area_def (b : Box2 α) :
    @b2_area α 𝔽 b = (b.upper.x - b.lower.x) * (b.upper.y - b.lower.y) := by
  simp only [gen_simp]
theorem b3_area_def (b : Box3 α) : @b3_area α 𝔽 b =
    2 * ((b.upper.x - b.lower.x) * (b.upper.y - b.lower.y) + (b.upper.x - b.lower.x) * (b.upper.z - b.lower.z) +
         (b.upper.y - b.lower.y) * (b.upper.z - b.lower.z)) := by
  simp only [gen_simp, ofField_ofNat, ofField_ofScientific]; norm_num
theorem b3_volume_def (b : Box3 α) : @b3_volume α 𝔽 b =
    (b.upper.x - b.lower.x) * (b.upper.y - b.lower.y) * (b.upper.z - b.lower.z) := by
  simp only [gen_simp]
theorem b3_scale_def (b : Box3 α) (s : Vec3 α) : @b3_scale α 𝔽 b s =
    ⟨⟨b.lower.x * s.x, b.lower.y * s.y, b.lower.z * s.z⟩, ⟨b.upper.x * s.x, b.upper.y * s.y, b.upper.z * s.z⟩⟩ := by
  simp only [gen_simp]
theorem b3_translate_def (b : Box3 α) (s : Vec3 α) : @b3_translate α 𝔽 b s =
    ⟨⟨b.lower.x + s.x, b.lower.y + s.y, b.lower.z + s.z⟩, ⟨b.upper.x + s.x, b.upper.y + s.y, b.upper.z + s.z⟩⟩ := by
  simp only [gen_simp]

/-! ### xfmBounds contains the image of every point of the box -/

theorem mul_between (k a x b : α) (h1 : a ≤ x) (h2 : x ≤ b) :
    (a * k ≤ x * k ∧ x * k ≤ b * k) ∨ (b * k ≤ x * k ∧ x * k ≤ a * k) := by
  rcases le_total 0 k with hk | hk
  · left; exact ⟨mul_le_mul_of_nonneg_right h1 hk, mul_le_mul_of_nonneg_right h2 hk⟩
  · right; exact ⟨mul_le_mul_of_nonpos_right h2 hk, mul_le_mul_of_nonpos_right h1 hk⟩

syntax "pick_disj" : tactic
macro_rules
  | `(tactic| pick_disj) => `(tactic| first | linarith | (apply Or.inr; linarith) | (apply Or.inl; pick_disj))

/-- `xfm_point m p` is the affine image `m.p + p.x·m.l.vx + p.y·m.l.vy + p.z·m.l.vz`. -/
theorem xfm_point_def (m : Aff3 α) (p : Vec3 α) : @xfm_point α 𝔽 m p =
    ⟨p.x * m.l.vx.x + (p.y * m.l.vy.x + (p.z * m.l.vz.x + m.p.x)),
     p.x * m.l.vx.y + (p.y * m.l.vy.y + (p.z * m.l.vz.y + m.p.y)),
     p.x * m.l.vx.z + (p.y * m.l.vy.z + (p.z * m.l.vz.z + m.p.z))⟩ := by
  simp only [gen_simp]

/-- For every affine map and every point of the box, the image lies in `xfmBounds` (each output
    coordinate is affine in each input coordinate, hence bounded by its values at the 8 corners,
    all of which the code folds into the result). No hypothesis on `top` is needed. -/
theorem xfmBounds_contains (m : Aff3 α) (b : Box3 α) (p : Vec3 α)
    (hp : @b3_contains α 𝔽 b p = true) :
    @b3_contains α 𝔽 (@xfm_bounds α 𝔽 m b) (@xfm_point α 𝔽 m p) = true := by
  rw [b3_contains_iffF] at hp ⊢
  obtain ⟨⟨x1, y1, z1⟩, x2, y2, z2⟩ := hp
  simp only [gen_simp, Vec3.le]
  simp only [min_le_iff, le_max_iff]
  refine ⟨⟨?_, ?_, ?_⟩, ?_, ?_, ?_⟩
  · rcases mul_between m.l.vx.x b.lower.x p.x b.upper.x x1 x2 with ⟨a1, a2⟩ | ⟨a1, a2⟩ <;>
    rcases mul_between m.l.vy.x b.lower.y p.y b.upper.y y1 y2 with ⟨b1, b2⟩ | ⟨b1, b2⟩ <;>
    rcases mul_between m.l.vz.x b.lower.z p.z b.upper.z z1 z2 with ⟨c1, c2⟩ | ⟨c1, c2⟩ <;>
    pick_disj
  · rcases mul_between m.l.vx.y b.lower.x p.x b.upper.x x1 x2 with ⟨a1, a2⟩ | ⟨a1, a2⟩ <;>
    rcases mul_between m.l.vy.y b.lower.y p.y b.upper.y y1 y2 with ⟨b1, b2⟩ | ⟨b1, b2⟩ <;>
    rcases mul_between m.l.vz.y b.lower.z p.z b.upper.z z1 z2 with ⟨c1, c2⟩ | ⟨c1, c2⟩ <;>
    pick_disj
  · rcases mul_between m.l.vx.z b.lower.x p.x b.upper.x x1 x2 with ⟨a1, a2⟩ | ⟨a1, a2⟩ <;>
    rcases mul_between m.l.vy.z b.lower.y p.y b.upper.y y1 y2 with ⟨b1, b2⟩ | ⟨b1, b2⟩ <;>
    rcases mul_between m.l.vz.z b.lower.z p.z b.upper.z z1 z2 with ⟨c1, c2⟩ | ⟨c1, c2⟩ <;>
    pick_disj
  · rcases mul_between m.l.vx.x b.lower.x p.x b.upper.x x1 x2 with ⟨a1, a2⟩ | ⟨a1, a2⟩ <;>
    rcases mul_between m.l.vy.x b.lower.y p.y b.upper.y y1 y2 with ⟨b1, b2⟩ | ⟨b1, b2⟩ <;>
    rcases mul_between m.l.vz.x b.lower.z p.z b.upper.z z1 z2 with ⟨c1, c2⟩ | ⟨c1, c2⟩ <;>
    pick_disj
  · rcases mul_between m.l.vx.y b.lower.x p.x b.upper.x x1 x2 with ⟨a1, a2⟩ | ⟨a1, a2⟩ <;>
    rcases mul_between m.l.vy.y b.lower.y p.y b.upper.y y1 y2 with ⟨b1, b2⟩ | ⟨b1, b2⟩ <;>
    rcases mul_between m.l.vz.y b.lower.z p.z b.upper.z z1 z2 with ⟨c1, c2⟩ | ⟨c1, c2⟩ <;>
    pick_disj
  · rcases mul_between m.l.vx.z b.lower.x p.x b.upper.x x1 x2 with ⟨a1, a2⟩ | ⟨a1, a2⟩ <;>
    rcases mul_between m.l.vy.z b.lower.y p.y b.upper.y y1 y2 with ⟨b1, b2⟩ | ⟨b1, b2⟩ <;>
    rcases mul_between m.l.vz.z b.lower.z p.z b.upper.z z1 z2 with ⟨c1, c2⟩ | ⟨c1, c2⟩ <;>
    pick_disj

/-! ### intersectRayBox covers exactly the ray parameters whose points lie inside the box -/

/-- one axis of the slab test -/
theorem axis_iff (lo up o d t : α) (hd : d ≠ 0) (h : lo ≤ up) :
    (min ((lo - o) * (1 / d)) ((up - o) * (1 / d)) ≤ t ∧ t ≤ max ((lo - o) * (1 / d)) ((up - o) * (1 / d))) ↔
      (lo ≤ o + t * d ∧ o + t * d ≤ up) := by
  rcases lt_or_gt_of_ne hd with hneg | hpos
  · have e1 : (up - o) * (1 / d) ≤ (lo - o) * (1 / d) := by
      apply mul_le_mul_of_nonpos_right (by linarith); simp; exact le_of_lt hneg
    rw [min_eq_right e1, max_eq_left e1, mul_one_div, mul_one_div, div_le_iff_of_neg hneg, le_div_iff_of_neg hneg]
    constructor <;> rintro ⟨a, b⟩ <;> constructor <;> linarith
  · have e1 : (lo - o) * (1 / d) ≤ (up - o) * (1 / d) := by
      apply mul_le_mul_of_nonneg_right (by linarith); simp; exact le_of_lt hpos
    rw [min_eq_left e1, max_eq_right e1, mul_one_div, mul_one_div, div_le_iff₀ hpos, le_div_iff₀ hpos]
    constructor <;> rintro ⟨a, b⟩ <;> constructor <;> linarith

/-- `rcp_safe` is the exact reciprocal away from zero (NO_SIMD definition `1/x`; the SIMD
    Newton–Raphson variant is the subject of C07) … -/
theorem rcp_safe_eq (x : α) (hx : fmin ≤ |x|) : @rcp_safe_S α 𝔽 x = 1 / x := by
  simp only [gen_simp, ofField_ofScientific, ofField_abs, ofField_fltMin]
  have : ¬ (|x| < fmin) := not_lt.mpr hx
  simp only [this, decide_false, Bool.false_eq_true, ↓reduceIte]
  norm_num
/-- … and ±1/FLT_MIN for arguments of smaller magnitude (zeros, denormals): finite, sign of `x`. -/
theorem rcp_safe_small (x : α) (hx : |x| < fmin) :
    @rcp_safe_S α 𝔽 x = if 0 ≤ x then 1 / fmin else 1 / (-fmin) := by
  simp only [gen_simp, ofField_ofScientific, ofField_abs, ofField_fltMin]
  simp only [hx, decide_true, ↓reduceIte]
  norm_num
  split <;> simp_all

/-- rayBox_iff (3D): for a direction with no component of magnitude below FLT_MIN and a box that is
    not inverted, the returned interval contains `t` exactly when the ray point `org + t·dir`
    lies in the box and `t` lies in the given parameter range (exact arithmetic; the float code
    is within rounding of this, which the correspondence check measures). -/
theorem rayBox3_iff (org dir : Vec3 α) (box : Box3 α) (tr : Range1 α) (t : α) (hf : 0 < fmin)
    (hx : fmin ≤ |dir.x|) (hy : fmin ≤ |dir.y|) (hz : fmin ≤ |dir.z|)
    (hb : box.lower.x ≤ box.upper.x ∧ box.lower.y ≤ box.upper.y ∧ box.lower.z ≤ box.upper.z) :
    @r1_contains α 𝔽 (@ray_box3 α 𝔽 org dir box tr) t = true ↔
      (@b3_contains α 𝔽 box ⟨org.x + t * dir.x, org.y + t * dir.y, org.z + t * dir.z⟩ = true ∧
       @r1_contains α 𝔽 tr t = true) := by
  rw [r1_contains_iffF, r1_contains_iffF, b3_contains_iffF]
  have dx : dir.x ≠ 0 := by intro e; rw [e, abs_zero] at hx; linarith
  have dy : dir.y ≠ 0 := by intro e; rw [e, abs_zero] at hy; linarith
  have dz : dir.z ≠ 0 := by intro e; rw [e, abs_zero] at hz; linarith
  have ax := axis_iff box.lower.x box.upper.x org.x dir.x t dx hb.1
  have ay := axis_iff box.lower.y box.upper.y org.y dir.y t dy hb.2.1
  have az := axis_iff box.lower.z box.upper.z org.z dir.z t dz hb.2.2
  have rx := rcp_safe_eq top fmin dir.x hx
  have ry := rcp_safe_eq top fmin dir.y hy
  have rz := rcp_safe_eq top fmin dir.z hz
  simp only [ray_box3, intersectRayBox_Vec3_Vec3_Box3_Range1, rcp_safe_Vec3, rx, ry, rz]
  simp only [gen_simp, Vec3.le, max_le_iff, le_min_iff]
  constructor
  · rintro ⟨⟨⟨a1, a2⟩, a3, a4⟩, ⟨b1, b2⟩, b3, b4⟩
    have e1 := ax.mp ⟨a1, b1⟩; have e2 := ay.mp ⟨a2, b2⟩; have e3 := az.mp ⟨a3, b3⟩
    exact ⟨⟨⟨e1.1, e2.1, e3.1⟩, e1.2, e2.2, e3.2⟩, a4, b4⟩
  · rintro ⟨⟨⟨a1, a2, a3⟩, b1, b2, b3⟩, c1, c2⟩
    have e1 := ax.mpr ⟨a1, b1⟩; have e2 := ay.mpr ⟨a2, b2⟩; have e3 := az.mpr ⟨a3, b3⟩
    exact ⟨⟨⟨e1.1, e2.1⟩, e3.1, c1⟩, ⟨e1.2, e2.2⟩, e3.2, c2⟩

/-- rayBox_iff (2D). -/
theorem rayBox2_iff (org dir : Vec2 α) (box : Box2 α) (tr : Range1 α) (t : α) (hf : 0 < fmin)
    (hx : fmin ≤ |dir.x|) (hy : fmin ≤ |dir.y|)
    (hb : box.lower.x ≤ box.upper.x ∧ box.lower.y ≤ box.upper.y) :
    @r1_contains α 𝔽 (@ray_box2 α 𝔽 org dir box tr) t = true ↔
      (@b2_contains α 𝔽 box ⟨org.x + t * dir.x, org.y + t * dir.y⟩ = true ∧
       @r1_contains α 𝔽 tr t = true) := by
  rw [r1_contains_iffF, r1_contains_iffF, b2_contains_iffF]
  have dx : dir.x ≠ 0 := by intro e; rw [e, abs_zero] at hx; linarith
  have dy : dir.y ≠ 0 := by intro e; rw [e, abs_zero] at hy; linarith
  have ax := axis_iff box.lower.x box.upper.x org.x dir.x t dx hb.1
  have ay := axis_iff box.lower.y box.upper.y org.y dir.y t dy hb.2
  have rx := rcp_safe_eq top fmin dir.x hx
  have ry := rcp_safe_eq top fmin dir.y hy
  simp only [ray_box2, intersectRayBox_Vec2_Vec2_Box2_Range1, rcp_safe_Vec2, rx, ry]
  simp only [gen_simp, Vec2.le, max_le_iff, le_min_iff]
  constructor
  · rintro ⟨⟨⟨a1, a2⟩, a4⟩, ⟨b1, b2⟩, b4⟩
    have e1 := ax.mp ⟨a1, b1⟩; have e2 := ay.mp ⟨a2, b2⟩
    exact ⟨⟨⟨e1.1, e2.1⟩, e1.2, e2.2⟩, a4, b4⟩
  · rintro ⟨⟨⟨a1, a2⟩, b1, b2⟩, c1, c2⟩
    have e1 := ax.mpr ⟨a1, b1⟩; have e2 := ay.mpr ⟨a2, b2⟩
    exact ⟨⟨⟨e1.1, e2.1⟩, c1⟩, ⟨e1.2, e2.2⟩, c2⟩

/-! ### axis-parallel rays (a direction component of magnitude < FLT_MIN): the code substitutes ±1/FLT_MIN for the
    reciprocal; the statement then needs a bound on |t| relative to the distance of the origin from the slab faces -/

/-- what the slab test needs of one axis: either the direction component is not tiny, or (axis-parallel ray) the origin
    is strictly inside the slab with `|t|·FLT_MIN` at most the distance to the nearer face, or strictly outside with
    `|t|·FLT_MIN` below the distance to the slab. (Not covered: origin exactly in a face plane — see the witness below.) -/
def AxisOK (lo up o d t : α) : Prop :=
  fmin ≤ |d| ∨ (|d| < fmin ∧
    ((lo < o ∧ o < up ∧ |t| * fmin ≤ o - lo ∧ |t| * fmin ≤ up - o) ∨ (o < lo ∧ |t| * fmin < lo - o) ∨
     (up < o ∧ |t| * fmin < o - up)))

/-- one axis of the slab test, with the reciprocal the code uses (`rcp_safe`), axis-parallel rays included -/
theorem axis_iff_safe (lo up o d t : α) (hf : 0 < fmin) (h : lo ≤ up) (hc : AxisOK fmin lo up o d t) :
    (min ((lo - o) * @rcp_safe_S α 𝔽 d) ((up - o) * @rcp_safe_S α 𝔽 d) ≤ t ∧
      t ≤ max ((lo - o) * @rcp_safe_S α 𝔽 d) ((up - o) * @rcp_safe_S α 𝔽 d)) ↔
      (lo ≤ o + t * d ∧ o + t * d ≤ up) := by
  rcases hc with hbig | ⟨hsmall, hc⟩
  · have dx : d ≠ 0 := by intro e; rw [e, abs_zero] at hbig; linarith
    rw [rcp_safe_eq top fmin d hbig]
    exact axis_iff lo up o d t dx h
  · rw [rcp_safe_small top fmin d hsmall]
    have htd : |t * d| ≤ |t| * fmin := by
      rw [abs_mul]; exact mul_le_mul_of_nonneg_left (le_of_lt hsmall) (abs_nonneg t)
    have htd1 := (abs_le.mp htd).1
    have htd2 := (abs_le.mp htd).2
    have htf : |t * fmin| = |t| * fmin := by rw [abs_mul, abs_of_pos hf]
    have htf1 : -(|t| * fmin) ≤ t * fmin := by rw [← htf]; exact neg_abs_le _
    have htf2 : t * fmin ≤ |t| * fmin := by rw [← htf]; exact le_abs_self _
    split_ifs with hd0
    · have e1 : (lo - o) * (1 / fmin) ≤ (up - o) * (1 / fmin) := by
        apply mul_le_mul_of_nonneg_right (by linarith); positivity
      rw [min_eq_left e1, max_eq_right e1, mul_one_div, mul_one_div, div_le_iff₀ hf, le_div_iff₀ hf]
      rcases hc with ⟨a, b, c, e⟩ | ⟨a, c⟩ | ⟨a, c⟩
      · exact ⟨fun _ => ⟨by linarith, by linarith⟩, fun _ => ⟨by linarith, by linarith⟩⟩
      · exact ⟨fun ⟨_, q⟩ => absurd q (by intro q; linarith), fun ⟨_, q⟩ => absurd q (by intro q; linarith)⟩
      · exact ⟨fun ⟨_, q⟩ => absurd q (by intro q; linarith), fun ⟨_, q⟩ => absurd q (by intro q; linarith)⟩
    · have hneg : (-fmin) < 0 := by linarith
      have e1 : (up - o) * (1 / (-fmin)) ≤ (lo - o) * (1 / (-fmin)) := by
        apply mul_le_mul_of_nonpos_right (by linarith)
        rw [one_div]; exact le_of_lt (inv_lt_zero.mpr hneg)
      rw [min_eq_right e1, max_eq_left e1, mul_one_div, mul_one_div, div_le_iff_of_neg hneg, le_div_iff_of_neg hneg]
      rcases hc with ⟨a, b, c, e⟩ | ⟨a, c⟩ | ⟨a, c⟩
      · exact ⟨fun _ => ⟨by linarith, by linarith⟩, fun _ => ⟨by linarith, by linarith⟩⟩
      · exact ⟨fun ⟨p, q⟩ => by exfalso; linarith, fun ⟨p, q⟩ => by exfalso; linarith⟩
      · exact ⟨fun ⟨p, q⟩ => by exfalso; linarith, fun ⟨p, q⟩ => by exfalso; linarith⟩

/-- **rayBox_iff, axis-parallel rays included (3D)**: for a box that is not inverted and every axis `AxisOK`
    (regular direction component, or a component of magnitude below FLT_MIN with the origin strictly inside /
    strictly outside the slab and `|t|·FLT_MIN` within the margin), the returned interval contains `t`
    exactly when `org + t·dir` lies in the box and `t` in the given range. -/
theorem rayBox3_iff_axis_parallel (org dir : Vec3 α) (box : Box3 α) (tr : Range1 α) (t : α) (hf : 0 < fmin)
    (hx : AxisOK fmin box.lower.x box.upper.x org.x dir.x t) (hy : AxisOK fmin box.lower.y box.upper.y org.y dir.y t)
    (hz : AxisOK fmin box.lower.z box.upper.z org.z dir.z t)
    (hb : box.lower.x ≤ box.upper.x ∧ box.lower.y ≤ box.upper.y ∧ box.lower.z ≤ box.upper.z) :
    @r1_contains α 𝔽 (@ray_box3 α 𝔽 org dir box tr) t = true ↔
      (@b3_contains α 𝔽 box ⟨org.x + t * dir.x, org.y + t * dir.y, org.z + t * dir.z⟩ = true ∧
       @r1_contains α 𝔽 tr t = true) := by
  rw [r1_contains_iffF, r1_contains_iffF, b3_contains_iffF]
  have ax := axis_iff_safe top fmin box.lower.x box.upper.x org.x dir.x t hf hb.1 hx
  have ay := axis_iff_safe top fmin box.lower.y box.upper.y org.y dir.y t hf hb.2.1 hy
  have az := axis_iff_safe top fmin box.lower.z box.upper.z org.z dir.z t hf hb.2.2 hz
  simp only [ray_box3, intersectRayBox_Vec3_Vec3_Box3_Range1, rcp_safe_Vec3]
  generalize @rcp_safe_S α 𝔽 dir.x = Rx at ax ⊢
  generalize @rcp_safe_S α 𝔽 dir.y = Ry at ay ⊢
  generalize @rcp_safe_S α 𝔽 dir.z = Rz at az ⊢
  simp only [gen_simp, Vec3.le, max_le_iff, le_min_iff]
  constructor
  · rintro ⟨⟨⟨a1, a2⟩, a3, a4⟩, ⟨b1, b2⟩, b3, b4⟩
    have e1 := ax.mp ⟨a1, b1⟩; have e2 := ay.mp ⟨a2, b2⟩; have e3 := az.mp ⟨a3, b3⟩
    exact ⟨⟨⟨e1.1, e2.1, e3.1⟩, e1.2, e2.2, e3.2⟩, a4, b4⟩
  · rintro ⟨⟨⟨a1, a2, a3⟩, b1, b2, b3⟩, c1, c2⟩
    have e1 := ax.mpr ⟨a1, b1⟩; have e2 := ay.mpr ⟨a2, b2⟩; have e3 := az.mpr ⟨a3, b3⟩
    exact ⟨⟨⟨e1.1, e2.1⟩, e3.1, c1⟩, ⟨e1.2, e2.2⟩, e3.2, c2⟩

/-- the same in 2D -/
theorem rayBox2_iff_axis_parallel (org dir : Vec2 α) (box : Box2 α) (tr : Range1 α) (t : α) (hf : 0 < fmin)
    (hx : AxisOK fmin box.lower.x box.upper.x org.x dir.x t) (hy : AxisOK fmin box.lower.y box.upper.y org.y dir.y t)
    (hb : box.lower.x ≤ box.upper.x ∧ box.lower.y ≤ box.upper.y) :
    @r1_contains α 𝔽 (@ray_box2 α 𝔽 org dir box tr) t = true ↔
      (@b2_contains α 𝔽 box ⟨org.x + t * dir.x, org.y + t * dir.y⟩ = true ∧
       @r1_contains α 𝔽 tr t = true) := by
  rw [r1_contains_iffF, r1_contains_iffF, b2_contains_iffF]
  have ax := axis_iff_safe top fmin box.lower.x box.upper.x org.x dir.x t hf hb.1 hx
  have ay := axis_iff_safe top fmin box.lower.y box.upper.y org.y dir.y t hf hb.2 hy
  simp only [ray_box2, intersectRayBox_Vec2_Vec2_Box2_Range1, rcp_safe_Vec2]
  generalize @rcp_safe_S α 𝔽 dir.x = Rx at ax ⊢
  generalize @rcp_safe_S α 𝔽 dir.y = Ry at ay ⊢
  simp only [gen_simp, Vec2.le, max_le_iff, le_min_iff]
  constructor
  · rintro ⟨⟨⟨a1, a2⟩, a4⟩, ⟨b1, b2⟩, b4⟩
    have e1 := ax.mp ⟨a1, b1⟩; have e2 := ay.mp ⟨a2, b2⟩
    exact ⟨⟨⟨e1.1, e2.1⟩, e1.2, e2.2⟩, a4, b4⟩
  · rintro ⟨⟨⟨a1, a2⟩, b1, b2⟩, c1, c2⟩
    have e1 := ax.mpr ⟨a1, b1⟩; have e2 := ay.mpr ⟨a2, b2⟩
    exact ⟨⟨⟨e1.1, e2.1⟩, c1⟩, ⟨e1.2, e2.2⟩, c2⟩
end field

/-- **The excluded case is a genuine failure of the full statement (known finding C05-raybox-axis-parallel-on-face).**
    Unit box, ray along +z starting at (1, 1/2, 0) — in the plane of the upper x face, so every point (1, 1/2, t),
    0 ≤ t ≤ 1, is inside the (closed) box — but the x slab computed with `rcp_safe(0) = 1/FLT_MIN` is
    `[-1/FLT_MIN, 0]`, so the returned interval is `[0, 0]` and t = 1/2 is not covered. -/
theorem rayBox_axis_parallel_on_face_witness :
    let F : CNum ℚ := CNum.ofField ℚ 1000000 (1 / 1024)
    @r1_contains ℚ F (@ray_box3 ℚ F ⟨1, 1/2, 0⟩ ⟨0, 0, 1⟩ ⟨⟨0, 0, 0⟩, ⟨1, 1, 1⟩⟩ ⟨0, 10⟩) (1/2) = false ∧
    @b3_contains ℚ F ⟨⟨0, 0, 0⟩, ⟨1, 1, 1⟩⟩ ⟨1 + (1/2) * 0, 1/2 + (1/2) * 0, 0 + (1/2) * 1⟩ = true := by
  intro F
  constructor
  · rw [Bool.eq_false_iff, Ne, r1_contains_iffF]
    simp only [gen_simp, ofField_ofScientific, ofField_abs, ofField_fltMin, ofField_ofNat]
    norm_num
  · rw [b3_contains_iffF]
    simp only [Vec3.le]
    norm_num

/-- the hypotheses of the axis-parallel theorem are satisfiable: the same ray moved strictly inside (x = 3/4) -/
example : AxisOK (1 / 1024 : ℚ) 0 1 (3/4) 0 (1/2) := by
  right; refine ⟨by norm_num, Or.inl ⟨by norm_num, by norm_num, by norm_num, by norm_num⟩⟩

/-! ## the full "intersection empty ⇔ disjoint" statement is false of the code (known finding) -/
section witness
attribute [local instance] CNum.ofBoundedOrder
/-- box `a` = intersectionOf([0,1]³,[2,3]³) = [2,1]³ has no points, yet `disjoint(a, [0,5]³)` is
    false while `intersectionOf(a, [0,5]³)` is empty. -/
theorem inter_empty_iff_disjoint_full_is_false :
    ∃ a b : Box3 (Fin 6), b3_empty (b3_inter a b) ≠ b3_disjoint a b :=
  ⟨⟨⟨2,2,2⟩,⟨1,1,1⟩⟩, ⟨⟨0,0,0⟩,⟨5,5,5⟩⟩, by decide⟩

/-! ## non-vacuity: hypotheses of the theorems above are met by concrete boxes -/
example : b3_inter (⟨⟨0,0,0⟩,⟨1,1,1⟩⟩ : Box3 (Fin 6)) ⟨⟨2,2,2⟩,⟨3,3,3⟩⟩ = ⟨⟨2,2,2⟩,⟨1,1,1⟩⟩ := by decide
example : b3_empty (⟨⟨0,0,0⟩,⟨1,1,1⟩⟩ : Box3 (Fin 6)) = false ∧ b3_empty (⟨⟨2,2,2⟩,⟨3,3,3⟩⟩ : Box3 (Fin 6)) = false := by decide
example : b3_contains (⟨⟨0,1,2⟩,⟨3,4,5⟩⟩ : Box3 (Fin 6)) ⟨3,1,5⟩ = true := by decide
example : (⊥ : Fin 6) ≠ ⊤ := by decide
end witness

end RkVerif.C05
