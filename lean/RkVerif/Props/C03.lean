/-
Property C03 — AsyncLoop honours its start/stop/destroy protocol on every interleaving.
Property theorems only (model: Model/C03.lean, certificates: Gen/C03Reach.lean, helpers: Lemmas/C03.lean).
Every theorem declared in this module is an audited proof obligation of the check.

`Reachable c s` quantifies over executions of *any length*, every interleaving of the loop thread with the
controlling thread at the granularity of single shared-memory accesses, every sequence of calls over
{start, stop, ~AsyncLoop} (the controller may call anything whenever it is idle, so repeated and redundant
calls are included), spurious wake-ups of the condition variable, and both launch methods (`c.thread`).
`c.fixed = true` is the code after fixes/C03-stop-race.patch; `c.fixed = false` is the pinned code, for
which stop_safety is *refuted* below.
-/
import RkVerif.Lemmas.C03

namespace RkVerif.C03

def cT : Cfg := ⟨true, true⟩    -- fixed code, THREAD launch (destructor joins)
def cK : Cfg := ⟨true, false⟩   -- fixed code, TASK launch (no join)

/-! ## Certificates: the generated lists are closed under `step` (kernel-checked) -/

theorem reachT_sub : ∀ s, Reachable cT s → s ∈ reachFixedThread :=
  reach_sub cT reachFixedThread (maskOf reachFixedThread) rfl (by decide +kernel) (by decide +kernel)

theorem reachK_sub : ∀ s, Reachable cK s → s ∈ reachFixedTask :=
  reach_sub cK reachFixedTask (maskOf reachFixedTask) rfl (by decide +kernel) (by decide +kernel)

/-- invariants: a Boolean predicate that holds on the whole certificate list holds on every reachable state -/
theorem invT (P : State → Bool) (h : reachFixedThread.all P = true) : ∀ s, Reachable cT s → P s = true :=
  fun s hs => (List.all_eq_true.mp h) s (reachT_sub s hs)
theorem invK (P : State → Bool) (h : reachFixedTask.all P = true) : ∀ s, Reachable cK s → P s = true :=
  fun s hs => (List.all_eq_true.mp h) s (reachK_sub s hs)

theorem cfg_cases (c : Cfg) (hf : c.fixed = true) : c = cT ∨ c = cK := by
  obtain ⟨f, t⟩ := c
  cases t <;> simp_all [cT, cK]

/-! ## stop_safety -/

def safeB (s : State) : Bool := !(s.stopped && s.bodyRunning)

/-- **stop_safety.**  In every reachable state of the fixed code: if stop() has returned and start() has not
    been called since, no body invocation is executing. -/
theorem stop_safety (c : Cfg) (hf : c.fixed = true) (s : State) (hs : Reachable c s) :
    ¬ (s.stopped = true ∧ s.bodyRunning = true) := by
  have h : safeB s = true := by
    rcases cfg_cases c hf with rfl | rfl
    · exact invT safeB (by decide +kernel) s hs
    · exact invK safeB (by decide +kernel) s hs
  intro ⟨h1, h2⟩
  simp [safeB, h1, h2] at h

def noEntryB (c : Cfg) (s : State) : Bool := !s.stopped || (step c s).all (fun t => !t.bodyRunning)

/-- **stop_safety, entry form.**  While `stopped`, no step of any thread leads into the body: the body does not
    begin executing again until start() is next called. -/
theorem no_body_entry_while_stopped (c : Cfg) (hf : c.fixed = true) (s : State) (hs : Reachable c s)
    (hst : s.stopped = true) : ∀ t ∈ step c s, t.bodyRunning = false := by
  have h : noEntryB c s = true := by
    rcases cfg_cases c hf with rfl | rfl
    · exact invT (noEntryB cT) (by decide +kernel) s hs
    · exact invK (noEntryB cK) (by decide +kernel) s hs
  simp only [noEntryB, hst, Bool.not_true, Bool.false_or, List.all_eq_true] at h
  intro t ht
  simpa using h t ht

/-- The pinned code (before the fix) violates stop_safety: a concrete 15-step execution reaches a state in
    which stop() has returned and the body is executing (both launch methods). -/
theorem stop_safety_fails_on_original (thread : Bool) :
    ∃ s, Reachable ⟨false, thread⟩ s ∧ s.stopped = true ∧ s.bodyRunning = true := by
  refine ⟨⟨.body,.idle,true,false,true,.free,true,false⟩, ?_, rfl, rfl⟩
  cases thread
  · exact reach_of_path _ init .init witnessOrig (by decide +kernel) _ (by decide +kernel)
  · exact reach_of_path _ init .init witnessOrig (by decide +kernel) _ (by decide +kernel)

/-! ## no_lost_wakeup -/

/-- the loop thread, run alone for at most `k` of its own steps, is inside the body -/
def entersWithin (c : Cfg) : Nat → State → Bool
  | 0, s => s.bodyRunning
  | k + 1, s => s.bodyRunning || (match loopStep c s with | some t => entersWithin c k t | none => false)

/-- explicit bound on the number of loop-thread steps -/
def K : Nat := 10

def wakeB (c : Cfg) (s : State) : Bool :=
  !(s.cpc == .idle && s.running && s.alive) || (entersWithin c K s && s.lpc != .waiting)

/-- **no_lost_wakeup.**  In every reachable state in which the controller is idle, `shouldBeRunning` is set and
    the loop is alive, the loop thread run alone enters the body within `K = 10` of its own steps, and it is not
    blocked in `wait` (a notify is outstanding whenever it sleeps with the flag set). -/
theorem no_lost_wakeup (c : Cfg) (hf : c.fixed = true) (s : State) (hs : Reachable c s)
    (hidle : s.cpc = .idle) (hrun : s.running = true) (halive : s.alive = true) :
    entersWithin c K s = true ∧ s.lpc ≠ .waiting := by
  have h : wakeB c s = true := by
    rcases cfg_cases c hf with rfl | rfl
    · exact invT (wakeB cT) (by decide +kernel) s hs
    · exact invK (wakeB cK) (by decide +kernel) s hs
  simpa [wakeB, hidle, hrun, halive] using h

def startedB (s : State) : Bool := !s.started || (s.cpc == .idle && s.running && s.alive)

/-- After start() has returned (and until the next call) the flags are set … -/
theorem started_flags (c : Cfg) (hf : c.fixed = true) (s : State) (hs : Reachable c s) (hst : s.started = true) :
    s.cpc = .idle ∧ s.running = true ∧ s.alive = true := by
  have h : startedB s = true := by
    rcases cfg_cases c hf with rfl | rfl
    · exact invT startedB (by decide +kernel) s hs
    · exact invK startedB (by decide +kernel) s hs
  simpa [startedB, hst, and_assoc] using h

/-- … hence: **after start() returns the body is executed again within K loop-thread steps.** -/
theorem body_runs_after_start (c : Cfg) (hf : c.fixed = true) (s : State) (hs : Reachable c s)
    (hst : s.started = true) : entersWithin c K s = true := by
  obtain ⟨h1, h2, h3⟩ := started_flags c hf s hs hst
  exact (no_lost_wakeup c hf s hs h1 h2 h3).1

/-! ## destroy_terminates (and termination of start() and stop()) -/

/-- **destroy_terminates.**  Take any execution `σ` (without further spurious wake-ups) that starts in a
    reachable state in which the destructor is in progress, in which each step is a step of thread `τ i`, and
    which is weakly fair (a thread that stays enabled eventually moves — this includes "the body returns" and
    "the mutex is eventually granted").  Then the destructor returns.  Both launch methods. -/
theorem destroy_terminates (c : Cfg) (hf : c.fixed = true) (σ : Nat → State) (τ : Nat → Thread)
    (h0 : Reachable c (σ 0)) (hd : (σ 0).cpc.inDtor = true)
    (hstep : ∀ i, (σ i).cpc.isDead = true ∨ (τ i, σ (i + 1)) ∈ stepNS c (σ i))
    (hfair : ∀ i t, ∃ j, i ≤ j ∧ (τ j = t ∨ enabled c t (σ j) = false ∨ (σ j).cpc.isDead = true)) :
    ∃ n, (σ n).cpc.isDead = true := by
  rcases cfg_cases c hf with rfl | rfl
  · exact fair_term cT reachFixedThread rankDtorFixedThread CPc.inDtor CPc.isDead reachT_sub (by decide +kernel)
      σ τ h0 hd hstep hfair
  · exact fair_term cK reachFixedTask rankDtorFixedTask CPc.inDtor CPc.isDead reachK_sub (by decide +kernel)
      σ τ h0 hd hstep hfair

/-- stop() returns under the same fairness assumption: its spin on `insideLoopBody` terminates (also with the
    repaired publication order). -/
theorem stop_terminates (c : Cfg) (hf : c.fixed = true) (σ : Nat → State) (τ : Nat → Thread)
    (h0 : Reachable c (σ 0)) (hd : (σ 0).cpc.inStop = true)
    (hstep : ∀ i, (σ i).cpc.isIdle = true ∨ (τ i, σ (i + 1)) ∈ stepNS c (σ i))
    (hfair : ∀ i t, ∃ j, i ≤ j ∧ (τ j = t ∨ enabled c t (σ j) = false ∨ (σ j).cpc.isIdle = true)) :
    ∃ n, (σ n).cpc.isIdle = true := by
  rcases cfg_cases c hf with rfl | rfl
  · exact fair_term cT reachFixedThread rankStopFixedThread CPc.inStop CPc.isIdle reachT_sub (by decide +kernel)
      σ τ h0 hd hstep hfair
  · exact fair_term cK reachFixedTask rankStopFixedTask CPc.inStop CPc.isIdle reachK_sub (by decide +kernel)
      σ τ h0 hd hstep hfair

/-- start() returns under the same fairness assumption. -/
theorem start_terminates (c : Cfg) (hf : c.fixed = true) (σ : Nat → State) (τ : Nat → Thread)
    (h0 : Reachable c (σ 0)) (hd : (σ 0).cpc.inStart = true)
    (hstep : ∀ i, (σ i).cpc.isIdle = true ∨ (τ i, σ (i + 1)) ∈ stepNS c (σ i))
    (hfair : ∀ i t, ∃ j, i ≤ j ∧ (τ j = t ∨ enabled c t (σ j) = false ∨ (σ j).cpc.isIdle = true)) :
    ∃ n, (σ n).cpc.isIdle = true := by
  rcases cfg_cases c hf with rfl | rfl
  · exact fair_term cT reachFixedThread rankStartFixedThread CPc.inStart CPc.isIdle reachT_sub (by decide +kernel)
      σ τ h0 hd hstep hfair
  · exact fair_term cK reachFixedTask rankStartFixedTask CPc.inStart CPc.isIdle reachK_sub (by decide +kernel)
      σ τ h0 hd hstep hfair

def deadB (s : State) : Bool := !s.destroyed || (s.lpc == .exited)

/-- **destroy, THREAD launch.**  Once the destructor has returned the loop thread has exited: no body invocation
    is running … -/
theorem destroyed_thread_exited (s : State) (hs : Reachable cT s) (hd : s.destroyed = true) :
    s.lpc = .exited ∧ s.bodyRunning = false := by
  have h := invT deadB (by decide +kernel) s hs
  have h1 : s.lpc = .exited := by simpa [deadB, hd] using h
  exact ⟨h1, by simp [State.bodyRunning, h1]⟩

/-- … and none begins afterwards (no step of any thread leads into the body; in fact no step exists). -/
theorem destroyed_thread_no_later_entry (s : State) (hs : Reachable cT s) (hd : s.destroyed = true) :
    ∀ t ∈ step cT s, t.bodyRunning = false := by
  have h := invT (fun s => !s.destroyed || (step cT s).all (fun t => !t.bodyRunning)) (by decide +kernel) s hs
  simp only [hd, Bool.not_true, Bool.false_or, List.all_eq_true] at h
  intro t ht
  simpa using h t ht

/-! ## Non-vacuity: the hypotheses above are satisfiable (explicit executions of the fixed model) -/

/-- a reachable state with `stopped` set, the controller idle and the loop asleep -/
example : ∃ s, Reachable cT s ∧ s.stopped = true ∧ s.cpc = .idle ∧ s.lpc = .waiting :=
  ⟨⟨.waiting,.idle,true,false,false,.free,true,false⟩,
   reach_of_path _ init .init pathStoppedBodyDone (by decide +kernel) _ (by decide +kernel), rfl, rfl, rfl⟩

/-- a reachable state after start() returned with the body running -/
example : ∃ s, Reachable cT s ∧ s.started = true ∧ s.bodyRunning = true :=
  ⟨_, reach_of_path _ init .init pathStartedBody (by decide +kernel) (pathStartedBody.getLast (by decide))
        (List.getLast_mem _), by decide +kernel, by decide +kernel⟩

/-- start() can return while the loop thread is still asleep but notified (so no_lost_wakeup is not trivial) -/
example : ∃ s, Reachable cT s ∧ s.started = true ∧ s.lpc = .woken :=
  ⟨_, reach_of_path _ init .init pathRestart (by decide +kernel) (pathRestart.getLast (by decide))
        (List.getLast_mem _), by decide +kernel, by decide +kernel⟩

/-- the destructor can return (THREAD) -/
example : ∃ s, Reachable cT s ∧ s.destroyed = true :=
  ⟨_, reach_of_path _ init .init pathDeadThread (by decide +kernel) (pathDeadThread.getLast (by decide))
        (List.getLast_mem _), by decide +kernel⟩

/-- TASK launch: the destructor may return while a body invocation is still running (the property only
    requires quiescence when the loop owns its thread) — so `destroyed_thread_exited` is specific to THREAD. -/
example : ∃ s, Reachable cK s ∧ s.destroyed = true ∧ s.bodyRunning = true :=
  ⟨_, reach_of_path _ init .init pathDeadTaskBody (by decide +kernel) (pathDeadTaskBody.getLast (by decide))
        (List.getLast_mem _), by decide +kernel, by decide +kernel⟩

/-- destructor-in-progress states are reachable (hypothesis of destroy_terminates) -/
example : ∃ s, Reachable cT s ∧ s.cpc.inDtor = true :=
  ⟨_, reach_of_path _ init .init [⟨.top,.d0,true,false,false,.free,false,false⟩] (by decide +kernel) _
        (List.mem_singleton.mpr rfl), rfl⟩

end RkVerif.C03
