/-
C01 — parallel loops run every index exactly once and join before returning.

Property theorems only (model: Model/C01.lean; helpers: Lemmas/C01.lean, C01Pipe.lean, C01Blocks.lean).
Every theorem declared in this module is an audited proof obligation of the check.

PARTIAL: what is proved is about the model of rkcommon's own code (block arithmetic, serial loops,
the Internal backend's chunking, index conversions and the enkiTS task-set path, the pipe's flag
protocol) under sequential consistency.  That tbb::parallel_for and `#pragma omp parallel for`
run each index once and join, and that the effects are visible under the C++ memory model, is
observed by the harness on every run, not proved.
-/
import RkVerif.Lemmas.C01
import RkVerif.Lemmas.C01Pipe
import RkVerif.Lemmas.C01Blocks
import RkVerif.Lemmas.C01Live
import RkVerif.Gen.C01Table
namespace RkVerif.C01

/-! ### §1 block arithmetic of parallel_in_blocks_of -/

/-- For every accepted index type, every `nTasks` that type can hold and every block size an `int`
    template argument can be (> 0): no step of the block arithmetic overflows or wraps (the result is
    `some`), there are no blocks for `nTasks ≤ 0`, and for `nTasks > 0` the blocks handed to `fcn`
    (blockID order) start at 0, are consecutive, non-empty, at most `bs` long, and end at `nTasks`.
    No overflow side condition is left after the fix. -/
theorem blocks_partition (name : String) (T : CTy) (hT : (name, T) ∈ indexTypes) (n bs : Int)
    (hn : T.inRange n) (hbs : 0 < bs) (hbs2 : bs ≤ 2 ^ 31 - 1) :
    ∃ L, blocks T n bs = some L ∧ (n ≤ 0 → L = []) ∧ (0 < n → chainFrom bs n 0 L) :=
  blocks_chain T (fits_of_mem name T hT) n bs hn hbs hbs2

/-- … hence every index of `[0, nTasks)` lies in exactly one block and no other integer lies in any. -/
theorem blocks_cover (name : String) (T : CTy) (hT : (name, T) ∈ indexTypes) (n bs : Int)
    (hn : T.inRange n) (hbs : 0 < bs) (hbs2 : bs ≤ 2 ^ 31 - 1) :
    ∃ L, blocks T n bs = some L ∧
      ∀ i : Int, (L.filter fun be => decide (be.1 ≤ i ∧ i < be.2)).length = if 0 ≤ i ∧ i < n then 1 else 0 := by
  obtain ⟨L, hL, h0, hpos⟩ := blocks_partition name T hT n bs hn hbs hbs2
  refine ⟨L, hL, fun i => ?_⟩
  by_cases hp : 0 < n
  · exact (chain_cover bs n L 0 (hpos hp)).2 i
  · rw [h0 (by omega)]
    have : ¬ (0 ≤ i ∧ i < n) := by omega
    rw [if_neg this]
    rfl

/-- the same for unbounded integers: the chain only depends on the mathematical values -/
theorem blocks_partition_math (bs n : Int) (L : List (Int × Int)) (a : Int) (h : chainFrom bs n a L) :
    a ≤ n ∧ ∀ i : Int, (L.filter fun be => decide (be.1 ≤ i ∧ i < be.2)).length = if a ≤ i ∧ i < n then 1 else 0 :=
  chain_cover bs n L a h

example : blocks u8 255 100 = some [(0, 100), (100, 200), (200, 255)] := by decide
example : blocks i32 2147483647 1073741824 = some [(0, 1073741824), (1073741824, 2147483647)] := by decide
example : blocks i16 (-5) 16 = some [] := by decide

/-- Witnesses on the arithmetic as it was before the fix: `(nTasks + BLOCK_SIZE - 1)` is undefined
    behaviour (signed overflow) for `parallel_in_blocks_of<16>(INT_MAX, …)`, and wraps to 0 blocks
    for an `unsigned` count near the maximum. -/
theorem blocks_orig_overflow :
    numBlocksOrig i32 2147483647 16 = none ∧ numBlocksOrig u32 4294967295 1073741824 = some 0 := by
  decide

/-! ### §1 the serial loop (Debug backend, serial_for, the loop OpenMP is given) -/

/-- `for (INDEX_T i = 0; i < nTasks; ++i) fcn(i)` calls `fcn` on 0,…,nTasks-1 in this order, once each,
    and on nothing else – for all 8 index types and every `nTasks` of the type, including negative
    counts and the type's maximum (`++i` never overflows or wraps). -/
theorem serial_exactly_once (name : String) (T : CTy) (hT : (name, T) ∈ indexTypes) (n : Int)
    (hn : T.inRange n) :
    serialLoop T n = some (indexRange n) ∧ (indexRange n).Nodup ∧
      ∀ i : Int, i ∈ indexRange n ↔ 0 ≤ i ∧ i < n := by
  refine ⟨?_, nodup_intsFrom _ _, fun i => ?_⟩
  · have hf := fits_of_mem name T hT
    have hfuel : (n - 0).toNat < 2 ^ T.bits + 1 := by
      simp only [indexTypes, List.mem_cons, Prod.mk.injEq, List.mem_nil_iff, or_false] at hT
      have hn2 := hn.2
      rcases hT with ⟨_, rfl⟩ | ⟨_, rfl⟩ | ⟨_, rfl⟩ | ⟨_, rfl⟩ | ⟨_, rfl⟩ | ⟨_, rfl⟩ | ⟨_, rfl⟩ | ⟨_, rfl⟩ <;>
        simp [CTy.hi, u8, i16, i32, u32, i64, u64] at hn2 ⊢ <;> omega
    have := serialFrom_eq T hf.hbT hf.loT n hn.2 (2 ^ T.bits + 1) 0 (by omega) hfuel
    unfold serialLoop indexRange
    rw [this]
    simp
  · unfold indexRange
    rw [mem_intsFrom]
    omega

example : serialLoop u8 255 = some (indexRange 255) := (serial_exactly_once "u8" u8 (by decide) 255 (by decide)).1
example : serialLoop i16 (-3) = some [] := by decide

/-! ### §1 Internal backend: 32-bit task count, index conversions -/

/-- After the fix the Internal backend hands `parallel_for_internal` task sets whose sizes are in
    `(0, 2^31-1]` (exactly representable as `int` and as `uint32_t`), `first += chunk` does not wrap,
    and – every set calling its body once per partition index – `fcn` receives
    `INDEX_T(first + i)` = 0,…,nTasks-1, each once: the conversion chain is the identity on the whole
    range of every index type (no set at all for `nTasks ≤ 0`). -/
theorem internal_index_roundtrip (name : String) (T : CTy) (hT : (name, T) ∈ indexTypes) (n : Int)
    (hn : T.inRange n) :
    ∃ sets, internalSets n = some sets ∧ (n ≤ 0 → sets = []) ∧
      (∀ fs ∈ sets, 0 < fs.2 ∧ fs.2 ≤ 2 ^ 31 - 1) ∧ internalCalls T n = some (indexRange n) := by
  have hf := fits_of_mem name T hT
  have hu : T.hi ≤ u64.hi := by
    simp only [indexTypes, List.mem_cons, Prod.mk.injEq, List.mem_nil_iff, or_false] at hT
    rcases hT with ⟨_, rfl⟩ | ⟨_, rfl⟩ | ⟨_, rfl⟩ | ⟨_, rfl⟩ | ⟨_, rfl⟩ | ⟨_, rfl⟩ | ⟨_, rfl⟩ | ⟨_, rfl⟩ <;> decide
  have hu64 : u64.hi = 2 ^ 64 - 1 := by decide
  have hu64lo : u64.lo = 0 := by decide
  unfold internalCalls internalSets
  by_cases hp : n > 0
  · have cn : u64.conv n = n := conv_id u64 (by decide) _ ⟨by omega, by have := hn.2; omega⟩
    rw [if_pos hp, cn]
    obtain ⟨L, hL, hsz, hflat⟩ := internalSetsFrom_ok T hf.hbT n hn.2 hu hf.loT (n.toNat + 1) 0
      (by omega) (by omega) (by omega)
    rw [hL]
    refine ⟨L, rfl, fun h => by omega, ?_, ?_⟩
    · intro fs hfs
      have := hsz fs hfs
      unfold maxChunk at this
      omega
    · simp only
      rw [hflat]
      unfold indexRange
      simp
  · rw [if_neg hp]
    refine ⟨[], rfl, fun _ => rfl, by simp, ?_⟩
    unfold indexRange
    have : n.toNat = 0 := by omega
    rw [this]
    rfl

example : internalSets (2 ^ 32 + 5) = some [(0, 2147483647), (2147483647, 2147483647), (4294967294, 7)] := by
  decide

/-- Witnesses on the chain as it was before the fix (`INDEX_T → int → uint32_t`):
    `parallel_for(-1, f)` creates a task set of 2^32-1 indices, `parallel_for(2^32+5, f)` one of 5. -/
theorem internal_orig_truncates : origSetSize (-1) = 4294967295 ∧ origSetSize (2 ^ 32 + 5) = 5 := by
  decide

/-! ### §1 parallel_foreach element addressing -/

/-- After the fix (`begin[i]`): element `i` the body receives is the `i`-th element of the range, for
    every storage layout (any number of contiguous chunks of any lengths). -/
theorem foreach_addresses (sz : Nat) (chunks : List Chunk) (i : Nat) :
    iterAt sz chunks i = (rangeAddrs sz chunks)[i]? :=
  iterAt_eq sz chunks i

/-- Before the fix (`(&*begin)[i]`): right for storage that is one chunk … -/
theorem foreach_addresses_orig_one_chunk (sz : Nat) (c : Chunk) (i : Nat) (hi : i < c.len) :
    ptrAt sz [c] i = (rangeAddrs sz [c])[i]? := by
  have h0 : 0 < c.len := by omega
  simp [ptrAt, iterAt, h0, rangeAddrs, elemAddrs, hi]

/-- … and wrong for a std::deque-like layout (two chunks of 4 elements of 4 bytes that are not adjacent). -/
theorem foreach_addresses_orig_deque_witness :
    ptrAt 4 [⟨1000, 4⟩, ⟨5000, 4⟩] 5 = some 1020 ∧ (rangeAddrs 4 [⟨1000, 4⟩, ⟨5000, 4⟩])[5]? = some 5004 := by
  decide

/-! ### §2 the enkiTS task-set path -/

/-- In every reachable state (any number of task sets of any sizes, any partition counts, any
    interleaving, any choice between a successful push and the pipe-full branch, nesting included):
    every index of every set is accounted for exactly once among executed ⊎ queued ⊎ in flight ⊎
    still to be split, no index outside `[0, m_SetSize)` is accounted for at all, and
    m_RunningCount equals the number of partitions queued, in flight, or split off but not yet
    pushed / run. -/
theorem sched_inv (s : State) (h : Reachable s) :
    (∀ t i, cover s t i = if i < s.size t then 1 else 0) ∧ (∀ t, s.count t = (pending s t : Int)) :=
  ⟨(inv_reachable s h).cov, (inv_reachable s h).cnt⟩

/-- All partition bounds stay within `[0, m_SetSize]`, so the `uint32_t` arithmetic of SplitTask and of
    the pipe-full adjustment never wraps when the set size fits 32 bits. -/
theorem sched_bounds (s : State) (h : Reachable s) :
    (∀ p ∈ s.queued, p.s ≤ p.e ∧ p.e ≤ s.size p.tid) ∧ (∀ p ∈ s.inflight, p.s ≤ p.e ∧ p.e ≤ s.size p.tid) ∧
    (∀ j ∈ s.jobs, j.s ≤ j.e ∧ j.e ≤ s.size j.tid) :=
  ⟨fun p hp => ((inv_reachable s h).wfQ p hp).2, fun p hp => ((inv_reachable s h).wfI p hp).2,
   fun j hj => ⟨((inv_reachable s h).wfJ j hj).2.1, ((inv_reachable s h).wfJ j hj).2.2.1⟩⟩

/-- The join: whenever `WaitforTask(t)` – entered after `AddTaskSetToPipe(t)` returned – reads
    `m_RunningCount == 0`, the body has been called exactly once for every index of `[0, m_SetSize)` of
    set `t` and for no other index, and no partition of `t` is queued, executing or still to be split. -/
theorem sched_exactly_once (s : State) (h : Reachable s) (t : Nat) (hw : waitMayReturn s t) :
    (∀ i, s.executed.count (t, i) = if i < s.size t then 1 else 0) ∧
    (∀ p ∈ s.queued, p.tid ≠ t) ∧ (∀ p ∈ s.inflight, p.tid ≠ t) ∧ (∀ j ∈ s.jobs, j.tid ≠ t) := by
  obtain ⟨h1, h2, h3, h4⟩ := inv_wait s t (inv_reachable s h) hw
  refine ⟨fun i => ?_, h2, h3, h4⟩
  rw [← sumBy_indicator_count]
  exact h1 i

/-- Every execution the driver replays (`run false init acts`) ends in a reachable state. -/
theorem reachable_of_run (acts : List Act) : ∀ (s s' : State), Reachable s → run false s acts = some s' → Reachable s' := by
  induction acts with
  | nil => intro s s' hr h; simp [run] at h; subst h; exact hr
  | cons a as ih =>
    intro s s' hr h
    simp only [run] at h
    cases hs : step false s a with
    | none => simp [hs] at h
    | some s1 =>
      simp only [hs] at h
      exact ih s1 s' (Reachable.step a hr hs) h

/-- non-vacuity: a set of 13 indices on 3 threads (6 partitions, 2 initial ones), third chunk run
    through the pipe-full branch, reaches a state in which the waiter may return -/
def demoActs : List Act :=
  [.add 13 1 6 2, .take 0, .push 0, .take 0, .push 0, .take 0, .inline 0, .exec 0, .finish 0, .jobDone 0,
   .pop 0, .take 0, .push 0, .take 0, .push 0, .jobDone 0, .exec 0, .exec 0, .finish 0,
   .pop 0, .exec 0, .exec 0, .finish 0, .pop 0, .exec 0, .exec 0, .finish 0,
   .pop 0, .take 0, .inline 0, .exec 0, .exec 0, .finish 0, .take 0, .inline 0, .exec 0, .exec 0, .finish 0,
   .jobDone 0, .exec 0, .exec 0, .finish 0]

example : ((run false init demoActs).map fun s => (decide (waitMayReturn s 0), s.size 0, s.executed.length)) =
    some (true, 13, 13) := by decide

/-- `sched_inv` is FALSE of the pipe-full transition as it was before the fix (test
    `m_RangeToRun < rangeToSplit_`): 13 indices, 3 threads (m_RangeToRun = 2, rangeToSplit = 6), the
    pipe full when the clipped last chunk [12,13) is split off – the chunk is extended to [12,14),
    index 13 ≥ m_SetSize is executed and the remaining range becomes [14,13). -/
def origWitness : List Act :=
  [.add 13 1 6 2, .take 0, .push 0, .take 0, .push 0, .take 0, .inline 0, .exec 0, .exec 0]

theorem sched_inv_fails_orig :
    ((run true init origWitness).map fun s => (s.size 0, s.executed, cover s 0 13, s.jobs.map fun j => (j.s, j.e))) =
      some (13, [(0, 13), (0, 12)], 1, [(14, 13)]) := by
  decide

/-- the same actions are not an execution of the fixed transition: after index 12 the partition is done -/
example : run false init origWitness = none := by decide

/-! ### §2 liveness of the task-set path (under scheduler fairness; task sets added with m_MinRange ≥ 1) -/

/-- **No stuck state.**  Whenever a partition is still queued, in flight or being split, some scheduler-internal
    action (take / push / inline / jobDone / pop / exec / finish) is enabled. -/
theorem sched_no_stuck (s : State) (hne : s.jobs ≠ [] ∨ s.queued ≠ [] ∨ s.inflight ≠ []) :
    ∃ a, a.internal = true ∧ (step false s a).isSome = true :=
  progress s hne

/-- **Every internal step makes progress.**  In every state reachable with `m_MinRange ≥ 1`, each internal step
    strictly decreases the lexicographic measure `mu` (weighted outstanding indices, indices still to be split,
    number of activations) – for every set size, partition count, interleaving, pipe-full choice and nesting. -/
theorem sched_step_decreases (s s' : State) (a : Act) (h : ReachableOk s) (hi : a.internal = true)
    (hs : step false s a = some s') : lt3 (mu s') (mu s) := by
  have hok : a.ok := by cases a <;> simp_all [Act.internal, Act.ok]
  exact (live_step s s' a (inv_reachable s (reachable_of_ok s h)) (linv_reachable s h) hok hs).2 hi

/-- **Termination.**  There is no infinite run of internal steps: once no more task sets are handed over, the
    scheduler threads run out of work after finitely many steps. -/
theorem sched_terminates (f : Nat → State) (h0 : ReachableOk (f 0))
    (hstep : ∀ n, ∃ a, a.internal = true ∧ step false (f n) a = some (f (n + 1))) : False := by
  have hr : ∀ n, ReachableOk (f n) := by
    intro n
    induction n with
    | zero => exact h0
    | succ n ih =>
      obtain ⟨a, hi, hs⟩ := hstep n
      have hok : a.ok := by cases a <;> simp_all [Act.internal, Act.ok]
      exact ReachableOk.step a ih hok hs
  have hacc : ∀ x, Acc lt3 x → ∀ n, mu (f n) = x → False := by
    intro x hx
    induction hx with
    | intro x _ ih =>
      intro n hn
      obtain ⟨a, hi, hs⟩ := hstep n
      have hd := sched_step_decreases (f n) (f (n + 1)) a (hr n) hi hs
      exact ih (mu (f (n + 1))) (hn ▸ hd) (n + 1) rfl
  exact hacc (mu (f 0)) (lt3_wf.apply _) 0 rfl

/-- **The join returns.**  In a reachable state in which no internal action is enabled – which by the two theorems
    above every fair execution reaches once no more sets are added – `WaitforTask(t)` may leave its loop for every
    task set `t` handed over so far (and then, by `sched_exactly_once`, every index of `t` has run exactly once). -/
theorem sched_quiescent_join (s : State) (h : ReachableOk s)
    (hq : ∀ a, a.internal = true → step false s a = none) (t : Nat) (ht : t < s.nsets) : waitMayReturn s t := by
  have hempty : s.jobs = [] ∧ s.queued = [] ∧ s.inflight = [] := by
    refine ⟨?_, ?_, ?_⟩ <;> (apply Classical.byContradiction; intro hne)
    · obtain ⟨a, hi, hs⟩ := progress s (Or.inl hne); rw [hq a hi] at hs; simp at hs
    · obtain ⟨a, hi, hs⟩ := progress s (Or.inr (Or.inl hne)); rw [hq a hi] at hs; simp at hs
    · obtain ⟨a, hi, hs⟩ := progress s (Or.inr (Or.inr hne)); rw [hq a hi] at hs; simp at hs
  obtain ⟨hj, hqd, hi⟩ := hempty
  have hcnt := (inv_reachable s (reachable_of_ok s h)).cnt t
  refine ⟨⟨ht, by simp [hj]⟩, ?_⟩
  rw [hcnt]
  simp [pending, hj, hqd, hi, sumBy]

/-- non-vacuity: the demo execution below only uses `m_MinRange = 1` adds, so its states are `ReachableOk` -/
example : ReachableOk init := ReachableOk.init
example : ∃ s, step false init (.add 13 1 6 2) = some s ∧ ReachableOk s :=
  ⟨_, rfl, ReachableOk.step (.add 13 1 6 2) ReachableOk.init (by simp [Act.ok]) rfl⟩

/-! ### §2b the steal loop of TryRunTask (loop bound read from the source) -/

theorem exists_steal_offset (n h k : Nat) (hk : k < n) : ∃ c, c < n ∧ (h + c) % n = k := by
  have hn : 0 < n := by omega
  have hr : h % n < n := Nat.mod_lt _ hn
  have hd := Nat.div_add_mod h n
  by_cases hc : h % n ≤ k
  · refine ⟨k - h % n, by omega, ?_⟩
    have : h + (k - h % n) = k + n * (h / n) := by omega
    rw [this, Nat.add_mul_mod_self_left, Nat.mod_eq_of_lt hk]
  · refine ⟨k + n - h % n, by omega, ?_⟩
    have : h + (k + n - h % n) = k + n * (h / n + 1) := by
      rw [Nat.mul_add]; omega
    rw [this, Nat.add_mul_mod_self_left, Nat.mod_eq_of_lt hk]

/-- **Every other thread's pipe is probed.**  With the loop bound the source has, one call of `TryRunTask` that
    finds nothing has tried the pipe of every thread `k ≠ threadNum` – for every thread count, every caller and
    every value of the steal hint.  (So a partition queued in any pipe is found by any idle thread: the premise of
    `sched_no_stuck`'s `pop`.) -/
theorem steal_probes_every_pipe (n t h k : Nat) (hk : k < n) (hkt : k ≠ t) :
    k ∈ stealProbes n (Gen.stealBound n) t h := by
  obtain ⟨c, hc, he⟩ := exists_steal_offset n h k hk
  simp only [stealProbes, Gen.stealBound, List.mem_filter, List.mem_map, List.mem_range]
  exact ⟨⟨c, by omega, he⟩, by simpa using hkt⟩

/-- a bound one short misses a pipe (4 threads, caller 3, hint 3: pipe 2 is never tried) -/
example : 2 ∉ stealProbes 4 3 3 3 := by decide

/-! ### §3 the pipe's flag protocol -/

/-- In every reachable state of the pipe (any number of slots and reader threads, any interleaving,
    any choice of slot indices): every written item (ticket) has been claimed by at most one
    successful CAS – and, tickets being fresh per write, not again before the slot is rewritten –,
    only written items are claimed, the value a reader copies out is the item it claimed (the writer
    cannot overwrite a slot that is readable or being read), and two threads never hold the same slot. -/
theorem pipe_handoff (s : PState) (h : PReachable s) :
    s.claimed.Nodup ∧ (∀ c ∈ s.claimed, c < s.next) ∧ (∀ cv ∈ s.out, cv.1 = cv.2 ∧ cv.1 ∈ s.claimed) ∧
    (∀ r r' k, r ≠ r' → (s.rpc r).slot = some k → (s.rpc r').slot ≠ some k) ∧
    (∀ k, s.wpc = some k → ∀ r, (s.rpc r).slot ≠ some k) := by
  have hi := pinv_reachable s h
  refine ⟨hi.nodup, hi.old, hi.outOk, hi.excl, ?_⟩
  intro k hk r hr
  have h1 := (hi.wr k hk).1
  have h2 := hi.held r k hr
  rw [h1] at h2
  cases h2

/-- non-vacuity: two items written, both claimed by different readers, copied and released; slot 0 reused -/
example : ((prun pinit [.wBuf 0, .wFlag, .wBuf 1, .wFlag, .cas 7 1, .cas 3 0, .cas 5 0, .copy 3, .copy 7, .release 3,
    .wBuf 0, .wFlag, .cas 5 0, .copy 5]).map fun s => (s.claimed, s.out, s.next)) =
    some ([2, 0, 1], [(2, 2), (1, 1), (0, 0)], 3) := by decide

end RkVerif.C01
