/-
Property C17 — index maps are bijections and 3D array adaptors address the right cell.
Property theorems only (model: Model/C17.lean, helpers: Lemmas/C17.lean).
Every theorem declared in this module is an audited proof obligation of the check.

Reading guide.  `U64 = UInt64` is the machine `size_t`; `x.toNat` is its mathematical value.
`tot2N/tot3N d` is the mathematical (unbounded) product of the extents, `In2/In3 d c` says the
coordinate lies inside the extent.  For the `int`-based array3D functions `Dims31 d` says every extent
is a non-negative `int`, `In3i d c` that `c` lies inside, `tot3i d` the mathematical cell count and
`idxN d c = c.x + d.x·(c.y + d.y·c.z)` the mathematical index.  The only size hypothesis anywhere is
"the mathematical total fits 64 bits" (`< 2^64`); no theorem bounds the extents otherwise.
-/
import RkVerif.Lemmas.C17
set_option linter.unusedVariables false

namespace RkVerif.C17

/-! ## 1. multidim_index_sequence: flatten / reshape are mutually inverse bijections, no overflow -/

/-- no_overflow_64 (sequences): for a coordinate inside the extent the machine result of `flatten` is the
    mathematical value `x + dx·(y + dy·z)` (no wrap-around happened in any intermediate, see
    `Lemmas.flat_machine`) and lies in `[0,total)`; for an index below the total the machine `reshape`
    yields exactly `(i mod dx, (i div dx) mod dy, (i div dx) div dy)`; `total_indices()` is the product. -/
theorem no_overflow_64 (d : V3 U64) (ht : tot3N d < 2 ^ 64) :
    (total3 d).toNat = tot3N d ∧
    (∀ c, In3 d c → (flatten3 d c).toNat = c.x.toNat + d.x.toNat * (c.y.toNat + d.y.toNat * c.z.toNat) ∧
        (flatten3 d c).toNat < tot3N d) ∧
    (∀ i : U64, i.toNat < tot3N d →
        (reshape3 d i).x.toNat = i.toNat % d.x.toNat ∧
        (reshape3 d i).y.toNat = i.toNat / d.x.toNat % d.y.toNat ∧
        (reshape3 d i).z.toNat = i.toNat / d.x.toNat / d.y.toNat) := by
  refine ⟨?_, fun c hc => flatten3_toNat hc ht, fun i hi => reshape3_toNat hi ht⟩
  rcases Nat.eq_zero_or_pos d.z.toNat with h | h
  · have hz : d.z = 0 := u_ext (by simpa using h)
    simp [total3, tot3N, hz]
  · exact total3_toNat ht h

theorem no_overflow_64_2D (d : V2 U64) (ht : tot2N d < 2 ^ 64) :
    (total2 d).toNat = tot2N d ∧
    (∀ c, In2 d c → (flatten2 d c).toNat = c.x.toNat + d.x.toNat * c.y.toNat ∧ (flatten2 d c).toNat < tot2N d) ∧
    (∀ i : U64, (reshape2 d i).x.toNat = i.toNat % d.x.toNat ∧ (reshape2 d i).y.toNat = i.toNat / d.x.toNat) :=
  ⟨total2_toNat ht, fun c hc => flatten2_toNat hc ht, fun i => reshape2_toNat d i⟩

/-- flatten_reshape (3D): every index below the total reshapes to a coordinate inside the extent which
    flattens back to the index. -/
theorem flatten_reshape (d : V3 U64) (ht : tot3N d < 2 ^ 64) (i : U64) (hi : i.toNat < tot3N d) :
    In3 d (reshape3 d i) ∧ flatten3 d (reshape3 d i) = i := by
  obtain ⟨hx, hy, hz⟩ := reshape3_toNat hi ht
  obtain ⟨bx, by_, bz⟩ := coords_lt (show i.toNat < d.x.toNat * d.y.toNat * d.z.toNat from hi)
  have hin : In3 d (reshape3 d i) := by
    simp only [In3, UInt64.lt_iff_toNat_lt, hx, hy, hz]; exact ⟨bx, by_, bz⟩
  refine ⟨hin, u_ext ?_⟩
  rw [(flatten3_toNat hin ht).1, hx, hy, hz]
  exact flatN_coords _ _ _

/-- reshape_flatten (3D): every coordinate inside the extent flattens to an index below the total which
    reshapes back to the coordinate. -/
theorem reshape_flatten (d c : V3 U64) (ht : tot3N d < 2 ^ 64) (hc : In3 d c) :
    (flatten3 d c).toNat < tot3N d ∧ reshape3 d (flatten3 d c) = c := by
  obtain ⟨hf, hlt⟩ := flatten3_toNat hc ht
  obtain ⟨hx, hy, hz⟩ := reshape3_toNat hlt ht
  obtain ⟨cx, cy, cz⟩ := hc
  rw [UInt64.lt_iff_toNat_lt] at cx cy cz
  refine ⟨hlt, ?_⟩
  have e1 : (reshape3 d (flatten3 d c)).x = c.x := u_ext (by rw [hx, hf, flatN_x cx])
  have e2 : (reshape3 d (flatten3 d c)).y = c.y := u_ext (by rw [hy, hf, flatN_y cx cy])
  have e3 : (reshape3 d (flatten3 d c)).z = c.z := u_ext (by rw [hz, hf, flatN_z cx cy])
  cases c; cases h : reshape3 d _; simp_all

theorem flatten_reshape_2D (d : V2 U64) (ht : tot2N d < 2 ^ 64) (i : U64) (hi : i.toNat < tot2N d) :
    In2 d (reshape2 d i) ∧ flatten2 d (reshape2 d i) = i := by
  obtain ⟨hx, hy⟩ := reshape2_toNat d i
  have hdx : 0 < d.x.toNat := by
    unfold tot2N at hi
    rcases Nat.eq_zero_or_pos d.x.toNat with h | h
    · rw [h] at hi; simp at hi
    · exact h
  have hin : In2 d (reshape2 d i) := by
    simp only [In2, UInt64.lt_iff_toNat_lt, hx, hy]
    exact ⟨Nat.mod_lt _ hdx, Nat.div_lt_of_lt_mul hi⟩
  refine ⟨hin, u_ext ?_⟩
  rw [(flatten2_toNat hin ht).1, hx, hy]
  exact Nat.mod_add_div _ _

theorem reshape_flatten_2D (d c : V2 U64) (ht : tot2N d < 2 ^ 64) (hc : In2 d c) :
    (flatten2 d c).toNat < tot2N d ∧ reshape2 d (flatten2 d c) = c := by
  obtain ⟨hf, hlt⟩ := flatten2_toNat hc ht
  obtain ⟨hx, hy⟩ := reshape2_toNat d (flatten2 d c)
  obtain ⟨cx, cy⟩ := hc
  rw [UInt64.lt_iff_toNat_lt] at cx
  refine ⟨hlt, ?_⟩
  have e1 : (reshape2 d (flatten2 d c)).x = c.x := u_ext (by rw [hx, hf, flat2_mod cx])
  have e2 : (reshape2 d (flatten2 d c)).y = c.y := u_ext (by rw [hy, hf, flat2_div cx])
  cases c; cases h : reshape2 d _; simp_all

/-! ## 2. iterating a sequence visits every coordinate exactly once, in flattened order -/

/-- The range-for loop over a 3D sequence (begin/end/`!=`/`++`/`*` as modelled by `iterLoop`) visits
    exactly `reshape 0, reshape 1, …, reshape (total-1)`. -/
theorem iterate_eq_reshape_range (d : V3 U64) :
    iterate3 d = (List.range (total3 d).toNat).map (fun i => reshape3 d (UInt64.ofNat i)) := by
  unfold iterate3
  rw [iterLoop_eq reshape3 d (total3 d) (total3 d).toNat 0 (by simp), List.range_eq_range']
  simp

/-- iterate_exactly_once (3D): the flattened indices of the visited coordinates are exactly
    `0,1,…,total-1` in this order — every coordinate of the extent once, in increasing flattened order. -/
theorem iterate_exactly_once (d : V3 U64) (ht : tot3N d < 2 ^ 64) :
    (iterate3 d).map (fun c => (flatten3 d c).toNat) = List.range (tot3N d) := by
  rw [iterate_eq_reshape_range, (no_overflow_64 d ht).1, List.map_map]
  have : ∀ i ∈ List.range (tot3N d), ((fun c => (flatten3 d c).toNat) ∘ fun i => reshape3 d (UInt64.ofNat i)) i = id i := by
    intro i hi
    rw [List.mem_range] at hi
    have hi' : (UInt64.ofNat i).toNat = i := by rw [UInt64.toNat_ofNat']; omega
    simp only [Function.comp, (flatten_reshape d ht (UInt64.ofNat i) (by rw [hi']; exact hi)).2, hi', id]
  rw [List.map_congr_left this, List.map_id]

/-- membership: the visited coordinates are exactly those inside the extent -/
theorem iterate_mem (d : V3 U64) (ht : tot3N d < 2 ^ 64) (c : V3 U64) : c ∈ iterate3 d ↔ In3 d c := by
  rw [iterate_eq_reshape_range, (no_overflow_64 d ht).1, List.mem_map]
  constructor
  · rintro ⟨i, hi, rfl⟩
    rw [List.mem_range] at hi
    have hi' : (UInt64.ofNat i).toNat = i := by rw [UInt64.toNat_ofNat']; omega
    exact (flatten_reshape d ht _ (by rw [hi']; exact hi)).1
  · intro hc
    obtain ⟨hlt, hr⟩ := reshape_flatten d c ht hc
    exact ⟨(flatten3 d c).toNat, List.mem_range.mpr hlt, by rw [UInt64.ofNat_toNat]; exact hr⟩

/-- no coordinate is visited twice -/
theorem iterate_nodup (d : V3 U64) (ht : tot3N d < 2 ^ 64) : (iterate3 d).Nodup := by
  have h := iterate_exactly_once d ht
  have hp : (List.map (fun c => (flatten3 d c).toNat) (iterate3 d)).Pairwise (· < ·) := by
    rw [h]; exact List.pairwise_lt_range
  rw [List.pairwise_map] at hp
  rw [List.nodup_iff_pairwise_ne]
  exact hp.imp (by intro a b hab he; subst he; omega)

theorem iterate_eq_reshape_range_2D (d : V2 U64) :
    iterate2 d = (List.range (total2 d).toNat).map (fun i => reshape2 d (UInt64.ofNat i)) := by
  unfold iterate2
  rw [iterLoop_eq reshape2 d (total2 d) (total2 d).toNat 0 (by simp), List.range_eq_range']
  simp

theorem iterate_exactly_once_2D (d : V2 U64) (ht : tot2N d < 2 ^ 64) :
    (iterate2 d).map (fun c => (flatten2 d c).toNat) = List.range (tot2N d) := by
  rw [iterate_eq_reshape_range_2D, total2_toNat ht, List.map_map]
  have : ∀ i ∈ List.range (tot2N d), ((fun c => (flatten2 d c).toNat) ∘ fun i => reshape2 d (UInt64.ofNat i)) i = id i := by
    intro i hi
    rw [List.mem_range] at hi
    have hi' : (UInt64.ofNat i).toNat = i := by rw [UInt64.toNat_ofNat']; omega
    simp only [Function.comp, (flatten_reshape_2D d ht (UInt64.ofNat i) (by rw [hi']; exact hi)).2, hi', id]
  rw [List.map_congr_left this, List.map_id]

theorem iterate_mem_2D (d : V2 U64) (ht : tot2N d < 2 ^ 64) (c : V2 U64) : c ∈ iterate2 d ↔ In2 d c := by
  rw [iterate_eq_reshape_range_2D, total2_toNat ht, List.mem_map]
  constructor
  · rintro ⟨i, hi, rfl⟩
    rw [List.mem_range] at hi
    have hi' : (UInt64.ofNat i).toNat = i := by rw [UInt64.toNat_ofNat']; omega
    exact (flatten_reshape_2D d ht _ (by rw [hi']; exact hi)).1
  · intro hc
    obtain ⟨hlt, hr⟩ := reshape_flatten_2D d c ht hc
    exact ⟨(flatten2 d c).toNat, List.mem_range.mpr hlt, by rw [UInt64.ofNat_toNat]; exact hr⟩

/-! ## 3. array3D: longProduct / longIndex / coordsOf -/

/-- no_overflow_64 (array3D): with `int` extents whose product fits 64 bits, `longProduct` is the
    mathematical product and `longIndex` (= `ActualArray3D::indexOf`) of a coordinate inside the extent is the
    mathematical index, below the total. -/
theorem no_overflow_64_array3D (d : V3i) (hd : Dims31 d) (ht : tot3i d < 2 ^ 64) :
    (longProduct d).toNat = tot3i d ∧
    (∀ c, In3i d c → (longIndex c d).toNat = idxN d c ∧ (longIndex c d).toNat < tot3i d) :=
  ⟨longProduct_toNat hd ht, fun c hc => ⟨longIndex_toNat hd hc ht, by rw [longIndex_toNat hd hc ht]; exact idxN_lt hc⟩⟩

/-- coords_longIndex (→): `coordsOf (longIndex c) = c` for every coordinate inside the extent. -/
theorem coords_longIndex (d c : V3i) (hd : Dims31 d) (ht : tot3i d < 2 ^ 64) (hc : In3i d c) :
    (longIndex c d).toNat < tot3i d ∧ coordsOf (longIndex c d) d = c := by
  have hi := longIndex_toNat hd hc ht
  have hlt : (longIndex c d).toNat < tot3i d := by rw [hi]; exact idxN_lt hc
  refine ⟨hlt, ?_⟩
  rw [coordsOf_eq hd hlt, hi]
  obtain ⟨⟨_, _⟩, ⟨_, _⟩, ⟨_, _⟩⟩ := hc
  unfold idxN
  rw [flatN_x (by omega), flatN_y (by omega) (by omega), flatN_z (by omega) (by omega)]
  cases c; simp only [V3.mk.injEq] at *; omega

/-- coords_longIndex (←): `longIndex (coordsOf i) = i` and `coordsOf i` is inside the extent, for every
    index below the total. -/
theorem longIndex_coords (d : V3i) (hd : Dims31 d) (ht : tot3i d < 2 ^ 64) (i : U64) (hi : i.toNat < tot3i d) :
    In3i d (coordsOf i d) ∧ longIndex (coordsOf i d) d = i := by
  obtain ⟨b1, b2, b3⟩ := coords_lt (show i.toNat < d.x.toNat * d.y.toNat * d.z.toNat from hi)
  have hin : In3i d (coordsOf i d) := by
    have hd' := hd
    obtain ⟨⟨_, _⟩, ⟨_, _⟩, ⟨_, _⟩⟩ := hd'
    rw [coordsOf_eq hd hi]
    generalize i.toNat % d.x.toNat = n1 at b1
    generalize i.toNat / d.x.toNat % d.y.toNat = n2 at b2
    generalize i.toNat / d.x.toNat / d.y.toNat = n3 at b3
    simp only [In3i]; omega
  refine ⟨hin, u_ext ?_⟩
  rw [longIndex_toNat hd hin ht, coordsOf_eq hd hi]
  simp only [idxN, Int.toNat_natCast]
  exact flatN_coords _ _ _

/-! ## 4. for_each visits every coordinate of the region exactly once, in flattened order -/

/-- for_each_exactly_once: for *every* lower/upper (also empty or inverted boxes) the functor is called
    with exactly the coordinates of `[lower,upper)`, none twice, in (z, then y, then x) order. -/
theorem for_each_exactly_once (l u : V3i) :
    (∀ c, c ∈ forEach l u ↔ InBox l u c) ∧ (forEach l u).Nodup ∧ (forEach l u).Pairwise lexLt := by
  refine ⟨fun c => mem_forEach, ?_, forEach_pairwise l u⟩
  rw [List.nodup_iff_pairwise_ne]
  refine (forEach_pairwise l u).imp ?_
  intro a b h he; subst he
  unfold lexLt at h; omega

/-- `for_each(size, f)` calls `f` on the coordinates with linear index `0,1,…,total-1`, in this order. -/
theorem for_each_size_flat_order (s : V3i) (hd : Dims31 s) (ht : tot3i s < 2 ^ 64) :
    (forEachSize s).map (fun c => (longIndex c s).toNat) = List.range (tot3i s) := by
  rw [← forEachSize_idxN s]
  apply List.map_congr_left
  intro c hc
  exact longIndex_toNat hd (mem_forEachSize.mp hc) ht

/-- for_each over any sub-box of an array's extent visits cells in strictly increasing linear index. -/
theorem for_each_increasing_index (d l u : V3i) (hd : Dims31 d) (ht : tot3i d < 2 ^ 64)
    (hl : 0 ≤ l.x ∧ 0 ≤ l.y ∧ 0 ≤ l.z) (hu : u.x ≤ d.x ∧ u.y ≤ d.y ∧ u.z ≤ d.z) :
    (forEach l u).Pairwise (fun a b => (longIndex a d).toNat < (longIndex b d).toNat) := by
  have hin : ∀ c ∈ forEach l u, In3i d c := by
    intro c hc
    have := mem_forEach.mp hc
    unfold InBox at this; unfold In3i; omega
  have hp := forEach_pairwise l u
  rw [List.pairwise_iff_forall_sublist] at hp ⊢
  intro a b hab
  have ha := hin a (hab.subset (by simp))
  have hb := hin b (hab.subset (by simp))
  rw [longIndex_toNat hd ha ht, longIndex_toNat hd hb ht]
  exact lexLt_idxN ha hb (hp hab)

/-! ## 5. ActualArray3D: get returns the value last set (clamping outside coordinates) -/

/-- `indexOf` / `numElements` are the mathematical index / cell count -/
theorem indexOf_numElements (a : Actual) (hw : a.WF) :
    a.numElements.toNat = tot3i a.dims ∧ (∀ c, In3i a.dims c → (a.indexOf c).toNat = idxN a.dims c) ∧
    (Actual.allocCount a.dims).toNat = tot3i a.dims := by
  obtain ⟨hd, ht, _⟩ := hw
  exact ⟨longProduct_toNat hd ht, fun c hc => longIndex_toNat hd hc ht, longProduct_toNat hd ht⟩

/-- get reads cell `idxN c` of the value array for a coordinate inside the extent -/
theorem get_reads_cell (a : Actual) (hw : a.WF) (c : V3i) (hc : In3i a.dims c) :
    idxN a.dims c < a.vals.length ∧ a.get c = a.vals.getD (idxN a.dims c) 0 :=
  ⟨by rw [hw.2.2]; exact idxN_lt hc, Actual.get_eq hw hc⟩

/-- get_set: after `set(c, v)`, `get(c) = v` and every other cell is unchanged -/
theorem get_set (a : Actual) (hw : a.WF) (c c' : V3i) (hc : In3i a.dims c) (hc' : In3i a.dims c') (v : Int) :
    (a.set c v).get c' = if c' = c then v else a.get c' := Actual.get_set hw hc hc' v

/-- get_clamps: `get(w)` for any `w` equals `get` of the nearest cell of the (non-empty) extent: per axis
    `0` below, `d-1` above, `w` itself inside. -/
theorem get_clamps (a : Actual) (hne : NonEmpty a.dims) (w : V3i) :
    let c : V3i := ⟨if w.x < 0 then 0 else if a.dims.x ≤ w.x then a.dims.x - 1 else w.x,
                   if w.y < 0 then 0 else if a.dims.y ≤ w.y then a.dims.y - 1 else w.y,
                   if w.z < 0 then 0 else if a.dims.z ≤ w.z then a.dims.z - 1 else w.z⟩
    a.get w = a.get c ∧ In3i a.dims c := by
  intro c
  have hc : a.clampWhere w = c := by
    obtain ⟨_, _, _⟩ := hne
    simp only [Actual.clampWhere, V3i.max, V3i.min, V3i.sub, V3i.splat, c, V3.mk.injEq]
    refine ⟨?_, ?_, ?_⟩ <;> split <;> (try split) <;> omega
  have hin := clampWhere_in hne w
  rw [hc] at hin
  refine ⟨?_, hin⟩
  rw [Actual.get_clamp a w, hc]

/-- operations of a history on one array -/
inductive AOp where
  | set (c : V3i) (v : Int)
  | clear (v : Int)

/-- `set` is only defined for coordinates inside the extent ("where MUST be a valid cell location") -/
def AOp.valid (d : V3i) : AOp → Prop
  | .set c _ => In3i d c
  | .clear _ => True

def astep (a : Actual) : AOp → Actual
  | .set c v => a.set c v
  | .clear v => a.clear v

/-- history given most-recent-first -/
def arunR (a0 : Actual) : List AOp → Actual
  | [] => a0
  | op :: earlier => astep (arunR a0 earlier) op

/-- the value most recently written to cell `c` by the history (most-recent-first), if any -/
def lastWrite (c : V3i) : List AOp → Option Int
  | [] => none
  | .set c' v :: earlier => if c' = c then some v else lastWrite c earlier
  | .clear v :: _ => some v

/-- get_last_set: after *every* history of valid `set`/`clear` calls, `get(c)` is the value most
    recently written to `c` (by a `set` at `c` or a `clear`), or the initial content if there was none. -/
theorem get_last_set (a0 : Actual) (hw : a0.WF) (hist : List AOp) (hv : ∀ op ∈ hist, op.valid a0.dims)
    (c : V3i) (hc : In3i a0.dims c) :
    (arunR a0 hist).get c = (lastWrite c hist).getD (a0.get c) ∧
      (arunR a0 hist).WF ∧ (arunR a0 hist).dims = a0.dims := by
  induction hist with
  | nil => simp [arunR, lastWrite, hw]
  | cons op earlier ih =>
    obtain ⟨ih1, ih2, ih3⟩ := ih (fun op h => hv op (by simp [h]))
    have hop := hv op (by simp)
    cases op with
    | set c' v =>
      have hc' : In3i (arunR a0 earlier).dims c' := by rw [ih3]; exact hop
      have hcc : In3i (arunR a0 earlier).dims c := by rw [ih3]; exact hc
      refine ⟨?_, Actual.set_WF ih2 hc' v, by show ((arunR a0 earlier).set c' v).dims = _; rw [(Actual.set_vals ih2 hc' v).2, ih3]⟩
      simp only [arunR, astep, lastWrite]
      rw [Actual.get_set ih2 hc' hcc v]
      by_cases h : c = c'
      · subst h; simp
      · have h' : ¬ c' = c := fun e => h e.symm
        simp [h, h', ih1]
    | clear v =>
      obtain ⟨r1, r2, r3⟩ := Actual.clear_spec ih2 v
      refine ⟨?_, r1, by show ((arunR a0 earlier).clear v).dims = _; rw [r2, ih3]⟩
      simp only [arunR, astep, lastWrite, Option.getD_some]
      exact r3 c (by rw [ih3]; exact hc)

/-! ## 6. adaptors return exactly the underlying cell their definition names
    (generic in the underlying `Array3D`, hence also for adaptors over adaptors) -/

/-- shifted_get: for a location with `where + size + shift ≥ 0` on every axis (in particular every
    `where ≥ 0` with `shift ≥ -size`) the shifted array returns the underlying cell
    `(where + shift) mod size` (mathematical, non-negative mod), which lies inside the extent.
    (Outside this hypothesis C++ `%` truncates towards zero; the model follows the code there too.) -/
theorem shifted_get {V : Type} (a : Array3D V) (s w : V3i) (hne : NonEmpty a.size)
    (h : 0 ≤ w.x + a.size.x + s.x ∧ 0 ≤ w.y + a.size.y + s.y ∧ 0 ≤ w.z + a.size.z + s.z) :
    let c : V3i := ⟨(w.x + s.x) % a.size.x, (w.y + s.y) % a.size.y, (w.z + s.z) % a.size.z⟩
    (shifted a s).get w = a.get c ∧ In3i a.size c ∧ (shifted a s).size = a.size := by
  intro c
  obtain ⟨nx, ny, nz⟩ := hne
  obtain ⟨hx, hy, hz⟩ := h
  have e : ∀ (p n q : Int), 0 ≤ p + n + q → (p + n + q).tmod n = (p + q) % n := by
    intro p n q h0
    rw [Int.tmod_eq_emod_of_nonneg h0, show p + n + q = (p + q) + n by omega, Int.add_emod_right]
  refine ⟨?_, ?_, rfl⟩
  · simp only [shifted, V3i.tmod, V3i.add, e _ _ _ hx, e _ _ _ hy, e _ _ _ hz, c]
  · simp only [In3i, c]
    exact ⟨⟨Int.emod_nonneg _ (by omega), Int.emod_lt_of_pos _ nx⟩, ⟨Int.emod_nonneg _ (by omega), Int.emod_lt_of_pos _ ny⟩,
      ⟨Int.emod_nonneg _ (by omega), Int.emod_lt_of_pos _ nz⟩⟩

/-- accessor_get: the accessor returns the cast of the underlying cell at the *same* location and has
    the same size (this is the whole content of the adaptor). -/
theorem accessor_get {A B : Type} (cast : A → B) (a : Array3D A) (w : V3i) :
    (accessor cast a).get w = cast (a.get w) ∧ (accessor cast a).size = a.size := ⟨rfl, rfl⟩

/-- subbox_get: a location inside the sub-box's own size addresses the underlying cell
    `where + lower`, which lies inside the clip box (and inside the underlying extent when the clip box does). -/
theorem subbox_get {V : Type} (a : Array3D V) (lo up w : V3i)
    (hw : In3i (subBox a lo up).size w) :
    (subBox a lo up).get w = a.get ⟨w.x + lo.x, w.y + lo.y, w.z + lo.z⟩ ∧
      InBox lo up ⟨w.x + lo.x, w.y + lo.y, w.z + lo.z⟩ ∧
      ((0 ≤ lo.x ∧ 0 ≤ lo.y ∧ 0 ≤ lo.z) → (up.x ≤ a.size.x ∧ up.y ≤ a.size.y ∧ up.z ≤ a.size.z) →
        In3i a.size ⟨w.x + lo.x, w.y + lo.y, w.z + lo.z⟩) := by
  simp only [subBox, V3i.sub, In3i] at hw
  refine ⟨rfl, ?_, ?_⟩
  · simp only [InBox]; omega
  · intro h1 h2; simp only [In3i]; omega

/-- multislice_get: with `n = 1 + rest.length` slices (`n` an `int`), location `w` addresses slice
    `clamp(w.z, 0, n-1)` at `(w.x, w.y, 0)`; the reported z-size is `n`. -/
theorem multislice_get {V : Type} (s0 : Array3D V) (rest : List (Array3D V)) (w : V3i)
    (hn : rest.length + 1 < 2 ^ 31) :
    let k : Nat := (max 0 (min w.z (rest.length : Int))).toNat
    (multiSlice s0 rest).get w = ((s0 :: rest).getD k s0).get ⟨w.x, w.y, 0⟩ ∧ k < (s0 :: rest).length ∧
      (0 ≤ w.z → w.z < (rest.length : Int) + 1 → k = w.z.toNat) ∧
      (multiSlice s0 rest).size = ⟨s0.size.x, s0.size.y, (rest.length : Int) + 1⟩ := by
  intro k
  have hN : (UInt64.ofNat (s0 :: rest).length).toNat = rest.length + 1 := by
    rw [UInt64.toNat_ofNat']; simp only [List.length_cons]; omega
  have hI : toI32 (UInt64.ofNat (s0 :: rest).length) = (rest.length : Int) + 1 := by
    rw [toI32_small (by rw [hN]; exact hn), hN]; omega
  have hk : (toU (clampI w.z 0 ((rest.length : Int) + 1 - 1))).toNat = k := by
    rw [toU_toNat (by unfold clampI; omega) (by unfold clampI; omega)]
    unfold clampI; simp only [k]; omega
  refine ⟨?_, ?_, ?_, ?_⟩
  · simp only [multiSlice, hI, hk]
  · simp only [k, List.length_cons]; omega
  · intro h1 h2; simp only [k]; omega
  · simp only [multiSlice, hI]

/-! ## 7. getValueRange -/

/-- value_range_tight: for a non-empty region the returned range bounds the value of every cell of the
    region, and both bounds are attained by cells of the region.  (`a.get` is whatever the array returns
    at a location — for coordinates outside an ActualArray3D's extent the clamped cell.) -/
theorem value_range_tight (a : Array3D Int) (b e : V3i) (hne : b.x < e.x ∧ b.y < e.y ∧ b.z < e.z) :
    (∀ c, InBox b e c → (getValueRange a b e).1 ≤ a.get c ∧ a.get c ≤ (getValueRange a b e).2) ∧
    (∃ c, InBox b e c ∧ a.get c = (getValueRange a b e).1) ∧
    (∃ c, InBox b e c ∧ a.get c = (getValueRange a b e).2) := by
  have hb : b ∈ forEach b e := mem_forEach.mpr (by unfold InBox; omega)
  have hfold : getValueRange a b e = ((forEach b e).map a.get).foldl extend (a.get b, a.get b) := by
    unfold getValueRange; rw [List.foldl_map]
  obtain ⟨h1, h2, h3⟩ := foldl_extend_inv ((forEach b e).map a.get) [a.get b] (a.get b, a.get b) (by simp)
  rw [← hfold] at h1 h2 h3
  have hmem : ∀ v, v ∈ [a.get b] ++ (forEach b e).map a.get → ∃ c, InBox b e c ∧ a.get c = v := by
    intro v hv
    simp only [List.mem_append, List.mem_singleton, List.mem_map] at hv
    rcases hv with hv | ⟨c, hc, hv⟩
    · exact ⟨b, mem_forEach.mp hb, hv.symm⟩
    · exact ⟨c, mem_forEach.mp hc, hv⟩
  refine ⟨?_, hmem _ h2, hmem _ h3⟩
  intro c hc
  exact h1 (a.get c) (by simp only [List.mem_append, List.mem_map]; right; exact ⟨c, mem_forEach.mpr hc, rfl⟩)

/-- `getValueRange()` is the range over the whole extent `[0,size)` -/
theorem value_range_all_tight (a : Array3D Int) (hne : NonEmpty a.size) :
    (∀ c, In3i a.size c → (getValueRangeAll a).1 ≤ a.get c ∧ a.get c ≤ (getValueRangeAll a).2) ∧
    (∃ c, In3i a.size c ∧ a.get c = (getValueRangeAll a).1) ∧
    (∃ c, In3i a.size c ∧ a.get c = (getValueRangeAll a).2) :=
  value_range_tight a (V3i.splat 0) a.size hne

/-! ## non-vacuity: the hypotheses are satisfiable, and concrete instances (extent 3×2×4 / 65536×65536×2) -/

example : tot3N ⟨65536, 65536, 2⟩ < 2 ^ 64 ∧ In3 ⟨65536, 65536, 2⟩ ⟨65535, 65535, 1⟩ := by decide
example : Dims31 ⟨65536, 65536, 2⟩ ∧ tot3i ⟨65536, 65536, 2⟩ < 2 ^ 64 ∧ In3i ⟨65536, 65536, 2⟩ ⟨65535, 65535, 1⟩ := by decide
example : flatten3 ⟨65536, 65536, 2⟩ ⟨65535, 65535, 1⟩ = 8589934591 := by decide
example : (longIndex ⟨65535, 65535, 1⟩ ⟨65536, 65536, 2⟩).toNat = 8589934591 := by decide
example : reshape3 ⟨3, 2, 4⟩ 17 = ⟨2, 1, 2⟩ := by decide
example : (⟨⟨3, 2, 4⟩, List.replicate 24 0⟩ : Actual).WF := by unfold Actual.WF; decide
example : NonEmpty ⟨3, 2, 4⟩ := by unfold NonEmpty; decide
example : AOp.valid ⟨3, 2, 4⟩ (.set ⟨2, 1, 3⟩ 5) := by show In3i _ _; decide
example : iterate3 ⟨2, 1, 2⟩ = [⟨0, 0, 0⟩, ⟨1, 0, 0⟩, ⟨0, 0, 1⟩, ⟨1, 0, 1⟩] := by rw [iterate_eq_reshape_range]; decide
example : forEach ⟨-1, 0, 0⟩ ⟨1, 2, 1⟩ = [⟨-1, 0, 0⟩, ⟨0, 0, 0⟩, ⟨-1, 1, 0⟩, ⟨0, 1, 0⟩] := by rw [forEach_eq]; decide
/-- the hypothesis of `shifted_get` is needed: with shift = -(size+1) C++ `%` yields -1, which the underlying
    get clamps to cell 0 (a cyclic shift would address cell 2) -/
example : (shifted (⟨⟨3, 1, 1⟩, [10, 20, 30]⟩ : Actual).toArray3D ⟨-4, 0, 0⟩).get ⟨0, 0, 0⟩ = 10 := by decide
example : (shifted (⟨⟨3, 1, 1⟩, [10, 20, 30]⟩ : Actual).toArray3D ⟨-1, 0, 0⟩).get ⟨0, 0, 0⟩ = 30 := by decide
example : getValueRange (⟨⟨3, 1, 1⟩, [10, -20, 30]⟩ : Actual).toArray3D ⟨0, 0, 0⟩ ⟨2, 1, 1⟩ = (-20, 10) := by
  unfold getValueRange; rw [forEach_eq]; decide

/-! ## backward walks -/

theorem backLoop_eq {C : Type} (rs : C → U64 → C) (d : C) :
    ∀ n : Nat, n < 2 ^ 64 →
      backLoop rs d (UInt64.ofNat n) = ((List.range n).map (fun i => rs d (UInt64.ofNat i))).reverse := by
  intro n
  induction n with
  | zero => intro _; unfold backLoop; simp
  | succ n ih =>
    intro hn
    have hne : UInt64.ofNat (n + 1) ≠ 0 := by
      intro h0
      have := congrArg UInt64.toNat h0
      rw [UInt64.toNat_ofNat'] at this
      simp at this; omega
    have hsub : UInt64.ofNat (n + 1) - 1 = UInt64.ofNat n := by
      apply UInt64.toNat_inj.mp
      have h1 : (1 : U64) ≤ UInt64.ofNat (n + 1) := by
        rw [UInt64.le_iff_toNat_le, UInt64.toNat_ofNat']; simp; omega
      rw [UInt64.toNat_sub_of_le _ _ h1, UInt64.toNat_ofNat', UInt64.toNat_ofNat']
      simp; omega
    unfold backLoop
    rw [dif_pos hne, hsub, ih (by omega), List.range_succ, List.map_append, List.reverse_append]
    simp

/-- backward_is_reverse (3D): walking an index sequence backwards with `--it; *it` visits exactly the coordinates of the
    range-based for loop, in reverse order — in particular `*it` after `--it` is the element `it` now designates. -/
theorem backward_is_reverse (d : V3 U64) :
    backward3 d = (iterate3 d).reverse := by
  unfold backward3
  have h := backLoop_eq reshape3 d (total3 d).toNat (total3 d).toNat_lt
  rw [UInt64.ofNat_toNat] at h
  rw [h, iterate_eq_reshape_range]

theorem backward_is_reverse_2D (d : V2 U64) :
    backward2 d = (iterate2 d).reverse := by
  unfold backward2
  have h := backLoop_eq reshape2 d (total2 d).toNat (total2 d).toNat_lt
  rw [UInt64.ofNat_toNat] at h
  rw [h, iterate_eq_reshape_range_2D]

example : backLoop reshape2 (⟨2, 2⟩ : V2 U64) 4 = [⟨1, 1⟩, ⟨0, 1⟩, ⟨1, 0⟩, ⟨0, 0⟩] := by
  rw [show (4 : U64) = UInt64.ofNat 4 from rfl, backLoop_eq _ _ 4 (by decide)]; decide

end RkVerif.C17
