/-
Property C09 — Optional and Any behave as value types for every payload type and history.
Property theorems only (model: Model/C09.lean; invariants, abstraction `abs`, reference semantics
`Ref.step`, `Op.writes` and the per-operation lemmas `step_inv`, `step_abs`, `astep_inv`, `astep_abs`:
Lemmas/C09.lean, Lemmas/C09Any.lean).  Every theorem declared in this module is an audited proof obligation.

The model follows the source with fixes/C09-*.patch applied.  The member functions as they were
before the repairs are the `_prefix` definitions of the model; the `example`s at the end of each
part show, by evaluation, that they violate the invariants proved here.
-/
import RkVerif.Lemmas.C09
import RkVerif.Lemmas.C09Any
set_option linter.unusedSectionVars false

namespace RkVerif.C09

/-! ## Optional: refinement to `Option` -/

/-- what wrapper `i` holds in an abstract state (`none` = no object or empty) -/
def held (r : Ref) (i : Nat) : Option Val := (r i).bind id

/-- optional_refines: after *every* history over any number of wrappers, what each wrapper holds
    (no object / empty / engaged with value v) is what the `std::optional`-style reference
    semantics `Ref.step` gives for the same history. -/
theorem optional_refines (hist : List Op) : abs (runR hist) = Ref.runR hist := by
  induction hist with
  | nil => funext k; simp [abs, runR, Ref.runR]
  | cons op earlier ih => simp only [runR, Ref.runR, step_abs op (inv_runR earlier), ih]

/-- `has_value()` / `operator bool` is true exactly when the reference state holds a value. -/
theorem optional_has_value (hist : List Op) (i : Nat) :
    obsHas (runR hist) i = (held (Ref.runR hist) i).isSome := by
  rw [← optional_refines]
  simp only [obsHas, hasV, held, abs]
  cases (runR hist).w i with
  | none => simp
  | some o =>
    obtain ⟨hv, st⟩ := o
    cases hv <;> cases st <;> simp [absOpt]

/-- `value()`, `operator*`, `operator->` return the held value and never read raw storage. -/
theorem optional_value (hist : List Op) (i : Nat) (x : Val)
    (h : held (Ref.runR hist) i = some x) : obsValue (runR hist) i = some x := by
  rw [← optional_refines] at h
  have hw := (inv_runR hist).2 i
  rcases optOk_cases hw with ⟨h1, _⟩ | ⟨h1, _⟩ | ⟨y, h1, _⟩ <;>
    simp_all [held, abs, absOpt, obsValue]

/-- `value_or(d)` returns the held value, or `d` for an empty wrapper; never reads raw storage. -/
theorem optional_value_or (hist : List Op) (i : Nat) (d : Val) (hp : present (runR hist) i = true) :
    obsValueOr (runR hist) i d = some ((held (Ref.runR hist) i).getD d) := by
  rw [← optional_refines]
  have hw := (inv_runR hist).2 i
  rcases optOk_cases hw with ⟨h1, _⟩ | ⟨h1, _⟩ | ⟨y, h1, _⟩ <;>
    simp_all [held, abs, absOpt, obsValue, obsValueOr, hasV, present]

/-- reference meaning of the six comparison operators on two `Option`s
    (rkcommon: any comparison with an empty operand is false, `!=` is the negation of `==`) -/
def refCmp (r : Rel) (a b : Option Val) : CmpRes :=
  match a, b with
  | some (.v x), some (.v y) => .b (r.eval x y)
  | some _, some _ => .unspecified
  | _, _ => .b (r = .ne)

/-- Comparisons never dereference raw storage and compute `refCmp` of the held values. -/
theorem optional_cmp (hist : List Op) (r : Rel) (i j : Nat) :
    obsCmp (runR hist) r i j = some (refCmp r (held (Ref.runR hist) i) (held (Ref.runR hist) j)) := by
  rw [← optional_refines]
  have hi := (inv_runR hist).2 i
  have hj := (inv_runR hist).2 j
  rcases optOk_cases hi with ⟨h1, _⟩ | ⟨h1, _⟩ | ⟨x, h1, _⟩ <;>
  rcases optOk_cases hj with ⟨g1, _⟩ | ⟨g1, _⟩ | ⟨y, g1, _⟩ <;>
    cases r <;> (try cases x) <;> (try cases y) <;>
    simp_all [held, abs, absOpt, obsValue, obsCmp, hasV, refCmp, Rel.eval, bne]

/-- optional_frame (copies are independent): in every reachable state an operation changes only
    its target — and the source of a *move*; in particular the source of a copy construction or
    copy assignment and every third wrapper keep exactly what they held. -/
theorem optional_frame (hist : List Op) (op : Op) (k : Nat) (hk : k ∉ op.writes) :
    abs (step (runR hist) op) k = abs (runR hist) k :=
  step_frame (inv_runR hist) op k hk

/-- A copy and its source are independent: after `a_i = a_j` (or `Optional a_i(a_j)`), overwriting
    or resetting the copy leaves the source as it was before the copy. -/
theorem optional_copy_independent (hist : List Op) (i j : Nat) (hij : i ≠ j) (op : Op)
    (hop : op.writes = [i]) :
    abs (step (step (runR hist) (.copyAssign i j)) op) j = abs (runR hist) j := by
  have h1 := optional_frame (.copyAssign i j :: hist) op j (by simp [hop]; exact fun h => hij h.symm)
  have h2 := optional_frame hist (.copyAssign i j) j (by simp [Op.writes]; exact fun h => hij h.symm)
  simpa [runR] using h1.trans h2

/-! ## Optional: payload lifetimes -/

/-- optional_lifetime (safety half): in every history no payload is assigned, read, moved from or
    destroyed in storage that holds no object, no payload is constructed over a live one, and no
    wrapper object dies with a live payload inside (the model records each of these as an error);
    every wrapper's flag says exactly whether its storage holds an object, and per slot the number
    of constructions exceeds the number of destructions by exactly the one live payload, if any. -/
theorem optional_no_lifetime_error (hist : List Op) :
    (runR hist).errs = [] ∧ ∀ i, OptOk (runR hist) i := inv_runR hist

/-- optional_lifetime: for every history, once the wrappers it used are destroyed, no wrapper
    object is left, no lifetime error was ever recorded, and in every slot exactly as many payload
    objects were destroyed as were constructed — with `optional_no_lifetime_error` (a destructor
    only ever runs on a live payload, a constructor only on raw storage): every constructed payload
    is destroyed exactly once. -/
theorem optional_lifetime (hist : List Op) :
    let σ := destroyAll (runR hist) (touched hist)
    σ.errs = [] ∧ ∀ i, σ.w i = none ∧ σ.born i = σ.died i := by
  intro σ
  obtain ⟨hinv, habsent⟩ := destroyAll_spec (runR hist) (touched hist) (inv_runR hist)
  refine ⟨hinv.1, fun i => ?_⟩
  have hn : σ.w i = none := by
    apply habsent
    by_cases hi : i ∈ touched hist
    · left; exact hi
    · right; exact untouched_absent hist i hi
  have := hinv.2 i
  simp only [OptOk] at this
  rw [show σ.w i = none from hn] at this
  exact ⟨hn, this⟩


/-! ### Non-vacuity and the pre-repair code (Optional) -/

-- a history with engaged, empty, moved-from and destroyed wrappers
example : Ref.runR [.moveAssign 2 1, .ctorDefault 2, .copyAssign 1 0, .ctorDefault 1, .ctorValue 0 3] 2 = some (some (.v 3)) := by decide
example : Ref.runR [.moveAssign 2 1, .ctorDefault 2, .copyAssign 1 0, .ctorDefault 1, .ctorValue 0 3] 1 = some (some .unspec) := by decide
example : held (Ref.runR [.copyAssign 0 1, .ctorDefault 1, .ctorValue 0 3]) 0 = none := by decide
example : (destroyAll (runR [.copyAssign 1 0, .ctorDefault 1, .ctorValue 0 3]) [0, 1]).born 1 = 1 := by decide

-- before fixes/C09-optional-assign-from-empty.patch: `b = a` with `a` empty reads a payload that
-- does not exist and leaves `b` engaged although the last operation gave it nothing
example : (runR_prefix [.copyAssign 1 0, .ctorValue 1 2, .ctorDefault 0]).errs = [.readRaw] := by decide
example : obsHas (runR_prefix [.copyAssign 1 0, .ctorValue 1 2, .ctorDefault 0]) 1 = true
    ∧ held (Ref.runR [.copyAssign 1 0, .ctorValue 1 2, .ctorDefault 0]) 1 = none := by decide
example : (runR_prefix [.moveAssign 1 0, .ctorDefault 1, .ctorDefault 0]).errs = [.readRaw] := by decide
-- ... and the wrapper then dies with a payload nobody destroys / never constructed one it destroys
example : (runR_prefix [.convMoveAssign 1 0, .ctorDefault 1, .ctorDefault 0]).errs ≠ [] := by decide
-- before fixes/C09-optional-move-ctor-construct.patch: the move constructor assigns to raw storage
example : (runR_prefix [.ctorMove 1 0, .ctorValue 0 2]).errs = [.assignRaw] := by decide
-- the repaired code on the same histories
example : (runR [.copyAssign 1 0, .ctorValue 1 2, .ctorDefault 0]).errs = [] ∧
    (runR [.ctorMove 1 0, .ctorValue 0 2]).errs = [] := by decide

/-! ## Optional: storage alignment -/

/-- optional_aligned: for every payload size/alignment, every struct that has an `Optional<T>`
    member after arbitrary members `before` and in front of arbitrary members `after`, and every
    address `base` of that struct that is aligned for the struct, the payload storage of the
    Optional lies at a multiple of `alignof(T)`; and `alignof(Optional<T>)` is a multiple of
    `alignof(T)`. -/
theorem optional_aligned (t : Field) (before after : List Field) (base : Nat)
    (hbase : 2 ^ structAlignExp (before ++ structField (optionalFields t) :: after) ∣ base) :
    storageAddr base before (optionalFields t) % t.align = 0 ∧
    (structField (optionalFields t)).align % t.align = 0 := by
  have hopt : (structField (optionalFields t)).alignExp = t.alignExp := by
    simp [structField, optionalFields, structAlignExp]
  have halign : (structField (optionalFields t)).align = t.align := by
    simp [Field.align, hopt]
  have h1 : t.align ∣ base := by
    have hle := structAlignExp_ge before after (structField (optionalFields t))
    rw [hopt] at hle
    exact Nat.dvd_trans (Nat.pow_dvd_pow 2 hle) hbase
  have h2 : t.align ∣ offsetAfter 0 before (structField (optionalFields t)) := by
    have := offsetAfter_dvd 0 before (structField (optionalFields t))
    rwa [halign] at this
  have h3 : storageOffset (optionalFields t) = 0 := by
    have hpos : 0 < 2 ^ t.alignExp := Nat.two_pow_pos _
    simp only [storageOffset, optionalFields, roundUp, Field.align, Nat.zero_add]
    rw [Nat.div_eq_of_lt (by omega)]; simp
  refine ⟨?_, ?_⟩
  · apply Nat.mod_eq_zero_of_dvd
    simp only [storageAddr, h3, Nat.add_zero]
    exact Nat.dvd_add h1 h2
  · rw [halign]; exact Nat.mod_self _

-- the hypothesis is satisfiable and the conclusion is not trivial: struct { char c; Optional<double> o; } at 0x1000
example : 2 ^ structAlignExp ([⟨1, 0⟩] ++ structField (optionalFields ⟨8, 3⟩) :: []) ∣ 4096 := by decide
example : storageAddr 4096 [⟨1, 0⟩] (optionalFields ⟨8, 3⟩) = 4104 := by decide
-- before fixes/C09-optional-storage-alignment.patch the same struct puts the double at an odd address
example : storageAddr 4096 [⟨1, 0⟩] (optionalFields_prefix ⟨8, 3⟩) % (Field.align ⟨8, 3⟩) = 1 := by decide
example : 2 ^ structAlignExp ([⟨1, 0⟩] ++ structField (optionalFields_prefix ⟨8, 3⟩) :: []) ∣ 4096 := by decide

/-! ## Any -/

/-- any_refines: after every history over any number of Any objects, what each object holds is
    what the value-level reference semantics gives (assignment and copy construction copy the
    value, mutation through `get<T>()` changes only the object it is applied to) … -/
theorem any_refines (hist : List AOp) : absA (arunR hist) = ARef.runR hist := by
  induction hist with
  | nil => funext k; simp [absA, arunR, ARef.runR]
  | cons op earlier ih => simp only [arunR, ARef.runR, astep_abs op (ainv_runR earlier), ih]

/-- … and the holders are owned one-to-one: no lifetime error is recorded (no use after free, no
    double free), no two Any objects ever share a holder (copies are independent), and every
    allocated holder is owned by an Any (nothing leaks). -/
theorem any_ownership (hist : List AOp) :
    (arunR hist).errs = [] ∧
    (∀ i j h, (arunR hist).a i = some (some h) → (arunR hist).a j = some (some h) → i = j) ∧
    (∀ h, ((arunR hist).heap h).isSome = true → ∃ i, (arunR hist).a i = some (some h)) :=
  let inv := ainv_runR hist
  ⟨inv.noerr, inv.inj, inv.owned⟩

/-- Once every Any object is destroyed, every holder has been freed. -/
theorem any_no_leak (hist : List AOp) (h : ∀ i, (arunR hist).a i = none) (hd : Nat) :
    (arunR hist).heap hd = none := by
  cases hc : (arunR hist).heap hd with
  | none => rfl
  | some c =>
    obtain ⟨i, hi⟩ := (ainv_runR hist).owned hd (by simp [hc])
    simp [h i] at hi

/-- any_typed_get: `get<T>()` returns the stored value exactly when the stored type is `T`,
    throws otherwise (other type, empty Any, no object), and never touches a missing holder. -/
theorem any_typed_get (hist : List AOp) (i : Nat) (t : Tag) :
    (∀ x, anyGet (arunR hist) i t = .ok x ↔ ARef.runR hist i = some (some (t, x))) ∧
    (anyGet (arunR hist) i t = .throws ↔ ¬ ∃ x, ARef.runR hist i = some (some (t, x))) ∧
    anyGet (arunR hist) i t ≠ .crash := by
  rw [← any_refines]
  rcases any_shapes (ainv_runR hist) i with h1 | h1 | ⟨hd, c, h1, hc, _⟩
  · simp [anyGet, absA, h1]
  · simp [anyGet, absA, h1]
  · obtain ⟨t', v⟩ := c
    by_cases ht : t' = t <;> simp [anyGet, absA, h1, hc, ht]

/-- `is<T>()` and `valid()` say what the reference state says. -/
theorem any_is_valid (hist : List AOp) (i : Nat) (t : Tag) :
    (anyIs (arunR hist) i t = true ↔ ∃ x, ARef.runR hist i = some (some (t, x))) ∧
    (anyValid (arunR hist) i = true ↔ ∃ c, ARef.runR hist i = some (some c)) := by
  rw [← any_refines]
  rcases any_shapes (ainv_runR hist) i with h1 | h1 | ⟨hd, c, h1, hc, _⟩
  · simp [anyIs, anyValid, absA, h1]
  · simp [anyIs, anyValid, absA, h1]
  · obtain ⟨t', v⟩ := c
    by_cases ht : t' = t <;> simp [anyIs, anyValid, absA, h1, hc, ht]

/-- reference meaning of `a == b` for two Any objects (rkcommon: an empty Any equals only an empty
    one; a type without `operator==` never compares equal, not even to itself) -/
def refAnyEq (a b : Option (Tag × Nat)) : Bool :=
  match a with
  | none => b.isNone
  | some c => isSame c b

/-- any_total: in every history, comparing two Any objects and printing one — engaged or empty —
    never dereference a null or dangling holder, and they compute the reference results. -/
theorem any_total (hist : List AOp) (i j : Nat) (a b : Option (Tag × Nat))
    (hi : ARef.runR hist i = some a) (hj : ARef.runR hist j = some b) :
    anyEq (arunR hist) i j = some (refAnyEq a b) ∧
    anyToString (arunR hist) i = some (a.map Prod.fst) := by
  rw [← any_refines] at hi hj
  rcases any_shapes (ainv_runR hist) i with h1 | h1 | ⟨hd, c, h1, hc, _⟩ <;>
  rcases any_shapes (ainv_runR hist) j with g1 | g1 | ⟨gd, d, g1, gc, _⟩ <;>
    simp [absA, *] at hi hj <;> subst hi <;> subst hj <;>
    simp [anyEq, anyToString, refAnyEq, deref, *]

/-- comparing or printing never hits the error value, whatever objects exist -/
theorem any_total' (hist : List AOp) (i j : Nat) :
    (anyEq (arunR hist) i j).isSome = true ∧ (anyToString (arunR hist) i).isSome = true := by
  rcases any_shapes (ainv_runR hist) i with h1 | h1 | ⟨hd, c, h1, hc, _⟩ <;>
  rcases any_shapes (ainv_runR hist) j with g1 | g1 | ⟨gd, d, g1, gc, _⟩ <;>
    simp_all [anyEq, anyToString]

/-! ### Non-vacuity and the pre-repair code (Any) -/

example : ARef.runR [.mutate 1 .int 5, .ctorCopy 1 0, .ctorValue 0 .int 2] 0 = some (some (.int, 2)) := by decide
example : ARef.runR [.mutate 1 .int 5, .ctorCopy 1 0, .ctorValue 0 .int 2] 1 = some (some (.int, 5)) := by decide
example : anyGet (arunR [.ctorValue 0 .int 2]) 0 .float = .throws ∧ anyGet (arunR [.ctorValue 0 .int 2]) 0 .int = .ok 2 := by decide
example : ∀ i, (arunR [.dtor 0, .dtor 1, .assign 1 0, .ctorValue 1 .trk 1, .ctorValue 0 .int 2]).a i = none := by
  intro i; by_cases h0 : i = 0 <;> by_cases h1 : i = 1 <;> simp [arunR, astep, adtor, aclear, apresent, free, alloc, clone, upd, h0, h1]
-- before fixes/C09-any-empty-equals.patch: `Any() == Any(1)` dereferences the null holder
example : anyEq_prefix (arunR [.ctorValue 1 .int 1, .ctorDefault 0]) 0 1 = none := by decide
example : anyEq (arunR [.ctorValue 1 .int 1, .ctorDefault 0]) 0 1 = some false := by decide
-- before fixes/C09-any-empty-tostring.patch: `Any().toString()` dereferences the null holder
example : anyToString_prefix (arunR [.ctorDefault 0]) 0 = none := by decide
example : anyToString (arunR [.ctorDefault 0]) 0 = some none := by decide

end RkVerif.C09
