/-
Property C15 — stream serialization round-trips and never leaves its buffer.
Property theorems only (model: Model/C15.lean, helpers: Lemmas/C15.lean).
Every theorem declared in this module is an audited proof obligation of the check.

Conventions: `W = 2^64`; `Res.fault` = a memory access outside the stream's buffer;
`Reader.Inv` / `FixedW.Inv` = "buffer size is a size_t and the cursor is inside the buffer" — an
invariant of every history (theorems `reader_history_safe`, `fixedwriter_accounting`), not an assumption
about the caller.
-/
import RkVerif.Lemmas.C15
set_option linter.unusedVariables false

namespace RkVerif.C15

/-! ## 1. The format round-trips (no cursors yet) -/

/-- decode_encode: for every well-typed value of every type (nested vectors included) decoding
    the encoding returns the value and exactly the bytes that followed it. -/
theorem decode_encode (t : Ty) (v : Val) (rest : List UInt8) (h : WT t v) :
    decode t (encode v ++ rest) = .ok (v, rest) :=
  decode_encode' t v rest h

/-- … and for every sequence of typed values. -/
theorem decodeAll_encodeL (ts : List Ty) (vs : List Val) (rest : List UInt8) (h : WTL ts vs) :
    decodeAll ts (encodeL vs ++ rest) = .ok (vs, rest) :=
  decodeAll_encodeL' ts vs h rest

/-- decode_truncated (format level): every proper prefix of an encoding makes decoding throw. -/
theorem decode_truncated (t : Ty) (v : Val) (m : Nat) (h : WT t v) (hm : m < (encode v).length) :
    decode t ((encode v).take m) = .throw :=
  decode_truncated' t v m h hm

theorem decodeAll_truncated (ts : List Ty) (vs : List Val) (m : Nat) (h : WTL ts vs)
    (hm : m < (encodeL vs).length) : decodeAll ts ((encodeL vs).take m) = .throw :=
  decodeAll_truncated' ts vs h m hm

/-- The length prefix survives: 8 little-endian bytes hold every size_t. -/
theorem length_prefix_roundtrip (n : Nat) (h : n < W) : (le64 n).length = 8 ∧ leVal (le64 n) = n :=
  ⟨le64_length n, leVal_le64 n h⟩

/-! ## 2. The guards, in 64-bit arithmetic, are sound and complete -/

/-- guards_sound (BufferReader::read): when the guard lets a read through, `cursor + size` —
    as natural numbers, for *any* `size`, however close to 2^64 — is inside the buffer. -/
theorem guards_sound_read (r : Reader) (h : r.Inv) (size : Nat) (hp : r.rejects size = false) :
    r.cursor + size ≤ r.buf.length := by
  have := Reader.rejects_iff r h size
  rw [hp] at this
  simpa using this

/-- guards_sound (BufferReader::getView<T>, `k = sizeof(T) ≥ 1`): neither the product nor the sum wraps. -/
theorem guards_sound_view (r : Reader) (h : r.Inv) (count k : Nat) (hk : 0 < k)
    (hp : r.rejectsView count k = false) : r.cursor + count * k ≤ r.buf.length := by
  have := Reader.rejectsView_iff r h count k hk
  rw [hp] at this
  simpa using this

/-- guards_sound (FixedBufferWriter::write / reserve). -/
theorem guards_sound_write (w : FixedW) (h : w.Inv) (size : Nat) (hp : w.rejects size = false) :
    w.cursor + size ≤ w.mem.length := by
  have := FixedW.rejects_iff w h size
  rw [hp] at this
  simpa using this

/-- The guards reject nothing that fits (reader, view, writer). -/
theorem guards_complete (r : Reader) (hr : r.Inv) (w : FixedW) (hw : w.Inv) (size count k : Nat) (hk : 0 < k) :
    (r.cursor + size ≤ r.buf.length → r.rejects size = false) ∧
    (r.cursor + count * k ≤ r.buf.length → r.rejectsView count k = false) ∧
    (w.cursor + size ≤ w.mem.length → w.rejects size = false) := by
  refine ⟨fun h => ?_, fun h => ?_, fun h => ?_⟩
  · cases hx : r.rejects size
    · rfl
    · exact absurd h ((Reader.rejects_iff r hr size).mp hx)
  · cases hx : r.rejectsView count k
    · rfl
    · exact absurd h ((Reader.rejectsView_iff r hr count k hk).mp hx)
  · cases hx : w.rejects size
    · rfl
    · exact absurd h ((FixedW.rejects_iff w hw size).mp hx)

/-- The guard of the unrepaired BufferReader (`cursor + size > size()`) is *not* sound: cursor 1 in an
    8-byte buffer, size 2^64-1: the sum wraps to 0 and the read is let through. -/
theorem old_reader_guard_unsound :
    ∃ cursor size n, cursor ≤ n ∧ n < W ∧ size < W ∧
      oldReaderRejects cursor size n = false ∧ ¬ (cursor + size ≤ n) :=
  ⟨1, W - 1, 8, by decide⟩

/-- The guard of the unrepaired FixedBufferWriter (`cursor + size >= size()`) rejects an exact fit
    (4 bytes into an empty 4-byte writer) and is let through by wrap-around as well. -/
theorem old_writer_guard_wrong :
    oldWriterRejects 0 4 4 = true ∧
    (∃ cursor size n, cursor ≤ n ∧ n < W ∧ size < W ∧
      oldWriterRejects cursor size n = false ∧ ¬ (cursor + size ≤ n)) :=
  ⟨by decide, ⟨2, W - 1, 8, by decide⟩⟩

/-! ## 3. BufferReader: every history stays inside the buffer -/

/-- raw operations of a BufferReader -/
inductive ROp where
  | read (size : Nat)
  | view (count k : Nat)

def Reader.apply (r : Reader) : ROp → Res (List UInt8 × Reader)
  | .read s => r.read s
  | .view c k => r.getView c k

/-- an exception leaves the reader as it is -/
def Reader.step (r : Reader) (op : ROp) : Reader :=
  match r.apply op with
  | .ok (_, r') => r'
  | _ => r

def Reader.runR (buf : List UInt8) : List ROp → Reader
  | [] => ⟨buf, 0⟩
  | op :: earlier => (Reader.runR buf earlier).step op

def ROp.ok : ROp → Prop
  | .read _ => True
  | .view _ k => 0 < k

theorem reader_step_safe (r : Reader) (h : r.Inv) (op : ROp) (hop : op.ok) :
    r.apply op ≠ .fault ∧ (r.step op).Inv ∧ (r.step op).buf = r.buf := by
  cases op with
  | read s =>
    simp only [Reader.step, Reader.apply, Reader.read_spec r h s]
    split <;> simp_all [Reader.Inv]
  | view c k =>
    simp only [Reader.step, Reader.apply, Reader.getView_spec r h c k hop]
    split <;> simp_all [Reader.Inv]

/-- reader_history_safe: after *every* history of raw reads and views (any sizes, failing ones
    included) the cursor is inside the buffer, the buffer is unchanged, and the next operation —
    whatever it is — does not touch memory outside the buffer. Typed reads are compositions of
    these raw operations. -/
theorem reader_history_safe (buf : List UInt8) (hb : buf.length < W) (hist : List ROp)
    (hok : ∀ op ∈ hist, op.ok) :
    (Reader.runR buf hist).Inv ∧ (Reader.runR buf hist).buf = buf ∧
    ∀ op, op.ok → (Reader.runR buf hist).apply op ≠ .fault := by
  induction hist with
  | nil =>
    have hi : (Reader.runR buf []).Inv := ⟨hb, Nat.zero_le _⟩
    exact ⟨hi, rfl, fun op hop => (reader_step_safe _ hi op hop).1⟩
  | cons op earlier ih =>
    obtain ⟨hi, hbuf, _⟩ := ih (fun o ho => hok o (by simp [ho]))
    have hs := reader_step_safe _ hi op (hok op (by simp))
    have hi' : (Reader.runR buf (op :: earlier)).Inv := hs.2.1
    exact ⟨hi', by simp only [Reader.runR]; rw [hs.2.2, hbuf],
      fun o ho => (reader_step_safe _ hi' o ho).1⟩

/-- A raw read returns exactly the next `size` bytes and advances by `size`, or throws and changes
    nothing; it succeeds exactly when the bytes are there. -/
theorem reader_read_exact (r : Reader) (h : r.Inv) (size : Nat) :
    (r.cursor + size ≤ r.buf.length →
      r.read size = .ok ((r.buf.drop r.cursor).take size, ⟨r.buf, r.cursor + size⟩)) ∧
    (¬ r.cursor + size ≤ r.buf.length → r.read size = .throw) := by
  rw [Reader.read_spec r h size]
  constructor <;> intro hh <;> simp [hh]

/-- Typed reads on *arbitrary* buffer contents (truncated, corrupt, anything): never a fault; they
    agree with the cursor-free decoder; on success the cursor has advanced by exactly the bytes the
    decoder consumed and is still inside the buffer. -/
theorem reader_typed_safe (ts : List Ty) (r : Reader) (h : r.Inv) :
    readAll ts r ≠ .fault ∧
    (∀ vs r', readAll ts r = .ok (vs, r') →
      r'.Inv ∧ r'.buf = r.buf ∧ decodeAll ts (r.buf.drop r.cursor) = .ok (vs, r.buf.drop r'.cursor)) ∧
    (readAll ts r = .throw ↔ decodeAll ts (r.buf.drop r.cursor) = .throw) := by
  have hs := readAll_sim ts (B := r.buf) (r := r) (bs := r.buf.drop r.cursor) ⟨h, rfl, rfl⟩
  cases hr : readAll ts r with
  | ok x =>
    cases hd : decodeAll ts (r.buf.drop r.cursor) with
    | ok y =>
      rw [hr, hd] at hs
      obtain ⟨h1, h2, h3, h4⟩ := hs
      refine ⟨by simp, fun vs r' he => ?_, by simp⟩
      cases he
      refine ⟨h2, h3, ?_⟩
      rw [← h3, h4]
      cases y; simp_all
    | throw => rw [hr, hd] at hs; exact absurd hs (by simp [RelRes])
    | fault => rw [hr, hd] at hs; exact absurd hs (by simp [RelRes])
  | throw =>
    cases hd : decodeAll ts (r.buf.drop r.cursor) <;> rw [hr, hd] at hs <;> simp_all [RelRes]
  | fault =>
    cases hd : decodeAll ts (r.buf.drop r.cursor) <;> rw [hr, hd] at hs <;> simp_all [RelRes]

/-! ## 4. Round trip through the real streams -/

theorem cursor_of_drop {B rest : List UInt8} {c : Nat} (hc : c ≤ B.length) (h : B.drop c = rest) :
    c = B.length - rest.length := by
  have := congrArg List.length h
  simp at this
  omega

/-- reader_roundtrip: a BufferReader positioned at the start of the encoding of any well-typed value
    sequence (anything before, anything after) reads back exactly those values and ends up exactly
    behind them. -/
theorem reader_roundtrip (ts : List Ty) (vs : List Val) (h : WTL ts vs) (pre rest : List UInt8)
    (hlen : (pre ++ encodeL vs ++ rest).length < W) :
    readAll ts ⟨pre ++ encodeL vs ++ rest, pre.length⟩ =
      .ok (vs, ⟨pre ++ encodeL vs ++ rest, pre.length + (encodeL vs).length⟩) := by
  have hsim : SimB (pre ++ encodeL vs ++ rest) ⟨pre ++ encodeL vs ++ rest, pre.length⟩ (encodeL vs ++ rest) := by
    refine ⟨⟨hlen, by simp⟩, rfl, ?_⟩
    simp [List.append_assoc]
  have hs := readAll_sim ts hsim
  rw [decodeAll_encodeL' ts vs h rest] at hs
  cases hr : readAll ts ⟨pre ++ encodeL vs ++ rest, pre.length⟩ with
  | ok x =>
    rw [hr] at hs
    obtain ⟨h1, ⟨_, h2c⟩, h3, h4⟩ := hs
    obtain ⟨xv, xr⟩ := x
    obtain ⟨xb, xc⟩ := xr
    simp only at h1 h2c h3 h4
    subst h1 h3
    have := cursor_of_drop h2c h4
    simp only [List.length_append] at this
    congr 3
    omega
  | throw => rw [hr] at hs; exact absurd hs (by simp [RelRes])
  | fault => rw [hr] at hs; exact absurd hs (by simp [RelRes])

/-- size_calc_exact: whatever was written before, BufferWriter appends exactly `encodeL vs` (earlier
    bytes untouched, no fault while growing) and WriteSizeCalculator counts exactly that many bytes. -/
theorem size_calc_exact (vs : List Val) (w : BufW) (c : SizeCalc) (hc : c.written < W) :
    w.writeChunks (chunksL vs) = .ok ⟨w.buf ++ encodeL vs⟩ ∧
    (c.writeChunks (chunksL vs)).written = (c.written + (encodeL vs).length) % W := by
  exact ⟨BufW.writeChunks_eq w _, SizeCalc.writeChunks_written c hc _⟩

/-- … in particular, from fresh streams and below 2^64 bytes, the prediction is the buffer size. -/
theorem size_calc_predicts (vs : List Val) (hlen : (encodeL vs).length < W) :
    ∃ w, (BufW.mk []).writeChunks (chunksL vs) = .ok w ∧ w.buf = encodeL vs ∧
      ((SizeCalc.mk 0).writeChunks (chunksL vs)).written = w.buf.length := by
  refine ⟨⟨encodeL vs⟩, ?_, rfl, ?_⟩
  · rw [BufW.writeChunks_eq]; simp [encodeL]
  · rw [SizeCalc.writeChunks_written ⟨0⟩ (by decide)]
    simp only [Nat.zero_add]
    exact Nat.mod_eq_of_lt hlen

/-! ### a reader on an array that changes between its calls

`BufferReader` holds a `shared_ptr` to the array and asks it for `size()` and `begin()` at every call; the array may be
the live buffer of a `BufferWriter` that keeps writing, or may have been emptied (its bytes moved out). -/

/-- reader_sees_appended: a read that succeeds on the array as it is returns the same bytes and the same cursor
    after any bytes were appended to the array, and once enough bytes have been appended every read succeeds. -/
theorem reader_sees_appended (buf ext : List UInt8) (c size : Nat) (hlen : (buf ++ ext).length < W) (hc : c ≤ buf.length) :
    (c + size ≤ buf.length →
      (Reader.mk (buf ++ ext) c).read size = (match (Reader.mk buf c).read size with
        | .ok (bs, r') => .ok (bs, ⟨buf ++ ext, r'.cursor⟩)
        | o => o)) ∧
    (c + size ≤ (buf ++ ext).length →
      (Reader.mk (buf ++ ext) c).read size = .ok (((buf ++ ext).drop c).take size, ⟨buf ++ ext, c + size⟩)) := by
  have hl : buf.length ≤ (buf ++ ext).length := by simp
  have hi1 : (Reader.mk buf c).Inv := ⟨by simp only; omega, hc⟩
  have hi2 : (Reader.mk (buf ++ ext) c).Inv := ⟨hlen, by simp only; omega⟩
  rw [Reader.read_spec _ hi1 size, Reader.read_spec _ hi2 size]
  simp only
  constructor
  · intro h
    have h2 : c + size ≤ (buf ++ ext).length := by omega
    rw [if_pos h, if_pos h2]
    simp only [Res.ok.injEq, Prod.mk.injEq, and_true]
    rw [List.drop_append_of_le_length hc, List.take_append_of_le_length (by simp; omega)]
  · intro h
    rw [if_pos h]

/-- stale_cursor_throws: when the array has become shorter than the reader's cursor (its bytes were moved out, it
    was reset), every read and every view throws — nothing is read — and `end()` is true. -/
theorem stale_cursor_throws (buf : List UInt8) (c : Nat) (hc : buf.length < c) (size count k : Nat) :
    (Reader.mk buf c).read size = .throw ∧ (Reader.mk buf c).getView count k = .throw ∧ (Reader.mk buf c).atEnd = true := by
  have h1 : (Reader.mk buf c).rejects size = true := by
    simp only [Reader.rejects, Reader.size, Bool.or_eq_true, decide_eq_true_eq]; exact Or.inl hc
  have h2 : (Reader.mk buf c).rejectsView count k = true := by
    simp only [Reader.rejectsView, Reader.size, Bool.or_eq_true, decide_eq_true_eq]; exact Or.inl hc
  refine ⟨by simp [Reader.read, h1], by simp [Reader.getView, h2], ?_⟩
  simp only [Reader.atEnd, Reader.size, ge_iff_le, decide_eq_true_eq]; omega

-- non-vacuity: the reader of the harness' `live_case`: one byte written, read; three more appended, read
example : (Reader.mk [1] 0).read 1 = .ok ([1], ⟨[1], 1⟩) ∧ (Reader.mk [1, 2, 3, 4] 1).read 3 = .ok ([2, 3, 4], ⟨[1, 2, 3, 4], 4⟩) ∧
    (Reader.mk [] 4).read 0 = .throw := ⟨by rfl, by rfl, by rfl⟩

theorem atEnd_iff (r : Reader) (h : r.Inv) : r.atEnd = true ↔ r.buf.drop r.cursor = [] := by
  obtain ⟨_, h2⟩ := h
  simp only [Reader.atEnd, Reader.size, ge_iff_le, decide_eq_true_eq, List.drop_eq_nil_iff]

theorem WTL_take (ts : List Ty) (vs : List Val) (h : WTL ts vs) (j : Nat) : WTL (ts.take j) (vs.take j) := by
  induction ts generalizing vs j with
  | nil => cases vs <;> simp_all [WTL]
  | cons t ts ih =>
    cases vs with
    | nil => simp [WTL] at h
    | cons v vs =>
      cases j with
      | zero => simp [WTL]
      | succ j => simp only [WTL, List.take_succ_cons] at h ⊢; exact ⟨h.1, ih vs h.2 j⟩

/-- end_iff_consumed: write any well-typed sequence through a BufferWriter, open a BufferReader on
    the result, read the first `j` values back: they are the first `j` values written, and `end()` is
    true exactly when no written byte is left, i.e. when everything that was written has been read. -/
theorem end_iff_consumed (ts : List Ty) (vs : List Val) (h : WTL ts vs) (hlen : (encodeL vs).length < W)
    (j : Nat) :
    ∃ r', readAll (ts.take j) ⟨encodeL vs, 0⟩ = .ok (vs.take j, r') ∧
      r'.cursor = (encodeL (vs.take j)).length ∧
      (r'.atEnd = true ↔ (encodeL (vs.drop j)).length = 0) := by
  have hsplit : encodeL vs = [] ++ encodeL (vs.take j) ++ encodeL (vs.drop j) := by
    rw [List.nil_append, ← encodeL_append, List.take_append_drop]
  have hrt := reader_roundtrip (ts.take j) (vs.take j) (WTL_take ts vs h j) [] (encodeL (vs.drop j))
    (by rw [← hsplit]; exact hlen)
  rw [← hsplit] at hrt
  simp only [List.length_nil, Nat.zero_add] at hrt
  refine ⟨_, hrt, rfl, ?_⟩
  have hl : (encodeL vs).length = (encodeL (vs.take j)).length + (encodeL (vs.drop j)).length := by
    conv => lhs; rw [hsplit]
    simp
  simp only [Reader.atEnd, Reader.size, ge_iff_le, decide_eq_true_eq]
  omega

/-- decode_truncated at the reader: open a BufferReader on *any proper prefix* of the written bytes
    (anything may precede it in the buffer) and read the written types back: an exception, never a
    fault — no index ≥ the prefix length is read. -/
theorem reader_truncated (ts : List Ty) (vs : List Val) (h : WTL ts vs) (m : Nat)
    (hm : m < (encodeL vs).length) (pre : List UInt8) (hlen : (pre ++ (encodeL vs).take m).length < W) :
    readAll ts ⟨pre ++ (encodeL vs).take m, pre.length⟩ = .throw := by
  have hi : (Reader.mk (pre ++ (encodeL vs).take m) pre.length).Inv := ⟨hlen, by simp⟩
  have := (reader_typed_safe ts _ hi).2.2
  simp only [List.drop_left] at this
  exact this.mpr (decodeAll_truncated' ts vs h m hm)

/-- … while every value that lies completely before the cut is still read back correctly. -/
theorem reader_truncated_prefix_ok (ts : List Ty) (vs : List Val) (h : WTL ts vs) (m j : Nat)
    (hj : (encodeL (vs.take j)).length ≤ m) (hlen : (encodeL vs).length < W) :
    ∃ r', readAll (ts.take j) ⟨(encodeL vs).take m, 0⟩ = .ok (vs.take j, r') ∧
      r'.cursor = (encodeL (vs.take j)).length := by
  have hsplit : (encodeL vs).take m =
      [] ++ encodeL (vs.take j) ++ (encodeL (vs.drop j)).take (m - (encodeL (vs.take j)).length) := by
    conv => lhs; rw [← List.take_append_drop j vs, encodeL_append, List.take_append]
    rw [List.take_of_length_le hj]; simp
  have hrt := reader_roundtrip (ts.take j) (vs.take j) (WTL_take ts vs h j) []
    ((encodeL (vs.drop j)).take (m - (encodeL (vs.take j)).length))
    (by rw [← hsplit]; simp; omega)
  rw [← hsplit] at hrt
  exact ⟨_, hrt, by simp⟩

/-! ## 5. FixedBufferWriter -/

theorem available_eq (w : FixedW) (h : w.Inv) : w.available = w.mem.length - w.cursor :=
  sub64_of_le h.2 h.1

/-- fixedwriter_accepts_iff_fits: `write` and `reserve` (any size, including exact fit, one over,
    and sizes near 2^64) are accepted exactly when `size ≤ available()`; everything else throws
    (never a fault). -/
theorem fixedwriter_accepts_iff_fits (w : FixedW) (h : w.Inv) (size : Nat) (src : Nat → UInt8) :
    (size ≤ w.available → (∃ w', w.write size src = .ok w') ∧ (∃ x, w.reserve size = .ok x)) ∧
    (¬ size ≤ w.available → w.write size src = .throw ∧ w.reserve size = .throw) := by
  rw [available_eq w h]
  have hr := FixedW.rejects_iff w h size
  have h2 := h.2
  constructor
  · intro hfit
    have hf : w.cursor + size ≤ w.mem.length := by omega
    have : w.rejects size = false := by
      cases hx : w.rejects size
      · rfl
      · exact absurd hf (hr.mp hx)
    exact ⟨⟨w.put (srcBytes size src), by rw [FixedW.write_spec w h]; simp [hf]⟩,
      ⟨(w.cursor, { w with cursor := add64 w.cursor size }), by simp [FixedW.reserve, this]⟩⟩
  · intro hfit
    have hf : ¬ w.cursor + size ≤ w.mem.length := by omega
    have : w.rejects size = true := hr.mpr hf
    exact ⟨by rw [FixedW.write_spec w h]; simp [hf], by simp [FixedW.reserve, this]⟩

/-- Reference semantics of a history on natural numbers without any wrap-around: the bytes
    written so far; an operation is accepted iff it fits behind them. -/
def specRun (cap : Nat) : List FOp → List UInt8
  | [] => []
  | op :: earlier =>
    let done := specRun cap earlier
    if done.length + op.size ≤ cap then done ++ srcBytes op.size op.src else done

theorem FixedW.apply_spec (w : FixedW) (h : w.Inv) (op : FOp) :
    w.apply op =
      if w.cursor + op.size ≤ w.mem.length then .ok (w.put (srcBytes op.size op.src)) else .throw := by
  cases op with
  | write s f => exact FixedW.write_spec w h s f
  | reserve s f => exact FixedW.reserveFill_spec w h s f

/-- fixedwriter_refines: after *every* history of writes and reservations (any sizes) on a writer
    of any capacity, the writer is: cursor = number of bytes of the accepted operations, buffer =
    those bytes followed by the untouched remainder of the initial buffer. Rejected operations
    leave no trace (fixedwriter_failed_write_noop is the `else` branch of `specRun`). -/
theorem fixedwriter_refines (init : List UInt8) (hcap : init.length < W) (hist : List FOp) :
    (specRun init.length hist).length ≤ init.length ∧
    (FixedW.runR init hist).cursor = (specRun init.length hist).length ∧
    (FixedW.runR init hist).mem = specRun init.length hist ++ init.drop (specRun init.length hist).length := by
  induction hist with
  | nil => simp [FixedW.runR, FixedW.new, specRun]
  | cons op earlier ih =>
    obtain ⟨h1, h2, h3⟩ := ih
    have hml : (FixedW.runR init earlier).mem.length = init.length := by rw [h3]; simp; omega
    have hi : (FixedW.runR init earlier).Inv := ⟨by rw [hml]; exact hcap, by rw [hml, h2]; exact h1⟩
    simp only [FixedW.runR, FixedW.step, FixedW.apply_spec _ hi op, specRun, hml, h2]
    by_cases hfit : (specRun init.length earlier).length + op.size ≤ init.length
    · simp only [hfit, if_true, FixedW.put, List.length_append, srcBytes_length, h2, h3, true_and]
      rw [List.take_left' rfl, List.drop_append, List.drop_of_length_le (by omega)]
      simp only [List.nil_append, List.drop_drop]
      congr 2; omega
    · simp only [hfit, if_false]
      exact ⟨h1, h2, h3⟩

/-- fixedwriter_failed_write_noop: an operation that throws changes nothing at all. -/
theorem fixedwriter_failed_write_noop (w : FixedW) (op : FOp) (h : w.apply op = .throw) : w.step op = w := by
  simp [FixedW.step, h]

/-- fixedwriter_accounting: after every history, `capacity()` is the constructor argument,
    `available() + written = capacity()`, `getWrittenView()` is exactly the accepted bytes in order,
    and the next operation, whatever it is, does not fault. -/
theorem fixedwriter_accounting (init : List UInt8) (hcap : init.length < W) (hist : List FOp) :
    (FixedW.runR init hist).Inv ∧ (FixedW.runR init hist).capacity = init.length ∧
    (FixedW.runR init hist).available + (FixedW.runR init hist).cursor = (FixedW.runR init hist).capacity ∧
    (FixedW.runR init hist).writtenView = some (specRun init.length hist) ∧
    (∀ op, (FixedW.runR init hist).apply op ≠ .fault) := by
  obtain ⟨h1, h2, h3⟩ := fixedwriter_refines init hcap hist
  have hml : (FixedW.runR init hist).mem.length = init.length := by rw [h3]; simp; omega
  have hi : (FixedW.runR init hist).Inv := ⟨by rw [hml]; exact hcap, by rw [hml, h2]; exact h1⟩
  refine ⟨hi, hml, ?_, ?_, fun op => ?_⟩
  · rw [available_eq _ hi]; have := hi.2; simp only [FixedW.capacity]; omega
  · simp only [FixedW.writtenView, slice?, h2, h3]
    by_cases hz : (specRun init.length hist).length = 0
    · simp [List.eq_nil_of_length_eq_zero hz]
    · simp [hz]
  · rw [FixedW.apply_spec _ hi op]; split <;> simp

/-- Typed writes (`fixedWriter << v`): the whole value sequence goes through exactly when its
    encoding fits into `available()`; then exactly `encodeL vs` is stored at the cursor. Otherwise an
    exception (never a fault). -/
theorem fixedwriter_typed_iff_fits (w : FixedW) (h : w.Inv) (vs : List Val) :
    ((encodeL vs).length ≤ w.available → w.writeChunks (chunksL vs) = .ok (w.put (encodeL vs))) ∧
    (¬ (encodeL vs).length ≤ w.available → w.writeChunks (chunksL vs) = .throw) := by
  rw [available_eq w h, FixedW.writeChunks_spec w h]
  have h2 := h.2
  have e : (encodeL vs).length = (chunksL vs).flatten.length := rfl
  rw [e]
  constructor <;> intro hf
  · have : w.cursor + (chunksL vs).flatten.length ≤ w.mem.length := by omega
    simp only [this, if_true]; rfl
  · have : ¬ w.cursor + (chunksL vs).flatten.length ≤ w.mem.length := by omega
    simp only [this, if_false]

/-- Round trip FixedBufferWriter → getWrittenView() → BufferReader. -/
theorem roundtrip_through_fixedwriter (ts : List Ty) (vs : List Val) (h : WTL ts vs) (init : List UInt8)
    (hcap : init.length < W) (hfit : (encodeL vs).length ≤ init.length) :
    ∃ w view r', (FixedW.new init).writeChunks (chunksL vs) = .ok w ∧ w.writtenView = some view ∧
      view = encodeL vs ∧ readAll ts ⟨view, 0⟩ = .ok (vs, r') ∧ r'.atEnd = true := by
  have hi : (FixedW.new init).Inv := ⟨hcap, Nat.zero_le _⟩
  have hw := (fixedwriter_typed_iff_fits (FixedW.new init) hi vs).1
    (by rw [available_eq _ hi]; simpa [FixedW.new] using hfit)
  have hrt := reader_roundtrip ts vs h [] [] (by simp; omega)
  simp only [List.nil_append, List.append_nil, List.length_nil, Nat.zero_add] at hrt
  refine ⟨_, encodeL vs, _, hw, ?_, rfl, hrt, by simp [Reader.atEnd]⟩
  simp only [FixedW.writtenView, FixedW.put, FixedW.new, slice?, List.take_zero, List.nil_append,
    Nat.zero_add]
  by_cases hz : (encodeL vs).length = 0
  · simp [List.eq_nil_of_length_eq_zero hz]
  · simp [hz]

/-! ## 6. Non-vacuity: the hypotheses are satisfiable and the theorems say something -/

/-- vector<vector<int32>> {{1},{}} , a string, an array of two 2-byte elements -/
def exTs : List Ty := [.vec (.vec (.pod 4)), .str, .arr 2]
def exVs : List Val :=
  [.vec [.vec [.pod [1, 0, 0, 0]], .vec []], .str [104, 105], .arr 2 [1, 2, 3, 4]]

example : WTL exTs exVs := by
  simp [exTs, exVs, WTL, WT, W]

example : (encodeL exVs).length = 50 := by decide
example : encode (.str []) = [0, 0, 0, 0, 0, 0, 0, 0] := by decide
example : encode (.arr 2 [1, 2, 3, 4]) = [2, 0, 0, 0, 0, 0, 0, 0, 1, 2, 3, 4] := by decide
/-- a FixedBufferWriter in the middle of its buffer satisfies the invariant; exact fit is accepted,
    one more byte is not -/
example : (FixedW.mk [0, 0, 0, 0] 1).Inv := by simp [FixedW.Inv, W]
example : (FixedW.mk [0, 0, 0, 0] 1).rejects 3 = false ∧ (FixedW.mk [0, 0, 0, 0] 1).rejects 4 = true ∧
    (FixedW.mk [0, 0, 0, 0] 1).rejects (W - 1) = true := by decide
example : (Reader.mk [1, 2, 3] 3).Inv ∧ (Reader.mk [1, 2, 3] 3).atEnd = true ∧
    (Reader.mk [1, 2, 3] 2).atEnd = false := by simp [Reader.Inv, Reader.atEnd, Reader.size, W]
/-- a rejected and an accepted operation in one history -/
example : specRun 4 [.write 2 (fun _ => 7), .write 5 (fun _ => 9), .reserve 2 (fun _ => 1)] = [1, 1, 7, 7] := by
  decide

end RkVerif.C15
