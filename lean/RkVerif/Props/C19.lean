/-
Property C19 — observers see each notification once; time stamps are unique and increasing.
Property theorems only (model: Model/C19.lean, helpers: Lemmas/C19.lean).
Every theorem declared in this module is an audited proof obligation of the check.

Histories are most-recent-first lists of operations (`op :: earlier`); `runC` is the model of the
code (stamps, registration lists, pointers with explicit liveness), `runA` the specification with
one `pending` bit per observer.  Operations that do not apply (creating into an occupied slot,
using an empty slot) are skipped by both, so the theorems hold for *every* list of operations.
-/
import RkVerif.Lemmas.C19
set_option linter.unusedVariables false

namespace RkVerif.C19

/-! ## Observers -/

/-- observer_refines: for every history the code model produces exactly the outputs of the
    `pending`-bit specification (every `wasNotified()` result, every ok/skip). -/
theorem observer_refines (hist : List Op) : (runC hist).2 = (runA hist).2 := (run_rel hist).2

/-- the same for the next operation after any history (used below for `wasNotified`). -/
theorem observer_refines_next (hist : List Op) (op : Op) :
    (stepC (runC hist).1 op).2 = (stepA (runA hist).1 op).2 := (sim_step (run_rel hist).1 op).2

/-- no_dangling: in no history does the code dereference a pointer to a destroyed object
    (`fault` is set by the model whenever `observee->…` or `observer->…` hits a dead slot) —
    whatever the order in which observables and observers are destroyed, copied or assigned. -/
theorem no_dangling (hist : List Op) : (runC hist).1.fault = false := (run_rel hist).1.nofault

/-- no_dangling, structural form: after every history each live observer's `observee` is null or a
    live observable, and the registration list of each live observable holds exactly the live
    observers that point at it. -/
theorem no_dangling_pointers (hist : List Op) :
    (∀ o c b, (runC hist).1.obr o = some c → c.observee = some b → ((runC hist).1.obl b).isSome = true) ∧
    (∀ b B o, (runC hist).1.obl b = some B →
      (o ∈ B.observers ↔ ∃ c, (runC hist).1.obr o = some c ∧ c.observee = some b)) :=
  ⟨(run_rel hist).1.live_target, (run_rel hist).1.reg⟩

/-- What `wasNotified()` of the observer in slot `o` returns when called after `hist`. -/
def pollC (hist : List Op) (o : Nat) : Out := (stepC (runC hist).1 (.poll o)).2

/-- `wasNotified` returns the `pending` bit of the specification … -/
theorem poll_returns_pending (hist : List Op) (o : Nat) :
    pollC hist o = match (runA hist).1.obs o with
      | none => .skip
      | some x => .res x.pending := by
  rw [pollC, observer_refines_next]
  simp only [stepA]
  split <;> simp_all

/-- … and clears it: a second poll right after a poll returns false. -/
theorem poll_clears (hist : List Op) (o : Nat) (r : Bool) (h : pollC hist o = .res r) :
    pollC (.poll o :: hist) o = .res false := by
  rw [poll_returns_pending] at h ⊢
  simp only [runA_cons, stepA]
  cases hx : (runA hist).1.obs o with
  | none => simp [hx] at h
  | some x => simp [upd]

/-- `op` neither destroys nor re-targets observer `o` and does not destroy observable `b`. -/
def Op.keeps (o b : Nat) : Op → Bool
  | .odel o' => o' != o
  | .oassign o' _ => o' != o
  | .bdel b' => b' != b
  | _ => true

/-- Scanning back from the most recent operation: was there a `notify b` before (i.e. more recent
    than) the latest `poll o`?  `p0` is the answer for the empty list. -/
def sinceLast (p0 : Bool) (o b : Nat) : List Op → Bool
  | [] => p0
  | .poll o' :: rest => if o' = o then false else sinceLast p0 o b rest
  | .notify b' :: rest => if b' = b then true else sinceLast p0 o b rest
  | _ :: rest => sinceLast p0 o b rest

/-- readable form of `sinceLast false`: some `notify b` occurs with no `poll o` after it. -/
theorem sinceLast_true_iff (o b : Nat) (mid : List Op) :
    sinceLast false o b mid = true ↔
      ∃ later earlier, mid = later ++ .notify b :: earlier ∧ Op.poll o ∉ later := by
  induction mid with
  | nil => simp [sinceLast]
  | cons op rest ih =>
    have other : (∀ o', op ≠ .poll o') → (∀ b', op ≠ .notify b') →
        (sinceLast false o b (op :: rest) = sinceLast false o b rest) := by
      intro h1 h2; cases op <;> simp_all [sinceLast]
    have shift : op ≠ .poll o → op ≠ .notify b →
        ((∃ later earlier, op :: rest = later ++ .notify b :: earlier ∧ Op.poll o ∉ later) ↔
         (∃ later earlier, rest = later ++ .notify b :: earlier ∧ Op.poll o ∉ later)) := by
      intro h1 h2
      constructor
      · rintro ⟨later, earlier, he, hn⟩
        cases later with
        | nil => simp at he; exact absurd he.1 h2
        | cons x xs =>
          simp only [List.cons_append, List.cons.injEq] at he
          exact ⟨xs, earlier, he.2, fun hm => hn (by simp [hm])⟩
      · rintro ⟨later, earlier, he, hn⟩
        refine ⟨op :: later, earlier, by simp [he], ?_⟩
        simp only [List.mem_cons, not_or]
        exact ⟨fun e => h1 e.symm, hn⟩
    by_cases hp : op = .poll o
    · subst hp
      simp only [sinceLast, if_true]
      constructor
      · intro h; cases h
      · rintro ⟨later, earlier, he, hn⟩
        cases later with
        | nil => simp at he
        | cons x xs =>
          simp only [List.cons_append, List.cons.injEq] at he
          exact absurd (by simp [← he.1]) hn
    · by_cases hnb : op = .notify b
      · subst hnb
        simp only [sinceLast, if_true, true_iff]
        exact ⟨[], rest, rfl, by simp⟩
      · rw [shift hp hnb, ← ih]
        cases op with
        | poll o' =>
          have : o' ≠ o := fun e => hp (by rw [e])
          simp [sinceLast, this]
        | notify b' =>
          have : b' ≠ b := fun e => hnb (by rw [e])
          simp [sinceLast, this]
        | _ => simp [sinceLast]

/-- one specification step on an observer `o` that targets the live observable `b`. -/
theorem specA_track_step (a : ASt) (o b : Nat) (p : Bool) (op : Op)
    (ho : a.obs o = some ⟨p, some b⟩) (hb : a.alive b = true) (hk : op.keeps o b = true) :
    (stepA a op).1.obs o = some ⟨sinceLast p o b [op], some b⟩ ∧ (stepA a op).1.alive b = true := by
  cases op <;> simp only [stepA, sinceLast, Op.keeps] at hk ⊢ <;> (repeat' split) <;>
    simp_all [upd, mapTarget] <;> grind

theorem sinceLast_cons (p : Bool) (o b : Nat) (op : Op) (rest : List Op) :
    sinceLast p o b (op :: rest) = sinceLast (sinceLast p o b rest) o b [op] := by
  cases op <;> simp [sinceLast]

theorem specA_track (hist mid : List Op) (o b : Nat) (p : Bool)
    (ho : (runA hist).1.obs o = some ⟨p, some b⟩) (hb : (runA hist).1.alive b = true)
    (hk : ∀ op ∈ mid, op.keeps o b = true) :
    (runA (mid ++ hist)).1.obs o = some ⟨sinceLast p o b mid, some b⟩ ∧
      (runA (mid ++ hist)).1.alive b = true := by
  induction mid with
  | nil => exact ⟨ho, hb⟩
  | cons op rest ih =>
    obtain ⟨i1, i2⟩ := ih (fun op' h' => hk op' (by simp [h']))
    have := specA_track_step _ o b _ op i1 i2 (hk op (by simp))
    simpa [sinceLast_cons p o b op rest] using this

/-- poll_iff_notified_since_creation: an observer created on `b` (at any point of any history,
    however often `b` notified before) answers its next `wasNotified()` with true exactly when a
    `notify b` happened since its creation and since its latest poll — for every sequence `mid` of
    operations in between that leaves the pair alone (operations on other observers and
    observables, further polls and notifications, copies, …). -/
theorem poll_iff_notified_since_creation (hist mid : List Op) (o b : Nat)
    (hnew : (stepC (runC hist).1 (.onew o b)).2 = .ok)
    (hk : ∀ op ∈ mid, op.keeps o b = true) :
    pollC (mid ++ .onew o b :: hist) o = .res (sinceLast false o b mid) := by
  rw [observer_refines_next] at hnew
  have base : (runA (.onew o b :: hist)).1.obs o = some ⟨false, some b⟩ ∧
      (runA (.onew o b :: hist)).1.alive b = true := by
    simp only [runA_cons]
    simp only [stepA] at hnew ⊢
    split at hnew <;> simp_all [upd]
  have := specA_track (.onew o b :: hist) mid o b false base.1 base.2 hk
  rw [poll_returns_pending, this.1]

/-- poll_iff_notified_since_poll: the same counted from the observer's previous poll. -/
theorem poll_iff_notified_since_poll (hist mid : List Op) (o b : Nat) (c : Obr)
    (ho : (runC hist).1.obr o = some c) (hb : c.observee = some b)
    (hk : ∀ op ∈ mid, op.keeps o b = true) :
    pollC (mid ++ .poll o :: hist) o = .res (sinceLast false o b mid) := by
  have R := (run_rel hist).1
  have hlive := R.live_target o c b ho hb
  have base : (runA (.poll o :: hist)).1.obs o = some ⟨false, some b⟩ ∧
      (runA (.poll o :: hist)).1.alive b = true := by
    simp only [runA_cons, stepA]
    cases hx : (runA hist).1.obs o with
    | none => have := (R.shape_none o).mp hx; simp [ho] at this
    | some x =>
      have := R.shape_tgt o x c hx ho
      simp [upd, this, hb, R.alive b, hlive]
  have := specA_track (.poll o :: hist) mid o b false base.1 base.2 hk
  rw [poll_returns_pending, this.1]

/-- coalesce: any number (≥ 1) of notifications between two polls are seen as one:
    the next poll returns true, the one after it false. -/
theorem coalesce (hist : List Op) (o b k : Nat) (c : Obr)
    (ho : (runC hist).1.obr o = some c) (hb : c.observee = some b) :
    pollC (List.replicate (k + 1) (.notify b) ++ .poll o :: hist) o = .res true ∧
    pollC (.poll o :: (List.replicate (k + 1) (.notify b) ++ .poll o :: hist)) o = .res false := by
  have h1 := poll_iff_notified_since_poll hist (List.replicate (k + 1) (.notify b)) o b c ho hb
    (by intro op hop; rw [List.mem_replicate] at hop; rw [hop.2]; rfl)
  have : sinceLast false o b (List.replicate (k + 1) (.notify b)) = true := by
    simp [List.replicate_succ, sinceLast]
  rw [this] at h1
  exact ⟨h1, poll_clears _ o true h1⟩

/-- late_observer_clear: an observer created after notifications does not see them. -/
theorem late_observer_clear (hist : List Op) (o b : Nat)
    (hnew : (stepC (runC hist).1 (.onew o b)).2 = .ok) :
    pollC (.onew o b :: hist) o = .res false := by
  simpa [sinceLast] using poll_iff_notified_since_creation hist [] o b hnew (by simp)

/-- independent: another observer's poll does not change what this observer will be told,
    and neither does a notification of an observable it does not observe. -/
theorem independent (hist : List Op) (o o' : Nat) (h : o' ≠ o) :
    pollC (.poll o' :: hist) o = pollC hist o := by
  rw [poll_returns_pending, poll_returns_pending]
  simp only [runA_cons, stepA]
  cases hx : (runA hist).1.obs o' <;> simp [upd, Ne.symm h]

theorem independent_notify (hist : List Op) (o b b' : Nat) (c : Obr)
    (ho : (runC hist).1.obr o = some c) (hb : c.observee = some b) (h : b' ≠ b) :
    pollC (.notify b' :: hist) o = pollC hist o := by
  have R := (run_rel hist).1
  rw [poll_returns_pending, poll_returns_pending]
  simp only [runA_cons, stepA]
  cases hx : (runA hist).1.obs o with
  | none => have := (R.shape_none o).mp hx; simp [ho] at this
  | some x =>
    have := R.shape_tgt o x c hx ho
    by_cases hal : (runA hist).1.alive b' = true
    · simp [hal, mapTarget, hx, this, hb, Ne.symm h]
    · simp [hal, hx]

/-- `op` neither destroys nor re-targets observer `o`. -/
def Op.keepsObserver (o : Nat) : Op → Bool
  | .odel o' => o' != o
  | .oassign o' _ => o' != o
  | _ => true

theorem specA_orphan_step (a : ASt) (o : Nat) (op : Op)
    (ho : a.obs o = some ⟨false, none⟩) (hk : op.keepsObserver o = true) :
    (stepA a op).1.obs o = some ⟨false, none⟩ := by
  cases op <;> simp only [stepA, Op.keepsObserver] at hk ⊢ <;> (repeat' split) <;>
    simp_all [upd, mapTarget] <;> grind

/-- orphan_false: once its observable has been destroyed an observer answers false — immediately
    and after any further operations `mid` (as long as the observer itself is not destroyed or
    assigned to), e.g. notifications of a new observable that reuses the same address. -/
theorem orphan_false (hist mid : List Op) (o b : Nat) (c : Obr)
    (ho : (runC hist).1.obr o = some c) (hb : c.observee = some b)
    (hk : ∀ op ∈ mid, op.keepsObserver o = true) :
    pollC (mid ++ .bdel b :: hist) o = .res false := by
  have R := (run_rel hist).1
  have hlive := R.live_target o c b ho hb
  have base : (runA (.bdel b :: hist)).1.obs o = some ⟨false, none⟩ := by
    simp only [runA_cons, stepA]
    cases hx : (runA hist).1.obs o with
    | none => have := (R.shape_none o).mp hx; simp [ho] at this
    | some x =>
      have := R.shape_tgt o x c hx ho
      simp [R.alive b, hlive, mapTarget, hx, this, hb]
  have all : (runA (mid ++ .bdel b :: hist)).1.obs o = some ⟨false, none⟩ := by
    induction mid with
    | nil => exact base
    | cons op rest ih =>
      have i := ih (fun op' h' => hk op' (by simp [h']))
      exact specA_orphan_step _ o op i (hk op (by simp))
  rw [poll_returns_pending, all]

/-- stamp_roles_disjoint: after every history a stamp held by a live observer differs from the stamp
    held by any live observable, so `lastObserved <= lastNotified` and `lastObserved < lastNotified`
    agree: writing `<=` in wasNotified() is an equivalent rewrite (the check must not, and does not,
    report it). -/
theorem stamp_roles_disjoint (hist : List Op) (o b : Nat) (c : Obr) (B : Obl)
    (ho : (runC hist).1.obr o = some c) (hb : (runC hist).1.obl b = some B) :
    c.lastObserved ≠ B.lastNotified ∧
      (c.lastObserved ≤ B.lastNotified ↔ c.lastObserved < B.lastNotified) := by
  have := run_disj hist o c b B ho hb
  exact ⟨this, by omega⟩

/-! ### non-vacuity and witnesses (observers) -/

-- both destruction orders, observed through the model's dereference check
example : (runC [.odel 0, .bdel 0, .notify 0, .onew 0 0, .bnew 0]).1.fault = false := by decide
example : (runC [.bdel 0, .odel 0, .notify 0, .onew 0 0, .bnew 0]).1.fault = false := by decide
-- the dereference check is real: a state with a dangling `observee` (what the unfixed copy
-- constructor produced: the copy is not in the registration list, so ~Observable cannot null it)
example : (stepC { obr := upd (fun _ => none) 1 (some ⟨0, some 0⟩) } (.poll 1)).1.fault = true := by decide
-- and a stale registration (what the unfixed Observable copy produced) faults in ~Observable
example : (stepC { obl := upd (fun _ => none) 1 (some ⟨0, [0]⟩) } (.bdel 1)).1.fault = true := by decide
-- hypotheses of the history theorems are satisfiable, and the answers are not constant
example : (stepC (runC [.notify 0, .notify 0, .bnew 0]).1 (.onew 0 0)).2 = .ok := by decide
example : pollC [.notify 0, .notify 0, .onew 0 0, .notify 0, .bnew 0] 0 = .res true := by decide
example : pollC [.poll 0, .notify 0, .notify 0, .onew 0 0, .notify 0, .bnew 0] 0 = .res false := by decide
example : pollC [.onew 0 0, .notify 0, .bnew 0] 0 = .res false := by decide
example : pollC [.notify 1, .bnew 1, .bdel 1, .onew 0 1, .bnew 1] 0 = .res false := by decide
-- copies: registered, inherit the source's state, survive the source, are orphaned with it
example : pollC [.notify 0, .ocopy 1 0, .onew 0 0, .bnew 0] 1 = .res true := by decide
example : pollC [.odel 0, .ocopy 1 0, .notify 0, .onew 0 0, .bnew 0] 1 = .res true := by decide
example : pollC [.bdel 0, .odel 0, .ocopy 1 0, .notify 0, .onew 0 0, .bnew 0] 1 = .res false := by decide
example : (runC [.odel 1, .bdel 0, .odel 0, .ocopy 1 0, .onew 0 0, .bnew 0]).1.fault = false := by decide

/-! ### stamps drawn by the rest of the process

The counter is process-wide: between two operations of an observer history any number of stamps may be drawn by code
that has nothing to do with these observers (other `TimeStamp`s, other observables; 2^31 or 2^40 of them in a
long-running renderer).  `HOp` adds such draws to the histories; the theorems say they are invisible: only the order
of the stamps an observer and its observable hold matters, never their distance. -/

inductive HOp where
  | op (o : Op)
  | draws (n : Nat)        -- n stamps handed out elsewhere
deriving Repr, DecidableEq

def stepH (s : St) : HOp → St × Option Out
  | .op o => let (s', r) := stepC s o; (s', some r)
  | .draws n => (jump s n, none)

/-- History (most recent first) with foreign draws: final state and the outputs of the operations. -/
def runH : List HOp → St × List Out
  | [] => ({}, [])
  | h :: earlier =>
    let (s, outs) := runH earlier
    match stepH s h with
    | (s', some o) => (s', o :: outs)
    | (s', none) => (s', outs)

def HOp.op? : HOp → Option Op
  | .op o => some o
  | .draws _ => none

theorem jump_rel {s : St} {a : ASt} (h : Rel s a) (n : Nat) : Rel (jump s n) a := by
  obtain ⟨h1, h2, h3, h3', h4, h5, h6, h7, h8, h9⟩ := h
  exact ⟨h1, h2, h3, h3', h4, h5, h6, h7,
    fun o c hc => Nat.lt_of_lt_of_le (h8 o c hc) (Nat.le_add_right _ _),
    fun b B hb => Nat.lt_of_lt_of_le (h9 b B hb) (Nat.le_add_right _ _)⟩

/-- foreign_draws_invisible: whatever numbers of stamps are drawn elsewhere between the operations, every
    `wasNotified()` result and every ok/skip is the one of the `pending`-bit specification run on the operations alone,
    and no dangling pointer is followed. -/
theorem foreign_draws_invisible (hist : List HOp) :
    (runH hist).2 = (runA (hist.filterMap HOp.op?)).2 ∧ (runH hist).1.fault = false := by
  have key : Rel (runH hist).1 (runA (hist.filterMap HOp.op?)).1 ∧ (runH hist).2 = (runA (hist.filterMap HOp.op?)).2 := by
    induction hist with
    | nil => exact ⟨Rel.init, rfl⟩
    | cons h earlier ih =>
      obtain ⟨hr, ho⟩ := ih
      cases h with
      | op o =>
        have := sim_step hr o
        simp only [runH, stepH, List.filterMap_cons, HOp.op?, runA]
        exact ⟨this.1, by rw [this.2, ho]⟩
      | draws n =>
        simp only [runH, stepH, List.filterMap_cons, HOp.op?]
        exact ⟨jump_rel hr n, ho⟩
  exact ⟨key.2, key.1.nofault⟩

/-- in particular the outputs do not depend on how many stamps were drawn elsewhere, nor where. -/
theorem foreign_draws_irrelevant (h1 h2 : List HOp) (h : h1.filterMap HOp.op? = h2.filterMap HOp.op?) :
    (runH h1).2 = (runH h2).2 := by
  rw [(foreign_draws_invisible h1).1, (foreign_draws_invisible h2).1, h]

-- non-vacuity: a notification 2^31 draws before the poll is still seen, once
example : (runH [.op (.poll 0), .op (.poll 0), .draws (2 ^ 31), .op (.notify 0), .draws (2 ^ 32), .op (.onew 0 0), .op (.bnew 0)]).2
    = [.res false, .res true, .ok, .ok, .ok] := by decide

/-! ## Time stamps -/

/-- the state every schedule starts from: counter at any value, nothing handed out yet. -/
def sinit (c0 : Nat) (reg stamp : Nat → Nat) : SSt := { counter := c0, reg := reg, stamp := stamp, log := [] }

theorem sinit_inv (c0 : Nat) (reg stamp : Nat → Nat) : SInv (sinit c0 reg stamp) := by
  constructor <;> simp [sinit]

/-- stamps_increasing: in every schedule (any number of threads, any interleaving of their
    micro-steps) the values handed out are strictly increasing in the order of the atomic
    read-modify-writes, and all are below the counter. -/
theorem stamps_increasing (c0 : Nat) (reg stamp : Nat → Nat) (sched : List SStep) :
    (issued (srun (sinit c0 reg stamp) sched)).Pairwise (fun later earlier => earlier < later) ∧
    ∀ v ∈ issued (srun (sinit c0 reg stamp) sched), c0 ≤ v ∧ v < (srun (sinit c0 reg stamp) sched).counter := by
  have inv := (sinit_inv c0 reg stamp).run sched
  refine ⟨?_, ?_⟩
  · simp only [issued, List.pairwise_map]; exact inv.sorted
  · have lower : ∀ sched : List SStep, c0 ≤ (srun (sinit c0 reg stamp) sched).counter ∧
        ∀ e ∈ (srun (sinit c0 reg stamp) sched).log, c0 ≤ e.2 := by
      intro sched
      induction sched with
      | nil => simp [srun, sinit]
      | cons st earlier ih =>
        cases st <;> simp only [srun, sstep] <;> grind
    intro v hv
    simp only [issued, List.mem_map] at hv
    obtain ⟨e, he, rfl⟩ := hv
    exact ⟨(lower sched).2 e he, inv.below e he⟩

/-- stamps_unique: no two freshly created / renewed stamps — on whatever threads — get the same value. -/
theorem stamps_unique (c0 : Nat) (reg stamp : Nat → Nat) (sched : List SStep) :
    (issued (srun (sinit c0 reg stamp) sched)).Nodup := by
  have := (stamps_increasing c0 reg stamp sched).1
  exact this.imp (fun h => by omega)

/-- stamps_thread_monotone: the values a thread obtains are strictly increasing in its program order. -/
theorem stamps_thread_monotone (c0 : Nat) (reg stamp : Nat → Nat) (sched : List SStep) (t : Nat) :
    (issuedTo (srun (sinit c0 reg stamp) sched) t).Pairwise (fun later earlier => earlier < later) := by
  have inv := (sinit_inv c0 reg stamp).run sched
  simp only [issuedTo, List.pairwise_map]
  exact inv.sorted.filter _

/-- every value a thread obtains was handed out by the counter to that thread
    (so `issuedTo` is a sub-collection of `issued`: uniqueness is across all threads). -/
theorem issuedTo_sub_issued (s : SSt) (t v : Nat) (h : v ∈ issuedTo s t) : v ∈ issued s := by
  simp only [issuedTo, issued, List.mem_map, List.mem_filter] at h ⊢
  obtain ⟨e, ⟨he, _⟩, rfl⟩ := h
  exact ⟨e, he, rfl⟩

/-- fresh_exceeds_existing: when all values present (in stamps and registers) are below the
    counter — true initially for a counter that has only been used through `nextValue` — this stays
    so in every schedule, and a fresh value is larger than every value held by any stamp or thread
    at that moment (in particular every value the thread obtained or copied before). -/
theorem fresh_exceeds_existing (s0 : SSt) (h0 : SBelow s0) (sched : List SStep) (t : Nat) :
    (∀ k, (srun s0 sched).stamp k < (sstep (srun s0 sched) (.fetchInc t)).reg t) ∧
    (∀ t', (srun s0 sched).reg t' < (sstep (srun s0 sched) (.fetchInc t)).reg t) := by
  have h := h0.run sched
  simp only [sstep, upd_same]
  exact ⟨h.stamp, h.reg⟩

/-- copy_keeps_value: the value loaded from the source arrives in the destination whatever other
    threads do in between (they cannot touch this thread's register; the destination is not
    written by anyone else while it is being constructed/assigned). -/
theorem copy_keeps_value (s : SSt) (t dst src : Nat) (mid : List SStep)
    (hmid : ∀ st ∈ mid, st.thread ≠ t) (hdst : ∀ t', SStep.store t' dst ∉ mid) :
    (srun s (.store t dst :: (mid ++ [.load t src]))).stamp dst = s.stamp src := by
  have app : ∀ (l : List SStep) (s : SSt) (st : SStep), srun s (l ++ [st]) = srun (sstep s st) l := by
    intro l; induction l with
    | nil => intro s st; rfl
    | cons x xs ih => intro s st; simp only [List.cons_append, srun, ih]
  simp only [srun, sstep, upd_same, app]
  rw [srun_reg_frame _ t mid hmid]
  simp

/-- the copy constructor / assignment programs executed without interruption. -/
theorem copy_ctor_value (s : SSt) (t dst src : Nat) (h : src ≠ dst) :
    (sexec s (progCopyCtor t dst src)).stamp dst = s.stamp src := by
  simp [sexec, progCopyCtor, sstep, upd, h]

theorem assign_value (s : SSt) (t dst src : Nat) :
    (sexec s (progAssign t dst src)).stamp dst = s.stamp src := by
  simp [sexec, progAssign, sstep, upd]

/-- a created / renewed stamp holds the value handed out to its thread. -/
theorem create_value (s : SSt) (t k : Nat) :
    (sexec s (progCreate t k)).stamp k = s.counter ∧ (sexec s (progCreate t k)).counter = s.counter + 1 ∧
    issuedTo (sexec s (progCreate t k)) t = s.counter :: issuedTo s t := by
  simp [sexec, progCreate, sstep, upd, issuedTo]

/-! ### non-vacuity and witnesses (stamps) -/

-- three threads interleaved: six values, all distinct
example : issued (srun (sinit 5 (fun _ => 0) (fun _ => 0))
    [.fetchInc 2, .store 0 0, .fetchInc 1, .fetchInc 0, .fetchInc 2, .store 1 1, .fetchInc 1, .fetchInc 0])
    = [10, 9, 8, 7, 6, 5] := by decide
example : issuedTo (srun (sinit 5 (fun _ => 0) (fun _ => 0))
    [.fetchInc 2, .store 0 0, .fetchInc 1, .fetchInc 0, .fetchInc 2, .store 1 1, .fetchInc 1, .fetchInc 0]) 1
    = [9, 6] := by decide
-- SBelow is satisfiable (the state of a fresh process)
example : SBelow { counter := 1 } := ⟨fun _ => by simp, fun _ => by simp⟩
-- what goes wrong without atomicity: a non-atomic increment split into read and write lets two
-- threads read the same counter value; modelled here by two loads of a shared cell
example : (srun {} [.load 1 0, .load 0 0]).reg 0 = (srun {} [.load 1 0, .load 0 0]).reg 1 := by decide

end RkVerif.C19
