/-
Property C13 — the configured tasking thread count is reported and never exceeded (PARTIAL).
Property theorems only (model: Model/C13.lean, helpers: Lemmas/C13.lean).
Every theorem declared in this module is an audited proof obligation of the check.

Proved here (about the model, for every history / every interleaving):
  * the init / re-init state machine of all four backends: `num_before_init`, `num_after_init`,
    `reinit_replaces`, `tbb_overlap_min`, `default_positive`, `num_pos_after_init`, `pfor_within_limit`;
  * the internal backend: created threads (`internal_worker_count`, `internal_threads_after_init`) and
    `internal_concurrency_bound` (+ the executable form `internal_concurrency_bound_exec`).
NOT proved (contract, observed by the harness on every run): that TBB runs tasks on at most
`global_control::active_value` threads and that an OpenMP team has at most nthreads-var threads —
in the model this is the definition of `backendThreads` for `.tbb` / `.omp`.
-/
import RkVerif.Lemmas.C13

namespace RkVerif.C13

/-- num_before_init: before any initialisation (whatever loops or queries ran) the reported count is 0. -/
theorem num_before_init (b : Backend) (hw : Nat) (hist : List Op) (h : ∀ op ∈ hist, isInit op = false) :
    numTaskingThreads b hw (runR b hw hist) = 0 := by
  rw [runR_eq_closed]
  simp [numTaskingThreads, closed, lastInit_none_of_noInit hist h]

/-- num_after_init: after `initTaskingSystem(n)` with `n > 0` — as first or as any later
    initialisation, after *every* earlier history — `numTaskingThreads()` is `n` (1 under Debug). -/
theorem num_after_init (b : Backend) (hw : Nat) (hist : List Op) (n : Int) (hn : n > 0) :
    (numTaskingThreads b hw (runR b hw (.init n :: hist)) : Int) = expected b n := by
  have h := backendThreads_of_lastInit_pos b hw (.init n :: hist) n rfl hn
  have hh : (runR b hw (.init n :: hist)).handle ≠ none := by
    rw [runR_eq_closed]; simp [closed, lastInit]
  unfold numTaskingThreads
  split
  · contradiction
  · exact h

/-- … and it stays `n` while loops run and queries are made (no `init` in `later`). -/
theorem num_stable_after_init (b : Backend) (hw : Nat) (hist later : List Op) (n : Int) (hn : n > 0)
    (hl : ∀ op ∈ later, isInit op = false) :
    (numTaskingThreads b hw (runR b hw (later ++ .init n :: hist)) : Int) = expected b n := by
  have hli := lastInit_append_noInit later n hist hl
  have h := backendThreads_of_lastInit_pos b hw _ n hli hn
  have hh : (runR b hw (later ++ .init n :: hist)).handle ≠ none := by
    rw [runR_eq_closed]; simp [closed, hli]
  unfold numTaskingThreads
  split
  · contradiction
  · exact h

/-- reinit_replaces: initialising again with another `m > 0` replaces the previous setting,
    whatever it was (`n > 0`, `n ≤ 0`) and whatever happened in between. -/
theorem reinit_replaces (b : Backend) (hw : Nat) (hist between : List Op) (n m : Int) (hm : m > 0) :
    (numTaskingThreads b hw (runR b hw (.init m :: (between ++ .init n :: hist))) : Int) = expected b m :=
  num_after_init b hw _ m hm

/-- tbb_overlap_min: TBB, re-initialisation `n > 0` → `m > 0`. In the window in which the new handle
    is constructed and the old one not yet destroyed both global_controls are alive and the
    effective limit is `min m n` (never above either setting); once the old handle is destroyed it is `m`. -/
theorem tbb_overlap_min (hw : Nat) (hist : List Op) (n m : Int) (hn : n > 0) (hm : m > 0) :
    let s := runR .tbb hw (.init n :: hist)
    let mid := (initMid .tbb hw s m).1
    mid.gcs = [m.toNat, n.toNat] ∧
    tbbActive hw mid.gcs = min m.toNat n.toNat ∧
    (initTaskingSystem .tbb hw s m).gcs = [m.toNat] ∧
    tbbActive hw (initTaskingSystem .tbb hw s m).gcs = m.toNat := by
  intro s mid
  have hs : s = closed .tbb hw (.init n :: hist) := runR_eq_closed _ _ _
  have hf : initTaskingSystem .tbb hw s m = closed .tbb hw (.init m :: .init n :: hist) := by
    have : runR .tbb hw (.init m :: .init n :: hist) = initTaskingSystem .tbb hw s m := rfl
    rw [← this, runR_eq_closed]
  have hmid : mid.gcs = [m.toNat, n.toNat] := by
    show (initMid .tbb hw s m).1.gcs = _
    rw [hs]; simp [initMid, construct, closed, lastInit, hn, hm]
  rw [hf, hmid]
  simp [closed, lastInit, hm, tbbActive, listMin]

/-- default_positive: a *first* initialisation with `n ≤ 0` selects the backend default — the
    hardware-derived count `hw` (1 under Debug) — which is positive when `hw` is. -/
theorem default_positive (b : Backend) (hw : Nat) (hist : List Op) (n : Int) (hn : n ≤ 0) (hhw : hw > 0)
    (hfirst : ∀ op ∈ hist, isInit op = false) :
    numTaskingThreads b hw (runR b hw (.init n :: hist)) = (if b = .debug then 1 else hw) ∧
    numTaskingThreads b hw (runR b hw (.init n :: hist)) > 0 := by
  rw [runR_eq_closed]
  have hl := lastInit_none_of_noInit hist hfirst
  have hp := lastPos_none_of_noInit hist hfirst
  have hn' : ¬ n > 0 := by omega
  cases b <;>
    simp [numTaskingThreads, backendThreads, closed, lastInit, lastPos, schedOf, hn, hn', hp, tbbActive,
      initTaskSystemInternal, hhw]

/-- num_pos_after_init: after *any* initialisation (first or later, `n > 0` or `n ≤ 0`, any
    history) the reported count is positive when the hardware default is. -/
theorem num_pos_after_init (b : Backend) (hw : Nat) (hist : List Op) (n : Int) (hhw : hw > 0) :
    numTaskingThreads b hw (runR b hw (.init n :: hist)) > 0 := by
  by_cases hn : n > 0
  · have h := num_after_init b hw hist n hn
    have : expected b n > 0 := by unfold expected; split <;> omega
    omega
  · rw [runR_eq_closed]
    have hn' : n ≤ 0 := by omega
    cases b
    case omp =>
      cases hp : lastPos hist with
      | none => simp [numTaskingThreads, backendThreads, closed, lastInit, lastPos, hn, hp, hhw]
      | some k =>
        have := lastPos_pos hist k hp
        simp [numTaskingThreads, backendThreads, closed, lastInit, lastPos, hn, hp, this]
    all_goals
      simp [numTaskingThreads, backendThreads, closed, lastInit, schedOf, hn, hn', tbbActive,
        initTaskSystemInternal, hhw]

/-- pfor_within_limit: for every history, a loop started now can use at most the limit the
    harness compares with (configured `n` if the last init had `n > 0`, else the reported value) —
    so `maxConcurrency ≤ limit` for every loop size. For TBB/OpenMP "can use" is the contract. -/
theorem pfor_within_limit (b : Backend) (hw : Nat) (hist : List Op) (l size : Nat)
    (h : limitOf b hw (parallelFor b hw (runR b hw hist)) (lastInit hist) = some l) :
    maxConcurrency b hw (runR b hw hist) size ≤ l := by
  have hav : availThreads b hw (runR b hw hist) ≤ l := by
    have hpf : parallelFor b hw (runR b hw hist) = runR b hw (.pfor :: hist) := rfl
    unfold availThreads
    rw [hpf] at h ⊢
    cases hl : lastInit hist with
    | none => simp [limitOf, hl] at h
    | some n =>
      have hl' : lastInit (.pfor :: hist) = some n := by simpa [lastInit] using hl
      by_cases hn : n > 0
      · have hb := backendThreads_of_lastInit_pos b hw (.pfor :: hist) n hl' hn
        simp only [limitOf, hl, hn, if_true, Option.some.injEq] at h
        have : expected b n ≤ n := by unfold expected; split <;> omega
        omega
      · simp only [limitOf, hl, hn, if_false, Option.some.injEq] at h
        have hh : (runR b hw (.pfor :: hist)).handle ≠ none := by
          rw [runR_eq_closed]; simp [closed, hl']
        unfold numTaskingThreads at h
        split at h
        · contradiction
        · omega
  unfold maxConcurrency
  exact Nat.le_trans (Nat.min_le_right _ _) hav

/-! ## Other threads (known finding C13-omp-limit-per-thread)

Full statement (what the property asks, process-wide): for every thread `t`,
`numTaskingThreadsOn b hw (runR b hw (.init n :: hist)) t = expected b n`.
It is FALSE for the OpenMP backend on a thread other than the initialising one (witness below,
reproduced on the real code by the `tnum` / `tpfor` ops); proved is the `_partial` form. -/

/-- witness: OpenMP, `init 3`, queried on another thread: the default 16, not 3 -/
theorem omp_other_thread_witness :
    numTaskingThreadsOn .omp 16 (runR .omp 16 [.init 3]) false = 16 ∧
    (numTaskingThreadsOn .omp 16 (runR .omp 16 [.init 3]) false : Int) ≠ expected .omp 3 := by decide

/-- num_after_init_any_thread_partial: on the initialising thread, or under any backend other than
    OpenMP, the reported count after `init n`, `n > 0` is `n` (1 under Debug) on every thread.
    Missing for the full statement: OpenMP on other threads. -/
theorem num_after_init_any_thread_partial (b : Backend) (hw : Nat) (hist : List Op) (n : Int) (hn : n > 0)
    (onInitThread : Bool) (hex : b ≠ .omp ∨ onInitThread = true) :
    (numTaskingThreadsOn b hw (runR b hw (.init n :: hist)) onInitThread : Int) = expected b n := by
  have h := num_after_init b hw hist n hn
  have e : numTaskingThreadsOn b hw (runR b hw (.init n :: hist)) onInitThread =
      numTaskingThreads b hw (runR b hw (.init n :: hist)) := by
    unfold numTaskingThreadsOn numTaskingThreads backendThreadsOn
    cases b <;> cases onInitThread <;> simp_all
  rw [e]; exact h

/-! ## Internal backend: threads -/

/-- internal_worker_count: `StartThreads` creates exactly `n - 1` threads, numbered `1 … n-1`, each once. -/
theorem internal_worker_count (n : Nat) :
    (startThreads n).length = n - 1 ∧ (startThreads n).Nodup ∧ ∀ i, i ∈ startThreads n ↔ 1 ≤ i ∧ i < n :=
  ⟨startThreads_length n, startThreads_nodup n, mem_startThreads n⟩

/-- internal_threads_after_init: after `init n`, `n > 0` (any history, any later loops) the live
    scheduler has `m_NumThreads = n` and `n - 1` created threads: the previous scheduler — and its
    threads — are gone (destroyed, i.e. joined, before `Initialize` starts the new ones). -/
theorem internal_threads_after_init (hw : Nat) (hist later : List Op) (n : Int) (hn : n > 0)
    (hl : ∀ op ∈ later, isInit op = false) :
    ∃ sc, (runR .internal hw (later ++ .init n :: hist)).sched = some sc ∧
      sc.numThreads = n.toNat ∧ sc.workers.length = n.toNat - 1 := by
  rw [runR_eq_closed]
  have h1 : ¬ n < 1 := by omega
  have h0 : ¬ n ≤ 0 := by omega
  have hs := schedOf_of_lastInit hw _ n (lastInit_append_noInit later n hist hl)
  refine ⟨initTaskSystemInternal hw n, ?_, by simp [initTaskSystemInternal, h1],
    by simp [initTaskSystemInternal, h1, startThreads_length]⟩
  simpa [closed, h0] using hs

/-- internal_concurrency_bound (general form): in every reachable state of the scheduler with
    `n` threads (`n - 1` created workers) used by `e` external threads, any collection of pairwise
    distinct threads that are all inside bodies has at most `(n - 1) + e` members. -/
theorem internal_concurrency_bound_general (n e : Nat) (s : Sys) (h : Reachable n e s)
    (L : List Thread) (hnd : L.Nodup) (hin : ∀ t ∈ L, s.inBody t = true) :
    L.length ≤ (n - 1) + e := by
  have hi := sysInv_reachable n e s h
  have := nodup_subset_length L (membersList n e) hnd (fun t ht => inBody_member n e s hi t (hin t ht))
  rw [membersList_length] at this
  omega

/-- internal_concurrency_bound: one calling thread (the harness's situation) and `n ≥ 1`: in every
    reachable state — any interleaving, nested loops and nested waits included — the number of
    threads simultaneously executing bodies is at most `n = numThreads`. -/
theorem internal_concurrency_bound (n : Nat) (hn : n ≥ 1) (s : Sys) (h : Reachable n 1 s) :
    s.concurrency ≤ n := by
  have hb := internal_concurrency_bound_general n 1 s h s.activeThreads (dedup_nodup _) (by
    intro t ht
    have : t ∈ s.frames.map (·.thread) := (mem_dedup _ t).mp ht
    simp only [List.mem_map] at this
    obtain ⟨f, hf, hft⟩ := this
    simp only [Sys.inBody, List.any_eq_true]
    exact ⟨f, hf, by simp [hft]⟩)
  unfold Sys.concurrency
  omega

/-- Executable form: whatever schedule (list of thread actions) is run from a freshly initialised
    scheduler with `n` threads and one caller, the concurrency in the resulting state is ≤ `n`. -/
theorem internal_concurrency_bound_exec (n : Nat) (hn : n ≥ 1) (acts : List Act) (s : Sys)
    (hx : (Sys.boot n 1).exec acts = some s) : s.concurrency ≤ n :=
  internal_concurrency_bound n hn s (reachable_exec n 1 _ Reachable.boot acts s hx)

/-- End to end for the internal backend: after `init n` (`n > 0`, any history, any later loops) the
    live scheduler is `Sys.boot n 1`'s scheduler, so every state it reaches has concurrency ≤ `n`,
    the reported `numTaskingThreads()`. -/
theorem internal_end_to_end (hw : Nat) (hist later : List Op) (n : Int) (hn : n > 0)
    (hl : ∀ op ∈ later, isInit op = false) (acts : List Act) (s : Sys) :
    ∃ sc, (runR .internal hw (later ++ .init n :: hist)).sched = some sc ∧
      ((Sys.boot sc.numThreads 1).exec acts = some s →
        s.concurrency ≤ numTaskingThreads .internal hw (runR .internal hw (later ++ .init n :: hist))) := by
  obtain ⟨sc, hsc, hnum, _⟩ := internal_threads_after_init hw hist later n hn hl
  refine ⟨sc, hsc, ?_⟩
  intro hx
  have hN := num_stable_after_init .internal hw hist later n hn hl
  simp only [expected] at hN
  have hge : sc.numThreads ≥ 1 := by omega
  have := internal_concurrency_bound_exec sc.numThreads hge acts s hx
  have h2 : numTaskingThreads .internal hw (runR .internal hw (later ++ .init n :: hist)) = sc.numThreads := by
    have : (Backend.internal = Backend.debug) = False := by simp
    simp only [this, if_false] at hN
    omega
  omega

/-! ## Non-vacuity and sharpness (tests on literals, not part of the unbounded claims) -/

-- the P6 sequence -1,3,1,5,2,8 on every backend
example : (List.map (fun b => numTaskingThreads b 16 (runR b 16 [.init 8, .init 2, .pfor, .init 5, .init 1, .init 3, .init (-1)]))
    [.tbb, .omp, .internal, .debug]) = [8, 8, 8, 1] := by decide
example : (List.map (fun b => numTaskingThreads b 16 (runR b 16 [.init (-1)])) [.tbb, .omp, .internal, .debug])
    = [16, 16, 16, 1] := by decide
-- a later init with n ≤ 0: TBB/Internal fall back to the default, OpenMP keeps the last setting
example : (List.map (fun b => numTaskingThreads b 16 (runR b 16 [.init 0, .init 3])) [.tbb, .omp, .internal, .debug])
    = [16, 3, 16, 1] := by decide
-- a loop before any init creates the internal scheduler but the reported count stays 0
example : numTaskingThreads .internal 16 (runR .internal 16 [.pfor]) = 0 ∧
    ((runR .internal 16 [.pfor]).sched.map (·.numThreads)) = some 16 := by decide
-- the hypotheses of tbb_overlap_min are satisfiable and the window is real
example : ((initMid .tbb 16 (runR .tbb 16 [.init 8]) 2).1.gcs, (initMid .tbb 16 (runR .tbb 16 [.init 2]) 8).1.gcs)
    = ([2, 8], [8, 2]) := by decide

/-- the bound is attained: 3 threads (caller + 2 workers) inside bodies, one of them nested -/
example : ((Sys.boot 3 1).exec [.add (.ext 0) 3, .run (.worker 1), .run (.worker 2), .run (.ext 0),
    .add (.worker 1) 2, .run (.worker 1), .run (.ext 0)]).map (·.concurrency) = some 3 := by decide
/-- a nested wait runs the sub-task on the waiting thread: 2 activations, 1 thread -/
example : ((Sys.boot 3 1).exec [.add (.ext 0) 1, .run (.ext 0), .add (.ext 0) 1, .run (.ext 0)]).map
    (fun s => (s.frames.length, s.concurrency)) = some (2, 1) := by decide
/-- threads the scheduler does not know cannot run anything; an idle worker cannot add task sets -/
example : ((Sys.boot 3 1).exec [.add (.ext 0) 3, .run (.worker 3)]) = none ∧
    ((Sys.boot 3 1).exec [.add (.ext 0) 3, .run (.ext 1)]) = none ∧
    ((Sys.boot 3 1).exec [.add (.worker 1) 3]) = none := by decide
/-- the single-caller hypothesis is needed: with two external threads sharing a 2-thread
    scheduler three threads are inside bodies (general bound (n-1)+e = 3) -/
example : ((Sys.boot 2 2).exec [.add (.ext 0) 3, .run (.worker 1), .run (.ext 0), .run (.ext 1)]).map
    (·.concurrency) = some 3 := by decide

end RkVerif.C13
