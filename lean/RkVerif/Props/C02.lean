/-
Property C02 — scheduled and async tasks run exactly once and deliver their result safely.
Property theorems only (model: Model/C02.lean, helper lemmas: Lemmas/C02.lean, class/life-cycle table read
from the source: Gen/C02Table.lean).  Every theorem declared in this module is an audited proof obligation.

`Reach next init s` quantifies over executions of any length and every interleaving (the action — which
thread moves and what it does — is chosen freely at every step); ScheduleM has any number of tasks.
TBB task_group / task_arena, OpenMP, std::thread, std::packaged_task / std::future are contracts
(observed by the harness, not proved); "eventually" = no stuck state + a strictly decreasing measure,
i.e. it assumes a fair scheduler.
-/
import RkVerif.Lemmas.C02
import RkVerif.Gen.C02Table

namespace RkVerif.C02

/-! ## The shape read from the source is the one the theorems are about -/

/-- AsyncTask.h as it is in the tree: result and flag are constructed before the member that starts the task,
    the task assigns the result before it sets the flag, the destructor waits, get() waits unless finished. -/
theorem source_table_wf : Gen.table.wf = true := by decide

/-- TaskSys.h/.cpp as they are in the tree: the task does not delete itself, the owner list records it after it
    has been added and deletes it only once complete. -/
theorem source_sched_wf (w : Nat) : (Gen.schedCfg w).wfMem = true := by
  simp [Gen.schedCfg, SCfg.wfMem]

/-- … and a scheduler without worker threads runs the task on the calling thread. -/
theorem source_sched_live (w : Nat) : (Gen.schedCfg w).wfLive = true := by
  simp [Gen.schedCfg, SCfg.wfLive]

/-! ## asynctask_safe -/

/-- **asynctask_safe.**  For every class table of the well-formed shape, in every reachable state of AsyncTaskM
    (every interleaving of the task's steps with construction, finished(), get(), wait() and destruction):
    no payload operation touched raw storage or the object after its destructor returned; `retValue` is never
    written once `jobFinished` is true; `jobFinished` implies that `retValue` holds the value `fcn()` returned;
    no finished() call returned true before that; every get() returned that value; and once the destructor has
    returned the task has completed, so no task step is enabled any more. -/
theorem asynctask_safe (t : Table) (hwf : t.wf = true) (s : ASt) (hs : Reach (aNext t) (aInit t) s) :
    s.err = false ∧ s.lateWrite = false ∧ s.badGet = false ∧ s.finishedLied = false ∧
    (s.fin = true → s.ret = .res) ∧
    (s.ctl = .gone → s.completed = true ∧ aNext t s .task = none) := by
  have h : AInv s := reach_inv AInv (ainv_init t hwf) (ainv_step t hwf) s hs
  refine ⟨h.err, h.late, h.bad, h.lied, ainv_fin_res h, ?_⟩
  intro hg
  have hc := h.ctl
  simp only [CtlInv, hg] at hc
  exact ⟨hc.2, by simp [aNext, hc.2]⟩

/-- asynctask_safe for the class as it is in the source tree -/
theorem asynctask_safe_source (s : ASt) (hs : Reach (aNext Gen.table) (aInit Gen.table) s) :
    s.err = false ∧ s.lateWrite = false ∧ s.badGet = false ∧ s.finishedLied = false ∧
    (s.fin = true → s.ret = .res) ∧
    (s.ctl = .gone → s.completed = true ∧ aNext Gen.table s .task = none) :=
  asynctask_safe Gen.table source_table_wf s hs

/-- finished() == true ⇒ get() does not block: when the flag is set, a get() that starts now goes straight to
    `return retValue` (never into wait()), and what it returns is the value of `fcn()`. -/
theorem asynctask_finished_get_nonblocking (t : Table) (hwf : t.wf = true) (hk : t.getKind = .checkThenWait)
    (s : ASt) (hs : Reach (aNext t) (aInit t) s) (hi : s.ctl = .idle) (hf : s.fin = true) :
    ∃ s1 s2, aNext t s .callGet = some s1 ∧ s1.ctl = .getRead ∧ aNext t s1 .ctl = some s2 ∧
      s2.ctl = .idle ∧ s2.badGet = false := by
  have hsafe := asynctask_safe t hwf s hs
  have hres : s.ret = .res := hsafe.2.2.2.2.1 hf
  refine ⟨{ s with ctl := .getRead }, _, ?_, rfl, rfl, rfl, ?_⟩
  · simp [aNext, hi, getEntry, hk, hf]
  · simp [hsafe.2.2.1, hres, Slot.isRes]

/-- wait(), get() and the destructor cannot deadlock: while the controller is inside wait(), either wait() can
    return or the task can take a step (and the task has at most |taskProg| + 1 steps). -/
theorem asynctask_wait_progress (t : Table) (hwf : t.wf = true) (s : ASt) (hs : Reach (aNext t) (aInit t) s)
    (hw : s.ctl = .getWait ∨ s.ctl = .inWait ∨ s.ctl = .dtorWait) :
    (aNext t s .ctl).isSome = true ∨ (aNext t s .task).isSome = true := by
  have h : AInv s := reach_inv AInv (ainv_init t hwf) (ainv_step t hwf) s hs
  have hc := h.ctl
  cases hcomp : s.completed
  · right
    have hst : s.started = true := by
      rcases hw with hw | hw | hw <;> simpa [CtlInv, hw] using hc
    simp only [aNext, hst, hcomp]
    cases s.trest <;> simp
  · left
    rcases hw with hw | hw | hw <;> simp [aNext, hw, hcomp]

/-! ### The pinned class violates it; each condition of the shape is needed -/

/-- The pinned declaration order (jobFinished, taskImpl, retValue): the task, started by the constructor of
    `taskImpl`, assigns `retValue` before it is constructed (payload operation on raw storage), its construction
    then overwrites the result, and get() returns the default value — this is the Debug backend's schedule. -/
theorem asynctask_pinned_unsafe :
    ∃ s, Reach (aNext Table.pinned) (aInit Table.pinned) s ∧ s.err = true ∧ s.badGet = true ∧ s.ret = .dflt := by
  -- most recent action first: ctor F, ctor T, task ×3 (assign, flag, complete), ctor R, ctor end, get (fin ⇒ read)
  let acts : List AAct := [.ctl, .callGet, .ctl, .ctl, .task, .task, .task, .ctl, .ctl]
  have h : ∃ s, runActs (aNext Table.pinned) (aInit Table.pinned) acts = some s ∧
      s.err = true ∧ s.badGet = true ∧ s.ret = .dflt := by decide
  obtain ⟨s, hr, he⟩ := h
  exact ⟨s, reach_of_runActs _ _ acts s hr, he⟩

/-- not well-formed, so the theorem does not apply to it -/
example : Table.pinned.wf = false := by decide
/-- the hypothesis is satisfiable -/
example : Table.reference.wf = true := by decide
example : Gen.table = Table.reference := by decide

/-- A destructor that does not wait: the task touches the object after it has been released. -/
theorem asynctask_dtor_must_wait :
    ∃ s, Reach (aNext { Table.reference with dtorWaits := false }) (aInit { Table.reference with dtorWaits := false }) s ∧
      s.err = true := by
  let t : Table := { Table.reference with dtorWaits := false }
  let acts : List AAct := [.task, .ctl, .callDtor, .ctl, .ctl, .ctl, .ctl]
  have h : ∃ s, runActs (aNext t) (aInit t) acts = some s ∧ s.err = true := by decide
  obtain ⟨s, hr, he⟩ := h
  exact ⟨s, reach_of_runActs _ _ acts s hr, he⟩

/-- A task that sets the flag before it assigns the result: finished() returns true too early. -/
theorem asynctask_flag_must_follow_result :
    ∃ s, Reach (aNext { Table.reference with taskProg := [.setFinished, .assignRet] })
        (aInit { Table.reference with taskProg := [.setFinished, .assignRet] }) s ∧
      s.finishedLied = true ∧ s.badGet = true := by
  let t : Table := { Table.reference with taskProg := [.setFinished, .assignRet] }
  let acts : List AAct := [.ctl, .callGet, .callFinished, .task, .ctl, .ctl, .ctl, .ctl]
  have h : ∃ s, runActs (aNext t) (aInit t) acts = some s ∧ s.finishedLied = true ∧ s.badGet = true := by decide
  obtain ⟨s, hr, he⟩ := h
  exact ⟨s, reach_of_runActs _ _ acts s hr, he⟩

/-! ## ScheduleM -/

/-- **schedule_no_uaf.**  For every life cycle of the repaired shape, any number of scheduled closures, any number
    of workers and every interleaving: no step reads or writes a task allocation that has been released. -/
theorem schedule_no_uaf (c : SCfg) (hwf : c.wfMem = true) (s : SSt) (hs : Reach (sNext c) sInit s) :
    s.uaf = false :=
  (reach_inv (SInv c) (sinv_init c) (sinv_step c hwf) s hs).uaf

theorem schedule_no_uaf_source (w : Nat) (s : SSt) (hs : Reach (sNext (Gen.schedCfg w)) sInit s) : s.uaf = false :=
  schedule_no_uaf _ (source_sched_wf w) s hs

/-- The pinned life cycle (`delete this` inside ExecuteRange): the scheduler's decrement of m_RunningCount hits the
    released allocation — one closure, one worker, five steps. -/
theorem schedule_pinned_uaf : ∃ s, Reach (sNext (SCfg.pinned 1)) sInit s ∧ s.uaf = true := by
  let acts : List SAct := [.dec 0, .run 0, .popW 0, .add 0 false, .sched]
  have h : ∃ s, runActs (sNext (SCfg.pinned 1)) sInit acts = some s ∧ s.uaf = true := by decide
  obtain ⟨s, hr, he⟩ := h
  exact ⟨s, reach_of_runActs _ _ acts s hr, he⟩

/-- … also on the pipe-full path, where the calling thread executes the task inside AddTaskSetToPipe. -/
theorem schedule_pinned_uaf_inline : ∃ s, Reach (sNext (SCfg.pinned 0)) sInit s ∧ s.uaf = true := by
  let acts : List SAct := [.dec 0, .run 0, .add 0 true, .sched]
  have h : ∃ s, runActs (sNext (SCfg.pinned 0)) sInit acts = some s ∧ s.uaf = true := by decide
  obtain ⟨s, hr, he⟩ := h
  exact ⟨s, reach_of_runActs _ _ acts s hr, he⟩

/-- An owner that deleted without checking GetIsComplete(), or recorded the task before adding it, would be wrong too. -/
theorem schedule_reap_must_be_guarded :
    ∃ s, Reach (sNext { SCfg.reference 1 with reapGuarded := false }) sInit s ∧ s.uaf = true := by
  let acts : List SAct := [.popW 0, .reap 0, .record 0, .add 0 false, .sched]
  have h : ∃ s, runActs (sNext { SCfg.reference 1 with reapGuarded := false }) sInit acts = some s ∧ s.uaf = true := by
    decide
  obtain ⟨s, hr, he⟩ := h
  exact ⟨s, reach_of_runActs _ _ acts s hr, he⟩

theorem schedule_record_must_follow_add :
    ∃ s, Reach (sNext { SCfg.reference 1 with recordAfterAdd := false }) sInit s ∧ s.uaf = true := by
  let acts : List SAct := [.add 0 false, .reap 0, .sched]
  have h : ∃ s, runActs (sNext { SCfg.reference 1 with recordAfterAdd := false }) sInit acts = some s ∧
      s.uaf = true := by decide
  obtain ⟨s, hr, he⟩ := h
  exact ⟨s, reach_of_runActs _ _ acts s hr, he⟩

example (w : Nat) : (SCfg.reference w).wfMem = true := rfl
example (w : Nat) : (SCfg.pinned w).wfMem = false := rfl
example (w : Nat) : Gen.schedCfg w = SCfg.reference w := rfl

/-- **schedule_once (safety part).**  In every reachable state every scheduled closure has run at most once, and
    exactly once as soon as the scheduler has finished with its task. -/
theorem schedule_once (c : SCfg) (hwf : c.wfMem = true) (s : SSt) (hs : Reach (sNext c) sInit s)
    (t : Task) (ht : t ∈ s.tasks) : t.runs ≤ 1 ∧ (t.phase = .done → t.runs = 1) := by
  have h := (reach_inv (SInv c) (sinv_init c) (sinv_step c hwf) s hs).tasks t ht
  have hr := h.runs
  constructor
  · rw [hr]; split <;> omega
  · intro hd; rw [hr]; simp [hd]

/-- **schedule_enabled.**  No stuck state: in every reachable state in which some closure has not completed its life
    cycle, an internal step (add, pop, run, decrement, …) is enabled, provided the scheduler has a worker thread or
    runs tasks on the calling thread when it has none. -/
theorem schedule_enabled (c : SCfg) (hwf : c.wfMem = true) (hl : c.wfLive = true) (s : SSt)
    (hs : Reach (sNext c) sInit s) (t : Task) (ht : t ∈ s.tasks) (hnd : t.phase ≠ .done) :
    ∃ a : SAct, a.internal = true ∧ (sNext c s a).isSome = true :=
  not_stuck c hl s (reach_inv (SInv c) (sinv_init c) (sinv_step c hwf) s hs) t ht hnd

/-- the literal form: a queued task and an idle worker ⇒ that worker's pop is enabled -/
theorem schedule_pop_enabled (c : SCfg) (s : SSt) (i : Nat) (t : Task) (hi : s.tasks[i]? = some t)
    (hq : t.phase = .queued) (hidle : busyW s < c.workers) : (sNext c s (.popW i)).isSome = true := by
  simp only [sNext, hidle, if_true]
  exact onTask_some hi (by simp [hq])

/-- **schedule_terminates.**  Every internal step strictly decreases `total` (for every configuration): once no more
    closures are scheduled, every execution reaches a state without enabled internal step after at most `total` steps. -/
theorem schedule_terminates (c : SCfg) (s : SSt) (a : SAct) (s' : SSt) (hint : a.internal = true)
    (hn : sNext c s a = some s') : total s'.tasks < total s.tasks :=
  measure_decreases c s a s' hint hn

/-- **schedule_once (complete executions).**  In a reachable state in which no internal step is enabled — the end of
    every complete execution — every scheduled closure has been executed exactly once. -/
theorem schedule_once_complete (c : SCfg) (hwf : c.wfMem = true) (hl : c.wfLive = true) (s : SSt)
    (hs : Reach (sNext c) sInit s) (hq : ∀ a : SAct, a.internal = true → sNext c s a = none)
    (t : Task) (ht : t ∈ s.tasks) : t.phase = .done ∧ t.runs = 1 := by
  have hd : t.phase = .done := by
    by_cases hd : t.phase = .done
    · exact hd
    · obtain ⟨a, hi, hsome⟩ := schedule_enabled c hwf hl s hs t ht hd
      rw [hq a hi] at hsome
      simp at hsome
  exact ⟨hd, (schedule_once c hwf s hs t ht).2 hd⟩

theorem schedule_once_complete_source (w : Nat) (s : SSt) (hs : Reach (sNext (Gen.schedCfg w)) sInit s)
    (hq : ∀ a : SAct, a.internal = true → sNext (Gen.schedCfg w) s a = none)
    (t : Task) (ht : t ∈ s.tasks) : t.phase = .done ∧ t.runs = 1 :=
  schedule_once_complete _ (source_sched_wf w) (source_sched_live w) s hs hq t ht

/-- The pinned code with a scheduler that has no worker threads (initTaskingSystem(1)): after schedule() has returned
    the closure is queued and *no* internal step is enabled — it only runs if the caller later does something else
    that drives the scheduler (a parallel_for, the shutdown). -/
theorem schedule_pinned_single_thread_stuck :
    ∃ s, Reach (sNext (SCfg.pinned 0)) sInit s ∧ (∃ t ∈ s.tasks, t.phase = .queued ∧ t.runs = 0 ∧ t.cstage = .released) ∧
      ∀ a : SAct, a.internal = true → sNext (SCfg.pinned 0) s a = none := by
  let acts : List SAct := [.record 0, .add 0 false, .sched]
  have h : ∃ s, runActs (sNext (SCfg.pinned 0)) sInit acts = some s ∧
      s = { tasks := [{ phase := .queued, byCaller := false, cstage := .released, live := true, count := 1,
                        recorded := false, runs := 0 }], uaf := false } := by decide
  obtain ⟨s, hr, he⟩ := h
  refine ⟨s, reach_of_runActs _ _ acts s hr, ?_, ?_⟩
  · subst he; exact ⟨_, List.mem_singleton.mpr rfl, rfl, rfl, rfl⟩
  · subst he
    intro a hint
    cases a with
    | sched => simp [SAct.internal] at hint
    | add i inl => cases i <;> simp [sNext, onTask]
    | popW i => simp [sNext, SCfg.pinned]
    | popC i => simp [sNext, callerWaiting]
    | run i => cases i <;> simp [sNext, onTask]
    | dec i => cases i <;> simp [sNext, onTask]
    | waitRet i => cases i <;> simp [sNext, onTask]
    | record i => cases i <;> simp [sNext, onTask]
    | reap i => cases i <;> simp [sNext, onTask, SCfg.pinned]

example : (SCfg.pinned 0).wfLive = false := rfl
example : (SCfg.reference 0).wfLive = true := rfl

/-! ## async_delivers -/

/-- **async_delivers.**  The closure of async() — run exactly once (schedule_once / the backend's contract) — makes the
    future hold the value the function returned, releases the packaged_task, and touches nothing released; a second run
    would touch the released packaged_task (which is why exactly-once matters here). -/
theorem async_delivers (v : Nat) :
    runClosureN v 1 = { live := false, future := some v, err := false } ∧
    (∀ n, (runClosureN v n).err = false ↔ n ≤ 1) ∧
    (∀ n, 1 ≤ n → (runClosureN v n).future = some v ∧ (runClosureN v n).live = false) := by
  have key : ∀ n, runClosureN v (n + 1) = { live := false, future := some v, err := decide (1 ≤ n) } := by
    intro n
    induction n with
    | zero => rfl
    | succ n ih => rw [runClosureN, ih]; simp [runClosure]
  refine ⟨rfl, ?_, ?_⟩
  · intro n
    cases n with
    | zero => simp [runClosureN, pInit]
    | succ n => rw [key]; simp
  · intro n hn
    obtain ⟨m, rfl⟩ : ∃ m, n = m + 1 := ⟨n - 1, by omega⟩
    rw [key]; simp

/-! ## The driver's runs are executions of the model -/

theorem aTry_reach (t : Table) (s : ASt) (a : AAct) (hs : Reach (aNext t) (aInit t) s) :
    Reach (aNext t) (aInit t) (aTry t s a) := by
  simp only [aTry]
  cases h : aNext t s a with
  | none => simpa using hs
  | some s' => simpa using Reach.step a hs h

theorem aDrain_reach (t : Table) (n : Nat) (s : ASt) (hs : Reach (aNext t) (aInit t) s) :
    Reach (aNext t) (aInit t) (aDrain t s n) := by
  induction n generalizing s with
  | zero => exact hs
  | succ n ih =>
    simp only [aDrain]
    split
    · next s' h => exact ih s' (Reach.step .task hs h)
    · exact hs

theorem schedEager_reach (c : SCfg) (s : SSt) (hs : Reach (sNext c) sInit s) :
    Reach (sNext c) sInit (schedEager c s) := by
  simp only [schedEager, sNext]
  have step1 : Reach (sNext c) sInit { s with tasks := newTask c :: s.tasks } := Reach.step .sched hs rfl
  generalize ({ s with tasks := newTask c :: s.tasks } : SSt) = s1 at step1
  generalize List.range 8 = l
  induction l generalizing s1 with
  | nil => exact step1
  | cons x xs ih =>
    simp only [List.foldl_cons]
    apply ih
    cases h : (actsOn 0).findSome? (sNext c s1) with
    | none => simpa using step1
    | some s2 =>
      obtain ⟨a, _, ha⟩ := List.exists_of_findSome?_eq_some h
      simpa using Reach.step a step1 ha

end RkVerif.C02
