/-
Property C11 — array wrappers stay in bounds and keep the ownership they document.
Property theorems only (model: Model/C11.lean, helpers and the invariant `Inv`: Lemmas/C11.lean).
Every theorem declared in this module is an audited proof obligation of the check.
All history theorems are about `Cfg.fixed` (the code as it is now); the `legacy_*` theorems are the
witnesses that the special members the compiler generated before the two repairs violate them.
-/
import RkVerif.Lemmas.C11
set_option linter.unusedVariables false

namespace RkVerif.C11

/-! ## wrapper_valid -/

/-- The invariant holds after *every* history (any pool sizes, any operations, any arguments,
    including operations whose precondition fails and which therefore do nothing). -/
theorem reachable_inv (nb nw : Nat) (hist : List Op) : Inv (runR Cfg.fixed nb nw hist) := by
  induction hist with
  | nil => exact inv_init nb nw
  | cons op earlier ih => exact stepT_inv _ op ih

/-- wrapper_valid: after every history, every live OwnedArray / FixedArray / FixedArrayView exposes a
    range `[ptr, ptr+size)` that lies inside a live allocation, and that allocation is the one the
    wrapper itself owns (its vector's storage / the shared block it holds a share of). -/
theorem wrapper_valid (nb nw : Nat) (hist : List Op) (i : Nat) (w : W)
    (hi : getW (runR Cfg.fixed nb nw hist) i = some w) (ho : w.owning = true) :
    w.base.valid (runR Cfg.fixed nb nw hist).heap = true ∧ ∀ p, w.base.ptr = some p → ownAlloc w = some p.a :=
  valid_of_ok _ w ((reachable_inv nb nw hist).ok i w hi) ho

/-- size() of an owning array is the length of the storage it owns, data() its start. -/
theorem owned_size_is_storage (nb nw : Nat) (hist : List Op) (i : Nat) (b : Base) (x : Nat)
    (hi : getW (runR Cfg.fixed nb nw hist) i = some (.oa b x)) :
    b = setPtr (some ⟨x, 0⟩) (lenAt (runR Cfg.fixed nb nw hist).heap x) ∧
    b.read (runR Cfg.fixed nb nw hist).heap = (cellAt (runR Cfg.fixed nb nw hist).heap x).data := by
  have ok := (reachable_inv nb nw hist).ok i _ hi
  refine ⟨ok.2.2, ?_⟩
  rw [ok.2.2]
  by_cases hn : lenAt (runR Cfg.fixed nb nw hist).heap x > 0
  · have hn' : 0 < (cellAt (runR Cfg.fixed nb nw hist).heap x).data.length := hn
    simp [setPtr, hn', Base.read, lenAt]
  · have : (cellAt (runR Cfg.fixed nb nw hist).heap x).data = [] := by
      simp only [lenAt] at hn; exact List.eq_nil_of_length_eq_zero (by omega)
    simp [setPtr, hn, Base.read, this]

/-- Two OwnedArrays never share storage (copies are deep), after every history. -/
theorem owned_storage_unique (nb nw : Nat) (hist : List Op) (i j : Nat) (b1 b2 : Base) (x y : Nat)
    (hi : getW (runR Cfg.fixed nb nw hist) i = some (.oa b1 x))
    (hj : getW (runR Cfg.fixed nb nw hist) j = some (.oa b2 y)) (hne : i ≠ j) : x ≠ y := by
  intro e; subst e
  exact hne ((reachable_inv nb nw hist).uniq i j b1 b2 x hi hj)

/-- The storage of an owning array is never a caller buffer. -/
theorem owning_not_source (nb nw : Nat) (hist : List Op) (i : Nat) (w : W) (a b : Nat)
    (hi : getW (runR Cfg.fixed nb nw hist) i = some w) (ha : ownAlloc w = some a) :
    getBuf (runR Cfg.fixed nb nw hist) b ≠ some a :=
  own_not_buf _ (reachable_inv nb nw hist) i w hi a ha b

/-! ## at(), iteration -/

/-- at_bounds: `at(i)` returns an element location exactly for `i < size()` and throws otherwise
    (for every wrapper state in which a non-empty array has a non-null pointer, which `setPtr` guarantees). -/
theorem at_bounds (b : Base) (k : Nat) (hp : b.ptr = none → b.n = 0) : (at? b k).isSome = true ↔ k < b.n := by
  unfold at?
  by_cases hk : k ≥ b.n
  · simp [hk]
  · cases h : b.ptr with
    | none => have := hp h; omega
    | some p => simp [hk]; omega

/-- at(i) of a valid wrapper is the address of the i-th element read by iteration, inside live storage. -/
theorem at_reads (h : Heap) (b : Base) (k : Nat) (hv : b.valid h = true) (hk : k < b.n) :
    ∃ p, at? b k = some p ∧ liveAt h p.a = true ∧ p.off < lenAt h p.a ∧
      (cellAt h p.a).data[p.off]? = (b.read h)[k]? := by
  cases hp : b.ptr with
  | none => simp [Base.valid, hp] at hv; omega
  | some q =>
    simp only [Base.valid, hp, Bool.and_eq_true, decide_eq_true_eq] at hv
    refine ⟨⟨q.a, q.off + k⟩, by simp [at?, hp]; omega, hv.1, by simp; omega, ?_⟩
    simp [Base.read, hp, hk]

/-- at(i) with i ≥ size() throws whatever the state of the wrapper. -/
theorem at_throws (b : Base) (k : Nat) (hk : b.n ≤ k) : at? b k = none := by simp [at?, hk]

/-- iteration_covers_size: the loop `for (p = begin(); p != end(); ++p)` terminates and visits exactly the
    offsets 0, 1, …, size()-1 (once each, in order) — for every wrapper state. -/
theorem iteration_covers_size (b : Base) (fuel : Nat) (hf : b.n ≤ fuel) :
    iterate b fuel = some (List.range b.n) := by
  have := walk_spec b.n 0 fuel hf
  simpa [iterate, List.range_eq_range'] using this

theorem iteration_count (b : Base) (fuel : Nat) (hf : b.n ≤ fuel) :
    (iterate b fuel).map List.length = some (size b) := by
  simp [iteration_covers_size b fuel hf, size]

/-! ## DataView -/

/-- dataview_offset: over a buffer that is an array of records of `stride` bytes, a DataView made at byte
    offset `fo` (the field's offset in the record) reads, for every index `i` inside the buffer, exactly the
    `tsize` bytes of that field of record `i`. -/
theorem dataview_offset (records : List (List Nat)) (stride fo tsize i : Nat)
    (hl : ∀ r ∈ records, r.length = stride) (hf : fo + tsize ≤ stride) (hi : i < records.length) :
    DV.read records.flatten ⟨fo, stride⟩ tsize i = some ((records[i].drop fo).take tsize) := by
  have hlen := flatten_length_uniform records stride hl
  have hr : records[i].length = stride := hl _ (List.getElem_mem hi)
  have hb : fo + i * stride + tsize ≤ records.flatten.length := by
    rw [hlen]
    have : (i + 1) * stride ≤ records.length * stride := Nat.mul_le_mul_right _ hi
    rw [Nat.add_mul] at this; omega
  simp only [DV.read, hb, ite_true, Option.some.injEq]
  rw [Nat.add_comm fo, ← List.drop_drop, drop_flatten_uniform records stride i hl]
  have hd : records.drop i = records[i] :: records.drop (i + 1) := by simp
  rw [hd, List.flatten_cons, List.drop_append_of_le_length (by omega), List.take_append_of_le_length (by simp; omega)]

/-- reads that do not fit into the buffer are rejected by the model (caller-side precondition) -/
theorem dataview_in_buffer (bytes : List Nat) (d : DV) (tsize i : Nat) (l : List Nat)
    (h : DV.read bytes d tsize i = some l) : d.base + i * d.stride + tsize ≤ bytes.length ∧ l.length = tsize := by
  simp only [DV.read] at h
  split at h
  · simp only [Option.some.injEq] at h; subst h; simp; omega
  · simp at h

/-! ## ownership: contents of owning arrays are independent of sources and of other slots -/

def Op.isWset : Op → Bool
  | .wset _ _ _ => true
  | _ => false

/-- owning_frame (one step, any reachable state): an operation that does not target slot `i` — whatever it
    does to source buffers (mutate, free, replace) or to other wrappers (destroy, resize, reassign, copy from
    slot `i`, …) — leaves an owning array in slot `i` with the same members, the same contents and valid;
    element writes are allowed as long as they go through a pointer outside slot `i`'s own allocation. -/
theorem owning_frame (s : State) (hinv : Inv s) (op : Op) (i : Nat) (w : W)
    (hi : getW s i = some w) (ho : w.owning = true) (ht : op.targets i = false)
    (hw : ∀ k x v, op = .wset k x v → ∀ wk p, getW s k = some wk → wk.base.ptr = some p → ownAlloc w ≠ some p.a) :
    getW (stepT Cfg.fixed s op) i = some w ∧
    w.base.read (stepT Cfg.fixed s op).heap = w.base.read s.heap ∧
    w.base.valid (stepT Cfg.fixed s op).heap = true := by
  unfold stepT
  cases hs : step Cfg.fixed s op with
  | none => exact ⟨hi, rfl, (valid_of_ok _ w (hinv.ok i w hi) ho).1⟩
  | some s' =>
    have f := step_frame s s' op hinv hs i w hi ht hw
    have hinv' := step_inv s s' op hinv hs
    exact ⟨f.same, read_of_frame s s' i w (hinv.ok i w hi) ho f, (valid_of_ok _ w (hinv'.ok i w f.same) ho).1⟩

/-- owning_independent: mutating, freeing or replacing any source buffer after construction does not change
    an owning array — after every history, for every buffer operation. -/
theorem owning_independent (nb nw : Nat) (hist : List Op) (i : Nat) (w : W)
    (hi : getW (runR Cfg.fixed nb nw hist) i = some w) (ho : w.owning = true) (b k v : Nat) (xs : List Nat)
    (op : Op) (hop : op = .bufSet b k v ∨ op = .bufFree b ∨ op = .bufNew b xs) :
    getW (runR Cfg.fixed nb nw (op :: hist)) i = some w ∧
    w.base.read (runR Cfg.fixed nb nw (op :: hist)).heap = w.base.read (runR Cfg.fixed nb nw hist).heap ∧
    w.base.valid (runR Cfg.fixed nb nw (op :: hist)).heap = true := by
  apply owning_frame _ (reachable_inv nb nw hist) op i w hi ho
  · rcases hop with h | h | h <;> subst h <;> rfl
  · intro k' x v' e; rcases hop with h | h | h <;> subst h <;> cases e

/-- owning_stable: however the history continues — destroying or resizing the original of a copy,
    reassigning the FixedArray a view was made from, freeing the source buffers, … — an owning array keeps
    members, contents and validity as long as no later operation targets its own slot (element writes
    excluded here; see `owning_frame` for those). -/
theorem owning_stable (nb nw : Nat) (hist later : List Op) (i : Nat) (w : W)
    (hi : getW (runR Cfg.fixed nb nw hist) i = some w) (ho : w.owning = true)
    (hl : ∀ op ∈ later, op.targets i = false ∧ op.isWset = false) :
    getW (runR Cfg.fixed nb nw (later ++ hist)) i = some w ∧
    w.base.read (runR Cfg.fixed nb nw (later ++ hist)).heap = w.base.read (runR Cfg.fixed nb nw hist).heap ∧
    w.base.valid (runR Cfg.fixed nb nw (later ++ hist)).heap = true := by
  induction later with
  | nil => exact ⟨hi, rfl, (wrapper_valid nb nw hist i w hi ho).1⟩
  | cons op rest ih =>
    have ih' := ih (fun o ho' => hl o (by simp [ho']))
    have hop := hl op (by simp)
    have := owning_frame _ (reachable_inv nb nw (rest ++ hist)) op i w ih'.1 ho hop.1
      (by intro k x v e; subst e; simp [Op.isWset] at hop)
    exact ⟨this.1, this.2.1.trans ih'.2.1, this.2.2⟩

/-- OwnedArrays do not alias anything owning: an element write through any *other* owning wrapper
    never lands in an OwnedArray's storage. -/
theorem owned_not_aliased (s : State) (hinv : Inv s) (i k : Nat) (b : Base) (x : Nat) (wk : W) (p : Ptr)
    (hi : getW s i = some (.oa b x)) (hk : getW s k = some wk) (hne : i ≠ k) (ho : wk.owning = true)
    (hp : wk.base.ptr = some p) : p.a ≠ x := by
  intro e
  have hown := (valid_of_ok s.heap wk (hinv.ok k wk hk) ho).2 p hp
  have t1 := WOk_own (hinv.ok k wk hk) hown
  have t2 := (hinv.ok i _ hi).2.1
  cases wk with
  | av b' => simp [W.owning] at ho
  | oa b' x' =>
    simp only [ownAlloc, Option.some.injEq] at hown
    subst e; subst hown
    exact hne (hinv.uniq i k b b' _ hi hk)
  | fa b' arr => subst e; simp [t2] at t1
  | fav b' arr => subst e; simp [t2] at t1

/-! ## size()/data()/contents after each kind of operation ("consistent with the last operation") -/

/-- OwnedArray(ptr,size) / OwnedArray(vector&) / operator=(vector&) / reset(ptr,size): size() is the count
    handed in, the contents are the source's elements at that moment. -/
theorem oa_set_post (s : State) (hinv : Inv s) (i : Nat) (src : Src) (fresh : Bool) (r : Res)
    (hi : i < s.ws.length) (hf : fresh = true ∨ isOA (getW s i) = true) (hr : resolve s src = some r) :
    ∃ s1 b x, step Cfg.fixed s (.oaSet i src fresh) = some s1 ∧ getW s1 i = some (.oa b x) ∧
      size b = r.cnt ∧ b.read s1.heap = r.vals := by
  have hc : (fresh || isOA (getW s i)) = true := by rcases hf with h | h <;> simp [h]
  obtain ⟨b, h1, h2, h3⟩ := mkOA_post s hinv i r.vals hi
  exact ⟨_, b, _, by simp [step, hc, hr], h1, by rw [size, h2, resolve_vals_length s src r hr], h3⟩

/-- resize(n, v): size() = n, the first min(n, old size) elements are kept, the rest are `v`. -/
theorem oa_resize_post (s : State) (hinv : Inv s) (i n v : Nat) (b0 : Base) (x0 : Nat)
    (h0 : getW s i = some (.oa b0 x0)) :
    ∃ s1 b x, step Cfg.fixed s (.oaResize i n v) = some s1 ∧ getW s1 i = some (.oa b x) ∧ size b = n ∧
      b.read s1.heap = (b0.read s.heap).take n ++ List.replicate (n - size b0) v := by
  have hi := getW_some_lt h0
  have hold := oa_read s hinv i b0 x0 h0
  obtain ⟨b, h1, h2, h3⟩ := mkOA_post s hinv i ((cellAt s.heap x0).data.take n ++ List.replicate (n - (cellAt s.heap x0).data.length) v) hi
  refine ⟨_, b, _, by simp [step, h0], h1, ?_, ?_⟩
  · rw [size, h2]; simp; omega
  · rw [h3, hold.2, size, hold.1]

/-- reset(): empty. -/
theorem oa_reset_post (s : State) (hinv : Inv s) (i : Nat) (b0 : Base) (x0 : Nat) (h0 : getW s i = some (.oa b0 x0)) :
    ∃ s1 b x, step Cfg.fixed s (.oaReset i) = some s1 ∧ getW s1 i = some (.oa b x) ∧ size b = 0 ∧ b.ptr = none := by
  obtain ⟨b, h1, h2, h3⟩ := mkOA_post s hinv i [] (getW_some_lt h0)
  have hb := ((inv_mkOA s i [] hinv).ok i _ h1).2.2
  refine ⟨_, b, _, by simp [step, h0, isOA], h1, by simpa [size] using h2, ?_⟩
  have hn : b.n = 0 := by simpa using h2
  rw [hb] at hn ⊢
  simp only [setPtr] at hn ⊢
  simp [hn]

/-- copy construction of an OwnedArray into another slot: the copy has the original's contents in storage of
    its own (different from the original's), so by `owning_stable` it survives whatever happens to the original. -/
theorem oa_copy_post (s : State) (hinv : Inv s) (i j : Nat) (b0 : Base) (x0 : Nat)
    (hj : getW s j = some (.oa b0 x0)) (hi : i < s.ws.length) :
    ∃ s1 b x, step Cfg.fixed s (.copy i j false) = some s1 ∧ getW s1 i = some (.oa b x) ∧ x ≠ x0 ∧
      size b = size b0 ∧ b.read s1.heap = b0.read s.heap := by
  have hold := oa_read s hinv j b0 x0 hj
  obtain ⟨b, h1, h2, h3⟩ := mkOA_post s hinv i (cellAt s.heap x0).data hi
  have hlt := liveAt_lt _ _ (hinv.ok j _ hj).1
  refine ⟨_, b, _, by simp [step, hj, copyOf, Cfg.fixed], h1, by omega, ?_, ?_⟩
  · rw [size, size, h2, hold.1]
  · rw [h3, hold.2]

/-- FixedArrayView(fa, offset, count) reads exactly `count` elements of the FixedArray starting at `offset`
    and holds a share of the FixedArray's allocation. -/
theorem fav_new_post (s : State) (hinv : Inv s) (i j off cnt : Nat) (b0 : Base) (arr : Option Nat)
    (hj : getW s j = some (.fa b0 arr)) (hle : off + cnt ≤ b0.n) (hi : i < s.ws.length) :
    ∃ s1 b, step Cfg.fixed s (.favNew i j off cnt) = some s1 ∧ getW s1 i = some (.fav b arr) ∧ size b = cnt ∧
      b.read s1.heap = ((b0.read s.heap).drop off).take cnt := by
  have okj := hinv.ok j _ hj
  have hok : ∀ w, some (mkFAV Cfg.fixed b0 arr off cnt) = some w → WOk s.heap w := by
    intro w hw; cases hw; exact mkFAV_ok s.heap b0 arr off cnt okj hle
  have hfr : ∀ b x, some (mkFAV Cfg.fixed b0 arr off cnt) = some (W.oa b x) → ∀ k b', getW s k ≠ some (.oa b' x) := by
    intro b x hw; simp [mkFAV] at hw
  have hg : getW (install s i (some (mkFAV Cfg.fixed b0 arr off cnt))) i = some (mkFAV Cfg.fixed b0 arr off cnt) := by
    simp only [getW_install]; simp [hi]
  have hcell : ∀ a, arr = some a → cellAt (install s i (some (mkFAV Cfg.fixed b0 arr off cnt))).heap a = cellAt s.heap a :=
    fun a ha => install_cell_own s i _ hinv hok hfr i _ hg a (by simp [mkFAV, Cfg.fixed, ownAlloc, ha])
  obtain ⟨s1, hs1⟩ : ∃ s1, s1 = install s i (some (mkFAV Cfg.fixed b0 arr off cnt)) := ⟨_, rfl⟩
  rw [← hs1] at hg hcell
  refine ⟨s1, _, by simp [step, hj, hle, hs1], by simpa [mkFAV, Cfg.fixed] using hg, by simp [size, setPtr], ?_⟩
  cases arr with
  | none =>
    simp only [WOk] at okj; subst okj
    simp [setPtr, Base.read]
  | some a =>
    have hc := hcell a rfl
    obtain ⟨_, _, hb⟩ := okj
    subst hb
    by_cases hcz : cnt > 0
    · have hn : lenAt s.heap a > 0 := by simp [setPtr] at hle; omega
      have hn' : 0 < (cellAt s.heap a).data.length := hn
      simp [setPtr, hcz, Base.read, hc, lenAt, hn']
    · have : cnt = 0 := by omega
      subst this; simp [setPtr, Base.read]

/-! ## non-owning views alias their source exactly -/

/-- view_aliases: an ArrayView made from (buffer `b`)+off, cnt keeps pointing at exactly that range of the
    caller's buffer however the history continues (as long as its own slot is not targeted): at every later
    moment it reads exactly the elements that are in the source *then* (so writes to the source show through,
    and nothing is copied). -/
theorem view_aliases (nb nw : Nat) (hist later : List Op) (i b a off cnt : Nat)
    (hb : getBuf (runR Cfg.fixed nb nw hist) b = some a) (hle : off + cnt ≤ lenAt (runR Cfg.fixed nb nw hist).heap a)
    (hi : i < nw) (hl : ∀ op ∈ later, op.targets i = false) :
    let s2 := runR Cfg.fixed nb nw (later ++ .avSet i (.buf b off cnt) true :: hist)
    ∃ v, getW s2 i = some (.av v) ∧ size v = cnt ∧ v.read s2.heap = ((cellAt s2.heap a).data.drop off).take cnt := by
  intro s2
  have hlen : ∀ h : List Op, (runR Cfg.fixed nb nw h).ws.length = nw := by
    intro h
    induction h with
    | nil => simp [runR, State.init]
    | cons op rest ih =>
      simp only [runR, stepT]
      cases hs : step Cfg.fixed (runR Cfg.fixed nb nw rest) op with
      | none => simpa using ih
      | some s' =>
        have : ∀ (s : State) (k : Nat) (w : Option W), (install s k w).ws.length = s.ws.length := by
          intro s k w; simp [install]
        rw [← ih]
        cases op <;> simp only [step] at hs <;> (repeat' split at hs) <;>
          first
          | (simp only [Option.some.injEq] at hs; subst hs; simp [this, resetSrc])
          | simp at hs
  have h1 : getW (runR Cfg.fixed nb nw (.avSet i (.buf b off cnt) true :: hist)) i = some (.av (setPtr (some ⟨a, off⟩) cnt)) := by
    simp only [runR, stepT, step, Bool.true_or, ite_true, resolve, hb, hle]
    simp [getW_install, hlen hist, hi, mkAV]
  have h2 : ∀ later : List Op, (∀ op ∈ later, op.targets i = false) →
      getW (runR Cfg.fixed nb nw (later ++ .avSet i (.buf b off cnt) true :: hist)) i = some (.av (setPtr (some ⟨a, off⟩) cnt)) := by
    intro later
    induction later with
    | nil => intro _; exact h1
    | cons op rest ih =>
      intro hl
      have ih' := ih (fun o ho => hl o (by simp [ho]))
      have hinv := reachable_inv nb nw (rest ++ .avSet i (.buf b off cnt) true :: hist)
      simp only [List.cons_append, runR, stepT]
      cases hs : step Cfg.fixed (runR Cfg.fixed nb nw (rest ++ .avSet i (.buf b off cnt) true :: hist)) op with
      | none => exact ih'
      | some s' =>
        exact (step_frame _ s' op hinv hs i _ ih' (hl op (by simp)) (by intro k x v _ wk p _ _; simp [ownAlloc])).same
  exact ⟨_, h2 later hl, by simp [size, setPtr], view_reads _ a off cnt⟩

/-- writing the source buffer changes exactly that element of the source (which the view then reads) -/
theorem buf_set_updates (s : State) (hinv : Inv s) (b a k v : Nat) (hb : getBuf s b = some a) (hk : k < lenAt s.heap a) :
    (cellAt (stepT Cfg.fixed s (.bufSet b k v)).heap a).data = (cellAt s.heap a).data.set k v := by
  have hl := liveAt_lt _ _ (hinv.bufs b a hb).1
  simp [stepT, step, hb, hk, cellAt_write, hl]

/-! ## the special members generated before the repairs violate wrapper_valid (witnesses) -/

/-- copy an OwnedArray, destroy the original (most recent operation first) -/
def histCopyDestroy : List Op :=
  [.destroy 0, .copy 1 0 false, .oaSet 0 (.buf 0 0 3) true, .bufNew 0 [1, 2, 3]]

/-- a FixedArrayView onto a FixedArray that is then reassigned -/
def histViewReassign : List Op :=
  [.faSet 0 (.buf 1 0 3) false, .favNew 1 0 1 2, .faSet 0 (.buf 0 0 4) true, .bufNew 1 [7, 8, 9], .bufNew 0 [1, 2, 3, 4]]

/-- With the implicitly generated memberwise copy (`ptr` copied verbatim) the copy in slot 1 dangles after
    the original is destroyed: wrapper_valid is false for the code before the OwnedArray repair. -/
theorem legacy_oa_copy_dangles :
    ∃ w, getW (runR Cfg.legacy 1 2 histCopyDestroy) 1 = some w ∧ w.owning = true ∧
      w.base.valid (runR Cfg.legacy 1 2 histCopyDestroy).heap = false := by
  refine ⟨.oa ⟨some ⟨1, 0⟩, 3⟩ 2, by decide, rfl, by decide⟩

/-- Before the FixedArrayView repair the view only kept the FixedArray *object* alive; reassigning that
    FixedArray frees the allocation the view points into. -/
theorem legacy_fav_dangles :
    ∃ w, getW (runR Cfg.legacy 2 2 histViewReassign) 1 = some w ∧ w.owning = true ∧
      w.base.valid (runR Cfg.legacy 2 2 histViewReassign).heap = false := by
  refine ⟨.fav ⟨some ⟨2, 1⟩, 2⟩ none, by decide, rfl, by decide⟩

/-- the legacy copy already shares storage with its original right after the copy (what the harness reports
    as `sh=`), contradicting owned_storage_unique's consequence that the exposed ranges are disjoint -/
theorem legacy_oa_copy_aliases :
    ∃ b1 x1 b2 x2, getW (runR Cfg.legacy 1 2 histCopyDestroy.tail) 0 = some (.oa b1 x1) ∧
      getW (runR Cfg.legacy 1 2 histCopyDestroy.tail) 1 = some (.oa b2 x2) ∧ b1.ptr = b2.ptr ∧ b1.ptr ≠ none := by
  refine ⟨⟨some ⟨1, 0⟩, 3⟩, 1, ⟨some ⟨1, 0⟩, 3⟩, 2, by decide, by decide, rfl, by decide⟩

/-! ## non-vacuity: the same histories on the code as it is now, and satisfiable hypotheses -/

example : (runR Cfg.fixed 1 2 histCopyDestroy).ws = [none, some (.oa ⟨some ⟨2, 0⟩, 3⟩ 2)] := by decide
example : (W.oa ⟨some ⟨2, 0⟩, 3⟩ 2).base.read (runR Cfg.fixed 1 2 histCopyDestroy).heap = [1, 2, 3] := by decide
example : getW (runR Cfg.fixed 2 2 histViewReassign) 1 = some (.fav ⟨some ⟨2, 1⟩, 2⟩ (some 2)) := by decide
example : (W.fav ⟨some ⟨2, 1⟩, 2⟩ (some 2)).base.read (runR Cfg.fixed 2 2 histViewReassign).heap = [2, 3] := by decide
example : (W.fav ⟨some ⟨2, 1⟩, 2⟩ (some 2)).base.valid (runR Cfg.fixed 2 2 histViewReassign).heap = true := by decide
-- hypotheses of oa_copy_post / oa_resize_post / fav_new_post hold in reachable states
example : getW (runR Cfg.fixed 1 2 (histCopyDestroy.drop 2)) 0 = some (.oa ⟨some ⟨1, 0⟩, 3⟩ 1) := by decide
example : getW (runR Cfg.fixed 2 2 (histViewReassign.drop 2)) 0 = some (.fa ⟨some ⟨2, 0⟩, 4⟩ (some 2)) := by decide
-- a view shows a later write to its source; an OwnedArray made from the same source does not
example :
    let s := runR Cfg.fixed 1 2 [.bufSet 0 1 50, .oaSet 1 (.buf 0 0 3) true, .avSet 0 (.buf 0 0 3) true, .bufNew 0 [1, 2, 3]]
    (getW s 0).map (fun w => w.base.read s.heap) = some [1, 50, 3] ∧
    (getW s 1).map (fun w => w.base.read s.heap) = some [1, 2, 3] := by decide
-- a resize that grows, then at() around the new size
example :
    let s := runR Cfg.fixed 1 1 [.oaResize 0 5 9, .oaSet 0 (.buf 0 1 2) true, .bufNew 0 [1, 2, 3]]
    (getW s 0).map (fun w => (w.base.read s.heap, (at? w.base 4).isSome, (at? w.base 5).isSome)) =
      some ([2, 3, 9, 9, 9], true, false) := by decide
-- DataView over 3 records of 8 bytes, 4-byte field at offset 4
example : DV.read [0,1,2,3,4,5,6,7, 10,11,12,13,14,15,16,17, 20,21,22,23,24,25,26,27] ⟨4, 8⟩ 4 2 = some [24,25,26,27] := by decide
example : iterate ⟨some ⟨0, 0⟩, 3⟩ 4 = some [0, 1, 2] := by decide
example : iterate ⟨some ⟨0, 0⟩, 3⟩ 2 = none := by decide

end RkVerif.C11
