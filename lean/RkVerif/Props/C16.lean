/-
  C16 — XML reading is total, memory-safe and faithful on its supported subset.
  Property theorems about the model `RkVerif.Model.C16` (XML.cpp with
  fixes/C16-parsestring-terminator.patch applied).  `readXML b` is the model of
  `rkcommon::xml::readXML` on a file whose bytes are `b`; the buffer the parser works on is `b`
  followed by one 0 byte.  All three safety theorems quantify over EVERY byte array.
-/
import RkVerif.Model.C16
import RkVerif.Lemmas.C16
import RkVerif.Lemmas.C16Doc
namespace RkVerif.C16

/-- the error of a result, if any (decidable observations for the witnesses below) -/
def errOf {α : Type} : Except Err α → Option Err
  | .ok _ => none
  | .error e => some e

/-- **xml_in_bounds** — for every byte string, the parser never reads outside
    `[buffer, buffer + numBytes]` (in the model every read goes through `rd`, which answers
    `outOfBounds` beyond the terminator; `trimBack` answers it before the buffer). -/
theorem xml_in_bounds (b : Array UInt8) : readXML b ≠ .error .outOfBounds := by
  rcases readXML_cases b with ⟨d, h⟩ | h <;> simp [h]

/-- **xml_total** — for every byte string, fuel `len + 2` never runs out: every loop iteration and
    every recursive `parseNode` call (one unit of fuel each) advances the cursor, which never
    passes the terminator.  (Hence also: recursion depth ≤ len + 2.) -/
theorem xml_total (b : Array UInt8) : readXML b ≠ .error .outOfFuel := by
  rcases readXML_cases b with ⟨d, h⟩ | h <;> simp [h]

/-- **xml_error_kind** — for every byte string, the call returns a document or throws
    `std::runtime_error`; there is no other outcome. -/
theorem xml_error_kind (b : Array UInt8) :
    (∃ doc, readXML b = .ok doc) ∨ readXML b = .error .runtimeError :=
  readXML_cases b

/-- all three at once, in the form the correspondence check relies on -/
theorem xml_safe (b : Array UInt8) : errOf (readXML b) = none ∨ errOf (readXML b) = some .runtimeError := by
  rcases readXML_cases b with ⟨d, h⟩ | h <;> simp [h, errOf]

/-! ### non-vacuity: both outcomes occur -/
-- `<a b="x"/>` parses; `<a b="x` is a runtime_error (fixed code)
example : errOf (readXML #[60, 97, 32, 98, 61, 34, 120, 34, 47, 62]) = none := by decide +kernel
example : errOf (readXML #[60, 97, 32, 98, 61, 34, 120]) = some .runtimeError := by decide +kernel
example : errOf (readXML #[]) = none := by decide +kernel

/-! ### the defect of the unchanged tree (DESIGN §9): `parseString` without the terminator test
    runs past the end of the buffer — `xml_in_bounds` is false for `readXMLOrig`. -/
/-- `<a b="u` : unterminated double-quoted value -/
theorem orig_unterminated_dq_out_of_bounds :
    errOf (readXMLOrig #[60, 97, 32, 98, 61, 34, 117]) = some .outOfBounds := by decide +kernel
/-- `<a b='` : unterminated single-quoted value -/
theorem orig_unterminated_sq_out_of_bounds :
    errOf (readXMLOrig #[60, 97, 32, 98, 61, 39]) = some .outOfBounds := by decide +kernel
/-- `<a b="\` : the backslash makes the loop step over the terminator itself -/
theorem orig_backslash_before_terminator_out_of_bounds :
    errOf (readXMLOrig #[60, 97, 32, 98, 61, 34, 92]) = some .outOfBounds := by decide +kernel
/-- `<?xml v="` : the same in the header -/
theorem orig_header_unterminated_out_of_bounds :
    errOf (readXMLOrig #[60, 63, 120, 109, 108, 32, 118, 61, 34]) = some .outOfBounds := by decide +kernel
/-- the fixed reader on the same inputs: runtime_error -/
example : errOf (readXML #[60, 97, 32, 98, 61, 34, 117]) = some .runtimeError := by decide +kernel
example : errOf (readXML #[60, 97, 32, 98, 61, 34, 92]) = some .runtimeError := by decide +kernel


/-! ### faithfulness on the documented subset

`Doc` (Model) is a source tree with every layout choice the reader accepts: identifier names,
properties in either quote style (values: any bytes but NUL / the quote / a lone backslash;
backslash pairs such as `\"` are kept verbatim), whitespace after the tag name, around `=`,
after each property and after each item, self-closing and open/close elements, at most one text
run per element anywhere among its children (non-empty, no `<`, its own trimmed form), comments
`<!…-->` between items and at top level, several top-level elements, optional `<?xml?>` or
`<?xml … ?>` header.  `docOK` is the (decidable) membership test, `printDoc` writes the bytes,
`eraseDoc` forgets the layout: names, property map (`properties[key] = value` in order, so a
repeated key keeps its last value), text, children in order. -/

/-- **xml_roundtrip** — for every well-formed source document (any depth, any fan-out, any layout),
    reading the printed bytes returns exactly its tree. -/
theorem xml_roundtrip (d : Doc) (h : docOK d = true) :
    readXML (printDoc d).toArray = .ok (eraseDoc d) :=
  readXML_printDoc d h

/-- the element-level form: `parseNode` on a printed element followed by anything, with enough fuel -/
theorem xml_roundtrip_elem (e : Elem) (he : elemOK e = true) (b : Array UInt8) (s f : Nat) (t : Bytes)
    (h : Suf b s (printElem e ++ t)) (hf : b.size - s + 1 ≤ f) :
    parseNode f b s = .ok (eraseElem e, s + (printElem e).length) :=
  parseNode_ev e b s f t h he hf

theorem setProp_fresh (acc : List (Bytes × Bytes)) (k v : Bytes) (h : k ∉ acc.map Prod.fst) :
    setProp acc k v = acc ++ [(k, v)] := by
  induction acc with
  | nil => rfl
  | cons kv rest ih =>
    obtain ⟨k', v'⟩ := kv
    simp only [List.map_cons, List.mem_cons, not_or] at h
    have : (k' == k) = false := by simpa using fun e => h.1 e.symm
    simp [setProp, this, ih h.2]

/-- with pairwise distinct keys the property map is the list of (key, value) in document order -/
theorem propsOf_distinct (attrs : List Attr) : ∀ (acc : List (Bytes × Bytes)),
    (acc.map Prod.fst ++ attrs.map Attr.key).Nodup →
    propsOf acc attrs = acc ++ attrs.map (fun a => (a.key, a.val)) := by
  induction attrs with
  | nil => intro acc _; simp [propsOf]
  | cons a as ih =>
    intro acc hnd
    have hfresh : a.key ∉ acc.map Prod.fst := by
      intro hm
      rw [List.nodup_append] at hnd
      exact hnd.2.2 _ hm _ (by simp) rfl
    rw [propsOf, setProp_fresh acc a.key a.val hfresh, ih]
    · simp
    · simpa [List.nodup_append, List.nodup_cons, and_assoc, and_comm, and_left_comm, not_or,
        List.mem_append, eq_comm] using hnd

/-! non-vacuity: a well-formed document using every feature (header with a property, comment at top
    level, both quote styles, a backslash pair, duplicate key, comment / self-closing child / text /
    open-close child inside an element), its printed form and its tree -/
def exAttr1 : Attr := { key := [107], val := [118, 32, 49], dq := true, ws1 := [], ws2 := [32], ws3 := [32] }
def exAttr2 : Attr := { key := [107], val := [119, 92, 39, 34], dq := false, ws1 := [32], ws2 := [], ws3 := [] }
def exElem : Elem :=
  .node [97] [32] [exAttr1, exAttr2] [10]
    (.comment [45, 45, 32, 104, 105, 32, 45, 62, 45, 45] [32]
      (.child (.selfClose [98] [] []) []
        (.text [115, 111, 109, 101, 32, 116, 101, 120, 116] [32, 32]
          (.child (.node [99, 46, 100] [] [] [] .nil) [10] .nil))))
def exDoc : Doc :=
  { header := .long [32] [exAttr1], initWs := [10], tops := [.comment [120] [32], .elem exElem [10]] }

example : docOK exDoc = true := by decide +kernel
-- `<?xml k= "v 1" ?>\n<!x--> <a k= "v 1" k ='w\'"'>\n<!-- hi ->----> <b/>some text  <c.d></c.d>\n</a>\n`
example : (printDoc exDoc).length = 96 := by decide +kernel
example : errOf (readXML (printDoc exDoc).toArray) = none := by decide +kernel
example : readXML (printDoc exDoc).toArray = .ok (eraseDoc exDoc) := xml_roundtrip exDoc (by decide +kernel)
example : (eraseDoc exDoc).map (·.name) = [[97]] ∧ (eraseDoc exDoc).map (·.content) = [[115, 111, 109, 101, 32, 116, 101, 120, 116]]
    ∧ (eraseDoc exDoc).map (·.props) = [[([107], [119, 92, 39, 34])]]
    ∧ (eraseDoc exDoc).map (fun n => n.children.map (·.name)) = [[[98], [99, 46, 100]]] := by decide +kernel

end RkVerif.C16
