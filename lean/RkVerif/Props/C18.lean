/-
Property C18 — string, URL, path and argument helpers satisfy their decomposition laws.
Property theorems only (model: Model/C18.lean, helpers and specification functions: Lemmas/C18.lean).
Every theorem declared in this module is an audited proof obligation of the check.

Specification vocabulary (Lemmas/C18.lean):
  runs p s        maximal non-empty runs of characters of `s` not satisfying `p` (p = "is a delimiter")
  joinWith d ts   t₀ d t₁ d … tₙ
  weave prs       sep₀ t₀ sep₁ t₁ … for prs = [(sep₀,t₀), (sep₁,t₁), …]
  ValidPath pf    pf = "" or pf ends with '/'
  Normal f        no backslash in f and f does not end with '/' (what the FileName constructors establish)
  ExtOk x         x contains none of '.', '/', '\\' (a plain extension, written "." ++ x when passed to setExt/addExt)
  keepUnconsumed  one left-to-right walk dropping each consumed group
-/
import RkVerif.Lemmas.C18
import Mathlib.Tactic.Linarith
import Mathlib.Tactic.NormNum
import Mathlib.Tactic.FieldSimp
import Mathlib.Tactic.Ring
set_option linter.unusedSectionVars false
set_option linter.unusedVariables false

namespace RkVerif.C18

/-! ## longestBeginningMatch / beginsWith -/

/-- lbm_is_common_prefix: the result is a prefix of both arguments … -/
theorem lbm_is_common_prefix (a b : Str) : lbm a b <+: a ∧ lbm a b <+: b := by
  induction a generalizing b with
  | nil => simp [lbm]
  | cons x a ih =>
    cases b with
    | nil => simp [lbm]
    | cons y b =>
      by_cases h : x = y
      · subst h; simp only [lbm, ↓reduceIte, List.cons_prefix_cons, true_and]; exact ih b
      · simp [lbm, h]

/-- … and every common prefix is a prefix of it (so it is the longest one). -/
theorem lbm_maximal (a b p : Str) (ha : p <+: a) (hb : p <+: b) : p <+: lbm a b := by
  induction p generalizing a b with
  | nil => simp
  | cons c p ih =>
    cases a with
    | nil => simp at ha
    | cons x a =>
      cases b with
      | nil => simp at hb
      | cons y b =>
        rw [List.cons_prefix_cons] at ha hb
        obtain ⟨rfl, ha⟩ := ha
        obtain ⟨rfl, hb⟩ := hb
        simp only [lbm, ↓reduceIte, List.cons_prefix_cons, true_and]
        exact ih a b ha hb

/-- beginsWith_iff: `beginsWith(input, start)` is the prefix relation. -/
theorem beginsWith_iff (input start : Str) : beginsWith input start = true ↔ start <+: input := by
  have h1 := lbm_is_common_prefix input start
  constructor
  · intro h
    have hl : (lbm input start).length = start.length := by simpa [beginsWith] using h
    have : lbm input start = start := h1.2.eq_of_length hl
    rw [← this]; exact h1.1
  · intro h
    have h2 := lbm_maximal input start start h (List.prefix_refl _)
    have : (lbm input start).length = start.length :=
      Nat.le_antisymm h1.2.length_le h2.length_le
    simp [beginsWith, this]

example : lbm "0123456".toList "01234".toList = "01234".toList := by decide
example : beginsWith "0123456".toList "12".toList = false := by decide

/-! ## split (single delimiter), tokenize, split (delimiter set) -/

/-- split_join: re-joining the pieces on the delimiter reproduces the input, except that
    `std::getline` swallows one trailing delimiter (`endFix d s` = that delimiter, if any). -/
theorem split_join (d : Char) (s : Str) : joinWith d (split1 d s) ++ endFix d s = s := by
  simpa [split1] using split1Aux_join d s []

theorem split_pieces_delimiter_free (d : Char) (s : Str) : ∀ t ∈ split1 d s, ∀ x ∈ t, x ≠ d :=
  split1Aux_no_delim d s [] (by simp)

/-- the other direction: pieces without the delimiter, the last one non-empty, are returned as given
    (empty pieces in the middle — repeated delimiters — included). -/
theorem split_of_join (d : Char) (ts : List Str) (hfree : ∀ t ∈ ts, ∀ x ∈ t, x ≠ d)
    (hlast : ts.getLast? ≠ some []) : split1 d (joinWith d ts) = ts := by
  induction ts with
  | nil => simp [joinWith, split1, split1Aux]
  | cons t ts ih =>
    have ht := hfree t (by simp)
    cases ts with
    | nil =>
      have hne : t ≠ [] := by simpa using hlast
      have := split1Aux_free_append d t [] [] ht
      simp only [List.append_nil, List.nil_append] at this
      simp [joinWith, split1, this, split1Aux, hne]
    | cons t2 ts2 =>
      have ih' := ih (fun t' h => hfree t' (by simp [h])) (by simpa [List.getLast?_cons_cons] using hlast)
      have := split1Aux_free_append d t (d :: joinWith d (t2 :: ts2)) [] ht
      simp only [List.nil_append] at this
      simp only [split1] at ih' ⊢
      simp only [joinWith] at ih' ⊢
      rw [this]; simp [split1Aux, ih']

/-- split_keeps_nonempty: the non-empty pieces are exactly the maximal delimiter-free runs. -/
theorem split_keeps_nonempty (d : Char) (s : Str) : (split1 d s).filter (· ≠ []) = runs (isD d) s := by
  have h1 := tokenizeAux_eq_filter d s []
  have h2 := tokenizeAux_eq_runs d s [] (by simp)
  simp only [List.nil_append] at h2
  rw [split1, ← h1, h2]

/-- tokenize returns exactly the maximal delimiter-free runs … -/
theorem tokenize_eq_runs (d : Char) (s : Str) : tokenize d s = runs (isD d) s := by
  simpa [tokenize, tokenizeK] using tokenizeAux_eq_runs d s [] (by simp)

/-- tokenize_keeps_nonempty: … hence every non-empty token — of any length ≥ 1 — of a string
    assembled with the delimiter comes back, in order, and nothing else. -/
theorem tokenize_keeps_nonempty (d : Char) (ts : List Str) (hfree : ∀ t ∈ ts, ∀ x ∈ t, x ≠ d) :
    tokenize d (joinWith d ts) = ts.filter (· ≠ []) := by
  rw [tokenize_eq_runs]
  exact runs_joinWith (isD d) d (by simp [isD]) ts (by simpa [isD] using hfree)

/-- and its content is the non-delimiter content of the input, in order -/
theorem tokenize_content (d : Char) (s : Str) : (tokenize d s).flatten = s.filter (· ≠ d) := by
  rw [tokenize_eq_runs, runs_flatten]; congr 1; funext x; by_cases h : x = d <;> simp [isD, h]

/-- split on a delimiter set without `keepDelim`: exactly the maximal delimiter-free runs -/
theorem splitSet_eq_runs (ds s : Str) : splitSet ds false s = runs (inD ds) s := by
  simpa [splitSet] using splitSetAux_false_eq_runs ds s none none (by simp)

theorem splitSet_content (ds s : Str) : (splitSet ds false s).flatten = s.filter (· ∉ ds) := by
  rw [splitSet_eq_runs, runs_flatten]; congr 1; funext x; simp [inD]

/-- The general shape for both values of `keepDelim`: for an input written as
    `sep₀ t₀ sep₁ t₁ … sepₙ tₙ tail` (separators made of delimiters, non-empty except possibly `sep₀`;
    tokens non-empty and delimiter-free — every string has exactly one such writing) the result is
    `t₀ … tₙ`, each token preceded by the single character in front of it when `keepDelim` is set. -/
theorem splitSet_weave (ds : Str) (k : Bool) (first : Str × Str) (pairs : List (Str × Str)) (tail : Str)
    (hseps : ∀ pr ∈ first :: pairs, ∀ x ∈ pr.1, x ∈ ds)
    (hne : ∀ pr ∈ pairs, pr.1 ≠ [])
    (htoks : ∀ pr ∈ first :: pairs, pr.2 ≠ [] ∧ ∀ x ∈ pr.2, x ∉ ds)
    (htail : ∀ x ∈ tail, x ∈ ds) :
    splitSet ds k (weave (first :: pairs) ++ tail) =
      (first :: pairs).map (fun pr => (if k then pr.1.getLast?.toList else []) ++ pr.2) := by
  have := ss_weave ds k first pairs tail none hseps hne htoks htail
  rw [splitSet, this, lastOr_eq]
  simp [keptPrefix]

/-- the runs themselves are characterised the same way (so `runs` is the intended notion) -/
theorem runs_of_weave (p : Char → Bool) (first : Str × Str) (pairs : List (Str × Str)) (tail : Str)
    (hseps : ∀ pr ∈ first :: pairs, ∀ x ∈ pr.1, p x = true)
    (hne : ∀ pr ∈ pairs, pr.1 ≠ [])
    (htoks : ∀ pr ∈ first :: pairs, pr.2 ≠ [] ∧ ∀ x ∈ pr.2, p x = false)
    (htail : ∀ x ∈ tail, p x = true) :
    runs p (weave (first :: pairs) ++ tail) = (first :: pairs).map (·.2) :=
  runs_weave p first pairs tail hseps hne htoks htail

theorem runs_nonempty_delimiter_free (p : Char → Bool) (s : Str) :
    ∀ t ∈ runs p s, t ≠ [] ∧ ∀ x ∈ t, p x = false := runs_mem p s

-- non-vacuity / the defect of the unrepaired tokenizer (`> 1`) on the witness of DESIGN §9
example : tokenize ':' "a:bb:c".toList = ["a".toList, "bb".toList, "c".toList] := by decide
example : tokenizeK 1 ':' "a:bb:c".toList = ["bb".toList] := by decide
example : split1 ',' ",a,,b,".toList = [[], "a".toList, [], "b".toList] := by decide
example : splitSet ",;".toList true ",a,;b;cc".toList = [",a".toList, ";b".toList, ";cc".toList] := by decide

/-! ## PseudoURL -/

/-- `name=value` as written into the URL -/
def paramStr (p : Str × Str) : Str := p.1 ++ '=' :: p.2

/-- `<type>://<file>[:name=value]*` -/
def assemble (type file : Str) (ps : List (Str × Str)) : Str :=
  type ++ "://".toList ++ file ++ (ps.map (fun p => ':' :: paramStr p)).flatten

/-- the same without the `type://` part -/
def assembleNoType (file : Str) (ps : List (Str × Str)) : Str :=
  file ++ (ps.map (fun p => ':' :: paramStr p)).flatten

/-- parts free of the delimiter characters: no `:` anywhere, no `=` in names, file name non-empty -/
def PartsOk (type file : Str) (ps : List (Str × Str)) : Prop :=
  (∀ x ∈ type, x ≠ ':') ∧ file ≠ [] ∧ (∀ x ∈ file, x ≠ ':') ∧
  ∀ p ∈ ps, (∀ x ∈ p.1, x ≠ ':' ∧ x ≠ '=') ∧ (∀ x ∈ p.2, x ≠ ':')

theorem tokenize_params (file : Str) (ps : List (Str × Str))
    (hf : file ≠ [] ∧ ∀ x ∈ file, x ≠ ':')
    (hps : ∀ p ∈ ps, (∀ x ∈ p.1, x ≠ ':' ∧ x ≠ '=') ∧ (∀ x ∈ p.2, x ≠ ':')) :
    tokenize ':' (assembleNoType file ps) = file :: ps.map paramStr := by
  rw [tokenize_eq_runs, assembleNoType]
  have := runs_prefixed (isD ':') ':' (by simp [isD]) file (ps.map paramStr)
    ⟨hf.1, by simpa [isD] using hf.2⟩
    (by
      intro t ht
      simp only [List.mem_map] at ht
      obtain ⟨p, hp, rfl⟩ := ht
      have h := hps p hp
      refine ⟨by simp [paramStr], ?_⟩
      intro x hx
      simp only [paramStr, List.mem_append, List.mem_cons] at hx
      rcases hx with h1 | h1 | h1
      · simpa [isD] using (h.1 x h1).1
      · subst h1; simp [isD]
      · simpa [isD] using h.2 x h1)
  simpa [List.map_map, Function.comp_def] using this

theorem map_splitEq_params (ps : List (Str × Str)) (hps : ∀ p ∈ ps, ∀ x ∈ p.1, x ≠ '=') :
    (ps.map paramStr).map splitEq = ps := by
  induction ps with
  | nil => simp
  | cons p ps ih =>
    simp only [List.map_cons, paramStr, splitEq_name p.1 p.2 (hps p (by simp))]
    rw [show List.map splitEq (List.map paramStr ps) = ps from ih (fun q h => hps q (by simp [h]))]

/-- pseudourl_roundtrip: a URL assembled from delimiter-free parts parses back into exactly those
    parts (type, file name, the parameter list in order — duplicates included). -/
theorem pseudourl_roundtrip (type file : Str) (ps : List (Str × Str)) (h : PartsOk type file ps) :
    parseURL (assemble type file ps) = ⟨type, file, ps⟩ := by
  obtain ⟨ht, hfne, hf, hps⟩ := h
  have hsep : findSep (assemble type file ps) = some (type, assembleNoType file ps) := by
    have := findSep_type type (assembleNoType file ps) ht
    simpa [assemble, assembleNoType] using this
  have htok := tokenize_params file ps ⟨hfne, hf⟩ hps
  have hm := map_splitEq_params ps (fun p hp x hx => ((hps p hp).1 x hx).2)
  simp only [parseURL, hsep, htok, hm]

/-- the same for the form without `type://`, when in addition no name starts with `/`
    (otherwise `file:/…` itself contains the `://` marker and is read as a type — inherent to the format) -/
theorem pseudourl_roundtrip_notype (file : Str) (ps : List (Str × Str)) (h : PartsOk [] file ps)
    (hns : noSepIn (assembleNoType file ps)) :
    parseURL (assembleNoType file ps) = ⟨[], file, ps⟩ := by
  obtain ⟨_, hfne, hf, hps⟩ := h
  have htok := tokenize_params file ps ⟨hfne, hf⟩ hps
  have hm := map_splitEq_params ps (fun p hp x hx => ((hps p hp).1 x hx).2)
  simp only [parseURL, findSep_none _ hns, htok, hm]

/-- last duplicate wins: `getValue` is the value of the last parameter with that name;
    it throws (`none`) exactly when `hasParam` is false. -/
theorem getValue_last_wins (ps : List (Str × Str)) (n : Str) :
    getValue ps n = ((ps.filter (·.1 = n)).getLast?).map (·.2) := getValue_eq_last ps n

theorem getValue_snoc (ps : List (Str × Str)) (m n v : Str) :
    getValue (ps ++ [(m, v)]) n = if m = n then some v else getValue ps n := by
  by_cases h : m = n
  · subst h; simp [getValue_append_same]
  · simp [h, getValue_append_other ps m n v h]

theorem hasParam_iff (ps : List (Str × Str)) (n : Str) : hasParam ps n = true ↔ ∃ v, (n, v) ∈ ps := by
  simp only [hasParam, List.any_eq_true, decide_eq_true_eq]
  constructor
  · rintro ⟨⟨a, b⟩, hm, rfl⟩; exact ⟨b, hm⟩
  · rintro ⟨v, hm⟩; exact ⟨(n, v), hm, rfl⟩

theorem getValue_throws_iff (ps : List (Str × Str)) (n : Str) : getValue ps n = none ↔ hasParam ps n = false := by
  rw [getValue_none_iff]
  simp [hasParam]

example : PartsOk "pts".toList "f.raw".toList [("a".toList, "1".toList), ("b".toList, []), ("a".toList, "2".toList)] := by
  simp [PartsOk]
example : parseURL "pts://f:a=1:b=:a=2".toList =
    ⟨"pts".toList, "f".toList, [("a".toList, "1".toList), ("b".toList, []), ("a".toList, "2".toList)]⟩ := by decide
example : getValue [("a".toList, "1".toList), ("b".toList, []), ("a".toList, "2".toList)] "a".toList = some "2".toList := by decide

/-! ## FileName -/

/-- filename_decompose (1): `path() + base() == str()`; the base has no separator, the path is empty
    or ends with one. -/
theorem filename_path_base (f : Str) :
    path f ++ base f = f ∧ '/' ∉ base f ∧ ValidPath (path f) := by
  obtain ⟨pf, b, hp, hb, hf, h1, h2⟩ := exists_path_base f
  rw [h1, h2]; exact ⟨hf.symm, hb, hp⟩

/-- filename_decompose (2): name and extension come from the last component only:
    with a dot in `base()`, `base() == name() + "." + ext()` and `ext()` has no further dot;
    without one, `name() == base()` and `ext() == ""`. -/
theorem filename_decompose (f : Str) :
    ('.' ∈ base f → base f = name f ++ '.' :: ext f ∧ '.' ∉ ext f) ∧
    ('.' ∉ base f → name f = base f ∧ ext f = []) := by
  rcases exists_parts f with ⟨pf, b, hp, hb, hd, rfl⟩ | ⟨pf, n, x, hp, hn, hx, hd, rfl⟩
  · obtain ⟨_, h2, h3, h4, _, _⟩ := parts_nodot pf b hp hb hd
    rw [h2, h3, h4]; exact ⟨fun h => absurd h hd, fun _ => ⟨rfl, rfl⟩⟩
  · obtain ⟨_, h2, h3, h4, _, _⟩ := parts_dot pf n x hp hn hx hd
    rw [h2, h3, h4]
    exact ⟨fun _ => ⟨rfl, hd⟩, fun h => absurd (by simp) h⟩

/-- name and extension do not depend on the directory part at all -/
theorem name_ext_of_base (f : Str) : name f = name (base f) ∧ ext f = ext (base f) := by
  rcases exists_parts f with ⟨pf, b, hp, hb, hd, rfl⟩ | ⟨pf, n, x, hp, hn, hx, hd, rfl⟩
  · obtain ⟨_, h2, h3, h4, _, _⟩ := parts_nodot pf b hp hb hd
    obtain ⟨_, _, g3, g4, _, _⟩ := parts_nodot [] b (Or.inl rfl) hb hd
    simp only [List.nil_append] at g3 g4
    rw [h2, h3, h4, g3, g4]; exact ⟨rfl, rfl⟩
  · obtain ⟨_, h2, h3, h4, _, _⟩ := parts_dot pf n x hp hn hx hd
    obtain ⟨_, _, g3, g4, _, _⟩ := parts_dot [] n x (Or.inl rfl) hn hx hd
    simp only [List.nil_append] at g3 g4
    rw [h2, h3, h4, g3, g4]; exact ⟨rfl, rfl⟩

/-- dropExt / setExt recompose from path and name (through the constructor's normalisation). -/
theorem dropExt_setExt_eq (f : Str) :
    dropExt f = mkFile (path f ++ name f) ∧ ∀ e, setExt f e = mkFile (path f ++ name f ++ e) := by
  rcases exists_parts f with ⟨pf, b, hp, hb, hd, rfl⟩ | ⟨pf, n, x, hp, hn, hx, hd, rfl⟩
  · obtain ⟨h1, _, h3, _, h5, h6⟩ := parts_nodot pf b hp hb hd
    rw [h1, h3]; exact ⟨h5, h6⟩
  · obtain ⟨h1, _, h3, _, h5, h6⟩ := parts_dot pf n x hp hn hx hd
    rw [h1, h3]; exact ⟨h5, h6⟩

/-- the constructors produce normal file names, and are the identity on them -/
theorem mkFile_is_normal (s : Str) : Normal (mkFile s) := mkFile_normal s
theorem mkFile_of_normal (f : Str) (h : Normal f) : mkFile f = f := mkFile_id f h

/-- setExt law: on a normal file name, `setExt("." + x)` keeps path and name and makes `x` the extension. -/
theorem setExt_law (f x : Str) (hf : Normal f) (hx : ExtOk x) :
    let g := setExt f ('.' :: x)
    g = path f ++ name f ++ '.' :: x ∧ path g = path f ∧ name g = name f ∧ ext g = x := by
  intro g
  have hval : ValidPath (path f) := (filename_path_base f).2.2
  have hnm : '/' ∉ name f := by
    rcases exists_parts f with ⟨pf, b, hp, hb, hd, rfl⟩ | ⟨pf, n, x', hp, hn, hx', hd, rfl⟩
    · rw [(parts_nodot pf b hp hb hd).2.2.1]; exact hb
    · rw [(parts_dot pf n x' hp hn hx' hd).2.2.1]; exact hn
  have hg : g = path f ++ name f ++ '.' :: x := by
    simp only [g]
    rw [(dropExt_setExt_eq f).2]
    exact mkFile_id _ (normal_append_ext _ x (fun c hc => hf.1 c (mem_path_name f c hc)) hx)
  obtain ⟨h1, _, h3, h4, _, _⟩ := parts_dot (path f) (name f) x hval hnm hx.2.1 hx.1
  rw [hg]; exact ⟨rfl, h1, h3, h4⟩

/-- dropExt law: when the name is non-empty, `dropExt()` is literally path + name
    (an empty name — hidden file `dir/.x` — leaves `dir/`, which the constructor normalises to `dir`). -/
theorem dropExt_law (f : Str) (hf : Normal f) (hne : name f ≠ []) :
    dropExt f = path f ++ name f ∧ path (dropExt f) = path f ∧ base (dropExt f) = name f := by
  have hval : ValidPath (path f) := (filename_path_base f).2.2
  have hnm : '/' ∉ name f := by
    rcases exists_parts f with ⟨pf, b, hp, hb, hd, rfl⟩ | ⟨pf, n, x', hp, hn, hx', hd, rfl⟩
    · rw [(parts_nodot pf b hp hb hd).2.2.1]; exact hb
    · rw [(parts_dot pf n x' hp hn hx' hd).2.2.1]; exact hn
  have hnorm : Normal (path f ++ name f) := by
    refine ⟨fun c hc => hf.1 c (mem_path_name f c hc), ?_⟩
    intro h
    rw [getLast?_append_ne _ _ hne] at h
    exact hnm (List.mem_of_getLast? h)
  have e : dropExt f = path f ++ name f := by rw [(dropExt_setExt_eq f).1]; exact mkFile_id _ hnorm
  have := path_base_of_parts (path f) (name f) hval hnm
  rw [e]; exact ⟨rfl, this.1, this.2⟩

/-- addExt law: `addExt("." + x)` keeps the path, the old base becomes the name, `x` the extension. -/
theorem addExt_law (f x : Str) (hf : Normal f) (hx : ExtOk x) :
    let g := addExt f ('.' :: x)
    g = f ++ '.' :: x ∧ path g = path f ∧ name g = base f ∧ ext g = x := by
  intro g
  obtain ⟨hpb, hb, hval⟩ := filename_path_base f
  have hg : g = path f ++ base f ++ '.' :: x := by
    simp only [g, addExt]
    rw [hpb]; exact mkFile_id _ (normal_append_ext f x hf.1 hx)
  obtain ⟨h1, _, h3, h4, _, _⟩ := parts_dot (path f) (base f) x hval hb hx.2.1 hx.1
  rw [hg]; refine ⟨by rw [hpb], h1, h3, h4⟩

/-- operator+ law: for non-empty normal names the result is `f/g`; its path is `f/` + path of `g`,
    its base (hence name and extension) is that of `g`; an empty side yields the other one. -/
theorem plus_law (f g : Str) (hf : Normal f) (hg : Normal g) (hfne : f ≠ []) (hgne : g ≠ []) :
    plus f g = f ++ '/' :: g ∧ path (plus f g) = f ++ '/' :: path g ∧ base (plus f g) = base g := by
  have hn : Normal (f ++ '/' :: g) := by
    refine ⟨?_, ?_⟩
    · intro c hc
      simp only [List.mem_append, List.mem_cons] at hc
      rcases hc with h | h | h
      · exact hf.1 c h
      · subst h; decide
      · exact hg.1 c h
    · have : (f ++ '/' :: g).getLast? = g.getLast? := by
        rw [show f ++ '/' :: g = (f ++ ['/']) ++ g by simp, getLast?_append_ne _ _ hgne]
      rw [this]; exact hg.2
  have e : plus f g = f ++ '/' :: g := by simp [plus, hfne, mkFile_id _ hn]
  obtain ⟨hpb, hb, hval⟩ := filename_path_base g
  have hv2 : ValidPath (f ++ '/' :: path g) := by
    rcases hval with h | ⟨p, h⟩
    · rw [h]; exact Or.inr ⟨f, by simp⟩
    · rw [h]; exact Or.inr ⟨f ++ '/' :: p, by simp⟩
  have := path_base_of_parts (f ++ '/' :: path g) (base g) hv2 hb
  have e2 : (f ++ '/' :: path g) ++ base g = f ++ '/' :: g := by
    conv => rhs; rw [← hpb]
    simp
  rw [e2] at this
  rw [e]; exact ⟨rfl, this.1, this.2⟩

theorem plus_empty (f : Str) (hf : Normal f) : plus [] f = f ∧ plus f [] = f := by
  refine ⟨by simp [plus, mkFile_id f hf], ?_⟩
  by_cases h : f = []
  · subst h; simp [plus, mkFile_id [] hf]
  · simp only [plus, h, ↓reduceIte]
    unfold mkFile
    rw [List.map_append]
    simp only [List.map_cons, List.map_nil, or_true, ↓reduceIte]
    rw [rstripSep_snoc_sep, map_slash_id f hf.1, rstripSep_id f hf.2]

-- non-vacuity, and the witnesses of DESIGN §9 on the repaired model
example : Normal "dir.d/file".toList := by simp [Normal]
example : ext "dir.d/file".toList = [] ∧ dropExt "dir.d/file".toList = "dir.d/file".toList := by decide
example : name "a/.bashrc".toList = [] ∧ ext "a/.bashrc".toList = "bashrc".toList := by decide
example : setExt "a.d/b.c".toList ".x".toList = "a.d/b.x".toList := by decide
example : mkFile "a\\b//".toList = "a/b".toList := by decide
example : ExtOk "txt".toList := by simp [ExtOk]

/-! ## ArgumentList / parseAndRemove / removeArgs -/

variable {α : Type}

/-- `remove(where, howMany)` keeps exactly the arguments outside `[where, where+howMany)`, in order. -/
theorem remove_keeps_rest (args : List α) (w n : Nat) :
    remove args w n = args.take w ++ args.drop (w + n) := remove_eq args w n

/-- args_keep_unconsumed: `parseAndRemove` leaves exactly the arguments a single left-to-right walk
    does not consume … -/
theorem args_keep_unconsumed (f : α → Nat) (args : List α) :
    parseAndRemove f args = keepUnconsumed f args := by
  have := parseLoop_eq f (2 * args.length + 1) args 0 (by omega)
  simpa [parseAndRemove] using this

/-- … which is a sub-list of the original arguments (original order, nothing invented or duplicated), -/
theorem keepUnconsumed_sublist (f : α → Nat) (args : List α) : (keepUnconsumed f args).Sublist args := by
  generalize hn : args.length = n
  induction n using Nat.strongRecOn generalizing args with
  | _ n ih =>
    cases args with
    | nil => simp [keepUnconsumed_nil]
    | cons a rest =>
      rw [keepUnconsumed_cons]
      split
      · exact (ih rest.length (by simp at hn; omega) rest rfl).cons_cons a
      · have h1 := ih (rest.drop (f a - 1)).length (by simp at hn ⊢; omega) _ rfl
        exact (h1.trans (List.drop_sublist _ _)).cons a

theorem args_order_preserved (f : α → Nat) (args : List α) : (parseAndRemove f args).Sublist args := by
  rw [args_keep_unconsumed]; exact keepUnconsumed_sublist f args

/-- … every argument the parser does not recognise and that is not swallowed by an earlier option stays:
    if the parser recognises nothing, nothing is removed; -/
theorem args_nothing_consumed (f : α → Nat) (args : List α) (h : ∀ a ∈ args, f a = 0) :
    parseAndRemove f args = args := by
  rw [args_keep_unconsumed]
  induction args with
  | nil => exact keepUnconsumed_nil f
  | cons a rest ih =>
    rw [keepUnconsumed_cons, if_pos (h a (by simp)), ih (fun b hb => h b (by simp [hb]))]

/-- and a recognised option with its `k-1` operands disappears as a block. -/
theorem args_group_consumed (f : α → Nat) (pre : List α) (a : α) (ops post : List α)
    (hpre : ∀ b ∈ pre, f b = 0) (ha : f a = ops.length + 1) :
    parseAndRemove f (pre ++ a :: ops ++ post) = pre ++ parseAndRemove f post := by
  rw [args_keep_unconsumed, args_keep_unconsumed]
  induction pre with
  | nil =>
    simp only [List.nil_append, List.cons_append]
    rw [keepUnconsumed_cons, if_neg (by omega), ha]; simp
  | cons b pre ih =>
    simp only [List.cons_append]
    rw [keepUnconsumed_cons, if_pos (hpre b (by simp))]
    have := ih (fun c hc => hpre c (by simp [hc]))
    simp only [List.cons_append, List.append_assoc] at this ⊢
    rw [this]

/-- `removeArgs(ac, av, where, howMany)` leaves `ac - howMany` entries: those outside the removed range, in order. -/
theorem removeArgs_keeps_rest (av : List α) (w h : Nat) (hr : w + h ≤ av.length) :
    removeArgs av w h = av.take w ++ av.drop (w + h) := by
  apply List.ext_getElem?
  intro j
  simp only [removeArgs, List.getElem?_take, List.getElem?_append, List.length_take, List.getElem?_drop]
  rw [shiftLoop_get h _ (w + h) av (by omega) j]
  have e : w + h - h = w := by omega
  rw [e]
  by_cases h1 : j < av.length - h
  · by_cases h2 : j < w
    · have : min w av.length = w := by omega
      simp only [h1, ↓reduceIte, this, h2]
      rw [if_neg (by omega)]
    · have : min w av.length = w := by omega
      simp only [h1, ↓reduceIte, this, h2]
      rw [if_pos (by omega)]
      congr 1; omega
  · have : min w av.length = w := by omega
    simp only [h1, ↓reduceIte, this]
    have h2 : ¬ j < w := by omega
    simp only [h2, ↓reduceIte]
    symm; apply List.getElem?_eq_none; omega

theorem argsNew_drops_program_name (av : List α) : argsNew av = av.tail := by
  cases av <;> simp [argsNew]

example : parseAndRemove (fun a => if a = 1 then 1 else if a = 3 then 2 else 0) [1, 2, 3, 4] = [2] := by decide
example : removeArgs [0, 1, 2, 3, 4, 5] 2 2 = [0, 1, 4, 5] := by decide

/-! ## prettyNumber / prettyDouble: the SI threshold table (exact rationals of the float literals) -/

theorem big_arm_bounds (c si hi x : Rat) (hc : 0 < c) (hx : c ≤ x) (hxhi : x < hi)
    (hhi : hi ≤ 1000 * (1 + 1 / 10 ^ 7) * c) (hsi1 : c ≤ si) (hsi2 : si ≤ (1 + 1 / 10 ^ 7) * c) :
    1 ≤ x / c ∧ x / c < 1000 * (1 + 1 / 10 ^ 7) ∧ |x / c * si - x| ≤ x / 10 ^ 7 := by
  have hx0 : 0 < x := lt_of_lt_of_le hc hx
  refine ⟨?_, ?_, ?_⟩
  · rw [le_div_iff₀ hc]; linarith
  · rw [div_lt_iff₀ hc]; linarith
  · have e : x / c * si - x = x * (si - c) / c := by field_simp
    rw [e, abs_of_nonneg (div_nonneg (mul_nonneg hx0.le (by linarith)) hc.le), div_le_iff₀ hc]
    have : si - c ≤ c / 10 ^ 7 := by linarith
    calc x * (si - c) ≤ x * (c / 10 ^ 7) := mul_le_mul_of_nonneg_left this hx0.le
      _ = x / 10 ^ 7 * c := by ring

theorem small_arm_bounds (thr scale si lo x : Rat) (hlo0 : 0 < lo) (hs : 0 < scale) (hx1 : lo < x) (hx2 : x ≤ thr)
    (h1 : 1 - 1 / 10 ^ 7 ≤ lo * scale) (h2 : thr * scale ≤ 1000 * (1 + 1 / 10 ^ 7))
    (h3 : 1 - 1 / 10 ^ 7 ≤ scale * si) (h4 : scale * si ≤ 1) :
    1 - 1 / 10 ^ 7 < x * scale ∧ x * scale ≤ 1000 * (1 + 1 / 10 ^ 7) ∧ |x * scale * si - x| ≤ x / 10 ^ 7 := by
  have hx0 : 0 < x := lt_trans hlo0 hx1
  refine ⟨?_, ?_, ?_⟩
  · have := mul_lt_mul_of_pos_right hx1 hs; linarith
  · have := mul_le_mul_of_nonneg_right hx2 hs.le; linarith
  · have e : x * scale * si - x = -(x * (1 - scale * si)) := by ring
    rw [e, abs_neg, abs_of_nonneg (mul_nonneg hx0.le (by linarith))]
    calc x * (1 - scale * si) ≤ x * (1 / 10 ^ 7) := mul_le_mul_of_nonneg_left (by linarith) hx0.le
      _ = x / 10 ^ 7 := by ring

/-- pretty_mantissa (large values): for `10³ ≤ x < 10²¹` one of the arms is selected, its mantissa
    `x / scale` lies in `[1, 1000·(1+10⁻⁷))` and suffix × mantissa is `x` up to the rounding of the
    float literal (relative `10⁻⁷`, far below the one printed decimal). -/
theorem pretty_mantissa_big (x : Rat) (hlo : 1000 ≤ x) (hhi : x < 10 ^ 21) :
    ∃ a ∈ bigArms, selectBig x bigArms = some a ∧
      1 ≤ x / a.scale ∧ x / a.scale < 1000 * (1 + 1 / 10 ^ 7) ∧ |x / a.scale * a.si - x| ≤ x / 10 ^ 7 := by
  by_cases h18 : f1e18 ≤ x
  · refine ⟨⟨f1e18, f1e18, 'E', 1000000000000000000⟩, by simp [bigArms], by simp [selectBig, bigArms, h18], ?_⟩
    exact big_arm_bounds f1e18 _ (10 ^ 21) x (by norm_num [f1e18]) h18 hhi (by norm_num [f1e18])
      (by norm_num [f1e18]) (by norm_num [f1e18])
  by_cases h15 : f1e15 ≤ x
  · refine ⟨⟨f1e15, f1e15, 'P', 1000000000000000⟩, by simp [bigArms], by simp [selectBig, bigArms, h18, h15], ?_⟩
    exact big_arm_bounds f1e15 _ f1e18 x (by norm_num [f1e15]) h15 (not_le.mp h18) (by norm_num [f1e15, f1e18])
      (by norm_num [f1e15]) (by norm_num [f1e15])
  by_cases h12 : f1e12 ≤ x
  · refine ⟨⟨f1e12, f1e12, 'T', 1000000000000⟩, by simp [bigArms], by simp [selectBig, bigArms, h18, h15, h12], ?_⟩
    exact big_arm_bounds f1e12 _ f1e15 x (by norm_num [f1e12]) h12 (not_le.mp h15) (by norm_num [f1e12, f1e15])
      (by norm_num [f1e12]) (by norm_num [f1e12])
  by_cases h09 : f1e09 ≤ x
  · refine ⟨⟨f1e09, f1e09, 'G', 1000000000⟩, by simp [bigArms], by simp [selectBig, bigArms, h18, h15, h12, h09], ?_⟩
    exact big_arm_bounds f1e09 _ f1e12 x (by norm_num [f1e09]) h09 (not_le.mp h12) (by norm_num [f1e09, f1e12])
      (by norm_num [f1e09]) (by norm_num [f1e09])
  by_cases h06 : f1e06 ≤ x
  · refine ⟨⟨f1e06, f1e06, 'M', 1000000⟩, by simp [bigArms], by simp [selectBig, bigArms, h18, h15, h12, h09, h06], ?_⟩
    exact big_arm_bounds f1e06 _ f1e09 x (by norm_num [f1e06]) h06 (not_le.mp h09) (by norm_num [f1e06, f1e09])
      (by norm_num [f1e06]) (by norm_num [f1e06])
  · have h03 : f1e03 ≤ x := by norm_num [f1e03]; exact hlo
    refine ⟨⟨f1e03, f1e03, 'k', 1000⟩, by simp [bigArms], by simp [selectBig, bigArms, h18, h15, h12, h09, h06, h03], ?_⟩
    exact big_arm_bounds f1e03 _ f1e06 x (by norm_num [f1e03]) h03 (not_le.mp h06) (by norm_num [f1e03, f1e06])
      (by norm_num [f1e03]) (by norm_num [f1e03])

/-- below 1000 no large arm applies (prettyNumber prints the integer itself) -/
theorem pretty_no_big_arm (x : Rat) (h : x < 1000) : selectBig x bigArms = none := by
  have h1 : ¬ f1e18 ≤ x := by norm_num [f1e18]; linarith
  have h2 : ¬ f1e15 ≤ x := by norm_num [f1e15]; linarith
  have h3 : ¬ f1e12 ≤ x := by norm_num [f1e12]; linarith
  have h4 : ¬ f1e09 ≤ x := by norm_num [f1e09]; linarith
  have h5 : ¬ f1e06 ≤ x := by norm_num [f1e06]; linarith
  have h6 : ¬ f1e03 ≤ x := by norm_num [f1e03]; linarith
  simp [selectBig, bigArms, h1, h2, h3, h4, h5, h6]

/-- pretty_mantissa (small values, prettyDouble): for `10⁻¹⁵ < x ≤ 1` a small arm is selected, its
    mantissa `x * scale` lies in `(1-10⁻⁷, 1000·(1+10⁻⁷)]` and suffix × mantissa is `x` up to `10⁻⁷`. -/
theorem pretty_mantissa_small (x : Rat) (hlo : 1 / 10 ^ 15 < x) (hhi : x ≤ 1) :
    selectBig x bigArms = none ∧ ∃ a ∈ smallArms, selectSmall x smallArms = some a ∧
      1 - 1 / 10 ^ 7 < x * a.scale ∧ x * a.scale ≤ 1000 * (1 + 1 / 10 ^ 7) ∧
      |x * a.scale * a.si - x| ≤ x / 10 ^ 7 := by
  refine ⟨pretty_no_big_arm x (by linarith), ?_⟩
  by_cases h12 : x ≤ f1em12
  · refine ⟨⟨f1em12, f1e15, 'f', (1 : Rat) / 1000000000000000⟩, by simp [smallArms], by simp [selectSmall, smallArms, h12], ?_⟩
    exact small_arm_bounds f1em12 f1e15 _ (1 / 10 ^ 15) x (by norm_num) (by norm_num [f1e15]) hlo h12
      (by norm_num [f1e15]) (by norm_num [f1em12, f1e15]) (by norm_num [f1e15]) (by norm_num [f1e15])
  by_cases h09 : x ≤ f1em09
  · refine ⟨⟨f1em09, f1e12, 'p', (1 : Rat) / 1000000000000⟩, by simp [smallArms], by simp [selectSmall, smallArms, h12, h09], ?_⟩
    exact small_arm_bounds f1em09 f1e12 _ f1em12 x (by norm_num [f1em12]) (by norm_num [f1e12]) (not_le.mp h12) h09
      (by norm_num [f1em12, f1e12]) (by norm_num [f1em09, f1e12]) (by norm_num [f1e12]) (by norm_num [f1e12])
  by_cases h06 : x ≤ f1em06
  · refine ⟨⟨f1em06, f1e09, 'n', (1 : Rat) / 1000000000⟩, by simp [smallArms], by simp [selectSmall, smallArms, h12, h09, h06], ?_⟩
    exact small_arm_bounds f1em06 f1e09 _ f1em09 x (by norm_num [f1em09]) (by norm_num [f1e09]) (not_le.mp h09) h06
      (by norm_num [f1em09, f1e09]) (by norm_num [f1em06, f1e09]) (by norm_num [f1e09]) (by norm_num [f1e09])
  by_cases h03 : x ≤ f1em03
  · refine ⟨⟨f1em03, f1e06, 'u', (1 : Rat) / 1000000⟩, by simp [smallArms], by simp [selectSmall, smallArms, h12, h09, h06, h03], ?_⟩
    exact small_arm_bounds f1em03 f1e06 _ f1em06 x (by norm_num [f1em06]) (by norm_num [f1e06]) (not_le.mp h06) h03
      (by norm_num [f1em06, f1e06]) (by norm_num [f1em03, f1e06]) (by norm_num [f1e06]) (by norm_num [f1e06])
  · refine ⟨⟨1, f1e03, 'm', (1 : Rat) / 1000⟩, by simp [smallArms], by simp [selectSmall, smallArms, h12, h09, h06, h03, hhi], ?_⟩
    exact small_arm_bounds 1 f1e03 _ f1em03 x (by norm_num [f1em03]) (by norm_num [f1e03]) (not_le.mp h03) hhi
      (by norm_num [f1em03, f1e03]) (by norm_num [f1e03]) (by norm_num [f1e03]) (by norm_num [f1e03])

/-- between 1 and 1000 prettyDouble selects no arm: the value itself (already in `(1,1000)`) is printed. -/
theorem pretty_plain_mid (x : Rat) (h1 : 1 < x) (h2 : x < 1000) :
    selectBig x bigArms = none ∧ selectSmall x smallArms = none := by
  refine ⟨pretty_no_big_arm x h2, ?_⟩
  have a1 : ¬ x ≤ f1em12 := by norm_num [f1em12]; linarith
  have a2 : ¬ x ≤ f1em09 := by norm_num [f1em09]; linarith
  have a3 : ¬ x ≤ f1em06 := by norm_num [f1em06]; linarith
  have a4 : ¬ x ≤ f1em03 := by norm_num [f1em03]; linarith
  have a5 : ¬ x ≤ 1 := by linarith
  simp [selectSmall, smallArms, a1, a2, a3, a4, a5]

-- the unrepaired table (first threshold 1e15f with divisor 1e18f) on the witness of DESIGN §9:
-- 2·10¹⁵ selects 'E' with mantissa 0.002 < 1
example : selectBig 2000000000000000 (⟨f1e15, f1e18, 'E', 1000000000000000000⟩ :: bigArms.tail) =
    some ⟨f1e15, f1e18, 'E', 1000000000000000000⟩ := by
  simp [selectBig]; norm_num [f1e15]
example : (2000000000000000 : Rat) / f1e18 < 1 := by norm_num [f1e18]
-- (the printed strings themselves, e.g. prettyNumber 2·10¹⁵ = "2.0P", are compared with the real
--  snprintf output by the correspondence check; corpus/C18/pretty_exa.ops)

/-- "within the printed precision": rounding to the nearest integer (ties to even), which is what
    `%.1f` does with ten times the mantissa, is off by at most one half — so the printed mantissa
    differs from the exact one by at most 0.05. -/
theorem roundHalfEven_close (q : Rat) (hq : 0 ≤ q) : |((roundHalfEven q : Nat) : Rat) - q| ≤ 1 / 2 := by
  have key : ∀ (fl r d : Nat) (x : Rat), 0 < d → r < d → x = (fl : Rat) + (r : Rat) / (d : Rat) →
      |(((if 2 * r < d then fl else if 2 * r > d then fl + 1 else if fl % 2 = 0 then fl else fl + 1 : Nat)) : Rat) - x|
        ≤ 1 / 2 := by
    intro fl r d x hdpos hr hx
    subst hx
    have hd : (0 : Rat) < (d : Rat) := by exact_mod_cast hdpos
    have hr0 : (0 : Rat) ≤ (r : Rat) := by positivity
    have hrd : (r : Rat) < (d : Rat) := by exact_mod_cast hr
    have hfr0 : 0 ≤ (r : Rat) / (d : Rat) := div_nonneg hr0 hd.le
    have hfr1 : (r : Rat) / (d : Rat) ≤ 1 := by rw [div_le_iff₀ hd]; linarith
    split_ifs with h1 h2 h3
    · have h1' : 2 * (r : Rat) < (d : Rat) := by exact_mod_cast h1
      have : (r : Rat) / (d : Rat) ≤ 1 / 2 := by rw [div_le_iff₀ hd]; linarith
      rw [abs_le]; constructor <;> linarith
    · have h2' : (d : Rat) < 2 * (r : Rat) := by exact_mod_cast h2
      have : 1 / 2 ≤ (r : Rat) / (d : Rat) := by rw [le_div_iff₀ hd]; linarith
      push_cast
      rw [abs_le]; constructor <;> linarith
    · have e : 2 * r = d := by omega
      have e' : 2 * (r : Rat) = (d : Rat) := by exact_mod_cast e
      have : (r : Rat) / (d : Rat) = 1 / 2 := by rw [div_eq_iff hd.ne']; linarith
      rw [this, abs_le]; constructor <;> linarith
    · have e : 2 * r = d := by omega
      have e' : 2 * (r : Rat) = (d : Rat) := by exact_mod_cast e
      have : (r : Rat) / (d : Rat) = 1 / 2 := by rw [div_eq_iff hd.ne']; linarith
      push_cast
      rw [this, abs_le]; constructor <;> linarith
  have hdpos : 0 < q.den := q.den_pos
  have hd : (0 : Rat) < (q.den : Rat) := by exact_mod_cast hdpos
  have hnum : 0 ≤ q.num := Rat.num_nonneg.mpr hq
  have hn : ((q.num.toNat : Nat) : Rat) = (q.num : Rat) := by
    have : ((q.num.toNat : Nat) : Int) = q.num := Int.toNat_of_nonneg hnum
    exact_mod_cast this
  have hqv : q = ((q.num.toNat : Nat) : Rat) / (q.den : Rat) := by rw [hn]; exact (Rat.num_div_den q).symm
  have hdm := Nat.div_add_mod q.num.toNat q.den
  have hcast : ((q.num.toNat : Nat) : Rat) =
      (q.den : Rat) * ((q.num.toNat / q.den : Nat) : Rat) + ((q.num.toNat % q.den : Nat) : Rat) := by
    exact_mod_cast hdm.symm
  have hq2 : q = ((q.num.toNat / q.den : Nat) : Rat) + ((q.num.toNat % q.den : Nat) : Rat) / (q.den : Rat) := by
    conv => lhs; rw [hqv, hcast]
    field_simp
  exact key (q.num.toNat / q.den) (q.num.toNat % q.den) q.den q hdpos (Nat.mod_lt _ hdpos) hq2

theorem printed_tenths_close (m : Rat) (hm : 0 ≤ m) :
    |((roundHalfEven (m * 10) : Nat) : Rat) / 10 - m| ≤ 1 / 20 := by
  have := roundHalfEven_close (m * 10) (by linarith)
  rw [abs_le] at this ⊢
  constructor <;> linarith [this.1, this.2]

end RkVerif.C18
