/-
Property C08 — reference counting destroys each object exactly once, at the last release.
Property theorems only (model: Model/C08.lean, helpers: Lemmas/C08.lean).  Every theorem
declared in this module is an audited proof obligation of the check.

The transition system: any number of threads, handle cells and objects.  A transition is
either "idle thread `t` begins operation `op`" (its continuation becomes `compile op`) or
"thread `t` performs its next atomic step" (`micro`), enabled when the step respects the
usage discipline (`guard`).  `Reachable ns nt s`: `s` is reachable from `init ns nt` by any
sequence of such transitions, i.e. under every program and every interleaving.
-/
import RkVerif.Lemmas.C08
set_option linter.unusedVariables false

namespace RkVerif.C08

inductive Reachable (ns nt : Nat) : State → Prop
  | init : Reachable ns nt (init ns nt)
  | act {s : State} (a : Act) : Reachable ns nt s → enabled s a = true → Reachable ns nt (apply s a)

/-! ## The inductive invariant -/

theorem ginv_init (ns nt : Nat) : GInv (init ns nt) := by
  have hc : ∀ o, sumBy (ccnt o) (List.replicate ns (none : Option H)) = 0 :=
    fun o => sumBy_replicate_zero _ _ _ (by simp [ccnt])
  have hr : ∀ o, sumBy (fun th : Thread => sumBy (rcnt o) th.regs) (List.replicate nt {}) = 0 :=
    fun o => sumBy_replicate_zero _ _ _ (by simp [sumBy])
  refine ⟨fun o => ⟨?_, ?_, ?_, ?_⟩, fun t => ?_, ⟨?_, ?_⟩⟩
  · simp [countOf, refsTo, manualOf, init, hc, hr]
  · simp [countOf, aliveOf, init]
  · simp [aliveOf, init]
  · simp [init]
  · simp only [ThrOK, getThr, init, List.getElem?_replicate]
    split <;> simp [depthOK]
  · intro i j hi; simp [aliveOf, init] at hi
  · intro i hi; simp [aliveOf, init] at hi

/-- every enabled transition re-establishes the invariant and respects `Rel` -/
theorem act_good {s : State} {a : Act} (hG : GInv s) (he : enabled s a = true) :
    GInv (apply s a) ∧ Good s (apply s a) := by
  cases a with
  | start t op => exact start_good hG he
  | step t => exact micro_good hG he

theorem reachable_ginv {ns nt : Nat} {s : State} (h : Reachable ns nt s) : GInv s := by
  induction h with
  | init => exact ginv_init ns nt
  | act a _ he ih => exact (act_good ih he).1

theorem reachable_sinv {ns nt : Nat} {s : State} (h : Reachable ns nt s) : SInv s := by
  induction h with
  | init =>
    constructor
    · intro t
      simp only [getThr, init, List.getElem?_replicate]
      split <;> simp [contWF]
    · intro y v hy
      simp only [cell, init, List.getElem?_replicate] at hy
      split at hy <;> simp at hy
  | act a _ he ih =>
    cases a with
    | start t op => exact start_sinv ih he
    | step t => exact micro_sinv ih he

/-! ## count_inv -/

/-- number of handles that point at `o` and own a count -/
abbrev handlesTo (s : State) (o : Nat) : Nat := hrefs s o
/-- number of counted references to `o` held in locals of operations that are in progress -/
abbrev inFlight (s : State) (o : Nat) : Nat := rrefs s o

/-- count_inv: in every reachable state (every program, every interleaving of atomic steps, any
    number of threads / handles / objects) the counter of every object equals the references
    held through raw pointers (creator's reference, explicit refInc) plus the number of handles
    pointing at it plus the increments of operations in progress whose handle store is pending.
    (For destroyed and not yet created objects all four numbers are 0.) -/
theorem count_inv {ns nt : Nat} {s : State} (h : Reachable ns nt s) (o : Nat) :
    countOf s o = ((manualOf s o + handlesTo s o + inFlight s o : Nat) : Int) := by
  have := ((reachable_ginv h).inv o).cnt
  rw [this, refsTo_eq]; simp only [handlesTo, inFlight]; omega

/-- count_inv at operation boundaries (no operation in progress on any thread):
    useCount() = creator's / explicit references + number of live handles pointing at the object. -/
theorem count_inv_idle {ns nt : Nat} {s : State} (h : Reachable ns nt s)
    (hidle : ∀ t, (getThr s t).cont = []) (o : Nat) :
    countOf s o = ((manualOf s o + handlesTo s o : Nat) : Int) := by
  have := count_inv h o
  have h0 := idle_no_regs (reachable_ginv h) hidle o
  simp only [inFlight, handlesTo] at this ⊢
  rw [this, h0]; simp

/-- at operation boundaries every constructed handle is null or owns a count on its target
    (a handle that holds a pointer without owning a count exists only between the second and the
    third atomic step of an `operator=(T*)`), so `handlesTo s o` is the number of handles whose
    pointer is `o` -/
theorem idle_no_stale {ns nt : Nat} {s : State} (h : Reachable ns nt s)
    (hidle : ∀ t, (getThr s t).cont = []) (x : Nat) (hx : H) (hc : cell s x = some hx) :
    hx.isStale = false := by
  cases hx with
  | stale v =>
    obtain ⟨t, ht⟩ := (reachable_sinv h).stale x v hc
    rw [hidle t] at ht; simp at ht
  | null => rfl
  | own v => rfl

/-! ## never_stale (no release-before-store window) -/

/-- no thread is in the middle of an assignment that has released its old target but not yet stored the new pointer:
    with the assignments of the fixed source (`old = ptr; ptr = in; old->refDec()` for handles AND raw pointers) no
    operation contains such a window any more -/
def NoWindow (s : State) : Prop := ∀ t m, m ∈ (getThr s t).cont → ∀ x, m ≠ .storeTop x

theorem compile_noWindow (op : Op) (m : MStep) (h : m ∈ compile op) (x : Nat) : m ≠ .storeTop x := by
  cases op <;> simp [compile] at h <;> (try (rcases h with h | h | h <;> subst h <;> simp)) <;> (try (subst h; simp))
  case ctorRaw y k => cases k <;> simp at h <;> subst h <;> simp
  case copy y z => rcases h with h | h <;> subst h <;> simp
  case raw y k => rcases h with h | h <;> subst h <;> simp

theorem reachable_noWindow {ns nt : Nat} {s : State} (h : Reachable ns nt s) : NoWindow s := by
  induction h with
  | init =>
    intro t m hm
    simp only [getThr, init, List.getElem?_replicate] at hm
    split at hm <;> simp at hm
  | @act s a _ he ih =>
    cases a with
    | start t op =>
      intro t' m hm x
      simp only [apply, start] at hm
      simp only [enabled] at he
      cases hth : s.thr[t]? with
      | none => simp [hth] at he
      | some th =>
        have ht : t < s.thr.length := by
          rcases Nat.lt_or_ge t s.thr.length with h1 | h1
          · exact h1
          · simp [List.getElem?_eq_none h1] at hth
        rw [getThr_setThr _ t t' _ ht] at hm
        by_cases htt : t = t'
        · simp only [htt, if_true] at hm
          exact compile_noWindow op m hm x
        · simp only [htt, if_false] at hm
          exact ih t' m hm x
    | step t =>
      intro t' m hm x
      simp only [apply] at hm
      simp only [enabled] at he
      cases hns : nextStep s t with
      | none => simp [hns] at he
      | some ms =>
        obtain ⟨th, rest, hth, hcont⟩ := nextStep_some hns
        have ht : t < s.thr.length := by
          rcases Nat.lt_or_ge t s.thr.length with h1 | h1
          · exact h1
          · simp [List.getElem?_eq_none h1] at hth
        have hget : getThr s t = th := by simp [getThr, hth]
        have hmicro : micro s t = exec (setThr s t { th with cont := rest }) t ms := by
          simp [micro, hth, hcont]
        rw [hmicro] at hm
        generalize hs0 : setThr s t { th with cont := rest } = s0 at hm
        have ht0 : t < s0.thr.length := by rw [← hs0]; simpa using ht
        have hget0 : ∀ t'', getThr s0 t'' = if t = t'' then { th with cont := rest } else getThr s t'' := by
          intro t''; rw [← hs0]; exact getThr_setThr _ t t'' _ ht
        by_cases htt : t = t'
        · subst htt
          have hgrow := exec_contGrow s0 t ms ht0
          have hc0 : (getThr s0 t).cont = rest := by simp [hget0]
          rw [hc0] at hgrow
          rcases hgrow with hk | ⟨v, hk⟩
          · rw [hk] at hm
            exact ih t m (by rw [hget, hcont]; exact List.mem_cons_of_mem _ hm) x
          · rw [hk] at hm
            simp only [List.mem_cons] at hm
            rcases hm with hm | hm
            · subst hm; simp
            · exact ih t m (by rw [hget, hcont]; exact List.mem_cons_of_mem _ hm) x
        · rw [exec_other s0 t t' ms htt, hget0 t'] at hm
          simp only [htt, if_false] at hm
          exact ih t' m hm x

/-- never_stale: in EVERY reachable state — in particular at the moment a pointee's destructor runs, in the middle of
    whatever operation released the last reference — every constructed handle variable is null or owns a count on a
    live object; no handle still holds the pointer of an object it has already released. (This is what the harness'
    `watchall` observes from inside the destructors; the source before /repo 5a911b9 violated it in `operator=(T*)`.) -/
theorem never_stale {ns nt : Nat} {s : State} (h : Reachable ns nt s) (x : Nat) (hx : H) (hc : cell s x = some hx) :
    hx.isStale = false := by
  cases hx with
  | stale v =>
    obtain ⟨t, ht⟩ := (reachable_sinv h).stale x v hc
    exact absurd rfl (reachable_noWindow h t _ ht x)
  | null => rfl
  | own v => rfl

/-! ## destroy_once -/

/-- destroy_once (never twice): the pointee destructor runs at most once per object. -/
theorem destroyed_le_one {ns nt : Nat} {s : State} (h : Reachable ns nt s) (o : Nat) :
    destroyedOf s o ≤ 1 := by
  rw [inv_destroyed_eq (reachable_ginv h).inv]; split <;> omega

/-- destroy_once (exactly at the last release, in every transition of every execution): the
    destructor count of `o` goes up in a transition exactly when that transition takes the
    counter of `o` from a positive value to 0 — and then by exactly one. -/
theorem destroy_once {ns nt : Nat} {s : State} (h : Reachable ns nt s) (a : Act)
    (he : enabled s a = true) (o : Nat) :
    destroyedOf (apply s a) o =
      destroyedOf s o + (if 0 < countOf s o ∧ countOf (apply s a) o = 0 then 1 else 0) := by
  have hG := reachable_ginv h
  obtain ⟨hG', hI', hrel⟩ := act_good hG he
  have r := hrel o
  rw [inv_destroyed_eq hG.inv, inv_destroyed_eq hI']
  have hc := (hG.inv o).cnt
  have hc' := (hI' o).cnt
  have hlen := r.len
  by_cases hl : o < s.objs.length
  · have hl' : o < (apply s a).objs.length := by omega
    by_cases hp : 0 < countOf s o
    · have hz : ¬ countOf s o = 0 := by omega
      simp [hl, hl', hp, hz]
    · have hz : countOf s o = 0 := by omega
      have hz' : countOf (apply s a) o = 0 := by
        by_cases hne : countOf (apply s a) o = countOf s o
        · omega
        · exact absurd (r.touch_alive hne hl) hp
      simp [hl, hl', hz, hz']
  · have hz : countOf s o = 0 := countOf_ge (Nat.le_of_not_lt hl)
    by_cases hl' : o < (apply s a).objs.length
    · have := r.fresh (Nat.le_of_not_lt hl) hl'
      have hz' : ¬ countOf (apply s a) o = 0 := by omega
      simp [hl, hz, hz']
    · simp [hl, hl', hz]

/-- destroy_once (not earlier, not later): a created object has been destroyed iff its counter
    is 0, and is alive iff its counter is positive. -/
theorem destroyed_iff_count_zero {ns nt : Nat} {s : State} (h : Reachable ns nt s) (o : Nat)
    (ho : o < s.objs.length) :
    (destroyedOf s o = 1 ↔ countOf s o = 0) ∧ (destroyedOf s o = 0 ↔ 0 < countOf s o) ∧
    (aliveOf s o = true ↔ 0 < countOf s o) := by
  have hI := (reachable_ginv h).inv
  have hc := (hI o).cnt
  rw [inv_destroyed_eq hI]
  refine ⟨?_, ?_, (hI o).alive_iff⟩
  · by_cases hz : countOf s o = 0 <;> simp [ho, hz]
  · by_cases hz : countOf s o = 0
    · simp [ho, hz]
    · simp [hz]; omega

/-- never while any reference remains: an object to which a handle points (owning), for which an
    operation in progress holds an incremented reference, or on which a raw reference is held,
    is alive and its destructor has not run. -/
theorem not_destroyed_while_referenced {ns nt : Nat} {s : State} (h : Reachable ns nt s) (o : Nat)
    (href : 0 < manualOf s o + handlesTo s o + inFlight s o) :
    aliveOf s o = true ∧ destroyedOf s o = 0 := by
  have hI := (reachable_ginv h).inv
  have hr : 0 < refsTo s o := by rw [refsTo_eq]; simp only [handlesTo, inFlight] at href; omega
  have ha := hI.alive_of_refs hr
  exact ⟨ha, (hI o).alive_nd ha⟩

/-! ## no_touch_after_destroy -/

/-- no_touch_after_destroy: whenever a transition of any thread changes (i.e. performs a
    read-modify-write on) the counter of an existing object, that object is alive and its
    destructor has not run.  The only hypothesis is the usage discipline encoded in `enabled`
    (raw pointers are used on objects to which a counted reference exists; handles are used
    between construction and destruction and not in the middle of `operator=(T*)`). -/
theorem no_touch_after_destroy {ns nt : Nat} {s : State} (h : Reachable ns nt s) (a : Act)
    (he : enabled s a = true) (o : Nat) (ho : o < s.objs.length)
    (hch : countOf (apply s a) o ≠ countOf s o) :
    aliveOf s o = true ∧ destroyedOf s o = 0 := by
  have hG := reachable_ginv h
  obtain ⟨_, _, hrel⟩ := act_good hG he
  have hp := (hrel o).touch_alive hch ho
  have ha := (hG.inv o).alive_iff.mpr hp
  exact ⟨ha, (hG.inv o).alive_nd ha⟩

/-- consequently the counter of a destroyed object stays 0 forever -/
theorem destroyed_counter_frozen {ns nt : Nat} {s : State} (h : Reachable ns nt s) (a : Act)
    (he : enabled s a = true) (o : Nat) (hd : destroyedOf s o = 1) :
    countOf (apply s a) o = 0 ∧ destroyedOf (apply s a) o = 1 := by
  have hI := (reachable_ginv h).inv
  have hl : o < s.objs.length := by
    rcases Nat.lt_or_ge o s.objs.length with h1 | h1
    · exact h1
    · rw [destroyedOf_ge h1] at hd; omega
  have hz : countOf s o = 0 := ((destroyed_iff_count_zero h o hl).1).mp hd
  have hsame : countOf (apply s a) o = countOf s o := by
    by_cases hc : countOf (apply s a) o = countOf s o
    · exact hc
    · have := (no_touch_after_destroy h a he o hl hc).2; omega
  have := destroy_once h a he o
  rw [hz] at this
  constructor
  · omega
  · simpa [hd] using this

/-- no handle that owns a count dangles: its target is alive -/
theorem no_dangling {ns nt : Nat} {s : State} (h : Reachable ns nt s) (x v : Nat)
    (hc : cell s x = some (.own v)) : aliveOf s v = true ∧ destroyedOf s v = 0 := by
  have hI := (reachable_ginv h).inv
  have ha := hI.alive_of_refs (refsTo_pos_of_cell hc)
  exact ⟨ha, (hI v).alive_nd ha⟩

/-! ## eq_iff_same_object -/

/-- eq_iff_same_object: `a == b` (comparison of the stored addresses) holds exactly when both
    handles are null or both point at the same object — although the allocator may hand the
    address of a destroyed object to a new one. -/
theorem eq_iff_same_object {ns nt : Nat} {s : State} (h : Reachable ns nt s) (x y : Nat) (hx hy : H)
    (hcx : cell s x = some hx) (hcy : cell s y = some hy)
    (hsx : hx.isStale = false) (hsy : hy.isStale = false) :
    eqH s x y = true ↔ hx.ptr = hy.ptr := by
  have hG := reachable_ginv h
  have hal : ∀ z v, cell s z = some (.own v) → aliveOf s v = true :=
    fun z v hz => (no_dangling h z v hz).1
  have haddr : ∀ v, addrOf s (some v) = addrO s v := fun v => rfl
  simp only [eqH, hcx, hcy, beq_iff_eq]
  cases hx with
  | stale v => simp [H.isStale] at hsx
  | null =>
    cases hy with
    | stale w => simp [H.isStale] at hsy
    | null => simp [H.ptr, addrOf]
    | own w =>
      have := hG.addr.nz w (hal y w hcy)
      simp only [H.ptr, haddr]
      simp only [addrOf]
      constructor
      · intro e; exact absurd e.symm this
      · intro e; simp at e
  | own v =>
    cases hy with
    | stale w => simp [H.isStale] at hsy
    | null =>
      have := hG.addr.nz v (hal x v hcx)
      simp only [H.ptr, haddr]
      simp only [addrOf]
      constructor
      · intro e; exact absurd e this
      · intro e; simp at e
    | own w =>
      simp only [H.ptr, haddr, Option.some.injEq]
      constructor
      · exact hG.addr.inj v w (hal x v hcx) (hal y w hcy)
      · intro e; rw [e]

/-! ## self_assign_safe -/

/-- self_assign_safe: the two atomic steps of `x = x` (copy assignment, `compile (.copy x x)`)
    executed by thread `t`: nothing is destroyed after the first or the second step, and after
    the second step all counters, liveness flags, destructor counts, all handles and the locals
    of the thread are what they were before. -/
theorem self_assign_safe {ns nt : Nat} {s : State} (h : Reachable ns nt s) (t x : Nat) (hx : H)
    (ht : t < s.thr.length) (hcx : cell s x = some hx) (hsx : hx.isStale = false) :
    compile (.copy x x) = [.incFrom x, .swapDec x] ∧
    let s1 := exec s t (.incFrom x)
    let s2 := exec s1 t (.swapDec x)
    guard s t (.incFrom x) = true ∧ guard s1 t (.swapDec x) = true ∧
    (∀ o, aliveOf s1 o = aliveOf s o ∧ destroyedOf s1 o = destroyedOf s o) ∧
    (∀ o, countOf s2 o = countOf s o ∧ aliveOf s2 o = aliveOf s o ∧ destroyedOf s2 o = destroyedOf s o) ∧
    (∀ y, cell s2 y = cell s y) ∧ (getThr s2 t).regs = (getThr s t).regs := by
  refine ⟨rfl, ?_⟩
  have hI := (reachable_ginv h).inv
  have hxl : x < s.cells.length := by
    have := cells_get_of_cell hcx
    rcases Nat.lt_or_ge x s.cells.length with h1 | h1
    · exact h1
    · simp [List.getElem?_eq_none h1] at this
  cases hx with
  | stale v => simp [H.isStale] at hsx
  | null =>
    have e1 : exec s t (.incFrom x) = pushReg s t none := by simp [exec, hcx, H.ptr, incOpt]
    have htop : topReg (pushReg s t none) t = none := by simp [topReg, getThr_pushReg, ht]
    have e2 : exec (pushReg s t none) t (.swapDec x) = setCell (popReg (pushReg s t none) t) x (some .null) := by
      simp [exec, hcx, htop, H.ofPtr, releaseH]
    simp only [e1, e2]
    refine ⟨by simp [guard, usable, hcx, H.isStale], by simp [guard, usable, hcx, H.isStale],
      fun o => ⟨rfl, rfl⟩, fun o => ⟨rfl, rfl, rfl⟩, fun y => ?_, ?_⟩
    · rw [cell_setCell]
      split
      · rename_i hh; rw [← hh.1]; simp [hcx]
      · rfl
    · simp [getThr_popReg, getThr_pushReg, ht]
  | own v =>
    have hv := refsTo_pos_of_cell hcx
    have hvl := hI.lt_of_refs hv
    have hcv : 0 < countOf s v := by rw [(hI v).cnt]; omega
    have e1 : exec s t (.incFrom x) = incCount (pushReg s t (some v)) v := by
      simp [exec, hcx, H.ptr, incOpt]
    have htop : topReg (incCount (pushReg s t (some v)) v) t = some v := by
      simp [topReg, getThr_pushReg, ht]
    have e2 : exec (incCount (pushReg s t (some v)) v) t (.swapDec x) =
        release (setCell (popReg (incCount (pushReg s t (some v)) v) t) x (some (.own v))) t v := by
      simp [exec, hcx, htop, H.ofPtr, releaseH]
    simp only [e1, e2]
    refine ⟨by simp [guard, usable, hcx, H.isStale], by simp [guard, usable, hcx, H.isStale],
      fun o => ⟨by simp, by simp⟩, fun o => ?_, fun y => ?_, ?_⟩
    · have hc1 : ∀ o, countOf (setCell (popReg (incCount (pushReg s t (some v)) v) t) x (some (.own v))) o =
          countOf s o + (if v = o ∧ o < s.objs.length then 1 else 0) := by
        intro o
        simp only [countOf_setCell, countOf_popReg]
        rw [countOf_incCount]; rfl
      refine ⟨?_, ?_, ?_⟩
      · rw [countOf_release, hc1]; simp
      · rw [aliveOf_release, hc1]
        by_cases hvo : v = o
        · subst hvo
          have : ¬ (countOf s v + 1 = 1) := by omega
          simp [hvl, this]
        · simp [hvo]
      · rw [destroyedOf_release, hc1]
        by_cases hvo : v = o
        · subst hvo
          have : ¬ (countOf s v + 1 = 1) := by omega
          simp [hvl, this]
        · simp [hvo]
    · rw [cell_release, cell_setCell]
      split
      · rename_i hh; rw [← hh.1]; simp [hcx]
      · simp
    · rw [getThr_release _ _ _ _ (by simpa using ht)]
      split
      · simp [getThr_popReg, getThr_pushReg, ht]
      · simp [getThr_popReg, getThr_pushReg, ht]

/-- self-move `x = std::move(x)` (one atomic step): no counter, liveness flag, destructor count
    or handle changes. -/
theorem self_move_safe (s : State) (t x : Nat) (hx : H) (hcx : cell s x = some hx) :
    compile (.move x x) = [.moveDec x x] ∧
    (exec s t (.moveDec x x)).objs = s.objs ∧ (∀ y, cell (exec s t (.moveDec x x)) y = cell s y) := by
  have hxl : x < s.cells.length := by
    have := cells_get_of_cell hcx
    rcases Nat.lt_or_ge x s.cells.length with h1 | h1
    · exact h1
    · simp [List.getElem?_eq_none h1] at this
  have hc1 : cell (setCell s x (some H.null)) x = some H.null := by simp [cell_setCell, hxl]
  refine ⟨rfl, ?_, fun y => ?_⟩
  · simp [exec, hcx, hc1, releaseH]
  · have hl2 : (setCell s x (some H.null)).cells.length = s.cells.length := by simp [setCell]
    simp only [exec, hcx, hc1, releaseH]
    rw [cell_setCell, cell_setCell, hl2]
    by_cases hxy : x = y
    · subst hxy; simp [hxl, hcx]
    · simp [hxy]

/-! ## The sequential runs of the driver are executions of the transition system -/

theorem drain_reachable {ns nt : Nat} (t fuel : Nat) {s s' : State} (h : Reachable ns nt s)
    (hd : drain s t fuel = some s') : Reachable ns nt s' ∧ nextStep s' t = none := by
  induction fuel generalizing s with
  | zero => simp [drain] at hd
  | succ n ih =>
    simp only [drain] at hd
    cases hns : nextStep s t with
    | none => simp [hns] at hd; subst hd; exact ⟨h, hns⟩
    | some ms =>
      simp only [hns] at hd
      by_cases hg : guard s t ms = true
      · simp only [hg, if_true] at hd
        have he : enabled s (.step t) = true := by simp [enabled, hns, hg]
        exact ih (Reachable.act (.step t) h he) hd
      · simp [hg] at hd

/-- every state the driver prints after an operation line is reachable (so all theorems above
    apply to it), and the executing thread is idle again -/
theorem runOp_reachable {ns nt : Nat} (t : Nat) (op : Op) (fuel : Nat) {s s' : State}
    (h : Reachable ns nt s) (hr : runOp s t op fuel = some s') :
    Reachable ns nt s' ∧ nextStep s' t = none := by
  unfold runOp at hr
  by_cases he : enabled s (.start t op) = true
  · simp only [he, if_true] at hr
    exact drain_reachable t fuel (Reachable.act (.start t op) h he) hr
  · simp [he] at hr

/-! ## Non-vacuity: concrete executions -/

/-- run a list of operations on thread 0 -/
def runOps (s : State) : List Op → Option State
  | [] => some s
  | op :: rest => (runOp s 0 op).bind (fun s' => runOps s' rest)

theorem runOps_reachable {ns nt : Nat} (ops : List Op) {s s' : State} (h : Reachable ns nt s)
    (hr : runOps s ops = some s') : Reachable ns nt s' := by
  induction ops generalizing s with
  | nil => simp [runOps] at hr; subst hr; exact h
  | cons op rest ih =>
    simp only [runOps] at hr
    cases h1 : runOp s 0 op with
    | none => simp [h1] at hr
    | some s1 =>
      simp only [h1, Option.bind_some] at hr
      exact ih (runOp_reachable 0 op _ h h1).1 hr

/-- list pop `head = head->next` (x0 = member of the object x0 points at): the old head is
    destroyed exactly once, the next object survives with count 1 -/
def demoPop : List Op :=
  [.new 1, .new 2, .ctorRaw 0 (some 0), .refDec 0, .raw 2 (some 1), .refDec 1, .copy 0 2]

example : (runOps (init 2 1) demoPop).map
    (fun s => (countOf s 0, destroyedOf s 0, aliveOf s 0, countOf s 1, destroyedOf s 1, aliveOf s 1, cell s 0)) =
    some (0, 1, false, 1, 0, true, some (.own 1)) := by rfl

/-- the hypotheses of the theorems are satisfiable in a state where a destruction has happened -/
example : ∃ s, Reachable 2 1 s ∧ destroyedOf s 0 = 1 ∧ countOf s 1 = 1 := by
  cases h : runOps (init 2 1) demoPop with
  | none =>
    have : (runOps (init 2 1) demoPop).isSome = true := by rfl
    rw [h] at this; simp at this
  | some s =>
    have h1 : (runOps (init 2 1) demoPop).map (fun s => (destroyedOf s 0, countOf s 1)) = some (1, 1) := by rfl
    rw [h] at h1
    simp only [Option.map_some, Option.some.injEq, Prod.mk.injEq] at h1
    exact ⟨s, runOps_reachable demoPop Reachable.init h, h1.1, h1.2⟩

/-- two threads, steps interleaved: thread 1 copies handle 0 into handle 1 while thread 0
    drops the creator's reference; all transitions are enabled -/
def demoActs : List Act :=
  [.start 0 (.new 1), .step 0, .start 0 (.ctorRaw 0 (some 0)), .step 0, .start 1 (.ctorDef 1), .step 1,
   .start 1 (.copy 1 0), .start 0 (.refDec 0), .step 1, .step 0, .step 1,
   .start 0 (.dtor 0), .start 1 (.dtor 1), .step 1, .step 0, .step 0]

def runActs (s : State) : List Act → Option State
  | [] => some s
  | a :: rest => if enabled s a then runActs (apply s a) rest else none

example : (runActs (init 2 2) demoActs).map (fun s => (countOf s 0, destroyedOf s 0, cell s 0, cell s 1)) =
    some (0, 1, none, none) := by rfl

/-- the discipline is needed: refDec() through a raw pointer without holding a raw reference is
    rejected by `enabled` (it would destroy an object that a handle still references) -/
example : (runOps (init 2 1) [.new 1, .ctorRaw 0 (some 0), .refDec 0, .refDec 0]) = none := by decide

end RkVerif.C08
