/-
Property C14 — aligned allocation returns aligned, usable, correctly released memory.
Property theorems only (model: Model/C14.lean, helpers: Lemmas/C14.lean).

PROVED here (for all inputs / all histories):
  * the arithmetic rkcommon itself performs: `max_size`, the guard chain of
    `aligned_allocator::allocate` (no overflow of `n*sizeof(T)`, length_error exactly when the
    request does not fit `size_t`), `isAligned`, `ALIGN_PTR`;
  * AlignedVector as sequences of allocate / copy / deallocate over ANY system allocator that meets
    the contract `SysOK` and ANY growth policy: after every history `data()` is null or a multiple
    of the alignment, the elements are those std::vector's specification determines (they survive
    every reallocation), nothing is constructed outside the owned block, only live blocks are
    freed, and the live set is exactly the storage the vectors own (no leak, no double free).
ASSUMED / OBSERVED only (not proved): that scalable_aligned_malloc / _mm_malloc and their free
functions meet `SysOK` — the correspondence harness checks this on every run.
-/
import RkVerif.Lemmas.C14
set_option linter.unusedSectionVars false
set_option linter.unusedVariables false

namespace RkVerif.C14

variable {V : Type}

/-! ## Part 1: the allocator's own arithmetic -/

/-- max_size() is exactly the largest element count whose byte size fits `size_t`. -/
theorem max_size_exact (sz : Nat) (hsz : 0 < sz) :
    maxSize sz * sz < W ∧ W ≤ (maxSize sz + 1) * sz := by
  refine ⟨mul_lt_of_le_maxSize sz _ hsz (Nat.le_refl _), ?_⟩
  apply Nat.le_of_not_lt
  intro h
  have := le_maxSize_of_mul_lt sz (maxSize sz + 1) hsz h
  omega

/-- no_mul_overflow: when the guard chain reaches alignedMalloc, the requested byte count is the
    mathematical product `n * sizeof(T)` (no wrap-around), is positive, and the alignment passed
    is the allocator's. -/
theorem no_mul_overflow (A sz n bytes align : Nat) (hsz : 0 < sz)
    (h : allocGuard A sz n = .request bytes align) :
    bytes = n * sz ∧ n * sz < W ∧ 0 < bytes ∧ align = A := by
  unfold allocGuard at h
  split at h
  · simp at h
  · split at h
    · simp at h
    · rename_i h0 hm
      have hlt : n * sz < W := mul_lt_of_le_maxSize sz n hsz (by omega)
      rw [Nat.mod_eq_of_lt hlt] at h
      injection h with h1 h2
      have : 0 < n * sz := Nat.mul_pos (by omega) hsz
      omega

/-- length_error_iff: allocate(n) throws length_error exactly when `n * sizeof(T)` does not fit `size_t`. -/
theorem length_error_iff (A sz n : Nat) (hsz : 0 < sz) :
    allocGuard A sz n = .lengthError ↔ W ≤ n * sz := by
  unfold allocGuard
  constructor
  · intro h
    split at h
    · simp at h
    · split at h
      · rename_i hm
        apply Nat.le_of_not_lt; intro hlt
        have := le_maxSize_of_mul_lt sz n hsz hlt; omega
      · simp at h
  · intro h
    have h0 : n ≠ 0 := by intro e; subst e; have := W_pos; omega
    have hm : n > maxSize sz := by
      apply Nat.lt_of_not_le; intro hle
      have := mul_lt_of_le_maxSize sz n hsz hle; omega
    simp [h0, hm]

/-- allocate(0) returns nullptr without touching the system allocator. -/
theorem allocate_zero (A sz : Nat) : allocGuard A sz 0 = .null := by simp [allocGuard]

/-- isAligned_iff: isAligned(p, a) holds exactly for the multiples of `a`. -/
theorem isAligned_iff (p a : Nat) : isAligned p a = true ↔ ∃ k, p = k * a := by
  simp only [isAligned, beq_iff_eq]
  constructor
  · intro h; exact ⟨p / a, by have := Nat.div_add_mod p a; rw [h] at this; rw [Nat.mul_comm]; omega⟩
  · rintro ⟨k, rfl⟩; simp

/-- Masking with `-(2^k)`: clears the low `k` bits. -/
theorem and_neg_two_pow (x k : Nat) (hk : k ≤ 64) (hx : x < 2 ^ 64) :
    x &&& (2 ^ 64 - 2 ^ k) = x - x % 2 ^ k := by
  have e1 : 2 ^ 64 - 2 ^ k = (2 ^ (64 - k) - 1) * 2 ^ k := by
    rw [Nat.sub_mul, ← Nat.pow_add, Nat.one_mul]; congr 2; omega
  have e2 : x - x % 2 ^ k = (x / 2 ^ k) * 2 ^ k := by
    have := Nat.div_add_mod x (2 ^ k); rw [Nat.mul_comm]; omega
  rw [e1, e2]
  apply Nat.eq_of_testBit_eq
  intro i
  rw [Nat.testBit_and, Nat.testBit_mul_two_pow, Nat.testBit_mul_two_pow, Nat.testBit_two_pow_sub_one,
    Nat.testBit_div_two_pow]
  by_cases hik : k ≤ i
  · have e3 : i - k + k = i := by omega
    rw [e3]
    by_cases hi : i < 64
    · have : i - k < 64 - k := by omega
      simp [hik, this]
    · have hx' : x.testBit i = false := by
        apply Nat.testBit_lt_two_pow
        exact Nat.lt_of_lt_of_le hx (Nat.pow_le_pow_right (by decide) (by omega))
      simp [hx']
  · simp [hik]

/-- align_ptr_least_multiple: for a power-of-two alignment (and `p + a - 1` representable, i.e. no
    wrap at the top of the address space) ALIGN_PTR(p, a) is the least multiple of `a` that is ≥ p. -/
theorem align_ptr_least_multiple (p k : Nat) (hk : k < 64) (hp : p + 2 ^ k - 1 < W) :
    alignPtr p (2 ^ k) % 2 ^ k = 0 ∧ p ≤ alignPtr p (2 ^ k) ∧ alignPtr p (2 ^ k) < p + 2 ^ k ∧
    ∀ m, m % 2 ^ k = 0 → p ≤ m → alignPtr p (2 ^ k) ≤ m := by
  have hpos : 0 < 2 ^ k := Nat.pow_pos (by decide)
  have haW : 2 ^ k < W := by rw [W_eq]; exact Nat.pow_lt_pow_right (by decide) hk
  have hW := W_eq
  -- the two operands of `&`
  have hx : (p + 2 ^ k + (W - 1)) % W = p + 2 ^ k - 1 := by
    have : p + 2 ^ k + (W - 1) = (p + 2 ^ k - 1) + W := by omega
    rw [this, Nat.add_mod_right, Nat.mod_eq_of_lt hp]
  have hm : (W - 2 ^ k % W) % W = 2 ^ 64 - 2 ^ k := by
    rw [Nat.mod_eq_of_lt haW, Nat.mod_eq_of_lt (by omega), hW]
  have hval : alignPtr p (2 ^ k) = (p + 2 ^ k - 1) - (p + 2 ^ k - 1) % 2 ^ k := by
    unfold alignPtr
    rw [hx, hm]
    exact and_neg_two_pow _ k (by omega) (by rw [← hW]; exact hp)
  generalize hq : p + 2 ^ k - 1 = q at *
  have hdm := Nat.div_add_mod q (2 ^ k)
  have hlt := Nat.mod_lt q hpos
  have hmul : q - q % 2 ^ k = 2 ^ k * (q / 2 ^ k) := by omega
  refine ⟨by rw [hval, hmul]; exact Nat.mul_mod_right _ _, by omega, by omega, ?_⟩
  intro m hm0 hpm
  rw [hval, hmul]
  -- m = 2^k * j with j ≥ q / 2^k, otherwise m + 2^k ≤ 2^k * (q/2^k) ≤ q < p + 2^k
  have hmdm := Nat.div_add_mod m (2 ^ k)
  rw [hm0] at hmdm
  apply Nat.le_of_not_lt
  intro hlt'
  have hj : m / 2 ^ k < q / 2 ^ k := by
    apply Nat.lt_of_not_le; intro hle
    have := Nat.mul_le_mul_left (2 ^ k) hle
    omega
  have := Nat.mul_le_mul_left (2 ^ k) (Nat.succ_le_of_lt hj)
  rw [Nat.mul_succ] at this
  omega

/-! ## Part 2: AlignedVector over the allocator contract -/

theorem growTo_spec (c : Cfg) (hs : SysOK c.sys) (hg : GrowOK c) (hA : 0 < c.A) (hsz : 0 < c.sz)
    (s : VS V) (F : List Ext) (inv : VInv c s F) (extra : Nat) (he : 0 < extra) (cells : Unit → List V)
    (hlen : (cells ()).length = s.v.size + extra) :
    ((growTo c s extra cells).2 = .ok →
        VInv c (growTo c s extra cells).1 F ∧ (growTo c s extra cells).1.v.contents = cells ()) ∧
    ((growTo c s extra cells).2 ≠ .ok → (growTo c s extra cells).1 = s) := by
  unfold growTo
  split
  · simp
  · rename_i hv
    have h1 := hg s.v.size extra
    have hn : (cells ()).length ≤ min (c.grow s.v.size extra) (vmax c) := by
      rw [hlen]; apply Nat.le_min.mpr; omega
    have := regrow_spec c hs hA hsz s F inv _ cells hn
    exact ⟨fun h => ⟨(this.1 h).1, (this.1 h).2.1⟩, this.2⟩

/-- One operation of one vector inside a heap with frame `F`: the invariant is kept, the contents
    are what std::vector's specification determines (unchanged if the operation failed), and a
    failed operation changes nothing at all. -/
theorem vstep_spec (c : Cfg) (hs : SysOK c.sys) (hg : GrowOK c) (hA : 0 < c.A) (hsz : 0 < c.sz)
    (s : VS V) (F : List Ext) (inv : VInv c s F) (op : VOp V) :
    VInv c (vstep c s op).1 F ∧
    (vstep c s op).1.v.contents =
      (if (vstep c s op).2 = .ok then specStep s.v.contents op else s.v.contents) ∧
    ((vstep c s op).2 ≠ .ok → (vstep c s op).1 = s) := by
  have hsc := size_le_cap c s.v inv.wf
  have hcl := contents_length s.v
  have hcopy : copyCells s.v.contents s.v.size = s.v.contents := by rw [← hcl]; exact copyCells_self _
  cases op with
  | push x =>
    simp only [vstep, specStep]
    split
    · have := inPlace_spec c s F inv (s.v.contents ++ [x]) (by simp [hcl]; omega)
      simp [this.1, this.2.1]
    · simp only [hcopy]
      have := growTo_spec c hs hg hA hsz s F inv 1 (by omega) (fun _ => s.v.contents ++ [x]) (by simp [hcl])
      by_cases ho : (growTo c s 1 (fun _ => s.v.contents ++ [x])).2 = .ok
      · simp [ho, this.1 ho]
      · simp [ho, this.2 ho, inv]
  | pop =>
    simp only [vstep, specStep]
    have := inPlace_spec c s F inv s.v.contents.dropLast (by simp [hcl]; omega)
    simp [this.1, this.2.1]
  | resize n x =>
    simp only [vstep, specStep, hcl]
    split
    · have := inPlace_spec c s F inv (s.v.contents.take n) (by simp [hcl]; omega)
      simp [this.1, this.2.1]
    · split
      · have := inPlace_spec c s F inv (s.v.contents ++ List.replicate (n - s.v.size) x) (by simp [hcl]; omega)
        simp [this.1, this.2.1]
      · simp only [hcopy]
        have := growTo_spec c hs hg hA hsz s F inv (n - s.v.size) (by omega)
          (fun _ => s.v.contents ++ List.replicate (n - s.v.size) x) (by simp [hcl])
        by_cases ho : (growTo c s (n - s.v.size) (fun _ => s.v.contents ++ List.replicate (n - s.v.size) x)).2 = .ok
        · simp [ho, this.1 ho]
        · simp [ho, this.2 ho, inv]
  | reserve n =>
    simp only [vstep, specStep]
    split
    · simp [inv]
    · split
      · simp [inv]
      · simp only [hcopy]
        have := regrow_spec c hs hA hsz s F inv n (fun _ => s.v.contents) (by simp [hcl]; omega)
        by_cases ho : (regrow c s n (fun _ => s.v.contents)).2 = .ok
        · simp [ho, this.1 ho]
        · simp [ho, this.2 ho, inv]
  | shrink =>
    simp only [vstep, specStep]
    split
    · simp [inv]
    · simp only [hcopy]
      have := regrow_spec c hs hA hsz s F inv s.v.size (fun _ => s.v.contents) (by simp [hcl])
      by_cases ho : (regrow c s s.v.size (fun _ => s.v.contents)).2 = .ok
      · simp [this.1 ho]
      · simp [this.2 ho, inv]
  | assign n x =>
    simp only [vstep, specStep]
    split
    · have := inPlace_spec c s F inv (List.replicate n x) (by simpa using ‹n ≤ s.v.cap›)
      simp [this.1, this.2.1]
    · split
      · simp [inv]
      · have := regrow_spec c hs hA hsz s F inv n (fun _ => List.replicate n x) (by simp)
        by_cases ho : (regrow c s n (fun _ => List.replicate n x)).2 = .ok
        · simp [ho, this.1 ho]
        · simp [ho, this.2 ho, inv]
  | copyFrom other =>
    simp only [vstep, specStep]
    split
    · have := inPlace_spec c s F inv other ‹_›
      simp [this.1, this.2.1]
    · simp only [copyCells_self]
      have := regrow_spec c hs hA hsz s F inv other.length (fun _ => other) (by simp)
      by_cases ho : (regrow c s other.length (fun _ => other)).2 = .ok
      · simp [ho, this.1 ho]
      · simp [ho, this.2 ho, inv]
  | clear =>
    simp only [vstep, specStep]
    have := inPlace_spec c s F inv [] (by simp)
    simp [this.1, this.2.1]
  | insert i x =>
    simp only [vstep, specStep, hcl]
    split
    · simp [inv]
    · rename_i hi
      split
      · have := inPlace_spec c s F inv (s.v.contents.take i ++ x :: s.v.contents.drop i)
          (by simp [hcl]; omega)
        simp [this.1, this.2.1]
      · have hci : copyCells s.v.contents i = s.v.contents.take i :=
          copyCells_take _ _ (by rw [hcl]; omega)
        simp only [hcopy, hci]
        have := growTo_spec c hs hg hA hsz s F inv 1 (by omega)
          (fun _ => s.v.contents.take i ++ x :: s.v.contents.drop i) (by simp [hcl]; omega)
        by_cases ho : (growTo c s 1 (fun _ => s.v.contents.take i ++ x :: s.v.contents.drop i)).2 = .ok
        · simp [ho, this.1 ho]
        · simp [ho, this.2 ho, inv]
  | erase i =>
    simp only [vstep, specStep]
    have := inPlace_spec c s F inv (s.v.contents.eraseIdx i)
      (by have := List.length_eraseIdx_le s.v.contents i; omega)
    simp [this.1, this.2.1]
  | set i x =>
    simp only [vstep, specStep]
    have := inPlace_spec c s F inv (s.v.contents.set i x) (by simp [hcl]; omega)
    simp [this.1, this.2.1]
  | release =>
    simp only [vstep, specStep]
    obtain ⟨L, hfree, hLp, hLa⟩ := free_owned c s.live s.v F inv.wf inv.perm inv.apart
    simp only [hfree]
    exact ⟨⟨by simp [inv.nofault], trivial, by simpa [extOf] using hLp, hLa⟩, by simp [Vec.contents], by simp⟩

theorem onVec_spec (c : Cfg) (hs : SysOK c.sys) (hg : GrowOK c) (hA : 0 < c.A) (hsz : 0 < c.sz)
    (s : St V) (inv : Inv c s) (k : Bool) (op : VOp V) :
    Inv c (onVec c s k op).1 ∧
    ((onVec c s k op).1.get k).contents =
      (if (onVec c s k op).2 = .ok then specStep (s.get k).contents op else (s.get k).contents) ∧
    (onVec c s k op).1.get (!k) = s.get (!k) ∧
    ((onVec c s k op).2 ≠ .ok → (onVec c s k op).1 = s) := by
  cases k with
  | false =>
    have vi : VInv c ⟨s.live, s.a, s.fault⟩ (extOf c s.b) := ⟨inv.nofault, inv.wfa, inv.perm, inv.apart⟩
    have := vstep_spec c hs hg hA hsz _ _ vi op
    obtain ⟨⟨n1, n2, n3, n4⟩, h2, h3⟩ := this
    simp only [onVec, St.get, Bool.false_eq_true, ↓reduceIte, Bool.not_false]
    refine ⟨⟨n1, n2, inv.wfb, n3, n4⟩, h2, trivial, fun ho => ?_⟩
    have := h3 ho
    cases s; simp_all
  | true =>
    have vi : VInv c ⟨s.live, s.b, s.fault⟩ (extOf c s.a) :=
      ⟨inv.nofault, inv.wfb, inv.perm.trans List.perm_append_comm, inv.apart⟩
    have := vstep_spec c hs hg hA hsz _ _ vi op
    obtain ⟨⟨n1, n2, n3, n4⟩, h2, h3⟩ := this
    simp only [onVec, St.get, ↓reduceIte, Bool.not_true, Bool.false_eq_true]
    refine ⟨⟨n1, inv.wfa, n2, n3.trans List.perm_append_comm, n4⟩, h2, trivial, fun ho => ?_⟩
    have := h3 ho
    cases s; simp_all

theorem step_inv (c : Cfg) (hs : SysOK c.sys) (hg : GrowOK c) (hA : 0 < c.A) (hsz : 0 < c.sz)
    (s : St V) (inv : Inv c s) (op : Op V) : Inv c (step c s op).1 := by
  cases op with
  | on k o => exact (onVec_spec c hs hg hA hsz s inv k o).1
  | copyAssign k => exact (onVec_spec c hs hg hA hsz s inv k _).1
  | swap => exact ⟨inv.nofault, inv.wfb, inv.wfa, inv.perm.trans List.perm_append_comm, inv.apart⟩

/-- avec_invariant: after EVERY history of push_back / pop_back / resize / reserve / shrink_to_fit /
    assign / copy assignment / swap / clear / insert / erase / element write / release on two
    vectors sharing the allocator, for EVERY allocator meeting the contract and EVERY growth policy. -/
theorem avec_invariant (c : Cfg) (hs : SysOK c.sys) (hg : GrowOK c) (hA : 0 < c.A) (hsz : 0 < c.sz)
    (hist : List (Op V)) : Inv c (runR c hist) := by
  induction hist with
  | nil => exact ⟨rfl, trivial, trivial, by simp [runR, St.init, extOf], by simp [runR, St.init]⟩
  | cons op earlier ih => exact step_inv c hs hg hA hsz _ ih op

/-- avec_data_aligned: after every history `data()` of either vector is a multiple of the alignment
    (64 for AlignedVector); it is null exactly when the vector has no capacity, and then the vector
    is empty. -/
theorem avec_data_aligned (c : Cfg) (hs : SysOK c.sys) (hg : GrowOK c) (hA : 0 < c.A) (hsz : 0 < c.sz)
    (hist : List (Op V)) (k : Bool) :
    ((runR c hist).get k).data % c.A = 0 ∧
    (((runR c hist).get k).data = 0 ↔ ((runR c hist).get k).cap = 0) ∧
    ((runR c hist).get k).size ≤ ((runR c hist).get k).cap := by
  have inv := avec_invariant c hs hg hA hsz hist
  have wf : WfV c ((runR c hist).get k) := by cases k <;> simp [St.get, inv.wfa, inv.wfb]
  cases hv : (runR c hist).get k with
  | none => simp [Vec.data, Vec.cap, Vec.size]
  | some b =>
    rw [hv] at wf
    obtain ⟨w1, w2, w3, w4, w5⟩ := wf
    simp only [Vec.data, Vec.cap, Vec.size]
    exact ⟨w2, by constructor <;> intro h <;> omega, w4⟩

/-- avec_elements_preserved: after every history the elements of both vectors are exactly those
    std::vector's specification determines from the history (`specR`) — in particular they survive
    every reallocation (growth, reserve, shrink_to_fit, copy assignment) unchanged. -/
theorem avec_elements_preserved (c : Cfg) (hs : SysOK c.sys) (hg : GrowOK c) (hA : 0 < c.A) (hsz : 0 < c.sz)
    (hist : List (Op V)) :
    ((runR c hist).a.contents, (runR c hist).b.contents) = specR c hist := by
  induction hist with
  | nil => simp [runR, specR, St.init, Vec.contents]
  | cons op earlier ih =>
    have inv := avec_invariant c hs hg hA hsz earlier
    simp only [runR, specR, specOp, ← ih]
    cases op with
    | on k o =>
      have := onVec_spec c hs hg hA hsz _ inv k o
      obtain ⟨-, h2, h3, h4⟩ := this
      simp only [step]
      cases k with
      | false =>
        simp only [St.get, Bool.false_eq_true, ↓reduceIte, Bool.not_false] at h2 h3
        by_cases ho : (onVec c (runR c earlier) false o).2 = .ok
        · simp [ho, h2, h3]
        · simp [ho, h4 ho]
      | true =>
        simp only [St.get, ↓reduceIte, Bool.not_true, Bool.false_eq_true] at h2 h3
        by_cases ho : (onVec c (runR c earlier) true o).2 = .ok
        · simp [ho, h2, h3]
        · simp [ho, h4 ho]
    | copyAssign k =>
      have := onVec_spec c hs hg hA hsz _ inv k (.copyFrom ((runR c earlier).get !k).contents)
      obtain ⟨-, h2, h3, h4⟩ := this
      simp only [step]
      cases k with
      | false =>
        simp only [St.get, Bool.false_eq_true, ↓reduceIte, Bool.not_false, specStep] at h2 h3
        by_cases ho : (onVec c (runR c earlier) false (.copyFrom ((runR c earlier).get !false).contents)).2 = .ok
        · simp only [St.get, Bool.not_false, ↓reduceIte] at ho
          simp [St.get, ho, h2, h3]
        · simp only [Bool.not_false] at ho h4
          simp [ho, h4 ho]
      | true =>
        simp only [St.get, ↓reduceIte, Bool.not_true, Bool.false_eq_true, specStep] at h2 h3
        by_cases ho : (onVec c (runR c earlier) true (.copyFrom ((runR c earlier).get !true).contents)).2 = .ok
        · simp only [St.get, Bool.not_true, Bool.false_eq_true, ↓reduceIte] at ho
          simp [St.get, ho, h2, h3]
        · simp only [Bool.not_true] at ho h4
          simp [ho, h4 ho]
    | swap => simp [step]

/-- avec_no_fault_no_leak: no history constructs an element outside the owned block or frees an
    address that is not live (`fault` stays false); every live block is owned by one of the two
    vectors and has exactly `capacity * sizeof(T)` bytes; live blocks never overlap; once both
    vectors are released nothing is left allocated. -/
theorem avec_no_fault_no_leak (c : Cfg) (hs : SysOK c.sys) (hg : GrowOK c) (hA : 0 < c.A) (hsz : 0 < c.sz)
    (hist : List (Op V)) :
    (runR c hist).fault = false ∧
    (runR c hist).live.Perm (extOf c (runR c hist).a ++ extOf c (runR c hist).b) ∧
    (runR c hist).live.Pairwise Apart ∧
    (runR c (.on false .release :: .on true .release :: hist)).live = [] := by
  have inv := avec_invariant c hs hg hA hsz hist
  refine ⟨inv.nofault, inv.perm, inv.apart, ?_⟩
  have inv2 := avec_invariant c hs hg hA hsz (.on false .release :: .on true .release :: hist)
  have hp := inv2.perm
  have ha : (runR c (.on false .release :: .on true .release :: hist)).a = none := by
    simp [runR, step, onVec, vstep, St.get]
  have hb : (runR c (.on false .release :: .on true .release :: hist)).b = none := by
    simp [runR, step, onVec, vstep, St.get]
  rw [ha, hb] at hp
  simpa [extOf] using hp

/-- A failed operation (length_error / bad_alloc) leaves the whole state unchanged. -/
theorem failed_op_changes_nothing (c : Cfg) (hs : SysOK c.sys) (hg : GrowOK c) (hA : 0 < c.A) (hsz : 0 < c.sz)
    (hist : List (Op V)) (op : Op V) (h : (step c (runR c hist) op).2 ≠ .ok) :
    runR c (op :: hist) = runR c hist := by
  have inv := avec_invariant c hs hg hA hsz hist
  cases op with
  | on k o => exact (onVec_spec c hs hg hA hsz _ inv k o).2.2.2 h
  | copyAssign k => exact (onVec_spec c hs hg hA hsz _ inv k _).2.2.2 h
  | swap => simp [step] at h

/-- reserve throws length_error exactly beyond max_size(). -/
theorem reserve_length_error_iff (c : Cfg) (s : VS V) (n : Nat) :
    (vstep c s (.reserve n)).2 = .lengthError ↔ n > vmax c := by
  refine ⟨fun h => ?_, fun h => by simp [vstep, h]⟩
  simp only [vstep] at h
  split at h
  · assumption
  · split at h
    · simp at h
    · rename_i h1 h2
      -- inside max_size() the allocator's own guard cannot fire
      exfalso
      unfold regrow fresh allocGuard at h
      have hle : n ≤ maxSize c.sz := by
        have : vmax c ≤ maxSize c.sz := Nat.min_le_right _ _
        omega
      have hn0 : n ≠ 0 := by omega
      have hm : ¬ n > maxSize c.sz := by omega
      simp only [hn0, hm, ↓reduceIte] at h
      split at h
      · rename_i heq
        subst h
        split at heq <;> simp at heq
      · simp at h

/-! ## The contract is satisfiable (non-vacuity) and the driver's instance meets it -/

theorem roundUp_spec (x a : Nat) (ha : 0 < a) : roundUp x a % a = 0 ∧ x ≤ roundUp x a := by
  unfold roundUp
  split
  · have : a = 1 := by omega
    subst this; simp [Nat.mod_one]
  · refine ⟨Nat.mul_mod_left _ _, ?_⟩
    have h1 := Nat.div_add_mod (x + a - 1) a
    have h2 := Nat.mod_lt (x + a - 1) ha
    rw [Nat.mul_comm] at h1
    omega

theorem foldl_top_ge (live : List Ext) (m : Nat) :
    m ≤ live.foldl (fun m e => max m (e.addr + e.bytes + 1)) m ∧
    ∀ e ∈ live, e.addr + e.bytes + 1 ≤ live.foldl (fun m e => max m (e.addr + e.bytes + 1)) m := by
  induction live generalizing m with
  | nil => simp
  | cons x rest ih =>
    simp only [List.foldl_cons, List.mem_cons, forall_eq_or_imp]
    have := ih (max m (x.addr + x.bytes + 1))
    refine ⟨by omega, by omega, this.2⟩

/-- The bump allocator used by the driver meets the contract — so `SysOK` is satisfiable. -/
theorem bumpSys_ok : SysOK bumpSys := by
  intro live bytes align p ha h
  unfold bumpSys at h
  split at h
  · simp at h
  · simp only at h
    split at h
    · simp at h
    · rename_i h1 h2
      injection h with h
      have hr := roundUp_spec (live.foldl (fun m e => max m (e.addr + e.bytes + 1)) 4096) align ha
      have ht := foldl_top_ge live 4096
      subst h
      refine ⟨by omega, hr.1, by omega, ?_⟩
      intro e he
      have := ht.2 e he
      exact ⟨by simp only; omega, Or.inr (by simp only; omega)⟩

theorem stdCfg_ok (sz : Nat) : SysOK (stdCfg sz).sys ∧ GrowOK (stdCfg sz) ∧ 0 < (stdCfg sz).A :=
  ⟨bumpSys_ok, fun s e => by simp only [stdCfg, stdGrow]; omega, by simp [stdCfg]⟩

/-! ## non-vacuity / witnesses -/

-- the guard chain on concrete element sizes (1, 4, 12, 64)
example : maxSize 12 = 1537228672809129301 := by decide
example : allocGuard 64 12 1537228672809129301 = .request 18446744073709551612 64 := by decide
example : allocGuard 64 12 1537228672809129302 = .lengthError := by decide
example : allocGuard 64 1 (W - 1) = .request (W - 1) 64 := by decide
-- without the guard the product would wrap to a small request: 1537228672809129302 * 12 mod 2^64 = 8
example : (1537228672809129302 * 12) % W = 8 := by decide
-- ALIGN_PTR on concrete values; the no-wrap hypothesis of align_ptr_least_multiple is needed:
example : alignPtr 65 64 = 128 ∧ alignPtr 64 64 = 64 ∧ alignPtr 0 4096 = 0 := by decide
example : alignPtr (W - 1) 64 = 0 := by decide
-- for a non-power-of-two alignment the macro does not produce a multiple: ALIGN_PTR(1, 12) = 4
example : alignPtr 1 12 = 4 := by decide
-- a history with growth, shrink, copy assignment and swap under the concrete allocator
example : (runR (stdCfg 4) [Op.swap, .copyAssign true, .on false .shrink, .on false (.push 3),
    .on false (.push 2), .on false (.reserve 1), .on false (.push 1)]).a.contents = [1, 2, 3] := by decide
example : ((runR (stdCfg 4) [Op.on false (.push 3), .on false (.push 2), .on false (.push (1 : Nat))]).a.data) % 64 = 0 := by
  decide
-- failing operations exist (so the `≠ ok` branches are not vacuous)
example : (step (stdCfg 4) (St.init (V := Nat)) (.on false (.reserve (W / 4)))).2 = .lengthError := by decide
example : (step (stdCfg 4) (St.init (V := Nat)) (.on false (.reserve (2 ^ 50)))).2 = .badAlloc := by decide

end RkVerif.C14
