/-
Property C12 — cross-thread hand-off containers lose, duplicate and race on nothing.
Property theorems only (model: Model/C12.lean, helpers: Lemmas/C12.lean, access table regenerated
from the source: Gen/C12Table.lean).  Every theorem declared in this module is an audited proof
obligation of the check.

Reading guide
  * An interleaving of any number of threads is a list of steps (most recent first).  For
    TransactionalBuffer every method is one step; for TransactionalValue `update()` is two steps
    (flag read / lock section) and events that are not enabled are no-ops, so *every* list is an
    execution and all real interleavings are among them.  The step granularity is what
    `tbuf_methods_atomic`, `tval_shape_ok` and `lockset_ok` establish about the access table that is
    regenerated from the headers on every run.
  * Sequential consistency + atomic lock sections stand in for the C++ memory model (DESIGN §5);
    `lockset_ok` is the data-race-freedom condition under which that replacement is sound.
-/
import RkVerif.Lemmas.C12
import RkVerif.Gen.C12Table
set_option linter.unusedSectionVars false

namespace RkVerif.C12

/-! ## TransactionalBuffer -/
section TBuf
variable {P α : Type} [DecidableEq P]

/-- tbuf_exactly_once: for any number of producers `P` and any interleaving, what the consumer has
    received (all batches, in order) followed by what is still pending, restricted to one producer,
    is exactly that producer's pushes in its program order: no loss, no duplication, no reordering.
    (`tbuf_hand_off_order` is the unrestricted form.) -/
theorem tbuf_exactly_once (hist : List (BEv P α)) (p : P) :
    ((BSys.runR hist).batches.flatten ++ (BSys.runR hist).buf.buffer).filter (fun e => e.1 = p)
      = (pushesOf p hist).map (fun x => (p, x)) := by
  have h := delivered_runR hist
  simp only [BSys.delivered] at h
  rw [h, pushedAll_filter]

/-- The batches followed by the pending buffer are all pushes in the order they took effect. -/
theorem tbuf_hand_off_order (hist : List (BEv P α)) :
    (BSys.runR hist).batches.flatten ++ (BSys.runR hist).buf.buffer = pushedAll hist :=
  delivered_runR hist

/-- "in exactly one consumed batch, exactly once": summed over all batches plus the pending buffer,
    an element occurs exactly as often as its producer pushed it (once, when the producer's
    sequence numbers are distinct — `tbuf_unique_batch`). -/
theorem tbuf_each_once [DecidableEq α] (hist : List (BEv P α)) (p : P) (x : α) :
    (((BSys.runR hist).batches.map (List.count (p, x))).sum + (BSys.runR hist).buf.buffer.count (p, x))
      = (pushesOf p hist).count x := by
  have h := congrArg (List.count (p, x)) (delivered_runR hist)
  simp only [BSys.delivered, List.count_append, List.count_flatten] at h
  rw [h, pushedAll_count]

/-- With distinct sequence numbers and the buffer drained, exactly one batch holds the element, once. -/
theorem tbuf_unique_batch [DecidableEq α] (hist : List (BEv P α)) (p : P) (x : α)
    (hx : (pushesOf p hist).count x = 1) (hdrained : (BSys.runR hist).buf.buffer = []) :
    (((BSys.runR hist).batches.map (List.count (p, x))).sum = 1) := by
  have := tbuf_each_once hist p x
  simp [hdrained, hx] at this
  exact this

/-- `consume()` leaves nothing behind: right after it every push so far is in a batch. -/
theorem tbuf_drained (hist : List (BEv P α)) :
    (BSys.runR (.consume :: hist)).buf.buffer = [] ∧
    (BSys.runR (.consume :: hist)).batches.flatten = pushedAll hist := by
  have h := delivered_runR (.consume :: hist)
  constructor
  · simp [BSys.runR, BSys.step, BSys.exec, TBuf.consume]
  · have hb : (BSys.runR (.consume :: hist)).buf.buffer = [] := by
      simp [BSys.runR, BSys.step, BSys.exec, TBuf.consume]
    simpa [BSys.delivered, hb, pushedAll] using h

/-- tbuf_no_torn_size: at every point of every interleaving `size()` returns (number of pushes so
    far) − (number of elements consumed so far), `empty()` returns whether that is 0, and neither
    changes the state. -/
theorem tbuf_no_torn_size (hist : List (BEv P α)) :
    (BSys.runR hist).exec .size =
      (BSys.runR hist, .nat ((pushedAll hist).length - ((BSys.runR hist).batches.map List.length).sum)) ∧
    (BSys.runR hist).exec .empty =
      (BSys.runR hist, .bool (decide ((pushedAll hist).length = ((BSys.runR hist).batches.map List.length).sum))) ∧
    ((BSys.runR hist).batches.map List.length).sum ≤ (pushedAll hist).length := by
  have h := congrArg List.length (delivered_runR hist)
  simp only [BSys.delivered, List.length_append, List.length_flatten] at h
  refine ⟨?_, ?_, by omega⟩
  · simp only [BSys.exec, TBuf.size]; congr 2; omega
  · simp only [BSys.exec, TBuf.empty]; congr 2
    cases hb : (BSys.runR hist).buf.buffer with
    | nil => simp [hb] at h ⊢; omega
    | cons a l => simp [hb] at h ⊢; omega

/-- What the consumer can rely on: between its `size()` and its next `consume()` only pushes
    happen, so the batch starts with the elements `size()` counted (batch length ≥ size seen,
    non-empty if `empty()` was false). -/
theorem tbuf_size_then_consume (hist more : List (BEv P α)) (h : ∀ e ∈ more, e.isConsume = false) :
    ∃ l, ((BSys.runR (more ++ hist)).exec .consume).2 = .batch l ∧
      (BSys.runR hist).buf.buffer <+: l ∧ (BSys.runR hist).buf.size ≤ l.length := by
  refine ⟨(BSys.runR (more ++ hist)).buf.buffer, by simp [BSys.exec, TBuf.consume], ?_, ?_⟩
  · exact buffer_prefix_of_no_consume hist more h
  · exact (buffer_prefix_of_no_consume hist more h).length_le

end TBuf

/-! ### non-vacuity: two producers and a consumer, interleaved -/
section
open BEv in
/-- most-recent-first: p0 pushes 0, p1 pushes 0, consume, p1 pushes 1, size, p0 pushes 1, consume, p0 pushes 2 -/
def exHist : List (BEv Nat Nat) :=
  [push 0 2, consume, push 0 1, size, push 1 1, consume, push 1 0, push 0 0]

example : (BSys.runR exHist).batches = [[(0, 0), (1, 0)], [(1, 1), (0, 1)]] := by decide
example : (BSys.runR exHist).buf.buffer = [(0, 2)] := by decide
example : pushesOf 0 exHist = [0, 1, 2] ∧ pushesOf 1 exHist = [0, 1] := by decide
example : (pushesOf 0 exHist).count 1 = 1 := by decide
example : ∀ e ∈ [BEv.push 1 (1 : Nat), BEv.size], e.isConsume = false := by decide
end

/-! ## TransactionalValue -/
section TVal
variable {V : Type}
open VSys

/-- tval_sequence: for every interleaving of the producer's assignments with the consumer's
    `update()` (flag read and lock section as separate steps) and `get()`:
    1. the coverage indices of the consumer's observations never decrease — values are seen in
       assignment order;
    2. every value `get()` returned is the initial value (index 0) or the producer's k-th assignment;
    3. `update()` returned true exactly when it moved the consumer to a strictly newer assignment,
       and in both cases the consumer then holds the latest assignment made up to the call's
       decisive step (`kAfter = n`). -/
theorem tval_sequence (c0 : Option V) (hist : List (VEv V)) :
    let s := VSys.runR c0 hist
    (s.log.map Obs.k).Pairwise (· ≤ ·) ∧
    (∀ k v, Obs.got k v ∈ s.log → k ≤ s.assigned.length ∧ v = valAt c0 s.assigned k) ∧
    (∀ r kb ka n, Obs.upd r kb ka n ∈ s.log →
        (r = true ↔ kb < ka) ∧ ka = n ∧ kb ≤ ka ∧ ka ≤ s.assigned.length) := by
  have h := inv_runR c0 hist
  exact ⟨h.logSorted, h.logGot, h.logUpd⟩

/-- A value seen by `get()` with index `k ≥ 1` really is one of the producer's values. -/
theorem tval_seen_was_assigned (c0 : Option V) (hist : List (VEv V)) (k : Nat) (v : Option V)
    (hm : Obs.got k v ∈ (VSys.runR c0 hist).log) (hk : 0 < k) :
    ∃ x, v = some x ∧ x ∈ (VSys.runR c0 hist).assigned := by
  have ⟨h1, h2⟩ := (inv_runR c0 hist).logGot k v hm
  have hlt : k - 1 < (VSys.runR c0 hist).assigned.length := by omega
  refine ⟨(VSys.runR c0 hist).assigned[k - 1], ?_, List.getElem_mem hlt⟩
  rw [h2]; unfold valAt
  have : k ≠ 0 := by omega
  simp [this, List.getElem?_eq_getElem hlt]

/-- tval_final ("once the producer has stopped the consumer obtains the last value"): from any
    reachable state, the consumer completing its pending `update()` and calling `update()` once
    more holds the producer's last assignment (the initial value if there was none), and keeps
    holding it through any further `update()`/`get()` calls while the producer stays silent. -/
theorem tval_final (c0 : Option V) (hist more : List (VEv V)) (hmore : ∀ e ∈ more, VEv.isAssign e = false) :
    let s := VSys.runR c0 hist
    (runFrom (finishUpdate s) more).tv.get =
      (match s.assigned.getLast? with | some v => some v | none => c0) := by
  intro s
  have hinv : Inv c0 s := inv_runR c0 hist
  have ⟨hq, ha, hu⟩ := finishUpdate_quiet c0 s hinv
  have hinv' : Inv c0 (finishUpdate s) := by
    unfold finishUpdate; exact inv_step _ _ _ (inv_step _ _ _ (inv_step _ _ _ hinv))
  have key : Quiet (runFrom (finishUpdate s) more) ∧ (runFrom (finishUpdate s) more).tv = (finishUpdate s).tv := by
    induction more with
    | nil => exact ⟨hq, rfl⟩
    | cons e rest ih =>
      have ⟨q, t⟩ := ih (fun e he => hmore e (List.mem_cons_of_mem _ he))
      have ⟨q', t', _⟩ := quiet_step _ e (hmore e List.mem_cons_self) q
      exact ⟨q', by simp only [runFrom]; rw [t', t]⟩
  rw [key.2]
  have hc := hinv'.cur
  rw [hu, ha] at hc
  simp only [TVal.get, hc, valAt]
  cases hl : s.assigned with
  | nil => simp
  | cons a as =>
    rw [List.getLast?_eq_getElem?]
    simp

/-! ### non-vacuity -/
section
open VEv in
/-- most-recent-first: assign 1, flag read (true), assign 2 slips in, lock section installs 2, get -/
def exV : List (VEv Nat) := [get, updInstall, assign 2, updRead, get, assign 1, updRead]

example : (VSys.runR (some 0) exV).log =
    [.upd false 0 0 0, .got 0 (some 0), .upd true 0 2 2, .got 2 (some 2)] := by decide
example : (VSys.runR (some 0) exV).assigned = [1, 2] := by decide
example : (finishUpdate (VSys.runR (some 0) [VEv.assign 7, .updRead, .assign 5])).tv.get = some 7 := by decide
example : ∀ e ∈ [VEv.get, VEv.updRead, (VEv.updInstall : VEv Nat)], VEv.isAssign e = false := by decide
end

end TVal

/-! ## Lockset discipline over the access table regenerated from the source -/

/-- What `locksetOk` says, spelled out. -/
theorem lockset_sound (multi : Bool) (t : List Access) (h : locksetOk multi t = true)
    (a b : Access) (ha : a ∈ t) (hb : b ∈ t) (hloc : a.loc = b.loc)
    (hconc : concurrent multi a.role b.role = true) (hw : a.write = true ∨ b.write = true) :
    (a.sect.isSome = true ∧ b.sect.isSome = true) ∨ (a.atomic = true ∧ b.atomic = true) := by
  have h1 := List.all_eq_true.mp h a ha
  have h2 := List.all_eq_true.mp h1 b hb
  simp only [racePair, hloc, hconc, beq_self_eq_true, Bool.true_and, Bool.not_eq_true',
    Bool.and_eq_false_iff, Bool.or_eq_false_iff, Bool.not_eq_false'] at h2
  rcases h2 with h2 | h2
  · rcases hw with hw | hw <;> simp [hw] at h2
  · simpa [Bool.or_eq_true, Bool.and_eq_true] using h2

/-- lockset_ok: in the current source, every data member touched by methods that may run
    concurrently in the documented usage (any number of producers + consumer + size/empty callers
    for the buffer; one producer + one consumer for the value) is, whenever one of the two accesses
    writes, accessed under the class's mutex on both sides or is a std::atomic. -/
theorem lockset_ok : locksetOk true Gen.tbufTable = true ∧ locksetOk false Gen.tvalTable = true := by
  decide

/-- tbuf_methods_atomic: every access of push_back/consume/size/empty lies in the method's single
    lock section — the justification for modelling each method as one atomic step (`BSys.exec`). -/
theorem tbuf_methods_atomic : singleSection Gen.tbufTable = true := by decide

/-- tval_shape_ok: operator= is one lock section; update() touches the members it shares with the
    producer only by reads before its lock section or inside that section, all writes inside —
    the step structure of `VSys.step`. -/
theorem tval_shape_ok : tvalShapeOk Gen.tvalTable = true := by decide

/-- The tables are not empty shells: each documented role occurs. -/
theorem tables_cover_usage :
    (Gen.tbufTable.any fun a => a.role == .producer && a.write) = true ∧
    (Gen.tbufTable.any fun a => a.role == .consumer && a.write) = true ∧
    (Gen.tbufTable.any fun a => a.role == .anyThread) = true ∧
    (Gen.tvalTable.any fun a => a.role == .producer && a.write) = true ∧
    (Gen.tvalTable.any fun a => a.role == .consumer && a.write && producerTouches Gen.tvalTable a.loc) = true := by
  decide

/-! ### The defect of the unchanged tree (DESIGN §9), as a witness

Table extracted from rkcommon/utility/TransactionalValue.h at the pinned commit (before
fixes/C12-tval-flag-race.patch): `update()` reads the plain `bool newValue` outside the mutex while
`operator=` writes it under the mutex. -/
def unfixedTvalTable : List Access := [
  { meth := 0, role := .init, loc := 2, write := true, sect := none, atomic := false },
  { meth := 1, role := .producer, loc := 1, write := true, sect := some 0, atomic := false },
  { meth := 1, role := .producer, loc := 0, write := true, sect := some 0, atomic := false },
  { meth := 2, role := .producer, loc := 1, write := true, sect := some 0, atomic := false },
  { meth := 2, role := .producer, loc := 0, write := true, sect := some 0, atomic := false },
  { meth := 3, role := .consumer, loc := 2, write := true, sect := none, atomic := false },
  { meth := 4, role := .consumer, loc := 2, write := false, sect := none, atomic := false },
  { meth := 5, role := .consumer, loc := 0, write := false, sect := none, atomic := false },
  { meth := 5, role := .consumer, loc := 1, write := true, sect := some 0, atomic := false },
  { meth := 5, role := .consumer, loc := 2, write := true, sect := some 0, atomic := false },
  { meth := 5, role := .consumer, loc := 0, write := true, sect := some 0, atomic := false }
]

/-- The unfixed header violates the lockset discipline: the producer's locked write of `newValue`
    (row 2) races with the consumer's unlocked read in `update()` (row 7). -/
theorem lockset_unfixed_race :
    locksetOk false unfixedTvalTable = false ∧
    racePair false
      { meth := 1, role := .producer, loc := 0, write := true, sect := some 0, atomic := false }
      { meth := 5, role := .consumer, loc := 0, write := false, sect := none, atomic := false } = true := by
  decide

/-- …while its step structure is the one modelled (so `tval_sequence` describes the unfixed code
    too, under sequential consistency — the defect is the race, not a wrong value). -/
example : tvalShapeOk unfixedTvalTable = true := by decide

end RkVerif.C12
