/- Simp set collecting every translator-generated definition (`simp only [gen_simp]` unfolds them). -/
import Lean.Meta.Tactic.Simp.RegisterCommand
register_simp_attr gen_simp
