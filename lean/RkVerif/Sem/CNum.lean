import RkVerif.Sem.SimpAttr
/-
`CNum α`: everything the translated C++ arithmetic code may use on its scalar type.
Core Lean only. Generated definitions (RkVerif/Gen/*.lean) are polymorphic over `[CNum α]`:
 * the compiled drivers instantiate it at `Float32` / `Int` (bit-exact comparison with the real code),
 * the property theorems instantiate it from Mathlib's ordered-field / bounded-order classes.
Transcendental functions, infinities and the hardware estimates are abstract fields; the theorems
state as hypotheses whatever they need to know about them.
-/
namespace RkVerif

class CNum (α : Type) extends Add α, Sub α, Mul α, Div α, Neg α, Mod α, LT α, LE α, Min α, Max α where
  ofNat : Nat → α
  ofScientific : Nat → Bool → Nat → α
  ofInt : Int → α
  toInt : α → Int
  decLt : DecidableRel (α := α) (· < ·)
  decLe : DecidableRel (α := α) (· ≤ ·)
  beq : α → α → Bool
  abs : α → α
  sqrt : α → α
  sin : α → α
  cos : α → α
  tan : α → α
  acos : α → α
  asin : α → α
  atan2 : α → α → α
  floor : α → α
  pow : α → α → α
  exp : α → α
  posInf : α
  negInf : α
  pi : α
  nan : α
  ulp : α
  fltMin : α
  rcpEst : α → α      -- hardware reciprocal estimate (rcpss)
  rsqrtEst : α → α    -- hardware reciprocal square-root estimate (rsqrtss)

attribute [instance] CNum.decLt CNum.decLe

instance instInhabitedOfCNum {α : Type} [CNum α] : Inhabited α := ⟨CNum.nan⟩
instance instOfNatOfCNum {α : Type} [CNum α] {n : Nat} : OfNat α n := ⟨CNum.ofNat n⟩
instance instOfScientificOfCNum {α : Type} [CNum α] : OfScientific α := ⟨CNum.ofScientific⟩

end RkVerif
