/-
Instances of `CNum` used by the property theorems (Mathlib side; never imported by a driver):
 * `CNum.ofBoundedOrder`  — any bounded linear order (floats with ±∞ without NaN, the integer types
   with their extreme values, …). Arithmetic is junk and must not be used by the theorem; `-⊤ = ⊥`.
 * `CNum.ofField top fmin` — any linearly ordered field with two parameters standing for the
   "infinity" constant and FLT_MIN; theorems state as hypotheses what they need of them
   (e.g. that the coordinates involved lie within `[-top, top]`).
Both are `@[reducible] def`s, activated with `attribute [local instance]` in a section.
-/
import Mathlib.Order.Lattice
import Mathlib.Order.BoundedOrder.Basic
import Mathlib.Order.MinMax
import Mathlib.Algebra.Order.Field.Basic
import Mathlib.Algebra.Order.AbsoluteValue.Basic
import Mathlib.Tactic.Ring
import Mathlib.Tactic.FieldSimp
import Mathlib.Tactic.Linarith
import Mathlib.Tactic.NormNum
import RkVerif.Sem.CNum

namespace RkVerif

@[reducible] def CNum.ofBoundedOrder (α : Type) [LinearOrder α] [BoundedOrder α] : CNum α where
  add a _ := a
  sub a _ := a
  mul a _ := a
  div a _ := a
  neg a := if a = ⊤ then ⊥ else a
  mod a _ := a
  lt := (· < ·)
  le := (· ≤ ·)
  min := Min.min
  max := Max.max
  ofNat _ := ⊥
  ofScientific _ _ _ := ⊥
  ofInt _ := ⊥
  toInt _ := 0
  decLt := inferInstance
  decLe := inferInstance
  beq a b := decide (a = b)
  abs a := a
  sqrt a := a
  sin a := a
  cos a := a
  tan a := a
  acos a := a
  asin a := a
  atan2 a _ := a
  floor a := a
  pow a _ := a
  exp a := a
  posInf := ⊤
  negInf := ⊥
  pi := ⊥
  nan := ⊥
  ulp := ⊥
  fltMin := ⊥
  rcpEst a := a
  rsqrtEst a := a

section
variable {α : Type} [LinearOrder α] [BoundedOrder α]
attribute [local instance] CNum.ofBoundedOrder
@[simp] theorem ofBoundedOrder_posInf : (CNum.posInf : α) = ⊤ := rfl
@[simp] theorem ofBoundedOrder_negInf : (CNum.negInf : α) = ⊥ := rfl
@[simp] theorem ofBoundedOrder_neg_top : (-(⊤ : α)) = ⊥ := by
  show (if (⊤ : α) = ⊤ then ⊥ else ⊤) = ⊥; simp
end

@[reducible] def CNum.ofField (α : Type) [Field α] [LinearOrder α] [IsStrictOrderedRing α] (top fmin : α) : CNum α where
  add := (· + ·)
  sub := (· - ·)
  mul := (· * ·)
  div := (· / ·)
  neg := (- ·)
  mod a _ := a
  lt := (· < ·)
  le := (· ≤ ·)
  min := Min.min
  max := Max.max
  ofNat n := (n : α)
  ofScientific m s e := (OfScientific.ofScientific m s e : α)
  ofInt n := (n : α)
  toInt _ := 0
  decLt := inferInstance
  decLe := inferInstance
  beq a b := decide (a = b)
  abs a := |a|
  sqrt a := a
  sin a := a
  cos a := a
  tan a := a
  acos a := a
  asin a := a
  atan2 a _ := a
  floor a := a
  pow a _ := a
  exp a := a
  posInf := top
  negInf := -top
  pi := 0
  nan := 0
  ulp := 0
  fltMin := fmin
  rcpEst a := 1 / a
  rsqrtEst a := a

end RkVerif

namespace RkVerif
section
variable {α : Type} [Field α] [LinearOrder α] [IsStrictOrderedRing α] (top fmin : α)

/-- numerals of generated code (elaborated through `CNum`'s `OfNat`) are the field's numerals -/
theorem ofField_ofNat (n : Nat) :
    (@OfNat.ofNat α n (@instOfNatOfCNum α (CNum.ofField α top fmin) n)) = (n : α) := rfl
theorem ofField_ofScientific (m : Nat) (s : Bool) (e : Nat) :
    (@OfScientific.ofScientific α (@instOfScientificOfCNum α (CNum.ofField α top fmin)) m s e) =
      (OfScientific.ofScientific m s e : α) := rfl
end
end RkVerif

namespace RkVerif
section
variable {α : Type} [Field α] [LinearOrder α] [IsStrictOrderedRing α] (top fmin : α)
theorem ofField_abs (x : α) : @CNum.abs α (CNum.ofField α top fmin) x = |x| := rfl
theorem ofField_fltMin : @CNum.fltMin α (CNum.ofField α top fmin) = fmin := rfl
theorem ofField_posInf : @CNum.posInf α (CNum.ofField α top fmin) = top := rfl
end
end RkVerif

namespace RkVerif
/-- Parameters of the field instance used for the transform algebra (C06): constants and the
    transcendental functions, about which each theorem states what it needs as hypotheses. -/
structure Transc (α : Type) where
  top : α
  fmin : α
  pi : α
  sqrt : α → α
  sin : α → α
  cos : α → α
  acos : α → α

@[reducible] def CNum.ofFieldT (α : Type) [Field α] [LinearOrder α] [IsStrictOrderedRing α] (E : Transc α) : CNum α where
  add := (· + ·)
  sub := (· - ·)
  mul := (· * ·)
  div := (· / ·)
  neg := (- ·)
  mod a _ := a
  lt := (· < ·)
  le := (· ≤ ·)
  min := Min.min
  max := Max.max
  ofNat n := (n : α)
  ofScientific m s e := (OfScientific.ofScientific m s e : α)
  ofInt n := (n : α)
  toInt _ := 0
  decLt := inferInstance
  decLe := inferInstance
  beq a b := decide (a = b)
  abs a := |a|
  sqrt := E.sqrt
  sin := E.sin
  cos := E.cos
  tan a := a
  acos := E.acos
  asin a := a
  atan2 a _ := a
  floor a := a
  pow a _ := a
  exp a := a
  posInf := E.top
  negInf := -E.top
  pi := E.pi
  nan := 0
  ulp := 0
  fltMin := E.fmin
  rcpEst a := 1 / a
  rsqrtEst a := a

section
variable {α : Type} [Field α] [LinearOrder α] [IsStrictOrderedRing α] (E : Transc α)
theorem ofFieldT_ofNat (n : Nat) :
    (@OfNat.ofNat α n (@instOfNatOfCNum α (CNum.ofFieldT α E) n)) = (n : α) := rfl
theorem ofFieldT_ofScientific (m : Nat) (s : Bool) (e : Nat) :
    (@OfScientific.ofScientific α (@instOfScientificOfCNum α (CNum.ofFieldT α E)) m s e) =
      (OfScientific.ofScientific m s e : α) := rfl
theorem ofFieldT_abs (x : α) : @CNum.abs α (CNum.ofFieldT α E) x = |x| := rfl
theorem ofFieldT_sqrt (x : α) : @CNum.sqrt α (CNum.ofFieldT α E) x = E.sqrt x := rfl
theorem ofFieldT_sin (x : α) : @CNum.sin α (CNum.ofFieldT α E) x = E.sin x := rfl
theorem ofFieldT_cos (x : α) : @CNum.cos α (CNum.ofFieldT α E) x = E.cos x := rfl
theorem ofFieldT_acos (x : α) : @CNum.acos α (CNum.ofFieldT α E) x = E.acos x := rfl
theorem ofFieldT_ofInt (n : Int) : @CNum.ofInt α (CNum.ofFieldT α E) n = (n : α) := rfl
end
end RkVerif
