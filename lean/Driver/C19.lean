/- Model driver for C19: Observable/Observer histories, sequential TimeStamp operations and
   simulated multi-threaded stamp schedules.  Same op lines as harness/c19.cpp.

   Slots are written b<n> (observables), o<n> (observers), t<n> (time stamps).
   Stamp values are printed canonically: `+r` = a value not seen before in this case with r
   distinct smaller values seen before, `=r` = the r-th smallest value seen before. -/
import RkVerif.Model.C19
import Driver.Common
open RkVerif.C19 Driver

structure DSt where
  s : St := {}
  ss : SSt := {}
  live : Nat → Bool := fun _ => false
  seen : List Nat := []          -- distinct, ascending

def slot (tok : String) : Option Nat := (tok.drop 1).toNat?

def showOut (s : St) : Out → String
  | .ok => if s.fault then "fault" else "ok"
  | .skip => "skip"
  | .res r => if s.fault then "fault" else bit r

def obsOp (d : DSt) (op : Op) : DSt × String :=
  let (s', o) := stepC d.s op
  ({ d with s := s' }, showOut s' o)

def insertSorted (v : Nat) : List Nat → List Nat
  | [] => [v]
  | x :: xs => if v < x then v :: x :: xs else x :: insertSorted v xs

def canon (d : DSt) (v : Nat) : DSt × String :=
  let r := (d.seen.filter (· < v)).length
  if d.seen.contains v then (d, "=" ++ toString r)
  else ({ d with seen := insertSorted v d.seen }, "+" ++ toString r)

def stampProg (d : DSt) (k : Nat) (prog : List SStep) : DSt × String :=
  let ss := sexec d.ss prog
  canon { d with ss := ss, live := upd d.live k true } (ss.stamp k)

/-! simulated threads -/

inductive Act where
  | step (st : SStep)
  | record (t : Nat)         -- the thread notes the value it has just obtained (still in its register)
  | check (k1 k2 : Nat)      -- a copy must equal its source

def threadProg (t n : Nat) : List Act :=
  let cur := 3 * t
  let fresh := 3 * t + 1
  let cp := 3 * t + 2
  let body (i : Nat) : List Act :=
    if i % 4 == 3 then
      (progCreate t fresh).map .step ++ [.record t] ++ (progCopyCtor t cp fresh).map .step ++ [.check cp fresh] ++
        (progAssign t cur cp).map .step ++ [.check cur fresh]
    else (progRenew t cur).map .step ++ [.record t]
  (progCreate t cur).map .step ++ [.record t] ++ ((List.range (n - 1)).map (fun i => body (i + 1))).flatten

def lcg (x : Nat) : Nat := (x * 6364136223846793005 + 1442695040888963407) % 18446744073709551616

/-- returns the final state, the copies flag and the recorded (thread, value) pairs, most recent first -/
partial def simulate (progs : Array (List Act)) (rnd : Nat) (ss : SSt) (copies : Bool)
    (recd : List (Nat × Nat)) : SSt × Bool × List (Nat × Nat) :=
  let alive := (List.range progs.size).filter (fun i => !(progs[i]!).isEmpty)
  if alive.isEmpty then (ss, copies, recd)
  else
    let rnd := lcg rnd
    let i := alive[(rnd / 65536) % alive.length]!
    match progs[i]! with
    | [] => (ss, copies, recd)
    | a :: rest =>
      let progs := progs.set! i rest
      match a with
      | .step st => simulate progs rnd (sstep ss st) copies recd
      | .record t => simulate progs rnd ss copies ((t, ss.reg t) :: recd)
      | .check k1 k2 => simulate progs rnd ss (copies && ss.stamp k1 == ss.stamp k2) recd

def strictlyDecreasing : List Nat → Bool
  | a :: b :: rest => b < a && strictlyDecreasing (b :: rest)
  | _ => true

def mtSummary (T n seed : Nat) : String :=
  let progs := (List.range T).map (fun t => threadProg t n)
  let (_, copies, recd) := simulate progs.toArray (seed + 1) { counter := 7 } true []
  let vals := (recd.map Prod.snd).toArray.qsort (· < ·)
  let unique := (List.range (vals.size - 1)).all (fun i => vals[i]! < vals[i + 1]!)
  let mono := (List.range T).all (fun t => strictlyDecreasing ((recd.filter (fun e => e.1 == t)).map Prod.snd))
  s!"unique={bit unique} monotone={bit mono} copies={bit copies} n={recd.length}"

def stepSt (d : DSt) : List String → DSt × String
  | "on" :: _ :: rest => stepSt d rest   -- executed on a worker thread, strictly sequenced: same sequential semantics
  | ["bnew", b] => match slot b with | some b => obsOp d (.bnew b) | none => (d, "bad-op")
  | ["bdel", b] => match slot b with | some b => obsOp d (.bdel b) | none => (d, "bad-op")
  | ["bcopy", b, src] => match slot b, slot src with | some b, some x => obsOp d (.bcopy b x) | _, _ => (d, "bad-op")
  | ["bassign", b, src] => match slot b, slot src with | some b, some x => obsOp d (.bassign b x) | _, _ => (d, "bad-op")
  | ["bmove", b, src] => match slot b, slot src with | some b, some x => obsOp d (.bcopy b x) | _, _ => (d, "bad-op")
  | ["bmassign", b, src] => match slot b, slot src with | some b, some x => obsOp d (.bassign b x) | _, _ => (d, "bad-op")
  | ["onew", o, b] => match slot o, slot b with | some o, some b => obsOp d (.onew o b) | _, _ => (d, "bad-op")
  | ["odel", o] => match slot o with | some o => obsOp d (.odel o) | none => (d, "bad-op")
  | ["ocopy", o, src] => match slot o, slot src with | some o, some x => obsOp d (.ocopy o x) | _, _ => (d, "bad-op")
  | ["omove", o, src] => match slot o, slot src with | some o, some x => obsOp d (.ocopy o x) | _, _ => (d, "bad-op")
  | ["oassign", o, src] => match slot o, slot src with | some o, some x => obsOp d (.oassign o x) | _, _ => (d, "bad-op")
  | ["omassign", o, src] => match slot o, slot src with | some o, some x => obsOp d (.oassign o x) | _, _ => (d, "bad-op")
  | ["notify", b] => match slot b with | some b => obsOp d (.notify b) | none => (d, "bad-op")
  | ["poll", o] => match slot o with | some o => obsOp d (.poll o) | none => (d, "bad-op")
  | ["tnew", k] =>
    match slot k with
    | some k => if d.live k then (d, "skip") else stampProg d k (progCreate 0 k)
    | none => (d, "bad-op")
  | ["trenew", k] =>
    match slot k with
    | some k => if d.live k then stampProg d k (progRenew 0 k) else (d, "skip")
    | none => (d, "bad-op")
  | [op, k, src] =>
    match slot k, slot src with
    | some k, some x =>
      if op == "tcopy" || op == "tmove" then
        if !d.live k && d.live x then stampProg d k (progCopyCtor 0 k x) else (d, "skip")
      else if op == "tassign" || op == "tmassign" then
        if d.live k && d.live x then stampProg d k (progAssign 0 k x) else (d, "skip")
      else (d, "bad-op")
    | _, _ => (d, "bad-op")
  | ["tdel", k] =>
    match slot k with
    | some k => if d.live k then ({ d with live := upd d.live k false }, "ok") else (d, "skip")
    | none => (d, "bad-op")
  | ["tjump", n] =>   -- n stamps are drawn (and dropped) by somebody else in the process
    match n.toNat? with
    | some n => ({ d with s := jump d.s n, ss := { d.ss with counter := d.ss.counter + n } }, "ok")
    | none => (d, "bad-op")
  | ["tval", k] =>
    match slot k with
    | some k => if d.live k then canon d (d.ss.stamp k) else (d, "skip")
    | none => (d, "bad-op")
  | ["mt", T, n, seed] =>
    match T.toNat?, n.toNat?, seed.toNat? with
    | some T, some n, some seed => (d, mtSummary T n seed)
    | _, _, _ => (d, "bad-op")
  | _ => (d, "bad-op")

def main : IO Unit := Driver.run ({} : DSt) stepSt
