/- Model driver for C11: array wrappers over a heap of allocations, DataView over byte buffers. -/
import RkVerif.Model.C11
import Driver.Common
open RkVerif.C11 Driver

structure DVS where
  null : Bool := true
  bb : Nat := 0
  id : Nat := 0
  dv : DV := ⟨0, 1⟩

structure St where
  m : State := State.init 4 6
  bbs : List (Option (Nat × List Nat)) := List.replicate 4 none
  clock : Nat := 0
  dvs : List (Option DVS) := List.replicate 3 none

def NW := 6
def NB := 4
def ND := 3

def parseList (s : String) : Option (List Nat) :=
  if s == "-" then some [] else (s.splitOn ",").mapM String.toNat?

def parseSrc (t : String) : Option Src :=
  if t == "null" then some .null
  else match t.splitOn ":" with
    | [h, o, c] =>
      match (h.drop 1).toString.toNat?, o.toNat?, c.toNat? with
      | some k, some off, some cnt =>
        if h.startsWith "b" then some (.buf k off cnt)
        else if h.startsWith "w" then some (.wr k off cnt) else none
      | _, _, _ => none
    | _ => none

def kindName : W → String
  | .av _ => "av" | .oa _ _ => "oa" | .fa _ _ => "fa" | .fav _ _ => "fav"

def showNats (l : List Nat) : String := ",".intercalate (l.map toString)

def overlaps (h : Heap) (b : Base) (o : Base) : Bool :=
  match b.ptr, o.ptr with
  | some p, some q => o.valid h && o.n > 0 && p.a == q.a && p.off < q.off + o.n && q.off < p.off + b.n
  | _, _ => false

def obs (s : State) (i : Nat) : String :=
  match getW s i with
  | none => "none"
  | some w =>
    let b := w.base
    let head := kindName w ++ " n=" ++ toString (size b) ++ " b=" ++ bit (toBool b)
    if !(b.valid s.heap) then head ++ " dead"
    else
      let it := match iterate b (b.n + 1) with
        | some l => toString l.length
        | none => "?"
      let ks := (List.range (b.n + 2)) ++ [2 ^ 63]
      let atp := String.ofList (ks.map fun k => if (at? b k).isSome then 'o' else 't')
      let sh := (List.range NW).filter fun k => k != i && b.n > 0 &&
        (match getW s k with
          | some o => overlaps s.heap b o.base
          | none => false)
      let src := (List.range NB).filter fun k => b.n > 0 &&
        (match getBuf s k, b.ptr with
          | some a, some p => a == p.a && lenAt s.heap a > 0
          | _, _ => false)
      let cat (l : List Nat) : String := if l.isEmpty then "-" else String.join (l.map toString)
      head ++ " [" ++ showNats (b.read s.heap) ++ "] it=" ++ it ++ " at=" ++ atp ++ " sh=" ++ cat sh ++ " src=" ++ cat src

def runOp (st : St) (op : Op) : St × String :=
  match step Cfg.fixed st.m op with
  | some m' => ({ st with m := m' }, "ok")
  | none => (st, "pre")

def nat2 (a b : String) (lim1 lim2 : Nat) : Option (Nat × Nat) :=
  match a.toNat?, b.toNat? with
  | some x, some y => if x < lim1 && y < lim2 then some (x, y) else none
  | _, _ => none

def slot (a : String) (lim : Nat) : Option Nat :=
  match a.toNat? with
  | some x => if x < lim then some x else none
  | none => none

def stepSt (st : St) (w : List String) : St × String :=
  let bad : St × String := (st, "bad-op")
  match w with
  | ["buf_new", b, _kind, xs] =>
    match slot b NB, parseList xs with
    | some b, some xs => runOp st (.bufNew b xs)
    | _, _ => bad
  | ["buf_free", b] => match slot b NB with | some b => runOp st (.bufFree b) | none => bad
  | ["buf_set", b, k, v] =>
    match slot b NB, k.toNat?, v.toNat? with
    | some b, some k, some v => runOp st (.bufSet b k v)
    | _, _, _ => bad
  | ["obs", i] => match slot i NW with | some i => (st, obs st.m i) | none => bad
  | ["destroy", i] => match slot i NW with | some i => runOp st (.destroy i) | none => bad
  | "wset" :: i :: k :: v :: _ =>
    match slot i NW, k.toNat?, v.toNat? with
    | some i, some k, some v => runOp st (.wset i k v)
    | _, _, _ => bad
  | ["av_default", i] => match slot i NW with | some i => runOp st (.avDefault i) | none => bad
  | ["oa_default", i] => match slot i NW with | some i => runOp st (.oaDefault i) | none => bad
  | ["fa_default", i] => match slot i NW with | some i => runOp st (.faDefault i) | none => bad
  | ["fav_default", i] => match slot i NW with | some i => runOp st (.favDefault i) | none => bad
  | ["oa_reset_throw", i, src] =>   -- failed attempts are no-ops; the last one is the assignment from the range
    match slot i NW, parseSrc src with
    | some i, some src => runOp st (.oaSet i src false)
    | _, _ => bad
  | [opn, i, src, _via] =>
    match slot i NW, parseSrc src with
    | some i, some src =>
      if opn == "av_new" then runOp st (.avSet i src true)
      else if opn == "av_set" then runOp st (.avSet i src false)
      else if opn == "oa_new" then runOp st (.oaSet i src true)
      else if opn == "oa_assign" then runOp st (.oaSet i src false)
      else if opn == "fa_new" then runOp st (.faSet i src true)
      else if opn == "fa_assign" then runOp st (.faSet i src false)
      else if opn == "fa_assign_fail1" || opn == "fa_assign_fail2" then
        -- the assignment's allocation fails: same preconditions, nothing changes
        (match step Cfg.fixed st.m (.faSet i src false) with
         | some _ => (st, "bad_alloc")
         | none => (st, "pre"))
      else bad
    | _, _ =>
      -- the other four-word operations
      match w with
      | ["oa_resize", i, n, v] =>
        match slot i NW, n.toNat?, v.toNat? with
        | some i, some n, some v => runOp st (.oaResize i n v)
        | _, _, _ => bad
      | ["oa_resize_throw", i, n, v] =>   -- failed attempts are no-ops
        match slot i NW, n.toNat?, v.toNat? with
        | some i, some n, some v => runOp st (.oaResize i n v)
        | _, _, _ => bad
      | ["oa_resize_self", i, n, k] =>   -- fill value = the array's own element k at the time of the call
        match slot i NW, n.toNat?, k.toNat? with
        | some i, some n, some k =>
          (match getW st.m i with
           | some (.oa _ buf) =>
             (match (cellAt st.m.heap buf).data[k]? with
              | some v => runOp st (.oaResize i n v)
              | none => (st, "pre"))
           | _ => (st, "pre"))
        | _, _, _ => bad
      | ["copy", i, j, how] =>
        match nat2 i j NW NW with
        | some (i, j) => runOp st (.copy i j (how == "move"))
        | none => bad
      | ["assign", i, j, how] =>
        match nat2 i j NW NW with
        | some (i, j) => runOp st (.assign i j (how == "move"))
        | none => bad
      | ["dv_read", d, k, ts] =>
        match slot d ND, k.toNat?, ts.toNat? with
        | some d, some k, some ts =>
          match st.dvs.getD d none with
          | some dv =>
            if dv.null then (st, "pre")
            else match st.bbs.getD dv.bb none with
              | some (id, bytes) =>
                if id != dv.id then (st, "pre")
                else match dv.dv.read bytes ts k with
                  | some l => (st, showNats l)
                  | none => (st, "pre")
              | none => (st, "pre")
          | none => (st, "pre")
        | _, _, _ => bad
      | _ => bad
  | ["fa_size", i, xs] =>
    match slot i NW, parseList xs with
    | some i, some xs => runOp st (.faSize i xs)
    | _, _ => bad
  | ["fav_new", i, j, off, cnt] =>
    match nat2 i j NW NW, off.toNat?, cnt.toNat? with
    | some (i, j), some off, some cnt => runOp st (.favNew i j off cnt)
    | _, _, _ => bad
  | ["av_reset", i] => match slot i NW with | some i => runOp st (.avReset i) | none => bad
  | ["oa_reset", i] => match slot i NW with | some i => runOp st (.oaReset i) | none => bad
  | ["bb_new", b, xs] =>
    match slot b NB, parseList xs with
    | some b, some xs => ({ st with bbs := st.bbs.set b (some (st.clock + 1, xs)), clock := st.clock + 1 }, "ok")
    | _, _ => bad
  | ["bb_free", b] =>
    match slot b NB with
    | some b => match st.bbs.getD b none with
      | some _ => ({ st with bbs := st.bbs.set b none }, "ok")
      | none => (st, "pre")
    | none => bad
  | ["dv_default", d] =>
    match slot d ND with
    | some d => ({ st with dvs := st.dvs.set d (some {}) }, "ok")
    | none => bad
  | opn :: d :: b :: base :: stride :: _ =>
    if opn == "dv_new" || opn == "dv_reset" then
      match nat2 d b ND NB, base.toNat?, stride.toNat? with
      | some (d, b), some base, some stride =>
        match st.bbs.getD b none with
        | some (id, bytes) =>
          if base > bytes.length then (st, "pre")
          else if opn == "dv_reset" && (st.dvs.getD d none).isNone then (st, "pre")
          else ({ st with dvs := st.dvs.set d (some { null := false, bb := b, id := id, dv := ⟨base, stride⟩ }) }, "ok")
        | none => (st, "pre")
      | _, _, _ => bad
    else bad
  | ["dv_copy", d, e] =>
    match nat2 d e ND ND with
    | some (d, e) => match st.dvs.getD e none with
      | some dv => ({ st with dvs := st.dvs.set d (some dv) }, "ok")
      | none => (st, "pre")
    | none => bad
  | _ => bad

def main : IO Unit := Driver.run ({} : St) stepSt
