/- Model driver for C14: aligned allocation.  argv[1] = sizeof(T) of the element type (1, 4, 12, 64).
   Same op lines as harness/c14.cpp; one output line per op line. -/
import RkVerif.Model.C14
import Driver.Common
open RkVerif.C14 Driver

/-- a raw block held in a slot by `am` / `al` -/
structure Slot where
  size : Nat
  align : Nat

structure DSt where
  sz : Nat := 4
  slots : List (Nat × Slot) := []
  vs : St Nat := St.init

def keepLimit : Nat := 16777216   -- blocks above 16 MiB are released at once by both sides

def DSt.cfg (s : DSt) : Cfg := stdCfg s.sz

def slotGet (s : DSt) (k : Nat) : Option Slot := (s.slots.find? (·.1 == k)).map (·.2)
def slotDel (s : DSt) (k : Nat) : DSt := { s with slots := s.slots.filter (·.1 != k) }
def slotPut (s : DSt) (k : Nat) (v : Slot) : DSt := { (slotDel s k) with slots := (k, v) :: (slotDel s k).slots }

def showOutcome : Outcome → String
  | .ok => "ok"
  | .lengthError => "length_error"
  | .badAlloc => "bad_alloc"

def parseK : String → Option Bool
  | "0" => some false
  | "1" => some true
  | _ => none

def alBit (s : DSt) (k : Bool) : String := bit ((s.vs.get k).data % 64 == 0)

def vop (s : DSt) (k : String) (mk : Option (VOp Nat)) : DSt × String :=
  match parseK k, mk with
  | some kb, some op =>
    let (st, o) := step s.cfg s.vs (.on kb op)
    let s' := { s with vs := st }
    (s', showOutcome o ++ " al=" ++ alBit s' kb)
  | _, _ => (s, "bad-op")

def showList (l : List Nat) : String := "[" ++ ",".intercalate (l.map toString) ++ "]"

def nat2 (a b : String) : Option (Nat × Nat) := do
  let x ← a.toNat?
  let y ← b.toNat?
  pure (x, y)

def alOp (s : DSt) (k n : String) : DSt × String :=
  match nat2 k n with
  | some (k, n) =>
    match allocGuard 64 s.sz n with
    | .null => (slotDel s k, "null")
    | .lengthError => (slotDel s k, "length_error")
    | .request bytes align =>
      (if bytes > keepLimit then slotDel s k else slotPut s k ⟨bytes, align⟩, "req " ++ toString bytes ++ " " ++ toString align)
  | none => (s, "bad-op")

def stepSt (s : DSt) : List String → DSt × String
  -- raw alignedMalloc / alignedFree: what the allocator returns is the *contract*; the model only
  -- keeps the bookkeeping (which slot holds how many bytes)
  | ["am", k, size, align] =>
    match k.toNat?, nat2 size align with
    | some k, some (size, align) =>
      if size > keepLimit then (slotDel s k, "ok") else (slotPut s k ⟨size, align⟩, "ok")
    | _, _ => (s, "bad-op")
  | ["af", k] => match k.toNat? with
    | some k => (slotDel s k, "ok")
    | none => (s, "bad-op")
  | ["aw", _, _] => (s, "ok")
  | ["chk"] =>
    (s, "live=" ++ toString s.slots.length ++ " bytes=" ++ toString (s.slots.foldl (fun a x => a + x.2.size) 0))
  | ["ia", p, a] => match nat2 p a with
    | some (p, a) => (s, bit (isAligned p a))
    | none => (s, "bad-op")
  | ["ias", k, a] =>
    match k.toNat?, a.toNat? with
    | some k, some a =>
      match slotGet s k with
      | some sl => (s, if a ≤ sl.align then "1" else "-")
      | none => (s, "-")
    | _, _ => (s, "bad-op")
  | ["ap", p, a] => match nat2 p a with
    | some (p, a) => (s, toString (alignPtr p a))
    | none => (s, "bad-op")
  -- aligned_allocator<T,64>
  | ["ms"] => (s, toString (maxSize s.sz))
  | ["churn"] => (s, "ok")
  | ["svcheck", _] => (s, "ok")
  | ["al", k, n] => alOp s k n
  | ["alh", k, n] => alOp s k n
  | ["alnh", k, n] => alOp s k n
  | ["de", k] => match k.toNat? with
    | some k => (slotDel s k, "ok")
    | none => (s, "bad-op")
  | ["eq"] => (s, "1 0")
  | ["va", a, n] => match nat2 a n with
    -- std::vector<T, aligned_allocator<T,A>>(n): the container allocates through rebind<T>::other
    | some (a, _) => (s, bit (isAligned (roundUp 4160 (rebindAlign a)) a))
    | none => (s, "bad-op")
  -- AlignedVector<T>
  | ["push", k, x] => vop s k (x.toNat?.map .push)
  | ["pop", k] => vop s k (some .pop)
  | ["resize", k, n, x] => vop s k ((nat2 n x).map fun (n, x) => .resize n x)
  | ["resize0", k, n] => vop s k (n.toNat?.map fun n => .resize n 0)
  | ["reserve", k, n] => vop s k (n.toNat?.map .reserve)
  | ["shrink", k] => vop s k (some .shrink)
  | ["assign", k, n, x] => vop s k ((nat2 n x).map fun (n, x) => .assign n x)
  | ["clear", k] => vop s k (some .clear)
  | ["insert", k, i, x] => vop s k ((nat2 i x).map fun (i, x) => .insert i x)
  | ["erase", k, i] => vop s k (i.toNat?.map .erase)
  | ["set", k, i, x] => vop s k ((nat2 i x).map fun (i, x) => .set i x)
  | ["release", k] => vop s k (some .release)
  | ["copy", k] =>
    match parseK k with
    | some kb =>
      let (st, o) := step s.cfg s.vs (.copyAssign kb)
      let s' := { s with vs := st }
      (s', showOutcome o ++ " al=" ++ alBit s' kb)
    | none => (s, "bad-op")
  | ["swap"] =>
    let (st, _) := step s.cfg s.vs .swap
    let s' := { s with vs := st }
    (s', "ok al=" ++ alBit s' false ++ alBit s' true)
  | ["get", k, i] =>
    match parseK k, i.toNat? with
    | some kb, some i => (s, match (s.vs.get kb).contents[i]? with | some x => toString x | none => "throw")
    | _, _ => (s, "bad-op")
  | ["dump", k] =>
    match parseK k with
    | some kb =>
      let v := s.vs.get kb
      (s, "n=" ++ toString v.size ++ " e=" ++ bit (v.size == 0) ++ " al=" ++ alBit s kb ++ " " ++ showList v.contents)
    | none => (s, "bad-op")
  | ["objs"] => (s, toString (s.vs.a.size + s.vs.b.size))
  | ["leak"] =>
    -- both sides release everything, then nothing may be left allocated
    let (st1, _) := step s.cfg s.vs (.on false .release)
    let (st2, _) := step s.cfg st1 (.on true .release)
    ({ s with slots := [], vs := st2 }, if st2.live.isEmpty && !st2.fault then "ok" else "leak")
  | _ => (s, "bad-op")

def main (args : List String) : IO Unit :=
  let sz := (args.head?.bind String.toNat?).getD 4
  Driver.run ({ sz := sz } : DSt) stepSt
