/- Model driver for C07: the definitions of RkVerif/Model/C07.lean evaluated at Float32 (one hardware float
   operation per model operation, as the C++ code does), for bit-exact comparison with the real kernels.
   Argument: `simd` (estimate + Newton–Raphson; the estimate comes on the op line) or `nosimd`. -/
import RkVerif.Model.C07
import Driver.Float32Num
open RkVerif RkVerif.C07 Driver

namespace C07Drv

/-- `(uint32_t)round(x)` for the values the kernels produce (0 … 255) -/
def rnd32 (x : Float32) : Nat := (Float32.round x).toUInt32.toNat

def canonZero (x : Float32) : Float32 := if x == 0 then 0 else x

def intOfTok (s : String) : Option Int :=
  match s.toList with
  | '-' :: rest => (String.ofList rest).toNat?.map (fun n => -(n : Int))
  | _ => s.toNat?.map (fun n => (n : Int))

def showList (l : List String) : String := if l.isEmpty then "-" else " ".intercalate l

def fmin32 : Float32 := Float32.ofBits 0x00800000

def step (simd : Bool) (_ : Unit) (ws : List String) : Unit × String :=
  let f := f32OfTok
  let out (s : Option String) : Unit × String := ((), s.getD "bad-arg")
  match ws with
  | ["rcp", x, r] => out do
      let x ← f x; let r ← f r
      pure (tokOfF32 (if simd then rcp_simd x r else rcp_nosimd x))
  | ["rsqrt", x, r] => out do
      let x ← f x; let r ← f r
      pure (tokOfF32 (if simd then rsqrt_simd x r else rsqrt_nosimd x))
  | ["rcp_safe", x, rx, rp, rn] => out do
      let x ← f x; let rx ← f rx; let rp ← f rp; let rn ← f rn
      -- this machine's estimate for whichever argument rcp_safe selects
      let est (y : Float32) : Float32 :=
        if y.toBits == fmin32.toBits then rp else if y.toBits == (-fmin32).toBits then rn else rx
      let rcp (y : Float32) : Float32 := if simd then rcp_simd y (est y) else rcp_nosimd y
      pure (tokOfF32 (rcp_safe rcp x))
  | ["sign", x] => out do pure (tokOfF32 (sign (← f x)))
  | ["clamp", x, lo, hi] => out do pure (tokOfF32 (canonZero (clamp (← f x) (← f lo) (← f hi))))
  | ["clamp01", x] => out do pure (tokOfF32 (canonZero (clamp (← f x) 0 1)))
  | ["deg2rad", x] => out do pure (tokOfF32 (deg2rad (← f x)))
  | ["madd", a, b, c] => out do pure (tokOfF32 (madd (← f a) (← f b) (← f c)))
  | ["lerp", t, a, b] => out do pure (tokOfF32 (lerp (← f t) (← f a) (← f b)))
  | ["divru32", a, b] => out do pure (toString (divRoundUp32 (← intOfTok a) (← intOfTok b)))
  | ["divru8", a, b] => out do pure (toString (divRoundUp (← intOfTok a) (← intOfTok b)))    -- 0 <= a, 0 < b <= 255: exact in int
  | ["divru16", a, b] => out do pure (toString (divRoundUp (← intOfTok a) (← intOfTok b)))
  | ["divrus8", a, b] => out do pure (toString (divRoundUp (← intOfTok a) (← intOfTok b)))
  | ["divrus16", a, b] => out do pure (toString (divRoundUp (← intOfTok a) (← intOfTok b)))
  | ["divru64", a, b] => out do pure (toString (divRoundUp (← intOfTok a) (← intOfTok b)))
  | ["srgb", x] => out do pure (tokOfF32 (linear_to_srgb (← f x)))
  | ["cvt", x] => out do pure (toString (cvt_uint32 rnd32 (← f x)))
  | ["cvt4", x, y, z, w] => out do pure (hex8 (cvt_uint32_vec rnd32 (← f x) (← f y) (← f z) (← f w)))
  | ["srgba", x, y, z, w] => out do
      let c := linear_to_srgba (← f x) (← f y) (← f z) (← f w)
      pure (showList [tokOfF32 c.1, tokOfF32 c.2.1, tokOfF32 c.2.2.1, tokOfF32 c.2.2.2])
  | ["srgba8", x, y, z, w] => out do pure (hex8 (linear_to_srgba8 rnd32 (← f x) (← f y) (← f z) (← f w)))
  | ["pcg", s, q, n] => out do
      let g := Pcg32.seed (← intOfTok s) (← intOfTok q)
      pure (showList ((g.draws (← n.toNat?)).map hex8))
  | ["biased", s, q, lo, hi, n] => out do
      pure (showList ((biasedStream (← intOfTok s) (← intOfTok q) (← f lo) (← f hi) (← n.toNat?)).map tokOfF32))
  | ["urdp", s, q, lo, hi, n] => out do
      pure (showList ((uniformStream (← intOfTok s) (← intOfTok q) (← f lo) (← f hi) (← n.toNat?)).map tokOfF32))
  | ["urd", l, u, gmin, gmax, g] => out do
      pure (tokOfF32 (uniform_real (← f l) (← f u) (← gmin.toNat?) (← gmax.toNat?) (← g.toNat?)))
  | ["urd2", l, u, gmin1, gmax1, g1, gmin2, gmax2, g2] => out do
      let a := uniform_real (← f l) (← f u) (← gmin1.toNat?) (← gmax1.toNat?) (← g1.toNat?)
      let b := uniform_real (← f l) (← f u) (← gmin2.toNat?) (← gmax2.toNat?) (← g2.toNat?)
      pure (showList [tokOfF32 a, tokOfF32 b, tokOfF32 a])
  | ["color", i] => out do
      let c : Float32 × Float32 × Float32 := makeRandomColor (← i.toNat?)
      pure (showList [tokOfF32 c.1, tokOfF32 c.2.1, tokOfF32 c.2.2])
  | _ => ((), "bad-op")

end C07Drv

def main (args : List String) : IO Unit :=
  Driver.run () (C07Drv.step (args.head? != some "nosimd"))
