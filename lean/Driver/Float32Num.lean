/- `CNum Float32`: the generated definitions executed on hardware single-precision floats, operation by
   operation as the C++ code does (std::min/std::max semantics included), for bit-exact comparison. -/
import RkVerif.Sem.CNum
import Driver.Common
open RkVerif

namespace Driver

instance instCNumFloat32 : CNum Float32 where
  add := (· + ·)
  sub := (· - ·)
  mul := (· * ·)
  div := (· / ·)
  neg := (- ·)
  mod a _ := a
  lt a b := a < b
  le a b := a ≤ b
  min a b := if b < a then b else a      -- std::min(a,b)
  max a b := if a < b then b else a      -- std::max(a,b)
  ofNat n := Float32.ofNat n
  ofScientific m s e := Float32.ofScientific m s e
  ofInt n := Float32.ofInt n
  toInt x := x.toInt64.toInt
  decLt := fun a b => inferInstanceAs (Decidable (a < b))
  decLe := fun a b => inferInstanceAs (Decidable (a ≤ b))
  beq a b := a == b
  abs := Float32.abs
  sqrt := Float32.sqrt
  sin := Float32.sin
  cos := Float32.cos
  tan := Float32.tan
  acos := Float32.acos
  asin := Float32.asin
  atan2 := Float32.atan2
  floor := Float32.floor
  pow := Float32.pow
  exp := Float32.exp
  posInf := Float32.ofBits 0x7F800000
  negInf := Float32.ofBits 0xFF800000
  pi := Float32.ofBits 0x40490FDB
  nan := Float32.ofBits 0x7FC00000
  ulp := Float32.ofBits 0x34000000
  fltMin := Float32.ofBits 0x00800000
  rcpEst x := 1 / x
  rsqrtEst x := 1 / Float32.sqrt x

def hexDigit (c : Char) : Option Nat :=
  if '0' ≤ c ∧ c ≤ '9' then some (c.toNat - '0'.toNat)
  else if 'a' ≤ c ∧ c ≤ 'f' then some (c.toNat - 'a'.toNat + 10)
  else none

def parseHex (s : String) : Option Nat :=
  s.toList.foldl (fun acc c => match acc, hexDigit c with
    | some a, some d => some (a * 16 + d)
    | _, _ => none) (some 0)

def hex8 (n : Nat) : String :=
  let ds := (Nat.toDigits 16 n)
  String.ofList (List.replicate (8 - ds.length) '0' ++ ds)

def f32OfTok (s : String) : Option Float32 := (parseHex s).map (fun n => Float32.ofBits n.toUInt32)
def tokOfF32 (x : Float32) : String := if x.isNaN then "nan" else hex8 x.toBits.toNat

def showOut : List (Float32 ⊕ Bool) → String
  | [] => "-"
  | l => " ".intercalate (l.map fun | .inl x => tokOfF32 x | .inr b => bit b)

end Driver
