/- Model driver for C18: same op lines and output format as harness/c18.cpp. -/
import RkVerif.Model.C18
import Driver.Common
open RkVerif.C18 Driver

structure St where
  al : Option (List Str) := none

def S? (tok : String) : Option Str :=
  match tok.toList with
  | '~' :: cs => some cs
  | _ => none

def q (s : Str) : String := "<" ++ String.ofList s ++ ">"

def showList (v : List Str) : String := toString v.length ++ ":" ++ String.join (v.map q)

def showFile (f : Str) : String :=
  q f ++ " p" ++ q (path f) ++ " b" ++ q (base f) ++ " n" ++ q (name f) ++ " e" ++ q (ext f) ++ " d" ++ q (dropExt f)

def allS (ws : List String) : Option (List Str) := ws.mapM S?

/-- `~name=count` (split at the last `=`) -/
def parseEntry (e : Str) : Option (Str × Nat) :=
  match splitLast '=' e with
  | some (n, c) => (String.ofList c).toNat?.map fun k => (n, k)
  | none => none

def tableFn (tbl : List (Str × Nat)) (a : Str) : Nat :=
  match tbl.find? (·.1 = a) with
  | some (_, k) => k
  | none => 0

def bad (s : St) : St × String := (s, "bad-op")

def stepSt (s : St) (ws : List String) : St × String :=
  match ws with
  | ["lbm", a, b] => match S? a, S? b with
      | some a, some b => (s, q (lbm a b))
      | _, _ => bad s
  | ["bw", a, b] => match S? a, S? b with
      | some a, some b => (s, bit (beginsWith a b))
      | _, _ => bad s
  | ["split1", a, d] => match S? a, S? d with
      | some a, some (d :: _) => (s, showList (split1 d a))
      | _, _ => bad s
  | ["splitset", a, ds, k] => match S? a, S? ds with
      | some a, some ds => (s, showList (splitSet ds (k == "1") a))
      | _, _ => bad s
  | ["tok", a, d] => match S? a, S? d with
      | some a, some (d :: _) => (s, showList (tokenize d a))
      | _, _ => bad s
  | "url" :: u :: names => match S? u, allS names with
      | some u, some names =>
        let url := parseURL u
        let probes := names.map fun n =>
          " " ++ bit (hasParam url.params n) ++ ":" ++ (match getValue url.params n with | some v => q v | none => "throw")
        (s, "t" ++ q url.type ++ " f" ++ q url.fileName ++ String.join probes)
      | _, _ => bad s
  | ["fn", a] | ["fnc", a] => match S? a with
      | some a => (s, showFile (mkFile a))
      | _ => bad s
  | ["fnset", a, e] => match S? a, S? e with
      | some a, some e => (s, showFile (setExt (mkFile a) e))
      | _, _ => bad s
  | ["fnset0", a] => match S? a with
      | some a => (s, showFile (setExt (mkFile a) []))
      | _ => bad s
  | ["fnadd", a, e] => match S? a, S? e with
      | some a, some e => (s, showFile (addExt (mkFile a) e))
      | _, _ => bad s
  | ["fnadd0", a] => match S? a with
      | some a => (s, showFile (addExt (mkFile a) []))
      | _ => bad s
  | ["fnplus", a, b] => match S? a, S? b with
      | some a, some b =>
        let fa := mkFile a; let fb := mkFile b
        (s, showFile (plus fa fb) ++ " eq" ++ bit (fa == fb) ++ bit (fa != fb))
      | _, _ => bad s
  | ["fnpluss", a, b] => match S? a, S? b with
      | some a, some b => (s, showFile (plus (mkFile a) (mkFile b)))
      | _, _ => bad s
  | ["fnempty"] => (s, showFile [])
  | "al_new" :: av => match allS av with
      | some av => ({ s with al := some (argsNew av) }, "ok")
      | none => bad s
  | ["al_size"] => match s.al with
      | some l => (s, toString l.length)
      | none => bad s
  | ["al_empty"] => match s.al with
      | some l => (s, bit l.isEmpty)
      | none => bad s
  | ["al_get", i] => match s.al, i.toInt? with
      | some l, some i => (s, if i < 0 then "throw" else match l[i.toNat]? with | some a => q a | none => "throw")
      | _, _ => bad s
  | ["al_rm", w, n] => match s.al, w.toNat?, n.toNat? with
      | some l, some w, some n => ({ s with al := some (remove l w n) }, "ok")
      | _, _, _ => bad s
  | ["al_rm", w] => match s.al, w.toNat? with
      | some l, some w => ({ s with al := some (remove l w 1) }, "ok")
      | _, _ => bad s
  | ["al_dump"] => match s.al with
      | some l => (s, showList l)
      | none => bad s
  | "al_parse" :: tbl => match s.al, (allS tbl).bind (·.mapM parseEntry) with
      | some l, some tbl =>
        let l' := parseAndRemove (tableFn tbl) l
        ({ s with al := some l' }, showList l')
      | _, _ => bad s
  | "rmargs" :: w :: h :: av => match w.toNat?, h.toNat?, allS av with
      | some w, some h, some av => (s, showList (removeArgs av w h))
      | _, _, _ => bad s
  | ["pn", n] => match n.toNat? with
      | some n => (s, q (prettyNumber n))
      | none => bad s
  | ["pd", m, e] => match m.toInt?, e.toInt? with
      | some m, some e => (s, q (prettyDouble ((m : Rat) * pow2 e)))
      | _, _ => bad s
  | _ => bad s

def main : IO Unit := Driver.run ({} : St) stepSt
