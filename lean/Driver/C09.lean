/- Model driver for C09: Optional<T> wrappers in slots 0..2 (payload T) and 3..4 (payload U,
   convertible to T), Any objects in slots 0..2.  Same op lines as harness/c09.cpp. -/
import RkVerif.Model.C09
import Driver.Common
open RkVerif.C09 Driver

structure St where
  ty : String := "int"
  tsize : Nat := 4
  talignExp : Nat := 2
  σ : World := {}
  env : List (String × Nat) := []
  α : AWorld := {}

def nSlots : Nat := 5

def hvString (σ : World) : String :=
  String.ofList ((List.range nSlots).map fun i =>
    match σ.w i with
    | none => '.'
    | some o => if o.hasValue then '1' else '0')

def liveCount (σ : World) : Nat :=
  (List.range nSlots).foldl (fun acc i => acc + (σ.born i - σ.died i)) 0

def errString (σ : World) : String :=
  if σ.errs.isEmpty then "-" else ",".intercalate (σ.errs.reverse.map fun e => reprStr e)

def tail (s : St) : String :=
  " hv=" ++ hvString s.σ ++ " live=" ++ (if s.ty = "trk" then toString (liveCount s.σ) else "-") ++
    " err=" ++ errString s.σ

def showVal : Option Val → String
  | some (.v n) => toString n
  | some .unspec => "?"
  | none => "raw"

def showCmp : Option CmpRes → Char
  | some (.b true) => '1'
  | some (.b false) => '0'
  | some .unspecified => '?'
  | none => 'E'

def allRels : List Rel := [.eq, .ne, .lt, .le, .gt, .ge]

def parseTag : String → Option Tag
  | "int" => some .int | "float" => some .float | "string" => some .string
  | "long" => some .long | "noeq" => some .noeq | "trk" => some .trk | "key" => some .key
  | _ => none

def tagName : Tag → String
  | .int => "int" | .float => "float" | .string => "string" | .long => "long" | .noeq => "noeq" | .trk => "trk" | .key => "key"

def avString (α : AWorld) : String :=
  String.ofList ((List.range 3).map fun i =>
    match α.a i with
    | none => '.'
    | some none => '0'
    | some (some _) => '1')

def aliveCount (α : AWorld) : Nat :=
  (List.range α.next).foldl (fun acc h => match α.heap h with
    | some (.trk, _) => acc + 1
    | _ => acc) 0

def atail (s : St) : String :=
  " v=" ++ avString s.α ++ " live=" ++ toString (aliveCount s.α) ++
    " err=" ++ (if s.α.errs.isEmpty then "-" else ",".intercalate (s.α.errs.reverse.map fun e => reprStr e))

/-- run a state-changing Optional op; "absent" when the objects it needs do not exist -/
def doOp (s : St) (need : List Nat) (op : Op) : St × String :=
  if need.all (present s.σ) then
    let s' := { s with σ := step s.σ op }
    (s', "ok" ++ tail s')
  else (s, "absent" ++ tail s)

def obs (s : St) (need : List Nat) (r : String) : St × String :=
  if need.all (present s.σ) then (s, r ++ tail s) else (s, "absent" ++ tail s)

def doA (s : St) (need : List Nat) (op : AOp) (res : String := "ok") : St × String :=
  if need.all (apresent s.α) then
    let s' := { s with α := astep s.α op }
    (s', res ++ atail s')
  else (s, "absent" ++ atail s)

def aobs (s : St) (need : List Nat) (r : String) : St × String :=
  if need.all (apresent s.α) then (s, r ++ atail s) else (s, "absent" ++ atail s)

def nat? (a : String) : Option Nat := a.toNat?

def stepSt (s : St) (ws : List String) : St × String :=
  match ws with
  | ["type", t, sz, al] =>
    match nat? sz, nat? al with
    | some sz, some al => ({ s with ty := t, tsize := sz, talignExp := al }, "ok")
    | _, _ => (s, "bad-op")
  | ["layout"] =>
    let t : Field := ⟨s.tsize, s.talignExp⟩
    -- struct Odd { char c; Optional<T> o; } at an address aligned for Odd (here 0)
    let addr := storageAddr 0 [⟨1, 0⟩] (optionalFields t)
    let optAl := (structField (optionalFields t)).align
    (s, "aligned=" ++ bit (addr % t.align == 0) ++ bit (optAl % t.align == 0))
  | ["env_unset", n] => ({ s with env := s.env.filter (·.1 ≠ n) }, "ok" ++ tail s)
  | [op, a] =>
    match nat? a with
    | none => (s, "bad-op")
    | some i =>
      match op with
      | "new" => doOp s [] (.ctorDefault i)
      | "del" => doOp s [i] (.dtor i)
      | "rst" => doOp s [i] (.reset i)
      | "empx" =>
        -- emplace whose payload constructor throws: `reset()` has happened, no payload was constructed
        if s.ty = "str" || s.ty = "trk" then
          (if i < 3 then
            (if present s.σ i then
              let s' := { s with σ := step s.σ (.reset i) }
              (s', "throw" ++ tail s')
             else (s, "absent" ++ tail s))
           else (s, "bad-op"))
        else (s, "bad-op")
      | "asown" =>
        -- `o = o.value()`: operator=(U&&) applied to the wrapper's own payload (same code path as `asv`)
        if present s.σ i then
          match obsHas s.σ i, obsValue s.σ i with
          | true, some (.v n) => doOp s [i] (.assignValue i n)
          | _, _ => (s, "noval" ++ tail s)
        else (s, "absent" ++ tail s)
      | "has" => obs s [i] (bit (obsHas s.σ i))
      | "bool" => obs s [i] (bit (obsHas s.σ i))
      | "get" | "arrow" => obs s [i] (if obsHas s.σ i then showVal (obsValue s.σ i) else "-")
      | "tostr" => obs s [i] "ok"
      | "anew" => doA s [] (.ctorDefault i)
      | "adel" => doA s [i] (.dtor i)
      | "avalid" => aobs s [i] (bit (anyValid s.α i))
      | "astr" => aobs s [i] (match anyToString s.α i with
          | some (some t) => "T:" ++ tagName t
          | some none => "empty"
          | none => "crash")
      | _ => (s, "bad-op")
  | [op, a, b] =>
    if op = "env_get" then
      match nat? a with
      | some i => let s' := { s with σ := getEnvVar s.σ s.env i b }; (s', "ok" ++ tail s')
      | none => (s, "bad-op")
    else if op = "env_set" then
      match nat? b with
      | some k => ({ s with env := (a, k) :: s.env.filter (·.1 ≠ a) }, "ok" ++ tail s)
      | none => (s, "bad-op")
    else if op = "ais" || op = "aget" then
      match nat? a, parseTag b with
      | some i, some t =>
        if op = "ais" then aobs s [i] (bit (anyIs s.α i t))
        else aobs s [i] (match anyGet s.α i t with
          | .ok x => toString x
          | .throws => "throw"
          | .crash => "crash")
      | _, _ => (s, "bad-op")
    else
    match nat? a, nat? b with
    | some i, some j =>
      match op with
      | "newv" => doOp s [] (.ctorValue i j)
      | "mk" => doOp s [] (.makeOptional i j)
      | "newc" | "newcu" => if i = j then (s, "bad-op") else doOp s [j] (.ctorCopy i j)
      | "newm" | "newmu" => if i = j then (s, "bad-op") else doOp s [j] (.ctorMove i j)
      | "asv" | "asvr" | "asvu" => doOp s [i] (.assignValue i j)
      | "asc" | "ascu" => doOp s [i, j] (.copyAssign i j)
      | "asm" => if i = j then (s, "bad-op") else doOp s [i, j] (.moveAssign i j)
      | "asmu" => if i = j then (s, "bad-op") else doOp s [i, j] (.convMoveAssign i j)
      | "emp" => doOp s [i] (.emplace i j)
      | "vor" => obs s [i] (showVal (obsValueOr s.σ i (.v j)))
      | "cmp" | "cmpu" => obs s [i, j] (String.ofList (allRels.map fun r => showCmp (obsCmp s.σ r i j)))
      | "acopy" => if i = j then (s, "bad-op") else doA s [j] (.ctorCopy i j)
      | "aasg" => doA s [i, j] (.assign i j)
      | "aeq" => aobs s [i, j] (match anyEq s.α i j with
          | some r => bit r ++ bit (!r)
          | none => "crash")
      | _ => (s, "bad-op")
    | _, _ => (s, "bad-op")
  | [op, a, t, k] =>
    match nat? a, parseTag t, nat? k with
    | some i, some t, some k =>
      match op with
      | "anewv" => doA s [] (.ctorValue i t k)
      | "aasv" => doA s [i] (.assignValue i t k)
      | "amut" => doA s [i] (.mutate i t k) (if anyIs s.α i t then "ok" else "throw")
      | _ => (s, "bad-op")
    | _, _, _ => (s, "bad-op")
  | ["end"] =>
    let σ := destroyAll s.σ (List.range nSlots)
    let α := (List.range 3).foldl adtor s.α
    let s' := { s with σ := σ, α := α }
    (s', if s.ty = "any" then "end" ++ atail s' else "end" ++ tail s')
  | _ => (s, "bad-op")

def main : IO Unit := Driver.run ({} : St) stepSt
