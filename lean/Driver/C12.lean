/- Model driver for C12: TransactionalBuffer / TransactionalValue.
   Single-threaded op lines are executed with the model's methods (`BSys.exec`, `TVal.*`).
   `mt_buf` / `mt_val` lines (multi-threaded runs on the real code) are answered by running the
   concurrent model (`BSys.step`, `VSys.step`) under a pseudo-random schedule derived from the
   line's seed and evaluating the same oracle as the harness; the summary line is the one the
   theorems tbuf_exactly_once / tval_sequence / tval_final guarantee for every schedule. -/
import RkVerif.Model.C12
import Driver.Common
open RkVerif.C12 Driver

structure St where
  buf : BSys Nat Nat := {}
  tv : TVal Nat := {}
  kind : String := "i"

/-- token of the value-initialised payload (`assignz`): printed as 0 for int, as "unset" (empty) for the others -/
def zeroTok : Nat := 1000000007

def showElems (l : List (Nat × Nat)) : String :=
  if l.isEmpty then "-" else " ".intercalate (l.map fun (p, x) => toString p ++ "." ++ toString x)

def showVal : Option Nat → String
  | some v => toString v
  | none => "unset"

def lcg (x : UInt64) : UInt64 := x * 6364136223846793005 + 1442695040888963407

/-- Concurrent TransactionalBuffer model under a pseudo-random schedule. `next[p]` = next sequence
    number of producer p. -/
def simBuf (P N : Nat) : Nat → UInt64 → List Nat → BSys Nat Nat → BSys Nat Nat
  | 0, _, next, s =>
    -- out of schedule: every producer finishes, then the final consume
    let s := (List.range P).foldl (fun s p =>
      (List.range (N - next.getD p 0)).foldl (fun s i => s.step (.push p (next.getD p 0 + i))) s) s
    s.step .consume
  | fuel + 1, r, next, s =>
    let r := lcg r
    let c := (r >>> 33).toNat % (P + 2)
    if c < P then
      let k := next.getD c 0
      if k < N then simBuf P N fuel r (next.set c (k + 1)) (s.step (.push c k))
      else simBuf P N fuel r next s
    else if c = P then simBuf P N fuel r next (s.step .consume)
    else simBuf P N fuel r next (s.step .size)

def bufOracle (P N : Nat) (s : BSys Nat Nat) : Bool :=
  s.buf.buffer.isEmpty &&
  (List.range P).all fun p => ((s.batches.flatten.filter fun e => e.1 == p).map (·.2)) == List.range N

/-- Concurrent TransactionalValue model under a pseudo-random schedule; the producer assigns 1..N. -/
def simVal (N : Nat) : Nat → UInt64 → Nat → VSys Nat → VSys Nat
  | 0, _, next, s =>
    let s := (List.range (N + 1 - next)).foldl (fun s i => s.step (.assign (next + i))) s
    (finishUpdate s).step .get
  | fuel + 1, r, next, s =>
    let r := lcg r
    let c := (r >>> 33).toNat % 4
    if c = 0 then
      if next ≤ N then simVal N fuel r (next + 1) (s.step (.assign next)) else simVal N fuel r next s
    else if c = 1 then simVal N fuel r next (s.step .updRead)
    else if c = 2 then simVal N fuel r next (s.step .updInstall)
    else simVal N fuel r next (s.step .get)

def valOracle (N : Nat) (s : VSys Nat) : Bool :=
  s.tv.get == some N &&
  (s.log.all fun o => match o with
    | .upd r kb ka _ => r == decide (kb < ka)
    | .got k v => v == (if k = 0 then some 0 else some k)) &&
  -- non-decreasing coverage
  (((s.log.map Obs.k).zip ((s.log.map Obs.k).drop 1)).all fun (a, b) => decide (a ≤ b))

def stepSt (s : St) : List String → St × String
  | ["tb_new", k] => ({ s with buf := {}, kind := k }, "ok")
  | ["push_fail", _, _] => (s, if s.kind == "i" then "bad-op" else "bad_alloc")
  | ["push", p, x] | ["pushm", p, x] | ["pushl", p, x] =>
      match p.toNat?, x.toNat? with
      | some p, some x => ({ s with buf := (s.buf.exec (.push p x)).1 }, "ok")
      | _, _ => (s, "bad-op")
  | ["consume"] =>
      match s.buf.exec .consume with
      | (b, .batch l) => ({ s with buf := b }, showElems l)
      | (b, _) => ({ s with buf := b }, "model-bug")
  | ["size"] =>
      match s.buf.exec .size with
      | (_, .nat n) => (s, toString n)
      | _ => (s, "model-bug")
  | ["empty"] =>
      match s.buf.exec .empty with
      | (_, .bool b) => (s, bit b)
      | _ => (s, "model-bug")
  | ["tv_new", k, c0] => ({ s with tv := { current := c0.toNat? }, kind := k }, "ok")
  | ["assign_fail", _] => (s, if s.kind == "w" then "bad_alloc" else "bad-op")   -- the failed assignment is a no-op
  | ["assignz"] => ({ s with tv := s.tv.assign zeroTok }, "ok")
  | ["assign", x] =>
      match x.toNat? with
      | some x => ({ s with tv := s.tv.assign x }, "ok")
      | none => (s, "bad-op")
  | ["update"] => let (t, r) := s.tv.update; ({ s with tv := t }, bit r)
  | ["get"] => (s, if s.tv.get == some zeroTok then (if s.kind == "i" then "0" else "unset") else showVal s.tv.get)
  | ["ref"] => (s, if s.tv.get == some zeroTok then (if s.kind == "i" then "0" else "unset") else showVal s.tv.get)
  | ["mt_buf", _, p, n, _, seed] =>
      match p.toNat?, n.toNat?, seed.toNat? with
      | some P, some N, some sd =>
        let N' := min N 40
        let fin := simBuf P N' (3 * P * N' + 7) (UInt64.ofNat sd) (List.replicate P 0) {}
        (s, if bufOracle P N' fin then "ok total=" ++ toString (P * N) else "model-fail")
      | _, _, _ => (s, "bad-op")
  | ["mt_val", _, n, _, seed] =>
      match n.toNat?, seed.toNat? with
      | some N, some sd =>
        let N' := min N 60
        let fin := simVal N' (5 * N' + 7) (UInt64.ofNat sd) 1 (VSys.init (some 0))
        (s, if valOracle N' fin then "ok last=" ++ toString N else "model-fail")
      | _, _ => (s, "bad-op")
  | _ => (s, "bad-op")

def main : IO Unit := Driver.run ({} : St) stepSt
