/- Model driver for C13: initTaskingSystem / numTaskingThreads / parallel_for concurrency bound.
   argv: <backend: tbb|omp|internal|debug> <hw: the machine's hardware thread count (> 0)>.
   Same op lines and output lines as harness/c13.cpp. -/
import RkVerif.Model.C13
import Driver.Common
open RkVerif.C13 Driver

structure DSt where
  st : St := {}
  last : Option Int := none     -- n of the most recent `init`

def verdict (b : Backend) (hw : Nat) (d : DSt) (size : Nat) : String :=
  let le := match limitOf b hw (parallelFor b hw d.st) d.last with
    | none => true
    | some l => decide (maxConcurrency b hw d.st size ≤ l)
  "le=" ++ bit le ++ " all=1"

def backendName : Backend → String
  | .tbb => "tbb" | .omp => "omp" | .internal => "internal" | .debug => "debug"

/- `tnum` / `tpfor`: the property speaks about the process (g_tasking_handle is process-wide), so the
   expected observation on another thread is the one of `num` / `pfor` (what the OpenMP backend
   really does there: `numTaskingThreadsOn`, known finding C13-omp-limit-per-thread). -/
def stepD (b : Backend) (hw : Nat) (d : DSt) : List String → DSt × String
  | "init" :: n :: _ =>
    match n.toInt? with
    | some n => ({ st := step b hw d.st (.init n), last := some n }, "ok")
    | none => (d, "bad-op")
  | ["num"] =>
    let v := numTaskingThreads b hw d.st
    match d.last with
    | some n => if n ≤ 0 then (d, if v > 0 then "pos" else "nonpos") else (d, toString v)
    | none => (d, toString v)
  | ["pfor", size, _] =>
    match size.toNat? with
    | some sz => ({ d with st := step b hw d.st .pfor }, verdict b hw d sz)
    | none => (d, "bad-op")
  | ["nest", a, c, _] =>
    match a.toNat?, c.toNat? with
    | some a, some c => ({ d with st := step b hw d.st .pfor }, verdict b hw d (a * c))
    | _, _ => (d, "bad-op")
  | _ => (d, "bad-op")

def stepT (b : Backend) (hw : Nat) (d : DSt) : List String → DSt × String
  | "tnum" :: rest => let (d', o) := stepD b hw d ("num" :: rest); (d', backendName b ++ " " ++ o)
  | "tpfor" :: rest => let (d', o) := stepD b hw d ("pfor" :: rest); (d', backendName b ++ " " ++ o)
  | ws => stepD b hw d ws

def main (args : List String) : IO UInt32 := do
  let b? : Option Backend := match args.head? with
    | some "tbb" => some .tbb
    | some "omp" => some .omp
    | some "internal" => some .internal
    | some "debug" => some .debug
    | _ => none
  let hw := (args.getD 1 "").toNat?.getD 0
  match b? with
  | some b =>
    if hw = 0 then
      IO.eprintln "drv_c13: hw must be a positive number"
      return 2
    Driver.run ({} : DSt) (stepT b hw)
    return 0
  | none =>
    IO.eprintln "usage: drv_c13 <tbb|omp|internal|debug> <hw>"
    return 2
