/- Model driver for C01.
   argv: <backend: tbb|omp|internal|debug>.
   Same op lines and output lines as harness/c01.cpp (see there); additionally the trace ops
   `tinit T / A id size minr / X id th s e i|r / F id th s e / W id / tend` which replay an event list
   observed on the real enki::TaskScheduler through `step false` (output `ok` or `invalid: …`). -/
import RkVerif.Model.C01
import Driver.Common
open RkVerif.C01 Driver

structure DSt where
  threads : Nat := 4
  room : Nat := 1000000000      -- free slots in the calling thread's pipe (256 - fillers while `fillpipe` is active)
  -- trace replay
  ts : State := init
  tthreads : Nat := 1
  tbad : Bool := false

def tyOf (name : String) : Option CTy := (indexTypes.find? (·.1 == name)).map (·.2)

/-- once / extra over the list of indices the body was called with, for the range [0,n) -/
def judge (n : Int) (calls : List Int) : Bool × Bool := Id.run do
  let sz := n.toNat
  let mut cnt : Array Nat := Array.replicate sz 0
  let mut extra := false
  for c in calls do
    if 0 ≤ c ∧ c < n then cnt := cnt.modify c.toNat (· + 1) else extra := true
  (cnt.all (· == 1), extra)

def obsLine (once extra : Bool) : String :=
  -- `complete` (the join): in the model the caller continues only in a state in which every body has run
  "once=" ++ bit once ++ " extra=" ++ bit extra ++ " complete=" ++ bit once

def pforLine (b : Backend) (d : DSt) (T : CTy) (n : Int) : String :=
  match dispatch b d.threads d.room T n with
  | some calls => let (o, e) := judge n calls; obsLine o e
  | none => "model-undefined"

def blocksLine (L : List (Int × Int)) (n bs : Int) : String := Id.run do
  let mut partition := true
  let mut maxblock := true
  let mut extra := false
  let mut at_ : Int := 0
  for (b, e) in L do
    if b < 0 ∨ e > (if n > 0 then n else 0) then extra := true
    if e - b > bs then maxblock := false
    if ¬ (b < e) ∨ b ≠ at_ then partition := false
    at_ := e
  if n ≤ 0 then partition := L.isEmpty
  else if at_ ≠ n then partition := false
  "partition=" ++ bit partition ++ " maxblock=" ++ bit maxblock ++ " extra=" ++ bit extra

/-- storage layout of the harness's containers (sizes in bytes are immaterial, only the chunking is) -/
def layout (cont : String) (n : Nat) : List Chunk :=
  if cont == "deq" then
    (List.range ((n + 31) / 32)).map fun c => ⟨100000 + c * 4096, if (c + 1) * 32 ≤ n then 32 else n - c * 32⟩
  else [⟨100000, n⟩]

def foreachLine (b : Backend) (d : DSt) (cont : String) (n : Nat) : String :=
  let chunks := layout cont n
  let want := rangeAddrs 16 chunks
  match dispatch b d.threads d.room u64 (Int.ofNat n) with
  | some calls =>
    let addrs := calls.map fun i => iterAt 16 chunks i.toNat
    -- map every visited address back to its position in the range
    let pos : List Int := addrs.map fun a =>
      match a with
      | some a => match want.findIdx? (· == a) with
        | some k => Int.ofNat k
        | none => -1
      | none => -1
    let (o, e) := judge (Int.ofNat n) pos
    obsLine o e
  | none => "model-undefined"

/-- faster variant of the position lookup for large single-chunk ranges: positions are the indices -/
def foreachLineFast (b : Backend) (d : DSt) (cont : String) (n : Nat) : String :=
  let chunks := layout cont n
  match dispatch b d.threads d.room u64 (Int.ofNat n) with
  | some calls =>
    -- iterAt must agree with the i-th address of the range (foreach_addresses); check it while mapping
    let want := (rangeAddrs 16 chunks).toArray
    let pos : List Int := calls.map fun i =>
      match iterAt 16 chunks i.toNat with
      | some a => if want[i.toNat]? == some a then i else -1
      | none => -1
    let (o, e) := judge (Int.ofNat n) pos
    obsLine o e
  | none => "model-undefined"

def pipeLine (readers n : Nat) : String := Id.run do
  -- canonical run of the pipe model: 8 slots, round-robin readers
  let mut s := pinit
  let mut ok := true
  for i in [0:n] do
    let k := i % 8
    let r := i % (readers + 1)
    for a in [PAct.wBuf k, .wFlag, .cas r k, .copy r, .release r] do
      match pstep s a with
      | some s' => s := s'
      | none => ok := false
  let claimed := s.claimed.toArray.qsort (· < ·)
  let mut once := true
  for i in [1:claimed.size] do
    if claimed[i]! == claimed[i-1]! then once := false
  let all := claimed.size == n
  let intact := s.out.all fun cv => cv.1 == cv.2
  if ok then "claimed_once=" ++ bit once ++ " all=" ++ bit all ++ " intact=" ++ bit intact else "model-undefined"

/-! ### trace replay -/

def findIdx {α : Type} (l : List α) (p : α → Bool) : Option Nat := l.findIdx? p

/-- apply actions; `none` as soon as one is not enabled -/
def applyAll (s : State) (acts : List Act) : Option State := run false s acts

/-- drive job `k` (moved to the head by its first step) until it is finished, pushing every piece -/
partial def finishJob (s : State) (k : Nat) : Option State :=
  match pick s.jobs k with
  | some (j, _) =>
    if j.pend.isSome then (step false s (.push k)).bind (finishJob · 0)
    else if j.s ≠ j.e then (step false s (.take k)).bind (finishJob · 0)
    else step false s (.jobDone k)
  | none => none

/-- does the partition the job's `cont` (TryRunTask's taskToRun) start at `a`? -/
def contStartsAt (j : Job) (a : Nat) : Bool :=
  match j.cont with
  | some c => c.s == a
  | none => false

/-- Index `a` of the set lies in the remaining range of job `k` (no pending piece). Make the partition
    that starts at `a` in flight. `inl`: the real code ran it from inside AddTaskSetToPipe (pipe-full
    branch of the initial SplitAndAddTask); otherwise it came through TryRunTask. -/
partial def viaJob (s : State) (k a : Nat) (inl : Bool) : Except String State :=
  match pick s.jobs k with
  | some (j, _) =>
    if j.pend.isSome then .error "activation has a pending piece"
    else if ¬ (j.s ≤ a ∧ a < j.e) then .error s!"index {a} not in the activation's range"
    else
      let (p, _) := splitTask j.tid j.s j.e j.rts
      if a ≥ p.e then
        -- an earlier piece: pushed
        match (step false s (.take k)).bind (step false · (.push 0)) with
        | some s' => viaJob s' 0 a inl
        | none => .error "take/push not enabled"
      else if p.s = a ∧ (j.cont.isSome ∨ inl) then
        -- pipe-full branch (for a TryRunTask activation rangeToSplit = m_RangeToRun: same partition either way)
        match (step false s (.take k)).bind (step false · (.inline 0)) with
        | some s' => .ok s'
        | none => .error "take/inline not enabled"
      else if j.cont.isNone ∧ ¬ inl then
        -- piece of the initial split that was pushed and then obtained by TryRunTask
        match ((step false s (.take k)).bind (step false · (.push 0))).bind (step false · (.pop 0)) with
        | some s' =>
          match s'.jobs with
          | j' :: _ =>
            if j'.tid = j.tid ∧ j'.cont.isSome ∧ j'.e = p.e then
              if contStartsAt j' a then
                match finishJob s' 0 with
                | some s'' => .ok s''
                | none => .error "cannot finish the SplitAndAddTask activation"
              else viaJob s' 0 a inl
            else .ok s'   -- the piece went in flight as a whole
          | [] => .ok s'
        | none => .error "take/push/pop not enabled"
      else .error s!"index {a} is inside a piece that was run from AddTaskSetToPipe"
  | none => .error "no such activation"

/-- make the observed partition (id, a, b) in flight by admissible steps -/
def explainX (s : State) (id a b : Nat) (inl : Bool) : Except String State := do
  let isP (p : Part) : Bool := p.tid == id && p.s == a && p.e == b
  if s.inflight.any isP then return s
  -- taskToRun of a TryRunTask activation: SplitAndAddTask returns first
  let s1 ← match findIdx s.jobs (fun j => j.tid == id && contStartsAt j a) with
    | some k => match finishJob s k with
      | some s' => pure s'
      | none => throw "cannot finish the SplitAndAddTask activation"
    | none =>
      match findIdx s.jobs (fun j => j.tid == id && j.pend.isNone && j.s ≤ a && a < j.e) with
      | some k => viaJob s k a inl
      | none =>
        -- inside a queued partition: TryRunTask pops it
        match findIdx s.queued (fun q => q.tid == id && q.s ≤ a && a < q.e) with
        | some k =>
          match step false s (.pop k) with
          | some s' =>
            if s'.inflight.any isP then pure s'
            else match s'.jobs with
              | j :: _ =>
                if contStartsAt j a then
                  match finishJob s' 0 with
                  | some s'' => pure s''
                  | none => throw "cannot finish the SplitAndAddTask activation"
                else viaJob s' 0 a false
              | [] => throw "popped partition does not match"
          | none => throw "pop not enabled"
        | none => throw s!"index {a} of set {id} is not available (already executed or out of range)"
  if s1.inflight.any isP then return s1
  throw s!"partition [{a},{b}) of set {id} is not a partition of the model"

/-- ExecuteRange returns: the body has been called for every index, then AtomicAdd(-1) -/
partial def execAll (s : State) (k : Nat) : Option State :=
  match pick s.inflight k with
  | some (p, _) => if p.s < p.e then (step false s (.exec k)).bind (execAll · 0) else step false s (.finish k)
  | none => none

/-- WaitforTask(id) returned: finish activations of `id` that have nothing left to split, then the
    waiter's condition must hold -/
partial def settle (s : State) (id : Nat) : State :=
  match findIdx s.jobs (fun j => j.tid == id && j.pend.isNone && j.s == j.e) with
  | some k => match step false s (.jobDone k) with
    | some s' => settle s' id
    | none => s
  | none => s

def traceStep (d : DSt) (ws : List String) : DSt × String :=
  let fail (msg : String) : DSt × String := ({ d with tbad := true }, "invalid: " ++ msg)
  if d.tbad && ws.head? != some "tinit" then (d, "invalid: earlier event") else
  match ws with
  | ["tinit", t] => ({ d with ts := init, tthreads := t.toNat!, tbad := false }, "ok")
  | ["A", id, size, minr] =>
    if id.toNat! ≠ d.ts.nsets then fail "set ids out of order" else
    match step false d.ts (.add size.toNat! minr.toNat! (numPartitions d.tthreads) (numInitialPartitions d.tthreads)) with
    | some s => ({ d with ts := s }, "ok")
    | none => fail "add"
  | ["X", id, th, a, b, mode] =>
    if th.toNat! ≥ d.tthreads then fail "thread number out of range" else
    match explainX d.ts id.toNat! a.toNat! b.toNat! (mode == "i") with
    | .ok s => ({ d with ts := s }, "ok")
    | .error e => fail e
  | ["F", id, _, a, b] =>
    let (id, a, b) := (id.toNat!, a.toNat!, b.toNat!)
    match findIdx d.ts.inflight (fun p => p.tid == id && p.s == a && p.e == b) with
    | some k => match execAll d.ts k with
      | some s => ({ d with ts := s }, "ok")
      | none => fail "exec/finish not enabled"
    | none => fail "F without X"
  | ["W", id] =>
    let s := settle d.ts id.toNat!
    if waitMayReturn s id.toNat! then ({ d with ts := s }, "ok")
    else fail s!"WaitforTask({id}) returned although the model's set is not complete (count = {s.count id.toNat!})"
  | ["tend"] =>
    let s := d.ts
    let allDone := (List.range s.nsets).all fun t => decide (waitMayReturn s t)
    let total := (List.range s.nsets).foldl (fun acc t => acc + s.size t) 0
    if allDone && s.executed.length == total && s.jobs.isEmpty && s.queued.isEmpty && s.inflight.isEmpty
    then (d, "ok") else fail "at the end not every set is complete"
  | _ => fail "bad trace line"

def stepD (b : Backend) (d : DSt) (ws : List String) : DSt × String :=
  match ws with
  | ["init", t] =>
    match t.toInt? with
    | some t => ({ d with threads := if t > 0 then t.toNat else 4 }, "ok")
    | none => (d, "bad-op")
  | ["pfor", ty, n, _] =>
    match tyOf ty, n.toInt? with
    | some T, some n => (d, pforLine b d T n)
    | _, _ => (d, "bad-op")
  | ["pforthrow", _ty, _n, _k] => (d, "caught")   -- the body's exception reaches the caller; no state is left behind
  | ["sfor", ty, n] =>
    match tyOf ty, n.toInt? with
    | some T, some n =>
      match serialLoop T n with
      | some calls => let (o, e) := judge n calls; (d, obsLine o e)
      | none => (d, "model-undefined")
    | _, _ => (d, "bad-op")
  | ["pnest", ty, n, ty2, m] =>
    match tyOf ty, n.toInt?, tyOf ty2, m.toInt? with
    | some T, some n, some T2, some m =>
      match dispatch b d.threads d.room T n, dispatch b d.threads d.room T2 m with
      | some co, some ci =>
        let (oo, eo) := judge n co
        let (oi, ei) := judge m ci
        -- the inner loop runs once per outer call
        let anyOuter := !co.isEmpty
        (d, obsLine (oo && (!anyOuter || oi)) (eo || (anyOuter && ei)))
      | _, _ => (d, "model-undefined")
    | _, _, _, _ => (d, "bad-op")
  | ["pblocks", ty, bs, n] =>
    match tyOf ty, bs.toInt?, n.toInt? with
    | some T, some bs, some n =>
      -- blockIDs 0 … numBlocks-1: what parallel_for hands out (dispatch on numBlocks)
      match numBlocks T n bs with
      | some nb =>
        match dispatch b d.threads d.room T nb with
        | some ids =>
          let bl := ids.map fun k => match blockBegin T bs k with
            | some bg => match blockEnd T n bs bg with
              | some en => some (bg, en)
              | none => none
            | none => none
          if bl.all Option.isSome then
            let L := (bl.filterMap id).toArray.qsort (fun x y => x.1 < y.1) |>.toList
            (d, blocksLine L n bs)
          else (d, "model-undefined")
        | none => (d, "model-undefined")
      | none => (d, "model-undefined")
    | _, _, _ => (d, "bad-op")
  | ["pforeach", cont, n] =>
    match n.toInt? with
    | some n => (d, if cont == "deq" && n.toNat ≤ 3000 then foreachLine b d cont n.toNat else foreachLineFast b d cont n.toNat)
    | none => (d, "bad-op")
  | ["pforbig", ty, n] =>
    match tyOf ty, n.toInt? with
    | some T, some n =>
      match b with
      | .internal =>
        match internalSets n with
        | some sets =>
          let count := sets.foldl (fun acc fs => acc + fs.2) 0
          -- Σ over the sets of Σ_{i<size} INDEX_T(first + i)  (conversion exact: internal_index_roundtrip)
          let sum := sets.foldl (fun acc fs => acc + fs.1 * fs.2 + fs.2 * (fs.2 - 1) / 2) 0
          let inT := sets.all fun fs => internalIndex T fs.1 (fs.2 - 1) == fs.1 + fs.2 - 1
          (d, "count=" ++ bit (count == n) ++ " sum=" ++ bit (sum == n * (n - 1) / 2) ++ " extra=" ++ bit (!inT))
        | none => (d, "model-undefined")
      | _ => (d, "count=1 sum=1 extra=0")
    | _, _ => (d, "bad-op")
  | ["fillpipe", k] =>
    match k.toNat? with
    | some k => (if b == .internal then { d with room := 256 - k } else d, "ok")
    | none => (d, "bad-op")
  | ["release"] =>
    -- every filler / blocker is a 1-index task set: one canonical run each
    let ok := match runSet d.threads 0 1 with
      | some [0] => true
      | _ => false
    ({ d with room := 1000000000 }, "fill_once=" ++ bit ok)
  | ["pipe", r, n] =>
    match r.toNat?, n.toNat? with
    | some r, some n => (d, pipeLine r n)
    | _, _ => (d, "bad-op")
  | _ => traceStep d ws

def main (args : List String) : IO UInt32 := do
  let b? : Option Backend := match args.head? with
    | some "tbb" => some .tbb
    | some "omp" => some .omp
    | some "internal" => some .internal
    | some "debug" => some .debug
    | _ => none
  match b? with
  | some b =>
    Driver.run ({} : DSt) (stepD b)
    return 0
  | none =>
    IO.eprintln "drv_c01: argv[1] must be tbb|omp|internal|debug"
    return 2
