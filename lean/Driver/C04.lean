/- Model driver for C04: translator-generated vec.h definitions evaluated at Float32 ("f" lines) and at
   32-bit integers ("i" lines). -/
import RkVerif.Gen.C04Dispatch
import RkVerif.Gen.C04IDispatch
import Driver.Float32Num
import Driver.Int32Num
open Driver

def showOutI : List (Int ⊕ Bool) → String
  | [] => "-"
  | l => " ".intercalate (l.map fun | .inl x => tokOfI32 x | .inr b => bit b)

def stepC04 (_ : Unit) : List String → Unit × String
  | "f" :: name :: args =>
    match args.mapM f32OfTok with
    | some xs =>
      match RkVerif.Gen.C04.dispatch (α := Float32) name xs.toArray with
      | some out => ((), showOut out)
      | none => ((), "bad-op")
    | none => ((), "bad-arg")
  | "i" :: name :: args =>
    match args.mapM i32OfTok with
    | some xs =>
      letI := instCNumInt32
      match RkVerif.Gen.C04I.dispatch (α := Int) name xs.toArray with
      | some out => ((), showOutI out)
      | none => ((), "bad-op")
    | none => ((), "bad-arg")
  | _ => ((), "bad-op")

def main : IO Unit := Driver.run () stepC04
