/- Model driver for C08: IntrusivePtr / RefCountedObject histories.
   Cells: b0..b3 = 0..3 (Ref<Base>), d0 d1 = 4 5 (Ref<Node>), tmp = 6, thread slots
   t<i>s<j> = 7 + 4*(i-1) + j (i = 1..4, j = 0..3), m<k> = member handle of object k.
   Thread 0 runs the sequential history; `tp`/`mtrun` run threads 1..4 round-robin, one atomic
   step at a time. -/
import RkVerif.Model.C08
import Driver.Common
open RkVerif.C08 Driver

def NS : Nat := 23
def NT : Nat := 5
def TMP : Nat := 6

structure St where
  s : State := init NS NT
  progs : List (Nat × List Op) := []
  bad : Bool := false

def parseLoc (s : State) (w : String) : Option Nat :=
  let cs := w.toList
  match cs with
  | 'b' :: r => (String.ofList r).toNat?
  | 'd' :: r => (String.ofList r).toNat?.map (· + 4)
  | 'm' :: r => match (String.ofList r).toNat? with
      | some k => s.objs[k]?.map (·.mcell)
      | none => none
  | 't' :: r =>
      match (String.ofList r).splitOn "s" with
      | [a, b] => match a.toNat?, b.toNat? with
          | some i, some j => some (7 + 4 * (i - 1) + j)
          | _, _ => none
      | _ => none
  | _ => none

def parseOp (s : State) : List String → Option Op
  | ["new"] => some (.new (s.objs.length + 1))
  | ["ctor_def", x] => (parseLoc s x).map .ctorDef
  | ["ctor_copy", x, y] => do some (.ctorCopy (← parseLoc s x) (← parseLoc s y))
  | ["ctor_conv", x, y] => do some (.ctorCopy (← parseLoc s x) (← parseLoc s y))
  | ["ctor_move", x, y] => do some (.ctorMove (← parseLoc s x) (← parseLoc s y))
  | ["ctor_raw", x, k] => do some (.ctorRaw (← parseLoc s x) (some (← k.toNat?)))
  | ["ctor_rawnull", x] => do some (.ctorRaw (← parseLoc s x) none)
  | ["dtor", x] => (parseLoc s x).map .dtor
  | ["copy", x, y] => do some (.copy (← parseLoc s x) (← parseLoc s y))
  | ["move", x, y] => do some (.move (← parseLoc s x) (← parseLoc s y))
  | ["conv", x, y] => do some (.conv (← parseLoc s x) (← parseLoc s y) TMP)
  | ["raw", x, k] => do some (.raw (← parseLoc s x) (some (← k.toNat?)))
  | ["null", x] => do some (.raw (← parseLoc s x) none)
  | ["inc", k] => k.toNat?.map .refInc
  | ["dec", k] => k.toNat?.map .refDec
  | _ => none

def showOpt : Option Nat → String
  | some v => toString v
  | none => "-"

def showCell (s : State) (x : Nat) : String :=
  match cell s x with
  | none => "x"
  | some h => showOpt h.ptr

def pairs : List (Nat × Nat) := [(0, 1), (0, 2), (0, 3), (1, 2), (1, 3), (2, 3), (4, 5)]

def showState (s : State) : String :=
  let n := s.objs.length
  let ids := List.range n
  let c := ids.map fun o => if aliveOf s o then toString (countOf s o) else "-"
  let d := ids.map fun o => toString (destroyedOf s o)
  let h := (List.range NS).map (showCell s)
  let m := ids.map fun o => match s.objs[o]? with
    | some ob => showCell s ob.mcell
    | none => "?"
  let e := pairs.map fun (x, y) =>
    match cell s x, cell s y with
    | some _, some _ => bit (eqH s x y)
    | _, _ => "x"
  "c=" ++ ",".intercalate c ++ " d=" ++ ",".intercalate d ++ " h=" ++ ",".intercalate h ++
    " m=" ++ ",".intercalate m ++ " e=" ++ "".intercalate e

/-- threads 1.. start their next operation when idle, then everybody takes one step -/
def mtLoop (s : State) (progs : List (Nat × List Op)) : Nat → Option State
  | 0 => none
  | fuel + 1 =>
    -- start next op of every idle thread that still has one
    let (s1, progs1) := progs.foldl (fun (acc : State × List (Nat × List Op)) (p : Nat × List Op) =>
      let (sa, ps) := acc
      match p with
      | (t, op :: rest) =>
        if (nextStep sa t).isNone then (start sa t op, ps ++ [(t, rest)]) else (sa, ps ++ [p])
      | (_, []) => (sa, ps ++ [p])) (s, [])
    let busy := (List.range NT).any (fun t => t != 0 && (nextStep s1 t).isSome)
    if !busy then some s1
    else
      let r := (List.range NT).foldl (fun (acc : Option State) t =>
        match acc with
        | none => none
        | some s' =>
          if t == 0 then some s' else
          match nextStep s' t with
          | some ms => if guard s' t ms then some (micro s' t) else none
          | none => some s') (some s1)
      match r with
      | none => none
      | some s' => mtLoop s' progs1 fuel

def splitWord (w : String) : List String := w.splitOn ","

def stepSt (st : St) (ws : List String) : St × String :=
  if st.bad then (st, "skipped") else
  match ws with
  | "tp" :: t :: ops =>
    match t.toNat? with
    | some tid =>
      let parsed := ops.map (fun w => parseOp st.s (splitWord w))
      if parsed.all Option.isSome then
        ({ st with progs := st.progs ++ [(tid, parsed.filterMap id)] }, "ok")
      else (st, "bad-op")
    | none => (st, "bad-op")
  | ["incmany", k, n] =>
    -- n raw references are taken at once (refInc n times): the model's counter is a natural number
    match k.toNat?, n.toNat? with
    | some k, some n =>
      (match st.s.objs[k]? with
       | some ob => let s' := setObj st.s k { ob with count := ob.count + n, manual := ob.manual + n }
                    ({ st with s := s' }, showState s')
       | none => (st, "bad-op"))
    | _, _ => (st, "bad-op")
  | ["decmany", k, n] =>
    -- n raw references are given back; the generator keeps at least one other reference, so nothing is destroyed
    match k.toNat?, n.toNat? with
    | some k, some n =>
      (match st.s.objs[k]? with
       | some ob => if ob.count > n ∧ ob.manual ≥ n then
                      let s' := setObj st.s k { ob with count := ob.count - n, manual := ob.manual - n }
                      ({ st with s := s' }, showState s')
                    else (st, "bad-op")
       | none => (st, "bad-op"))
    | _, _ => (st, "bad-op")
  | ["watchall", _] =>
    -- destructors of dying objects copy-and-drop every live handle variable: no count changes (no live handle
    -- designates an object that is being destroyed - not_destroyed_while_referenced)
    (st, showState st.s)
  | ["acq_race", _k, _n] =>
    -- three threads acquire from the raw pointer at once while the creator holds the only reference, then release:
    -- every atomic increment counts (refInc is one read-modify-write), so the count is 1 + 3 in every round
    (st, "lost=0")
  | ["mtrun"] =>
    let total := st.progs.foldl (fun a p => a + p.2.length) 0
    match mtLoop st.s st.progs (10 * total + 100) with
    | some s' => ({ st with s := s', progs := [] }, showState s')
    | none => ({ st with bad := true }, "undisciplined")
  | _ =>
    match ws with
    | ["selfmove", x] =>
      -- `x = std::move(x); x = nullptr;` : the state a self-move leaves behind is not determined by the property
      match parseLoc st.s x with
      | none => (st, "bad-op")
      | some c =>
        match (runOp st.s 0 (.move c c)).bind (fun s1 => runOp s1 0 (.raw c none)) with
        | some s' => ({ st with s := s' }, showState s')
        | none => ({ st with bad := true }, "undisciplined")
    | ["ctor_convmove", x, y] =>
      -- `Ref<Base> x(std::move(y)); y = nullptr;` : copy- or move-conversion, both leave this state
      match parseLoc st.s x, parseLoc st.s y with
      | some cx, some cy =>
        match (runOp st.s 0 (.ctorCopy cx cy)).bind (fun s1 => runOp s1 0 (.raw cy none)) with
        | some s' => ({ st with s := s' }, showState s')
        | none => ({ st with bad := true }, "undisciplined")
      | _, _ => (st, "bad-op")
    | ["convmove", x, y] =>
      match parseLoc st.s x, parseLoc st.s y with
      | some cx, some cy =>
        match (runOp st.s 0 (.conv cx cy TMP)).bind (fun s1 => runOp s1 0 (.raw cy none)) with
        | some s' => ({ st with s := s' }, showState s')
        | none => ({ st with bad := true }, "undisciplined")
      | _, _ => (st, "bad-op")
    | _ =>
    match parseOp st.s ws with
    | none => (st, "bad-op")
    | some op =>
      match runOp st.s 0 op with
      | some s' => ({ st with s := s' }, showState s')
      | none => ({ st with bad := true }, "undisciplined")

def main : IO Unit := Driver.run ({} : St) stepSt
