/- Model driver for C10: FlatMap / ParameterizedObject over string tokens. -/
import RkVerif.Model.C10
import Driver.Common
open RkVerif.C10 Driver

structure St where
  dflt : String := "0"
  fm : Items String String := []
  ps : Params String String := []

def showItems (m : Items String String) : String :=
  if m.isEmpty then "-" else ",".intercalate (m.map fun (k, v) => k ++ "=" ++ v)

def showParams (ps : Params String String) : String :=
  if ps.isEmpty then "-" else ",".intercalate (ps.map fun p => p.name ++ ":" ++ p.tag ++ ":" ++ p.val ++ ":" ++ bit p.query)

def stepSt (s : St) : List String → St × String
  | ["fm_new", d] => ({ s with dflt := d, fm := [] }, "ok")
  | ["set", k, v] => ({ s with fm := set s.fm k v }, "ok")
  | ["idx", k] => let (m, v) := index s.fm k s.dflt; ({ s with fm := m }, v)
  | ["set_throw", k, _] => (s, if contains s.fm k then "present" else "throw unchanged")
  | ["at", k] => (s, (at? s.fm k).getD "throw")
  | ["at_set", k, v] =>
      match atSet s.fm k v with
      | some m => ({ s with fm := m }, "ok")
      | none => (s, "throw")
  | ["has", k] => (s, bit (contains s.fm k))
  | ["erase", k] => ({ s with fm := erase s.fm k }, "ok")
  | ["clear"] => ({ s with fm := [] }, "ok")
  | ["size"] => (s, toString s.fm.length)
  | ["empty"] => (s, bit s.fm.isEmpty)
  | ["at_index", i] =>
      match i.toNat? with
      | some n => (s, match atIndex s.fm n with | some (k, v) => k ++ "=" ++ v | none => "throw")
      | none => (s, "bad-op")
  | ["items"] => (s, showItems s.fm)
  | ["ritems"] => (s, showItems s.fm.reverse)
  | ["po_new"] => ({ s with ps := [] }, "ok")
  | ["pset", n, t, v] => ({ s with ps := setParam s.ps n t v }, "ok")
  | ["pset_throw", n, v] => ({ s with ps := setParam s.ps n "thr" v }, "ok")   -- failed attempts are no-ops
  | ["pget", n, t, d] => let (ps, v) := getParam s.ps n t d; ({ s with ps := ps }, v)
  | ["phas", n] => (s, bit (hasParam s.ps n))
  | ["prem", n] => ({ s with ps := removeParam s.ps n }, "ok")
  | ["preset"] => ({ s with ps := resetQuery s.ps }, "ok")
  | ["pdump"] => (s, showParams s.ps)
  | _ => (s, "bad-op")

def main : IO Unit := Driver.run ({} : St) stepSt
