/- Line-protocol plumbing shared by the per-property model drivers.
   Input: lines; `# case k` starts a new case (state reset, marker echoed); every other
   non-empty line is one operation and produces exactly one output line. -/
namespace Driver

def words (line : String) : List String :=
  (line.trimAscii.toString.splitOn " ").filter (· ≠ "")

partial def loop {σ : Type} (h : IO.FS.Stream) (out : IO.FS.Stream) (init : σ)
    (step : σ → List String → σ × String) (s : σ) : IO Unit := do
  let line ← h.getLine
  if line.isEmpty then
    out.flush
    return ()
  let ws := words line
  match ws with
  | [] => loop h out init step s
  | "#" :: "case" :: _ =>
    out.putStrLn line.trimAscii.toString
    loop h out init step init
  | _ =>
    let (s', o) := step s ws
    out.putStrLn o
    loop h out init step s'

def run {σ : Type} (init : σ) (step : σ → List String → σ × String) : IO Unit := do
  let i ← IO.getStdin
  let o ← IO.getStdout
  loop i o init step init

def bit (b : Bool) : String := if b then "1" else "0"

end Driver
