/- `CNum Int` with C `int32_t` semantics for the operators the integer-family code uses: two's-complement
   wrap-around for + - * and unary minus (the real code is only exercised on inputs for which signed overflow does
   not occur; wrap-around keeps the model total), truncating division and remainder. -/
import RkVerif.Sem.CNum
import Driver.Common
open RkVerif

namespace Driver

def wrap32 (x : Int) : Int :=
  let m := x % 4294967296
  if m ≥ 2147483648 then m - 4294967296 else m

def instCNumInt32 : CNum Int where
  add a b := wrap32 (a + b)
  sub a b := wrap32 (a - b)
  mul a b := wrap32 (a * b)
  div a b := Int.tdiv a b
  neg a := wrap32 (-a)
  mod a b := Int.tmod a b
  lt a b := a < b
  le a b := a ≤ b
  min a b := if b < a then b else a
  max a b := if a < b then b else a
  ofNat n := wrap32 n
  ofScientific m _ _ := m
  ofInt n := wrap32 n
  toInt x := x
  decLt := fun a b => inferInstanceAs (Decidable (a < b))
  decLe := fun a b => inferInstanceAs (Decidable (a ≤ b))
  beq a b := a == b
  abs a := wrap32 a.natAbs
  sqrt a := a
  sin a := a
  cos a := a
  tan a := a
  acos a := a
  asin a := a
  atan2 a _ := a
  floor a := a
  pow a _ := a
  exp a := a
  posInf := 2147483647
  negInf := -2147483648
  pi := 3
  nan := 0
  ulp := 0
  fltMin := -2147483648
  rcpEst a := a
  rsqrtEst a := a

def i32OfTok (s : String) : Option Int := (parseHexN s).map (fun n => wrap32 n)
  where parseHexN (s : String) : Option Nat :=
    s.toList.foldl (fun acc c =>
      let d := if '0' ≤ c ∧ c ≤ '9' then some (c.toNat - '0'.toNat)
               else if 'a' ≤ c ∧ c ≤ 'f' then some (c.toNat - 'a'.toNat + 10) else none
      match acc, d with
      | some a, some d => some (a * 16 + d)
      | _, _ => none) (some 0)

def tokOfI32 (x : Int) : String :=
  let n := (x % 4294967296).toNat
  let ds := Nat.toDigits 16 n
  String.ofList (List.replicate (8 - ds.length) '0' ++ ds)

end Driver
