/- Model driver for C20: image writers + trace recorder.  Same op lines as harness/c20.cpp.
   argv[1] (optional) = chunk size of the per-thread event lists (read from the source by
   props/c20.py; the observable result does not depend on it: chunk_boundary_irrelevant). -/
import RkVerif.Model.C20
import Driver.Common
open RkVerif.C20 Driver

def hexDigit (n : Nat) : Char := "0123456789abcdef".toList.getD n '0'

def hexN (digits : Nat) (v : Nat) : String :=
  String.ofList ((List.range digits).reverse.map fun i => hexDigit (v / 16 ^ i % 16))

def parseHex (s : String) : Option Nat :=
  s.toList.foldl (fun acc c => acc.bind fun a =>
    if '0' ≤ c ∧ c ≤ '9' then some (a * 16 + (c.toNat - 48))
    else if 'a' ≤ c ∧ c ≤ 'f' then some (a * 16 + (c.toNat - 87))
    else if 'A' ≤ c ∧ c ≤ 'F' then some (a * 16 + (c.toNat - 55)) else none) (some 0)

def fmtByName (n : String) : Option Fmt := formats.find? (·.name == n)

def showBytes (bs : List UInt8) : String := String.ofList (bs.map fun b => Char.ofNat b.toNat)

def opImageWords (fmt : String) (w h : String) (words? : Option (List Nat)) : String :=
  match fmtByName fmt, w.toNat?, h.toNat?, words? with
  | some f, some sx, some sy, some words =>
    let wordsPerPixel := if f.compBytes == 1 then 1 else f.stride
    if sx < 1 ∨ sy < 1 ∨ words.length ≠ sx * sy * wordsPerPixel then "bad-op" else
    let comps := if f.compBytes == 1 then bytesOfWords words else words
    match writeImage f sx sy comps with
    | none => "oob"
    | some bytes =>
      match decode bytes with
      | none => "malformed"
      | some d =>
        let third := match d.maxval with
          | some mv => toString mv
          | none => if d.littleEndian then "le" else "be"
        let digits := if d.maxval.isSome then 2 else 8
        showBytes d.magic ++ " " ++ toString d.w ++ " " ++ toString d.h ++ " " ++ third ++ " :" ++
          String.join (d.samples.map fun v => " " ++ hexN digits v)
  | _, _, _, _ => "bad-op"

def opImage (fmt : String) (w h : String) (ws : List String) : String :=
  opImageWords fmt w h (ws.mapM parseHex)

def fnv1a (s : String) : UInt64 :=
  s.toUTF8.foldl (fun h b => (h ^^^ b.toUInt64) * 1099511628211) 14695981039346656037

/-- `imgpat fmt w h seed`: word i = ((seed + i) * 2654435761) mod 2^32 -/
def opImagePattern (fmt w h seed : String) : String :=
  match fmtByName fmt, w.toNat?, h.toNat?, seed.toNat? with
  | some f, some sx, some sy, some sd =>
    let wordsPerPixel := if f.compBytes == 1 then 1 else f.stride
    let n := sx * sy * wordsPerPixel
    if sx < 1 ∨ sy < 1 ∨ n > 64 * 1048576 then "bad-op" else
    let words := (List.range n).map fun i => ((sd + i) * 2654435761) % 4294967296
    let d := opImageWords fmt w h (some words)
    let hx := hexN 16 (fnv1a d).toNat
    "digest=" ++ hx ++ " len=" ++ toString d.utf8ByteSize ++ " head=" ++ (d.take 24).toString
  | _, _, _, _ => "bad-op"

/-- `imgmt fmt w h seed T R`: T threads write the pattern images seed, seed+1, … to T files at the same time: every
    file is what a single write of that image gives (the writers share no state) -/
def opImageThreads (fmt w h seed T : String) : String :=
  match fmtByName fmt, w.toNat?, h.toNat?, seed.toNat?, T.toNat? with
  | some f, some sx, some sy, some sd, some t =>
    if sx < 1 ∨ sy < 1 ∨ t < 1 ∨ t > 8 ∨ (sx + 296) * sy > 1048576 then "bad-op" else
    let wordsPerPixel := if f.compBytes == 1 then 1 else f.stride
    let one (k : Nat) : String :=
      let wk := sx + 37 * k                      -- thread k writes an image of width w + 37 k
      let n := wk * sy * wordsPerPixel
      let words := (List.range n).map fun i => ((sd + k + i) * 2654435761) % 4294967296
      hexN 16 (fnv1a (opImageWords fmt (toString wk) h (some words))).toNat
    "|".intercalate ((List.range t).map one) ++ " differing-concurrent-writes=0"
  | _, _, _, _, _ => "bad-op"

/-! trace programs -/

/-- `none` = the pause token `Z` (the thread sleeps; not an API call, only the clock advances) -/
def parseEvent (t : String) : Option (Option Op) :=
  match t.splitOn "." with
  | ["E"] => some (some .end_)
  | ["Z"] => some none
  | ["B", n, c] => some (some (.begin n (if c == "-" then none else some c)))
  | ["M", n, c] => some (some (.marker n (if c == "-" then none else some c)))
  | ["C", n, v] => v.toNat?.map fun x => some (.counter n x)
  | ["N", n] => some (some (.setName n))
  | _ => none

partial def parseProgram : List String → Option (List (Option Op))
  | [] => some []
  | t :: rest =>
    if t.startsWith "#" then
      -- #N[ body ]: the body N times, every '%' in a token replaced by the repetition number
      match ((t.drop 1).dropEnd 1).toString.toNat? with
      | none => none
      | some n =>
        let body := rest.takeWhile (· ≠ "]")
        let after := (rest.dropWhile (· ≠ "]")).drop 1
        if body.length == rest.length then none else
        let reps := (List.range n).map fun r => body.map fun tok => tok.replace "%" (toString r)
        match reps.flatten.mapM parseEvent, parseProgram after with
        | some b, some a => some (b ++ a)
        | _, _ => none
    else if t.startsWith "*" then
      match ((t.drop 1).dropEnd 1).toString.toNat? with
      | none => none
      | some n =>
        let body := rest.takeWhile (· ≠ "]")
        let after := (rest.dropWhile (· ≠ "]")).drop 1
        if body.length == rest.length then none else
        match body.mapM parseEvent, parseProgram after with
        | some b, some a => some ((List.replicate n b).flatten ++ a)
        | _, _ => none
    else
      match parseEvent t, parseProgram rest with
      | some e, some a => some (e :: a)
      | _, _ => none

structure St where
  progs : List (Nat × List (Option Op)) := []

def addProg (ps : List (Nat × List (Option Op))) (k : Nat) (ops : List (Option Op)) : List (Nat × List (Option Op)) :=
  if ps.any (·.1 == k) then ps.map fun (k', p) => if k' == k then (k', p ++ ops) else (k', p)
  else ps ++ [(k, ops)]

/-- round-robin interleaving of the thread programs into one call sequence (oldest first) -/
partial def interleave (ps : List (Nat × List (Option Op))) (clock : Nat) (acc : Array Call) : Array Call :=
  let live := ps.filter (!·.2.isEmpty)
  if live.isEmpty then acc else
  let (acc', clock') := live.foldl (fun (a, c) (k, p) =>
    match p with
    | some op :: _ => (a.push ⟨k, op, c⟩, c + 37000)
    | none :: _ => (a, c + 250000)
    | [] => (a, c)) (acc, clock)
  interleave (live.map fun (k, p) => (k, p.drop 1)) clock' acc'

def showCEv : CEv → String
  | .b n c => "B." ++ n ++ "." ++ c.getD "-"
  | .e => "E"
  | .m n c => "M." ++ n ++ "." ++ c.getD "-"
  | .c n v => "C." ++ n ++ "." ++ toString v

def fnv (h : UInt64) (s : String) : UInt64 :=
  s.toUTF8.foldl (fun h b => (h ^^^ b.toUInt64) * 1099511628211) h

def monoOk : List Nat → Bool
  | a :: b :: rest => a ≤ b && monoOk (b :: rest)
  | _ => true

def insertSorted (x : Nat × String) : List (Nat × String) → List (Nat × String)
  | [] => [x]
  | y :: ys => if x.1 ≤ y.1 then x :: y :: ys else y :: insertSorted x ys

def insertStr (x : String) : List (String × Nat) → List (String × Nat)
  | [] => [(x, 1)]
  | (y, n) :: ys => if x == y then (y, n + 1) :: ys else if x < y then (x, 1) :: (y, n) :: ys else (y, n) :: insertStr x ys

/-- `saveseq`: the recording threads run one after the other; every recorded event must be in the file -/
def opSaveSeq (s : St) : String :=
  let evs : List String := s.progs.flatMap fun (_, p) => p.filterMap fun o =>
    match o with
    | some (.begin n c) => some ("B." ++ n ++ "." ++ c.getD "-")
    | some .end_ => some "E"
    | some (.marker n c) => some ("M." ++ n ++ "." ++ c.getD "-")
    | some (.counter n v) => some ("C." ++ n ++ "." ++ toString v)
    | _ => none
  let counts := evs.foldl (fun acc e => insertStr e acc) []
  "seq shape=1 n=" ++ toString evs.length ++ String.join (counts.map fun (e, n) => " " ++ e ++ "x" ++ toString n)

def opSave (cs : Nat) (s : St) (proc : String) : String :=
  let calls := interleave s.progs 1000000 #[]
  let r := calls.foldl (record cs) ([] : Recorder)
  let pid := 1
  let procName := if proc == "-" then none else some proc
  let toks := saveLog pid procName (fun t => "id" ++ toString t) r
  match parseArray toks with
  | none => "malformed"
  | some objs =>
    let procSeen := match objs.find? (fun o => o.str? "ph" == some "M" && o.str? "name" == some "process_name") with
      | some o => (o.str? "args.name").getD "?"
      | none => "-"
    let pidOk := objs.all fun o => o.num? "pid" == some pid
    let threadMetas := objs.filter fun o => o.str? "ph" == some "M" && o.str? "name" == some "thread_name"
    let perThread : List (Nat × String) := threadMetas.filterMap fun mo =>
      match mo.num? "tid", mo.str? "args.name" with
      | some tid, some nm =>
        -- which harness thread is this? the registry entry at position tid
        match r[tid]? with
        | none => none
        | some (k, l) =>
          let evs := (eventsOf objs tid).map showCEv
          let tobjs := threadObjs objs tid
          let ts := (tobjs.filter fun o => o.str? "cat" != some "builtin").filterMap (·.num? "ts")
          let nest := nestCheck [] none tobjs
          let shown := if l.threadName ≠ "" then nm else "id"
          let body :=
            if evs.length ≤ 48 then String.join (evs.map (" " ++ ·))
            else
              let h := evs.foldl (fun h e => fnv (fnv h e) " ") 14695981039346656037
              " h=" ++ hexN 16 h.toNat ++ " head" ++ String.join ((evs.take 8).map (" " ++ ·)) ++
                " tail" ++ String.join ((evs.drop (evs.length - 8)).map (" " ++ ·))
          some (k, " || k=" ++ toString k ++ " name=" ++ shown ++ " n=" ++ toString evs.length ++
            " mono=" ++ bit (monoOk ts) ++ " nest=" ++ bit nest.isSome ++ " open=" ++ toString (nest.getD 0) ++ " :" ++ body)
      | _, _ => none
    let sorted := perThread.foldl (fun acc x => insertSorted x acc) []
    "ok proc=" ++ procSeen ++ " shape=1 pid=" ++ bit pidOk ++ " nthreads=" ++ toString threadMetas.length ++
      String.join (sorted.map (·.2))

def stepSt (cs : Nat) (s : St) : List String → St × String
  | "img" :: fmt :: w :: h :: ws => (s, opImage fmt w h ws)
  | ["imgpat", fmt, w, h, seed] => (s, opImagePattern fmt w h seed)
  | ["imgmt", fmt, w, h, seed, t, _r] => (s, opImageThreads fmt w h seed t)
  | "thr" :: k :: prog =>
    match k.toNat?, parseProgram prog with
    | some k, some ops => ({ s with progs := addProg s.progs k ops }, "ok")
    | _, _ => (s, "bad-op")
  | ["save", proc] => (s, opSave cs s proc)
  | ["saveseq", _] => (s, opSaveSeq s)
  | ["save2", proc] => (s, opSave cs s proc)
  | _ => (s, "bad-op")

def main (args : List String) : IO Unit :=
  let cs := (args.head?.bind (·.toNat?)).getD 8192
  Driver.run ({} : St) (stepSt cs)
