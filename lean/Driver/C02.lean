/- Model driver for C02: schedule() / async() / AsyncTask.
   argv: <backend: tbb|omp|internal|debug>.  Same op lines and output lines as harness/c02.cpp.
   The driver executes the model of the *repaired* shape (`Table.reference`, `SCfg.reference`) along a canonical
   schedule (eager: everything that is enabled for a task happens at once — the Debug backend's schedule) and
   prints the observations of the final model state; by asynctask_safe / schedule_once / schedule_no_uaf /
   async_delivers every other schedule gives the same observations, so this is the line the property determines.
   The table read from the source (Gen/C02Table.lean) is tied to this shape by source_table_wf / source_sched_wf
   in Props/C02.lean, not here. -/
import RkVerif.Model.C02
import Driver.Common
open RkVerif.C02 Driver

structure DSt where
  workers : Nat := 3          -- worker threads of the scheduler model (numThreads − 1); `init n` sets n − 1
  ss : SSt := sInit
  /-- summary of the tasks already folded away: all ran exactly once / some ran more than once.
      (A task that is done and released has no enabled action and does not influence any guard, so the driver
      folds completed chunks of 256 tasks into these two bits instead of keeping 10^5 list entries.) -/
  once : Bool := true
  dup : Bool := false
  lastInit : Nat := 0        -- thread count of the last `init` line of the case (0 = none yet)
  internal : Bool := false   -- argv[1] = "internal": the backend whose scheduler drains everything at shutdown

def foldAway (d : DSt) : DSt :=
  { d with ss := { tasks := [], uaf := d.ss.uaf },
           once := d.once && d.ss.tasks.all (fun t => t.runs == 1),
           dup := d.dup || d.ss.tasks.any (fun t => decide (t.runs > 1)) }

def schedMany (c : SCfg) (d : DSt) (n : Nat) : DSt :=
  (List.range n).foldl (fun d _ =>
    let d := { d with ss := schedEager c d.ss }
    if d.ss.tasks.length ≥ 256 && d.ss.tasks.all (fun t => t.phase == .done && !t.live) then foldAway d else d) d

def waitAll (c : SCfg) (d : DSt) : DSt × String :=
  let s := d.ss
  let s := if s.tasks.all (fun t => t.phase == .done) then s else quiesce c s (total s.tasks)
  let d := foldAway { d with ss := s }
  ({ d with once := true, dup := false }, "once=" ++ bit (d.once && !d.ss.uaf) ++ " dup=" ++ bit d.dup)

def atask (seq : String) : String :=
  let t := Table.reference
  let s0 := aConstruct t (aInit t) (t.order.length + 1)
  let (s, toks) := seq.toList.foldl (fun (acc : ASt × List String) c =>
      let (s1, tok) := aCall t acc.1 c
      (s1, tok :: acc.2)) (s0, [])
  -- an object that is still alive at the end of the case is destroyed silently
  let s := if s.ctl == .gone then s else (aCall t s 'd').1
  let clean := !s.err && !s.lateWrite
  " ".intercalate (toks.reverse ++ ["n1", if clean then "clean" else "dirty"])

def stepD (d : DSt) : List String → DSt × String
  | ["init", n] =>
    match n.toNat? with
    | some n => ({ d with workers := n - 1, lastInit := n }, "ok")
    | none => (d, "bad-op")
  | ["sched", n, _kind, nest] =>
    match n.toNat?, nest.toNat? with
    | some n, some k => (schedMany (SCfg.reference d.workers) d (n * (1 + k)), "ok")
    | _, _ => (d, "bad-op")
  | ["sched_dtor", n] =>   -- n closures whose destruction schedules n follow-ups: 2n tasks
    match n.toNat? with
    | some n => (schedMany (SCfg.reference d.workers) d (2 * n), "ok")
    | none => (d, "bad-op")
  | ["sched_lv", n] =>   -- n named closures, each handed to schedule() twice: 2n tasks
    match n.toNat? with
    | some n => (schedMany (SCfg.reference d.workers) d (2 * n), "ok")
    | none => (d, "bad-op")
  | ["dep", n] =>
    -- a parent that waits for the child it scheduled: with >= 2 workers besides the caller an idle worker's pop of the
    -- queued child is enabled (schedule_pop_enabled), so the child runs while the parent is still busy
    (d, if d.lastInit ≥ 3 then "done=" ++ n ++ " child-not-picked-up=0" else "skip")
  | ["leave", _n] =>
    -- the process exits with scheduled closures pending: the tasking system's static destruction neither crashes nor
    -- runs a closure twice (whether a pending closure still runs at exit is the backend's business)
    -- (Internal backend: its scheduler shuts down by draining, so everything still runs — sched_quiescent_join)
    (d, "exit=0 ran-twice=0 ran=" ++ (if d.internal then "all" else "-"))
  | ["wait_all"] =>
    waitAll (SCfg.reference d.workers) d
  | ["async", _kind, v] =>
    match v.toNat? with
    | some v => (d, "eq=" ++ bit ((runClosureN v 1).future == some v && !(runClosureN v 1).err))
    | none => (d, "bad-op")
  | ["atask", _kind, _v, _us, seq, _dseed] => (d, atask seq)
  | _ => (d, "bad-op")

def main (args : List String) : IO UInt32 := do
  Driver.run ({ internal := args.head? == some "internal" } : DSt) stepD
  return 0
