/- Model driver for C16: `parse <hex bytes | ->` → canonical tree or error class;
   `gen <hex> <expected canonical tree>`: same, and the model's answer is compared with the generator's tree.
   `parse0 <hex>` runs the parser of the unchanged tree (pre-fix parseString) – used only by hand. -/
import RkVerif.Model.C16
import Driver.Common
open RkVerif.C16 Driver

def hexDigit (n : Nat) : Char := "0123456789abcdef".toList.getD n '?'

def hexOf (bs : Bytes) : String :=
  String.ofList (bs.flatMap fun b => [hexDigit (b.toNat / 16), hexDigit (b.toNat % 16)])

def hexVal (c : Char) : Option Nat :=
  if '0' ≤ c ∧ c ≤ '9' then some (c.toNat - '0'.toNat)
  else if 'a' ≤ c ∧ c ≤ 'f' then some (c.toNat - 'a'.toNat + 10)
  else none

def unhex : List Char → Option (List UInt8)
  | [] => some []
  | [_] => none
  | a :: b :: rest => do
    let x ← hexVal a
    let y ← hexVal b
    let r ← unhex rest
    pure (UInt8.ofNat (x * 16 + y) :: r)

def bytesLt : Bytes → Bytes → Bool
  | [], [] => false
  | [], _ :: _ => true
  | _ :: _, [] => false
  | a :: as, b :: bs => a < b || (a == b && bytesLt as bs)

def insertSorted (kv : Bytes × Bytes) : List (Bytes × Bytes) → List (Bytes × Bytes)
  | [] => [kv]
  | x :: xs => if bytesLt kv.1 x.1 then kv :: x :: xs else x :: insertSorted kv xs

def sortProps (ps : List (Bytes × Bytes)) : List (Bytes × Bytes) :=
  ps.foldl (fun acc kv => insertSorted kv acc) []

partial def showNode (n : Node) : String :=
  "N" ++ hexOf n.name ++ "{" ++
    ",".intercalate ((sortProps n.props).map fun (k, v) => hexOf k ++ "=" ++ hexOf v) ++ "}C" ++
    hexOf n.content ++ "[" ++ ";".intercalate (n.children.map showNode) ++ "]"

def showRes : Except Err (List Node) → String
  | .ok doc => "ok[" ++ ";".intercalate (doc.map showNode) ++ "]"
  | .error .runtimeError => "err:runtime_error"
  | .error .outOfBounds => "err:model-out-of-bounds"
  | .error .outOfFuel => "err:model-out-of-fuel"

def step (_ : Unit) : List String → Unit × String
  | ["parse", h] =>
    match unhex (if h == "-" then [] else h.toList) with
    | some bs => ((), showRes (readXML bs.toArray))
    | none => ((), "bad-op")
  | ["gen", h, expected] =>
    -- a document printed by the generator from a tree: the model must also agree with the generating tree
    match unhex (if h == "-" then [] else h.toList) with
    | some bs =>
      let r := showRes (readXML bs.toArray)
      ((), if r == expected then r else "generator-expected:" ++ expected ++ " model:" ++ r)
    | none => ((), "bad-op")
  | ["parse0", h] =>
    match unhex (if h == "-" then [] else h.toList) with
    | some bs => ((), showRes (readXMLOrig bs.toArray))
    | none => ((), "bad-op")
  | _ => ((), "bad-op")

def main : IO Unit := Driver.run () step
