/- Model driver for C06: the translator-generated definitions (RkVerif/Gen/C06.lean) evaluated at Float32. -/
import RkVerif.Gen.C06Dispatch
import Driver.Float32Num
open Driver

def stepC06 (_ : Unit) : List String → Unit × String
  | name :: args =>
    match args.mapM f32OfTok with
    | some xs =>
      match RkVerif.Gen.C06.dispatch (α := Float32) name xs.toArray with
      | some out => ((), showOut out)
      | none => ((), "bad-op")
    | none => ((), "bad-arg")
  | [] => ((), "bad-op")

def main : IO Unit := Driver.run () stepC06
