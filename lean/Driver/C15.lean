/- Model driver for C15: stream serialization (BufferWriter / WriteSizeCalculator /
   FixedBufferWriter / BufferReader). Same op lines as harness/c15.cpp. -/
import RkVerif.Model.C15
import Driver.Common
open RkVerif.C15 Driver

/-! ### tokens -/

def hexDigit (n : Nat) : Char := if n < 10 then Char.ofNat (48 + n) else Char.ofNat (87 + n)

def hexOf (bs : List UInt8) : String :=
  String.ofList (bs.flatMap fun b => [hexDigit (b.toNat / 16), hexDigit (b.toNat % 16)])

def hexOrDash (bs : List UInt8) : String := if bs.isEmpty then "-" else hexOf bs

def hexVal (c : Char) : Option Nat :=
  if '0' ≤ c ∧ c ≤ '9' then some (c.toNat - 48)
  else if 'a' ≤ c ∧ c ≤ 'f' then some (c.toNat - 87)
  else none

/-- as many bytes as there are leading hex digit pairs -/
partial def takeHex (cs : List Char) (acc : List UInt8 := []) : List UInt8 × List Char :=
  match cs with
  | a :: b :: rest =>
    match hexVal a, hexVal b with
    | some x, some y => takeHex rest (UInt8.ofNat (16 * x + y) :: acc)
    | _, _ => (acc.reverse, cs)
  | _ => (acc.reverse, cs)

def takeHexN (k : Nat) (cs : List Char) : Option (List UInt8 × List Char) :=
  let (bs, _) := takeHex (cs.take (2 * k))
  if bs.length = k then some (bs, cs.drop (2 * k)) else none

def podSize : String → Option Nat
  | "i8" => some 1 | "u8" => some 1 | "b" => some 1 | "c" => some 1
  | "i16" => some 2 | "u16" => some 2
  | "i32" => some 4 | "u32" => some 4 | "f32" => some 4
  | "i64" => some 8 | "u64" => some 8 | "sz" => some 8 | "f64" => some 8
  | "S3" => some 3 | "S12" => some 12 | "S24" => some 24
  | _ => none

/-- `i32`, `str`, `v(<ty>)`, `a(<pod>[,wrapper,mode])` — wrapper and passing mode do not matter to
    the model: that is the property. -/
partial def parseTy (cs : List Char) : Option (Ty × List Char) :=
  match cs with
  | 'v' :: '(' :: rest =>
    match parseTy rest with
    | some (t, ')' :: rest') => some (.vec t, rest')
    | _ => none
  | 'a' :: '(' :: rest =>
    let name := rest.takeWhile (fun c => c ≠ ',' ∧ c ≠ ')')
    let after := (rest.dropWhile (· ≠ ')')).drop 1
    (podSize (String.ofList name)).map fun k => (.arr k, after)
  | 's' :: 't' :: 'r' :: rest => some (.str, rest)
  | _ =>
    let name := cs.takeWhile (fun c => c.isAlphanum)
    (podSize (String.ofList name)).map fun k => (.pod k, cs.drop name.length)

def parseTyS (s : String) : Option Ty :=
  match parseTy s.toList with
  | some (t, []) => some t
  | _ => none

mutual
  partial def parseVal (t : Ty) (cs : List Char) : Option (Val × List Char) :=
    match t, cs with
    | .pod k, _ => (takeHexN k cs).map fun (bs, r) => (.pod bs, r)
    | .str, 's' :: rest => let (bs, r) := takeHex rest; some (.str bs, r)
    | .vec _, '[' :: ']' :: rest => some (.vec [], rest)
    | .vec t, '[' :: rest => (parseElems t rest []).map fun (vs, r) => (.vec vs, r)
    | .arr _, '[' :: ']' :: rest => some (.arr 0 [], rest)
    | .arr k, '[' :: rest =>
      (parseElems (.pod k) rest []).map fun (vs, r) =>
        (.arr vs.length (vs.flatMap fun v => match v with | .pod bs => bs | _ => []), r)
    | _, _ => none
  partial def parseElems (t : Ty) (cs : List Char) (acc : List Val) : Option (List Val × List Char) :=
    match parseVal t cs with
    | some (v, ',' :: rest) => parseElems t rest (v :: acc)
    | some (v, ']' :: rest) => some ((v :: acc).reverse, rest)
    | _ => none
end

def parseValS (t : Ty) (s : String) : Option Val :=
  match parseVal t s.toList with
  | some (v, []) => some v
  | _ => none

partial def chunk (k : Nat) (bs : List UInt8) : List (List UInt8) :=
  if k = 0 ∨ bs.isEmpty then [] else bs.take k :: chunk k (bs.drop k)

partial def showVal : Ty → Val → String
  | .pod _, .pod bs => hexOf bs
  | .str, .str bs => "s" ++ hexOf bs
  | .vec t, .vec vs => "[" ++ ",".intercalate (vs.map (showVal t)) ++ "]"
  | .arr k, .arr _ bs => "[" ++ ",".intercalate ((chunk k bs).map hexOf) ++ "]"
  | _, _ => "?"

/-! ### state -/

structure St where
  bw : BufW := ⟨[]⟩
  sc : SizeCalc := ⟨0⟩
  fw : Option FixedW := none      -- none: not created, or dead after a typed write threw
  rd : Option Reader := none      -- none: not opened, or dead after a typed read threw
  rdLive : Bool := false          -- the reader shares the BufferWriter's array: it sees the array as it is NOW

def pat (seed : Nat) : Nat → UInt8 := fun i => UInt8.ofNat ((seed + i) % 256)

def fwState (w : FixedW) : String := s!"cur={w.cursor} av={w.available}"
def rdState (r : Reader) : String := s!"end={bit r.atEnd} cur={r.cursor}"

def writeBw (s : St) (v : Val) : St × String :=
  match s.bw.writeVal v with
  | .ok w' =>
    let sc' := s.sc.writeVal v
    ({ s with bw := w', sc := sc' },
      s!"{hexOrDash (w'.buf.drop s.bw.buf.length)} n={w'.buf.length} sc={sc'.written}")
  | .throw => (s, "throw")
  | .fault => (s, "fault")

/-- index of the typed read that throws on the `m`-byte prefix (`none`: all succeed) -/
def throwIndex (ts : List Ty) (r : Reader) (i : Nat := 0) : String :=
  match ts with
  | [] => "none"
  | t :: rest =>
    match readVal t r with
    | .ok (_, r') => throwIndex rest r' (i + 1)
    | .throw => toString i
    | .fault => "fault"

def rle (xs : List String) : List String :=
  let rec go (cur : String) (n : Nat) : List String → List String
    | [] => [s!"{cur}x{n}"]
    | y :: ys => if y = cur then go cur (n + 1) ys else s!"{cur}x{n}" :: go y 1 ys
  match xs with
  | [] => []
  | x :: rest => go x 1 rest

/-- a reader opened on the BufferWriter's shared array reads `buffer->size()` and the bytes at the time of each call -/
def sync (s : St) : St :=
  if s.rdLive then { s with rd := s.rd.map fun r => { r with buf := s.bw.buf } } else s

def stepSt0 (s : St) : List String → St × String
  | ["w", ty, val] =>
    match parseTyS ty with
    | none => (s, "bad-type")
    | some t =>
      match parseValS t val with
      | none => (s, "bad-value")
      | some v => writeBw s v
  | ["wc", hex] => writeBw s (.str (takeHex hex.toList).1)
  | ["wc"] => writeBw s (.str [])
  | "wvc" :: toks =>   -- std::vector<const char*>: encoded like a vector of strings
    writeBw s (.vec (toks.map fun t => .str (if t == "-" then [] else (takeHex t.toList).1)))
  | ["dump"] => (s, s!"{hexOrDash s.bw.buf} n={s.bw.buf.length} sc={s.sc.written}")
  | ["fw_new", cap] =>
    match cap.toNat? with
    | none => (s, "bad-op")
    | some c =>
      let w := FixedW.new (List.replicate c 0)
      ({ s with fw := some w }, s!"cap={w.capacity} av={w.available}")
  | ["fw_w", ty, val] =>
    match s.fw, parseTyS ty with
    | none, _ => (s, "dead")
    | _, none => (s, "bad-type")
    | some w, some t =>
      match parseValS t val with
      | none => (s, "bad-value")
      | some v =>
        match w.writeVal v with
        | .ok w' => ({ s with fw := some w' }, "ok " ++ fwState w')
        | .throw => ({ s with fw := none }, "throw")
        | .fault => ({ s with fw := none }, "fault")
  | ["fw_write", size, seed] =>
    match s.fw, size.toNat?, seed.toNat? with
    | some w, some n, some sd =>
      match w.write n (pat sd) with
      | .ok w' => ({ s with fw := some w' }, "ok " ++ fwState w')
      | .throw => (s, "throw " ++ fwState w)
      | .fault => ({ s with fw := none }, "fault")
    | none, _, _ => (s, "dead")
    | _, _, _ => (s, "bad-op")
  | ["fw_reserve", size, seed] =>
    match s.fw, size.toNat?, seed.toNat? with
    | some w, some n, some sd =>
      match w.reserve n with
      | .ok (off, w') =>
        match w'.fill off n (pat sd) with
        | .ok w'' => ({ s with fw := some w'' }, s!"ok off={off} " ++ fwState w'')
        | _ => ({ s with fw := none }, "fault")
      | .throw => (s, "throw " ++ fwState w)
      | .fault => ({ s with fw := none }, "fault")
    | none, _, _ => (s, "dead")
    | _, _, _ => (s, "bad-op")
  | ["fw_view"] =>
    match s.fw with
    | none => (s, "dead")
    | some w =>
      match w.writtenView with
      | some bs => (s, s!"{hexOrDash bs} len={bs.length} cap={w.capacity} av={w.available}")
      | none => (s, "fault")
  | ["rd_open", "bw"] =>
    let r : Reader := ⟨s.bw.buf, 0⟩
    ({ s with rd := some r, rdLive := true }, s!"size={r.size} " ++ rdState r)
  | ["bw_rewind"] => ({ s with bw := ⟨[]⟩ }, s!"- n=0 sc={s.sc.written}")
  | ["rd_open", "copy"] =>
    let r : Reader := ⟨s.bw.buf, 0⟩
    ({ s with rd := some r, rdLive := false }, s!"size={r.size} " ++ rdState r)
  | ["rd_open", "moved"] =>
    let r : Reader := ⟨s.bw.buf, 0⟩
    ({ s with rd := some r, rdLive := false, bw := ⟨[]⟩ }, s!"size={r.size} " ++ rdState r)
  | ["bw_take", _how] =>
    -- the written bytes are moved out of the writer's array (OwnedArray move construction / assignment): the
    -- receiver holds them, the writer's array is empty again and can be reused
    ({ s with bw := ⟨[]⟩ }, s!"{hexOrDash s.bw.buf} n=0")
  | ["rd_open", "fw"] =>
    match s.fw.bind (·.writtenView) with
    | none => (s, "dead")
    | some bs =>
      let r : Reader := ⟨bs, 0⟩
      ({ s with rd := some r, rdLive := false }, s!"size={r.size} " ++ rdState r)
  | ["rd_open", "trunc", m] =>
    match m.toNat? with
    | none => (s, "bad-op")
    | some m =>
      let r : Reader := ⟨s.bw.buf.take m, 0⟩
      ({ s with rd := some r, rdLive := false }, s!"size={r.size} " ++ rdState r)
  | ["r", ty] =>
    match s.rd, parseTyS ty with
    | none, _ => (s, "dead")
    | _, none => (s, "bad-type")
    | some r, some t =>
      match readVal t r with
      | .ok (v, r') => ({ s with rd := some r' }, showVal t v ++ " " ++ rdState r')
      | .throw => ({ s with rd := none }, "throw")
      | .fault => ({ s with rd := none }, "fault")
  | ["rd_read", size] =>
    match s.rd, size.toNat? with
    | some r, some n =>
      match r.read n with
      | .ok (bs, r') => ({ s with rd := some r' }, hexOrDash bs ++ " " ++ rdState r')
      | .throw => (s, "throw " ++ rdState r)
      | .fault => ({ s with rd := none }, "fault")
    | none, _ => (s, "dead")
    | _, _ => (s, "bad-op")
  | ["rd_view", count] =>
    match s.rd, count.toNat? with
    | some r, some n =>
      match r.getView n 1 with
      | .ok (bs, r') => ({ s with rd := some r' }, hexOrDash bs ++ " " ++ rdState r')
      | .throw => (s, "throw " ++ rdState r)
      | .fault => ({ s with rd := none }, "fault")
    | none, _ => (s, "dead")
    | _, _ => (s, "bad-op")
  | ["rd_end"] =>
    match s.rd with
    | some r => (s, rdState r)
    | none => (s, "dead")
  | "trunc_all" :: tys =>
    match tys.mapM parseTyS with
    | none => (s, "bad-type")
    | some ts =>
      let n := s.bw.buf.length
      let idx := (List.range n).map fun m => throwIndex ts ⟨s.bw.buf.take m, 0⟩
      let full := match readAll ts ⟨s.bw.buf, 0⟩ with
        | .ok (_, r) => "full=ok," ++ bit r.atEnd
        | .throw => "full=throw"
        | .fault => "full=fault"
      (s, ",".intercalate (rle idx ++ [full, "vals=ok"]))
  | _ => (s, "bad-op")

def stepSt (s : St) (w : List String) : St × String := stepSt0 (sync s) w

def main : IO Unit := Driver.run ({} : St) stepSt
