/- Model driver for C17: index sequences, array3D index maps / for_each, Array3D adaptors.
   Same op lines as harness/c17.cpp; integers only. -/
import RkVerif.Model.C17
import Driver.Common
open RkVerif.C17 Driver

/-- pool entry: how the object was constructed (adaptors hold ids of earlier entries, like the
    shared_ptrs of the C++ objects, so later `set`s on an actual array are seen through them) -/
inductive Node where
  | actual (a : Actual)
  | shifted (k : Nat) (s : V3i)
  | acc (k : Nat)
  | sub (k : Nat) (lo up : V3i)
  | multi (ks : List Nat)

structure St where
  pool : Array Node := #[]

/-- the Array3D view of pool entry `k` in the current state, built with the model's definitions -/
def build (pool : Array Node) : Nat → Nat → Option (Array3D Int)
  | 0, _ => none
  | fuel + 1, k =>
    match pool[k]? with
    | none => none
    | some (.actual a) => some a.toArray3D
    | some (.shifted j s) => (build pool fuel j).map fun a => shifted a s
    | some (.acc j) => (build pool fuel j).map fun a => accessor (fun v => v) a
    | some (.sub j lo up) => (build pool fuel j).map fun a => subBox a lo up
    | some (.multi ks) =>
      match ks.mapM (build pool fuel) with
      | some (s0 :: rest) => some (multiSlice s0 rest)
      | _ => none

def view (s : St) (k : Nat) : Option (Array3D Int) := build s.pool (s.pool.size + 1) k

def nat? (s : String) : Option Nat := s.toNat?
def int? (s : String) : Option Int := s.toInt?
def u64? (s : String) : Option U64 := s.toNat?.map UInt64.ofNat

def nats? (ws : List String) : Option (List Nat) := ws.mapM nat?
def ints? (ws : List String) : Option (List Int) := ws.mapM int?
def u64s? (ws : List String) : Option (List U64) := ws.mapM u64?

def showV2 (c : V2 U64) : String := s!"{c.x},{c.y}"
def showV3 (c : V3 U64) : String := s!"{c.x},{c.y},{c.z}"
def showV3i (c : V3i) : String := s!"{c.x},{c.y},{c.z}"
def showList (l : List String) : String := if l.isEmpty then "-" else ";".intercalate l

/-- value pattern of a freshly created array: cell i holds (i*37+11) mod 101 - 50 -/
def pattern (i : Nat) : Int := ((i * 37 + 11) % 101 : Nat) - 50

def mkActual (d : V3i) : Actual :=
  { dims := d, vals := (List.range (Actual.allocCount d).toNat).map pattern }

def cast8 (v : Int) : Int := v % 256
def regionEmpty (b e : V3i) : Bool := e.x ≤ b.x || e.y ≤ b.y || e.z ≤ b.z

def stepSt (s : St) (ws : List String) : St × String :=
  match ws with
  | [] => (s, "bad-op")
  | op :: args =>
    match op, u64s? args, ints? args with
    -- ---- multidim_index_sequence (size_t)
    | "tot2", some [dx, dy], _ => (s, toString (total2 ⟨dx, dy⟩))
    | "tot3", some [dx, dy, dz], _ => (s, toString (total3 ⟨dx, dy, dz⟩))
    | "fl2", some [dx, dy, x, y], _ => (s, toString (flatten2 ⟨dx, dy⟩ ⟨x, y⟩))
    | "fl3", some [dx, dy, dz, x, y, z], _ => (s, toString (flatten3 ⟨dx, dy, dz⟩ ⟨x, y, z⟩))
    | "rs2", some [dx, dy, i], _ => (s, showV2 (reshape2 ⟨dx, dy⟩ i))
    | "rs3", some [dx, dy, dz, i], _ => (s, showV3 (reshape3 ⟨dx, dy, dz⟩ i))
    | "it2", some [dx, dy], _ => (s, showList ((iterate2 ⟨dx, dy⟩).map showV2))
    | "it3", some [dx, dy, dz], _ => (s, showList ((iterate3 ⟨dx, dy, dz⟩).map showV3))
    | "itb2", some [dx, dy], _ => (s, showList ((backward2 ⟨dx, dy⟩).map showV2))
    | "itb3", some [dx, dy, dz], _ => (s, showList ((backward3 ⟨dx, dy, dz⟩).map showV3))
    | "itp2", some [dx, dy, st], _ =>
      let d : V2 U64 := ⟨dx, dy⟩
      let it : Iter (V2 U64) := ⟨d, st⟩
      let (it, r) := it.preInc
      let c1 := it.cur
      let (it, r2) := it.postInc
      let e : Iter (V2 U64) := ⟨d, total2 d⟩
      let b : Iter (V2 U64) := ⟨d, 0⟩
      let other : Iter (V2 U64) := ⟨⟨dy, dx⟩, it.cur⟩
      let (it2, r3) := it.preDec
      (s, s!"{c1} {r.cur} {it.cur} {r2.cur} {bit (Iter.eq it e)} {bit (Iter.ne it e)} {bit (Iter.ne it b)} {bit (Iter.eq it other)} {bit (Iter.eq it it)} {showV2 (reshape2 it.dims it.cur)} {it2.cur} {r3.cur} {(it2.jumpTo st).cur}")
    -- every way of moving an iterator, each followed by a dereference of the iterator that was moved (and of what the
    -- operator returned): the element designated is always `reshape(current())`
    | "itq2", some [dx, dy, st, n], _ =>
      let d : V2 U64 := ⟨dx, dy⟩
      let sh (i : Iter (V2 U64)) : String := s!"{i.cur}:{showV2 (reshape2 i.dims i.cur)}"
      let it : Iter (V2 U64) := ⟨d, st⟩
      let (a, ra) := it.preDec
      let (b, rb) := a.preInc
      let (c, rc) := b.postDec
      let (e, re) := c.postInc
      let f := e.addN n
      let g := f.subN n
      let h := g.addIt (⟨d, n⟩ : Iter (V2 U64))
      let k := h.subIt (⟨d, n⟩ : Iter (V2 U64))
      let j := k.jumpTo n
      (s, " ".intercalate [sh a, sh ra, sh b, sh rb, sh c, sh rc, sh e, sh re, sh f, sh g, sh h, sh k, sh j])
    | "itq3", some [dx, dy, dz, st, n], _ =>
      let d : V3 U64 := ⟨dx, dy, dz⟩
      let sh (i : Iter (V3 U64)) : String := s!"{i.cur}:{showV3 (reshape3 i.dims i.cur)}"
      let it : Iter (V3 U64) := ⟨d, st⟩
      let (a, ra) := it.preDec
      let (b, rb) := a.preInc
      let (c, rc) := b.postDec
      let (e, re) := c.postInc
      let f := e.addN n
      let g := f.subN n
      let h := g.addIt (⟨d, n⟩ : Iter (V3 U64))
      let k := h.subIt (⟨d, n⟩ : Iter (V3 U64))
      let j := k.jumpTo n
      (s, " ".intercalate [sh a, sh ra, sh b, sh rb, sh c, sh rc, sh e, sh re, sh f, sh g, sh h, sh k, sh j])
    | "itp3", some [dx, dy, dz, st], _ =>
      let d : V3 U64 := ⟨dx, dy, dz⟩
      let it : Iter (V3 U64) := ⟨d, st⟩
      let (it, r) := it.preInc
      let c1 := it.cur
      let (it, r2) := it.postInc
      let e : Iter (V3 U64) := ⟨d, total3 d⟩
      let b : Iter (V3 U64) := ⟨d, 0⟩
      let other : Iter (V3 U64) := ⟨⟨dy, dx, dz⟩, it.cur⟩
      let (it2, r3) := it.preDec
      (s, s!"{c1} {r.cur} {it.cur} {r2.cur} {bit (Iter.eq it e)} {bit (Iter.ne it e)} {bit (Iter.ne it b)} {bit (Iter.eq it other)} {bit (Iter.eq it it)} {showV3 (reshape3 it.dims it.cur)} {it2.cur} {r3.cur} {(it2.jumpTo st).cur}")
    -- ---- array3D/for_each.h (int components)
    | "lp", _, some [dx, dy, dz] => (s, toString (longProduct ⟨dx, dy, dz⟩))
    | "li", _, some [x, y, z, dx, dy, dz] => (s, toString (longIndex ⟨x, y, z⟩ ⟨dx, dy, dz⟩))
    | "co", _, some [i, dx, dy, dz] => (s, showV3i (coordsOf (toU i) ⟨dx, dy, dz⟩))
    | "fe", _, some [lx, ly, lz, ux, uy, uz] => (s, showList ((forEach ⟨lx, ly, lz⟩ ⟨ux, uy, uz⟩).map showV3i))
    | "feb", _, some [lx, ly, lz, ux, uy, uz] => (s, showList ((forEach ⟨lx, ly, lz⟩ ⟨ux, uy, uz⟩).map showV3i))
    | "fes", _, some [sx, sy, sz] => (s, showList ((forEachSize ⟨sx, sy, sz⟩).map showV3i))
    -- ---- ActualArray3D
    | "bigidx", _, some [dx, dy, dz, x, y, z] =>
      let a : Actual := { dims := ⟨dx, dy, dz⟩, vals := [] }
      (s, s!"{a.numElements} {a.indexOf ⟨x, y, z⟩} {showV3i a.size}")
    | "bigrw", _, some [dx, dy, dz, x, y, z, v, idx, wx, wy, wz] =>
      -- sparse memory with the single cell written by set(c, v): every read compares the model's index
      -- of the read with the model's index of the write
      let a : Actual := { dims := ⟨dx, dy, dz⟩, vals := [] }
      let si := longIndex ⟨x, y, z⟩ a.size
      let rd (i : U64) : Int := if i == si then v else 0
      (s, s!"{rd (a.getIndex ⟨x, y, z⟩)} {rd (toU idx)} {rd (a.getIndex ⟨wx, wy, wz⟩)}")
    | "new", _, some [dx, dy, dz] =>
      let a := mkActual ⟨dx, dy, dz⟩
      ({ s with pool := s.pool.push (.actual a) }, s!"{s.pool.size} {a.numElements}")
    | "ext", _, some [dx, dy, dz] =>
      let a := mkActual ⟨dx, dy, dz⟩
      ({ s with pool := s.pool.push (.actual a) }, s!"{s.pool.size} {a.numElements}")
    | "set", _, some [k, x, y, z, v] =>
      match s.pool[k.toNat]? with
      | some (.actual a) => ({ s with pool := s.pool.set! k.toNat (.actual (a.set ⟨x, y, z⟩ v)) }, "ok")
      | _ => (s, "bad-op")
    | "clear", _, some [k, v] =>
      match s.pool[k.toNat]? with
      | some (.actual a) => ({ s with pool := s.pool.set! k.toNat (.actual (a.clear v)) }, "ok")
      | _ => (s, "bad-op")
    | "idx", _, some [k, x, y, z] =>
      match s.pool[k.toNat]? with
      | some (.actual a) => (s, toString (a.indexOf ⟨x, y, z⟩))
      | _ => (s, "bad-op")
    | "num", _, some [k] =>
      match s.pool[k.toNat]? with
      | some (.actual a) => (s, toString a.numElements)
      | _ => (s, "bad-op")
    | "raw", _, some [k, i] =>
      match s.pool[k.toNat]? with
      | some (.actual a) => (s, toString (a.vals.getD i.toNat 0))
      | _ => (s, "bad-op")
    -- ---- adaptors
    | "shift", _, some [k, sx, sy, sz] =>
      if k.toNat < s.pool.size then ({ s with pool := s.pool.push (.shifted k.toNat ⟨sx, sy, sz⟩) }, toString s.pool.size) else (s, "bad-op")
    | "acc", _, some [k] =>
      if k.toNat < s.pool.size then ({ s with pool := s.pool.push (.acc k.toNat) }, toString s.pool.size) else (s, "bad-op")
    | "sub", _, some [k, lx, ly, lz, ux, uy, uz] =>
      if k.toNat < s.pool.size then ({ s with pool := s.pool.push (.sub k.toNat ⟨lx, ly, lz⟩ ⟨ux, uy, uz⟩) }, toString s.pool.size) else (s, "bad-op")
    | "ms", _, some (k :: ks) =>
      if (k :: ks).all (fun j => j.toNat < s.pool.size) then
        ({ s with pool := s.pool.push (.multi ((k :: ks).map Int.toNat)) }, toString s.pool.size)
      else (s, "bad-op")
    -- ---- the Array3D interface on any pool entry
    | "size", _, some [k] =>
      match view s k.toNat with
      | some a => (s, showV3i a.size)
      | none => (s, "bad-op")
    | "get", _, some [k, x, y, z] =>
      match view s k.toNat with
      | some a => (s, toString (a.get ⟨x, y, z⟩))
      | none => (s, "bad-op")
    | "get8", _, some [k, x, y, z] =>
      match view s k.toNat with
      | some a => (s, toString ((accessor cast8 a).get ⟨x, y, z⟩))
      | none => (s, "bad-op")
    | "get64", _, some [k, x, y, z] =>
      match view s k.toNat with
      | some a => (s, toString ((accessor (fun v => v) a).get ⟨x, y, z⟩))
      | none => (s, "bad-op")
    | "dump", _, some [k, lx, ly, lz, ux, uy, uz] =>
      match view s k.toNat with
      | some a => (s, showList ((forEach ⟨lx, ly, lz⟩ ⟨ux, uy, uz⟩).map fun c => toString (a.get c)))
      | none => (s, "bad-op")
    | "vr", _, some [k, bx, by_, bz, ex, ey, ez] =>
      match view s k.toNat with
      | some a =>
        if regionEmpty ⟨bx, by_, bz⟩ ⟨ex, ey, ez⟩ then (s, "empty")
        else let r := getValueRange a ⟨bx, by_, bz⟩ ⟨ex, ey, ez⟩; (s, s!"{r.1} {r.2}")
      | none => (s, "bad-op")
    | "vra", _, some [k] =>
      match view s k.toNat with
      | some a =>
        if regionEmpty (V3i.splat 0) a.size then (s, "empty")
        else let r := getValueRangeAll a; (s, s!"{r.1} {r.2}")
      | none => (s, "bad-op")
    | _, _, _ => (s, "bad-op")

def main : IO Unit := Driver.run ({} : St) stepSt
