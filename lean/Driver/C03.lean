/- Model driver for C03 (AsyncLoop).

   Line protocol (same op lines as harness/c03.cpp):
     cfg <fixed|orig> <thread|task>   new AsyncLoop; the loop thread is parked at loop.top        -> ok
     g loop                           grant the loop thread a run to its next hook point           -> <point>
     b loop                           grant the loop thread; it is expected to block in wait()     -> blocked
     g ctl <start|stop|destroy>       the idle controller calls a member function                   -> <point>
     g ctl                            grant the controller a run to its next hook point             -> <point>
     end                              final positions                                              -> end loop=<p> ctl=<p>
   A step the model does not enable prints `disabled` (the generators never emit one).
   A line is suffixed with ` VIOLATION-OBSERVED:<what>` while the oracle condition holds
   (only possible for the `orig` variant, see Props/C03 stop_safety_fails_on_original).

   `drv_c03 graph <fixed|orig> <thread|task>` dumps the hook-level transition graph of the model
   (nodes = reachable states with both threads at hook points or blocked; edges = grants), from which
   props/c03.py computes the schedules. -/
import RkVerif.Model.C03
import Driver.Common
open RkVerif.C03 Driver

structure St where
  cfg : Cfg := ⟨true, true⟩
  s : State := init

def oracle (c : Cfg) (s : State) : String :=
  (if s.stopped && s.bodyRunning then " VIOLATION-OBSERVED:body-while-stopped" else "") ++
  (if c.thread && s.destroyed && s.bodyRunning then " VIOLATION-OBSERVED:body-after-destroy" else "")

def loopPos (s : State) : String := s.lpc.point
def ctlPos (s : State) : String := s.cpc.point

def parseCall : String → Option Call
  | "start" => some .start
  | "stop" => some .stop
  | "destroy" => some .destroy
  | _ => none

def stepSt (st : St) : List String → St × String
  | ["cfg", v, l] =>
      let c : Cfg := ⟨v == "fixed", l == "thread"⟩
      ({ cfg := c, s := init }, "ok")
  | ["g", "loop"] =>
      match grantLoop st.cfg st.s with
      | some t => ({ st with s := t }, loopPos t ++ oracle st.cfg t)
      | none => (st, "disabled")
  | ["b", "loop"] =>
      match grantLoop st.cfg st.s with
      | some t => ({ st with s := t }, loopPos t ++ oracle st.cfg t)
      | none => (st, "disabled")
  | ["g", "ctl", call] =>
      match parseCall call with
      | some k =>
          if st.s.cpc == .idle then
            match ctlStep st.cfg st.s k with
            | some t => ({ st with s := t }, ctlPos t ++ oracle st.cfg t)
            | none => (st, "disabled")
          else (st, "disabled")
      | none => (st, "bad-op")
  | ["g", "ctl"] =>
      if st.s.cpc == .idle then (st, "disabled")
      else match ctlStep st.cfg st.s .start with
        | some t => ({ st with s := t }, ctlPos t ++ oracle st.cfg t)
        | none => (st, "disabled")
  | ["end"] => (st, "end loop=" ++ loopPos st.s ++ " ctl=" ++ ctlPos st.s ++ oracle st.cfg st.s)
  | _ => (st, "bad-op")

/-! ### graph dump -/

/-- the loop's re-acquisition of the mutex after a wake-up cannot be delayed by the harness: when it is
    possible it must be the next step of a replayable schedule -/
def urgent (s : State) : Bool := s.lpc == .woken && s.mtx == .free

def edges (c : Cfg) (s : State) : List (String × State) :=
  let l := match grantLoop c s with
    | some t => [((if t.lpc == .waiting then "b loop" else "g loop"), t)]
    | none => []
  let k :=
    if s.cpc == .idle then
      [("g ctl start", Call.start), ("g ctl stop", .stop), ("g ctl destroy", .destroy)].filterMap
        (fun (n, call) => (ctlStep c s call).map (fun t => (n, t)))
    else (match ctlStep c s .start with | some t => [("g ctl", t)] | none => [])
  if urgent s then l else l ++ k

partial def explore (c : Cfg) (todo : List State) (seen : List Nat) (acc : Array String) : Array String :=
  match todo with
  | [] => acc
  | s :: rest =>
    let es := edges c s
    let (todo', seen', acc') := es.foldl (fun (td, sn, ac) (lab, t) =>
      let line := s!"e {code s} {code t} {lab} > " ++
        (if lab.endsWith "loop" then loopPos t else ctlPos t) ++ oracle c t
      let ac := ac.push line
      if sn.contains (code t) then (td, sn, ac) else (td ++ [t], sn ++ [code t], ac)) (rest, seen, acc)
    let node := s!"n {code s} loop={loopPos s} ctl={ctlPos s} alive={bit s.alive} run={bit s.running} inside={bit s.inside} stopped={bit s.stopped} started={bit s.started}"
    explore c todo' seen' (acc'.push node)

def main (args : List String) : IO Unit :=
  match args with
  | ["graph", v, l] => do
      let c : Cfg := ⟨v == "fixed", l == "thread"⟩
      IO.println s!"init {code init}"
      for line in explore c [init] [code init] #[] do
        IO.println line
  | _ => Driver.run ({} : St) stepSt
