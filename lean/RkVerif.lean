-- Root of the `RkVerif` library: one Model/Props pair per property.
import RkVerif.Props.C10
