#!/bin/sh
# tools/try_seed.sh <Cxx> <patch.diff> [tier] [logfile]: run ./check Cxx against a scratch worktree of /repo HEAD with the patch applied.
# (equivalent to applying it in /repo; a worktree is used so that concurrently running checks are not disturbed; evidence/ is not
# touched because VERIF_REPO != /repo). Gen/ files of this property regenerated from the patched tree are restored from git afterwards.
pid="$1"; patch="$2"; tier="${3:-quick}"; log="${4:-/tmp/seedlog_$$.log}"
wt=/tmp/wt_seed_$$
git -C /repo worktree add -q $wt HEAD || exit 2
if ! git -C $wt apply "$patch"; then echo "PATCH DOES NOT APPLY"; git -C /repo worktree remove --force $wt; exit 2; fi
cd /verif
s=$(date +%s)
VERIF_REPO=$wt ./check $pid --tier $tier > "$log" 2>&1
rc=$?
e=$(date +%s)
echo "$pid $(basename $(dirname $patch)) rc=$rc $((e-s))s :: $(grep -E "VIOLATION|KNOWN-FINDING|Traceback" "$log" | cut -c1-200 | head -4 | tr '\n' '|')"
git -C /repo worktree remove --force $wt
# put back the committed snapshot of what this property regenerates from the source (the run above rewrote it from the
# patched tree; the next check of /repo would rewrite it again, but a commit in between must not pick up a mutant's model)
lo=$(echo $pid | tr 'C' 'c')
gf=$(git -C /verif ls-files "lean/RkVerif/Gen/${pid}*" "harness/gen/${lo}*")
[ -n "$gf" ] && git -C /verif checkout -- $gf 2>/dev/null
exit $rc
