#!/bin/sh
# tools/try_seed.sh <Cxx> <patch.diff> : run ./check Cxx against a scratch worktree of /repo HEAD with the patch applied.
# (equivalent to applying it in /repo; a worktree is used so that concurrently running checks are not disturbed)
pid="$1"; patch="$2"
wt=/tmp/wt_seed_$$
git -C /repo worktree add -q $wt HEAD || exit 2
if ! git -C $wt apply "$patch"; then echo "PATCH DOES NOT APPLY"; git -C /repo worktree remove --force $wt; exit 2; fi
cd /verif
VERIF_REPO=$wt ./check $pid 2>&1 | grep -E "VIOLATION|KNOWN-FINDING|Traceback|Error" | cut -c1-220 | head -8
rc=$?
git -C /verif checkout -q -- lean/RkVerif/Gen harness/gen 2>/dev/null
git -C /repo worktree remove --force $wt
