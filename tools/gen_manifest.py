#!/usr/bin/env python3
"""Writes MANIFEST.json from tools/manifest_src.py (single source of truth for the interface file)."""
import json, os, sys
sys.path.insert(0, os.path.dirname(os.path.abspath(__file__)))
import importlib
if len(sys.argv) > 1:
    sys.exit("usage: tools/gen_manifest.py   (no arguments; rewrites MANIFEST.json)")
import manifest_src as M
root = os.path.dirname(os.path.dirname(os.path.abspath(__file__)))
sys.path.insert(0, root)
# a property is claimed when props/cXX.py exists and defines MANIFEST = dict(text=, note=, technique=)
for i in range(1, 21):
    pid = "C%02d" % i
    if pid in M.INTEGRATED and os.path.exists(os.path.join(root, "props", pid.lower() + ".py")):
        mod = importlib.import_module("props." + pid.lower())
        if getattr(mod, "MANIFEST", None):
            M.CLAIMED[pid] = mod.MANIFEST
        if getattr(mod, "NOT_CLAIMED_REASON", None):
            M.NOT_APPLICABLE[pid] = mod.NOT_CLAIMED_REASON
ids = [json.loads(l)["id"] for l in open(os.path.join(root, "properties.jsonl"))]
checks = []
for pid in ids:
    if pid in M.CLAIMED:
        c = M.CLAIMED[pid]
        checks.append(dict(
            property_id=pid,
            quick_cmd="./check %s --tier quick" % pid,
            thorough_cmd="./check %s --tier thorough" % pid,
            evidence_file="evidence/%s.json" % pid,
            replay_cmd_template="./check %s --replay {path}" % pid,
            engine="lean4-proof+correspondence",
            level_claimed=dict(category="proof", text=c["text"], design_ref=c.get("design_ref", "DESIGN.md section 7, " + pid)),
            level_note=c["note"],
            technique=c["technique"]))
na = [dict(property_id=pid, reason=M.NOT_APPLICABLE.get(pid, "check not built yet (work in progress; see DESIGN.md section 7 for the plan)"))
      for pid in ids if pid not in M.CLAIMED]
man = dict(
    version=1,
    setup_cmd="./setup.sh",
    hooks=dict(guard="RKCOMMON_VERIF",
               enable="harnesses compile /repo's sources directly with g++ -DRKCOMMON_VERIF (vlib/core.py build_harness)",
               baseline_off_cmd="cmake --build /repo/_build -j16 && ctest --test-dir /repo/_build -j8 --timeout 900",
               source_commits=M.HOOK_COMMITS, add_only=True),
    engines=[dict(name="lean4-proof+correspondence", path="check",
                  serves_properties=sorted(M.CLAIMED),
                  kind_free_text="Lean 4 theorems about an executable model (lean/RkVerif), audited axioms; model tied to /repo by a "
                                 "correspondence harness (real code under ASan/UBSan vs compiled Lean driver) and/or by regeneration of the "
                                 "model from the clang AST")],
    checks=checks,
    notes=M.NOTES,
    not_applicable=na)
json.dump(man, open(os.path.join(root, "MANIFEST.json"), "w"), indent=1)
print("claimed", len(checks), "not claimed", len(na))
