"""Readable Lean names for the record instantiations the translator meets (keys: cpp2lean.norm_type)."""
def names(s="float"):
    d = {}
    for n, nm in ((2, "Vec2"), (3, "Vec3"), (4, "Vec4")):
        d["vec_t<%s,%d,0>" % (s, n)] = nm
        d["range_t<vec_t<%s,%d,0>>" % (s, n)] = "Box%d" % n
    d["vec_t<%s,3,1>" % s] = "Vec3a"
    d["range_t<vec_t<%s,3,1>>" % s] = "Box3a"
    d["range_t<%s>" % s] = "Range1"
    d["LinearSpace2<vec_t<%s,2,0>>" % s] = "Lin2"
    d["LinearSpace3<vec_t<%s,3,0>>" % s] = "Lin3"
    d["LinearSpace3<vec_t<%s,3,1>>" % s] = "Lin3a"
    d["AffineSpaceT<LinearSpace2<vec_t<%s,2,0>>>" % s] = "Aff2"
    d["AffineSpaceT<LinearSpace3<vec_t<%s,3,0>>>" % s] = "Aff3"
    d["AffineSpaceT<LinearSpace3<vec_t<%s,3,1>>>" % s] = "Aff3a"
    d["QuaternionT<%s>" % s] = "Quat"
    return d
