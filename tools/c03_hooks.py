#!/usr/bin/env python3
"""Add the C03 scheduling points (guard RKCOMMON_VERIF, add-only) to rkcommon/tasking/AsyncLoop.h.

   tools/c03_hooks.py <in AsyncLoop.h> <out AsyncLoop.h>

Used (a) to produce fixes/hook-C03-schedpoints*.patch and (b) by props/c03.py to instrument a private
copy of the header when the tree under test does not carry the hook commit.  Only whole lines are
inserted; no existing line is changed.  Exit code 2 when an anchor line is not found (the caller treats
that as a broken tie)."""
import re
import sys

PRELUDE = '''#ifdef RKCOMMON_VERIF
// Verification hook (add-only): named scheduling points between the shared-memory
// accesses of AsyncLoop.  With RKCOMMON_VERIF undefined the macros expand to
// nothing; with it defined they call an installed function, if any.
namespace rkcommon {
  namespace tasking {
    namespace verif {
      typedef void (*SchedPointFcn)(const char *);
      inline std::atomic<SchedPointFcn> &schedPointHook()
      {
        static std::atomic<SchedPointFcn> hook{nullptr};
        return hook;
      }
      inline void schedPoint(const char *name)
      {
        SchedPointFcn f = schedPointHook().load();
        if (f)
          f(name);
      }
      struct SchedPointAtScopeExit
      {
        const char *name;
        ~SchedPointAtScopeExit()
        {
          schedPoint(name);
        }
      };
    }  // namespace verif
  }  // namespace tasking
}  // namespace rkcommon
#define RKCOMMON_VERIF_POINT(name) ::rkcommon::tasking::verif::schedPoint(name)
#define RKCOMMON_VERIF_POINT_AT_SCOPE_EXIT(name)                               \\
  ::rkcommon::tasking::verif::SchedPointAtScopeExit rkcommonVerifScopeExit     \\
  {                                                                            \\
    name                                                                       \\
  }
#else
#define RKCOMMON_VERIF_POINT(name)
#define RKCOMMON_VERIF_POINT_AT_SCOPE_EXIT(name)
#endif

'''


def instrument(text):
    if "RKCOMMON_VERIF_POINT" in text:
        return text, []
    lines = text.split("\n")
    out = []
    fn = None          # 'loop' | 'dtor' | 'start' | 'stop'
    missing = set(["prelude", "loop.top", "loop.alive1", "loop.alive2", "loop.published", "loop.run",
                   "loop.body_done", "loop.norun", "loop.pred", "loop.wait_done", "loop.iter_end",
                   "dtor.enter", "dtor.locked", "dtor.alive_cleared", "dtor.written", "dtor.unlocked",
                   "dtor.notified", "start.enter", "start.before_lock", "start.locked", "start.written",
                   "start.unlocked", "stop.enter", "stop.before_clear", "stop.cleared", "stop.yield"])
    else_indent = None
    in_else = False
    in_wait = False
    locked = False
    pending_enter = None

    def pt(indent, name, macro="RKCOMMON_VERIF_POINT"):
        out.append("%s%s(\"%s\");" % (" " * indent, macro, name))
        missing.discard(name)

    for ln in lines:
        st = ln.strip()
        ind = len(ln) - len(ln.lstrip())
        if st == '#include "tasking_system_init.h"':
            out.append(ln)
            out.append("")
            out.extend(PRELUDE.rstrip("\n").split("\n"))
            missing.discard("prelude")
            continue
        # which function are we in
        if re.match(r"auto mainLoop = \[l, fcn\]\(\) \{$", st):
            fn = "loop"
            out.append(ln)
            pt(ind + 2, "loop.top")
            continue
        if re.match(r"inline AsyncLoop::~AsyncLoop\(\)$", st):
            fn, pending_enter, locked = "dtor", "dtor.enter", False
        elif re.match(r"inline void AsyncLoop::start\(\)$", st):
            fn, pending_enter, locked = "start", "start.enter", False
        elif re.match(r"inline void AsyncLoop::stop\(\)$", st):
            fn, pending_enter, locked = "stop", "stop.enter", False
        if pending_enter and st == "{":
            out.append(ln)
            pt(ind + 2, pending_enter)
            pending_enter = None
            continue
        out.append(ln)
        if fn == "loop":
            if re.match(r"while \(l->threadShouldBeAlive\) \{$", st):
                pt(ind + 2, "loop.alive1")
            elif st == "return;" and not in_wait:
                pt(ind - 2, "loop.alive2")
            elif st == "l->insideLoopBody = true;":
                pt(ind, "loop.published")
            elif re.match(r"if \(l->shouldBeRunning\) \{$", st):
                pt(ind + 2, "loop.run")
            elif st == "fcn();":
                pt(ind, "loop.body_done")
            elif st == "} else {":
                else_indent, in_else = ind, True
                pt(ind + 2, "loop.norun")
            elif st == "l->insideLoopBody = false;" and in_else:
                pt(ind, "loop.before_lock")
            elif re.match(r"l->runningCond\.wait\(lock, \[&\] \{$", st):
                in_wait = True
                pt(ind + 2, "loop.pred")
                pt(ind + 2, "loop.pred_done", "RKCOMMON_VERIF_POINT_AT_SCOPE_EXIT")
            elif st == "});" and in_wait:
                in_wait = False
                pt(ind, "loop.wait_done")
            elif st == "}" and in_else and ind == else_indent:
                in_else = False
                out.append("%sRKCOMMON_VERIF_POINT(\"loop.top\");" % (" " * ind))
                missing.discard("loop.iter_end")
            elif st == "};":
                fn = None
        elif fn in ("dtor", "start"):
            if re.match(r"if \(!loop->shouldBeRunning\) \{$", st) and fn == "start":
                pt(ind + 2, "start.before_lock")
            elif re.match(r"std::unique_lock<std::mutex> lock\(loop->runningMutex\);$", st):
                locked = True
                pt(ind, fn + ".locked")
            elif re.match(r"loop->threadShouldBeAlive\s*=\s*false;$", st) and fn == "dtor":
                pt(ind, "dtor.alive_cleared")
            elif re.match(r"loop->shouldBeRunning\s*=\s*(false|true);$", st):
                pt(ind, fn + ".written")
            elif st == "}" and locked:
                locked = False
                pt(ind, fn + ".unlocked")
            elif st == "loop->runningCond.notify_one();" and fn == "dtor":
                pt(ind, "dtor.notified")
        elif fn == "stop":
            if re.match(r"if \(loop->shouldBeRunning\) \{$", st):
                pt(ind + 2, "stop.before_clear")
            elif re.match(r"loop->shouldBeRunning\s*=\s*false;$", st):
                pt(ind, "stop.cleared")
            elif re.match(r"while \(loop->insideLoopBody\.load\(\)\) \{$", st):
                pt(ind + 2, "stop.yield")
    # points that exist only in one of the two code shapes
    missing.discard("loop.before_lock")
    return "\n".join(out), sorted(missing)


def main():
    src, dst = sys.argv[1], sys.argv[2]
    text, missing = instrument(open(src).read())
    if missing:
        sys.stderr.write("c03_hooks: anchors not found for: %s\n" % ", ".join(missing))
        sys.exit(2)
    open(dst, "w").write(text)


if __name__ == "__main__":
    main()
