#!/bin/sh
# tools/apply_fix.sh <Cxx-slug>: apply fixes/<slug>.patch to /repo as one "fix:" commit and record the sha.
set -e
slug="$1"
cd /repo
git apply --check /verif/fixes/$slug.patch
git apply /verif/fixes/$slug.patch
git add -A rkcommon
git commit -q -m "$(cat /verif/fixes/$slug.msg)"
sha=$(git rev-parse --short HEAD)
echo "$slug -> $sha"
python3 - "$slug" "$sha" <<'PY'
import json,sys
slug,sha=sys.argv[1],sys.argv[2]
p='/verif/known_findings.json'
d=json.load(open(p))
for f in d['findings']:
    if f['id']==slug:
        f['commit']=sha; f['status']='fixed'
        f['line']="fixed: property=%s %s %s"%(f['property'],sha,f['text'])
json.dump(d,open(p,'w'),indent=1)
PY
