#!/usr/bin/env python3
"""cpp2lean — translate the instantiated bodies of pure C++ expression code (clang-14 JSON AST)
into Lean 4 definitions over an abstract scalar type `α` with `[CNum α]` (tie T of DESIGN 3.2).

Usage (library): see props/c05.py.  Command line:
    cpp2lean.py <driver.cpp> <out.lean> --ns <LeanNamespace> [--define X]... [--scalar float]

The *driver translation unit* declares, inside `namespace rkcommon { namespace math { namespace vdrv {`,
one small wrapper function per entity to be covered.  Each wrapper becomes a Lean `def` with the
wrapper's own (stable) name; everything it calls in rkcommon is translated recursively from the
instantiated AST (names mangled from the C++ name and parameter types).  Anything outside the
supported subset raises `Unsupported` — the caller treats that as a broken tie (fail closed), never
as a silent skip.

Supported: parameters, const/mutable locals of value type, member access, unary/binary/conditional
operators, calls to translated functions/methods/constructors/conversion operators, std::min/max and a fixed
list of libm functions, ZeroTy/OneTy/PosInfTy/... conversions, `this->f = e` and `local.f = e`
(functional update), non-const methods called on a local or on *this (the new value is threaded),
`if (c) return e;` chains, `if/else` with assignments, compound assignment operators on locals/fields.
"""
import json
import os
import re
import subprocess
import sys


class Unsupported(Exception):
    pass


def load_ast(path):
    s = open(path).read()
    dec = json.JSONDecoder()
    i, objs = 0, []
    n = len(s)
    while i < n:
        while i < n and s[i].isspace():
            i += 1
        if i >= n:
            break
        o, j = dec.raw_decode(s, i)
        objs.append(o)
        i = j
    return objs


def run_clang(driver_cpp, out_json, includes, defines=(), filt="rkcommon::"):
    cmd = ["clang++-14", "-std=gnu++17", "-fsyntax-only", "-Wno-everything"]
    for i in includes:
        cmd += ["-I", i]
    for d in defines:
        cmd += ["-D" + d]
    cmd += ["-Xclang", "-ast-dump=json", "-Xclang", "-ast-dump-filter=" + filt, driver_cpp]
    with open(out_json, "w") as fh:
        p = subprocess.run(cmd, stdout=fh, stderr=subprocess.PIPE)
    if p.returncode != 0:
        raise Unsupported("clang failed: " + p.stderr.decode()[-2000:])


FUNC_KINDS = ("FunctionDecl", "CXXMethodDecl", "CXXConstructorDecl", "CXXConversionDecl")
RECORD_KINDS = ("CXXRecordDecl", "ClassTemplateSpecializationDecl")
TRANSPARENT = ("ExprWithCleanups", "MaterializeTemporaryExpr", "ParenExpr", "CXXBindTemporaryExpr",
               "ConstantExpr", "CXXFunctionalCastExpr", "CStyleCastExpr", "CXXStaticCastExpr", "SubstNonTypeTemplateParmExpr")
ARITH_CASTS = ("IntegralCast", "IntegralToFloating", "FloatingToIntegral", "FloatingCast", "IntegralToBoolean",
               "FloatingToBoolean", "BooleanToSignedIntegral")
TRANSPARENT_CASTS = ("LValueToRValue", "NoOp", "FunctionToPointerDecay", "DerivedToBase", "UncheckedDerivedToBase",
                     "ConstructorConversion", "UserDefinedConversion", "ArrayToPointerDecay", None)
SCALARS_FLOAT = ("float", "double", "long double")
SCALARS_INT = ("int", "unsigned int", "long", "unsigned long", "long long", "unsigned long long", "short", "unsigned short",
               "char", "signed char", "unsigned char", "size_t", "int32_t", "uint32_t", "int64_t", "uint64_t", "int8_t",
               "uint8_t", "int16_t", "uint16_t", "std::size_t", "__int128")
LIBM = {"sqrt": "CNum.sqrt", "sqrtf": "CNum.sqrt", "sin": "CNum.sin", "sinf": "CNum.sin", "cos": "CNum.cos", "cosf": "CNum.cos",
        "abs": "CNum.abs", "fabs": "CNum.abs", "fabsf": "CNum.abs", "acos": "CNum.acos", "acosf": "CNum.acos",
        "tan": "CNum.tan", "tanf": "CNum.tan", "floor": "CNum.floor", "floorf": "CNum.floor",
        "atan2": "CNum.atan2", "atan2f": "CNum.atan2", "asin": "CNum.asin", "asinf": "CNum.asin",
        "pow": "CNum.pow", "powf": "CNum.pow", "exp": "CNum.exp", "expf": "CNum.exp"}
CONST_TYPES = {"ZeroTy": "(0 : α)", "OneTy": "(1 : α)", "PosInfTy": "CNum.posInf", "NegInfTy": "CNum.negInf",
               "PiTy": "CNum.pi", "TwoPiTy": "(2 * CNum.pi)", "NaNTy": "CNum.nan", "UlpTy": "CNum.ulp",
               "OneOverPiTy": "(1 / CNum.pi)", "FlattenedTy": None}
LEAN_KEYWORDS = {"from", "to", "end", "at", "in", "do", "then", "else", "if", "let", "have", "show", "fun", "by", "open",
                 "def", "theorem", "structure", "class", "instance", "where", "with", "match", "Type", "Prop", "Sort",
                 "local", "private", "protected", "section", "namespace", "variable", "universe", "import", "export",
                 "macro", "syntax", "notation", "prefix", "infix", "postfix", "deriving", "extends", "mutual", "partial", "unsafe",
                 "abbrev", "axiom", "example", "inductive", "return", "for", "unless", "try", "catch", "finally", "break", "continue",
                 "using", "calc", "nomatch", "nofun", "true", "false", "max", "min", "abs", "id", "self", "this", "rec", "org", "dir"}


def norm_type(q):
    """Canonical spelling of a (desugared) C++ type, used as a key for records."""
    q = re.sub(r"\b(const|volatile|struct|class)\b", "", q)
    q = q.replace("&", "").replace("rkcommon::math::", "").replace("rkcommon::", "")
    q = re.sub(r"\s+", "", q)
    q = q.replace("false", "0").replace("true", "1")
    q = q.replace(",void>", ">")
    # alias template box_t<T,N,A> = range_t<vec_t<T,N,A>> (box.h); clang leaves it sugared in some positions
    m = re.search(r"box_t<([^<>]*)>", q)
    while m:
        args = m.group(1).split(",")
        if len(args) == 2:
            args.append("0")
        q = q[:m.start()] + "range_t<vec_t<" + ",".join(args) + ">>" + q[m.end():]
        m = re.search(r"box_t<([^<>]*)>", q)
    q = re.sub(r"vec_t<([^<>,]+),(\d+)>", r"vec_t<\1,\2,0>", q)
    return q


class Translator:
    def __init__(self, objs, scalar="float", drv_ns="vdrv", struct_names=None, opaque_scalar_fns=()):
        self.scalar = scalar
        self.drv_ns = drv_ns
        self.decls = {}          # id -> function-like node with body
        self.decl_nobody = {}    # id -> function-like node (declaration only)
        self.parent = {}         # id -> parent node
        self.records = {}        # id -> record node
        self.field_owner = {}    # field id -> record id
        self.rec_by_key = {}     # norm type -> record id
        self.names = {}          # decl id -> lean name
        self.out = []            # emitted defs in order
        self.done = set()
        self.struct_out = []
        self.struct_done = {}
        self.struct_names = dict(struct_names or {})
        self.meta = []           # manifest entries
        self.drv_funcs = []
        self.opaque = set(opaque_scalar_fns)
        self.var_types = {}
        self.aliases = {}
        self.failed = {}
        self.rec_aliases = {}
        self.struct_fields = {}
        self.signatures = {}     # driver function name -> ([(param name, lean type)], return lean type)
        for o in objs:
            self._index(o, None, [])

    # ---------------------------------------------------------------- indexing
    def _index(self, n, parent, nspath):
        k = n.get("kind")
        nid = n.get("id")
        if nid:
            self.parent[nid] = parent
        if k in FUNC_KINDS and nid:
            if any(c.get("kind") == "CompoundStmt" for c in n.get("inner", [])):
                self.decls[nid] = n
                if k == "FunctionDecl" and nspath and nspath[-1] == self.drv_ns:
                    self.drv_funcs.append(n)
            else:
                self.decl_nobody[nid] = n
        if k in ("TypeAliasDecl", "TypedefDecl") and n.get("name") and "type" in n:
            self.aliases.setdefault(n["name"], self.qt(n["type"]))
        if k in RECORD_KINDS and nid and n.get("completeDefinition"):
            self.records[nid] = n
            for c in n.get("inner", []):
                if c.get("kind") == "FieldDecl":
                    self.field_owner[c["id"]] = nid
                if c.get("kind") in ("TypeAliasDecl", "TypedefDecl") and c.get("name") and "type" in c:
                    self.rec_aliases[(nid, c["name"])] = self.qt(c["type"])
            key = self._record_key(n, parent)
            if key:
                self.rec_by_key.setdefault(key, nid)
        np = nspath + [n.get("name")] if k == "NamespaceDecl" else nspath
        for c in n.get("inner", []):
            self._index(c, n, np)

    def _record_key(self, n, parent):
        name = n.get("name")
        if not name:
            return None
        if n["kind"] == "ClassTemplateSpecializationDecl":
            args = []
            for c in n.get("inner", []):
                if c.get("kind") == "TemplateArgument":
                    if "type" in c:
                        args.append(c["type"].get("desugaredQualType") or c["type"]["qualType"])
                    elif "value" in c:
                        args.append("1" if str(c["value"]) == "-1" else str(c["value"]))
                    else:
                        # expression / pack argument: look for a nested value
                        v = self._find_value(c)
                        args.append(str(v) if v is not None else "?")
            return norm_type(name + "<" + ",".join(args) + ">")
        return norm_type(name)

    def _find_value(self, n):
        if "value" in n:
            return n["value"]
        for c in n.get("inner", []):
            v = self._find_value(c)
            if v is not None:
                return v
        return None

    # ---------------------------------------------------------------- types
    @staticmethod
    def qt(t):
        return t.get("desugaredQualType") or t.get("qualType")

    def record_of_type(self, q):
        if "::" in q.replace("rkcommon::math::", "").replace("rkcommon::", "") and "<" in q:
            q = self.desugar(q)
        key = norm_type(q.replace("*", ""))
        rid = self.rec_by_key.get(key)
        if rid is None and key in self.aliases:
            return self.record_of_type(self.aliases[key])
        if rid is None:
            # defaulted template arguments may be spelled or omitted: try prefix match
            base = key.rstrip(">")
            cands = [r for k2, r in self.rec_by_key.items() if k2.startswith(base) and (k2[len(base):] in (">", ",0>", ",0,void>"))]
            if len(cands) == 1:
                rid = cands[0]
        return rid

    def desugar(self, q, depth=0):
        """Resolve `typename X::Name` member typedefs (possibly nested, possibly inside template arguments)."""
        if depth > 8:
            return q
        def repl(m):
            owner_txt, nm = m.group(1), m.group(2)
            owner = self.record_of_type(self.desugar(owner_txt, depth + 1))
            if owner is not None and (owner, nm) in self.rec_aliases:
                return self.desugar(self.rec_aliases[(owner, nm)], depth + 1)
            return m.group(0)
        # innermost-first: an owner without nested '::Name' suffixes after template close
        prev = None
        while prev != q:
            prev = q
            q = re.sub(r"(?:typename\s+)?((?:rkcommon::math::|rkcommon::)?\w+<(?:[^<>]|<(?:[^<>]|<[^<>]*>)*>)*>)::(\w+)", repl, q, count=1)
        return q

    def lean_type(self, q):
        q = self.desugar(q)
        q0 = q
        q = re.sub(r"\b(const|volatile|struct|class)\b", "", q).replace("&", "").strip()
        if q.endswith("*"):
            raise Unsupported("pointer type " + q0)
        if q == "bool":
            return "Bool"
        if q == "void":
            return "Unit"
        if q == self.scalar or (self.scalar in SCALARS_FLOAT and q in SCALARS_FLOAT):
            return "α"
        if q in SCALARS_INT or re.match(r"(unsigned |signed )?(int|long|short|char)( long)?( int)?$", q):
            return "α" if self.scalar in SCALARS_INT and q == self.scalar else "Int"
        m = re.match(r"(?:rkcommon::math::|rkcommon::)?(\w+Ty)$", q)
        if m:
            return "Unit"
        if q.startswith("std::less<"):
            return "Unit"   # stateless comparison functor
        rid = self.record_of_type(q)
        if rid is None:
            mm = re.match(r"^(?:typename\s+)?(.+)::(\w+)$", q)
            if mm:
                owner = self.record_of_type(mm.group(1))
                if owner is not None and (owner, mm.group(2)) in self.rec_aliases:
                    return self.lean_type(self.rec_aliases[(owner, mm.group(2))])
        if rid is None:
            base = q.split("::")[-1].strip()
            if base in self.aliases and self.aliases[base] != q:
                return self.lean_type(self.aliases[base])
            raise Unsupported("unknown type " + q0)
        return self.struct_type(rid)

    def struct_type(self, rid):
        rec = self.records[rid]
        if re.match(r"\w+Ty$", rec.get("name", "")) and not self.fields_of(rid):
            return "Unit"   # tag types (ZeroTy, PosInfTy, EmptyTy, ...)
        return self.struct_for(rid) + " α"

    def struct_for(self, rid):
        if rid in self.struct_done:
            return self.struct_done[rid]
        rec = self.records[rid]
        key = self._record_key(rec, None)
        name = self.struct_names.get(key)
        if not name:
            name = re.sub(r"[^A-Za-z0-9]+", "_", key).strip("_")
            name = name[0].upper() + name[1:]
        self.struct_done[rid] = name
        fields = [c for c in rec.get("inner", []) if c.get("kind") == "FieldDecl"]
        lines = ["structure %s (α : Type) where" % name]
        if not fields:
            lines = ["structure %s (α : Type) where\n  mk ::" % name]
        self.struct_fields[name] = []
        for f in fields:
            ft = self.lean_type(self.qt(f["type"]))
            self.struct_fields[name].append((f["name"], ft))
            lines.append("  %s : %s" % (self.ident(f["name"]), ft))
        self.struct_out.append("\n".join(lines) + "\nderiving Repr, DecidableEq, Inhabited\n")
        self.meta.append(dict(kind="struct", lean=name, cxx=key, fields=[f["name"] for f in fields]))
        return name

    def fields_of(self, rid):
        return [c["name"] for c in self.records[rid].get("inner", []) if c.get("kind") == "FieldDecl"]

    @staticmethod
    def ident(n):
        n = n or "p"
        if n in LEAN_KEYWORDS or n.startswith("_"):
            return "v_" + n.lstrip("_")
        return n

    # ---------------------------------------------------------------- names
    def owner_record(self, d):
        p = self.parent.get(d["id"])
        if p is not None and p.get("kind") == "FunctionTemplateDecl":
            p = self.parent.get(p.get("id"))
        if p is not None and p.get("kind") in RECORD_KINDS:
            return p["id"]
        pid = d.get("parentDeclContextId")
        if pid in self.records:
            return pid
        return None

    def type_tag(self, q):
        try:
            t = self.lean_type(q)
        except Unsupported:
            return "X"
        return {"α": "S"}.get(t, t.replace(" α", ""))

    def fname(self, d):
        if d["id"] in self.names:
            return self.names[d["id"]]
        base = d.get("name", "f")
        ops = {"operator+": "add", "operator-": "sub", "operator*": "mul", "operator/": "div", "operator%": "mod",
               "operator==": "eq", "operator!=": "ne", "operator<": "lt", "operator>": "gt", "operator<=": "le",
               "operator>=": "ge", "operator+=": "addAssign", "operator-=": "subAssign", "operator*=": "mulAssign",
               "operator/=": "divAssign", "operator%=": "modAssign", "operator[]": "index", "operator()": "call",
               "operator=": "assign", "operator!": "not"}
        base = ops.get(base, base)
        base = re.sub(r"[^A-Za-z0-9_]", "_", base)
        params = [c for c in d.get("inner", []) if c.get("kind") == "ParmVarDecl"]
        sig = "_".join(self.type_tag(self.qt(p["type"])) for p in params)
        cls = ""
        rid = self.owner_record(d)
        if rid is not None:
            cls = (self.records[rid].get("name") if self.struct_type(rid) == "Unit" else self.struct_for(rid)) + "_"
        if d["kind"] == "CXXConstructorDecl":
            n = "%smk_%s" % (cls, sig) if sig else "%smk" % cls
        elif d["kind"] == "CXXConversionDecl":
            n = "%sto_%s" % (cls, self.type_tag(self.qt(d["type"]).split("(")[0]))
        else:
            n = "%s%s_%s" % (cls, base, sig) if sig else cls + base
        if d["id"] in [f["id"] for f in self.drv_funcs]:
            n = d["name"]
        k, i = n, 2
        while k in self.names.values():
            k = "%s_%d" % (n, i)
            i += 1
        self.names[d["id"]] = k
        return k

    # ---------------------------------------------------------------- expressions
    def strip(self, n):
        while True:
            k = n["kind"]
            if k in TRANSPARENT:
                n = n["inner"][0]
            elif k == "ImplicitCastExpr" and n.get("castKind") in TRANSPARENT_CASTS and n.get("castKind") not in ("ConstructorConversion", "UserDefinedConversion"):
                n = n["inner"][0]
            else:
                return n

    def callee_decl(self, node):
        n = node
        while n["kind"] in ("ImplicitCastExpr", "ParenExpr"):
            n = n["inner"][0]
        if n["kind"] == "DeclRefExpr":
            return n["referencedDecl"]
        return None

    def call_fn(self, did, name, args, node):
        if did in self.decls:
            return "(" + " ".join([self.translate(self.decls[did])] + args) + ")"
        raise Unsupported("call to function without translated body: %s" % name)

    def is_scalar_type(self, q):
        try:
            return self.lean_type(q) in ("α", "Int")
        except Unsupported:
            return False

    def expr(self, n, env):
        k = n["kind"]
        inner = n.get("inner", [])
        if k in TRANSPARENT:
            return self.expr(inner[0], env)
        if k == "ImplicitCastExpr":
            ck = n.get("castKind")
            if ck in ARITH_CASTS:
                src = self.lean_type(self.qt(inner[0]["type"]))
                dst = self.lean_type(self.qt(n["type"]))
                e = self.expr(inner[0], env)
                if src == dst:
                    return e
                if src == "Int" and dst == "α":
                    # integer literal / index converted to the scalar type
                    m = re.match(r"\((-?\d+) : Int\)$", e)
                    if m and int(m.group(1)) >= 0:
                        return "(%s : α)" % m.group(1)
                    return "(CNum.ofInt %s)" % e
                if src == "α" and dst == "Int":
                    return "(CNum.toInt %s)" % e
                if src == "Bool" and dst in ("Int", "α"):
                    return "(if %s then 1 else 0)" % e
                if dst == "Bool":
                    return "(decide (%s ≠ 0))" % e
                raise Unsupported("cast %s: %s -> %s" % (ck, src, dst))
            if ck in TRANSPARENT_CASTS:
                return self.expr(inner[0], env)
            raise Unsupported("cast " + str(ck))
        if k == "DeclRefExpr":
            r = n["referencedDecl"]
            if r["kind"] in ("ParmVarDecl", "VarDecl"):
                if r["id"] in env:
                    return env[r["id"]]
                # global constants such as `empty`, `zero`, `pos_inf`, `inf`
                tq = self.qt(r["type"]) if "type" in r else ""
                m = re.search(r"(\w+Ty)\b", tq)
                if m:
                    return "()"
                raise Unsupported("reference to non-local variable " + r.get("name", "?"))
            raise Unsupported("declref " + r["kind"])
        if k == "CXXThisExpr":
            return "self"
        if k == "MemberExpr":
            obj = self.expr(inner[0], env)
            return "%s.%s" % (obj, self.ident(n["name"]))
        if k == "BinaryOperator":
            op = n["opcode"]
            if op == ",":
                raise Unsupported("comma operator")
            if op == "=" or op in ("+=", "-=", "*=", "/="):
                raise Unsupported("assignment used as expression")
            a, b = self.expr(inner[0], env), self.expr(inner[1], env)
            ar = {"+": "+", "-": "-", "*": "*", "/": "/", "%": "%"}
            if op in ar:
                return "(%s %s %s)" % (a, ar[op], b)
            if op in ("&&", "||"):
                return "(%s %s %s)" % (a, op, b)
            if op in ("<", ">", "<=", ">="):
                return "(decide (%s %s %s))" % (a, {"<": "<", ">": ">", "<=": "≤", ">=": "≥"}[op], b)
            if op in ("==", "!="):
                ta = self.lean_type(self.qt(inner[0]["type"]))
                eq = "(CNum.beq %s %s)" % (a, b) if ta == "α" else "(%s == %s)" % (a, b)
                return eq if op == "==" else "(!%s)" % eq
            raise Unsupported("binop " + op)
        if k == "UnaryOperator":
            op = n["opcode"]
            if op == "*" and self.strip(inner[0])["kind"] == "CXXThisExpr":
                return "self"
            a = self.expr(inner[0], env)
            if op == "-":
                return "(-%s)" % a
            if op == "!":
                return "(!%s)" % a
            if op == "+":
                return a
            raise Unsupported("unop " + op)
        if k == "ConditionalOperator":
            c, a, b = (self.expr(x, env) for x in inner)
            return "(if %s then %s else %s)" % (c, a, b)
        if k == "FloatingLiteral":
            v = n["value"]
            s = repr(float(v))
            if "e" in s or "inf" in s or "nan" in s:
                raise Unsupported("floating literal " + v)
            return "(%s : α)" % s
        if k == "IntegerLiteral":
            t = self.lean_type(self.qt(n["type"]))
            return "(%s : %s)" % (n["value"], t)
        if k == "CXXBoolLiteralExpr":
            return "true" if n["value"] else "false"
        if k in ("CallExpr", "CXXOperatorCallExpr"):
            r = self.callee_decl(inner[0])
            if r is None:
                raise Unsupported("indirect call")
            args_n = inner[1:]
            name = r.get("name", "?")
            did = r["id"]
            if did not in self.decls:
                if name in ("min", "max") and len(args_n) == 2:
                    return "(%s %s %s)" % (name, self.expr(args_n[0], env), self.expr(args_n[1], env))
                if not args_n and name == "infinity":
                    return "CNum.posInf"
                if not args_n and name == "max":
                    return "CNum.posInf"
                if not args_n and name in ("lowest",) or (not args_n and name == "min" and self.scalar not in SCALARS_FLOAT):
                    return "CNum.negInf"
                if not args_n and name == "min":
                    return "CNum.fltMin"
                if not args_n and name == "quiet_NaN":
                    return "CNum.nan"
                if not args_n and name == "epsilon":
                    return "CNum.ulp"
                if name in LIBM:
                    return "(" + " ".join([LIBM[name]] + [self.expr(a, env) for a in args_n]) + ")"
                if name in self.opaque:
                    return "(" + " ".join(["CNum." + name] + [self.expr(a, env) for a in args_n]) + ")"
            if name == "operator=" and k == "CXXOperatorCallExpr":
                raise Unsupported("assignment used as expression")
            args = [self.expr(a, env) for a in args_n]
            d = self.decls.get(did)
            if d is not None and d["kind"] == "CXXMethodDecl":
                # operator call on a member operator: first arg is the object
                return "(" + " ".join([self.translate(d)] + args) + ")"
            return self.call_fn(did, name, args, n)
        if k == "CXXMemberCallExpr":
            me = inner[0]
            while me["kind"] in ("ParenExpr", "ImplicitCastExpr"):
                me = me["inner"][0]
            if me["kind"] != "MemberExpr":
                raise Unsupported("member call via " + me["kind"])
            obj = self.expr(me["inner"][0], env)
            mid = me["referencedMemberDecl"]
            args = [self.expr(a, env) for a in inner[1:]]
            if mid in self.decls:
                d = self.decls[mid]
                if d["kind"] == "CXXConversionDecl":
                    return self.conversion(d, obj)
                if self.is_mutating(d):
                    raise Unsupported("mutating method %s used as an expression" % d.get("name"))
                return "(" + " ".join([self.translate(d), obj] + args) + ")"
            raise Unsupported("member call without body: " + me.get("name", "?"))
        if k in ("CXXConstructExpr", "CXXTemporaryObjectExpr"):
            return self.construct(n, env)
        if k == "InitListExpr":
            raise Unsupported("init list")
        if k == "CXXDefaultArgExpr":
            return self.expr(inner[0], env) if inner else self._raise("default arg without expr")
        if k == "ArraySubscriptExpr":
            raise Unsupported("array subscript")
        raise Unsupported("expression kind " + k)

    def _raise(self, m):
        raise Unsupported(m)

    def conversion(self, d, obj):
        # user-defined conversion operator: translate as a function of the object
        return "(%s %s)" % (self.translate(d), obj)

    def construct(self, n, env):
        inner = n.get("inner", [])
        tq = self.qt(n["type"])
        T = self.lean_type(tq)
        if T in ("α", "Int", "Bool"):
            return self.expr(inner[0], env)
        if T == "Unit":
            return "()"
        args = [self.expr(a, env) for a in inner]
        rid = self.record_of_type(tq)
        ct = n["ctorType"]["qualType"]
        # copy / move construction: identity
        if len(inner) == 1:
            try:
                if self.lean_type(self.qt(inner[0]["type"])) == T:
                    cand = self._find_ctor(rid, ct)
                    if cand is None or cand.get("isImplicit") or not any(c.get("kind") == "CompoundStmt" for c in cand.get("inner", [])):
                        return args[0]
            except Unsupported:
                pass
        d = self._find_ctor(rid, ct)
        if d is None:
            if not inner:
                raise Unsupported("default construction of %s without a translated constructor" % T)
            raise Unsupported("constructor %s of %s not found" % (ct, T))
        if d["id"] not in self.decls:
            if d.get("isImplicit") or d.get("explicitlyDefaulted"):
                if len(inner) == 1:
                    return args[0]
                if not inner:
                    return "(default : %s)" % T
            raise Unsupported("constructor %s of %s has no body" % (ct, T))
        return "(" + " ".join([self.translate(self.decls[d["id"]])] + args) + ")"

    def _find_ctor(self, rid, ctor_type):
        rec = self.records[rid]
        want = norm_type(ctor_type)
        found = None
        for c in rec.get("inner", []):
            cands = []
            if c.get("kind") == "CXXConstructorDecl":
                cands = [c]
            elif c.get("kind") == "FunctionTemplateDecl":
                cands = [x for x in c.get("inner", []) if x.get("kind") == "CXXConstructorDecl"]
            for x in cands:
                if norm_type(x["type"]["qualType"]) == want or norm_type(self.qt(x["type"])) == want:
                    if x["id"] in self.decls:
                        return x
                    found = found or x
        return found

    # ---------------------------------------------------------------- statements
    def is_static(self, d):
        """storage class `static`, also for an out-of-line definition / explicit specialization of a static member
        function (the specifier is only on the in-class declaration it redeclares)"""
        seen = 0
        while d is not None and seen < 8:
            if d.get("storageClass") == "static":
                return True
            prev = d.get("previousDecl")
            d = self.decls.get(prev) or self.decl_nobody.get(prev) if prev else None
            seen += 1
        return False

    def is_mutating(self, d):
        if d["kind"] != "CXXMethodDecl":
            return False
        q = d["type"]["qualType"]
        return not q.rstrip().endswith("const") and not self.is_static(d)

    def ret_type(self, d):
        q = self._ret_type_text(d)
        try:
            self.lean_type(q)
            return q
        except Unsupported:
            # sugared / pattern spelling: take the type of the first returned expression instead
            r = self._first_return(d)
            if r is not None and r.get("inner"):
                return self.qt(r["inner"][0]["type"])
            return q

    def _first_return(self, n):
        if n.get("kind") == "ReturnStmt":
            return n
        for c in n.get("inner", []):
            if isinstance(c, dict):
                r = self._first_return(c)
                if r is not None:
                    return r
        return None

    def _ret_type_text(self, d):
        q = self.qt(d["type"])
        # return type = text before the parameter list's opening paren at depth 0
        depth = 0
        for i, ch in enumerate(q):
            if ch == "<":
                depth += 1
            elif ch == ">":
                depth -= 1
            elif ch == "(" and depth == 0:
                return q[:i].strip()
        return q

    def lvalue_root(self, n, env):
        """-> (root lean var name, decl id or 'self', [field path]) for local.f.g / this->f / local"""
        n = self.strip(n)
        path = []
        while n["kind"] == "MemberExpr":
            path.insert(0, self.ident(n["name"]))
            n = self.strip(n["inner"][0])
        if n["kind"] == "CXXThisExpr":
            return "self", "self", path
        if n["kind"] == "UnaryOperator" and n.get("opcode") == "*" and self.strip(n["inner"][0])["kind"] == "CXXThisExpr":
            return "self", "self", path
        if n["kind"] == "DeclRefExpr" and n["referencedDecl"]["id"] in env:
            return env[n["referencedDecl"]["id"]], n["referencedDecl"]["id"], path
        raise Unsupported("assignment target " + n["kind"])

    @staticmethod
    def update(root, path, value):
        if not path:
            return value
        # nested functional update
        def upd(obj, p):
            if len(p) == 1:
                return "{ %s with %s := %s }" % (obj, p[0], value)
            return "{ %s with %s := %s }" % (obj, p[0], upd("%s.%s" % (obj, p[0]), p[1:]))
        return upd(root, path)

    def assign_stmt(self, s, env):
        """Recognise an assignment-like expression statement. Returns (root var, new value expr) or None."""
        e = self.strip(s)
        k = e["kind"]
        if k == "BinaryOperator" and e["opcode"] == "=":
            root, rid, path = self.lvalue_root(e["inner"][0], env)
            return root, self.update(root, path, self.expr(e["inner"][1], env))
        if k == "CompoundAssignOperator":
            op = e["opcode"][0]
            root, rid, path = self.lvalue_root(e["inner"][0], env)
            cur = ".".join([root] + path)
            return root, self.update(root, path, "(%s %s %s)" % (cur, op, self.expr(e["inner"][1], env)))
        if k == "CXXOperatorCallExpr":
            r = self.callee_decl(e["inner"][0])
            nm = r.get("name", "")
            if nm == "operator=":
                root, rid, path = self.lvalue_root(e["inner"][1], env)
                rhs = self.expr(e["inner"][2], env)
                d = self.decls.get(r["id"])
                if d is not None and not d.get("isImplicit"):
                    cur = ".".join([root] + path)
                    return root, self.update(root, path, "(%s %s %s)" % (self.translate(d), cur, rhs))
                return root, self.update(root, path, rhs)
            if nm in ("operator+=", "operator-=", "operator*=", "operator/=", "operator%=") and r["id"] in self.decls:
                d = self.decls[r["id"]]
                root, rid, path = self.lvalue_root(e["inner"][1], env)
                cur = ".".join([root] + path)
                args = [cur] + [self.expr(a, env) for a in e["inner"][2:]]
                return root, self.update(root, path, "(" + " ".join([self.translate(d)] + args) + ")")
            return None
        if k == "CXXMemberCallExpr":
            me = self.strip(e["inner"][0])
            mid = me.get("referencedMemberDecl")
            if mid in self.decls and self.is_mutating(self.decls[mid]):
                d = self.decls[mid]
                root, rid, path = self.lvalue_root(me["inner"][0], env)
                cur = ".".join([root] + path)
                args = [cur] + [self.expr(a, env) for a in e["inner"][1:]]
                if norm_type(self.ret_type(d)) != "void":
                    raise Unsupported("mutating method with a result: " + d.get("name", "?"))
                return root, self.update(root, path, "(" + " ".join([self.translate(d)] + args) + ")")
        return None

    def stmts(self, ss, env, final, ind="  "):
        """Translate a statement list into a Lean term. `final` is the term to produce when the list falls
        through (for void mutating methods: the threaded `self`)."""
        if not ss:
            if final is None:
                raise Unsupported("control reaches the end of a non-void function")
            return final
        s, rest = ss[0], ss[1:]
        k = s["kind"]
        if k == "CompoundStmt":
            return self.stmts(s.get("inner", []) + rest, env, final, ind)
        if k == "NullStmt":
            return self.stmts(rest, env, final, ind)
        if k == "ReturnStmt":
            if not s.get("inner"):
                return final
            # `return a = e;` / `return a op= e;` on a whole local or parameter (the compound assignment operators of
            # LinearSpace / AffineSpace / Quaternion): the value of the assignment expression is the new value of `a`
            r = self.strip(s["inner"][0])
            if (r["kind"] == "BinaryOperator" and r.get("opcode") == "=") or r["kind"] == "CompoundAssignOperator" or \
                    (r["kind"] == "CXXOperatorCallExpr" and self.callee_decl(r["inner"][0]).get("name", "") in
                     ("operator=", "operator+=", "operator-=", "operator*=", "operator/=")):
                tgt = r["inner"][1] if r["kind"] == "CXXOperatorCallExpr" else r["inner"][0]
                root, rid, path = self.lvalue_root(tgt, env)
                if path:
                    raise Unsupported("returned assignment to a member")
                a = self.assign_stmt(s["inner"][0], env)
                if a is None:
                    raise Unsupported("returned assignment")
                return a[1]
            return self.expr(s["inner"][0], env)
        if k == "DeclStmt":
            out = []
            env2 = dict(env)
            for v in s["inner"]:
                if v["kind"] in ("TypedefDecl", "TypeAliasDecl", "UsingDecl", "StaticAssertDecl"):
                    continue
                if v["kind"] != "VarDecl":
                    raise Unsupported("declaration " + v["kind"])
                vn = self.ident(v["name"])
                if vn in env2.values():
                    vn = vn + "'"
                T = self.lean_type(self.qt(v["type"]))
                init = [c for c in v.get("inner", []) if "kind" in c and not c["kind"].endswith("Attr")]
                if not init:
                    raise Unsupported("uninitialised local " + v["name"])
                val = self.expr(init[0], env2)
                env2[v["id"]] = vn
                out.append("let %s : %s := %s" % (vn, T, val))
            body = self.stmts(rest, env2, final, ind)
            return ("\n" + ind).join(out + [body])
        if k == "IfStmt":
            parts = [c for c in s["inner"]]
            cond = self.expr(parts[0], env)
            th = parts[1]
            el = parts[2] if len(parts) > 2 else None
            if self.always_returns(th) and (el is None or self.always_returns(el)):
                t = self.stmts([th], env, None, ind + "  ")
                e = self.stmts(([el] if el is not None else []) + rest, env, final, ind + "  ")
                return "if %s then\n%s  %s\n%selse\n%s  %s" % (cond, ind, t, ind, ind, e)
            # branches that assign: thread the assigned variables
            assigned = sorted(self.assigned_vars(th, env) | (self.assigned_vars(el, env) if el is not None else set()))
            if not assigned:
                raise Unsupported("if statement without effect")
            if self.contains_return(th) or (el is not None and self.contains_return(el)):
                raise Unsupported("if statement mixing return and assignment")
            tup = assigned[0] if len(assigned) == 1 else "(" + ", ".join(assigned) + ")"
            t = self.stmts([th], env, tup, ind + "  ")
            e = self.stmts([el], env, tup, ind + "  ") if el is not None else tup
            body = self.stmts(rest, env, final, ind)
            return "let %s := if %s then\n%s  %s\n%selse\n%s  %s\n%s%s" % (tup, cond, ind, t, ind, ind, e, ind, body)
        if k in ("ForStmt", "WhileStmt", "DoStmt", "CXXForRangeStmt", "SwitchStmt"):
            raise Unsupported("loop/switch statement " + k)
        # expression statements
        a = self.assign_stmt(s, env)
        if a is not None:
            root, val = a
            body = self.stmts(rest, env, final, ind)
            return "let %s := %s\n%s%s" % (root, val, ind, body)
        e = self.strip(s)
        if e["kind"] in ("CallExpr",) and self.callee_decl(e["inner"][0]) and self.callee_decl(e["inner"][0]).get("name") in ("assert", "__assert_fail"):
            return self.stmts(rest, env, final, ind)
        if e["kind"] == "CStyleCastExpr" or (e["kind"] == "ConditionalOperator" and "__assert_fail" in json.dumps(e)):
            return self.stmts(rest, env, final, ind)  # assert() expansion / (void)x
        raise Unsupported("statement " + e["kind"])

    def always_returns(self, s):
        if s is None:
            return False
        k = s["kind"]
        if k == "ReturnStmt":
            return True
        if k == "CompoundStmt":
            inner = s.get("inner", [])
            return bool(inner) and self.always_returns(inner[-1])
        if k == "IfStmt":
            p = s["inner"]
            return len(p) > 2 and self.always_returns(p[1]) and self.always_returns(p[2])
        return False

    def contains_return(self, s):
        if s is None:
            return False
        if s.get("kind") == "ReturnStmt":
            return True
        return any(self.contains_return(c) for c in s.get("inner", []) if isinstance(c, dict))

    def assign_root(self, s, env):
        """Root variable an expression statement assigns to (without translating the value), or None."""
        e = self.strip(s)
        k = e["kind"]
        try:
            if k == "BinaryOperator" and e["opcode"] == "=":
                return self.lvalue_root(e["inner"][0], env)[0]
            if k == "CompoundAssignOperator":
                return self.lvalue_root(e["inner"][0], env)[0]
            if k == "CXXOperatorCallExpr":
                r = self.callee_decl(e["inner"][0])
                if r and r.get("name", "") in ("operator=", "operator+=", "operator-=", "operator*=", "operator/=", "operator%="):
                    return self.lvalue_root(e["inner"][1], env)[0]
            if k == "CXXMemberCallExpr":
                me = self.strip(e["inner"][0])
                mid = me.get("referencedMemberDecl")
                if mid in self.decls and self.is_mutating(self.decls[mid]):
                    return self.lvalue_root(me["inner"][0], env)[0]
        except Unsupported:
            return None
        return None

    def assigned_vars(self, s, env):
        res = set()
        if s is None:
            return res
        if s["kind"] == "CompoundStmt":
            env2 = dict(env)
            local_names = set()
            for c in s.get("inner", []):
                if c.get("kind") == "DeclStmt":
                    for v in c.get("inner", []):
                        if v.get("kind") == "VarDecl":
                            env2[v["id"]] = "\0local:" + v["name"]
                            local_names.add("\0local:" + v["name"])
                res |= self.assigned_vars(c, env2)
            return {r for r in res if r not in local_names}
        if s["kind"] == "IfStmt":
            for c in s["inner"][1:]:
                res |= self.assigned_vars(c, env)
            return res
        a = self.assign_root(s, env)
        if a:
            res.add(a)
        return res

    # ---------------------------------------------------------------- functions
    def translate(self, d):
        name = self.fname(d)
        if d["id"] in self.done:
            return name
        if d["id"] in self.failed:
            raise Unsupported(self.failed[d["id"]])
        self.done.add(d["id"])
        try:
            return self._translate(d, name)
        except Unsupported as e:
            self.done.discard(d["id"])
            self.failed[d["id"]] = "%s <- in %s" % (e, name)
            raise Unsupported(self.failed[d["id"]])

    def _translate(self, d, name):
        params = [c for c in d.get("inner", []) if c.get("kind") == "ParmVarDecl"]
        env, sig = {}, []
        rid = self.owner_record(d)
        is_method = d["kind"] in ("CXXMethodDecl", "CXXConversionDecl") and not self.is_static(d)
        selfT = None
        if is_method or d["kind"] == "CXXConstructorDecl":
            if rid is None:
                raise Unsupported("method %s without a known class" % name)
            selfT = self.struct_type(rid)
        if is_method:
            sig.append("(self : %s)" % selfT)
        used = set()
        for p in params:
            pn = self.ident(p.get("name") or "p%d" % len(sig))
            while pn in used:
                pn += "'"
            used.add(pn)
            env[p["id"]] = pn
            sig.append("(%s : %s)" % (pn, self.lean_type(self.qt(p["type"]))))
        body = [c for c in d["inner"] if c.get("kind") == "CompoundStmt"][0]
        if d["kind"] == "FunctionDecl" and d["id"] in [f["id"] for f in self.drv_funcs]:
            self.signatures[d["name"]] = ([(p.get("name"), self.lean_type(self.qt(p["type"]))) for p in params],
                                          self.lean_type(self.ret_type(d)))
        loc = d.get("loc", {})
        rng = d.get("range", {})
        self.meta.append(dict(kind="def", lean=name, cxx=d.get("name"), type=d["type"]["qualType"],
                              line=(loc.get("line") or loc.get("expansionLoc", {}).get("line") or loc.get("spellingLoc", {}).get("line"))))
        if d["kind"] == "CXXConstructorDecl":
            inits = [c for c in d["inner"] if c.get("kind") == "CXXCtorInitializer"]
            fields = self.fields_of(rid)
            fs = {}
            for c in inits:
                if "anyInit" not in c:
                    if "baseInit" in c and "vec_base" in c["baseInit"].get("qualType", ""):
                        continue  # empty tag base class
                    raise Unsupported("base/delegating initialiser in " + name)
                fs[c["anyInit"]["name"]] = self.expr(c["inner"][0], env)
            stm = body.get("inner", [])
            missing = [f for f in fields if f not in fs]
            # fields left uninitialised by the constructor (e.g. padding_) get an arbitrary but fixed value
            for f in missing:
                if f.startswith("padding") or f.startswith("pad") or f.startswith("align"):
                    fs[f] = "(0 : α)"
                else:
                    # default-initialised member (indeterminate value in C++): an arbitrary fixed placeholder;
                    # theorems can only go through when the body assigns it before use
                    fs[f] = "default"
            init = "{ " + ", ".join("%s := %s" % (self.ident(f), fs[f]) for f in fields) + " }"
            if stm:
                b = "let self : %s := %s\n  %s" % (selfT, init, self.stmts(stm, env, "self"))
            else:
                b = init
            self.out.append("def %s {α : Type} [CNum α] %s : %s :=\n  %s\n" % (name, " ".join(sig), selfT, b))
            return name
        rt = self.ret_type(d)
        returns_self = (is_method and self.is_mutating(d) and self._ret_type_text(d).rstrip().endswith("&")
                        and rid is not None and self.record_of_type(rt) == rid)
        mutating = is_method and self.is_mutating(d) and (norm_type(rt) == "void" or returns_self)
        if mutating:
            RT = selfT
            b = self.stmts(body.get("inner", []), env, "self")
        else:
            RT = self.lean_type(rt)
            if is_method and self.is_mutating(d) and self.body_mutates_self(body, env):
                raise Unsupported("non-void mutating method " + name)
            # by-value / local mutation of parameters is allowed (shadowing lets)
            b = self.stmts(body.get("inner", []), env, "()" if RT == "Unit" else None)
        self.out.append("def %s {α : Type} [CNum α] %s : %s :=\n  %s\n" % (name, " ".join(sig), RT, b))
        return name

    def body_mutates_self(self, body, env):
        try:
            return "self" in self.assigned_vars(body, env)
        except Unsupported:
            return True

    # ---------------------------------------------------------------- driver
    def translate_driver(self):
        errors = []
        for d in self.drv_funcs:
            try:
                self.translate(d)
            except Unsupported as e:
                errors.append("%s: %s" % (d["name"], e))
        return errors

    def render(self, namespace, header=""):
        return ("-- GENERATED by tools/cpp2lean.py from /repo's current sources — do not edit.\n" + header +
                "import RkVerif.Sem.CNum\nset_option linter.unusedVariables false\nnamespace %s\nopen RkVerif\n\n" % namespace +
                "\n".join(self.struct_out) + "\n" + "\n".join(self.out) +
                "\nattribute [gen_simp] " + " ".join(m["lean"] for m in self.meta if m["kind"] == "def") + "\n" +
                "\nend %s\n" % namespace)


# ---------------------------------------------------------------------------- dispatch tables
def _flat_paths(tr, t, prefix):
    """Scalar leaves of a (lean) type as C++/Lean field paths; padding fields are skipped."""
    if t in ("α", "Int", "Bool"):
        return [(prefix, t)]
    name = t.replace(" α", "")
    out = []
    for f, ft in tr.struct_fields[name]:
        if f.startswith("padding"):
            continue
        out += _flat_paths(tr, ft, prefix + [f])
    return out


def _lean_build(tr, t, counter):
    if t in ("α", "Int"):
        i = counter[0]
        counter[0] += 1
        return "xs[%d]!" % i if t == "α" else "(CNum.toInt xs[%d]!)" % i
    if t == "Bool":
        i = counter[0]
        counter[0] += 1
        return "(decide (xs[%d]! ≠ 0))" % i
    name = t.replace(" α", "")
    parts = []
    for f, ft in tr.struct_fields[name]:
        if f.startswith("padding"):
            parts.append("%s := (0 : α)" % tr.ident(f))
        else:
            parts.append("%s := %s" % (tr.ident(f), _lean_build(tr, ft, counter)))
    return "({ %s } : %s)" % (", ".join(parts), t)


def emit_dispatch(tr, namespace, gen_module, cxx_ns="rkcommon::math::vdrv", fn_name="vdrv_dispatch"):
    """-> (lean text, c++ text): name-indexed dispatchers over flat scalar argument lists.
    Lean:  dispatch name xs : Option (List (α ⊕ Bool))        C++: bool dispatch(name, const float* xs, n, out)"""
    lean = ["-- GENERATED by tools/cpp2lean.py — flat-argument dispatcher for the driver.",
            "import %s" % gen_module, "namespace %s" % namespace, "open RkVerif", "variable {α : Type} [CNum α] [Inhabited α]", "",
            "def dispatch (name : String) (xs : Array α) : Option (List (α ⊕ Bool)) :=", "  match name with"]
    cxx = ["// GENERATED by tools/cpp2lean.py — flat-argument dispatcher for the harness (same wrappers as the Lean side).",
           "template <typename S, typename EMIT_S, typename EMIT_B>",
           "static bool %s(const std::string &name, const std::vector<S> &xs, EMIT_S emitS, EMIT_B emitB) {" % fn_name,
           "  using namespace %s;" % cxx_ns]
    for name, (params, rt) in sorted(tr.signatures.items()):
        counter = [0]
        args = [_lean_build(tr, t, counter) for _, t in params]
        n = counter[0]
        call = "(" + " ".join([name] + args) + ")" if args else name
        outs = _flat_paths(tr, rt, [])
        if rt == "Bool":
            res = "[.inr r]"
        else:
            res = "[" + ", ".join(".inl r" + "".join("." + tr.ident(x) for x in path) if t2 != "Bool" else ".inr r" + "".join("." + tr.ident(x) for x in path) for path, t2 in outs) + "]"
        lean.append('  | "%s" => if xs.size = %d then (let r := %s; some %s) else none' % (name, n, call, res))
        # C++
        cxx.append('  if (name == "%s") {' % name)
        cxx.append("    if (xs.size() != %d) return false;" % n)
        idx = 0
        cargs = []
        for pi, (pn, t) in enumerate(params):
            ct = "decltype(vdrv_param<%d>(&%s))" % (pi, name)
            cxx.append("    typename std::decay<%s>::type a%d{};" % (ct, pi))
            for path, t2 in _flat_paths(tr, t, []):
                tgt = "a%d" % pi + "".join("." + x for x in path)
                cxx.append("    %s = xs[%d];" % (tgt, idx) if t2 != "Bool" else "    %s = xs[%d] != 0;" % (tgt, idx))
                idx += 1
            cargs.append("a%d" % pi)
        cxx.append("    auto r = %s(%s);" % (name, ", ".join(cargs)))
        for path, t2 in outs:
            src = "r" + "".join("." + x for x in path)
            cxx.append("    emitB(%s);" % src if t2 == "Bool" else "    emitS(%s);" % src)
        cxx.append("    return true;\n  }")
    lean.append("  | _ => none")
    lean.append("end %s" % namespace)
    cxx.append("  return false;\n}")
    return "\n".join(lean) + "\n", "\n".join(cxx) + "\n"


def generate(driver_cpp, out_lean, namespace, repo, inc, defines=(), scalar="float", struct_names=None, tmpdir=None, opaque=()):
    tmpdir = tmpdir or os.path.dirname(out_lean)
    js = os.path.join(tmpdir, os.path.basename(out_lean) + ".ast.json")
    run_clang(driver_cpp, js, [repo, inc], defines)
    objs = load_ast(js)
    os.remove(js)
    tr = Translator(objs, scalar=scalar, struct_names=struct_names, opaque_scalar_fns=opaque)
    errors = tr.translate_driver()
    text = tr.render(namespace)
    tr.driver_names = [f["name"] for f in tr.drv_funcs]
    return text, tr.meta, errors, tr


if __name__ == "__main__":
    import argparse
    ap = argparse.ArgumentParser()
    ap.add_argument("driver")
    ap.add_argument("out")
    ap.add_argument("--ns", default="RkVerif.Gen.X")
    ap.add_argument("--repo", default="/repo")
    ap.add_argument("--inc", default=os.path.join(os.path.dirname(os.path.dirname(os.path.abspath(__file__))), ".cache", "inc"))
    ap.add_argument("--define", action="append", default=[])
    ap.add_argument("--scalar", default="float")
    a = ap.parse_args()
    text, meta, errors, tr = generate(a.driver, a.out, a.ns, a.repo, a.inc, a.define, a.scalar, tmpdir="/tmp")
    names = tr.driver_names
    open(a.out, "w").write(text)
    for e in errors:
        print("UNSUPPORTED", e, file=sys.stderr)
    print("translated %d driver functions, %d defs" % (len(names) - len(errors), sum(1 for m in meta if m["kind"] == "def")))
