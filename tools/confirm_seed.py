#!/usr/bin/env python3
"""tools/confirm_seed.py <Cxx> <k> [<what it needs>]: independently confirm a seeded change produced by a mutation agent
(/tmp/mut_cxx_out/<k>/{patch.diff,demo.cpp,README.md}) in its scratch worktree /tmp/mut_cxx:
  1. the patch applies and the library + pinned test suite build,  2. the pinned suite passes with the change,
  3. the demo passes WITHOUT the change and 4. fails WITH it.
On success the change is kept as /verif/seeded/<Cxx>-<k>/ (patch.diff, demo.cpp, README.md, meta.json)."""
import json, os, re, shutil, subprocess, sys
pid, k = sys.argv[1], sys.argv[2]
sfx = os.environ.get("MUT_SFX", "")
wt = "/tmp/mut_%s%s" % (pid.lower(), sfx)
src = "/tmp/mut_%s%s_out/%s" % (pid.lower(), sfx, k)
ROOT = os.path.dirname(os.path.dirname(os.path.abspath(__file__)))
def sh(cmd, **kw):
    p = subprocess.run(cmd, shell=True, stdout=subprocess.PIPE, stderr=subprocess.STDOUT, **kw)
    return p.returncode, p.stdout.decode("utf-8", "replace")
ran = []
def step(name, cmd):
    rc, out = sh(cmd)
    ran.append(dict(step=name, cmd=cmd, rc=rc, tail=out[-400:]))
    return rc, out
sh("git -C %s checkout -- ." % wt)
demo_src = open(os.path.join(src, "demo.cpp")).read()
head = "\n".join(demo_src.splitlines()[:40])
extra = sorted(set(re.findall(r"(/tmp/mut_%s%s/rkcommon/\S+?\.cpp)" % (pid.lower(), sfx), head)))
gline = next((l for l in head.splitlines() if "g++" in l), "")
extra = sorted(set(re.findall(r"(/tmp/mut_%s%s/rkcommon/\S+?\.cpp)" % (pid.lower(), sfx), gline))) or extra
opt = re.search(r"(-O\d)", gline)
flags = "-std=c++11 %s -I%s -I%s/_b -I%s/.cache/inc -pthread" % (opt.group(1) if opt else "", wt, wt, ROOT)
# backend / configuration switches and libraries named on the demo's own compile line
flags += " " + " ".join(t for t in gline.split() if re.match(r"-(D\w+(=\S+)?|f[a-z-]+(=\S+)?|m[a-z0-9.-]+)$", t))
libs = " ".join(t for t in gline.split() if re.match(r"-l\w+$", t) or t.startswith("-Wl,"))
def demo(tag):
    exe = "/tmp/seed_demo_%s_%s_%s" % (pid, k, tag.replace(" ", "_"))
    rc, out = step("compile demo (%s)" % tag, "g++ %s %s/demo.cpp %s -o %s %s" % (flags, src, " ".join(extra), exe, libs))
    if rc != 0:
        return None, out
    rc, out = step("run demo (%s)" % tag, "cd %s && timeout 600 %s" % (src, exe))
    os.remove(exe)
    return rc, out
ok = True
rc0, _ = demo("without change")
rc, out = step("apply", "git -C %s apply %s/patch.diff" % (wt, src))
if rc != 0:
    ok = False
rc1, _ = demo("with change") if ok else (None, "")
if ok:
    rc, out = step("build with change", "cmake -G Ninja -S %s -B %s/_b -DCMAKE_BUILD_TYPE=RelWithDebInfo -DRKCOMMON_TASKING_SYSTEM=TBB >/dev/null && cmake --build %s/_b -j6 2>&1 | tail -3" % (wt, wt, wt))
    if rc != 0: ok = False
    rc, out = step("pinned tests with change", "ctest --test-dir %s/_b -j8 --timeout 900 2>&1 | tail -4" % wt)
    tests_ok = rc == 0 and "100% tests passed" in out
    ok = ok and tests_ok
sh("git -C %s checkout -- . && rm -rf %s/_b" % (wt, wt))
verdict = dict(applies=True, tests_pass_with_change=ok, demo_passes_without=(rc0 == 0), demo_fails_with=(rc1 not in (0, None)))
confirmed = ok and rc0 == 0 and rc1 not in (0, None)
print(pid, k, "CONFIRMED" if confirmed else "NOT CONFIRMED", verdict)
if confirmed:
    dst = os.path.join(ROOT, "seeded", "%s-%s%s" % (pid, sfx.strip("_") + ("-" if sfx else ""), k))
    os.makedirs(dst, exist_ok=True)
    for f in ("patch.diff", "demo.cpp", "README.md"):
        shutil.copy(os.path.join(src, f), dst)
    meta = dict(property=pid, source="independent mutation agent (given only the property text and a scratch worktree)",
                needs_to_manifest=(sys.argv[3] if len(sys.argv) > 3 else "see README.md"), confirmed=verdict, commands=ran,
                base_commit=sh("git -C /repo rev-parse --short HEAD")[1].strip())
    json.dump(meta, open(os.path.join(dst, "meta.json"), "w"), indent=1)
