#!/usr/bin/env python3
"""tools/design_counts.py: rewrite the 'theorems' column of the status table in DESIGN.md §0.1 and the size line
from evidence/Cxx.json (obligations discharged on the last run against /repo) and `wc -l`."""
import glob, json, os, re, subprocess
ROOT = os.path.dirname(os.path.dirname(os.path.abspath(__file__)))
p = os.path.join(ROOT, "DESIGN.md")
s = open(p).read()
tot = 0
for f in sorted(glob.glob(os.path.join(ROOT, "evidence", "C*.json"))):
    e = json.load(open(f))
    pid = e["property_id"]
    n = e.get("coverage", {}).get("discharged")
    if n is None:
        continue
    tot += n
    s, k = re.subn(r"(?m)^\| %s \| \d+ \|" % pid, "| %s | %d |" % (pid, n), s)


def lines(pat):
    n = 0
    for f in glob.glob(os.path.join(ROOT, pat), recursive=True):
        n += sum(1 for _ in open(f, errors="replace"))
    return n


size = ("Size at HEAD: %.1f k lines of property theorems (`lean/RkVerif/Props`, %d audited theorems), %.1f k lines of\n"
        "executable hand-written models (`Model`), %.1f k lines of lemmas, %.1f k lines of generated Lean (`Gen`, committed\n"
        "snapshot, rewritten on every run), %.1f k lines of C++ harness, %.1f k lines of translator." % (
            lines("lean/RkVerif/Props/*.lean") / 1000.0, tot, lines("lean/RkVerif/Model/*.lean") / 1000.0,
            lines("lean/RkVerif/Lemmas/*.lean") / 1000.0, lines("lean/RkVerif/Gen/*.lean") / 1000.0,
            (lines("harness/*.cpp") + lines("harness/*.h") + lines("tr/*.cpp")) / 1000.0, lines("tools/cpp2lean.py") / 1000.0))
s = re.sub(r"Size at HEAD:.*?lines of translator\.", lambda m: size, s, flags=re.S)
open(p, "w").write(s)
print(tot, "theorems")
