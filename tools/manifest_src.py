HOOK_COMMITS = []
NOTES = ("One entry point: ./check <id> --tier quick|thorough. Every check rebuilds its harness from /repo's working tree "
         "(override with VERIF_REPO for scratch worktrees), re-checks the Lean proofs and their axioms, and runs the "
         "model/implementation correspondence. known_findings.json lists recorded defects; see DESIGN.md.")
NOT_APPLICABLE = {}
_TB = ("Trusted: Lean kernel; axioms propext/Classical.choice/Quot.sound; the hand-written model is tied to the code only by the "
       "correspondence harness (generators + canonicalisation) and g++/sanitizer runtimes; std:: components are assumed to meet their specifications.")
CLAIMED = {
 "C10": dict(
    text=("Lean 4 theorems over an executable model of FlatMap and ParameterizedObject: key uniqueness for every history, refinement "
          "to an insertion-ordered reference map (lookup function + key order) for every history, at() throws iff absent, erase keeps "
          "order, re-insertion appends, type-mismatched reads return the default and touch nothing, query flag characterised for every "
          "history. The model is tied to the code by running the same random op histories through the real classes (4 key/value "
          "instantiations, 6 parameter types, ASan/UBSan) and the compiled model and diffing every observation."),
    note=_TB,
    technique="Lean 4 proof (induction over operation histories, refinement) + differential correspondence check model vs real code"),
}
