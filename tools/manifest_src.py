HOOK_COMMITS = ['6362709']
NOTES = ("One entry point: ./check <id> --tier quick|thorough. Every check rebuilds its harness from /repo's working tree "
         "(override with VERIF_REPO for scratch worktrees), re-checks the Lean proofs and their axioms, and runs the "
         "model/implementation correspondence. known_findings.json lists recorded defects; see DESIGN.md.")
NOT_APPLICABLE = {}
CLAIMED = {}
# properties whose check has been integrated (fix commits applied to /repo, check passes on /repo at several seeds)
INTEGRATED = ['C01', 'C02', 'C15', 'C03', 'C04', 'C05', 'C06', 'C07', 'C08', 'C09', 'C10', 'C11', 'C12', 'C13', 'C14', 'C16', 'C17', 'C18', 'C19', 'C20']
