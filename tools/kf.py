#!/usr/bin/env python3
"""Atomic edit of known_findings.json (flock).  Never called by a check at run time.
   tools/kf.py add --property C18 --id C18-tokenize-1char --status known|fixed --text "..." [--commit <sha>] [--match '{"json":...}']
   tools/kf.py list"""
import argparse, fcntl, json, os, sys
root = os.path.dirname(os.path.dirname(os.path.abspath(__file__)))
path = os.path.join(root, "known_findings.json")
ap = argparse.ArgumentParser()
ap.add_argument("cmd", choices=["add", "list", "remove"])
ap.add_argument("--property"); ap.add_argument("--id"); ap.add_argument("--status", default="known")
ap.add_argument("--text"); ap.add_argument("--commit"); ap.add_argument("--match")
a = ap.parse_args()
os.makedirs(os.path.join(root, ".cache"), exist_ok=True)
with open(os.path.join(root, ".cache", "kf.lock"), "w") as lk:
    fcntl.flock(lk, fcntl.LOCK_EX)
    data = json.load(open(path)) if os.path.exists(path) else {"findings": []}
    if a.cmd == "list":
        for f in data["findings"]:
            print(f["status"], f["property"], f["id"], "-", f["text"][:100])
        sys.exit(0)
    data["findings"] = [f for f in data["findings"] if f["id"] != a.id]
    if a.cmd == "add":
        e = dict(property=a.property, id=a.id, status=a.status, text=a.text)
        if a.commit: e["commit"] = a.commit
        if a.match: e["match"] = json.loads(a.match)
        if a.status == "fixed":
            e["line"] = "fixed: property=%s %s %s" % (a.property, a.commit or "?", a.text)
        data["findings"].append(e)
    data["findings"].sort(key=lambda f: (f["property"], f["id"]))
    json.dump(data, open(path + ".tmp", "w"), indent=1)
    os.replace(path + ".tmp", path)
