#!/usr/bin/env python3
"""tools/gen_mut_prompts.py [round]: writes tools/prompts/mut_Cxx[_r<round>].md for all 20 properties.
The prompt contains ONLY the property record's text (title, statement, quantifier, anchor files) and the
generic instructions — nothing about what /verif checks. Round >1 asks for changes in other places/kinds."""
import json, os, sys
ROOT = os.path.dirname(os.path.dirname(os.path.abspath(__file__)))
rnd = int(sys.argv[1]) if len(sys.argv) > 1 else 1
TIMING = {"C01", "C02", "C03", "C08", "C12", "C13", "C19"}
BACKENDS = {"C01", "C02", "C13", "C03"}
for l in open(os.path.join(ROOT, "properties.jsonl")):
    p = json.loads(l)
    pid = p["id"]; lo = pid.lower()
    sfx = "" if rnd == 1 else "_r%d" % rnd
    wt = "/tmp/mut_%s%s" % (lo, sfx)
    out = wt + "_out"
    t = []
    t.append("You are testing a verification setup from the outside. You are given ONE semantic property of the C++ library ospray/rkcommon and your own scratch git worktree of the library at %s (a checkout of the current main branch; build dir not yet created). Do NOT read anything under /verif or /root/.vp, and do not mine the git history (`git log`, `git show`) for ideas — your work must be independent of the checks that exist there and must not simply revert a past commit. Work only inside %s and %s.\n" % (wt, wt, out))
    t.append("THE PROPERTY (%s — %s)\n%s\nQuantifier: %s\nAnchored in: %s\n" % (pid, p["title"], p["statement"], p["quantifier"]["text"], ", ".join(p["anchors"]["files"])))
    n = 2
    extra_kind = ""
    if rnd > 1:
        extra_kind = (" Prefer places and kinds of slip that are NOT the first thing one would try: a rarely used overload or "
                      "template instantiation, a second code path (another backend / preprocessor configuration / element type / "
                      "shape), an interaction of two edits in different functions that each look harmless, a boundary that only "
                      "one specific value hits, state left over from an earlier operation.")
    t.append("YOUR TASK: produce %d DIFFERENT, realistic changes to the library source (each a small patch a careless or well-meaning developer could plausibly make: an off-by-one, a swapped operand or index, a dropped or reordered statement, a wrong comparison, a \"simplification\" or \"optimisation\" that is subtly wrong, two sites that each look fine alone) such that each change\n (1) still compiles,\n (2) still passes the library's existing test suite (build it: `cmake -G Ninja -S %s -B %s/_b -DCMAKE_BUILD_TYPE=RelWithDebInfo -DRKCOMMON_TASKING_SYSTEM=TBB && cmake --build %s/_b -j8 && ctest --test-dir %s/_b -j8`; all tests must pass with your change),\n (3) BREAKS the property above, and\n (4) needs something specific to manifest — a particular input value or boundary, a multi-step sequence of operations, an unusual type or configuration, a particular interleaving — rather than failing on the first ordinary use.%s" % (n, wt, wt, wt, wt, extra_kind))
    if rnd >= 3:
        S = json.load(open(os.path.join(ROOT, "tools", "seed_summaries.json")))
        tried = [v.split(" Needs:")[0] for k, v in sorted(S.items()) if k.startswith(pid + "-")]
        t.append("ALREADY TRIED by others (do NOT repeat these or close variants of them; pick different functions, different "
                 "mechanisms, different trigger conditions):\n" + "\n".join(" - " + x for x in tried))
        t.append("Kinds of change that are especially wanted now: (a) two or three edits in different functions/files that each "
                 "look harmless and only break the property together; (b) state left over from an earlier operation (a stale "
                 "cache/flag/size, a moved-from or reused object, a second call on the same object); (c) a failure or exception "
                 "at a particular point (an allocation that fails, a throwing copy constructor or user callback, an I/O error) "
                 "after which the object is left inconsistent; (d) an unusual but legal instantiation or configuration (another "
                 "element type, another backend, a preprocessor switch such as RKCOMMON_NO_SIMD, a const or rvalue overload); "
                 "(e) a boundary that exactly one value hits.")
    if pid in BACKENDS:
        t.append("The library has four tasking backends selected by a compile definition (RKCOMMON_TASKING_TBB with -ltbb, RKCOMMON_TASKING_OMP with -fopenmp, RKCOMMON_TASKING_INTERNAL which additionally needs rkcommon/tasking/detail/TaskSys.cpp and rkcommon/tasking/detail/enkiTS/TaskScheduler.cpp, or none of them = serial Debug backend); a change may target any of them, and your demo may compile the needed rkcommon .cpp files directly with the backend definition it needs (the test suite run in (2) stays on TBB).")
    tim = ""
    if pid in TIMING:
        tim = " If the failure depends on thread timing, make the demo force the interleaving deterministically (barriers, sleeps at the right places, many repetitions with a clear pass/fail criterion) so that it fails reliably with the change and never without it."
    t.append("For each change write into %s/<k>/ (k = 1..%d): `patch.diff` (output of `git -C %s diff` for that change alone, relative to the unmodified checkout; reset the worktree between changes with `git -C %s checkout -- .`), a small demonstration `demo.cpp` (or a test) with a comment line in its first 40 lines saying how to compile and run it (e.g. `g++ -std=c++11 -I%s -I%s/_b demo.cpp [needed %s/rkcommon/...cpp files, full paths] -o demo && ./demo`), which exits 0 / prints PASS on the unmodified library and exits non-zero / prints FAIL with your change applied, and `README.md` (what the change is, why it breaks the property, what it needs in order to manifest, and the exact commands you ran with their results for: tests pass with the change, demo passes without, demo fails with).%s Verify all of that yourself before finishing. Leave the worktree unmodified (`git -C %s checkout -- .`) and delete %s/_b at the end to save disk space. Your final message: a 3-line summary per change." % (out, n, wt, wt, wt, wt, wt, tim, wt, wt))
    open(os.path.join(ROOT, "tools", "prompts", "mut_%s%s.md" % (pid, sfx)), "w").write("\n".join(t))
print("ok")
