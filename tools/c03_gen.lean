import RkVerif.Model.C03
open RkVerif.C03

def showB (b : Bool) : String := if b then "true" else "false"
def showL (l : LPc) : String := "." ++ (toString (repr l)).replace "RkVerif.C03.LPc." ""
def showC (l : CPc) : String := "." ++ (toString (repr l)).replace "RkVerif.C03.CPc." ""
def showO (l : Owner) : String := "." ++ (toString (repr l)).replace "RkVerif.C03.Owner." ""
def showS (s : State) : String :=
  s!"⟨{showL s.lpc},{showC s.cpc},{showB s.alive},{showB s.running},{showB s.inside},{showO s.mtx},{showB s.stopped},{showB s.started}⟩"

/-- fair-termination ranking of the in-destructor states (see Props/C03 destroy_terminates) -/
partial def rankAll (c : Cfg) (r : List State) (region target : CPc → Bool) : List (State × Nat × Thread) × List State := Id.run do
  let D := r.filter (fun s => region s.cpc)
  let mut ranked : List (State × Nat × Thread) := []
  let mut k := 1
  let mut progress := true
  while progress do
    progress := false
    for t in [Thread.ctl, Thread.loop] do
      let isLow := fun (x : State) => target x.cpc || ranked.any (fun e => e.1 == x)
      let mut Z := D.filter (fun s => !(ranked.any (fun e => e.1 == s)) && enabled c t s)
      let mut changed := true
      while changed do
        changed := false
        let Z' := Z.filter (fun s => (stepNS c s).all (fun p =>
          if p.1 == t then isLow p.2 else (isLow p.2 || Z.any (· == p.2))))
        if Z'.length != Z.length then changed := true
        Z := Z'
      if !Z.isEmpty then
        ranked := ranked ++ Z.map (fun s => (s, k, t))
        k := k + 1
        progress := true
  let un := D.filter (fun s => !(ranked.any (fun e => e.1 == s)))
  return (ranked, un)

def emit (name : String) (c : Cfg) (withRank : Bool) : IO Unit := do
  let r := closure c 100000 [init] [init]
  IO.println s!"/-- {r.length} states -/"
  IO.println s!"def reach{name} : List State := ["
  IO.println (",\n".intercalate (r.map fun s => "  " ++ showS s))
  IO.println "]"
  IO.println ""
  if withRank then
    for (tn, region, target) in [("Dtor", CPc.inDtor, CPc.isDead), ("Stop", CPc.inStop, CPc.isIdle), ("Start", CPc.inStart, CPc.isIdle)] do
      let (rk, un) := rankAll c r region target
      IO.eprintln s!"{name}/{tn}: ranked {rk.length} unranked {un.length} maxrank {rk.foldl (fun m e => max m e.2.1) 0}"
      for s in un do IO.eprintln ("  unranked " ++ showS s)
      IO.println s!"/-- fair-termination certificate for the {rk.length} reachable states inside {tn}: (code, 2*rank + helpful) -/"
      IO.println s!"def rank{tn}{name} : List (Nat × Nat) := ["
      IO.println (",\n".intercalate (rk.map fun e => s!"  ({code e.1}, {2 * e.2.1 + (if e.2.2 == Thread.loop then 1 else 0)})"))
      IO.println "]"
      IO.println ""
    -- bound for no_lost_wakeup
    let within := fun (s : State) => Id.run do
      let mut cur := s
      let mut k := 0
      let mut res := 1000
      for _ in [0:40] do
        if res == 1000 then
          if cur.lpc == .body then res := k
          else match loopStep c cur with
            | some t => cur := t; k := k + 1
            | none => res := 999
      return res
    let ks := (r.filter (fun s => s.cpc == .idle && s.running && s.alive)).map within
    IO.eprintln s!"{name}: wake-up bound K = {ks.foldl max 0} over {ks.length} states"

def main : IO Unit := do
  IO.println "/- GENERATED certificate lists for C03 (regenerate: see notes/C03.md).
   Reachable-state sets of the AsyncLoop model (worklist closure of Model/C03.lean) and fair-termination
   rank tables.  They are *not trusted*: Props/C03.lean proves with the kernel that each list contains
   `init`, is closed under `step`, satisfies the invariants, and that the ranks decrease. -/
import RkVerif.Model.C03
namespace RkVerif.C03
"
  emit "FixedThread" ⟨true, true⟩ true
  emit "FixedTask" ⟨true, false⟩ true
  IO.println "end RkVerif.C03"
