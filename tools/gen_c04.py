#!/usr/bin/env python3
"""Generates, from one spec table (operation family -> scalar definition per component):
     tr/c04_drv.cpp            wrappers over vec.h for the float family   (translated to Gen/C04.lean)
     tr/c04i_drv.cpp           wrappers for integer-only operators (% , divRoundUp, long_product)  (Gen/C04I.lean)
     lean/RkVerif/Props/C04.lean   one theorem per wrapper: the translated vec_t overload is the component-wise
                                   lifting of the scalar definition.
   The table below is the hand-written specification; the C++ side is only *called* by the wrappers.
   Run by hand when the table changes (the outputs are committed); the checks never run it."""
import os

ROOT = os.path.dirname(os.path.dirname(os.path.abspath(__file__)))

SH = {  # tag: (c++ type float, c++ type int, lean struct, components)
    "v2": ("vec2f", "vec2i", "Vec2", ["x", "y"]),
    "v3": ("vec3f", "vec3i", "Vec3", ["x", "y", "z"]),
    "v3a": ("vec3fa", "vec3ia", "Vec3a", ["x", "y", "z"]),
    "v4": ("vec4f", "vec4i", "Vec4", ["x", "y", "z", "w"]),
}
BIN = {"add": "+", "sub": "-", "mul": "*", "div": "/"}


def build(fam):
    """fam: 'f' or 'i'.  Returns (wrappers: list of c++ lines, theorems: list of (name, statement, proof))."""
    S = "float" if fam == "f" else "int"
    idx = 0 if fam == "f" else 1
    W, T = [], []

    def ty(sh):
        return SH[sh][idx]

    def comps(sh):
        return SH[sh][3]

    def res_shape(sh):  # binary operators on padded vec3 return the plain vec3
        return "v3" if sh == "v3a" else sh

    def thm(name, binders, call, per_comp, shape_of_result=None, scalar_result=None):
        """per_comp: function comp -> lean rhs string"""
        if scalar_result is not None:
            T.append((name, "%s : %s = %s" % (binders, call, scalar_result)))
        else:
            cs = comps(shape_of_result)
            T.append((name, "%s :\n    %s" % (binders, " ∧ ".join("(%s).%s = %s" % (call, c, per_comp(c)) for c in cs))))

    if fam == "f":
        # scalar helpers with stable names
        W += ["float s_rcp(float x) { return rcp(x); }", "float s_rcp_safe(float x) { return rcp_safe(x); }",
              "float s_madd(float a, float b, float c) { return madd(a, b, c); }",
              "float s_rsqrt(float x) { return rsqrt(x); }"]
        for sh in SH:
            V, L = ty(sh), SH[sh][2]
            # unary
            W.append("%s %s_neg(const %s &a) { return -a; }" % (V, sh, V))
            thm("%s_neg" % sh, "(a : %s α)" % L, "%s_neg a" % sh, lambda c: "-a.%s" % c, sh)
            W.append("%s %s_pos(const %s &a) { return +a; }" % (V, sh, V))
            thm("%s_pos" % sh, "(a : %s α)" % L, "%s_pos a" % sh, lambda c: "a.%s" % c, sh)
            for fn, lean in (("rcp", "s_rcp"), ("rcp_safe", "s_rcp_safe"), ("abs", "CNum.abs"), ("sin", "CNum.sin"), ("cos", "CNum.cos")):
                W.append("%s %s_%s(const %s &a) { return %s(a); }" % (V, sh, fn, V, fn))
                thm("%s_%s" % (sh, fn), "(a : %s α)" % L, "%s_%s a" % (sh, fn), lambda c, lean=lean: "%s a.%s" % (lean, c), sh)
            # binary arithmetic: vec-vec, vec-scalar, scalar-vec, compound assignment
            R = res_shape(sh)
            RV = ty(R)
            for nm, op in BIN.items():
                W.append("%s %s_%s(const %s &a, const %s &b) { return a %s b; }" % (RV, sh, nm, V, V, op))
                thm("%s_%s" % (sh, nm), "(a b : %s α)" % L, "%s_%s a b" % (sh, nm), lambda c, op=op: "a.%s %s b.%s" % (c, op, c), R)
                W.append("%s %s_%s_vs(const %s &a, float s) { return a %s s; }" % (RV, sh, nm, V, op))
                thm("%s_%s_vs" % (sh, nm), "(a : %s α) (s : α)" % L, "%s_%s_vs a s" % (sh, nm), lambda c, op=op: "a.%s %s s" % (c, op), R)
                W.append("%s %s_%s_sv(float s, const %s &b) { return s %s b; }" % (RV, sh, nm, V, op))
                thm("%s_%s_sv" % (sh, nm), "(s : α) (b : %s α)" % L, "%s_%s_sv s b" % (sh, nm), lambda c, op=op: "s %s b.%s" % (op, c), R)
                W.append("%s %s_%s_assign(%s a, const %s &b) { a %s= b; return a; }" % (V, sh, nm, V, V, op))
                thm("%s_%s_assign" % (sh, nm), "(a b : %s α)" % L, "%s_%s_assign a b" % (sh, nm), lambda c, op=op: "a.%s %s b.%s" % (c, op, c), sh)
                W.append("%s %s_%s_assign_s(%s a, float s) { a %s= s; return a; }" % (V, sh, nm, V, op))
                thm("%s_%s_assign_s" % (sh, nm), "(a : %s α) (s : α)" % L, "%s_%s_assign_s a s" % (sh, nm), lambda c, op=op: "a.%s %s s" % (c, op), sh)
            # min / max functors
            for fn in ("min", "max"):
                W.append("%s %s_%s(const %s &a, const %s &b) { return %s(a, b); }" % (V, sh, fn, V, V, fn))
                thm("%s_%s" % (sh, fn), "(a b : %s α)" % L, "%s_%s a b" % (sh, fn), lambda c, fn=fn: "%s a.%s b.%s" % (fn, c, c), sh)
            # comparisons
            cs = comps(sh)
            W.append("bool %s_eq(const %s &a, const %s &b) { return a == b; }" % (sh, V, V))
            thm("%s_eq" % sh, "(a b : %s α)" % L, "%s_eq a b" % sh, None,
                scalar_result="(" + " && ".join("CNum.beq a.%s b.%s" % (c, c) for c in cs) + ")")
            W.append("bool %s_ne(const %s &a, const %s &b) { return a != b; }" % (sh, V, V))
            thm("%s_ne" % sh, "(a b : %s α)" % L, "%s_ne a b" % sh, None,
                scalar_result="(!(" + " && ".join("CNum.beq a.%s b.%s" % (c, c) for c in cs) + "))")
            W.append("bool %s_anyLessThan(const %s &a, const %s &b) { return anyLessThan(a, b); }" % (sh, V, V))
            thm("%s_anyLessThan" % sh, "(a b : %s α)" % L, "%s_anyLessThan a b" % sh, None,
                scalar_result="(" + " || ".join("decide (a.%s < b.%s)" % (c, c) for c in cs) + ")")
            # std::less<vec_t> (lexicographic) lives in namespace std, outside the AST dump filter: covered by the
            # element-type harness (harness/c04_types.cpp) only.
            # dot, length, reductions, sum/product
            W.append("float %s_dot(const %s &a, const %s &b) { return dot(a, b); }" % (sh, V, V))
            thm("%s_dot" % sh, "(a b : %s α)" % L, "%s_dot a b" % sh, None,
                scalar_result=" + ".join("a.%s * b.%s" % (c, c) for c in cs))
            W.append("float %s_length(const %s &a) { return length(a); }" % (sh, V))
            thm("%s_length" % sh, "(a : %s α)" % L, "%s_length a" % sh, None,
                scalar_result="CNum.sqrt (" + " + ".join("a.%s * a.%s" % (c, c) for c in cs) + ")")
            W.append("%s %s_normalize(const %s &a) { return normalize(a); }" % (V, sh, V))
            thm("%s_normalize" % sh, "(a : %s α)" % L, "%s_normalize a" % sh,
                lambda c, cs=cs: "a.%s * s_rsqrt (%s)" % (c, " + ".join("a.%s * a.%s" % (k, k) for k in cs)), sh)
            W.append("%s %s_safe_normalize(const %s &a) { return safe_normalize(a); }" % (V, sh, V))
            thm("%s_safe_normalize" % sh, "(a : %s α)" % L, "%s_safe_normalize a" % sh,
                lambda c, cs=cs: "a.%s * s_rsqrt (max CNum.ulp (%s))" % (c, " + ".join("a.%s * a.%s" % (k, k) for k in cs)), sh)
            for fn, op in (("reduce_add", "+"), ("reduce_mul", "*")):
                W.append("float %s_%s(const %s &a) { return %s(a); }" % (sh, fn, V, fn))
                thm("%s_%s" % (sh, fn), "(a : %s α)" % L, "%s_%s a" % (sh, fn), None,
                    scalar_result=(" %s " % op).join("a.%s" % c for c in cs))
            for fn in ("min", "max"):
                W.append("float %s_reduce_%s(const %s &a) { return reduce_%s(a); }" % (sh, fn, V, fn))
                r = {2: "%s a.x a.y", 3: "%s (%s a.x a.y) a.z", 4: "%s (%s a.x a.y) (%s a.z a.w)"}[len(cs)]
                thm("%s_reduce_%s" % (sh, fn), "(a : %s α)" % L, "%s_reduce_%s a" % (sh, fn), None,
                    scalar_result=r % ((fn,) * r.count("%s")))
            W.append("float %s_sum(const %s &a) { return a.sum(); }" % (sh, V))
            thm("%s_sum" % sh, "(a : %s α)" % L, "%s_sum a" % sh, None, scalar_result=" + ".join("a.%s" % c for c in cs))
            W.append("float %s_product(const %s &a) { return a.product(); }" % (sh, V))
            thm("%s_product" % sh, "(a : %s α)" % L, "%s_product a" % sh, None, scalar_result=" * ".join("a.%s" % c for c in cs))
            # interpolate_uv
            W.append("%s %s_interpolate_uv(const vec3f &f, const %s &a, const %s &b, const %s &c) { return interpolate_uv(f, a, b, c); }" % (ty(res_shape(sh)) if False else V, sh, V, V, V))
            # constructors: broadcast, components
            W.append("%s %s_broadcast(float s) { return %s(s); }" % (V, sh, V))
            thm("%s_broadcast" % sh, "(s : α)", "(%s_broadcast s : %s α)" % (sh, L), lambda c: "s", sh)
            args = ", ".join("float %s" % c for c in cs)
            W.append("%s %s_from_components(%s) { return %s(%s); }" % (V, sh, args, V, ", ".join(cs)))
            thm("%s_from_components" % sh, "(%s : α)" % " ".join(cs), "(%s_from_components %s : %s α)" % (sh, " ".join(cs), L), lambda c: c, sh)
        # 3-component only
        for sh in ("v3", "v3a"):
            V, L = ty(sh), SH[sh][2]
            W.append("vec3f %s_cross(const %s &a, const %s &b) { return cross(a, b); }" % (sh, V, V))
            T.append(("%s_cross" % sh, "(a b : %s α) :\n    (%s_cross a b).x = a.y * b.z - a.z * b.y ∧ (%s_cross a b).y = a.z * b.x - a.x * b.z ∧ (%s_cross a b).z = a.x * b.y - a.y * b.x" % (L, sh, sh, sh)))
            W.append("%s %s_madd(const %s &a, const %s &b, const %s &c) { return madd(a, b, c); }" % (V, sh, V, V, V))
            thm("%s_madd" % sh, "(a b c : %s α)" % L, "%s_madd a b c" % sh, lambda k: "s_madd a.%s b.%s c.%s" % (k, k, k), sh)
        # mixed padded/plain dot
        W.append("float v3_v3a_dot(const vec3f &a, const vec3fa &b) { return dot(a, b); }")
        T.append(("v3_v3a_dot", "(a : Vec3 α) (b : Vec3a α) : v3_v3a_dot a b = a.x * b.x + a.y * b.y + a.z * b.z"))
        W.append("float v3a_v3_dot(const vec3fa &a, const vec3f &b) { return dot(a, b); }")
        T.append(("v3a_v3_dot", "(a : Vec3a α) (b : Vec3 α) : v3a_v3_dot a b = a.x * b.x + a.y * b.y + a.z * b.z"))
        W.append("vec3f v3a_add_v3(const vec3fa &a, const vec3f &b) { return a + b; }")
        T.append(("v3a_add_v3", "(a : Vec3a α) (b : Vec3 α) :\n    (v3a_add_v3 a b).x = a.x + b.x ∧ (v3a_add_v3 a b).y = a.y + b.y ∧ (v3a_add_v3 a b).z = a.z + b.z"))
        # conversions between shapes: x,y,z,w order
        W.append("vec3f v3_from_v2(const vec2f &o, float z) { return vec3f(o, z); }")
        T.append(("v3_from_v2", "(o : Vec2 α) (z : α) :\n    (v3_from_v2 o z).x = o.x ∧ (v3_from_v2 o z).y = o.y ∧ (v3_from_v2 o z).z = z"))
        W.append("vec4f v4_from_v3(const vec3f &o, float w) { return vec4f(o, w); }")
        T.append(("v4_from_v3", "(o : Vec3 α) (w : α) :\n    (v4_from_v3 o w).x = o.x ∧ (v4_from_v3 o w).y = o.y ∧ (v4_from_v3 o w).z = o.z ∧ (v4_from_v3 o w).w = w"))
        W.append("vec4f v4_from_v2v2(const vec2f &a, const vec2f &b) { return vec4f(a, b); }")
        T.append(("v4_from_v2v2", "(a b : Vec2 α) :\n    (v4_from_v2v2 a b).x = a.x ∧ (v4_from_v2v2 a b).y = a.y ∧ (v4_from_v2v2 a b).z = b.x ∧ (v4_from_v2v2 a b).w = b.y"))
        W.append("vec3fa v3a_from_v3(const vec3f &o) { return vec3fa(o); }")
        T.append(("v3a_from_v3", "(o : Vec3 α) :\n    (v3a_from_v3 o).x = o.x ∧ (v3a_from_v3 o).y = o.y ∧ (v3a_from_v3 o).z = o.z"))
        W.append("vec3f v3_from_v3a(const vec3fa &o) { return vec3f(o); }")
        T.append(("v3_from_v3a", "(o : Vec3a α) :\n    (v3_from_v3a o).x = o.x ∧ (v3_from_v3a o).y = o.y ∧ (v3_from_v3a o).z = o.z"))
        W.append("vec3f v3_conv_from_v3a(const vec3fa &o) { return o; }")
        T.append(("v3_conv_from_v3a", "(o : Vec3a α) :\n    (v3_conv_from_v3a o).x = o.x ∧ (v3_conv_from_v3a o).y = o.y ∧ (v3_conv_from_v3a o).z = o.z"))
        for sh in SH:
            V, L = ty(sh), SH[sh][2]
            R = sh
            cs = comps(sh)
            T.append(("%s_interpolate_uv" % sh, "(f : Vec3 α) (a b c : %s α) :\n    %s" % (
                L, " ∧ ".join("(%s_interpolate_uv f a b c).%s = f.x * a.%s + f.y * b.%s + f.z * c.%s" % (sh, k, k, k, k) for k in cs))))
    else:
        W += ["int s_divRoundUp(int a, int b) { return divRoundUp(a, b); }"]
        T.append(("s_divRoundUp", "(a b : α) : s_divRoundUp a b = (a + b - 1) / b"))
        for sh in SH:
            V, L = ty(sh), SH[sh][2]
            R = "v3" if sh == "v3a" else sh
            RV = ty(R)
            cs = comps(sh)
            W.append("%s %s_mod(const %s &a, const %s &b) { return a %% b; }" % (RV, sh, V, V))
            thm("%s_mod" % sh, "(a b : %s α)" % L, "%s_mod a b" % sh, lambda c: "a.%s %% b.%s" % (c, c), R)
            W.append("%s %s_mod_vs(const %s &a, int s) { return a %% s; }" % (RV, sh, V))
            thm("%s_mod_vs" % sh, "(a : %s α) (s : α)" % L, "%s_mod_vs a s" % sh, lambda c: "a.%s %% s" % c, R)
            W.append("%s %s_mod_sv(int s, const %s &b) { return s %% b; }" % (RV, sh, V))
            thm("%s_mod_sv" % sh, "(s : α) (b : %s α)" % L, "%s_mod_sv s b" % sh, lambda c: "s %% b.%s" % c, R)
            W.append("%s %s_mod_assign(%s a, const %s &b) { a %%= b; return a; }" % (V, sh, V, V))
            thm("%s_mod_assign" % sh, "(a b : %s α)" % L, "%s_mod_assign a b" % sh, lambda c: "a.%s %% b.%s" % (c, c), sh)
            W.append("%s %s_divRoundUp(const %s &a, const %s &b) { return divRoundUp(a, b); }" % (V, sh, V, V))
            thm("%s_divRoundUp" % sh, "(a b : %s α)" % L, "%s_divRoundUp a b" % sh, lambda c: "s_divRoundUp a.%s b.%s" % (c, c), sh)
            W.append("%s %s_idiv(const %s &a, const %s &b) { return a / b; }" % (RV, sh, V, V))
            thm("%s_idiv" % sh, "(a b : %s α)" % L, "%s_idiv a b" % sh, lambda c: "a.%s / b.%s" % (c, c), R)
    return W, T


def main():
    for fam, drv, gen in (("f", "tr/c04_drv.cpp", "C04"), ("i", "tr/c04i_drv.cpp", "C04I")):
        W, T = build(fam)
        open(os.path.join(ROOT, drv), "w").write(
            "// GENERATED by tools/gen_c04.py from its spec table — wrappers over vec.h for the translator (tie T) and the harness.\n"
            "#include <functional>\n#include \"rkcommon/math/vec.h\"\nnamespace rkcommon { namespace math { namespace vdrv {\n" +
            "\n".join(W) + "\n}}}\n")
    Wf, Tf = build("f")
    Wi, Ti = build("i")
    out = ["/-", "Property C04 — every vec_t operator is the component-wise lifting of its scalar definition.",
           "GENERATED by tools/gen_c04.py from its hand-written spec table (operation family ↦ scalar definition per",
           "component); the definitions the theorems are about are regenerated from vec.h on every run",
           "(RkVerif/Gen/C04.lean for the float family, RkVerif/Gen/C04I.lean for the integer-only operators).",
           "The scalar type is an arbitrary `[CNum α]`: nothing about the scalar operations is assumed, so each statement",
           "holds for all 10 element types and all values (wrap-around, infinities, NaN included), given that the",
           "template code is the same for every element type (checked per element type by the correspondence harness).",
           "-/", "import RkVerif.Gen.C04", "import RkVerif.Gen.C04I", "", "namespace RkVerif.C04", "open RkVerif",
           "variable {α : Type} [CNum α]", "", "section float_family", "open RkVerif.Gen.C04", ""]
    for name, st in Tf:
        out.append("theorem %s %s := by\n  simp only [gen_simp, and_self]\n" % (name, st))
    out += ["end float_family", "", "section int_family", "open RkVerif.Gen.C04I", ""]
    for name, st in Ti:
        out.append("theorem i_%s %s := by\n  simp only [gen_simp, and_self]\n" % (name, st))
    out += ["end int_family", "", "end RkVerif.C04", ""]
    open(os.path.join(ROOT, "lean/RkVerif/Props/C04.lean"), "w").write("\n".join(out))
    print(len(Wf), "float wrappers,", len(Tf), "theorems;", len(Wi), "int wrappers,", len(Ti), "theorems")


if __name__ == "__main__":
    main()
