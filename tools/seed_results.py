#!/usr/bin/env python3
"""tools/seed_results.py [--only Cxx-k ...] [--jobs N]: run ./check <property> (quick tier) against every kept seeded change
(/verif/seeded/<id>/patch.diff applied to a scratch worktree of /repo HEAD, never to /repo itself) and record in
seeded/<id>/meta.json whether and how the check reports it (exit status, violation kinds, first replay's detail).
Afterwards rewrites the table between the SEEDED markers in DESIGN.md."""
import concurrent.futures, glob, json, os, re, subprocess, sys, threading, time
ROOT = os.path.dirname(os.path.dirname(os.path.abspath(__file__)))
GEN_GROUP = {"C01", "C02", "C04", "C05", "C06", "C12"}   # these regenerate files under lean/RkVerif/Gen: one at a time
gen_lock = threading.Lock()
plocks = {}


def sh(cmd):
    p = subprocess.run(cmd, shell=True, stdout=subprocess.PIPE, stderr=subprocess.STDOUT)
    return p.returncode, p.stdout.decode("utf-8", "replace")


def run_one(d):
    sid = os.path.basename(d)
    meta = json.load(open(os.path.join(d, "meta.json")))
    pid = meta["property"]
    wt = "/tmp/wt_seedres_%s" % sid
    sh("git -C /repo worktree remove --force %s" % wt)
    rc, out = sh("git -C /repo worktree add -q %s HEAD && git -C %s apply %s/patch.diff" % (wt, wt, d))
    if rc != 0:
        sh("git -C /repo worktree remove --force %s" % wt)
        return sid, dict(error="patch does not apply to /repo HEAD: " + out[-300:])
    lock = plocks.setdefault(pid, threading.Lock())
    with lock:
        if pid in GEN_GROUP:
            gen_lock.acquire()
        try:
            t0 = time.time()
            rc, out = sh("cd %s && VERIF_REPO=%s ./check %s --tier quick" % (ROOT, wt, pid))
            wall = round(time.time() - t0, 1)
            # put back the committed snapshot of what this property regenerates (the run rewrote it from the patched tree)
            sh("cd %s && gf=$(git ls-files 'lean/RkVerif/Gen/%s*' 'harness/gen/%s*') && [ -n \"$gf\" ] && git checkout -- $gf" % (ROOT, pid, pid.lower()))
        finally:
            if pid in GEN_GROUP:
                gen_lock.release()
    sh("git -C /repo worktree remove --force %s" % wt)
    kinds, detail = [], None
    for m in re.finditer(r"VIOLATION property=\S+ replay=(\S+)( no-failing-input-found)?", out):
        try:
            r = json.load(open(os.path.join(ROOT, m.group(1))))
            kinds.append(r.get("kind", "?") + (" (no-failing-input-found)" if m.group(2) else ""))
            if detail is None:
                detail = str(r.get("detail") or r.get("note") or r.get("failure") or "")[:300]
        except Exception:
            kinds.append("?")
    res = dict(check="./check %s --tier quick" % pid, exit=rc, reported=rc == 1 and bool(kinds), violation_kinds=sorted(set(kinds)),
               with_failing_input=any("no-failing-input-found" not in k for k in kinds), first_detail=detail, wall_s=wall,
               verif_commit=sh("git -C %s rev-parse --short HEAD" % ROOT)[1].strip(),
               repo_commit=sh("git -C /repo rev-parse --short HEAD")[1].strip())
    meta["check_result"] = res
    json.dump(meta, open(os.path.join(d, "meta.json"), "w"), indent=1)
    return sid, res


def table():
    rows = []
    for d in sorted(glob.glob(os.path.join(ROOT, "seeded", "*"))):
        try:
            m = json.load(open(os.path.join(d, "meta.json")))
        except Exception:
            continue
        r = m.get("check_result", {})
        what = m.get("summary") or m.get("needs_to_manifest", "")
        what = what.replace("|", "/").replace("\n", " ")
        rows.append("| %s | %s | %s | %s | %s |" % (
            os.path.basename(d), m["property"], what[:230],
            "yes" if r.get("reported") else ("NO" if r else "not run"),
            ", ".join(r.get("violation_kinds", [])) + (" — needed strengthening: " + m["strengthened"] if m.get("strengthened") else "")))
    head = ("| seeded change | prop | change and what it needs to manifest | reported by `./check` (quick) | how (violation kinds) |\n"
            "|---|---|---|---|---|\n")
    return head + "\n".join(rows) + "\n"


def rewrite_design():
    p = os.path.join(ROOT, "DESIGN.md")
    s = open(p).read()
    a, b = "<!-- SEEDED-TABLE-BEGIN -->", "<!-- SEEDED-TABLE-END -->"
    if a in s and b in s:
        s = s[:s.index(a) + len(a)] + "\n" + table() + s[s.index(b):]
        open(p, "w").write(s)


if __name__ == "__main__":
    args = sys.argv[1:]
    jobs = 4
    only = []
    while args:
        x = args.pop(0)
        if x == "--jobs":
            jobs = int(args.pop(0))
        elif x == "--only":
            only = args
            args = []
        elif x == "--table":
            rewrite_design()
            print(table())
            sys.exit(0)
    dirs = sorted(glob.glob(os.path.join(ROOT, "seeded", "*")))
    if only:
        dirs = [d for d in dirs if os.path.basename(d) in only]
    # round-robin over the properties: checks of one property are serialised (they share a harness cache and, for the
    # translated ones, the generated model), so neighbouring entries must belong to different properties to run in parallel
    byp = {}
    for d in dirs:
        byp.setdefault(os.path.basename(d)[:3], []).append(d)
    dirs = []
    while any(byp.values()):
        for k in sorted(byp):
            if byp[k]:
                dirs.append(byp[k].pop(0))
    with concurrent.futures.ThreadPoolExecutor(jobs) as ex:
        for sid, res in ex.map(run_one, dirs):
            print(sid, "reported" if res.get("reported") else "NOT REPORTED", res.get("violation_kinds"), res.get("wall_s"), flush=True)
    rewrite_design()   # (each run has already put back the Gen files of its own property)
