"""Shared code of the translator-tied properties (C04, C05, C06, C07): regeneration of the Lean model from
/repo's sources (tie T), flat-argument case generation, float helpers."""
import os
import re
import struct
import sys

from . import core

sys.path.insert(0, os.path.join(core.ROOT, "tools"))

INF = float("inf")


def f2h(x):
    return "%08x" % struct.unpack("<I", struct.pack("<f", x))[0]


def h2f(s):
    if s == "nan":
        return float("nan")
    return struct.unpack("<f", struct.pack("<I", int(s, 16)))[0]


def r32(x):
    try:
        return struct.unpack("<f", struct.pack("<f", x))[0]
    except OverflowError:
        return INF if x > 0 else -INF


def write_if_changed(path, text):
    p = os.path.join(core.ROOT, path)
    if not os.path.exists(p) or open(p).read() != text:
        os.makedirs(os.path.dirname(p), exist_ok=True)
        open(p, "w").write(text)
        return True
    return False


class Sigs(dict):
    pass


def regenerate(rep, pid, drv_cpp, defines, headers, out_of_scope, sigs, scalar="float", fn_name="vdrv_dispatch"):
    """Run the translator on /repo's current tree; write Gen/<pid>.lean, Gen/<pid>Dispatch.lean and
    harness/gen/<pid>_dispatch.inc when they changed. Returns a failure dict (broken tie) or None."""
    import cpp2lean as C
    import struct_names
    inc = core.ensure_version_h()
    tmp = os.path.join(core.CACHE, "tr")
    os.makedirs(tmp, exist_ok=True)
    ns = "RkVerif.Gen." + pid
    snap = os.path.join(core.ROOT, "lean", "RkVerif", "Gen", pid + ".sigs.json")

    def load_snapshot_sigs():
        # signatures of the wrappers as of the last successful regeneration (committed next to the generated model): with
        # them the search for a failing input still runs the snapshot of the model against the real code
        try:
            import json
            d = json.load(open(snap))
            sigs.clear()
            for k, v in d["signatures"].items():
                sigs[k] = ([tuple(x) for x in v[0]], v[1])
            sigs["__fields__"] = {k: [tuple(x) for x in v] for k, v in d["fields"].items()}
        except Exception:
            pass
    try:
        text, meta, errors, tr = C.generate(os.path.join(core.ROOT, drv_cpp), os.path.join(tmp, pid + ".lean"),
                                            ns, core.REPO, inc, list(defines), scalar, struct_names.names(scalar), tmpdir=tmp)
    except Exception as ex:
        load_snapshot_sigs()
        return dict(kind="regeneration-failed", error=repr(ex),
                    note="the translator could not process the current source; the model cannot be regenerated")
    rep.coverage["translated_defs"] = rep.coverage.get("translated_defs", 0) + sum(1 for m in meta if m["kind"] == "def")
    rep.coverage["translated_wrappers"] = rep.coverage.get("translated_wrappers", 0) + len(tr.signatures)
    if errors:
        # the wrappers that did translate keep their signatures, so that the search for a failing input can still run
        # them (against the committed snapshot of the model) although the model could not be regenerated
        load_snapshot_sigs()
        return dict(kind="translator-unsupported", errors=errors,
                    note="the current source uses a construct outside the translator's subset; the model cannot be regenerated")
    changed = write_if_changed("lean/RkVerif/Gen/%s.lean" % pid, text)
    l, c = C.emit_dispatch(tr, ns, ns, fn_name=fn_name)
    write_if_changed("lean/RkVerif/Gen/%sDispatch.lean" % pid, l)
    write_if_changed("harness/gen/%s_dispatch.inc" % pid.lower(), c)
    rep.coverage["model_regenerated_differs_from_snapshot"] = bool(changed) or rep.coverage.get("model_regenerated_differs_from_snapshot", False)
    sigs.clear()
    sigs.update(tr.signatures)
    sigs["__fields__"] = dict(tr.struct_fields)
    import json
    write_if_changed("lean/RkVerif/Gen/%s.sigs.json" % pid, json.dumps(
        dict(signatures={k: [list(map(list, v[0])), v[1]] for k, v in tr.signatures.items()},
             fields={k: list(map(list, v)) for k, v in tr.struct_fields.items()}), indent=0, sort_keys=True))
    covered = {m["cxx"] for m in meta if m["kind"] == "def"}
    missing = []
    for hdr in headers:
        src = open(os.path.join(core.REPO, hdr)).read()
        src = re.sub(r"//[^\n]*", "", src)
        for m in re.finditer(r"\binline\s+[\w:<>,\s\*&]+?\b(operator\s*[^\s(]+|\w+)\s*\(", src):
            nm = re.sub(r"\s+", "", m.group(1))
            if nm not in covered and nm not in out_of_scope and not nm.startswith("operatorT") and not nm.startswith("operatorconst"):
                missing.append(hdr + ":" + nm)
    rep.coverage["uncovered_entities"] = sorted(set(missing))
    if missing:
        return dict(kind="coverage-gap", missing=sorted(set(missing)),
                    note="functions declared in the anchored headers are neither translated nor listed as out of scope")
    return None


def flat_n(t, fields):
    if t in ("α", "Int", "Bool"):
        return 1
    return sum(flat_n(ft, fields) for f, ft in fields[t.replace(" α", "")] if not f.startswith("padding"))


def leaves(t, fields, prefix=()):
    """[(path tuple, leaf type)]"""
    if t in ("α", "Int", "Bool"):
        return [(prefix, t)]
    out = []
    for f, ft in fields[t.replace(" α", "")]:
        if not f.startswith("padding"):
            out += leaves(ft, fields, prefix + (f,))
    return out
