"""Shared machinery for the per-property checks (see DESIGN.md sections 3.3, 3.4, 4).

Every check does, in this order:
  1. (optional) regenerate Lean tables/definitions from /repo's current tree
  2. build the property's Lean modules (model, lemmas, property theorems) and its driver
  3. audit: every theorem declared in RkVerif.Props.<id> must depend only on the
     allowed axioms; the Lean sources must not contain forbidden escape hatches
  4. build the C++ harness against /repo's working tree (sanitizers on) and run
     corpus + generated cases through the real code and through the compiled
     Lean model; compare the two observation streams case by case
  5. decide, write evidence/<id>.json and, on failure, replays/<id>/<hash>.json
"""
import fcntl
import hashlib
import json
import os
import random
import re
import shutil
import subprocess
import sys
import time

ROOT = os.path.dirname(os.path.dirname(os.path.abspath(__file__)))
REPO = os.environ.get("VERIF_REPO", "/repo")
LEAN = os.path.join(ROOT, "lean")
CACHE = os.path.join(ROOT, ".cache")
GUARD = "RKCOMMON_VERIF"

ALLOWED_AXIOMS = {"propext", "Classical.choice", "Quot.sound"}
FORBIDDEN = re.compile(
    r"\bsorry\b|\badmit\b|^\s*axiom\s|native_decide|bv_decide|implemented_by|\bunsafe\s|maxHeartbeats\s+0\b|@\[extern",
    re.M)

TRUSTED_BASE = [
    "Lean 4.33.0 kernel (re-checked with leanchecker in the thorough tier)",
    "axioms propext, Classical.choice, Quot.sound only (audited per theorem on every run)",
    "no sorry/admit/native_decide/bv_decide/implemented_by/unsafe/own axioms (grep on every run)",
    "the correspondence harness (generators, canonicalisation, diff) and the g++/ASan/UBSan runtimes",
]


def log(*a):
    print(*a, file=sys.stderr, flush=True)


def sh(cmd, cwd=None, timeout=None, env=None, input=None):
    """Run, capture; returns (rc, stdout, stderr). rc=-9 on timeout."""
    e = dict(os.environ)
    if env:
        e.update(env)
    try:
        p = subprocess.run(cmd, cwd=cwd, timeout=timeout, env=e, input=input,
                           stdout=subprocess.PIPE, stderr=subprocess.PIPE,
                           shell=isinstance(cmd, str))
        return p.returncode, p.stdout.decode("utf-8", "replace"), p.stderr.decode("utf-8", "replace")
    except subprocess.TimeoutExpired as ex:
        out = (ex.stdout or b"").decode("utf-8", "replace")
        err = (ex.stderr or b"").decode("utf-8", "replace")
        return -9, out, err + "\n[timeout]"


class Rng:
    """All random choices of a run come from this one PRNG (seeded by VERIF_SEED)."""

    def __init__(self, seed):
        self.r = random.Random(seed)

    def __getattr__(self, k):
        return getattr(self.r, k)

    def pick(self, xs):
        return xs[self.r.randrange(len(xs))]

    def chance(self, p):
        return self.r.random() < p


# --------------------------------------------------------------------------- Lean

class LeanLock:
    def __enter__(self):
        os.makedirs(CACHE, exist_ok=True)
        self.f = open(os.path.join(CACHE, "lake.lock"), "w")
        fcntl.flock(self.f, fcntl.LOCK_EX)
        return self

    def __exit__(self, *a):
        fcntl.flock(self.f, fcntl.LOCK_UN)
        self.f.close()


def lean_build(targets, timeout=3000):
    """lake build under a file lock. Returns (ok, output)."""
    with LeanLock():
        rc, out, err = sh(["lake", "build"] + list(targets), cwd=LEAN, timeout=timeout)
    return rc == 0, out + err


AUDIT_TEMPLATE = """import Lean
import {module}
open Lean Elab Command in
run_cmd do
  let env ← getEnv
  let some modIdx := env.getModuleIdx? `{module} | throwError "no such module"
  let mut names : Array Name := #[]
  for (n, ci) in env.constants.map₁.toList do
    if env.getModuleIdxFor? n == some modIdx then
      if let .thmInfo _ := ci then
        if !n.isInternalDetail then names := names.push n
  for n in names.qsort (fun a b => a.toString < b.toString) do
    let axs ← Lean.collectAxioms n
    IO.println s!"THM {{n}} AXIOMS {{axs.toList}}"
"""


def lean_audit(module):
    """Returns (theorems: {name: [axioms]}, raw output, ok)."""
    os.makedirs(CACHE, exist_ok=True)
    f = os.path.join(CACHE, "Audit_%s.lean" % module.replace(".", "_"))
    with open(f, "w") as fh:
        fh.write(AUDIT_TEMPLATE.format(module=module))
    with LeanLock():
        rc, out, err = sh(["lake", "env", "lean", f], cwd=LEAN, timeout=1200)
    thms = {}
    for line in out.splitlines():
        m = re.match(r"THM (\S+) AXIOMS \[(.*)\]", line)
        if m:
            last = m.group(1).split(".")[-1]
            if re.match(r"(inj|injEq|sizeOf_spec|eq_def|congr_simp|eq_\d+|induct.*|fun_cases.*|noConfusion.*|ext|ext_iff)$", last):
                continue  # auto-generated companions of definitions, not proof obligations
            axs = [a.strip() for a in m.group(2).split(",") if a.strip()]
            thms[m.group(1)] = axs
    return thms, out + err, rc == 0


def strip_lean_comments(src):
    # block comments (nested) then line comments; string literals are left alone on purpose:
    out = []
    i, depth, n = 0, 0, len(src)
    while i < n:
        if src.startswith("/-", i):
            depth += 1
            i += 2
        elif depth and src.startswith("-/", i):
            depth -= 1
            i += 2
        elif depth:
            if src[i] == "\n":
                out.append("\n")
            i += 1
        elif src.startswith("--", i):
            while i < n and src[i] != "\n":
                i += 1
        else:
            out.append(src[i])
            i += 1
    return "".join(out)


def lean_sources_for(module):
    """Transitive RkVerif.* imports of a module -> file paths."""
    seen, todo = {}, [module]
    while todo:
        m = todo.pop()
        if m in seen:
            continue
        p = os.path.join(LEAN, *m.split(".")) + ".lean"
        if not os.path.exists(p):
            continue
        seen[m] = p
        for line in open(p, encoding="utf-8"):
            mm = re.match(r"\s*(?:public\s+)?import\s+(RkVerif\.\S+|Driver\.\S+)", line)
            if mm:
                todo.append(mm.group(1))
    return seen


def forbidden_hits(module):
    hits = []
    for m, p in sorted(lean_sources_for(module).items()):
        src = strip_lean_comments(open(p, encoding="utf-8").read())
        for mm in FORBIDDEN.finditer(src):
            line = src.count("\n", 0, mm.start()) + 1
            hits.append("%s:%d: %s" % (os.path.relpath(p, ROOT), line, mm.group(0).strip()))
    return hits


def leanchecker(module, timeout=1800):
    with LeanLock():
        rc, out, err = sh(["lake", "env", "leanchecker", module], cwd=LEAN, timeout=timeout)
    return rc == 0, out + err


# --------------------------------------------------------------------------- harness

def repo_hash(subdirs=("rkcommon",)):
    h = hashlib.sha256()
    for sd in subdirs:
        base = os.path.join(REPO, sd)
        for dp, dn, fn in sorted(os.walk(base)):
            dn.sort()
            for f in sorted(fn):
                if f.endswith((".h", ".cpp", ".inl", ".ih", ".in")):
                    p = os.path.join(dp, f)
                    h.update(p.encode())
                    h.update(open(p, "rb").read())
    return h.hexdigest()


def ensure_version_h():
    """rkcommon/version.h is generated by cmake; make one in the cache from version.h.in."""
    inc = os.path.join(CACHE, "inc", "rkcommon")
    os.makedirs(inc, exist_ok=True)
    dst = os.path.join(inc, "version.h")
    src = os.path.join(REPO, "rkcommon", "version.h.in")
    txt = open(src).read()
    cm = open(os.path.join(REPO, "CMakeLists.txt")).read()
    m = re.search(r"project\(rkcommon VERSION (\d+)\.(\d+)\.(\d+)", cm)
    maj, mi, pa = m.groups() if m else ("1", "0", "0")
    txt = (txt.replace("@PROJECT_VERSION_MAJOR@", maj).replace("@PROJECT_VERSION_MINOR@", mi)
           .replace("@PROJECT_VERSION_PATCH@", pa).replace("@PROJECT_VERSION@", "%s.%s.%s" % (maj, mi, pa)))
    txt = re.sub(r"@[A-Z_]+@", "0", txt)
    if not os.path.exists(dst) or open(dst).read() != txt:
        open(dst, "w").write(txt)
    return os.path.join(CACHE, "inc")


SAN = ["-fsanitize=address,undefined", "-fno-sanitize-recover=all", "-fno-omit-frame-pointer"]
TSAN = ["-fsanitize=thread"]


def build_harness(name, src, repo_srcs=(), flags=(), san=SAN, std="c++11", libs=(), opt="-O1", extra_deps=()):
    """Compile harness `src` (+ listed /repo sources) against /repo's working tree.
    Cached by content hash of the harness, flags and the whole rkcommon source tree.
    Returns (path or None, compiler output)."""
    inc = ensure_version_h()
    srcp = os.path.join(ROOT, src)
    common = os.path.join(ROOT, "harness", "common.h")
    h = hashlib.sha256()
    h.update(open(srcp, "rb").read())
    if os.path.exists(common):
        h.update(open(common, "rb").read())
    for dep in extra_deps:
        h.update(open(os.path.join(ROOT, dep), "rb").read())
    h.update(repr((name, list(repo_srcs), list(flags), list(san), std, list(libs), opt, REPO)).encode())
    h.update(repo_hash().encode())
    key = h.hexdigest()[:24]
    d = os.path.join(CACHE, "bin")
    os.makedirs(d, exist_ok=True)
    out = os.path.join(d, "%s_%s" % (name, key))
    if os.path.exists(out):
        return out, "cached"
    # drop stale binaries of the same harness name
    for f in os.listdir(d):
        if f.startswith(name + "_"):
            try:
                os.remove(os.path.join(d, f))
            except OSError:
                pass
    cmd = (["g++", "-std=" + std, opt, "-g", "-D" + GUARD, "-I" + REPO, "-I" + inc,
            "-I" + os.path.join(ROOT, "harness")] + list(san) + list(flags) + [srcp] +
           [os.path.join(REPO, s) for s in repo_srcs] + ["-o", out + ".tmp", "-pthread"] + list(libs))
    rc, o, e = sh(cmd, timeout=900)
    if rc != 0:
        return None, " ".join(cmd) + "\n" + o + e
    os.replace(out + ".tmp", out)
    return out, o + e


SAN_ENV = {
    "ASAN_OPTIONS": "detect_leaks=0:abort_on_error=0:exitcode=99:allocator_may_return_null=1:detect_stack_use_after_return=0",
    "UBSAN_OPTIONS": "print_stacktrace=1:halt_on_error=1:exitcode=98",
    "TSAN_OPTIONS": "exitcode=97:halt_on_error=1:second_deadlock_stack=1",
}


def run_prog(binpath, text, timeout=300, args=(), env=None):
    e = dict(SAN_ENV)
    if env:
        e.update(env)
    rc, out, err = sh([binpath] + list(args), input=text.encode(), timeout=timeout, env=e)
    return rc, out, err


def driver_path(name):
    return os.path.join(LEAN, ".lake", "build", "bin", name)


# --------------------------------------------------------------------------- cases

def cases_to_text(cases):
    """cases: list of list-of-op-lines. Each case is introduced by '# case k'."""
    out = []
    for k, c in enumerate(cases):
        out.append("# case %d" % k)
        out.extend(c)
    return "\n".join(out) + "\n"


def split_output(text):
    """-> {k: [lines]} keyed by case number."""
    res, cur = {}, None
    for line in text.splitlines():
        m = re.match(r"# case (\d+)\s*$", line)
        if m:
            cur = int(m.group(1))
            res[cur] = []
        elif cur is not None:
            res[cur].append(line)
    return res


def sanitizer_summary(err):
    for line in err.splitlines():
        if "ERROR: AddressSanitizer" in line or "runtime error:" in line or "ThreadSanitizer" in line:
            return line.strip()[:300]
    return None


class Pair:
    """A real-code harness and the compiled Lean model, run on the same cases."""

    def __init__(self, harness_bin, driver_bin, harness_args=(), driver_args=(), timeout=120, env=None):
        self.h, self.d = harness_bin, driver_bin
        self.ha, self.da = list(harness_args), list(driver_args)
        self.timeout = timeout
        self.env = env

    def run_impl(self, cases):
        text = cases_to_text(cases)
        rc, out, err = run_prog(self.h, text, timeout=self.timeout, args=self.ha, env=self.env)
        return rc, split_output(out), err

    def run_model(self, cases):
        text = cases_to_text(cases)
        rc, out, err = sh([self.d] + self.da, input=text.encode(), timeout=self.timeout)
        return rc, split_output(out), err

    def compare(self, cases, max_restarts=40):
        """Returns list of failures: dict(case=k, kind=..., impl=[...], model=[...], detail=...).
        A crash / sanitizer abort / timeout of the harness is attributed to the case being executed; the run is
        restarted behind it (iteratively, at most `max_restarts` times; whatever is left after that is not judged)."""
        fails = []
        rc_m, mo, merr = self.run_model(cases)
        if rc_m != 0:
            raise RuntimeError("Lean driver failed (rc=%s): %s" % (rc_m, merr[:2000]))
        base = 0
        restarts = 0
        hangs = 0
        while base < len(cases):
            chunk = cases[base:]
            rc_i, io, ierr = self.run_impl(chunk)
            if rc_i in (-9, 124):
                hangs += 1      # the harness (or, 124, one case in its own child process) did not finish within the time
                                # limit: a hang is reported like a crash
            crashed_at = None
            if rc_i != 0:
                done = [k for k in range(len(chunk)) if k in io and len(io[k]) >= len(chunk[k])]
                crashed_at = (max(done) + 1) if done else 0
                if crashed_at >= len(chunk):
                    crashed_at = len(chunk) - 1
            stop = len(chunk) if crashed_at is None else crashed_at + 1
            for k in range(stop):
                c = chunk[k]
                il, ml = io.get(k), mo.get(base + k, [])
                if crashed_at is not None and k == crashed_at:
                    fails.append(dict(case=base + k, kind="crash", impl=il or [], model=ml,
                                      detail=(sanitizer_summary(ierr) or ("rc=%s" % rc_i)),
                                      stderr=ierr[-3000:]))
                    break
                if il is None:
                    continue
                if il != ml:
                    j = next((j for j in range(min(len(il), len(ml))) if il[j] != ml[j]), min(len(il), len(ml)))
                    fails.append(dict(case=base + k, kind="mismatch", impl=il, model=ml, first_diff=j,
                                      detail="op %r: impl=%r model=%r" % (
                                          c[j] if j < len(c) else None,
                                          il[j] if j < len(il) else None,
                                          ml[j] if j < len(ml) else None)))
            if crashed_at is None:
                break
            base += crashed_at + 1
            restarts += 1
            if restarts >= max_restarts or hangs >= 2:
                break           # (two hangs are enough to report; every further one would cost a full time limit)
        return fails

    def fails_one(self, case):
        try:
            return self.compare([case])
        except RuntimeError:
            return []


def shrink_case(case, still_fails, fixed_prefix=0, budget=300, wall=240):
    """ddmin over op lines (the first `fixed_prefix` lines are kept); at most `budget` re-runs and `wall` seconds."""
    head, body = case[:fixed_prefix], case[fixed_prefix:]
    n = 2
    calls = 0
    t0 = time.time()
    while len(body) >= 2 and calls < budget and time.time() - t0 < wall:
        chunk = max(1, len(body) // n)
        reduced = False
        for i in range(0, len(body), chunk):
            cand = body[:i] + body[i + chunk:]
            calls += 1
            if cand and still_fails(head + cand):
                body = cand
                n = max(n - 1, 2)
                reduced = True
                break
            if calls >= budget or time.time() - t0 >= wall:
                break
        if not reduced:
            if chunk == 1:
                break
            n = min(len(body), n * 2)
    return head + body


# --------------------------------------------------------------------------- verdict / evidence

def load_known_findings(pid):
    p = os.path.join(ROOT, "known_findings.json")
    if not os.path.exists(p):
        return []
    data = json.load(open(p))
    return [f for f in data.get("findings", []) if f.get("property") == pid and f.get("status") == "known"]


class Report:
    def __init__(self, pid, tier, seed):
        self.pid, self.tier, self.seed = pid, tier, seed
        self.t0 = time.time()
        self.violations = []      # (replay_path, no_input_found)
        self.known_hits = {}      # finding id -> text
        self.coverage = {}
        self.assumptions = []
        self.notes = []

    def replay_path(self, payload):
        d = os.path.join(ROOT, "replays", self.pid)
        os.makedirs(d, exist_ok=True)
        blob = json.dumps(payload, sort_keys=True, indent=1, default=str)
        name = hashlib.sha256(blob.encode()).hexdigest()[:16] + ".json"
        p = os.path.join(d, name)
        open(p, "w").write(blob + "\n")
        return os.path.relpath(p, ROOT)

    def violation(self, payload, no_input=False):
        payload = dict(payload)
        payload.setdefault("property", self.pid)
        payload.setdefault("seed", self.seed)
        payload.setdefault("tier", self.tier)
        p = self.replay_path(payload)
        self.violations.append((p, no_input))
        print("VIOLATION property=%s replay=%s%s" % (self.pid, p, " no-failing-input-found" if no_input else ""),
              flush=True)

    def known(self, fid, text):
        if fid not in self.known_hits:
            self.known_hits[fid] = text
            print("KNOWN-FINDING: property=%s %s" % (self.pid, text), flush=True)

    def finish(self, level="proof"):
        cov = dict(self.coverage)
        ev = dict(property_id=self.pid, tier=self.tier, seed=self.seed, level=level, coverage=cov,
                  assumptions=self.assumptions, wall_s=round(time.time() - self.t0, 2),
                  violations=len(self.violations))
        if self.known_hits:
            ev["known_findings_reported"] = sorted(self.known_hits)
        if self.notes:
            ev["notes"] = self.notes
        # evidence/ describes /repo itself; a run pointed at a scratch worktree (VERIF_REPO, used for
        # seeded-change experiments) must not overwrite it
        d = os.path.join(ROOT, "evidence") if os.path.realpath(REPO) == "/repo" else os.path.join(CACHE, "scratch_evidence")
        os.makedirs(d, exist_ok=True)
        with open(os.path.join(d, self.pid + ".json"), "w") as fh:
            json.dump(ev, fh, indent=1, default=str)
            fh.write("\n")
        return 1 if self.violations else 0


def proof_stage(rep, module, targets, thorough_modules=()):
    """Build + audit. Fills the proof part of the coverage. Returns True when every obligation is discharged."""
    ok, out = lean_build(targets)
    cov = rep.coverage
    cov["checker_cmd"] = "cd lean && lake build %s && lake env lean <audit of %s: collectAxioms on every theorem>" % (
        " ".join(targets), module)
    cov["trusted_base"] = list(TRUSTED_BASE)
    if not ok:
        errs = [l for l in out.splitlines() if "error" in l][:20]
        cov["obligations"] = max(1, len(re.findall(r"^theorem\s", open(os.path.join(LEAN, *module.split(".")) + ".lean").read(), re.M)))
        cov["discharged"] = 0
        rep.notes.append("lake build failed: " + " | ".join(errs))
        rep.proof_failure = dict(kind="lean-build-failed", module=module, errors=errs, output_tail=out[-4000:])
        return False
    thms, raw, aok = lean_audit(module)
    bad = {t: a for t, a in thms.items() if not set(a) <= ALLOWED_AXIOMS}
    hits = forbidden_hits(module)
    cov["obligations"] = len(thms)
    cov["discharged"] = len(thms) - len(bad) if (aok and not hits) else 0
    cov["theorems"] = sorted(thms)
    cov["axioms_used"] = sorted({a for v in thms.values() for a in v})
    if not aok or not thms:
        rep.proof_failure = dict(kind="audit-failed", module=module, output_tail=raw[-4000:])
        return False
    if bad or hits:
        rep.proof_failure = dict(kind="audit-rejected", module=module, bad_axioms=bad, forbidden=hits)
        return False
    if rep.tier == "thorough":
        mods = [module] + list(thorough_modules)
        res = {}
        for m in mods:
            okc, outc = leanchecker(m)
            res[m] = "ok" if okc else outc[-500:]
        cov["leanchecker"] = res
        if any(v != "ok" for v in res.values()):
            rep.proof_failure = dict(kind="leanchecker-rejected", result=res)
            return False
    rep.proof_failure = None
    return True


def case_hash(case):
    return hashlib.sha256("\n".join(case).encode()).hexdigest()


def load_corpus(pid):
    d = os.path.join(ROOT, "corpus", pid)
    cases = []
    if os.path.isdir(d):
        for f in sorted(os.listdir(d)):
            if f.endswith(".ops"):
                lines = [l.rstrip("\n") for l in open(os.path.join(d, f)) if l.strip() and not l.startswith("# ")]
                cases.append(lines)
    return cases
