"""Generic pipeline for a property whose tie is the correspondence check (DESIGN 3.3/3.4/4).

A property module provides:
  ID            'C10'
  MODULE        'RkVerif.Props.C10'     (all theorems declared there are the obligations)
  DRIVER        'drv_c10'               (lean_exe target; line protocol)
  HARNESSES     [dict(name=, src=, repo_srcs=[...], flags=[...], san=[...], libs=[...], args=[...])]
  gen_cases(rng, tier) -> list of cases (each a list of op lines)
  nontrivial(case) -> bool
  RULE          text for the evidence file
  classify(fail, case) -> None | (finding_id, text)   [optional; known findings]
  property_relevant(fail, case) -> bool               [optional; default True]
  extra_stage(rep, ctx) -> None                       [optional; additional oracles]
  ASSUMPTIONS   list of strings
"""
import collections
import os
import time

from . import core


def run(mod, tier, seed, replay=None):
    rep = core.Report(mod.ID, tier, seed)
    rep.assumptions = list(getattr(mod, "ASSUMPTIONS", []))
    rng = core.Rng(seed)
    known = {f["id"]: f for f in core.load_known_findings(mod.ID)}

    # ---- optional regeneration of tables / definitions from the source (tie T)
    regen = getattr(mod, "regenerate", None)
    regen_fail = None
    if regen:
        try:
            regen_fail = regen(rep)
        except Exception as ex:  # fail closed
            regen_fail = dict(kind="regeneration-failed", error=repr(ex))

    # ---- proofs
    targets = [mod.MODULE]
    proofs_ok = core.proof_stage(rep, mod.MODULE, targets, getattr(mod, "THOROUGH_MODULES", ()))
    if getattr(mod, "DRIVER", None):
        dok, dout = core.lean_build([mod.DRIVER])   # separately: the model must run even when a proof broke
        if not dok:
            rep.notes.append("driver build failed: " + dout[-1500:])
    proof_failure = getattr(rep, "proof_failure", None)
    if regen_fail:
        proofs_ok = False
        proof_failure = regen_fail
    driver_ok = getattr(mod, "DRIVER", None) and os.path.exists(core.driver_path(mod.DRIVER))

    found_input = False
    evaluations = 0
    distinct = set()
    samples = []
    validated = 0
    stats = collections.Counter()

    if driver_ok:
        for h in mod.HARNESSES:
            hb, hout = core.build_harness(h["name"], h["src"], h.get("repo_srcs", ()), h.get("flags", ()),
                                          h.get("san", core.SAN), h.get("std", "c++11"), h.get("libs", ()),
                                          h.get("opt", "-O1"), h.get("extra_deps", ()))
            if hb is None:
                # the tree no longer compiles with our harness: the tie is broken (fail closed)
                rep.violation(dict(kind="harness-build-failed", harness=h["name"], output=hout[-6000:],
                                   note="the harness no longer compiles against /repo's tree; correspondence cannot be established"),
                              no_input=True)
                continue
            pair = core.Pair(hb, core.driver_path(mod.DRIVER), harness_args=h.get("args", ()),
                             driver_args=h.get("driver_args", ()), timeout=h.get("timeout", 600),
                             env=h.get("env"))
            if replay:
                import json
                rp = json.load(open(replay))
                cases = [rp["ops"]] if "ops" in rp else []
            else:
                try:
                    cases = core.load_corpus(mod.ID) + mod.gen_cases(rng, tier, h)
                except Exception as ex:
                    if not regen_fail:
                        raise
                    # the model could not be regenerated from this tree (already a broken tie): the generator has no
                    # signatures to draw from; the search for a failing input is limited to the corpus
                    rep.notes.append("case generation skipped after failed regeneration: %r" % (ex,))
                    cases = core.load_corpus(mod.ID)
            t1 = time.time()
            fails = pair.compare(cases)
            evaluations += len(cases)
            validated += len(cases) - len(fails)
            for c in cases:
                if mod.nontrivial(c):
                    distinct.add(core.case_hash(c))
                for l in c:
                    stats[l.split(" ", 1)[0]] += 1
            if cases and len(samples) < 3:
                k = min(len(cases) - 1, 7)
                rc, io, _ = pair.run_impl([cases[k]])
                samples.append(dict(harness=h["name"], ops=cases[k][:40], impl=io.get(0, [])[:40]))
            reported = 0
            for f in fails:
                case = cases[f["case"]]
                cls = mod.classify(f, case) if hasattr(mod, "classify") else None
                if cls and cls[0] in known:
                    rep.known(cls[0], cls[1])
                    continue
                if reported >= 2:
                    continue
                reported += 1
                kind = f["kind"]

                def still(c2, kind=kind):
                    if hasattr(mod, "valid_case") and not mod.valid_case(c2):
                        return False   # shrinking must stay inside the well-formed histories of the property
                    ff = pair.fails_one(c2)
                    if not ff or ff[0]["kind"] != kind:
                        return False
                    cl2 = mod.classify(ff[0], c2) if hasattr(mod, "classify") else None
                    return not (cl2 and cl2[0] in known)
                small = core.shrink_case(case, still, getattr(mod, "FIXED_PREFIX", 0))
                ff = pair.fails_one(small)
                f2 = ff[0] if ff else f
                found_input = True
                rep.violation(dict(kind="correspondence-" + f2["kind"], harness=h["name"], ops=small,
                                   impl=f2.get("impl"), model=f2.get("model"), detail=f2.get("detail"),
                                   stderr=f2.get("stderr", "")[-2500:],
                                   explanation=getattr(mod, "EXPLAIN", "the real code and the proved model disagree on an observation the property determines")))
            core.log("[%s] harness %s: %d cases, %d failures, %.1fs" % (mod.ID, h["name"], len(cases), len(fails), time.time() - t1))

    ctx = dict(rng=rng, known=known, tier=tier)
    if hasattr(mod, "extra_stage"):
        try:
            r = mod.extra_stage(rep, ctx)
        except Exception as ex:
            if not regen_fail:
                raise
            # the model could not be regenerated from this tree (reported below as a broken tie): the oracle stage has no
            # signatures to generate cases from
            rep.notes.append("oracle stage skipped after failed regeneration: %r" % (ex,))
            r = None
        if r:
            evaluations += r.get("evaluations", 0)
            for s in r.get("distinct", []):
                distinct.add(s)
            samples.extend(r.get("samples", [])[:3])
            if r.get("found_input"):
                found_input = True

    if not proofs_ok and not found_input:
        rep.violation(dict(kind="proof-obligation-broken", failure=proof_failure,
                           note="no concrete failing input was found on the real code; the property is no longer shown to hold"),
                      no_input=True)

    cov = rep.coverage
    cov["evaluations"] = evaluations
    cov["distinct_nontrivial"] = len(distinct)
    cov["rule"] = mod.RULE
    cov["samples"] = samples
    cov["traces_validated_against_impl"] = validated
    cov["op_histogram"] = dict(stats.most_common(40))
    return rep.finish("proof")
