"""C09 — Optional<T> / Any as value types: refinement to Option, payload lifetimes, storage alignment."""
ID = "C09"
MODULE = "RkVerif.Props.C09"
DRIVER = "drv_c09"
THOROUGH_MODULES = ["RkVerif.Model.C09", "RkVerif.Lemmas.C09", "RkVerif.Lemmas.C09Any"]
FIXED_PREFIX = 1  # the `type …` line that opens a case selects the payload type on both sides

HARNESSES = [dict(name="c09", src="harness/c09.cpp", repo_srcs=["rkcommon/utility/demangle.cpp"])]

# payload type -> (sizeof, log2 alignof) as the harness asserts them (x86-64 SysV, libstdc++)
TYPES = {"int": (4, 2), "flt": (4, 2), "dbl": (8, 3), "str": (32, 3), "vec": (24, 3), "big": (64, 5), "trk": (8, 3), "tdp": (16, 3)}
ENV_TYPES = ("int", "flt", "str")
ATAGS = ["int", "float", "string", "long", "noeq", "trk", "key"]

RULE = ("random operation histories over three Optional<T> wrappers (one of them placed directly behind a char member) and two "
        "Optional<U> wrappers (U convertible to T) for T in int, float, double, std::string, std::vector<int>, a 32-byte-aligned "
        "struct and a lifetime-instrumented type: default/value/copy/move/converting construction, make_optional, getEnvVar, "
        "assignment from values (lvalue, rvalue, convertible), from engaged and empty wrappers (copy, move, converting, self), "
        "emplace, reset, destruction, has_value/bool/value/->/value_or/six comparisons/toString, storage alignment; and over three "
        "Any objects with six payload types (one without operator==, one lifetime-instrumented): construction, copy, assignment, "
        "mutation through get<T>(), typed get (right and wrong type, const and non-const), is, valid, ==/!= and toString including "
        "empty operands. Values are tokens 0..3. A case is non-trivial when it has at least 4 state-changing operations and at "
        "least one copy/move/assignment from another wrapper; distinct = distinct op sequences")
ASSUMPTIONS = [
    "payload operations (constructors, assignment, comparison) do not throw; exception safety of Optional is not modelled",
    "the payload types' own copy/move/assignment/comparison and std::unique_ptr, dynamic_cast, typeid, new/delete behave per the C++ standard",
    "a moved-from payload has an unspecified value: both sides print `?` for it until it is overwritten",
    "temporaries created by the language (by-value parameters, conversions) are destroyed by the end of the full expression",
    "alignments are powers of two and the ABI lays out standard-layout structs member by member at the next multiple of the member's alignment",
]
EXPLAIN = ("observations of the real Optional/Any (has_value/valid flags of every wrapper, returned values, throw/no-throw, "
           "comparison results, number of live instrumented payload objects, lifetime errors seen by the instrumented payload, "
           "storage alignment, sanitizer aborts) differ from the Lean model for which optional_refines, optional_lifetime, "
           "optional_aligned, any_refines, any_typed_get and any_total are proved")

MUT_OPS = {"empx", "asown", "new", "newv", "mk", "newc", "newm", "newcu", "newmu", "del", "asv", "asvr", "asvu", "asc", "asm", "ascu", "asmu",
           "emp", "rst", "env_get", "anew", "anewv", "acopy", "adel", "aasg", "aasv", "amut"}
SRC_OPS = {"newc", "newm", "newcu", "newmu", "asc", "asm", "ascu", "asmu", "acopy", "aasg"}


def _opt_case(rng, t, length):
    sz, al = TYPES[t]
    c = ["type %s %d %d" % (t, sz, al)]
    present = [False] * 5
    T, U = [0, 1, 2], [3, 4]

    def have(slots):
        return [s for s in slots if present[s]]

    def pick(slots):
        # a slot holding an object if there is one; sometimes any slot (ops on missing objects are skipped on both sides)
        good = have(slots)
        if good and not rng.chance(0.05):
            return rng.pick(good)
        return rng.pick(slots)

    def fresh(slots):
        free = [s for s in slots if not present[s]]
        if free and not rng.chance(0.3):
            return rng.pick(free)
        return rng.pick(slots)

    def construct(i, k):
        q = rng.random()
        if q < 0.40: c.append("new %d" % i)
        elif q < 0.85 or i > 2: c.append("newv %d %d" % (i, k))
        else: c.append("mk %d %d" % (i, k))
        present[i] = True

    env = set()
    for _ in range(length):
        k = rng.randrange(4)
        r = rng.random()
        if t in ENV_TYPES and rng.chance(0.07):
            q = rng.random()
            if q < 0.40:
                nm = rng.pick("abc"); c.append("env_set %s %d" % (nm, k)); env.add(nm)
            elif q < 0.50:
                nm = rng.pick("abc"); c.append("env_unset %s" % nm); env.discard(nm)
            else:
                i = fresh(T)
                nm = rng.pick(sorted(env)) if env and rng.chance(0.75) else rng.pick("abc")
                c.append("env_get %d %s" % (i, nm)); present[i] = True
                if rng.chance(0.8): c.append("get %d" % i)
            continue
        if not have(T) or r < 0.06:
            construct(fresh(T), k)
        elif not have(U) and r < 0.30 or r < 0.10:
            construct(fresh(U), k)
        elif r < 0.22:
            # constructors from another wrapper
            i = fresh(T)
            others = [s for s in T if s != i]
            q = rng.random()
            if q < 0.30 and have(others): op, j = "newc", pick(others)
            elif q < 0.62 and have(others): op, j = "newm", pick(others)
            elif q < 0.80 and have(U): op, j = "newcu", pick(U)
            elif have(U): op, j = "newmu", pick(U)
            else: op, j = "newc", rng.pick(others)
            c.append("%s %d %d" % (op, i, j))
            if present[j]: present[i] = True
        elif r < 0.30:
            u = pick(U)
            q = rng.random()
            if q < 0.35: c.append("asv %d %d" % (u, k))
            elif q < 0.55: c.append("emp %d %d" % (u, k))
            elif q < 0.85: c.append("rst %d" % u)
            else: c.append("del %d" % u); present[u] = False
        elif r < 0.35:
            i = pick(T)
            c.append("del %d" % i); present[i] = False
        elif r < 0.66:
            i = pick(T)
            others = [s for s in T if s != i]
            q = rng.random()
            if q < 0.07: c.append("asv %d %d" % (i, k))
            elif q < 0.10: c.append("asown %d" % i)
            elif q < 0.17: c.append("asvr %d %d" % (i, k))
            elif q < 0.24: c.append("asvu %d %d" % (i, k))
            elif q < 0.44: c.append("asc %d %d" % (i, pick(T)))
            elif q < 0.60 and have(others): c.append("asm %d %d" % (i, pick(others)))
            elif q < 0.70 and have(U): c.append("ascu %d %d" % (i, pick(U)))
            elif q < 0.78 and have(U): c.append("asmu %d %d" % (i, pick(U)))
            elif q < 0.83 and t in ("str", "trk"): c.append("empx %d" % i)
            elif q < 0.88: c.append("emp %d %d" % (i, k))
            else: c.append("rst %d" % i)
        else:
            s = pick(U) if rng.chance(0.12) else pick(T)
            q = rng.random()
            if q < 0.30: c.append("get %d" % s)
            elif q < 0.38: c.append("arrow %d" % s)
            elif q < 0.46: c.append("has %d" % s)
            elif q < 0.50: c.append("bool %d" % s)
            elif q < 0.62: c.append("vor %d %d" % (s, k))
            elif q < 0.64: c.append("tostr %d" % s)
            elif q < 0.85 or not have(U): c.append("cmp %d %d" % (pick(T), pick(T)))
            elif q < 0.97: c.append("cmpu %d %d" % (pick(T), pick(U)))
            else: c.append("layout")
    for s in range(3):
        if present[s] and rng.chance(0.5):
            c.append("get %d" % s)
    c.append("end")
    return c


def _any_case(rng, length):
    c = ["type any 0 0"]
    present = [False] * 3
    S = [0, 1, 2]

    def pick(want=True):
        good = [s for s in S if present[s] == want]
        if good and not rng.chance(0.06):
            return rng.pick(good)
        return rng.pick(S)

    only_key = rng.chance(0.15)   # histories over the payload whose operator== is coarser than identity
    for _ in range(length):
        k = rng.randrange(4)
        t = rng.pick(ATAGS[:3]) if rng.chance(0.5) else rng.pick(ATAGS)
        if only_key and not rng.chance(0.1):
            t = "key"
        if t == "key":
            k = rng.randrange(8)   # tokens 4a+b: equal (operator==) iff same a, identical iff same token
        r = rng.random()
        if sum(present) == 0 or r < 0.18:
            i = pick(False) if rng.chance(0.8) else rng.pick(S)
            q = rng.random()
            if q < 0.30: c.append("anew %d" % i); present[i] = True
            elif q < 0.65: c.append("anewv %d %s %d" % (i, t, k)); present[i] = True
            else:
                src = [s for s in S if s != i and present[s]]
                j = rng.pick(src) if src and not rng.chance(0.05) else rng.pick([s for s in S if s != i])
                c.append("acopy %d %d" % (i, j))
                if present[j]: present[i] = True
        elif r < 0.23:
            i = pick(); c.append("adel %d" % i); present[i] = False
        elif r < 0.36: c.append("aasg %d %d" % (pick(), pick()))
        elif r < 0.46: c.append("aasv %d %s %d" % (pick(), t, k))
        elif r < 0.56: c.append("amut %d %s %d" % (pick(), t, k))
        elif r < 0.72: c.append("aget %d %s" % (pick(), t))
        elif r < 0.78: c.append("ais %d %s" % (pick(), t))
        elif r < 0.82: c.append("avalid %d" % pick())
        elif r < 0.94: c.append("aeq %d %d" % (pick(), pick()))
        else: c.append("astr %d" % pick())
    c.append("end")
    return c


def gen_cases(rng, tier, h):
    n = 500 if tier == "quick" else 12000
    cases = []
    for t in TYPES:
        for _ in range(n):
            cases.append(_opt_case(rng, t, rng.randint(4, 34)))
    for _ in range(2 * n):
        cases.append(_any_case(rng, rng.randint(4, 34)))
    return cases


def nontrivial(case):
    ops = [l.split()[0] for l in case]
    return sum(1 for o in ops if o in MUT_OPS) >= 4 and any(o in SRC_OPS for o in ops)


MAX_CRASH_RESTARTS = 12


def main(tier, seed, replay):
    """Generic pipeline (vlib.runner) with one change local to this property: `Pair.compare` restarts the harness
    after every sanitizer abort and recurses once per crash; on a tree where a defect makes most histories abort
    that costs a process start per case and overflows the Python stack. Here the comparison is iterative and stops
    restarting after MAX_CRASH_RESTARTS aborts (the remaining cases of that batch are then not run - the check has
    its failing inputs already)."""
    import sys
    from vlib import core, runner

    class BoundedPair(core.Pair):
        def compare(self, cases):
            fails = []
            rc_m, mo, merr = self.run_model(cases)
            if rc_m != 0:
                raise RuntimeError("Lean driver failed (rc=%s): %s" % (rc_m, merr[:2000]))
            start, crashes = 0, 0
            while start < len(cases) and crashes <= MAX_CRASH_RESTARTS:
                batch = cases[start:]
                rc_i, io, ierr = self.run_impl(batch)
                crashed_at = None
                if rc_i != 0:
                    done = [k for k in range(len(batch)) if k in io and len(io[k]) >= len(batch[k])]
                    crashed_at = min((max(done) + 1) if done else 0, len(batch) - 1)
                for k, c in enumerate(batch):
                    il, ml = io.get(k), mo.get(start + k, [])
                    if crashed_at is not None and k == crashed_at:
                        fails.append(dict(case=start + k, kind="crash", impl=il or [], model=ml,
                                          detail=(core.sanitizer_summary(ierr) or ("rc=%s" % rc_i)), stderr=ierr[-3000:]))
                        break
                    if il is None:
                        continue
                    if il != ml:
                        j = next((j for j in range(min(len(il), len(ml))) if il[j] != ml[j]), min(len(il), len(ml)))
                        fails.append(dict(case=start + k, kind="mismatch", impl=il, model=ml, first_diff=j,
                                          detail="op %r: impl=%r model=%r" % (c[j] if j < len(c) else None,
                                                                               il[j] if j < len(il) else None,
                                                                               ml[j] if j < len(ml) else None)))
                if crashed_at is None:
                    break
                crashes += 1
                start += crashed_at + 1
            return fails

    core.Pair = BoundedPair
    return runner.run(sys.modules[__name__], tier, seed, replay)


MANIFEST = dict(
    text=("Lean 4 theorems over an executable model of Optional<T> (flag + raw/live storage slot per wrapper, every member function as "
          "the sequence of payload events the source performs) and of Any (explicit heap of type-erased holders): for every operation "
          "history over any number of wrappers, has_value/value/value_or/comparisons equal those of an abstract Option per wrapper and "
          "copies never change their source or any third wrapper (optional_refines, optional_frame); no payload event ever hits raw "
          "storage, nothing is constructed over a live payload, and once the wrappers are destroyed every slot has as many destructions "
          "as constructions (optional_lifetime); the payload storage address is a multiple of alignof(T) inside any enclosing struct "
          "(optional_aligned); no two Any objects share a holder and every allocated holder is owned or freed, get<T> succeeds iff the "
          "stored tag is T, ==/toString never dereference a null holder (any_refines, any_typed_get, any_total). The pre-repair member "
          "functions are kept as *_prefix definitions with decide-checked witnesses of each defect. The model is tied to the code by "
          "running the same random histories through the real classes (7 payload types incl. heap-owning, over-aligned and "
          "lifetime-instrumented; one wrapper at the smallest legal offset; ASan/UBSan) and the compiled model and diffing every observation."),
    note=("Trusted: Lean kernel; axioms propext/Classical.choice/Quot.sound; the hand-written model is tied to the code only by the "
          "correspondence harness (generators, canonicalisation of moved-from values, instrumented payload registry) and the g++/sanitizer "
          "runtimes. Not modelled: exceptions thrown by payload operations, temporaries managed by the language, the exact text of "
          "toString. Five defects of the pinned tree are repaired by fixes/C09-*.patch; the model follows the repaired code."),
    technique="Lean 4 proof (inductive invariants over operation histories, refinement to Option, struct-layout arithmetic) + differential correspondence check model vs real code under ASan/UBSan")
