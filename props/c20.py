"""C20 — image writers (SaveImage.h) and trace writer (Tracing.cpp) emit decodable files containing exactly the input."""
import os
import re

from vlib import core

ID = "C20"
MODULE = "RkVerif.Props.C20"
DRIVER = "drv_c20"
THOROUGH_MODULES = ["RkVerif.Model.C20", "RkVerif.Lemmas.C20", "RkVerif.Lemmas.C20Trace"]


def _chunk_size():
    """THREAD_EVENT_CHUNK_SIZE as defined in the tree under test (the event-count boundaries of the
    generator are placed around it; the model's observable result does not depend on it, theorem
    chunk_boundary_irrelevant).  Falls back to 8192 when the definition is not found."""
    try:
        src = open(os.path.join(core.REPO, "rkcommon/tracing/Tracing.cpp")).read()
        m = re.search(r"THREAD_EVENT_CHUNK_SIZE\s*=?\s*\(?\s*(\d+)", src)
        if m and 1 <= int(m.group(1)) <= 1 << 20:
            return int(m.group(1))
    except OSError:
        pass
    return 8192


CHUNK = _chunk_size()

HARNESSES = [dict(name="c20", src="harness/c20.cpp", repo_srcs=["rkcommon/tracing/Tracing.cpp"],
                  args=[os.path.join(core.CACHE, "c20")], driver_args=[str(CHUNK)], timeout=900),
             # RKCOMMON_NO_SIMD is a supported configuration (another layout of the padded vector types is possible
             # there): the image cases only
             dict(name="c20nosimd", src="harness/c20.cpp", repo_srcs=["rkcommon/tracing/Tracing.cpp"], flags=["-DRKCOMMON_NO_SIMD"],
                  args=[os.path.join(core.CACHE, "c20ns")], driver_args=[str(CHUNK)], timeout=900, images_only=True)]

RULE = ("image cases: widths/heights 1..9 (thorough 1..40) with single rows/columns and non-square sizes forced, all six "
        "writers (writePPM, writePGM, writePFM<float|vec3f|vec3fa|vec4f>), pixel words either arithmetic progressions that make "
        "every component byte/word of neighbouring pixels distinct or uniformly random 32-bit patterns, copied into exact-size "
        "heap buffers under ASan, files decoded by an independent Netpbm/PFM reader; trace cases: 1..8 threads (each case in a "
        "forked process), per-thread programs of begin/end (nesting depth 0..6, occasionally left open, some held open for >100 us "
        "so that derived cpuUtilization counters appear), markers, counters "
        "(values up to 2^63), thread names, names/categories from alphabets of 4/3; event counts 0, 1 and CHUNK-1, CHUNK, "
        "CHUNK+1, 2*CHUNK(+1) with begin/end pairs straddling the chunk boundary, with and without a process name, "
        "including the completely empty log; output parsed by a strict RFC 8259 parser. A case is non-trivial when it "
        "writes an image of at least 2 pixels or saves a log; distinct = distinct op sequences")
ASSUMPTIONS = [
    "little-endian target: uint32_t pixels are seen by writePPM/writePGM as bytes R,G,B,A in memory order; floats are 4-byte words written in memory order",
    "event names, categories, thread and process names are identifier-like strings in storage that outlives saveLog (the recorder caches strings by pointer and does not JSON-escape; documented input restrictions)",
    "every endEvent is preceded by an unmatched beginEvent on the same thread (otherwise the real code dereferences a null thread_local or breaks out of one chunk)",
    "saveLog runs after the recording threads have finished; thread ids of simultaneously live threads are distinct; the unordered_map may iterate threads in any order (the theorems hold for every order)",
    "steady_clock advances between a begin and its end, so the cpuUtilization float prints as a JSON number (the harness re-runs a case whose only fault is a non-finite utilisation); std::ofstream/fprintf/fwrite/FILE behave per their specifications",
]
EXPLAIN = ("the file written by the real code (decoded by the harness's own Netpbm/PFM reader or strict JSON parser, under "
           "ASan/UBSan) differs from the Lean model for which image_in_bounds, image_roundtrip, trace_wellformed, "
           "trace_complete_ordered, trace_nested and chunk_boundary_irrelevant are proved")

FORMATS = [("ppm", 1), ("pgm", 1), ("pf", 1), ("pf3", 3), ("pf3a", 4), ("pf4", 4)]


def _img(rng, fmt, wpp, w, h):
    n = w * h * wpp
    mode = rng.randrange(3)
    if mode == 0:
        # every byte of every word distinct from its neighbours: word i has bytes 4i, 4i+1, 4i+2, 4i+3 (+ offset) mod 256
        off = rng.randrange(256)
        words = []
        for i in range(n):
            b = [(off + 4 * i + k) % 256 for k in range(4)]
            words.append(b[0] | b[1] << 8 | b[2] << 16 | b[3] << 24)
    elif mode == 1:
        # word index readable in the value: component c of pixel p is (c+1)<<24 | p
        base = rng.randrange(1 << 16)
        words = [(((i % wpp) + 1) << 24) | ((base + i // wpp) & 0xFFFFFF) for i in range(n)]
    else:
        words = [rng.getrandbits(32) for _ in range(n)]
    return "img %s %d %d %s" % (fmt, w, h, " ".join("%08x" % x for x in words))


def _size(rng, hi):
    r = rng.random()
    if r < 0.2:
        return 1, rng.randint(1, hi)
    if r < 0.4:
        return rng.randint(1, hi), 1
    w = rng.randint(1, hi)
    h = rng.randint(1, hi)
    if rng.chance(0.5) and w == h:
        h = h % hi + 1
    return w, h


NAMES = ["a", "bb", "render", "x_1"]
CATS = ["-", "-", "c1", "cat2"]
BIG = [0, 1, 7, 255, 65536, 4294967296, 9223372036854775808]


def _events(rng, n, max_depth, leave_open=False):
    """a well-nested program of about n events"""
    out, depth, pauses = [], 0, 0
    while len(out) < n:
        r = rng.random()
        if r < 0.30 and depth < max_depth:
            out.append("B.%s.%s" % (rng.pick(NAMES), rng.pick(CATS)))
            depth += 1
        elif r < 0.55 and depth > 0:
            out.append("E")
            depth -= 1
        elif r < 0.75:
            out.append("M.%s.%s" % (rng.pick(NAMES), rng.pick(CATS)))
        elif r < 0.93:
            out.append("C.%s.%d" % (rng.pick(NAMES), rng.pick(BIG) if rng.chance(0.5) else rng.randrange(1000)))
        elif r < 0.97 and depth > 0 and pauses < 4:
            out.append("Z")      # pause inside an open begin: its end gets a derived cpuUtilization counter
            pauses += 1
        else:
            out.append("M.%s.-" % rng.pick(NAMES))
    if not leave_open:
        out.extend(["E"] * depth)
    return out


def _trace_case(rng, big=None):
    T = rng.randint(1, 8)
    c = []
    for k in range(T):
        r = rng.random()
        if r < 0.08:
            prog = []                       # thread records nothing
        elif r < 0.16:
            prog = rng.pick([["M.a.-"], ["C.a.3"], ["B.a.c1", "E"]])[:]
        else:
            prog = _events(rng, rng.randint(1, 40), rng.randint(0, 6), leave_open=rng.chance(0.1))
        if rng.chance(0.5):
            prog.insert(rng.randint(0, len(prog)), "N.thr_%d" % k)
        if big is not None and k == 0:
            prog = big + prog
        if prog or rng.chance(0.5):
            c.append("thr %d %s" % (k, " ".join(prog)))
    c.append("save " + rng.pick(["-", "-", "proc", "my_app"]))
    return c


def _boundary_programs(rng, cs):
    """programs whose event count sits on the chunk boundary"""
    ps = []
    for n in (cs - 1, cs, cs + 1):
        ps.append(["*%d[ M.a.- ]" % n])
        ps.append(["*%d[ C.bb.%d ]" % (n - 1, rng.randrange(100)), "M.x_1.c1"])
    # begin is the last event of a chunk, its end the first of the next one
    ps.append(["*%d[ M.a.- ]" % (cs - 1), "B.render.c1", "E", "M.bb.-"])
    ps.append(["*%d[ M.a.- ]" % (cs - 2), "B.render.c1", "B.a.-", "E", "E"])
    # pairs all the way: boundary falls between a B and its E (odd offset) or between pairs
    ps.append(["M.a.-", "*%d[ B.a.- E ]" % (cs // 2 + 1)])
    ps.append(["*%d[ B.a.c1 E ]" % (cs // 2 + 1)])
    # deep nesting across the boundary
    ps.append(["*%d[ C.a.1 ]" % (cs - 3), "*6[ B.bb.- ]", "*6[ E ]"])
    # two chunks and a bit
    ps.append(["*%d[ B.x_1.- M.a.cat2 E ]" % ((2 * cs) // 3 + 1)])
    ps.append(["*%d[ M.a.- ]" % (2 * cs), "C.a.9223372036854775808"])
    return ps


def _many_names_programs(rng):
    """thousands of distinct names / categories on one thread (a per-thread name cache must keep every one of them alive
    until saveLog): just below, at and beyond powers of two"""
    ps = []
    for n in (rng.pick([511, 1023, 1025]), rng.pick([2049, 3100, 4097])):
        ps.append(["B.first.c1", "#%d[ M.n%%.k%% ]" % n, "E", "M.first.c1"])
    ps.append(["#%d[ B.r%%.- C.v%%.%% E ]" % rng.pick([700, 1100, 2100])])
    return ps


def _clean_stale():
    """scratch directories of harness processes that were killed by a sanitizer report"""
    base = os.path.join(core.CACHE, "c20")
    if not os.path.isdir(base):
        return
    for d in os.listdir(base):
        m = re.match(r"c20_(\d+)$", d)
        if m and not os.path.exists("/proc/" + m.group(1)):
            p = os.path.join(base, d)
            for f in os.listdir(p):
                try:
                    os.remove(os.path.join(p, f))
                except OSError:
                    pass
            try:
                os.rmdir(p)
            except OSError:
                pass


def gen_cases(rng, tier, h):
    """trace cases first, image cases last: a sanitizer abort in an image case then re-runs only cheap cases"""
    _clean_stale()
    cases = []
    quick = tier == "quick"
    if h.get("images_only"):
        for fmt, wpp in FORMATS:
            cases.append([_img(rng, fmt, wpp, w, hh) for (w, hh) in ((1, 1), (2, 1), (1, 3), (3, 2), (5, 4), (8, 3))])
            cases.append([_img(rng, fmt, wpp, *_size(rng, 9)) for _ in range(4 if quick else 40)])
        return cases
    # ---- the empty log, alone in its case (every `save` runs in its own process in the harness)
    cases.append(["save -"])
    cases.append(["save proc"])
    cases.append(["thr 0", "save -"])
    cases.append(["thr 0 N.only_name", "save -"])
    cases.append(["thr 0 M.a.-", "save -"])
    cases.append(["thr 0 B.a.c1 E", "save -"])
    # ---- traces
    for _ in range(120 if quick else 4000):
        cases.append(_trace_case(rng))
    # saveLog called twice in one process
    for _ in range(12 if quick else 300):
        c = _trace_case(rng)
        c[-1] = "save2 " + c[-1].split()[1]
        cases.append(c)
    # the same kind of programs recorded by threads that run one after the other (thread ids may be reused)
    for _ in range(25 if quick else 600):
        c = _trace_case(rng)
        if sum(1 for l in c if l.startswith("thr ")) >= 2:
            c[-1] = "saveseq " + c[-1].split()[1]
            cases.append(c)
    bp = _boundary_programs(rng, CHUNK)
    if quick:
        bp = bp[:6] + [rng.pick(bp[6:]) for _ in range(3)]
    for p in bp + _many_names_programs(rng):
        cases.append(_trace_case(rng, big=p))
    if not quick:
        for p in _boundary_programs(rng, CHUNK):
            # the boundary program on every thread of a multi-thread case
            T = rng.randint(2, 8)
            cases.append(["thr %d %s" % (k, " ".join(p)) for k in range(T)] + ["save " + rng.pick(["-", "p"])])
    # ---- images
    hi = 9 if quick else 40
    for _ in range(60 if quick else 1200):
        c = []
        for _ in range(rng.randint(2, 5)):
            fmt, wpp = rng.pick(FORMATS)
            w, hh = _size(rng, hi if rng.chance(0.85) else max(3, hi // 3))
            c.append(_img(rng, fmt, wpp, w, hh))
        cases.append(c)
    # wide / tall images around powers of two (a row or column count that is an exact multiple of an internal block or
    # stride size is where a blocked / vectorised rewrite of the row loop goes wrong)
    pow2 = [v for k in range(5, 11) for v in ((1 << k) - 1, 1 << k, (1 << k) + 1)] + [768, 1280]
    for fmt, wpp in FORMATS:
        ws = [256, 512] + [rng.pick(pow2) for _ in range(2 if quick else 12)]
        if not quick:
            ws += pow2
        cases.append([_img(rng, fmt, wpp, w, rng.pick([1, 2, 3])) for w in ws])
        hs = [256] + [rng.pick(pow2) for _ in range(1 if quick else 8)]
        cases.append([_img(rng, fmt, wpp, rng.pick([1, 2]), hh) for hh in hs])
    # one image per format whose payload exceeds the 1 MiB stack of the harness' writer thread (the pixel words follow
    # a formula both sides know; observed through a digest of the decoded text)
    big = [("ppm", 640, 600), ("pgm", 1200, 950), ("pf", 520, 520), ("pf3", 300, 310), ("pf3a", 310, 300), ("pf4", 270, 260)]
    for fmt, w, hh in (big if not quick else [big[0], rng.pick(big[1:])]):
        cases.append(["imgpat %s %d %d %d" % (fmt, w, hh, rng.randrange(1 << 20))])
    # the same format written from several threads at once, each thread its own image and file
    for fmt, wpp in (FORMATS if not quick else [rng.pick(FORMATS), rng.pick(FORMATS)]):
        cases.append(["imgmt %s %d %d %d %d %d" % (fmt, rng.pick([700, 1024, 1500]), rng.pick([12, 24]), rng.randrange(1 << 20),
                                                rng.pick([3, 4]), 25 if quick else 120)])
    # every format at the corner sizes
    for fmt, wpp in FORMATS:
        cases.append([_img(rng, fmt, wpp, w, hh) for (w, hh) in ((1, 1), (1, 2), (2, 1), (1, 5), (5, 1), (2, 3), (3, 2), (4, 3))])
    return cases


def nontrivial(case):
    for l in case:
        w = l.split()
        if w[0] in ("save", "saveseq", "save2"):
            return True
        if w[0] in ("img", "imgpat", "imgmt") and int(w[2]) * int(w[3]) >= 2:
            return True
    return False


MANIFEST = dict(
    text=("Lean 4 theorems over an executable model of writeImage with the six writer instantiations and of the trace recorder "
          "(chunked per-thread event lists, saveLog as a character-level token stream): every source index read lies inside "
          "the width x height pixel array for every size and format; decoding the written bytes with an independent Netpbm/PFM "
          "reader returns the header sizes and exactly the channels each format selects, rows bottom-up for PPM/PGM and as given "
          "for PFM, for every size and pixel content; for every call history of any number of threads, every registry order and "
          "every chunk size saveLog's output is a well-formed JSON array (grammar over tokens) that contains each thread's "
          "begin/end/marker/counter events in recording order, properly nested, and does not depend on the chunk size. The model "
          "is tied to the code by running the same generated images and per-thread event programs through the real writers "
          "(exact-size heap buffers under ASan/UBSan, one forked process per trace case, chunk-boundary event counts read from "
          "the source) and through the compiled model, and diffing the files as decoded by an independent reader / strict "
          "JSON parser."),
    note=("Trusted: Lean kernel; axioms propext/Classical.choice/Quot.sound; the hand-written model is tied to the code only by "
          "the correspondence harness (generators, the harness's own decoders, canonicalisation of time stamps/pid/tid numbering) "
          "and the g++/ASan/UBSan runtimes. Assumed: little-endian target; identifier-like names in stable storage (no JSON "
          "escaping, pointer-keyed string cache); no endEvent without a begin; saveLog after the recording threads finished; "
          "finite cpuUtilization float (steady_clock advances between a begin and its end); file system and stdio/iostream "
          "behave per their specifications. Defects found and repaired: C20-pfm-float-index, C20-savelog-empty."),
    technique="Lean 4 proof (index arithmetic, fold invariants, induction over call histories, token-level JSON grammar) + differential correspondence check model vs real code")
