"""C18 — string, URL, path and argument helpers satisfy their decomposition laws."""
import math
import struct

ID = "C18"
MODULE = "RkVerif.Props.C18"
DRIVER = "drv_c18"
THOROUGH_MODULES = ["RkVerif.Model.C18", "RkVerif.Lemmas.C18"]

HARNESSES = [
    dict(name="c18", src="harness/c18.cpp",
         repo_srcs=["rkcommon/common.cpp", "rkcommon/utility/PseudoURL.cpp", "rkcommon/os/FileName.cpp",
                    "rkcommon/os/library.cpp"],
         libs=["-ldl"]),
]

RULE = ("small-scope enumeration first (every string over {a,b,delimiter} up to length 5 (quick) / 7 (thorough) through tokenize, "
        "both splits; every string over {a,.,/} up to length 6 / 8 through FileName; all pairs of {a,b}-strings up to length 4 x 3 "
        "through longestBeginningMatch/beginsWith), then random op lines over small alphabets: split/tokenize on strings over {a,b,delimiters} of length 0..9 (0- and 1-character "
        "tokens, leading/trailing/repeated delimiters frequent); longestBeginningMatch/beginsWith on {a,b}-strings that are "
        "often prefixes of each other; pseudo-URLs assembled from (type, file, name=value list with duplicate names) plus raw "
        "strings over {a,b,:,/,=}, probed with every name; file names from component lists (dots in directories, hidden "
        "files, trailing separators, both slash kinds, both constructors) with setExt/addExt/operator+; argument vectors over "
        "5 tokens with remove/parseAndRemove (consume tables, only in-range consumption) and removeArgs; prettyNumber/"
        "prettyDouble at every float threshold, its neighbours, d*10^k, x.x5 ties, random 64-bit values and random doubles "
        "1e-17..1e22 of both signs. A case is non-trivial when at least one op's input contains a delimiter / dot / separator "
        "/ duplicate or a magnitude >= 1000 or <= 1; distinct = distinct op-line sequences")
ASSUMPTIONS = [
    "std::string::find/find_first_of/find_last_of/substr, std::getline, std::mismatch, std::vector::erase/at behave per the C++ standard",
    "glibc snprintf(\"%.1f\"/\"%f\") rounds the exact binary value to nearest, ties to even (default rounding mode); "
    "double arithmetic is IEEE-754 binary64 round-to-nearest-even; long double is not involved",
    "path_sep is '/' (non-Windows build)",
    "ArgumentList::remove / removeArgs are only called with ranges inside the list (outside is undefined behaviour in C++)",
]
EXPLAIN = ("the real helper returned something different from the Lean model for which the decomposition laws of C18 are proved "
           "(split/tokenize keep every non-empty token, PseudoURL round trip, FileName path/base/name/ext laws, "
           "argument removal keeps the unconsumed arguments in order, SI mantissa in [1,1000])")


def _s(x):
    return "~" + x


def _rs(rng, alphabet, lo, hi):
    return "".join(rng.pick(alphabet) for _ in range(rng.randint(lo, hi)))


# ----------------------------------------------------------------------------- strings
def _gen_split(rng):
    r = rng.random()
    if r < 0.30:
        d = rng.pick([",", ",", ",", "a"])
        return "split1 %s %s" % (_s(_rs(rng, "ab,,", 0, 9)), _s(d))
    if r < 0.60:
        d = rng.pick([":", ":", ":", "b"])
        return "tok %s %s" % (_s(_rs(rng, "ab::", 0, 9)), _s(d))
    ds = rng.pick([",", ",;", ";,", ";", "", "a,", ",,"])
    return "splitset %s %s %s" % (_s(_rs(rng, "ab,;", 0, 9)), _s(ds), rng.pick(["0", "1", "1", "d"]))


def _gen_prefix(rng):
    a = _rs(rng, "ab", 0, 6)
    r = rng.random()
    if r < 0.35:
        b = a[:rng.randint(0, len(a))]
    elif r < 0.6:
        b = a + _rs(rng, "ab", 0, 2)
    elif r < 0.8:
        k = rng.randint(0, len(a))
        b = a[:k] + _rs(rng, "ab", 0, 3)
    else:
        b = _rs(rng, "ab", 0, 6)
    if rng.chance(0.5):
        a, b = b, a
    return "%s %s %s" % (rng.pick(["lbm", "bw"]), _s(a), _s(b))


def _gen_url(rng):
    if rng.chance(0.7):
        typ = _rs(rng, "abp", 0, 3)
        fn = _rs(rng, "ab./", 1, 4)
        names = ["a", "b", "ab", "", "ba"]
        ps = [(rng.pick(names), _rs(rng, "ab=.", 0, 2)) for _ in range(rng.randint(0, 4))]
        u = (typ + "://" if (typ or rng.chance(0.5)) else "") + fn
        for n, v in ps:
            # "n" alone (no '=') is how an empty value may be written as well
            u += ":" + n + ("" if (v == "" and n and rng.chance(0.3)) else "=" + v)
        probes = sorted(set(n for n, _ in ps) | {rng.pick(names)})
    else:
        u = _rs(rng, "ab::/=", 0, 10)
        probes = ["a", "b", ""]
    return "url %s %s" % (_s(u), " ".join(_s(p) for p in probes))


COMPS = ["a", "b", "ab", "a.b", ".a", "a.", ".", "..", "a.b.c", "", "d.d", ".a.b", "b.a"]
EXTS = [".x", ".x", ".ab", "", ".", "x", ".a.b", "/", ".x/", "\\", "a/b", "/.x"]


def _gen_path(rng):
    if rng.chance(0.75):
        n = rng.randint(0, 4)
        sep = lambda: rng.pick(["/", "/", "/", "\\", "//"])
        p = ("/" if rng.chance(0.15) else "")
        for i in range(n):
            p += rng.pick(COMPS)
            if i + 1 < n or rng.chance(0.2):
                p += sep()
        return p
    return _rs(rng, "ab../\\", 0, 8)


def _gen_file(rng):
    r = rng.random()
    p = _gen_path(rng)
    if r < 0.35:
        return "%s %s" % (rng.pick(["fn", "fnc"]), _s(p))
    if r < 0.55:
        return "fnset %s %s" % (_s(p), _s(rng.pick(EXTS))) if rng.chance(0.9) else "fnset0 " + _s(p)
    if r < 0.70:
        return "fnadd %s %s" % (_s(p), _s(rng.pick(EXTS))) if rng.chance(0.9) else "fnadd0 " + _s(p)
    if r < 0.98:
        return "%s %s %s" % (rng.pick(["fnplus", "fnpluss"]), _s(p), _s(_gen_path(rng)))
    return "fnempty"


# ----------------------------------------------------------------------------- arguments
ARGS = ["-a", "-b", "x", "y", "-c"]


def _sim_parse(args, table):
    """reference walk of parseAndRemove; None when a consume count would run past the end (UB in C++)."""
    out, i = [], 0
    while i < len(args):
        k = next((c for n, c in table if n == args[i]), 0)
        if k == 0:
            out.append(args[i])
            i += 1
        else:
            if i + k > len(args):
                return None
            i += k
    return out


def _gen_args(rng):
    lines = []
    n = rng.randint(0, 7)
    cur = [rng.pick(ARGS) for _ in range(n)]
    lines.append("al_new " + " ".join(_s(a) for a in ["prog"] + cur))
    for _ in range(rng.randint(2, 7)):
        r = rng.random()
        if r < 0.12:
            lines.append(rng.pick(["al_size", "al_empty"]))
        elif r < 0.3:
            lines.append("al_get %d" % rng.randint(-1, len(cur) + 1))
        elif r < 0.6:
            if not cur:
                continue
            w = rng.randrange(len(cur))
            h = rng.randint(0, min(3, len(cur) - w))
            if h == 1 and rng.chance(0.5):
                lines.append("al_rm %d" % w)
            else:
                lines.append("al_rm %d %d" % (w, h))
            del cur[w:w + h]
        elif r < 0.85:
            for _try in range(8):
                names = rng.sample(ARGS, rng.randint(1, 3))
                table = [(nm, rng.randint(1, 3)) for nm in names]
                if rng.chance(0.2):
                    table.append((table[0][0], rng.randint(1, 3)))  # duplicate entry: first one counts
                res = _sim_parse(cur, table)
                if res is not None:
                    lines.append("al_parse " + " ".join(_s("%s=%d" % e) for e in table))
                    cur = res
                    break
        else:
            lines.append("al_dump")
    lines.append("al_dump")
    return lines


def _gen_rmargs(rng):
    n = rng.randint(0, 7)
    av = [rng.pick(ARGS) + str(i) for i in range(n)] if rng.chance(0.5) else [rng.pick(ARGS) for _ in range(n)]
    w = rng.randint(0, n)
    h = rng.randint(0, min(3, n - w))
    return "rmargs %d %d %s" % (w, h, " ".join(_s(a) for a in av))


# ----------------------------------------------------------------------------- numbers
def _f32(x):
    return struct.unpack("f", struct.pack("f", x))[0]


BIG_THR = [_f32(float("1e%d" % k)) for k in (3, 6, 9, 12, 15, 18)]
SMALL_THR = [_f32(float("1e-%d" % k)) for k in (12, 9, 6, 3)] + [1.0]
DEC_THR = [float("1e%d" % k) for k in range(-15, 22, 3)]


def _me(x):
    """double -> (m, e) with x == m * 2**e and |m| < 2**53"""
    n, d = x.as_integer_ratio()
    e = -(d.bit_length() - 1)
    while n and n % 2 == 0:
        n //= 2
        e += 1
    return n, e


def _pd(x):
    return "pd %d %d" % _me(x)


def _gen_pn(rng):
    r = rng.random()
    if r < 0.35:
        t = int(rng.pick(BIG_THR + [1e15, 1e18, 1e12]))
        v = t + rng.pick([0, 0, -1, 1, -2, 2, -64, 64, -128, 128, -1024, 1024, -65536, 65536, 7, -7])
    elif r < 0.6:
        v = rng.randint(1, 9999) * 10 ** rng.randint(0, 16)
    elif r < 0.7:
        # x.x5 ties and their neighbours with an exactly representable divisor
        k = rng.pick([3, 6, 9])
        v = (rng.randint(1, 9999) * 100 + rng.pick([25, 75, 50, 5, 95])) * 10 ** (k - 3) + rng.pick([0, 0, 1, -1])
    elif r < 0.9:
        v = rng.getrandbits(rng.randint(1, 64))
    else:
        v = rng.pick([0, 1, 999, 1000, 2 ** 64 - 1, 2 ** 63, 2 ** 53 + 1, 2 ** 64 - 1025, 999949, 999950, 999999])
    v = max(0, min(v, 2 ** 64 - 1))
    return "pn %d" % v


def _gen_pd(rng):
    r = rng.random()
    if r < 0.35:
        x = rng.pick(BIG_THR + SMALL_THR + DEC_THR)
        for _ in range(rng.pick([0, 0, 1, 1, 2, 5])):
            x = math.nextafter(x, rng.pick([0.0, math.inf]))
    elif r < 0.6:
        x = float("%de%d" % (rng.randint(1, 9999), rng.randint(-19, 19)))
    elif r < 0.7:
        k = rng.pick([3, 6, 9])
        x = (rng.randint(1, 999) * 100 + rng.pick([25, 75, 50])) * 10.0 ** (k - 2) / 1.0
    elif r < 0.8:
        x = rng.uniform(1.0, 1000.0) if rng.chance(0.7) else rng.randint(4, 4000) / 4.0
    else:
        x = math.ldexp(rng.uniform(1.0, 2.0), rng.randint(-58, 73))
    if rng.chance(0.15):
        x = -x
    return _pd(x)


# ----------------------------------------------------------------------------- cases
def _all_strings(alphabet, maxlen):
    out, layer = [""], [""]
    for _ in range(maxlen):
        layer = [x + c for x in layer for c in alphabet]
        out.extend(layer)
    return out


def _exhaustive(tier):
    """small-scope enumeration (independent of the seed): every string up to a length bound"""
    L = 5 if tier == "quick" else 7
    lines = []
    for x in _all_strings("ab:", L):
        lines.append("tok %s ~:" % _s(x))
    for x in _all_strings("ab,", L):
        lines.append("split1 %s ~," % _s(x))
    for x in _all_strings("a,;", L):
        lines.append("splitset %s ~,; 0" % _s(x))
        lines.append("splitset %s ~;, 1" % _s(x))
    for x in _all_strings("a./", L + 1):
        lines.append("fn " + _s(x))
        lines.append("fnset %s ~.x" % _s(x))
    for x in _all_strings("ab", 4):
        for y in _all_strings("ab", 3):
            lines.append("lbm %s %s" % (_s(x), _s(y)))
            lines.append("bw %s %s" % (_s(x), _s(y)))
    return [lines[i:i + 25] for i in range(0, len(lines), 25)]


def gen_cases(rng, tier, h):
    n = 5000 if tier == "quick" else 150000
    cases = _exhaustive(tier)
    for _ in range(n):
        c = []
        for _ in range(rng.randint(4, 9)):
            r = rng.random()
            if r < 0.22: c.append(_gen_split(rng))
            elif r < 0.30: c.append(_gen_prefix(rng))
            elif r < 0.45: c.append(_gen_url(rng))
            elif r < 0.70: c.append(_gen_file(rng))
            elif r < 0.75: c.append(_gen_rmargs(rng))
            elif r < 0.82: c.extend(_gen_args(rng))
            elif r < 0.91: c.append(_gen_pn(rng))
            else: c.append(_gen_pd(rng))
        cases.append(c)
    return cases


def nontrivial(case):
    for l in case:
        w = l.split()
        if w[0] in ("split1", "tok", "splitset") and any(ch in w[1] for ch in ",;:"):
            return True
        if w[0] == "url" and ":" in w[1]:
            return True
        if w[0].startswith("fn") and any(ch in l for ch in "./\\"):
            return True
        if w[0] in ("al_rm", "al_parse", "rmargs"):
            return True
        if w[0] == "pn" and int(w[1]) >= 1000:
            return True
        if w[0] == "pd":
            return True
    return False


MANIFEST = dict(
    text=("Lean 4 theorems over an executable List-Char model of split (both overloads), tokenize, longestBeginningMatch/"
          "beginsWith, PseudoURL, FileName, ArgumentList/parseAndRemove/removeArgs and the prettyNumber/prettyDouble threshold "
          "table: split/tokenize return exactly the maximal delimiter-free runs (every non-empty token, 1-character ones "
          "included) and re-join to the input; longestBeginningMatch is the longest common prefix and beginsWith the prefix "
          "relation; a pseudo-URL assembled from delimiter-free parts parses back to those parts with the last duplicate "
          "winning; path++base = file name, base = name.ext on the last component only, dropExt/setExt/addExt/+ recompose; "
          "argument removal keeps exactly the unconsumed arguments in order; the selected SI arm gives a mantissa in [1,1000] "
          "that multiplies back to the input. The model is tied to the code by running the same generated op lines through the "
          "real functions (ASan/UBSan) and the compiled model and diffing every returned string, including the exact printf text."),
    note=("Trusted: Lean kernel; axioms propext/Classical.choice/Quot.sound; the hand-written model is tied to the code only by "
          "the correspondence harness (generators + canonicalisation) and g++/sanitizer runtimes; std::string/getline/vector and "
          "glibc printf rounding are assumed to meet their specifications; Windows path_sep, operator-, canonical(), homeFolder(), "
          "lowerCase/upperCase are outside the property; out-of-range remove() is undefined behaviour and not exercised."),
    technique="Lean 4 proof (structural induction over strings / argument lists, exact rational threshold table) + differential correspondence check model vs real code")
