"""C11 — array wrappers (ArrayView / OwnedArray / FixedArray / FixedArrayView / DataView): bounds and ownership."""
ID = "C11"
MODULE = "RkVerif.Props.C11"
DRIVER = "drv_c11"
THOROUGH_MODULES = ["RkVerif.Model.C11", "RkVerif.Lemmas.C11"]

MODES = {"u8": (1, 1), "u32": (4, 4), "r24": (24, 8), "tc": (8, 4)}   # element size, alignment ("tc": copies can be made to throw)
HARNESSES = [dict(name="c11", src="harness/c11.cpp", repo_srcs=[], args=[m], mode=m) for m in MODES]
# packed DataView layouts (records such as {u8, u32} with stride 5: the element is not aligned for its type). The
# library forms a misaligned reference there, which x86-64 executes and UBSan's alignment check would flag in the
# unchanged code; this build leaves that one check out so that "DataView[i] reads exactly the element at byte offset
# i*stride" is exercised for such layouts too (addresses and bytes are compared, the value is read with memcpy).
HARNESSES.append(dict(name="c11pk", src="harness/c11.cpp", repo_srcs=[], args=["u32"], mode="u32pk",
                      flags=["-fno-sanitize=alignment"]))

NW, NB, ND = 6, 4, 3

RULE = ("random operation histories over a pool of 6 wrapper slots (ArrayView, OwnedArray, FixedArray, FixedArrayView) and 4 "
        "caller-owned source buffers (std::vector or std::array<T,3>, lengths 0..7), element types of 1, 4 and 24 bytes: "
        "construction from pointer+size / whole vector / std::array / a sub-range of another wrapper's data() / nullptr, "
        "default construction, copy and move construction and assignment between slots (incl. self), reset, assignment, "
        "resize 0..12 (growth that reallocates), FixedArray(n) filled through at(), FixedArrayView(offset,count), writes "
        "through operator[]/at(), mutation and destruction of the source buffers, destruction of wrappers; every mutating "
        "op is followed by observations of the touched and of random other slots; plus DataView histories (construct / "
        "reset / copy, base offsets and strides 0..3 element sizes, reads inside and just outside the buffer). "
        "A case is non-trivial when it contains a copy/assign/move or resize and a later destroy/reassign/free "
        "and at least 6 mutating ops; distinct = distinct op sequences")
ASSUMPTIONS = [
    "std::vector, std::shared_ptr, new[]/delete[] and memcpy behave per their specifications; every structural operation on a "
    "std::vector is treated as reallocating (worst case for pointers into it)",
    "caller-side preconditions are respected: a (pointer,count) source designates live storage of at least count elements, "
    "FixedArrayView offset+count lies inside the viewed FixedArray, DataView base/stride keep T aligned and index*stride+sizeof(T) "
    "inside the buffer, operator[] is called with an index < size()",
    "ASan's poisoning (__asan_region_is_poisoned) reflects the liveness of heap storage (freed blocks stay quarantined for the run)",
    "a non-owning ArrayView onto an OwnedArray's storage is only observed until that OwnedArray's next structural operation",
]
EXPLAIN = ("observations (size, operator bool, liveness of [data(),data()+size()) asked from ASan, contents read by iteration, "
           "at(i) ok/throw for i around size(), which other wrappers / source buffers share the storage, DataView bytes) of the "
           "real array wrappers differ from the Lean model for which wrapper_valid, at_bounds, iteration_covers_size, "
           "owning_independent, view_aliases, dataview_offset are proved")


def _vals(rng, n):
    return ",".join(str(rng.randrange(256)) for _ in range(n)) if n else "-"


def _wrapper_case(rng, mode):
    c = []
    blen = [None] * NB
    wk = [None] * NW      # kind
    wn = [0] * NW         # believed size

    def buf_new(b):
        n = rng.pick([0, 1, 2, 3, 3, 4, 5, 7])
        kind = "arr" if n == 3 and rng.chance(0.5) else "vec"
        blen[b] = n
        c.append("buf_new %d %s %s" % (b, kind, _vals(rng, n)))

    def src():
        r = rng.random()
        if r < 0.05:
            return "null", 0
        if r < 0.62:
            live = [b for b in range(NB) if blen[b] is not None]
            b = rng.pick(live) if live and rng.chance(0.95) else rng.randrange(NB)
            n = blen[b] or 0
            if rng.chance(0.55):
                off, cnt = 0, n
            else:
                off = rng.randrange(n + 1)
                cnt = rng.randrange(n - off + 1)
                if rng.chance(0.06):
                    cnt += 1 + (n - off - cnt)      # one past the end: precondition violated
            return "b%d:%d:%d" % (b, off, cnt), cnt
        live = [i for i in range(NW) if wk[i]]
        j = rng.pick(live) if live and rng.chance(0.95) else rng.randrange(NW)
        n = wn[j]
        if rng.chance(0.5):
            off, cnt = 0, n
        else:
            off = rng.randrange(n + 1)
            cnt = rng.randrange(n - off + 1)
            if rng.chance(0.06):
                cnt = n - off + 1
        return "w%d:%d:%d" % (j, off, cnt), cnt

    def via():
        return rng.pick(["ptr", "vec", "arr", "vec", "mk"])

    def obs(*slots):
        for s in slots:
            c.append("obs %d" % s)
        if rng.chance(0.6):
            c.append("obs %d" % rng.randrange(NW))

    for b in range(rng.randint(1, 3)):
        buf_new(b)
    nops = rng.randint(6, 34)
    for _ in range(nops):
        i = rng.randrange(NW)
        live = [k for k in range(NW) if wk[k]]
        r = rng.random()
        if r < 0.035 and live:
            # scenario: make a dependent of j (copy / view), then pull the rug from under it
            j = rng.pick(live)
            if wk[j] == "fa" and rng.chance(0.7):
                n = wn[j]
                off = rng.randrange(n + 1)
                cnt = rng.randrange(n - off + 1)
                c.append("fav_new %d %d %d %d" % (i, j, off, cnt))
                if i != j:
                    wk[i], wn[i] = "fav", cnt
            else:
                c.append("copy %d %d %s" % (i, j, rng.pick(["copy", "copy", "move"])))
                wk[i], wn[i] = wk[j], wn[j]
            if i != j:
                kill = rng.pick(["destroy", "assign", "resize", "default"])
                if kill == "destroy":
                    c.append("destroy %d" % j); wk[j], wn[j] = None, 0
                elif kill == "assign" and wk[j] in ("oa", "fa"):
                    s, n = src()
                    if wk[j] == "oa" and rng.chance(0.3) and wn[j] > 0:
                        # keep a sub-range of the array itself / an assignment during which element copies throw
                        off = rng.randrange(wn[j]); n = rng.randrange(wn[j] - off + 1)
                        s = "w%d:%d:%d" % (j, off, n)
                        c.append("oa_assign %d %s ptr" % (j, s)); wn[j] = n
                    elif wk[j] == "oa" and rng.chance(0.3):
                        c.append("oa_reset_throw %d %s" % (j, s)); wn[j] = n
                    else:
                        c.append("%s_assign %d %s %s" % (wk[j], j, s, via())); wn[j] = n
                elif kill == "resize" and wk[j] == "oa":
                    n = rng.pick([0, 1, 9, 12])
                    c.append("oa_resize %d %d %d" % (j, n, rng.randrange(256))); wn[j] = n
                else:
                    c.append("%s_default %d" % (wk[j] or "fa", j)); wk[j], wn[j] = (wk[j] or "fa"), 0
            obs(i, j)
        elif r < 0.05:
            buf_new(rng.randrange(NB))
            obs()
        elif r < 0.09:
            b = rng.randrange(NB)
            c.append("buf_free %d" % b); blen[b] = None
            obs()
        elif r < 0.16:
            b = rng.randrange(NB)
            n = blen[b] or 0
            c.append("buf_set %d %d %d" % (b, rng.randrange(n + 1) if rng.chance(0.1) else rng.randrange(max(n, 1)), rng.randrange(256)))
            obs()
        elif r < 0.36:
            k = rng.pick(["av", "oa", "oa", "fa", "fa"])
            s, n = src()
            c.append("%s_new %d %s %s" % (k, i, s, via()))
            wk[i], wn[i] = k, n
            obs(i)
        elif r < 0.40:
            k = rng.pick(["av", "oa", "fa", "fav"])
            c.append("%s_default %d" % (k, i)); wk[i], wn[i] = k, 0
            obs(i)
        elif r < 0.44:
            n = rng.pick([0, 1, 2, 3, 5])
            c.append("fa_size %d %s" % (i, _vals(rng, n))); wk[i], wn[i] = "fa", n
            obs(i)
        elif r < 0.52:
            fas = [k for k in range(NW) if wk[k] == "fa"]
            j = rng.pick(fas) if fas and rng.chance(0.95) else rng.randrange(NW)
            n = wn[j]
            off = rng.randrange(n + 1)
            cnt = rng.randrange(n - off + 1) if rng.chance(0.93) else n - off + 1
            c.append("fav_new %d %d %d %d" % (i, j, off, cnt))
            if wk[j] == "fa" and off + cnt <= n:
                wk[i], wn[i] = "fav", cnt
            obs(i, j)
        elif r < 0.60 and live:
            j = rng.pick(live)
            k = wk[j] if wk[j] in ("av", "oa", "fa") and rng.chance(0.9) else rng.pick(["av", "oa", "fa"])
            s, n = src()
            opn = {"av": "av_set", "oa": "oa_assign", "fa": "fa_assign"}[k]
            if k == "fa" and rng.chance(0.25):
                # the assignment's element-block / control-block allocation fails: the array must stay what it was
                # (element type with a destructor: only the element block's failure. When the control block's allocation
                # fails inside `std::shared_ptr<T>(new T[n], deleter)`, g++ 12 runs the elements' destructors a second time
                # after the deleter has freed them - reproduced in a ten-line program without rkcommon, not with clang++ 14;
                # a toolchain matter, see DESIGN 0.5)
                c.append("fa_assign_fail%d %d %s vec" % (1 if mode == "tc" else rng.pick([1, 2]), j, s))
                obs(j)
                continue
            c.append("%s %d %s %s" % (opn, j, s, via()))
            if wk[j] == k:
                wn[j] = n
            obs(j)
        elif r < 0.63 and live:
            j = rng.pick(live)
            c.append("%s_reset %d" % ("oa" if wk[j] == "oa" or rng.chance(0.5) else "av", j))
            if wk[j] in ("oa", "av"):
                wn[j] = 0
            obs(j)
        elif r < 0.71:
            oas = [k for k in range(NW) if wk[k] == "oa"]
            j = rng.pick(oas) if oas and rng.chance(0.95) else rng.randrange(NW)
            n = rng.pick([0, 1, 2, 3, 4, 6, 9, 12])
            how = rng.random()
            if how < 0.2 and wk[j] == "oa" and wn[j] > 0:
                c.append("oa_resize_self %d %d %d" % (j, n, rng.randrange(wn[j])))
            elif how < 0.4:
                c.append("oa_resize_throw %d %d %d" % (j, n, rng.randrange(256)))
            else:
                c.append("oa_resize %d %d %d" % (j, n, rng.randrange(256)))
            if wk[j] == "oa":
                wn[j] = n
            obs(j)
        elif r < 0.82 and live:
            j = rng.pick(live) if rng.chance(0.97) else rng.randrange(NW)
            how = rng.pick(["copy", "copy", "move"])
            c.append("copy %d %d %s" % (i, j, how))
            if wk[j]:
                wk[i], wn[i] = wk[j], wn[j]
                if how == "move" and wk[j] == "oa" and i != j:
                    wn[j] = 0
            obs(i, j)
        elif r < 0.89 and live:
            j = rng.pick(live)
            same = [k for k in range(NW) if wk[k] == wk[j]]
            d = rng.pick(same) if rng.chance(0.9) else rng.randrange(NW)
            how = rng.pick(["copy", "copy", "move"])
            c.append("assign %d %d %s" % (d, j, how))
            if wk[d] == wk[j]:
                wn[d] = wn[j]
                if how == "move" and wk[j] == "oa" and d != j:
                    wn[j] = 0
            obs(d, j)
        elif r < 0.95 and live:
            j = rng.pick(live) if rng.chance(0.95) else rng.randrange(NW)
            c.append("destroy %d" % j); wk[j], wn[j] = None, 0
            obs()
        elif live:
            j = rng.pick(live)
            n = wn[j]
            k = rng.randrange(n + 1) if rng.chance(0.1) else rng.randrange(max(n, 1))
            c.append("wset %d %d %d %s" % (j, k, rng.randrange(256), rng.pick(["idx", "at"])))
            obs(j)
    for s in range(NW):
        c.append("obs %d" % s)
    return c


def _dv_case(rng, mode, packed=False):
    ts, al = MODES[mode]
    if packed:
        al = 1          # bases and strides that are not multiples of the element's alignment
    c = []
    for b in range(2):
        n = rng.pick([0, ts, 2 * ts + al, 4 * ts, 5 * ts + 3])
        c.append("bb_new %d %s" % (b, _vals(rng, n)))
    lens = {}
    for _ in range(rng.randint(4, 16)):
        d = rng.randrange(ND)
        r = rng.random()
        if r < 0.30:
            stride = rng.pick([0, ts, ts, 2 * ts, ts + al, 3 * ts] + ([ts + 1, ts + 1, 2 * ts + 3, 7] if packed else []))
            base = al * rng.randrange(0, 2 * ts // al + 2)
            dflt = " d" if stride == ts and rng.chance(0.5) else ""
            c.append("%s %d %d %d %d%s" % (rng.pick(["dv_new", "dv_new", "dv_reset"]), d, rng.randrange(2), base, stride, dflt))
        elif r < 0.36:
            c.append("dv_default %d" % d)
        elif r < 0.44:
            c.append("dv_copy %d %d" % (d, rng.randrange(ND)))
        elif r < 0.48:
            c.append("bb_free %d" % rng.randrange(2))
        elif r < 0.52:
            n = rng.pick([ts, 3 * ts, 6 * ts])
            c.append("bb_new %d %s" % (rng.randrange(2), _vals(rng, n)))
        else:
            c.append("dv_read %d %d %d" % (d, rng.randrange(7), ts))
    for d in range(ND):
        for i in (0, 1, 2):
            c.append("dv_read %d %d %d" % (d, i, ts))
    return c


def _reassign_case(rng):
    """a view looked at part of a caller buffer and is then assigned the whole container (same data(), other size), or
    the other way round: state left over from the earlier assignment must not survive"""
    arr = rng.chance(0.4)
    n = 3 if arr else rng.pick([2, 3, 4, 5, 7])
    kind = "arr" if arr else "vec"
    c = ["buf_new 0 %s %s" % (kind, _vals(rng, n))]
    i = rng.randrange(NW)
    part = rng.randrange(0, n)
    steps = [("b0:0:%d" % part, "ptr"), ("b0:0:%d" % n, kind)]
    if rng.chance(0.3):
        steps.reverse()
    c.append("av_new %d %s %s" % (i, steps[0][0], steps[0][1]))
    c.append("obs %d" % i)
    c.append("av_set %d %s %s" % (i, steps[1][0], steps[1][1]))
    c.append("obs %d" % i)
    if rng.chance(0.5):
        c.append("av_set %d %s %s" % (i, steps[0][0], steps[0][1]))
        c.append("obs %d" % i)
        c.append("av_set %d %s %s" % (i, steps[1][0], "mk" if rng.chance(0.3) else steps[1][1]))
        c.append("obs %d" % i)
    return c


def gen_cases(rng, tier, h):
    mode = h["mode"]
    n = 350 if tier == "quick" else 12000
    if mode.endswith("pk"):
        return [_dv_case(rng, mode[:-2], packed=True) for _ in range(n // 2)]
    cases = []
    for k in range(n):
        cases.append(_wrapper_case(rng, mode))
        if k % 5 == 0:
            cases.append(_dv_case(rng, mode))
        if k % 10 == 3:
            cases.append(_reassign_case(rng))
    return cases


_MUT = ("fa_assign_fail1", "fa_assign_fail2", "av_new", "oa_new", "fa_new", "fa_size", "fav_new", "av_set", "oa_assign", "fa_assign", "oa_reset", "av_reset",
        "oa_resize", "oa_resize_self", "oa_resize_throw", "oa_reset_throw", "copy", "assign", "destroy", "wset", "buf_set", "buf_free", "buf_new", "dv_new", "dv_reset", "dv_copy", "bb_free")


def nontrivial(case):
    ops = [l.split()[0] for l in case]
    if "dv_read" in ops:
        return ops.count("dv_new") + ops.count("dv_reset") >= 2
    muts = sum(1 for o in ops if o in _MUT)
    first = next((k for k, o in enumerate(ops) if o in ("copy", "assign", "oa_resize", "fav_new")), None)
    if first is None or muts < 6:
        return False
    return any(o in ("destroy", "oa_assign", "fa_assign", "buf_free", "oa_resize", "oa_reset") for o in ops[first + 1:])


MANIFEST = dict(
    text=("Lean 4 theorems over an executable model of AbstractArray/ArrayView/OwnedArray/FixedArray/FixedArrayView on a heap of "
          "allocations (and of DataView on byte buffers): for every operation history every owning wrapper's (ptr,size) lies in a "
          "live allocation it owns (wrapper_valid), OwnedArrays never share storage, at(i) succeeds iff i < size, iteration visits "
          "exactly size() elements, owning contents are unchanged by any operation on source buffers or on other slots (incl. "
          "destroying the original of a copy), a view reads exactly the source range, DataView[i] is the field of record i; "
          "witnesses that the pre-repair copy semantics violate wrapper_valid. The model is tied to the code by running the same "
          "random op histories through the real headers (element sizes 1/4/24 and an element type whose copies can throw; resize with a fill value that is an element of the array itself; resize / assignment during which the k-th copy or the n-th allocation fails; ASan/UBSan, liveness queried from ASan) and the "
          "compiled model and diffing every observation."),
    note=("Trusted: Lean kernel; axioms propext/Classical.choice/Quot.sound; the hand-written model is tied to the code only by the "
          "correspondence harness (generators + canonicalisation) and g++/ASan; std::vector/shared_ptr/new[]/memcpy assumed to meet "
          "their specifications, every structural std::vector operation modelled as reallocating; caller-side preconditions "
          "(live source ranges, view offset+count inside the FixedArray, aligned DataView layouts) are assumptions."),
    technique="Lean 4 proof (inductive invariant over operation histories on a heap model) + differential correspondence check model vs real code under ASan")
