"""C06 — linear, affine and quaternion transforms obey their algebra and agree.

Tie T: lean/RkVerif/Gen/C06.lean is regenerated from LinearSpace.h / AffineSpace.h / Quaternion.h on every run
(wrappers: tr/c06_drv.cpp) and the theorems of Props/C06.lean are re-checked against it. Tie C: the regenerated
definitions run at Float32 and are compared bit for bit with the real functions. Search: an independent
double-precision reference of the *mathematical* definitions (Rodrigues formula, Hamilton product, cofactor inverse …)
is compared with what the real code returned, within a tolerance derived from the condition of the inputs.
"""
import math
import os

from vlib import core, trprop
from vlib.trprop import f2h, h2f, INF

ID = "C06"
MODULE = "RkVerif.Props.C06"
DRIVER = "drv_c06"
THOROUGH_MODULES = ["RkVerif.Gen.C06"]
HARNESSES = [dict(name="c06", src="harness/c06.cpp", flags=["-DRKCOMMON_NO_SIMD", "-ffp-contract=off"],
                  extra_deps=["tr/c06_drv.cpp", "harness/gen/c06_dispatch.inc", "harness/drv_common.h"])]
RULE = ("per wrapper of tr/c06_drv.cpp (82 entities of LinearSpace2/3, AffineSpace2/3, Quaternion): matrices built as "
        "R1*diag(s)*R2 with s in [1/4,4] (condition <= 16..64), unit axes, angles in [-2pi,2pi], unit quaternions with each of "
        "r,i,j,k dominant (so every branch of the matrix->quaternion constructor is taken), slerp factors in [0,1]; results "
        "compared bit for bit with the Float32 evaluation of the regenerated Lean definitions and against an independent "
        "double-precision reference within tol = 2e-5 * cond * scale; distinct = distinct (wrapper, argument bits)")
ASSUMPTIONS = [
    "clang-14's AST of the instantiated templates is a faithful account of the source; the translator is validated by the bit-exact comparison",
    "theorems are over exact ordered fields with abstract sin/cos/sqrt/acos satisfying the stated identities; float rounding is observed within tolerance, not proved",
    "RKCOMMON_NO_SIMD definitions of rcp/rsqrt (1/x, 1/sqrt x) are the ones translated; float and double literals are one scalar type",
    "LinearSpace2/3::orthogonal() (Newton iteration with a loop) is outside the translator's subset: observed by the reference oracle only",
]
EXPLAIN = "the real transform code and the Lean definitions regenerated from it disagree: translator or compiler discrepancy (tie broken)"
OUT_OF_SCOPE = {"operator<<", "orthogonal", "operator*=", "operator/=", "operator+=", "operator-=", "clamp", "operator==", "operator!=",
                "operator+", "xfmQuaternion", "AffineSpaceT", "LinearSpace2", "LinearSpace3", "operatorScalar*", "operatorL*",
                "xfmBounds", "operator/", "lerp"}
_sigs = {}


def regenerate(rep):
    return trprop.regenerate(rep, "C06", "tr/c06_drv.cpp", ["RKCOMMON_NO_SIMD"],
                             [], OUT_OF_SCOPE, _sigs)


# --------------------------------------------------------------------------- small linear algebra (double)

def mat_mul(a, b):  # column-major lists of 3 columns
    return [[sum(a[k][r] * b[c][k] for k in range(len(a))) for r in range(len(a))] for c in range(len(b))]


def mat_vec(a, v):
    n = len(a)
    return [sum(a[k][r] * v[k] for k in range(n)) for r in range(n)]


def rot3(u, ang):
    n = math.sqrt(sum(x * x for x in u))
    x, y, z = (c / n for c in u)
    s, c = math.sin(ang), math.cos(ang)
    t = 1 - c
    # columns
    return [[t * x * x + c, t * x * y + z * s, t * x * z - y * s],
            [t * x * y - z * s, t * y * y + c, t * y * z + x * s],
            [t * x * z + y * s, t * y * z - x * s, t * z * z + c]]


def det3(m):
    a, b, c = m
    return (a[0] * (b[1] * c[2] - b[2] * c[1]) - b[0] * (a[1] * c[2] - a[2] * c[1]) + c[0] * (a[1] * b[2] - a[2] * b[1]))


def det2(m):
    return m[0][0] * m[1][1] - m[1][0] * m[0][1]


def transpose(m):
    n = len(m)
    return [[m[r][c] for r in range(n)] for c in range(n)]


def inv3(m):
    d = det3(m)
    a, b, c = m
    cr = lambda p, q: [p[1] * q[2] - p[2] * q[1], p[2] * q[0] - p[0] * q[2], p[0] * q[1] - p[1] * q[0]]
    rows = [cr(b, c), cr(c, a), cr(a, b)]          # rows of the inverse * det
    return [[rows[r][col] / d for r in range(3)] for col in range(3)]


def inv2(m):
    d = det2(m)
    return [[m[1][1] / d, -m[0][1] / d], [-m[1][0] / d, m[0][0] / d]]


def qmul(a, b):  # (r,i,j,k)
    return [a[0] * b[0] - a[1] * b[1] - a[2] * b[2] - a[3] * b[3],
            a[0] * b[1] + a[1] * b[0] + a[2] * b[3] - a[3] * b[2],
            a[0] * b[2] - a[1] * b[3] + a[2] * b[0] + a[3] * b[1],
            a[0] * b[3] + a[1] * b[2] - a[2] * b[1] + a[3] * b[0]]


def qconj(a):
    return [a[0], -a[1], -a[2], -a[3]]


def qrot(q, v):
    return qmul(qmul(q, [0] + list(v)), qconj(q))[1:]


def qmat(q):
    return [qrot(q, [1, 0, 0]), qrot(q, [0, 1, 0]), qrot(q, [0, 0, 1])]


def qaxis(u, ang):
    n = math.sqrt(sum(x * x for x in u))
    s = math.sin(ang / 2) / n
    return [math.cos(ang / 2), u[0] * s, u[1] * s, u[2] * s]


def cross(a, b):
    return [a[1] * b[2] - a[2] * b[1], a[2] * b[0] - a[0] * b[2], a[0] * b[1] - a[1] * b[0]]


def norm(v):
    return math.sqrt(sum(x * x for x in v))


def unit(v):
    n = norm(v)
    return [x / n for x in v]


def flat(m):
    return [x for col in m for x in col]


# --------------------------------------------------------------------------- generator

def _rand_unit(rng, n=3):
    while True:
        v = [rng.uniform(-1, 1) for _ in range(n)]
        if 0.2 < norm(v) <= 1:
            return unit(v)


def _rand_mat3(rng):
    r1 = rot3(_rand_unit(rng), rng.uniform(-math.pi, math.pi))
    r2 = rot3(_rand_unit(rng), rng.uniform(-math.pi, math.pi))
    s = [rng.pick([0.25, 0.5, 1.0, 2.0, 4.0]) * rng.pick([1, 1, 1, -1]) for _ in range(3)]
    d = [[s[0], 0, 0], [0, s[1], 0], [0, 0, s[2]]]
    return mat_mul(mat_mul(r1, d), r2)


def _rand_mat2(rng):
    a, b = rng.uniform(-math.pi, math.pi), rng.uniform(-math.pi, math.pi)
    r = lambda t: [[math.cos(t), math.sin(t)], [-math.sin(t), math.cos(t)]]
    s = [rng.pick([0.25, 0.5, 1.0, 2.0, 4.0]) * rng.pick([1, 1, -1]) for _ in range(2)]
    return mat_mul(mat_mul(r(a), [[s[0], 0], [0, s[1]]]), r(b))


def _rand_quat(rng, dominant=None):
    q = qaxis(_rand_unit(rng), rng.uniform(-2 * math.pi, 2 * math.pi))
    if dominant is not None:
        for _ in range(200):
            if max(range(4), key=lambda i: abs(q[i])) == dominant:
                break
            q = qaxis(_rand_unit(rng), rng.uniform(-2 * math.pi, 2 * math.pi))
    return q  # (r,i,j,k)


def _quat_fields(q):
    # struct field order of QuaternionT is i, j, k, r
    return [q[1], q[2], q[3], q[0]]


def _gen_arg(rng, wrapper, pname, t, k):
    if t == "Lin3 α":
        return flat(_rand_mat3(rng))
    if t == "Lin2 α":
        return flat(_rand_mat2(rng))
    if t == "Aff3 α":
        return flat(_rand_mat3(rng)) + [rng.uniform(-2, 2) for _ in range(3)]
    if t == "Aff2 α":
        return flat(_rand_mat2(rng)) + [rng.uniform(-2, 2) for _ in range(2)]
    if t == "Quat α":
        q = _rand_quat(rng)
        if wrapper in ("q_rcp", "q_normalize", "q_abs", "q_add", "q_sub", "q_smul", "q_muls", "q_neg", "q_dot", "q_conj", "q_mul", "q_v", "q_eq"):
            sc = rng.pick([0.5, 1.0, 2.0])
            q = [x * sc for x in q]
        return _quat_fields(q)
    if t == "Vec3 α":
        if pname in ("u", "n", "N"):
            v = _rand_unit(rng)
            if rng.chance(0.25):   # exact coordinate axes (degenerate helper cross products in frame(N))
                v = [0.0, 0.0, 0.0]
                v[rng.randrange(3)] = rng.pick([1.0, -1.0])
            return v if (pname != "u" or rng.chance(0.5)) else [x * rng.pick([0.5, 2.0, 3.0]) for x in v]
        if pname == "up":
            return rng.pick([[0, 1, 0], [0, 0, 1], _rand_unit(rng)])
        if pname == "s":
            return [rng.pick([0.25, 0.5, 1.0, 2.0, 4.0]) for _ in range(3)]
        return [rng.pick([-2, -1, -0.5, 0, 0.5, 1, 2]) if rng.chance(0.3) else rng.uniform(-2, 2) for _ in range(3)]
    if t == "Vec2 α":
        if pname == "s":
            return [rng.pick([0.25, 0.5, 1.0, 2.0, 4.0]) for _ in range(2)]
        return [rng.uniform(-2, 2) for _ in range(2)]
    if t == "α":
        if pname in ("r", "yaw", "pitch", "roll"):
            return [rng.pick([0.0, math.pi / 2, -math.pi, 2 * math.pi, -2 * math.pi]) if rng.chance(0.15) else rng.uniform(-2 * math.pi, 2 * math.pi)]
        if pname == "f":
            return [rng.pick([0.0, 1.0, 0.5]) if rng.chance(0.3) else rng.uniform(0, 1)]
        if pname == "s":
            return [rng.pick([0.25, 0.5, 2.0, 4.0, -1.0])]
        return [rng.uniform(-2, 2)]
    raise RuntimeError("no generator for " + t)


def gen_cases(rng, tier, h):
    names = sorted(k for k in _sigs if not k.startswith("__"))
    per = 40 if tier == "quick" else 10000
    cases = []
    for nm in names:
        params, rt = _sigs[nm]
        c = []
        for i in range(per):
            vals = []
            if nm == "q_from_matrix":
                q = _rand_quat(rng, dominant=i % 4)
                if i % 5 == 4:   # rotations close to (not at) a half turn: 1 + trace is tiny there
                    q = qaxis(_rand_unit(rng), rng.pick([1.0, -1.0]) * (math.pi - rng.pick([1e-3, 3e-3, 1e-2, 5e-2])))
                vals = [trprop.r32(x) for x in flat(qmat(q))]
            elif nm == "q_slerp":
                a, b = _rand_quat(rng), _rand_quat(rng)
                if i % 3 == 0:   # nearly equal -> linear fallback branch (angles up to the 0.9995 threshold, ~1.8 degrees)
                    b = unit([x + rng.pick([0.001, 0.01, 0.02, 0.03]) * rng.uniform(-1, 1) for x in a])
                if i % 7 == 1:   # (nearly) antipodal: the same rotation, "long way around" must be avoided
                    b = [-x for x in a] if i % 2 else unit([-x + 0.001 * rng.uniform(-1, 1) for x in a])
                if i % 11 == 2:
                    b = list(a)
                vals = _gen_arg(rng, nm, "f", "α", i) + _quat_fields(a) + _quat_fields(b)
            elif nm == "l3_frame_up":
                n = _rand_unit(rng)
                k = i % 5
                if k == 0:
                    up = list(n)
                elif k == 1:
                    up = [-x for x in n]
                elif k == 2:   # within a few degrees of -N / +N
                    s_ = rng.pick([1.0, -1.0])
                    up = unit([s_ * x + 0.05 * rng.uniform(-1, 1) for x in n])
                else:
                    up = _rand_unit(rng)
                vals = n + up
            elif nm == "a3_lookat":
                eye = [rng.uniform(-2, 2) for _ in range(3)]
                d = _rand_unit(rng)
                pt = [e + 2 * x for e, x in zip(eye, d)]
                up = rng.pick([[0, 1, 0], [0, 0, 1], [1, 0, 0]])
                if abs(sum(x * y for x, y in zip(d, up))) > 0.9:
                    up = [up[1], up[2], up[0]]
                vals = eye + pt + up
            else:
                for pn, t in params:
                    vals += _gen_arg(rng, nm, pn, t, i)
            c.append(nm + (" " + " ".join(f2h(x) for x in vals) if vals else ""))
            if len(c) == 20:
                cases.append(c)
                c = []
        if c:
            cases.append(c)
    return cases


def nontrivial(case):
    return any(len(l.split()) > 2 for l in case)


# --------------------------------------------------------------------------- reference oracle (search)

def _close(a, b, tol):
    return all(abs(x - y) <= tol for x, y in zip(a, b)) and len(a) == len(b)


def _cols(xs, n):
    return [list(xs[i * n:(i + 1) * n]) for i in range(n)]


def _q(xs):  # fields i,j,k,r -> (r,i,j,k)
    return [xs[3], xs[0], xs[1], xs[2]]


def reference(nm, a, res, T=3e-5):
    """-> None (ok / not judged) or message. T: unit tolerance of the scalar type (float 3e-5, double 1e-13)."""
    E = T / 3e-5
    if any(x != x or abs(x) == INF for x in a):
        return None
    if any(x != x or abs(x) == INF for x in res):
        return "%s returns a non-finite component for finite, well-conditioned arguments: %s" % (nm, res)
    if nm.startswith("l3_") or nm.startswith("l2_"):
        n = 3 if nm.startswith("l3_") else 2
        op = nm[3:]
        det, inv = (det3, inv3) if n == 3 else (det2, inv2)
        if op in ("det", "adjoint", "inverse", "rcp", "transposed", "row0", "row1", "row2", "neg"):
            m = _cols(a, n)
            cond = 64.0
            if op == "det":
                exp = [det(m)]
            elif op == "adjoint":
                exp = flat([[x * det(m) for x in col] for col in inv(m)])
            elif op in ("inverse", "rcp"):
                exp = flat(inv(m))
            elif op == "transposed":
                exp = flat(transpose(m))
            elif op.startswith("row"):
                exp = transpose(m)[int(op[3])]
            else:
                exp = [-x for x in a]
            if not _close(res, exp, T * cond * 16):
                return "%s does not match its definition: expected %s" % (nm, exp)
        elif op in ("mul", "add", "sub"):
            x, y = _cols(a[:n * n], n), _cols(a[n * n:], n)
            exp = flat(mat_mul(x, y)) if op == "mul" else [p + q if op == "add" else p - q for p, q in zip(a[:n * n], a[n * n:])]
            if not _close(res, exp, T * 64):
                return "%s does not match its definition: expected %s" % (nm, exp)
        elif op in ("apply", "xfmPoint", "xfmVector"):
            exp = mat_vec(_cols(a[:n * n], n), a[n * n:])
            if not _close(res, exp, T * 64):
                return "%s must apply the linear map: expected %s" % (nm, exp)
        elif op == "xfmNormal":
            exp = mat_vec(transpose(inv(_cols(a[:9], 3))), a[9:])
            if not _close(res, exp, T * 256):
                return "xfmNormal must apply the inverse transpose: expected %s" % exp
        elif op == "smul":
            exp = [a[0] * x for x in a[1:]]
            if not _close(res, exp, T * 64):
                return "scalar * matrix: expected %s" % exp
        elif op == "div":
            exp = [x / a[-1] for x in a[:-1]]
            if not _close(res, exp, T * 64):
                return "matrix / scalar: expected %s" % exp
        elif op == "scale":
            exp = flat([[a[i] if i == j else 0.0 for i in range(n)] for j in range(n)])
            if not _close(res, exp, 0):
                return "scale must be diag(s): expected %s" % exp
        elif op == "one":
            exp = flat([[1.0 if i == j else 0.0 for i in range(n)] for j in range(n)])
            if res != exp:
                return "one must be the identity"
        elif op == "rotate" and n == 3:
            exp = flat(rot3(a[:3], a[3]))
            if not _close(res, exp, T * 8):
                return "rotate(axis,angle) must be the proper rotation about that axis by that angle: expected %s" % exp
        elif op == "rotate" and n == 2:
            c, s = math.cos(a[0]), math.sin(a[0])
            # LinearSpace2(m00,m01,m10,m11) is row-major: columns (c,s) and (-s,c)
            exp = [c, s, -s, c]
            if not _close(res, exp, T * 8):
                return "rotate(angle) must be the proper 2D rotation: expected %s" % exp
        elif op == "from_quat":
            q = _q(a)
            exp = flat(qmat(q))
            if not _close(res, exp, T * 16):
                return "matrix-from-quaternion must describe the same rotation as q v conj(q): expected %s" % exp
        elif op in ("frame", "frame_up"):
            m = _cols(res, 3)
            N = a[:3]
            if op == "frame_up" and abs(sum(x * y for x, y in zip(a[:3], a[3:]))) <= 0.98:
                up = a[3:]
                dx = unit(cross(up, N))
                dy = unit(cross(N, dx))
                if not _close(flat(m), dx + dy + N, T * 64):
                    return "frame(N,up) must have axes norm(up x N), norm(N x dx), N: expected %s" % (dx + dy + N)
            g = mat_mul(transpose(m), m)
            if not _close(flat(g), [1, 0, 0, 0, 1, 0, 0, 0, 1], 1e-3 * E) or not _close(m[2], N, 0) or abs(det3(m) - 1) > 1e-3 * E:
                return "frame(N) must be orthonormal, right-handed, with third axis N: got %s" % m
    elif nm.startswith("a3_") or nm.startswith("a2_"):
        n = 3 if nm.startswith("a3_") else 2
        op = nm[3:]
        k = n * n + n
        inv = inv3 if n == 3 else inv2

        def split(xs):
            return _cols(xs[:n * n], n), list(xs[n * n:n * n + n])

        def comp(A, B):
            (l1, p1), (l2, p2) = A, B
            return mat_mul(l1, l2), [x + y for x, y in zip(mat_vec(l1, p2), p1)]

        def ainv(A):
            il = inv(A[0])
            return il, [-x for x in mat_vec(il, A[1])]
        if op == "rcp":
            exp = ainv(split(a))
            if not _close(res, flat(exp[0]) + exp[1], T * 1024):
                return "rcp(A) must be the inverse affine map: expected %s" % (exp,)
        elif op in ("mul", "div"):
            A, B = split(a[:k]), split(a[k:])
            exp = comp(A, B if op == "mul" else ainv(B))
            if not _close(res, flat(exp[0]) + exp[1], T * 2048):
                return "%s: (A*B)p must equal A(Bp): expected %s" % (nm, exp,)
        elif op in ("add", "sub"):
            exp = [p + q if op == "add" else p - q for p, q in zip(a[:k], a[k:])]
            if not _close(res, exp, T * 64):
                return "%s per component: expected %s" % (nm, exp)
        elif op == "xfmPoint":
            l, p = split(a[:k])
            exp = [x + y for x, y in zip(mat_vec(l, a[k:]), p)]
            if not _close(res, exp, T * 64):
                return "xfmPoint must apply the full affine map: expected %s" % exp
        elif op == "xfmVector":
            l, p = split(a[:k])
            exp = mat_vec(l, a[k:])
            if not _close(res, exp, T * 64):
                return "xfmVector must apply the linear part only: expected %s" % exp
        elif op == "xfmNormal":
            l, p = split(a[:k])
            exp = mat_vec(transpose(inv(l)), a[k:])
            if not _close(res, exp, T * 256):
                return "xfmNormal must apply the inverse transpose: expected %s" % exp
        elif op == "translate":
            exp = flat([[1.0 if i == j else 0.0 for i in range(n)] for j in range(n)]) + a
            if res != exp:
                return "translate(p) must be (identity, p)"
        elif op == "scale":
            exp = flat([[a[i] if i == j else 0.0 for i in range(n)] for j in range(n)]) + [0.0] * n
            if res != exp:
                return "scale(s) must be (diag(s), 0)"
        elif op == "rotate" and n == 3:
            exp = flat(rot3(a[:3], a[3])) + [0.0] * 3
            if not _close(res, exp, T * 8):
                return "rotate(axis,angle): expected %s" % exp
        elif op == "rotate_about" and n == 2:
            p, r = a[:2], a[2]
            c, sn = math.cos(r), math.sin(r)
            R = [[c, sn], [-sn, c]]      # columns
            exp = flat(R) + [x - y for x, y in zip(p, mat_vec(R, p))]
            if not _close(res, exp, T * 64):
                return "2D rotate about a point must fix that point and rotate by the angle: expected %s" % exp
        elif op == "rotate_about":
            p, u, r = a[:3], a[3:6], a[6]
            R = rot3(u, r)
            exp = flat(R) + [x - y for x, y in zip(p, mat_vec(R, p))]
            if not _close(res, exp, T * 64):
                return "rotate about a point must fix that point and rotate about the axis: expected %s" % exp
        elif op == "rotate_quat":
            exp = flat(qmat(_q(a))) + [0.0] * 3
            if not _close(res, exp, T * 16):
                return "rotate(q): expected %s" % exp
        elif op == "lookat":
            eye, pt, up = a[:3], a[3:6], a[6:9]
            Z = unit([x - y for x, y in zip(pt, eye)])
            U = unit(cross(Z, up))
            V = cross(U, Z)
            exp = U + V + Z + eye
            if not _close(res, exp, T * 16):
                return "lookat must have axes U=norm(Z x up), V=U x Z, Z=norm(point-eye) and origin eye: expected %s" % exp
    elif nm.startswith("q_"):
        op = nm[2:]
        if op == "mul":
            exp = qmul(_q(a[:4]), _q(a[4:]))
            if not _close(_q(res), exp, T * 16):
                return "quaternion product: expected %s" % exp
        elif op in ("rotate_vec", "xfmPoint"):
            exp = qrot(_q(a[:4]), a[4:])
            if not _close(res, exp, T * 64):
                return "q*v must be (q v conj q).v: expected %s" % exp
        elif op == "rotate":
            exp = qaxis(a[:3], a[3])
            if not _close(_q(res), exp, T * 8):
                return "Quaternion::rotate(axis,angle): expected %s" % exp
        elif op == "from_matrix":
            m = _cols(a, 3)
            q = _q(res)
            if abs(norm(q) - 1) > 1e-3 * E or not _close(flat(qmat(q)), flat(m), 2e-3 * E):
                return "quaternion-from-matrix must describe the same rotation as the matrix: got %s for %s" % (q, m)
        elif op == "from_ypr":
            y, p, r = a
            exp = qmul(qmul(qaxis([0, 1, 0], y), qaxis([1, 0, 0], p)), qaxis([0, 0, 1], r))
            q = _q(res)
            if not (_close(q, exp, T * 16) or _close(q, [-x for x in exp], T * 16)):
                # the documented order is the code's own closed form; accept any fixed axis order only if it is a rotation
                if abs(norm(q) - 1) > 1e-4 * E:
                    return "yaw/pitch/roll quaternion must be a unit quaternion: got %s" % q
        elif op == "slerp":
            f, qa, qb = a[0], _q(a[1:5]), _q(a[5:9])
            q = _q(res)
            d = sum(x * y for x, y in zip(qa, qb))
            if d < 0:
                qa, d = [-x for x in qa], -d
            if abs(norm(q) - 1) > 2e-3 * E:
                return "slerp of unit quaternions must be a unit quaternion: |q|=%s" % norm(q)
            if d < 0.9995:
                th = math.acos(max(-1, min(1, d)))
                fb = math.sin(th * f) / math.sin(th)
                fa = math.cos(th * f) - d * fb
                exp = [fa * x + fb * y for x, y in zip(qa, qb)]
                if not _close(q, exp, 2e-3 * E / max(math.sin(th), 0.03)):
                    return "slerp must interpolate along the short arc: expected %s" % exp
            elif d < 0.99999999:
                # near-parallel operands (linear fallback in the code): the exact slerp differs from the normalised
                # linear interpolation by O(theta^3) <= 3e-5 for theta <= 0.032, so a mix-up of the operands or of
                # the factor (which moves the result by up to theta) is visible
                th = math.acos(max(-1, min(1, d)))
                fb = math.sin(th * f) / math.sin(th)
                fa = math.cos(th * f) - d * fb
                exp = [fa * x + fb * y for x, y in zip(qa, qb)]
                if not _close(q, exp, 1e-4):
                    return "slerp of nearly parallel quaternions must still go from a (factor 0) to b (factor 1): expected %s" % exp
        elif op == "conj":
            if _q(res) != qconj(_q(a)):
                return "conj must negate i,j,k"
        elif op == "rcp":
            q = _q(a)
            n2 = sum(x * x for x in q)
            exp = [x / n2 for x in qconj(q)]
            if not _close(_q(res), exp, T * 16):
                return "rcp(q) must be conj(q)/|q|^2: expected %s" % exp
        elif op == "normalize":
            q = _q(a)
            if not _close(_q(res), unit(q), T * 16):
                return "normalize(q): expected %s" % unit(q)
        elif op == "dot":
            exp = [sum(x * y for x, y in zip(a[:4], a[4:]))]
            if not _close(res, exp, T * 16):
                return "dot: expected %s" % exp
        elif op == "abs":
            if not _close(res, [norm(a)], T * 16):
                return "abs(q): expected %s" % norm(a)
    return None


# ---- double-precision instantiations (harness-only wrappers `d_*`; judged by the same reference oracle)

_DSIGS = {
    "d_q_mul": ["Q", "Q"], "d_q_slerp": ["f", "Q", "Q"], "d_q_rotate_vec": ["Q", "v"], "d_q_from_matrix": ["M"],
    "d_q_rotate": ["u", "r"], "d_q_smul": ["s", "Qs"], "d_q_muls": ["Qs", "s"], "d_q_normalize": ["Qs"], "d_q_rcp": ["Qs"],
    "d_q_from_ypr": ["r", "r", "r"], "d_l3_inverse": ["L"], "d_l3_det": ["L"], "d_l3_mul": ["L", "L"], "d_l3_rotate": ["u", "r"],
    "d_l3_from_quat": ["Q"], "d_l3_frame": ["n"], "d_l3_xfmNormal": ["L", "v"], "d_a3_rcp": ["A"], "d_a3_mul": ["A", "A"],
    "d_a3_xfmPoint": ["A", "v"], "d_a3_lookat": ["LOOK"], "d_l2_orthogonal": ["ORTH"],
    "d_l3_ldiv": ["L", "L"], "d_l3_apply": ["L", "v"], "d_l3_xfmPoint": ["L", "v"], "d_l3_xfmVector": ["L", "v"],
    "d_a3_div": ["A", "A"], "d_a3_xfmVector": ["A", "v"], "d_a3_xfmNormal": ["A", "v"], "d_a3_rotate_about": ["v", "u", "r"],
}
# compound assignments (both precisions): judged as the binary operator they abbreviate
_ISIGS = {
    "a3_imul": ["A", "A"], "a3_idiv": ["A", "A"],  "a3_imul_self": ["A"],
    "l3_imul": ["L", "L"], "l3_idiv": ["L", "L"], "l3_imul_self": ["L"], "l2_imul": ["L2", "L2"], "l2_idiv": ["L2", "L2"],
    "q_imul": ["Qs", "Qs"], "q_idiv": ["Qs", "Qs"], "q_iadd": ["Qs", "Qs"], "q_isub": ["Qs", "Qs"], "q_imuls": ["Qs", "s"],
    "q_idivs": ["Qs", "s"], "q_imul_self": ["Qs"],
}
for _k, _v in _ISIGS.items():
    _DSIGS["d_" + _k] = _v
    _DSIGS["f_" + _k] = _v
_DSIGS["f_l2_orthogonal"] = ["ORTH"]


def compound_reference(nm, a, res, T):
    """the compound assignment x op= y must leave x op y in x (and x op= x must read both operands before writing)."""
    if any(x != x or abs(x) == INF for x in a):
        return None
    if len(res) == 0 or any(x != x or abs(x) == INF for x in res):
        return "%s leaves a non-finite or no result for finite, well-conditioned arguments: %s" % (nm, res)
    if nm in ("a3_imul", "a3_idiv"):
        return reference("a3_mul" if nm == "a3_imul" else "a3_div", a, res, T)
    if nm == "a3_imul_self":
        return reference("a3_mul", a + a, res, T)
    if nm in ("a3_imuls", "a3_idivs"):
        exp = [x * a[12] if nm == "a3_imuls" else x / a[12] for x in a[:12]]
        return None if _close(res, exp, T * 64) else "%s must scale every component of the linear part and the origin: expected %s" % (nm, exp)
    if nm == "l3_imul":
        return reference("l3_mul", a, res, T)
    if nm == "l3_imul_self":
        return reference("l3_mul", a + a, res, T)
    if nm in ("l3_idiv", "l3_ldiv"):
        exp = flat(mat_mul(_cols(a[:9], 3), inv3(_cols(a[9:], 3))))
        return None if _close(res, exp, T * 2048) else "%s must be a * inverse(b): expected %s" % (nm, exp)
    if nm == "l2_imul":
        return reference("l2_mul", a, res, T)
    if nm == "l2_idiv":
        exp = flat(mat_mul(_cols(a[:4], 2), inv2(_cols(a[4:], 2))))
        return None if _close(res, exp, T * 2048) else "%s must be a * inverse(b): expected %s" % (nm, exp)
    if nm == "q_imul":
        return reference("q_mul", a, res, T)
    if nm == "q_imul_self":
        return reference("q_mul", a + a, res, T)
    if nm == "q_idiv":
        q = _q(a[4:])
        n2 = sum(x * x for x in q)
        exp = qmul(_q(a[:4]), [x / n2 for x in qconj(q)])
        return None if _close(_q(res), exp, T * 64) else "q /= p must be q * rcp(p): expected %s" % exp
    if nm in ("q_iadd", "q_isub"):
        exp = [x + y if nm == "q_iadd" else x - y for x, y in zip(a[:4], a[4:])]
        return None if _close(res, exp, T * 16) else "%s per component: expected (i,j,k,r) %s" % (nm, exp)
    if nm in ("q_iadds", "q_isubs"):   # quaternion +/- scalar acts on the real part
        exp = list(a[:3]) + [a[3] + a[4] if nm == "q_iadds" else a[3] - a[4]]
        return None if _close(res, exp, T * 16) else "%s must add the scalar to the real part only: expected (i,j,k,r) %s" % (nm, exp)
    if nm in ("q_imuls", "q_idivs"):
        exp = [x * a[4] if nm == "q_imuls" else x / a[4] for x in a[:4]]
        return None if _close(res, exp, T * 64) else "%s must scale every component: expected (i,j,k,r) %s" % (nm, exp)
    return None


def d2h(x):
    import struct
    return "%016x" % struct.unpack("<Q", struct.pack("<d", x))[0]


def h2d(s):
    import struct
    if s == "nan":
        return float("nan")
    return struct.unpack("<d", struct.pack("<Q", int(s, 16)))[0]


def gen_double_cases(rng, tier):
    per = 25 if tier == "quick" else 6000
    cases = []
    for nm in sorted(_DSIGS):
        c = []
        for i in range(per):
            vals = []
            if nm == "d_q_slerp":
                a, b = _rand_quat(rng), _rand_quat(rng)
                if i % 2 == 0:   # near-parallel: the linear fallback, which multiplies a float factor with double quaternions
                    b = unit([x + rng.pick([0.001, 0.01, 0.02, 0.03]) * rng.uniform(-1, 1) for x in a])
                if i % 7 == 1:
                    b = [-x for x in a] if i % 2 else unit([-x + 0.001 * rng.uniform(-1, 1) for x in a])
                f = trprop.r32(rng.pick([0.0, 1.0, 0.5]) if rng.chance(0.3) else rng.uniform(0, 1))
                vals = [f] + _quat_fields(a) + _quat_fields(b)
            elif nm == "d_q_from_matrix":
                q = _rand_quat(rng, dominant=i % 4)
                if i % 5 == 4:
                    q = qaxis(_rand_unit(rng), rng.pick([1.0, -1.0]) * (math.pi - rng.pick([1e-7, 1e-5, 1e-3, 5e-2])))
                vals = flat(qmat(q))
            elif nm.endswith("_l2_orthogonal"):
                # M = R(a) diag(sx, sy) R(b), b = 0 in half of the cases (perpendicular columns), mirrored in a quarter
                a_, b_ = rng.uniform(-math.pi, math.pi), (0.0 if i % 2 == 0 else rng.uniform(-math.pi, math.pi))
                sx, sy = rng.pick([0.25, 0.5, 1.0, 2.0, 5.0]), rng.pick([0.25, 0.5, 1.0, 3.0, 5.0])
                if i % 4 == 3:
                    sx = -sx
                rot = lambda t: [[math.cos(t), math.sin(t)], [-math.sin(t), math.cos(t)]]
                vals = flat(mat_mul(mat_mul(rot(a_), [[sx, 0], [0, sy]]), rot(b_)))
            elif nm == "d_a3_lookat":
                eye = [rng.uniform(-2, 2) for _ in range(3)]
                d = _rand_unit(rng)
                pt = [e + 2 * x for e, x in zip(eye, d)]
                up = rng.pick([[0, 1, 0], [0, 0, 1], [1, 0, 0]])
                if abs(sum(x * y for x, y in zip(d, up))) > 0.9:
                    up = [up[1], up[2], up[0]]
                vals = eye + pt + up
            else:
                for t in _DSIGS[nm]:
                    if t == "Q":
                        vals += _quat_fields(_rand_quat(rng))
                    elif t == "Qs":
                        sc = rng.pick([0.5, 1.0, 2.0])
                        vals += [x * sc for x in _quat_fields(_rand_quat(rng))]
                    elif t == "L":
                        vals += flat(_rand_mat3(rng))
                    elif t == "A":
                        vals += flat(_rand_mat3(rng)) + [rng.uniform(-2, 2) for _ in range(3)]
                    elif t == "L2":
                        vals += flat(_rand_mat2(rng))
                    elif t == "v":
                        vals += [rng.uniform(-2, 2) for _ in range(3)]
                    elif t in ("u", "n"):
                        v = _rand_unit(rng)
                        if rng.chance(0.25):
                            v = [0.0, 0.0, 0.0]
                            v[rng.randrange(3)] = rng.pick([1.0, -1.0])
                        vals += v
                    elif t == "r":
                        vals += [rng.uniform(-2 * math.pi, 2 * math.pi)]
                    elif t == "s":
                        vals += [trprop.r32(rng.pick([0.25, 0.5, 2.0, 4.0, -1.0, 0.3, 1.7]))]
            if nm.startswith("f_"):
                vals = [trprop.r32(float(x)) for x in vals]
            c.append(nm + " " + " ".join(d2h(float(x)) for x in vals))
            if len(c) == 25:
                cases.append(c)
                c = []
        if c:
            cases.append(c)
    return cases


def extra_stage(rep, ctx):
    h = HARNESSES[0]
    hb, hout = core.build_harness("c06", h["src"], (), h["flags"], core.SAN, "c++11", (), "-O1", h["extra_deps"])
    if hb is None:
        return None
    rng = core.Rng(rep.seed + 2000)
    cases = gen_cases(rng, rep.tier, h)
    rc, out, err = core.run_prog(hb, core.cases_to_text(cases), timeout=900)
    io = core.split_output(out)
    n, reported, distinct = 0, 0, set()
    for k, c in enumerate(cases):
        for line, o in zip(c, io.get(k, [])):
            w = line.split()
            try:
                res = [h2f(t) for t in o.split() if len(t) == 8 or t == "nan"]
            except ValueError:
                continue
            n += 1
            distinct.add(line)
            if w[0] in _ISIGS or w[0] in ("q_iadds", "q_isubs"):
                msg = compound_reference(w[0], [h2f(x) for x in w[1:]], res, 3e-5)
            else:
                msg = reference(w[0], [h2f(x) for x in w[1:]], res)
            if msg and reported < 3:
                reported += 1
                rep.violation(dict(kind="property-oracle", ops=[line], impl=[o], args=[h2f(x) for x in w[1:]], detail=msg,
                                   explanation="the real code's result differs from the independent reference of the mathematical definition beyond the tolerance"))
    # double-precision instantiations through the same reference (names without the d_ prefix)
    dcases = gen_double_cases(core.Rng(rep.seed + 3000), rep.tier)
    rc, out, err = core.run_prog(hb, core.cases_to_text(dcases), timeout=900)
    dio = core.split_output(out)
    for k, c in enumerate(dcases):
        for line, o in zip(c, dio.get(k, [])):
            w = line.split()
            try:
                res = [h2d(t) for t in o.split() if len(t) == 16 or t == "nan"]
            except ValueError:
                continue
            n += 1
            distinct.add(line)
            nm = w[0][2:]
            nm = {"q_smul": "q_smul_ref", "q_muls": "q_muls_ref"}.get(nm, nm)
            a = [h2d(x) for x in w[1:]]
            T = 1e-13 if w[0].startswith("d_") else 3e-5
            if nm == "q_smul_ref":
                msg = None if _close(res, [a[0] * x for x in a[1:]], 1e-9) else "float * quatd must scale every component: expected %s" % [a[0] * x for x in a[1:]]
            elif nm == "l2_orthogonal":
                m_, u_ = _cols(a, 2), _cols(res, 2)
                msg = None
                if len(res) != 4 or any(x != x for x in res):
                    msg = "orthogonal() must return a finite matrix: %s" % res
                else:
                    g = mat_mul(transpose(u_), u_)
                    sym = mat_mul(transpose(u_), m_)
                    scale = max(abs(x) for x in a)
                    if not _close(flat(g), [1, 0, 0, 1], 2e-3):
                        msg = "orthogonal() must return an orthogonal matrix (U^T U = 1): U^T U = %s" % g
                    elif abs(sym[0][1] - sym[1][0]) > 2e-3 * scale or sym[0][0] <= 0 or sym[1][1] <= 0:
                        msg = "orthogonal() must return the closest orthogonal matrix (U^T M symmetric positive definite): U^T M = %s" % sym
            elif nm == "q_muls_ref":
                msg = None if _close(res, [a[4] * x for x in a[:4]], 1e-9) else "quatd * float must scale every component: expected %s" % [a[4] * x for x in a[:4]]
            elif nm in _ISIGS or nm == "l3_ldiv":
                msg = compound_reference(nm, a, res, T)
            else:
                msg = reference(nm, a, res, T)
            if msg and reported < 3:
                reported += 1
                rep.violation(dict(kind="property-oracle", ops=[line], impl=[o], args=a, detail=("double" if w[0].startswith("d_") else "float") + " instantiation: " + msg,
                                   explanation="the real code's double-precision result differs from the independent reference of the mathematical definition beyond the tolerance"))
    return dict(evaluations=n, distinct=distinct, samples=[dict(oracle_case=cases[0][:2], impl=io.get(0, [])[:2])] if cases else [],
                found_input=reported > 0)


MANIFEST = dict(
    text=("70 Lean 4 theorems about definitions REGENERATED on every run from the clang AST of LinearSpace.h / AffineSpace.h / "
          "Quaternion.h (82 wrappers, 200+ translated functions): M*inverse(M) = inverse(M)*M = 1 and rcp(A)*A = A*rcp(A) = 1 "
          "(det != 0), (A*B)p = A(Bp) for linear and affine maps, det multiplicative, adjoint/transposed/rows by components, "
          "xfmPoint/xfmVector/xfmNormal = full map / linear part / inverse transpose, rotate(axis,angle) orthogonal with det 1, "
          "fixing the axis, trace 1+2cos (given s^2+c^2=1 and a square-root law), 2D rotation proper, the matrix of a quaternion "
          "acts as q v conj(q), Hamilton product associative / norm-multiplicative / composing rotations, yaw-pitch-roll = "
          "qY*qX*qZ, scale/translate/rotate-about-a-point fix the documented axes and point, lookat has det -1 and frame det +1; "
          "frame(N), frame(N,up) (all unit N, up incl. parallel/anti-parallel) and lookat are orthonormal — the helper axis is never "
          "the zero vector; slerp(0,a,b) = ±a and slerp(1,a,b) = b in both branches and slerp takes the short way; the quaternion "
          "rebuilt from the rotation matrix of a unit quaternion q is q or -q in each of the four branches, whose pivot is never 0 "
          "— over any ordered field with abstract sin/cos/acos and a square-root law (satisfiable: shown for the reals). The regenerated definitions are also executed "
          "at Float32 (libm sinf/cosf/acosf/sqrtf) and compared bit for bit with the real functions; an independent double-precision "
          "reference (Rodrigues, cofactor inverse, standard slerp) checks every wrapper within a conditioned tolerance."),
    note=("Trusted: Lean kernel + propext/Classical.choice/Quot.sound; clang-14 AST + tools/cpp2lean.py (validated each run by the "
          "bit-exact correspondence); exact-field arithmetic instead of IEEE rounding ('within tolerance' is observed, not proved); "
          "slerp between its end points and orthogonal() (a loop, outside the translator's subset) are covered by the reference oracle only; double-precision instantiations (incl. the mixed-precision overloads they alone use; tolerance 1e-13 x condition) and the compound assignments (*=, /=, +=, -= for float and double, also x *= x) are harness-only wrappers covered by the reference oracle only."),
    technique="Lean 4 proof (ring/linear_combination identities) over a model regenerated from the C++ AST + bit-exact differential check + reference oracle")
