"""C05 — ranges and boxes as closed axis-aligned sets.

Tie T: tools/cpp2lean.py regenerates lean/RkVerif/Gen/C05.lean from /repo's range.h / box.h /
AffineSpace.h (through the wrappers of tr/c05_drv.cpp) on every run; the theorems of Props/C05.lean are
re-checked against it. Tie C: the regenerated definitions, executed at Float32, are compared bit for bit
with the real functions on generated inputs (validates the translator). Search: an implementation-side
oracle evaluates the property itself (in exact order arithmetic / correctly rounded float32 emulation) on
what the real code returned.
"""
import os
import re
import struct
import sys

from vlib import core

sys.path.insert(0, os.path.join(core.ROOT, "tools"))

ID = "C05"
MODULE = "RkVerif.Props.C05"
DRIVER = "drv_c05"
THOROUGH_MODULES = ["RkVerif.Gen.C05", "RkVerif.Sem.CNum"]
HARNESSES = [dict(name="c05", src="harness/c05.cpp", flags=["-DRKCOMMON_NO_SIMD", "-ffp-contract=off"],
                  extra_deps=["tr/c05_drv.cpp", "harness/gen/c05_dispatch.inc", "harness/drv_common.h"])]
RULE = ("per wrapper of tr/c05_drv.cpp (59 entities of range.h/box.h/xfmBounds/intersectRayBox, dims 1-4 and padded 3): "
        "arguments drawn from a small grid {-2,-1,-.5,0,.5,1,2,3} (touching / nested / per-axis-only overlap / degenerate / "
        "inverted boxes and points exactly on faces, edges, corners are frequent), ±inf and the default (empty) box, plus random "
        "floats; non-trivial = distinct (wrapper, argument bits) with at least one non-default box; results compared bit for bit "
        "with the Float32 evaluation of the regenerated Lean definitions and checked against the property oracle")
ASSUMPTIONS = [
    "clang-14's AST of the instantiated templates is a faithful account of the source; the translator's mapping is validated by the bit-exact comparison",
    "IEEE-754 single precision without NaN forms a bounded linear order; order-only theorems hold for it exactly",
    "arithmetic theorems (size/center/area/volume/xfmBounds/rayBox) are over exact ordered fields; float results are within rounding (observed)",
    "RKCOMMON_NO_SIMD definition of rcp (1/x) is the one translated; the SIMD Newton-Raphson variant is property C07",
]
EXPLAIN = "the real range/box code and the Lean definitions regenerated from it disagree: translator or compiler discrepancy (tie broken)"

OUT_OF_SCOPE = {
    # declared in range.h / box.h but outside the property or not pure value code
    "fromString", "operator<<", "operator T*", "operator const T*", "anyLessThan",
}

GEN_FILES = {
    "lean": "lean/RkVerif/Gen/C05.lean",
    "dispatch": "lean/RkVerif/Gen/C05Dispatch.lean",
    "inc": "harness/gen/c05_dispatch.inc",
}
_sigs = {}


def _write_if_changed(path, text):
    p = os.path.join(core.ROOT, path)
    if not os.path.exists(p) or open(p).read() != text:
        os.makedirs(os.path.dirname(p), exist_ok=True)
        open(p, "w").write(text)
        return True
    return False


def regenerate(rep):
    from vlib import trprop
    return trprop.regenerate(rep, "C05", "tr/c05_drv.cpp", ["RKCOMMON_NO_SIMD"],
                             ["rkcommon/math/range.h", "rkcommon/math/box.h"], OUT_OF_SCOPE, _sigs)


# --------------------------------------------------------------------------- generator

def f2h(x):
    return "%08x" % struct.unpack("<I", struct.pack("<f", x))[0]


def h2f(s):
    if s == "nan":
        return float("nan")
    return struct.unpack("<f", struct.pack("<I", int(s, 16)))[0]


GRID = [-2.0, -1.0, -0.5, 0.0, 0.5, 1.0, 2.0, 3.0]
INF = float("inf")


def _flat_n(t, fields):
    if t in ("α", "Int", "Bool"):
        return 1
    return sum(_flat_n(ft, fields) for f, ft in fields[t.replace(" α", "")] if not f.startswith("padding"))


def _gen_value(rng, t, fields, style):
    """-> list of floats for lean type t"""
    name = t.replace(" α", "")
    if t == "α":
        r = rng.random()
        if style == "rand" or r < 0.08:
            return [round(rng.uniform(-4, 4), 3)]
        if r < 0.10:
            return [rng.pick([INF, -INF])]
        return [rng.pick(GRID)]
    if name.startswith("Box") or name == "Range1":
        (f1, t1), (f2, t2) = fields[name]
        r = rng.random()
        if r < 0.07:   # default (empty) box
            n = _flat_n(t1, fields)
            return [INF] * n + [-INF] * n
        lo = _gen_value(rng, t1, fields, style)
        up = _gen_value(rng, t2, fields, style)
        if r < 0.80:   # mostly non-inverted
            lo, up = [min(a, b) for a, b in zip(lo, up)], [max(a, b) for a, b in zip(lo, up)]
        return lo + up
    out = []
    for f, ft in fields[name]:
        if f.startswith("padding"):
            continue
        out += _gen_value(rng, ft, fields, style)
    return out


def gen_cases(rng, tier, h):
    fields = _sigs["__fields__"]
    names = sorted(k for k in _sigs if not k.startswith("__"))
    per = 60 if tier == "quick" else 12000
    cases = []
    for nm in names:
        params, rt = _sigs[nm]
        c = []
        for i in range(per):
            style = "rand" if i % 5 == 4 else "grid"
            vals = []
            if nm.startswith("ray_") and i % 6 == 3:
                # structured hit: the ray passes through an interior point of the box at parameter t0 > 0 with a generic
                # direction; tRange is chosen around the entry/exit parameters (finite upper bound below the exit, lower
                # bound above the entry, default range ...)
                n = 3 if nm == "ray_box3" else 2
                lo = [rng.pick([-2.0, -1.0, 0.0, 8.0]) for _ in range(n)]
                up = [l + rng.pick([1.0, 2.0, 3.0]) for l in lo]
                d = [rng.pick([1.0, -1.0, 0.5, -2.0, 0.25, 3.0]) for _ in range(n)]
                mid = [l + rng.pick([0.25, 0.5, 0.75]) * (u - l) for l, u in zip(lo, up)]
                t0 = rng.pick([0.5, 1.0, 2.0, 4.0])
                org = [m - t0 * k for m, k in zip(mid, d)]
                tr = rng.pick([[0.0, INF], [0.0, t0], [0.0, t0 - 0.25], [t0, INF], [t0 + 0.125, 100.0], [0.0, t0 + 0.0625], [-5.0, 0.25]])
                byname = dict(org=org, dir=d, b=lo + up, tr=tr)
                for pn, t in params:
                    vals += byname[pn]
                c.append(nm + " " + " ".join(f2h(x) for x in vals))
                if len(c) == 20:
                    cases.append(c)
                    c = []
                continue
            if nm.startswith("ray_") and i % 6 == 5:
                # nearly (not exactly) axis-parallel: one direction component of tiny non-zero magnitude, the origin just
                # outside that axis' slab, so that this slab decides where the interval begins (at parameter tin); the other
                # axes are exactly parallel with the origin strictly inside their slabs
                n = 3 if nm == "ray_box3" else 2
                k = rng.randrange(n)
                tiny = rng.pick([1e-8, 3e-8, 1e-7, 1e-10, 1e-15, 1e-20]) * rng.pick([1.0, -1.0])
                tin = rng.pick([2.0, 4.0, 10.0])
                lo = [rng.pick([-2.0, -1.0, 0.0]) for _ in range(n)]
                up = [l + rng.pick([1.0, 2.0]) for l in lo]
                lo[k], up[k] = (0.0, rng.pick([1.0, 2.0])) if tiny > 0 else (-rng.pick([1.0, 2.0]), 0.0)
                org = [l + rng.pick([0.25, 0.5, 0.75]) * (u - l) for l, u in zip(lo, up)]
                org[k] = r32(-r32(tiny) * tin)
                d = [0.0] * n
                d[k] = tiny
                tr = rng.pick([[0.0, INF], [0.0, 100.0], [1.0, 50.0], [0.0, tin * 0.5]])
                byname = dict(org=org, dir=d, b=lo + up, tr=tr)
                for pn, t in params:
                    vals += byname[pn]
                c.append(nm + " " + " ".join(f2h(x) for x in vals))
                if len(c) == 20:
                    cases.append(c)
                    c = []
                continue
            if nm.startswith("ray_") and i % 6 == 1:
                # structured axis-parallel ray: one axis k with direction exactly 0 and the origin in the lower face plane,
                # the upper face plane, strictly inside or strictly outside of that axis' slab; the ray crosses the box
                n = 3 if nm == "ray_box3" else 2
                far = rng.pick([0.0, 0.0, 8.0, -100.0, 1000.0])   # scenes away from the origin too
                lo = [far + rng.pick([-2.0, -1.0, 0.0]) for _ in range(n)]
                up = [l + rng.pick([0.5, 1.0, 2.0, 3.0]) for l in lo]
                k = rng.randrange(n)
                org = [l + rng.pick([0.25, 0.5, 0.75]) * (u - l) for l, u in zip(lo, up)]
                org[k] = rng.pick([lo[k], up[k], lo[k] + 0.5 * (up[k] - lo[k]), up[k] + 0.5, lo[k] - 0.5])
                d = [rng.pick([1.0, -1.0, 0.5, -2.0]) for _ in range(n)]
                d[k] = rng.pick([0.0, 0.0, -0.0])      # either zero (-0.0 is what -vec3f(0,0,1) has in x and y)
                tr = rng.pick([[0.0, INF], [0.0, 10.0], [-5.0, 5.0], [0.25, 1.0]])
                byname = dict(org=org, dir=d, b=lo + up, tr=tr)
                for pn, t in params:
                    vals += byname[pn]
                c.append(nm + " " + " ".join(f2h(x) for x in vals))
                if len(c) == 20:
                    cases.append(c)
                    c = []
                continue
            if nm.endswith("_contains") and i % 4 == 1:
                # a point ON a face / corner of the box (every component equal to lower or upper of its axis), also for
                # inverted (empty) boxes: nothing is inside an empty box, not even its own `lower`
                (bn, bt), (qn, qt) = params[0], params[1]
                box = _gen_value(rng, bt, fields, style)
                half = len(box) // 2
                box = [x if abs(x) != INF else 1.0 for x in box]
                if i % 8 == 1:     # invert one axis
                    k = rng.randrange(half)
                    lo_, up_ = max(box[k], box[half + k]) + 1.0, min(box[k], box[half + k])
                    box[k], box[half + k] = lo_, up_
                npt = len(_gen_value(rng, qt, fields, style))
                pt = [rng.pick([box[k], box[half + k]]) for k in range(min(half, npt))] + [0.0] * max(0, npt - half)
                c.append(nm + " " + " ".join(f2h(x) for x in box + pt))
                if len(c) == 20:
                    cases.append(c)
                    c = []
                continue
            for pn, t in params:
                v = _gen_value(rng, t, fields, style)
                if nm.startswith("ray_") and pn == "dir" and rng.chance(0.7):
                    v = [x if abs(x) >= 0.25 and abs(x) != INF else rng.pick([1.0, -1.0, 0.5, -2.0]) for x in v]
                    if rng.chance(0.45):   # axis-parallel: one or more components exactly zero (never all)
                        zs = [k for k in range(len(v)) if rng.chance(0.5)]
                        if len(zs) == len(v):
                            zs = zs[1:]
                        v = [rng.pick([0.0, 0.0, -0.0]) if k in zs else x for k, x in enumerate(v)]
                if nm.startswith("ray_") and pn == "tr":
                    v = sorted(abs(x) if abs(x) != INF else 1.0 for x in v)
                    if rng.chance(0.5):
                        v[1] = INF
                if nm.startswith("xfm_") and pn == "m":
                    v = [x if abs(x) != INF else 1.0 for x in v]
                    if i % 4 == 1 and len(v) == 12:
                        # pure scales / mirrors (all off-diagonal entries exactly 0, at least one negative factor in half
                        # of them) with a translation: an axis-aligned box stays axis-aligned but its corners swap roles
                        sc = [rng.pick([0.5, 1.0, 2.0, 3.0]) * (rng.pick([1.0, -1.0]) if rng.chance(0.6) else 1.0) for _ in range(3)]
                        v = [sc[0], 0.0, 0.0, 0.0, sc[1], 0.0, 0.0, 0.0, sc[2]] + v[9:]
                if nm.startswith("xfm_") and pn != "m" and i % 4 == 2 and len(v) == 6:
                    # degenerate boxes: a single point, a segment, a rectangle (lower == upper on 3 / 2 / 1 axes)
                    deg = rng.pick([(0, 1, 2), (0, 1, 2), (0, 1), (1, 2), (2,)])
                    v = [x if abs(x) != INF else 1.0 for x in v]
                    for ax in deg:
                        v[3 + ax] = v[ax]
                vals += v
            c.append(nm + " " + " ".join(f2h(x) for x in vals) if vals else nm)
            if len(c) == 20:
                cases.append(c)
                c = []
        if c:
            cases.append(c)
    return cases


def nontrivial(case):
    return any(len(l.split()) > 3 for l in case)


# --------------------------------------------------------------------------- property oracle (search)

def r32(x):
    try:
        return struct.unpack("<f", struct.pack("<f", x))[0]
    except OverflowError:
        return INF if x > 0 else -INF


def _dims(nm):
    p = nm.split("_")[0]
    return {"r1": 1, "b2": 2, "b3": 3, "b3a": 3, "b4": 4}.get(p)


def oracle(nm, a, out):
    """Evaluate the property on one observation of the real code. Returns None (ok / not judged) or a message.
    `a` are the argument floats, `out` the result tokens (floats or '0'/'1')."""
    n = _dims(nm)
    if n is None or any(x != x for x in a):
        return None
    op = nm.split("_", 1)[1]
    lo, up = a[:n], a[n:2 * n]
    rest = a[2 * n:]
    inverted = any(u < l for l, u in zip(lo, up))
    res = [h2f(t) if len(t) == 8 or t == "nan" else (t == "1") for t in out]
    if op == "contains":
        exp = all(l <= p <= u for l, p, u in zip(lo, rest, up))
        if res[0] != exp:
            return "contains(p) must be lower<=p<=upper in every component: expected %s" % exp
    elif op in ("extend", "extend_r", "extend_b"):
        lo2 = rest[:n] if op != "extend" else rest
        up2 = rest[n:] if op != "extend" else rest
        is_default = all(l == INF for l in lo) and all(u == -INF for u in up)
        if inverted and not is_default:
            return None
        exp = [min(x, y) for x, y in zip(lo, lo2)] + [max(x, y) for x, y in zip(up, up2)]
        if res != exp:
            return "extend must yield the smallest box containing the old box and the argument: expected %s" % exp
    elif op == "clamp":
        if inverted:
            return None
        exp = [max(l, min(p, u)) for l, p, u in zip(lo, rest, up)]
        if res != exp:
            return "clamp must return the nearest contained point: expected %s" % exp
    elif op == "empty":
        exp = any(u < l for l, u in zip(lo, up))
        if res[0] != exp:
            return "empty() must hold exactly when some axis has upper<lower: expected %s" % exp
    elif op == "default" or op == "emptyctor":
        if res != [INF] * n + [-INF] * n:
            return "the default box must be [+inf,-inf]"
    elif op == "inter":
        lo2, up2 = rest[:n], rest[n:]
        exp = [max(x, y) for x, y in zip(lo, lo2)] + [min(x, y) for x, y in zip(up, up2)]
        if res != exp:
            return "intersectionOf must contain exactly the common points: expected bounds %s" % exp
    elif op in ("disjoint", "touching"):
        lo2, up2 = rest[:n], rest[n:]
        dj = any(u < l2 for u, l2 in zip(up, lo2)) or any(u2 < l for u2, l in zip(up2, lo))
        exp = dj if op == "disjoint" else not dj
        if res[0] != exp:
            return "%s must be %s here (disjoint <=> not touchingOrOverlapping <=> separated on some axis)" % (op, exp)
        if op == "disjoint":
            inv2 = any(u < l for l, u in zip(lo2, up2))
            inter_empty = any(min(u, u2) < max(l, l2) for l, u, l2, u2 in zip(lo, up, lo2, up2))
            if inter_empty != res[0]:
                return ("KNOWN:C05-inverted-box-disjoint" if (inverted or inv2) else
                        "intersectionOf is empty exactly when disjoint() holds: intersection empty=%s" % inter_empty)
    elif op == "size":
        exp = [r32(u - l) for l, u in zip(lo, up)]
        if res != exp and not any(abs(x) == INF for x in lo + up):
            return "size must be upper-lower: expected %s" % exp
    elif op in ("center", "center_free"):
        if any(abs(x) == INF for x in lo + up):
            return None
        exp = [r32(0.5 * r32(l + u)) for l, u in zip(lo, up)]
        if res != exp:
            return "center must be (lower+upper)/2: expected %s" % exp
    elif op in ("scale", "translate", "scale_l", "translate_l"):
        if nm.endswith("_l"):
            s, lo, up = a[:1] * n, a[1:1 + n], a[1 + n:1 + 2 * n]
        else:
            s = rest
        if any(abs(x) == INF for x in lo + up + list(s)):
            return None
        f = (lambda x, y: r32(x * y)) if op.startswith("scale") else (lambda x, y: r32(x + y))
        exp = [f(l, k) for l, k in zip(lo, s)] + [f(u, k) for u, k in zip(up, s)]
        if res != exp:
            return "%s must act per component on both bounds: expected %s" % (op, exp)
    elif op in ("area", "volume"):
        if any(abs(x) == INF for x in lo + up):
            return None
        sz = [r32(u - l) for l, u in zip(lo, up)]
        if op == "volume" or n == 2:
            e = sz[0]
            for k in sz[1:]:
                e = r32(e * k)
        else:
            e = r32(2.0 * r32(r32(r32(sz[0] * sz[1]) + r32(sz[0] * sz[2])) + r32(sz[1] * sz[2])))
        if res != [e]:
            return "%s does not match its definition: expected %s" % (op, e)
    elif op in ("eq", "ne"):
        exp = (lo == rest[:n] and up == rest[n:])
        if res[0] != (exp if op == "eq" else not exp):
            return "box comparison must compare both bounds in every component"
    return None


def oracle_xfm(a, out):
    if any(x != x or abs(x) == INF for x in a):
        return None
    m, b = a[:12], a[12:]
    lo, up = b[:3], b[3:]
    if any(u < l for l, u in zip(lo, up)):
        return None
    res = [h2f(t) for t in out]
    vx, vy, vz, p = m[0:3], m[3:6], m[6:9], m[9:12]
    mag = max(1.0, max(abs(x) for x in a)) ** 2 * 8
    for cx in (0, 0.5, 1):
        for cy in (0, 0.25, 1):
            for cz in (0, 0.75, 1):
                q = [lo[0] + cx * (up[0] - lo[0]), lo[1] + cy * (up[1] - lo[1]), lo[2] + cz * (up[2] - lo[2])]
                img = [p[i] + q[0] * vx[i] + q[1] * vy[i] + q[2] * vz[i] for i in range(3)]
                for i in range(3):
                    if not (res[i] - 1e-5 * mag <= img[i] <= res[3 + i] + 1e-5 * mag):
                        return "xfmBounds must contain the image of every point of the box: point %s maps to %s outside %s" % (q, img, res)
    return None


def _oracle_ray_tspace(n, org, d, lo, up, tr, res):
    """direction components of tiny (but normal) magnitude: the exact parameter interval, computed per slab in double
    precision, against the returned one at parameters well away (2 %) from every end point"""
    t0, t1 = tr
    for k in range(n):
        if d[k] == 0.0:
            if not (lo[k] < org[k] < up[k]):
                return None       # outside / on a face of a parallel axis: judged by the point-sampling oracle
        else:
            a_, b_ = (lo[k] - org[k]) / d[k], (up[k] - org[k]) / d[k]
            t0, t1 = max(t0, min(a_, b_)), min(t1, max(a_, b_))
    if any(x != x for x in res):
        return None
    ends = [e for e in (t0, t1, res[0], res[1]) if abs(e) != INF]
    if any(abs(e) > 1e30 for e in ends):
        return None
    cands = []
    for e in ends:
        m = 0.02 * max(1.0, abs(e))
        cands += [e - 3 * m, e + 3 * m]
    if abs(t0) != INF and abs(t1) != INF:
        cands.append(0.5 * (t0 + t1))
    for t in cands:
        if any(abs(t - e) < 0.02 * max(1.0, abs(e)) for e in ends):
            continue
        inside = t0 <= t <= t1
        got = res[0] <= t <= res[1]
        if inside != got:
            return ("intersectRayBox must cover exactly the ray parameters whose points lie inside the box (nearly axis-parallel "
                    "ray): exact interval [%s, %s], returned %s, parameter %s" % (t0, t1, res, t))
    return None


def oracle_ray(nm, a, out):
    """intersectRayBox covers exactly the ray parameters whose points lie inside the box. Axis-parallel rays (direction
    components that are exactly 0) are judged by exact geometry: the component stays at org_k. Not judged: components of
    tiny non-zero magnitude, anything within 1e-3 of a face (rounding), inverted boxes, non-finite arguments."""
    n = 3 if nm == "ray_box3" else 2
    if any(x != x for x in a):
        return None
    org, d, lo, up, tr = a[:n], a[n:2 * n], a[2 * n:3 * n], a[3 * n:4 * n], a[4 * n:]
    if any(x != 0.0 and 1e-25 < abs(x) < 0.2 for x in d) and not any(abs(x) == INF for x in d + org + lo + up) \
            and all(l <= u for l, u in zip(lo, up)) and tr[0] <= tr[1]:
        return _oracle_ray_tspace(n, org, d, lo, up, tr, [h2f(t) for t in out])
    if any((x != 0.0 and abs(x) < 0.2) or abs(x) == INF for x in d) or any(u < l for l, u in zip(lo, up)) or any(abs(x) == INF for x in org + lo + up):
        return None
    if all(x == 0.0 for x in d):
        return None
    res = [h2f(t) for t in out]
    on_face = False          # an axis-parallel ray whose origin lies exactly in a face plane of its own axis
    for k in range(n):
        if d[k] == 0.0:
            if org[k] == lo[k] or org[k] == up[k]:
                on_face = True
            elif min(abs(org[k] - lo[k]), abs(org[k] - up[k])) < 1e-3:
                return None
    if any(x != x for x in res):
        if any(x == 0.0 for x in d):
            return "intersectRayBox returns NaN for an axis-parallel ray: %s" % res
        return None
    for t in [-3.0, -1.0, -0.37, 0.0, 0.21, 0.5, 0.77, 1.0, 1.5, 2.25, 4.0, 9.0]:
        pt = [o + t * k for o, k in zip(org, d)]
        margin = min([abs(x - l) for x, l, k in zip(pt, lo, d) if k != 0.0] + [abs(x - u) for x, u, k in zip(pt, up, d) if k != 0.0]
                     + [abs(t - tr[0]), abs(t - tr[1])])
        if margin < 1e-3:
            continue
        inside = all(l <= x <= u for l, x, u in zip(lo, pt, up)) and tr[0] <= t <= tr[1]
        got = res[0] <= t <= res[1]
        if inside != got:
            if on_face and inside and not got:
                return "KNOWN:C05-raybox-axis-parallel-on-face"
            return ("intersectRayBox must cover exactly the ray parameters whose points lie inside the box: t=%s point=%s inside=%s interval=%s"
                    % (t, pt, inside, res))
    return None


# ---- integer instantiations (harness-only wrappers `i_*`): exact integer oracle

IMIN, IMAX = -(1 << 31), (1 << 31) - 1
_IVALS = [IMIN, IMIN + 1, -3, -1, 0, 1, 2, 5, IMAX - 1, IMAX]


def _ival(rng):
    return rng.pick(_IVALS) if rng.chance(0.6) else rng.randrange(-4, 5)


def _irange(rng):
    a, b = _ival(rng), _ival(rng)
    return [min(a, b), max(a, b)] if rng.chance(0.85) else [a, b]


def _ibox(rng):
    r = [_irange(rng) for _ in range(3)]
    return [x[0] for x in r] + [x[1] for x in r]


def gen_int_cases(rng, tier):
    per = 40 if tier == "quick" else 10000
    sig = {"i_r1_default": "", "i_b3_default": "", "i_r1_extend_s": "rs", "i_r1_extend_r": "rr", "i_r1_def_extend_s": "s",
           "i_r1_extend_def": "r", "i_r1_contains": "rs", "i_r1_empty": "r", "i_b3_extend_p": "bp", "i_b3_extend_b": "bb",
           "i_b3_def_extend_p": "p", "i_b3_extend_def": "b", "i_b3_contains": "bp", "i_b3_empty": "b", "i_b3_inter": "bb",
           "i_b3_disjoint": "bb", "i_b3_touch": "bb"}
    cases = []
    for nm in sorted(sig):
        c = []
        for _ in range(per if sig[nm] else 1):
            vals = []
            for t in sig[nm]:
                vals += [_ival(rng)] if t == "s" else _irange(rng) if t == "r" else [_ival(rng) for _ in range(3)] if t == "p" else _ibox(rng)
            c.append((nm + " " + " ".join(str(v) for v in vals)).strip())
        cases += [c[i:i + 25] for i in range(0, len(c), 25)]
    return cases, sig


def int_oracle(nm, a, out):
    """the closed-set semantics on integers; the default (empty) range/box is [MAX, MIN] per axis"""
    o = out.split()
    try:
        res = [int(x) for x in o]
    except ValueError:
        return "unparsable result %r" % out
    def rng_of(xs): return (xs[0], xs[1])
    def box_of(xs): return (xs[0:3], xs[3:6])
    empty_r = (IMAX, IMIN)
    def ext_r(r, lo, hi): return (min(r[0], lo), max(r[1], hi))
    if nm == "i_r1_default":
        return None if res == [IMAX, IMIN, 1] else "the default range must be the empty range [INT_MAX, INT_MIN] and report empty(): got %s" % res
    if nm == "i_b3_default":
        return None if res == [IMAX] * 3 + [IMIN] * 3 + [1] else "the default box must be the empty box [INT_MAX^3, INT_MIN^3] and report empty(): got %s" % res
    if nm in ("i_r1_extend_s", "i_r1_def_extend_s", "i_r1_extend_r", "i_r1_extend_def"):
        if nm == "i_r1_extend_s": r, t = rng_of(a), (a[2], a[2])
        elif nm == "i_r1_def_extend_s": r, t = empty_r, (a[0], a[0])
        elif nm == "i_r1_extend_r": r, t = rng_of(a), rng_of(a[2:])
        else: r, t = rng_of(a), empty_r
        exp = list(ext_r(r, t[0], t[1]))
        return None if res == exp else "extend must yield the smallest range containing both (the empty range is its identity): expected %s got %s" % (exp, res)
    if nm == "i_r1_contains":
        exp = int(a[0] <= a[2] <= a[1])
        return None if res == [exp] else "contains(t) must be lower <= t <= upper: expected %s" % exp
    if nm == "i_r1_empty":
        exp = int(a[0] > a[1])
        return None if res == [exp] else "empty() must be lower > upper: expected %s" % exp
    if nm in ("i_b3_extend_p", "i_b3_def_extend_p", "i_b3_extend_b", "i_b3_extend_def"):
        if nm == "i_b3_extend_p": b, t = box_of(a), (a[6:9], a[6:9])
        elif nm == "i_b3_def_extend_p": b, t = ([IMAX] * 3, [IMIN] * 3), (a[0:3], a[0:3])
        elif nm == "i_b3_extend_b": b, t = box_of(a), box_of(a[6:])
        else: b, t = box_of(a), ([IMAX] * 3, [IMIN] * 3)
        exp = [min(x, y) for x, y in zip(b[0], t[0])] + [max(x, y) for x, y in zip(b[1], t[1])]
        return None if res == exp else "extend must yield the smallest box containing both (the empty box is its identity): expected %s got %s" % (exp, res)
    if nm == "i_b3_contains":
        b, p = box_of(a), a[6:9]
        exp = int(all(l <= x <= u for l, x, u in zip(b[0], p, b[1])))
        return None if res == [exp] else "contains(p) must be lower <= p <= upper in every component: expected %s" % exp
    if nm == "i_b3_empty":
        b = box_of(a)
        exp = int(any(l > u for l, u in zip(b[0], b[1])))
        return None if res == [exp] else "empty() must hold exactly when some axis has lower > upper: expected %s" % exp
    if nm in ("i_b3_inter", "i_b3_disjoint", "i_b3_touch"):
        b, c = box_of(a), box_of(a[6:])
        inv = any(l > u for l, u in zip(b[0] + c[0], b[1] + c[1]))
        inter = [max(x, y) for x, y in zip(b[0], c[0])] + [min(x, y) for x, y in zip(b[1], c[1])]
        if nm == "i_b3_inter":
            return None if res == inter else "intersectionOf must contain exactly the common points: expected %s got %s" % (inter, res)
        if inv:
            return None   # inverted inputs: the known finding of the float instantiation; not judged here
        dis = int(any(l > u for l, u in zip(inter[:3], inter[3:])))
        exp = dis if nm == "i_b3_disjoint" else 1 - dis
        return None if res == [exp] else "%s must hold exactly when the intersection is %sempty: expected %s" % (nm[5:], "" if nm == "i_b3_disjoint" else "non-", exp)
    return None


def extra_stage(rep, ctx):
    """Property oracle on the real code's observations (search for a failing input; also run on every check)."""
    hb, hout = core.build_harness("c05", "harness/c05.cpp", (), HARNESSES[0]["flags"], core.SAN, "c++11", (), "-O1", HARNESSES[0]["extra_deps"])
    if hb is None:
        return None
    rng = core.Rng(rep.seed + 1000)
    cases = gen_cases(rng, rep.tier, HARNESSES[0])
    rc, out, err = core.run_prog(hb, core.cases_to_text(cases), timeout=600)
    io = core.split_output(out)
    n = 0
    distinct = set()
    reported = 0
    samples = []
    for k, c in enumerate(cases):
        for line, o in zip(c, io.get(k, [])):
            w = line.split()
            nm, a = w[0], [h2f(x) for x in w[1:]]
            n += 1
            distinct.add(line)
            if nm == "xfm_bounds":
                msg = oracle_xfm(a, o.split())
            elif nm.startswith("ray_"):
                msg = oracle_ray(nm, a, o.split())
            else:
                msg = oracle(nm, a, o.split())
            if msg is None:
                continue
            if msg.startswith("KNOWN:"):
                fid = msg[6:]
                if fid in ctx["known"]:
                    rep.known(fid, ctx["known"][fid]["text"])
                    continue
                msg = ("intersectionOf of/with an inverted box is empty but disjoint() is false" if "inverted" in fid else
                       "intersectRayBox does not cover parameters whose points lie inside the box (axis-parallel ray starting in a face plane)")
            if reported < 3:
                reported += 1
                rep.violation(dict(kind="property-oracle", ops=[line], impl=[o], args=a, detail=msg,
                                   explanation="the real code's result violates the property statement on this input"))
    # integer instantiations
    icases, _ = gen_int_cases(core.Rng(rep.seed + 4000), rep.tier)
    rc, out, err = core.run_prog(hb, core.cases_to_text(icases), timeout=600)
    iio = core.split_output(out)
    for k, c in enumerate(icases):
        for line, o in zip(c, iio.get(k, [])):
            w = line.split()
            n += 1
            distinct.add(line)
            msg = int_oracle(w[0], [int(x) for x in w[1:]], o)
            if msg and reported < 3:
                reported += 1
                rep.violation(dict(kind="property-oracle", ops=[line], impl=[o], args=[int(x) for x in w[1:]], detail="int32 instantiation: " + msg,
                                   explanation="the real code's result for the integer instantiation violates the property statement on this input"))
    if len(samples) < 1 and cases:
        samples.append(dict(oracle_case=cases[0][:3], impl=io.get(0, [])[:3]))
    return dict(evaluations=n, distinct=distinct, samples=samples, found_input=reported > 0)


MANIFEST = dict(
    text=("Lean 4 theorems about definitions REGENERATED on every run from the clang AST of range.h/box.h/AffineSpace.h "
          "(59 wrappers, 170+ translated functions, dims 1-4 and padded 3): contains <=> componentwise closed bounds; extend is the "
          "least upper box with the default box as identity; intersectionOf contains exactly the common points; disjoint <=> not "
          "touchingOrOverlapping; intersection empty <=> disjoint (for non-inverted inputs; the full statement is refuted by a "
          "witness and recorded as a known finding); clamp is the nearest contained point per axis — over ANY bounded linear order; "
          "size/center/area/volume/scale/translate equal their definitions, xfmBounds contains the image of every point of the box, "
          "intersectRayBox covers exactly the parameters whose points lie inside (non-degenerate directions) — over any ordered "
          "field. The regenerated definitions are also executed at Float32 and compared bit for bit with the real functions."),
    note=("Trusted: Lean kernel + propext/Classical.choice/Quot.sound; clang-14 AST + tools/cpp2lean.py (validated each run by the "
          "bit-exact correspondence on ~3.5k inputs); floats modelled as a bounded linear order (no NaN) / an exact ordered field; "
          "the axis-parallel ray case and float rounding are observed, not proved; RKCOMMON_NO_SIMD reciprocal."),
    technique="Lean 4 proof over a model regenerated from the C++ AST by a translator + bit-exact differential check of the translation")
